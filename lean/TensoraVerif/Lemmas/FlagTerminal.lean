import TensoraVerif.Lemmas.FlagTail

/-!
C03, infrastructure, part 4 (F3): INNER = the terminal block. The terminal block of `e` at the
LAST level of the output runs from the state after `bool written = false;`, respects the frame
of the flag branch (`InnerFrame`), and ends with the flag holding `true` iff `e ≠ Integer 0`.
-/
namespace TV.Flag
open TV.IR TV.Gen TV.Graph TV.Growth TV.ToIr

set_option linter.unusedSectionVars false
variable {F : Type} [FloatOps F]

/-! ### transport along states that differ in one written flag -/

/-- `σ'` is `σ` except for the variable `f` -/
structure SameBut (f : String) (σ σ' : State F) : Prop where
  heap : σ'.heap = σ.heap
  tensors : σ'.tensors = σ.tensors
  vars : ∀ y, y ≠ f → lookupVar σ'.vars y = lookupVar σ.vars y

theorem declFalse_sameBut (σ : State F) (f : String) : SameBut f σ (declFalse σ f) :=
  ⟨declFalse_heap σ f, declFalse_tensors σ f, fun y hy => declFalse_lookup_other σ f y hy⟩

theorem evalE_cursor_sameBut {σ σ' : State F} {s : String} {m : Nat}
    (h : SameBut (writtenName s m) σ σ') (id : String) (n : Nat) :
    evalE σ' (prevLayerPointer id n : Expr F) = evalE σ (prevLayerPointer id n) := by
  apply evalE_agree h.heap h.tensors
  intro y hy
  apply h.vars
  intro e
  rw [e, cursor_mentions] at hy
  cases hy

theorem ptrAt_sameBut {σ σ' : State F} {f x : String} {b : Nat} {off : Int} (h : SameBut f σ σ')
    (hx : x ≠ f) (hp : PtrAt σ x b off) : PtrAt σ' x b off := by
  obtain ⟨r, t, e1, e2, e3⟩ := hp
  exact ⟨r, t, (h.vars x hx).trans e1, e2, e3⟩

theorem floatCell_heap {σ σ' : State F} {b : Nat} {k : Int} {x : F} (hh : σ'.heap[b]? = σ.heap[b]?)
    (h : FloatCell σ b k x) : FloatCell σ' b k x := by
  obtain ⟨blk, e, r⟩ := h
  exact ⟨blk, by rw [hh]; exact e, r⟩

theorem outCell_heap {σ σ' : State F} {b : Nat} {k : Int} (hh : σ'.heap[b]? = σ.heap[b]?)
    (h : OutCell σ b k) : OutCell σ' b k := by
  obtain ⟨blk, e, r⟩ := h
  exact ⟨blk, by rw [hh]; exact e, r⟩

theorem leafOK_sameBut {σ σ' : State F} {s : String} {m : Nat} {ρ : String → F} {t : TensorId}
    (h : SameBut (writtenName s m) σ σ') (hl : LeafOK σ ρ t) : LeafOK σ' ρ t := by
  obtain ⟨b, off, p, h1, h2, h3⟩ := hl
  exact ⟨b, off, p, ptrAt_sameBut h (writtenName_ne_valsName _ _ _).symm h1,
    (evalE_cursor_sameBut h ..).trans h2, floatCell_heap (by rw [h.heap]) h3⟩

/-! ### the terminal block as INNER -/

/-- what the store of the terminal block needs (computing kernels): E1's hypotheses for every
tensor occurrence, finiteness, and the addressed cell `off + p` of the output's `vals` block `bo` -/
structure ValsReady (ofRat : Rat → F) (ρ : String → F) (e : IdExpr) (t : TensorId) (σ : State F)
    (bo : Nat) (off p : Int) : Prop where
  leaf : ∀ s ∈ leaves e, LeafOK σ ρ s
  fin : AllFinite ofRat ρ e
  out : PtrAt σ (valsName t.name) bo off
  cell : OutCell σ bo (off + p)

theorem valsReady_sameBut {ofRat : Rat → F} {ρ : String → F} {e : IdExpr} {t : TensorId}
    {σ σ' : State F} {bo : Nat} {off p : Int} {s : String} {m : Nat}
    (h : SameBut (writtenName s m) σ σ') (hv : ValsReady ofRat ρ e t σ bo off p) :
    ValsReady ofRat ρ e t σ' bo off p :=
  ⟨fun x hx => leafOK_sameBut h (hv.leaf x hx), hv.fin,
    ptrAt_sameBut h (writtenName_ne_valsName _ _ _).symm hv.out, outCell_heap (by rw [h.heap]) hv.cell⟩

/-- the state after the store of the terminal block (none for an assembling-only kernel) -/
def termState (k : Kind) (v : F) (σ1 : State F) (bo : Nat) (q : Int) : State F :=
  if k.isCompute then writeCell σ1 bo q (.flt v) else σ1

theorem termState_vars (k : Kind) (v : F) (σ1 : State F) (bo : Nat) (q : Int) :
    (termState k v σ1 bo q).vars = σ1.vars := by
  unfold termState; split
  · exact writeCell_vars ..
  · rfl

theorem termState_tensors (k : Kind) (v : F) (σ1 : State F) (bo : Nat) (q : Int) :
    (termState k v σ1 bo q).tensors = σ1.tensors := by
  unfold termState; split
  · exact writeCell_tensors ..
  · rfl

theorem termState_heap_other (k : Kind) (v : F) (σ1 : State F) (bo : Nat) (q : Int)
    (hc : k.isCompute = true → OutCell σ1 bo q) (j : Nat) (hj : j ≠ bo) :
    (termState k v σ1 bo q).heap[j]? = σ1.heap[j]? := by
  unfold termState; split
  · rename_i hk
    exact (writeCell_post (hc hk) _).other j hj
  · rfl

theorem termState_heap_length (k : Kind) (v : F) (σ1 : State F) (bo : Nat) (q : Int)
    (hc : k.isCompute = true → OutCell σ1 bo q) :
    (termState k v σ1 bo q).heap.length = σ1.heap.length := by
  unfold termState; split
  · rename_i hk
    exact (writeCell_post (hc hk) _).len
  · rfl

/-- the terminal block of `e` at the last level of an append output, for all three kinds -/
theorem terminal_inner_runs (ofRat : Rat → F) (ρ : String → F) (e : IdExpr) (t : TensorId) (k : Kind)
    (n fuel : Nat) (σ1 : State F) (bo : Nat) (off p : Int)
    (hcur : evalE σ1 (prevLayerPointer t.id t.indexes.length : Expr F) = .ok (.int p))
    (hc : k.isCompute = true → ValsReady ofRat ρ e t σ1 bo off p)
    (hfl : ∀ g ∈ activeFlags e (.append t t.indexes.length), FlagVar σ1 g) :
    ∃ inner, lower ofRat (n + 1) (.terminal e) (.append t t.indexes.length) k = .ok inner ∧
      Runs fuel inner.finalize σ1
        (setFlags (termState k (valueF ofRat ρ e) σ1 bo (off + p))
          (activeFlags e (.append t t.indexes.length))) := by
  cases hk : k.isCompute with
  | true =>
    obtain ⟨h1, h2, h3, h4⟩ := hc hk
    obtain ⟨b, hb, hr⟩ := terminal_append_runs ofRat ρ σ1 e t k hk n fuel bo off p h1 h2 h3 hcur h4 hfl
    refine ⟨b, hb, ?_⟩
    simpa [termState, hk] using hr
  | false =>
    refine ⟨_, lower_terminal_eq_assemble ofRat k hk n e _, ?_⟩
    simp only [termState, hk, Bool.false_eq_true, if_false]
    exact Runs.block (flags_run hfl)

theorem flagVar_vars {σ σ' : State F} {g : String} (hv : σ'.vars = σ.vars) (h : FlagVar σ g) :
    FlagVar σ' g := by
  obtain ⟨r, e1, e2⟩ := h
  exact ⟨r, by rw [hv]; exact e1, e2⟩

/-- the flag of a compressed level is one of the written flags of every output on its tensor -/
theorem flagName_mem_writtenFlags (l : Leaf) (o : Output) (ht : o.tensor = l.tensor)
    (hm : l.mode = .compressed) : flagName l ∈ o.writtenFlags := by
  unfold Output.writtenFlags flagName
  simp only [List.mem_filterMap, List.mem_range]
  have hm' : l.tensor.modes.getD l.layer .dense = .compressed := hm
  refine ⟨l.layer, ?_, by rw [ht, hm']; rfl⟩
  rw [ht]
  rcases Nat.lt_or_ge l.layer l.tensor.modes.length with h | h
  · exact h
  · rw [List.getD_eq_getElem?_getD, List.getElem?_eq_none h] at hm'
    cases hm'

/-- the cursor expression of the last level is the cursor of the leaf -/
theorem prevLayerPointer_last (l : Leaf) (hlast : l.layer + 1 = l.tensor.indexes.length) :
    (prevLayerPointer l.tensor.id l.tensor.indexes.length : Expr F) = .var l.ptr := by
  unfold prevLayerPointer Leaf.ptr
  rw [← hlast]
  simp

/-- names, strengthened: no written flag at all is the index variable -/
structure FlagNamesAll (l : Leaf) : Prop where
  distinct : namesDistinct l
  idx : ∀ s m, writtenName s m ≠ l.index

theorem FlagNamesAll.flagNames {l : Leaf} (h : FlagNamesAll l) : FlagNames l :=
  ⟨h.distinct, h.idx _ _⟩

theorem flagNamesAll_of_index (l : Leaf) (h : '_' ∉ l.index.toList) : FlagNamesAll l :=
  ⟨namesDistinct_of_index l h, fun _ _ => (ne_of_underscore h (writtenName_underscore _ _)).symm⟩

/-- **F3, assembling kinds, in `Runs` form.** -/
theorem flagTerminal_app (ofRat : Rat → F) (ρ : String → F) (e : IdExpr) (l : Leaf) (k : Kind)
    (hk : k.isAssemble = true) (n fuel : Nat) (σ σ0 : State F) (b : Nat) (c i : Int) (ws : List Int)
    (bo : Nat) (off : Int)
    (hlast : l.layer + 1 = l.tensor.indexes.length) (hmode : l.mode = .compressed)
    (hnames : FlagNamesAll l)
    (hpre : RunsL fuel (flagPre l k) σ σ0)
    (hfl0 : lookupVar σ0.vars (flagName l) = none ∨ FlagVar σ0 (flagName l))
    (hflags : ∀ g ∈ (Output.append l.tensor l.tensor.indexes.length).writtenFlags, g ≠ flagName l →
      FlagVar σ0 g)
    (happ : AppInv σ0 l b c ws) (hi : IntVar σ0 l.index i)
    (hi0 : -2147483648 ≤ i) (hi1 : i < 2147483648)
    (hn : (ws.length : Int) + 1 < 2147483648) (hov : c ≤ ws.length → 2 * c < 2147483648)
    (hc : k.isCompute = true → ValsReady ofRat ρ e l.tensor σ0 bo off ws.length) :
    ∃ inner σ3 b' c',
      lower ofRat (n + 1) (.terminal e) (.append l.tensor l.tensor.indexes.length) k = .ok inner ∧
      Runs fuel (flagBranch l k inner) σ σ3 ∧
      AppInv σ3 l b' c' (if e ≠ .int 0 then ws ++ [i] else ws) ∧
      (k.isCompute = true → FloatCell σ3 bo (off + ws.length) (valueF ofRat ρ e)) ∧
      (e ≠ .int 0 → ∀ g ∈ (Output.append l.tensor l.tensor.indexes.length).writtenFlags, FlagTrue σ3 g) ∧
      BoolVar σ3 (flagName l) (decide (e ≠ .int 0)) ∧
      (∀ x, x ≠ crdName l.tensor.name l.layer → x ≠ crdCapName l.tensor.name l.layer → x ≠ l.ptr →
        x ≠ flagName l → x ∉ activeFlags e (.append l.tensor l.tensor.indexes.length) →
        lookupVar σ3.vars x = lookupVar σ0.vars x) ∧
      (∀ j blk, j ≠ b → j ≠ bo → σ0.heap[j]? = some blk → σ3.heap[j]? = some blk ∧ j ≠ b') ∧
      (∀ blk, bo ≠ b → σ0.heap[bo]? = some blk → bo ≠ b' ∧ ∃ blk', σ3.heap[bo]? = some blk' ∧
        blk'.ty = blk.ty ∧ blk'.owner = blk.owner ∧ blk'.live = blk.live ∧
        blk'.cells.length = blk.cells.length) ∧
      σ3.tensors = σ0.tensors := by
  have hnames' := hnames.distinct
  simp only [namesDistinct, List.pairwise_cons, List.mem_cons, List.not_mem_nil, or_false,
    forall_eq_or_imp, forall_eq, List.Pairwise.nil, and_true, false_imp_iff, implies_true] at hnames'
  obtain ⟨⟨n1, n2, n3⟩, ⟨n4, n5⟩, n6⟩ := hnames'
  let out' : Output := .append l.tensor l.tensor.indexes.length
  let fl := activeFlags e out'
  have hsb : SameBut (flagName l) σ0 (declFalse σ0 (flagName l)) := declFalse_sameBut ..
  have hfw : AllWritten fl := allWritten_activeFlags e out'
  -- the flags are declared in σ1
  have hf1 : BoolVar (declFalse σ0 (flagName l)) (flagName l) false := declFalse_flag _ _ hfl0
  have hfl1 : ∀ g ∈ fl, FlagVar (declFalse σ0 (flagName l)) g := by
    intro g hg
    by_cases hgf : g = flagName l
    · rw [hgf]; exact hf1.flagVar
    · have hgw : g ∈ out'.writtenFlags := by
        have : fl = activeFlags e out' := rfl
        unfold activeFlags at this
        split at this
        · rw [this] at hg; exact hg
        · rw [this] at hg; cases hg
      obtain ⟨r, e1, e2⟩ := hflags g hgw hgf
      exact ⟨r, (hsb.vars g hgf).trans e1, e2⟩
  -- cursor
  have hp1 : IntVar (declFalse σ0 (flagName l)) l.ptr ws.length :=
    happ.ptr.congr (hsb.vars _ (flagName_ne_ptr l).symm)
  have hcur : evalE (declFalse σ0 (flagName l))
      (prevLayerPointer l.tensor.id l.tensor.indexes.length : Expr F) = .ok (.int ws.length) := by
    rw [prevLayerPointer_last l hlast]
    exact evalE_var_int hp1 (by omega) (by omega)
  have hc1 : k.isCompute = true →
      ValsReady ofRat ρ e l.tensor (declFalse σ0 (flagName l)) bo off ws.length :=
    fun h => valsReady_sameBut hsb (hc h)
  obtain ⟨inner, hlow, hrun⟩ := terminal_inner_runs ofRat ρ e l.tensor k n fuel
    (declFalse σ0 (flagName l)) bo off ws.length hcur hc1 hfl1
  have hcell1 : k.isCompute = true → OutCell (declFalse σ0 (flagName l)) bo (off + ws.length) :=
    fun h => (hc1 h).cell
  -- the crd block is not the vals block
  have hbbo : k.isCompute = true → b ≠ bo := by
    intro h e
    obtain ⟨blk, e1, _, _, t1, _⟩ := happ.inv.blk
    obtain ⟨blk', e2, _, _, t2, _⟩ := (hc h).cell
    rw [e, e2] at e1; cases e1
    rw [t1] at t2; cases t2
  -- names are not flags
  have notfl : ∀ x, (∀ s m, writtenName s m ≠ x) → x ∉ fl := by
    intro x hx hmem
    obtain ⟨s, m, e⟩ := hfw x hmem
    exact hx s m e.symm
  have c_crd : crdName l.tensor.name l.layer ∉ fl := notfl _ (fun s m => writtenName_ne_crdName _ _ _ _)
  have c_cap : crdCapName l.tensor.name l.layer ∉ fl := notfl _ (fun s m => writtenName_ne_crdCapName _ _ _ _)
  have c_ptr : l.ptr ∉ fl := notfl _ (fun s m => writtenName_ne_layerPointer _ _ _ _)
  have c_idx : l.index ∉ fl := notfl _ hnames.idx
  -- lookups in σ2
  have look2 : ∀ x, x ∉ fl → x ≠ flagName l →
      lookupVar (setFlags (termState k (valueF ofRat ρ e) (declFalse σ0 (flagName l)) bo
        (off + ws.length)) fl).vars x = lookupVar σ0.vars x := by
    intro x h1 h2
    rw [setFlags_lookup_other _ _ _ h1, termState_vars]
    exact hsb.vars x h2
  have heap2 : ∀ j, (k.isCompute = true → j ≠ bo) →
      (setFlags (termState k (valueF ofRat ρ e) (declFalse σ0 (flagName l)) bo
        (off + ws.length)) fl).heap[j]? = σ0.heap[j]? := by
    intro j hj
    rw [setFlags_heap]
    unfold termState
    split
    · rename_i hkc
      rw [(writeCell_post (hcell1 hkc) _).other j (hj hkc), hsb.heap]
    · rw [hsb.heap]
  have hfr : InnerFrame l b σ0 (setFlags (termState k (valueF ofRat ρ e)
      (declFalse σ0 (flagName l)) bo (off + ws.length)) fl) :=
    ⟨look2 _ c_crd (flagName_ne_crd l).symm, look2 _ c_cap (flagName_ne_cap l).symm,
      look2 _ c_ptr (flagName_ne_ptr l).symm, look2 _ c_idx (hnames.idx _ _).symm, heap2 b hbbo⟩
  -- the flag
  have hw : BoolVar (setFlags (termState k (valueF ofRat ρ e) (declFalse σ0 (flagName l)) bo
      (off + ws.length)) fl) (flagName l) (decide (e ≠ .int 0)) := by
    by_cases he : e = .int 0
    · have hfl : fl = [] := by show activeFlags e out' = []; rw [he]; exact activeFlags_zero _
      rw [hfl, setFlags_nil]
      simp only [he, ne_eq, not_true_eq_false, decide_false]
      exact hf1.congr (by rw [termState_vars])
    · have hfl : fl = out'.writtenFlags := activeFlags_ne _ he
      simp only [ne_eq, he, not_false_eq_true, decide_true]
      apply BoolVar.of_flagTrue
      apply setFlags_true (fun g hg => flagVar_vars (termState_vars ..) (hfl1 g hg))
      rw [hfl]
      exact flagName_mem_writtenFlags l out' rfl hmode
  obtain ⟨σ3, b', c', r, happ3, hskip, ht3, hheap3, hvars3⟩ := flagBranch_app l k hk inner fuel σ σ0 _
    b c i ws (decide (e ≠ .int 0)) hnames.flagNames hpre hfl0 happ hi hi0 hi1 hn hov
    (runsL_innerStmts_iff hrun) hfr hw
  refine ⟨inner, σ3, b', c', hlow, r, by simpa using happ3, ?_, ?_, ?_, ?_, ?_, ?_, ?_⟩
  · -- the vals cell
    intro hkc
    have hcell := hcell1 hkc
    have h2 : FloatCell (setFlags (termState k (valueF ofRat ρ e) (declFalse σ0 (flagName l)) bo
        (off + ws.length)) fl) bo (off + ws.length) (valueF ofRat ρ e) := by
      apply FloatCell.setFlags
      simp only [termState, hkc, if_true]
      exact (writeCell_post hcell _).floatCell_same hcell
    obtain ⟨blk, eb, rest⟩ := h2
    exact ⟨blk, (hheap3 bo blk (hbbo hkc).symm eb).1, rest⟩
  · -- all flags raised
    intro he g hg
    have hfl : fl = out'.writtenFlags := activeFlags_ne _ he
    have hg2 : FlagTrue (setFlags (termState k (valueF ofRat ρ e) (declFalse σ0 (flagName l)) bo
        (off + ws.length)) fl) g := by
      apply setFlags_true (fun g hg => flagVar_vars (termState_vars ..) (hfl1 g hg))
      rw [hfl]; exact hg
    obtain ⟨r, e1, e2, e3⟩ := hg2
    obtain ⟨m, hgs⟩ := mem_writtenFlags hg
    refine ⟨r, (hvars3 g ?_ ?_ ?_).trans e1, e2, e3⟩
    · rw [hgs]; exact writtenName_ne_crdName _ _ _ _
    · rw [hgs]; exact writtenName_ne_crdCapName _ _ _ _
    · rw [hgs]; exact writtenName_ne_layerPointer _ _ _ _
  · exact hw.congr (hvars3 _ (flagName_ne_crd l) (flagName_ne_cap l) (flagName_ne_ptr l))
  · intro x h1 h2 h3 h4 h5
    rw [hvars3 x h1 h2 h3]
    exact look2 x h5 h4
  · intro j blk hj hjo ej
    exact hheap3 j blk hj (by rw [heap2 j (fun _ => hjo)]; exact ej)
  · intro blk hbo ebo
    have h2 : ∃ blk', (setFlags (termState k (valueF ofRat ρ e) (declFalse σ0 (flagName l)) bo
        (off + ws.length)) fl).heap[bo]? = some blk' ∧ blk'.ty = blk.ty ∧ blk'.owner = blk.owner ∧
        blk'.live = blk.live ∧ blk'.cells.length = blk.cells.length := by
      rw [setFlags_heap]
      unfold termState
      split
      · rename_i hkc
        obtain ⟨blk0, blk', f1, f2, f3, f4, f5, f6, _, _⟩ := (writeCell_post (hcell1 hkc)
          (.flt (valueF ofRat ρ e))).blk
        rw [hsb.heap, ebo] at f1; cases f1
        exact ⟨blk', f2, f3, f4, f5, f6⟩
      · exact ⟨blk, by rw [hsb.heap]; exact ebo, rfl, rfl, rfl, rfl⟩
    obtain ⟨blk', e', r'⟩ := h2
    obtain ⟨e3, hne⟩ := hheap3 bo blk' hbo e'
    exact ⟨hne, blk', e3, r'⟩
  · rw [ht3, setFlags_tensors, termState_tensors, hsb.tensors]

/-- **F3, compute-only kernel, in `Runs` form**: no coordinate is stored; the cursor advances iff
`e ≠ Integer 0`, the value is stored at the cursor, nothing else in the heap changes. -/
theorem flagTerminal_compute (ofRat : Rat → F) (ρ : String → F) (e : IdExpr) (l : Leaf) (k : Kind)
    (hka : k.isAssemble = false) (hkc : k.isCompute = true) (n fuel : Nat) (σ : State F)
    (p : Int) (bo : Nat) (off : Int)
    (hlast : l.layer + 1 = l.tensor.indexes.length) (hmode : l.mode = .compressed)
    (hfl0 : lookupVar σ.vars (flagName l) = none ∨ FlagVar σ (flagName l))
    (hflags : ∀ g ∈ (Output.append l.tensor l.tensor.indexes.length).writtenFlags, g ≠ flagName l →
      FlagVar σ g)
    (hp : IntVar σ l.ptr p) (hp0 : 0 ≤ p) (hp1 : p + 1 < 2147483648)
    (hc : ValsReady ofRat ρ e l.tensor σ bo off p) :
    ∃ inner σ3,
      lower ofRat (n + 1) (.terminal e) (.append l.tensor l.tensor.indexes.length) k = .ok inner ∧
      Runs fuel (flagBranch l k inner) σ σ3 ∧
      IntVar σ3 l.ptr (p + if e ≠ .int 0 then 1 else 0) ∧
      FloatCell σ3 bo (off + p) (valueF ofRat ρ e) ∧
      σ3.heap = (writeCell σ bo (off + p) (.flt (valueF ofRat ρ e))).heap ∧
      σ3.tensors = σ.tensors ∧
      (∀ x, x ≠ l.ptr → x ≠ flagName l → x ∉ activeFlags e (.append l.tensor l.tensor.indexes.length) →
        lookupVar σ3.vars x = lookupVar σ.vars x) := by
  let out' : Output := .append l.tensor l.tensor.indexes.length
  let fl := activeFlags e out'
  have hsb : SameBut (flagName l) σ (declFalse σ (flagName l)) := declFalse_sameBut ..
  have hfw : AllWritten fl := allWritten_activeFlags e out'
  have hf1 : BoolVar (declFalse σ (flagName l)) (flagName l) false := declFalse_flag _ _ hfl0
  have hfl1 : ∀ g ∈ fl, FlagVar (declFalse σ (flagName l)) g := by
    intro g hg
    by_cases hgf : g = flagName l
    · rw [hgf]; exact hf1.flagVar
    · have hgw : g ∈ out'.writtenFlags := by
        have : fl = activeFlags e out' := rfl
        unfold activeFlags at this
        split at this
        · rw [this] at hg; exact hg
        · rw [this] at hg; cases hg
      obtain ⟨r, e1, e2⟩ := hflags g hgw hgf
      exact ⟨r, (hsb.vars g hgf).trans e1, e2⟩
  have hp1' : IntVar (declFalse σ (flagName l)) l.ptr p :=
    hp.congr (hsb.vars _ (flagName_ne_ptr l).symm)
  have hcur : evalE (declFalse σ (flagName l))
      (prevLayerPointer l.tensor.id l.tensor.indexes.length : Expr F) = .ok (.int p) := by
    rw [prevLayerPointer_last l hlast]
    exact evalE_var_int hp1' (by omega) (by omega)
  have hc1 := valsReady_sameBut hsb hc
  obtain ⟨inner, hlow, hrun⟩ := terminal_inner_runs ofRat ρ e l.tensor k n fuel
    (declFalse σ (flagName l)) bo off p hcur (fun _ => hc1) hfl1
  simp only [termState, hkc, if_true] at hrun
  have c_ptr : l.ptr ∉ fl := by
    intro hmem
    obtain ⟨s, m, e⟩ := hfw _ hmem
    exact writtenName_ne_layerPointer s m _ _ e.symm
  have look2 : ∀ x, x ∉ fl → x ≠ flagName l →
      lookupVar (setFlags (writeCell (declFalse σ (flagName l)) bo (off + p)
        (.flt (valueF ofRat ρ e))) fl).vars x = lookupVar σ.vars x := by
    intro x h1 h2
    rw [setFlags_lookup_other _ _ _ h1, writeCell_vars]
    exact hsb.vars x h2
  have hw : BoolVar (setFlags (writeCell (declFalse σ (flagName l)) bo (off + p)
      (.flt (valueF ofRat ρ e))) fl) (flagName l) (decide (e ≠ .int 0)) := by
    by_cases he : e = .int 0
    · have hfl : fl = [] := by show activeFlags e out' = []; rw [he]; exact activeFlags_zero _
      rw [hfl, setFlags_nil]
      simp only [he, ne_eq, not_true_eq_false, decide_false]
      exact hf1.congr (by rw [writeCell_vars])
    · have hfl : fl = out'.writtenFlags := activeFlags_ne _ he
      simp only [ne_eq, he, not_false_eq_true, decide_true]
      apply BoolVar.of_flagTrue
      apply setFlags_true (fun g hg => flagVar_vars (writeCell_vars ..) (hfl1 g hg))
      rw [hfl]
      exact flagName_mem_writtenFlags l out' rfl hmode
  have hpre : RunsL fuel (flagPre l k) σ σ := by
    simp only [flagPre, hka, Bool.false_eq_true, if_false]; exact RunsL.nil ..
  obtain ⟨σ3, r, tp, hp3⟩ := flagBranch_runs l k inner fuel σ σ _ 0 0 p 0 (decide (e ≠ .int 0)) hpre
    hfl0 (runsL_innerStmts_iff hrun) hw (hp.congr (look2 _ c_ptr (flagName_ne_ptr l).symm)) hp0 hp1
    (fun _ h => by rw [hka] at h; cases h)
  have hcellσ : OutCell σ bo (off + p) := hc.cell
  have hheapw : (writeCell (declFalse σ (flagName l)) bo (off + p) (.flt (valueF ofRat ρ e))).heap =
      (writeCell σ bo (off + p) (.flt (valueF ofRat ρ e))).heap := by
    unfold writeCell
    rw [hsb.heap]
    split
    · rfl
    · exact hsb.heap
  have h3 : σ3.heap = (writeCell σ bo (off + p) (.flt (valueF ofRat ρ e))).heap ∧
      σ3.tensors = σ.tensors ∧ (∀ x, x ≠ l.ptr → x ≠ flagName l → x ∉ fl →
        lookupVar σ3.vars x = lookupVar σ.vars x) := by
    by_cases he : e = .int 0
    · have e3 := tp.1 (by simp [he])
      rw [e3]
      exact ⟨hheapw, by rw [setFlags_tensors, writeCell_tensors, hsb.tensors],
        fun x _ h2 h3 => look2 x h3 h2⟩
    · have e3 := tp.2.1 (by simp [he]) hka
      rw [e3]
      refine ⟨hheapw,
        (writeCell_tensors (declFalse σ (flagName l)) bo (off + p) _).trans hsb.tensors, ?_⟩
      intro x h1 h2 h3
      show lookupVar (setVar _ l.ptr _) x = _
      rw [lookupVar_setVar_other _ h1]
      exact look2 x h3 h2
  refine ⟨inner, σ3, hlow, r, by simpa using hp3, ?_, h3.1, h3.2.1, h3.2.2⟩
  have := (writeCell_post hcellσ (.flt (valueF ofRat ρ e))).floatCell_same hcellσ
  obtain ⟨blk, eb, rest⟩ := this
  exact ⟨blk, by rw [h3.1]; exact eb, rest⟩

end TV.Flag
