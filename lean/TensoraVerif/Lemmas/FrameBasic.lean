import TensoraVerif.Model.Machine

/-!
Frame properties of the abstract machine (C04, C05, C16): shared infrastructure.

* `Frame.bind_ok` / `Frame.ok_bind`: the `Except` monad, unfolded;
* `exec_inv`: the one induction over `exec` used by C04 and C05 — a reflexive, transitive relation
  on states that holds across every atomic statement (of a class `Q` of statements closed under
  sub-statements) holds across every run.
-/
namespace TV.IR
variable {F : Type} [FloatOps F]

namespace Frame

theorem bind_ok {α β : Type} {x : Except Err α} {f : α → Except Err β} {b : β}
    (h : x >>= f = .ok b) : ∃ a, x = .ok a ∧ f a = .ok b := by
  cases x with
  | ok a => exact ⟨a, rfl, h⟩
  | error e => cases h

theorem ok_bind {α β : Type} (a : α) (f : α → Except Err β) : (Except.ok a >>= f) = f a := rfl

theorem error_bind {α β : Type} (e : Err) (f : α → Except Err β) :
    ((Except.error e : Except Err α) >>= f) = .error e := rfl

end Frame
open Frame

/-- motive of `exec_inv`, statements -/
def InvS (R : State F → State F → Prop) (Q : Stmt F → Prop) (fuel : Nat) (s : Stmt F) (σ : State F) : Prop :=
  Q s → ∀ o, exec fuel s σ = .ok o → R σ o.st
/-- motive of `exec_inv`, statement lists -/
def InvL (R : State F → State F → Prop) (QL : List (Stmt F) → Prop) (fuel : Nat) (ss : List (Stmt F))
    (σ : State F) : Prop :=
  QL ss → ∀ o, execL fuel ss σ = .ok o → R σ o.st

/-- The induction over `exec`, once and for all: `R` is a preorder on states, `Q`/`QL` a class of
statements / statement lists closed under sub-statements; if `R` holds across the three
state-changing atomic statements in `Q`, it holds across every successful run of a `Q`-statement. -/
theorem exec_inv (R : State F → State F → Prop) (Q : Stmt F → Prop) (QL : List (Stmt F) → Prop)
    (hrefl : ∀ σ, R σ σ) (htrans : ∀ {a b c}, R a b → R b c → R a c)
    (qblock : ∀ {ss c}, Q (.block ss c) → QL ss)
    (qcons : ∀ {s ss}, QL (s :: ss) → Q s ∧ QL ss)
    (qbranch : ∀ {c t f}, Q (.branch c t f) → Q t ∧ Q f)
    (qloop : ∀ {c b}, Q (.loop c b) → Q b)
    (hdecl : ∀ fuel x t σ o, exec fuel (.decl x t) σ = .ok o → R σ o.st)
    (hassign : ∀ fuel t v σ o, Q (.assign t v) → exec fuel (.assign t v) σ = .ok o → R σ o.st)
    (hdeclAssign : ∀ fuel x t v σ o, Q (.declAssign x t v) →
      exec fuel (.declAssign x t v) σ = .ok o → R σ o.st)
    (fuel : Nat) (s : Stmt F) (σ : State F) :
    InvS R Q fuel s σ := by
  induction fuel, s, σ using exec.induct (F := F)
    (motive2 := fun fuel ss σ => InvL R QL fuel ss σ) with
  | case1 fuel e σ =>
    intro _ o h
    rw [exec.eq_1] at h
    obtain ⟨v, _, h⟩ := bind_ok h; cases h
    exact hrefl _
  | case2 fuel n t σ => intro _ o h; exact hdecl _ _ _ _ _ h
  | case3 fuel t v σ => intro q o h; exact hassign _ _ _ _ _ q h
  | case4 fuel n t v σ => intro q o h; exact hdeclAssign _ _ _ _ _ _ q h
  | case5 fuel ss c σ ih =>
    intro q o h
    rw [exec.eq_5] at h
    exact ih (qblock q) o h
  | case6 fuel c t f σ iht ihf =>
    intro q o h
    rw [exec.eq_6] at h
    obtain ⟨cv, _, h⟩ := bind_ok h
    split at h
    · obtain ⟨ot, et, h⟩ := bind_ok h; cases h
      exact iht (qbranch q).1 ot et
    · obtain ⟨ot, et, h⟩ := bind_ok h; cases h
      exact ihf (qbranch q).2 ot et
    · cases h
  | case7 c b σ => intro _ o h; rw [exec.eq_7] at h; cases h
  | case8 c b σ fuel' ihb ihl =>
    intro q o h
    rw [exec.eq_8] at h
    obtain ⟨cv, _, h⟩ := bind_ok h
    split at h
    · cases h; exact hrefl _
    · obtain ⟨o1, e1, h⟩ := bind_ok h
      have r1 := ihb (qloop q) _ e1
      split at h
      · cases h; exact r1
      · obtain ⟨o2, e2, h⟩ := bind_ok h; cases h
        exact htrans r1 (ihl o1 q o2 e2)
    · cases h
  | case9 fuel e σ =>
    intro _ o h
    rw [exec.eq_9] at h
    obtain ⟨v, _, h⟩ := bind_ok h; cases h
    exact hrefl _
  | case10 fuel σ =>
    intro _ o h
    rw [execL.eq_1] at h; cases h
    exact hrefl _
  | case11 fuel s ss σ ihs ihss =>
    intro q o h
    rw [execL.eq_2] at h
    obtain ⟨o1, e1, h⟩ := bind_ok h
    have r1 := ihs (qcons q).1 _ e1
    split at h
    · cases h; exact r1
    · obtain ⟨o2, e2, h⟩ := bind_ok h; cases h
      exact htrans r1 (ihss o1 (qcons q).2 o2 e2)

end TV.IR
