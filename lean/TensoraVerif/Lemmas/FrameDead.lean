import TensoraVerif.Lemmas.FrameBasic

/-!
C16: a dead variable cannot influence the run.

Two states that agree on everything except the value held by variable `x` (`EqExcept x`) are
indistinguishable for a program in which `x` is dead (`Stmt.deadVar x`): both runs succeed with
`EqExcept`-related final states and equal return value / iteration count / step count, or both fail
with the same error.
-/
namespace TV.IR
set_option linter.unusedSectionVars false
variable {F : Type} [FloatOps F]
open Frame

/-- pointwise relation of two lists (core Lean has no `List.Forall₂`; this is the Batteries/Mathlib
definition, verbatim) -/
inductive Forall₂ {α β : Type} (R : α → β → Prop) : List α → List β → Prop
  | nil : Forall₂ R [] []
  | cons {a : α} {b : β} {l₁ : List α} {l₂ : List β} :
    R a b → Forall₂ R l₁ l₂ → Forall₂ R (a :: l₁) (b :: l₂)

/-- the two states are identical except possibly for the value held by variable `x` -/
def EqExcept (x : String) (σ₁ σ₂ : State F) : Prop :=
  σ₁.heap = σ₂.heap ∧ σ₁.tensors = σ₂.tensors ∧
  Forall₂ (fun (a b : VarRec F) => a.name = b.name ∧ a.ty = b.ty ∧ (a.name ≠ x → a.val = b.val))
    σ₁.vars σ₂.vars

/-! ### variable lists -/

def VarRel (x : String) (a b : VarRec F) : Prop :=
  a.name = b.name ∧ a.ty = b.ty ∧ (a.name ≠ x → a.val = b.val)

abbrev VarsRel (x : String) (l₁ l₂ : List (VarRec F)) : Prop := Forall₂ (VarRel x) l₁ l₂

theorem EqExcept.mk' {x : String} {v₁ v₂ : List (VarRec F)} {h : List (Block F)}
    {t : List (TensorRec F)} (hv : VarsRel x v₁ v₂) : EqExcept x ⟨v₁, h, t⟩ ⟨v₂, h, t⟩ :=
  ⟨rfl, rfl, hv⟩

theorem VarsRel.refl (x : String) (l : List (VarRec F)) : VarsRel x l l := by
  induction l with
  | nil => exact .nil
  | cons a l ih => exact .cons ⟨rfl, rfl, fun _ => rfl⟩ ih

theorem EqExcept.refl (x : String) (σ : State F) : EqExcept x σ σ := ⟨rfl, rfl, VarsRel.refl x _⟩

/-- forget the value held by `x` -/
def eraseVar (x : String) (r : VarRec F) : VarRec F := if r.name = x then { r with val := none } else r

theorem eraseVar_eq_iff (x : String) (a b : VarRec F) :
    eraseVar x a = eraseVar x b ↔ VarRel x a b := by
  obtain ⟨n1, t1, v1⟩ := a
  obtain ⟨n2, t2, v2⟩ := b
  unfold eraseVar VarRel
  by_cases h1 : n1 = x <;> by_cases h2 : n2 = x <;> simp [h1, h2] <;> grind

/-- equivalent formulation of `EqExcept`: the states are equal once the value of `x` is forgotten -/
theorem eqExcept_iff_erase (x : String) (σ₁ σ₂ : State F) :
    EqExcept x σ₁ σ₂ ↔ σ₁.heap = σ₂.heap ∧ σ₁.tensors = σ₂.tensors ∧
      σ₁.vars.map (eraseVar x) = σ₂.vars.map (eraseVar x) := by
  have key : ∀ l₁ l₂ : List (VarRec F),
      VarsRel x l₁ l₂ ↔ l₁.map (eraseVar x) = l₂.map (eraseVar x) := by
    intro l₁ l₂
    constructor
    · intro h
      induction h with
      | nil => rfl
      | @cons a b l₁ l₂ hab _ ih =>
        simp only [List.map_cons, ih, (eraseVar_eq_iff x a b).2 hab]
    · intro h
      induction l₁ generalizing l₂ with
      | nil =>
        cases l₂ with
        | nil => exact .nil
        | cons b l₂ => simp at h
      | cons a l₁ ih =>
        cases l₂ with
        | nil => simp at h
        | cons b l₂ =>
          simp only [List.map_cons, List.cons.injEq] at h
          exact .cons ((eraseVar_eq_iff x a b).1 h.1) (ih l₂ h.2)
  unfold EqExcept
  rw [← key]
  exact Iff.rfl

/-- `lookupVar` finds records at the same position -/
theorem lookup_rel {x : String} (y : String) {l₁ l₂ : List (VarRec F)} (h : VarsRel x l₁ l₂) :
    (lookupVar l₁ y = none ∧ lookupVar l₂ y = none) ∨
    ∃ r₁ r₂, lookupVar l₁ y = some r₁ ∧ lookupVar l₂ y = some r₂ ∧ VarRel x r₁ r₂ ∧ r₁.name = y := by
  induction h with
  | nil => exact Or.inl ⟨rfl, rfl⟩
  | @cons a b l₁ l₂ hab hl ih =>
    unfold lookupVar at ih ⊢
    simp only [List.find?_cons]
    cases hn : a.name == y
    · have hn' : (b.name == y) = false := by rw [← hab.1]; exact hn
      simp only [hn']
      exact ih
    · have hn' : (b.name == y) = true := by rw [← hab.1]; exact hn
      simp only [hn']
      exact Or.inr ⟨a, b, rfl, rfl, hab, by simpa using hn⟩

/-- a variable other than `x` is looked up identically -/
theorem lookup_eq {x y : String} {l₁ l₂ : List (VarRec F)} (h : VarsRel x l₁ l₂) (hy : y ≠ x) :
    lookupVar l₁ y = lookupVar l₂ y := by
  rcases lookup_rel y h with ⟨e1, e2⟩ | ⟨r₁, r₂, e1, e2, ⟨hn, ht, hv⟩, hy'⟩
  · rw [e1, e2]
  · rw [e1, e2]
    obtain ⟨n1, t1, v1⟩ := r₁
    obtain ⟨n2, t2, v2⟩ := r₂
    simp only at hn ht hv hy'
    subst hn ht hy'
    rw [hv hy]

theorem setVarOpt_rel {x : String} (y : String) (v : Option (Val F)) {l₁ l₂ : List (VarRec F)}
    (h : VarsRel x l₁ l₂) : VarsRel x (setVarOpt l₁ y v) (setVarOpt l₂ y v) := by
  induction h with
  | nil => exact .nil
  | @cons a b l₁ l₂ hab hl ih =>
    simp only [setVarOpt]
    cases hn : a.name == y
    · have hn' : (b.name == y) = false := by rw [← hab.1]; exact hn
      simp only [hn']
      exact .cons hab ih
    · have hn' : (b.name == y) = true := by rw [← hab.1]; exact hn
      simp only [hn']
      exact .cons ⟨hab.1, hab.2.1, fun _ => rfl⟩ hl

theorem append_rel {x : String} {l₁ l₂ : List (VarRec F)} (r : VarRec F) (h : VarsRel x l₁ l₂) :
    VarsRel x (l₁ ++ [r]) (l₂ ++ [r]) := by
  induction h with
  | nil => exact .cons ⟨rfl, rfl, fun _ => rfl⟩ .nil
  | cons hab _ ih => exact .cons hab ih

/-! ### expressions -/

theorem ne_of_mentions {x n : String} (h : (Expr.var n : Expr F).mentions x = false) : n ≠ x := by
  simpa [Expr.mentions] using h

/-- an expression that does not mention `x` evaluates identically (value or error) -/
theorem evalE_congr {x : String} {σ₁ σ₂ : State F} (hσ : EqExcept x σ₁ σ₂) (e : Expr F)
    (hm : e.mentions x = false) : evalE σ₁ e = evalE σ₂ e := by
  obtain ⟨v₁, hp, ts⟩ := σ₁
  obtain ⟨v₂, hp', ts'⟩ := σ₂
  obtain ⟨hh, ht, hv⟩ := hσ
  simp only at hh ht hv
  subst hh ht
  induction e with
  | var n => simp only [evalE, lookup_eq hv (ne_of_mentions hm)]
  | attr t a ih =>
    simp only [Expr.mentions] at hm
    simp only [evalE, ih hm]
  | idx t i iht ihi =>
    simp only [Expr.mentions, Bool.or_eq_false_iff] at hm
    simp only [evalE, iht hm.1, ihi hm.2, readBlock]
  | intLit v => rfl
  | floatLit v => rfl
  | boolLit b => rfl
  | bin op l r ihl ihr =>
    simp only [Expr.mentions, Bool.or_eq_false_iff] at hm
    cases op <;> simp only [evalE, ihl hm.1, ihr hm.2]
  | b2i e ih =>
    simp only [Expr.mentions] at hm
    simp only [evalE, ih hm]
  | alloc t n => rfl
  | realloc o t n => rfl

/-- … and denotes the same location, which is not the variable `x` -/
theorem evalLoc_congr {x : String} {σ₁ σ₂ : State F} (hσ : EqExcept x σ₁ σ₂) (e : Expr F)
    (hm : e.mentions x = false) :
    evalLoc σ₁ e = evalLoc σ₂ e ∧ evalLoc σ₁ e ≠ .ok (.var x) := by
  cases e with
  | var n =>
    refine ⟨rfl, fun h => ?_⟩
    simp only [evalLoc] at h
    cases h
    simp [Expr.mentions] at hm
  | attr t a =>
    simp only [Expr.mentions] at hm
    simp only [evalLoc, evalE_congr hσ t hm]
    refine ⟨trivial, fun h => ?_⟩
    obtain ⟨tv, _, h⟩ := bind_ok h
    split at h
    · split at h <;> cases h
    · cases h
  | idx t i =>
    simp only [Expr.mentions, Bool.or_eq_false_iff] at hm
    simp only [evalLoc, evalE_congr hσ t hm.1, evalE_congr hσ i hm.2]
    refine ⟨trivial, fun h => ?_⟩
    obtain ⟨tv, _, h⟩ := bind_ok h
    obtain ⟨iv, _, h⟩ := bind_ok h
    split at h
    · cases h
    · cases h
    · split at h <;> cases h
    · cases h
  | intLit v => exact ⟨rfl, fun h => by simp [evalLoc] at h⟩
  | floatLit v => exact ⟨rfl, fun h => by simp [evalLoc] at h⟩
  | boolLit b => exact ⟨rfl, fun h => by simp [evalLoc] at h⟩
  | bin op l r => exact ⟨rfl, fun h => by simp [evalLoc] at h⟩
  | b2i e => exact ⟨rfl, fun h => by simp [evalLoc] at h⟩
  | alloc t n => exact ⟨rfl, fun h => by simp [evalLoc] at h⟩
  | realloc o t n => exact ⟨rfl, fun h => by simp [evalLoc] at h⟩

/-! ### related results -/

/-- both succeed with related results, or both fail with the same error -/
def ExRel {α : Type} (R : α → α → Prop) : Except Err α → Except Err α → Prop
  | .ok a, .ok b => R a b
  | .error e₁, .error e₂ => e₁ = e₂
  | _, _ => False

theorem ExRel.of_eq {α : Type} {R : α → α → Prop} (hr : ∀ a, R a a) {a b : Except Err α}
    (h : a = b) : ExRel R a b := by
  subst h
  cases a
  · rfl
  · exact hr _

theorem ExRel.bind {α β : Type} {R : α → α → Prop} {S : β → β → Prop} {a b : Except Err α}
    {f g : α → Except Err β} (h : ExRel R a b) (hf : ∀ u v, R u v → ExRel S (f u) (g v)) :
    ExRel S (a >>= f) (b >>= g) := by
  cases a <;> cases b
  · exact h
  · exact h.elim
  · exact h.elim
  · exact hf _ _ h

/-- bind over the same first computation -/
theorem ExRel.bind_same {α β : Type} {S : β → β → Prop} (a : Except Err α)
    {f g : α → Except Err β} (hf : ∀ u, ExRel S (f u) (g u)) :
    ExRel S (a >>= f) (a >>= g) := by
  cases a
  · rfl
  · exact hf _

/-! ### stores, declarations, right-hand sides -/

theorem store_rel {x : String} {σ₁ σ₂ : State F} (hσ : EqExcept x σ₁ σ₂) (loc : Loc) (v : Val F)
    (hl : loc ≠ .var x) : ExRel (EqExcept x) (store σ₁ loc v) (store σ₂ loc v) := by
  obtain ⟨v₁, hp, ts⟩ := σ₁
  obtain ⟨v₂, hp', ts'⟩ := σ₂
  obtain ⟨hh, ht, hv⟩ := hσ
  simp only at hh ht hv
  subst hh ht
  cases loc with
  | var y =>
    have hy : y ≠ x := fun h => hl (by rw [h])
    simp only [store, lookup_eq hv hy]
    split
    · rfl
    · exact ExRel.bind_same _ fun v' => EqExcept.mk' (setVarOpt_rel _ _ hv)
  | cell b off =>
    simp only [store]
    split
    · rfl
    split
    · rfl
    split
    · rfl
    split
    · rfl
    exact ExRel.bind_same _ fun v' => EqExcept.mk' hv
  | slot t l k =>
    simp only [store]
    split
    · rfl
    split
    · rfl
    split
    · rfl
    split
    · exact EqExcept.mk' hv
    · rfl
  | vals t =>
    simp only [store]
    split
    · rfl
    split
    · rfl
    split
    · rfl
    exact EqExcept.mk' hv

theorem declare_rel {x : String} {σ₁ σ₂ : State F} (hσ : EqExcept x σ₁ σ₂) (y : String) (t : Ty)
    (v : Option (Val F)) : ExRel (EqExcept x) (declare σ₁ y t v) (declare σ₂ y t v) := by
  obtain ⟨v₁, hp, ts⟩ := σ₁
  obtain ⟨v₂, hp', ts'⟩ := σ₂
  obtain ⟨hh, ht, hv⟩ := hσ
  simp only at hh ht hv
  subst hh ht
  simp only [declare]
  rcases lookup_rel y hv with ⟨e1, e2⟩ | ⟨r₁, r₂, e1, e2, ⟨_, hty, _⟩, _⟩
  · rw [e1, e2]
    exact EqExcept.mk' (append_rel _ hv)
  · rw [e1, e2]
    simp only [← hty]
    split
    · exact EqExcept.mk' (setVarOpt_rel _ _ hv)
    · rfl

/-- related state, same value -/
def RhsRel (x : String) (p q : State F × Val F) : Prop := EqExcept x p.1 q.1 ∧ p.2 = q.2

theorem doAlloc_rel {x : String} {σ₁ σ₂ : State F} (hσ : EqExcept x σ₁ σ₂) (t : Ty) (n : Val F) :
    ExRel (RhsRel x) (doAlloc σ₁ t n) (doAlloc σ₂ t n) := by
  obtain ⟨v₁, hp, ts⟩ := σ₁
  obtain ⟨v₂, hp', ts'⟩ := σ₂
  obtain ⟨hh, ht, hv⟩ := hσ
  simp only at hh ht hv
  subst hh ht
  simp only [doAlloc]
  refine ExRel.bind_same _ fun et => ?_
  split
  · split
    · rfl
    · exact ⟨EqExcept.mk' hv, rfl⟩
  · rfl

theorem doRealloc_rel {x : String} {σ₁ σ₂ : State F} (hσ : EqExcept x σ₁ σ₂) (old : Val F) (t : Ty)
    (n : Val F) : ExRel (RhsRel x) (doRealloc σ₁ old t n) (doRealloc σ₂ old t n) := by
  obtain ⟨v₁, hp, ts⟩ := σ₁
  obtain ⟨v₂, hp', ts'⟩ := σ₂
  obtain ⟨hh, ht, hv⟩ := hσ
  simp only at hh ht hv
  subst hh ht
  simp only [doRealloc]
  refine ExRel.bind_same _ fun et => ?_
  split
  · split
    · rfl
    split
    · rfl
    split
    · rfl
    split
    · rfl
    split
    · rfl
    split
    · rfl
    exact ⟨EqExcept.mk' hv, rfl⟩
  · split
    · rfl
    · exact ⟨EqExcept.mk' hv, rfl⟩
  · rfl

theorem evalRhs_rel {x : String} {σ₁ σ₂ : State F} (hσ : EqExcept x σ₁ σ₂) (e : Expr F)
    (hm : e.mentions x = false) : ExRel (RhsRel x) (evalRhs σ₁ e) (evalRhs σ₂ e) := by
  cases e
  case alloc t n =>
    simp only [Expr.mentions] at hm
    rw [evalRhs.eq_1, evalRhs.eq_1, evalE_congr hσ n hm]
    exact ExRel.bind_same _ fun nv => doAlloc_rel hσ _ _
  case realloc o t n =>
    simp only [Expr.mentions, Bool.or_eq_false_iff] at hm
    rw [evalRhs.eq_2, evalRhs.eq_2, evalE_congr hσ o hm.1, evalE_congr hσ n hm.2]
    exact ExRel.bind_same _ fun ov => ExRel.bind_same _ fun nv => doRealloc_rel hσ _ _ _
  all_goals
    rw [evalRhs.eq_3 _ _ (by intros; contradiction) (by intros; contradiction),
      evalRhs.eq_3 _ _ (by intros; contradiction) (by intros; contradiction), evalE_congr hσ _ hm]
    exact ExRel.bind_same _ fun v => ⟨hσ, rfl⟩

/-! ### runs -/

def OutEqX (x : String) (o₁ o₂ : Out F) : Prop :=
  EqExcept x o₁.st o₂.st ∧ o₁.ret = o₂.ret ∧ o₁.iters = o₂.iters ∧ o₁.steps = o₂.steps

def DeadS (x : String) (fuel : Nat) (s : Stmt F) (σ₁ : State F) : Prop :=
  s.deadVar x = true → ∀ σ₂, EqExcept x σ₁ σ₂ → ExRel (OutEqX x) (exec fuel s σ₁) (exec fuel s σ₂)

def DeadL (x : String) (fuel : Nat) (ss : List (Stmt F)) (σ₁ : State F) : Prop :=
  deadVarL x ss = true → ∀ σ₂, EqExcept x σ₁ σ₂ →
    ExRel (OutEqX x) (execL fuel ss σ₁) (execL fuel ss σ₂)

theorem dead_assign (x : String) (fuel : Nat) (t v : Expr F) (σ₁ : State F) :
    DeadS x fuel (.assign t v) σ₁ := by
  intro hd σ₂ hσ
  simp only [Stmt.deadVar, Bool.and_eq_true, Bool.not_eq_true'] at hd
  rw [exec.eq_3, exec.eq_3]
  refine ExRel.bind (evalRhs_rel hσ v hd.2) ?_
  rintro ⟨σa, va⟩ ⟨σb, vb⟩ ⟨r1, r2⟩
  simp only at r1 r2 ⊢
  subst r2
  obtain ⟨el, hne⟩ := evalLoc_congr r1 t hd.1
  rw [← el]
  cases hl : evalLoc σa t with
  | error e => rfl
  | ok loc =>
    rw [hl] at hne
    rw [ok_bind, ok_bind]
    refine ExRel.bind (store_rel r1 loc va fun h => hne (by rw [h])) ?_
    intro s1 s2 r
    exact ⟨r, rfl, rfl, rfl⟩

theorem dead_declAssign (x : String) (fuel : Nat) (n : String) (t : Ty) (v : Expr F) (σ₁ : State F) :
    DeadS x fuel (.declAssign n t v) σ₁ := by
  intro hd σ₂ hσ
  simp only [Stmt.deadVar, Bool.not_eq_true'] at hd
  rw [exec.eq_4, exec.eq_4]
  refine ExRel.bind (evalRhs_rel hσ v hd) ?_
  rintro ⟨σa, va⟩ ⟨σb, vb⟩ ⟨r1, r2⟩
  simp only at r1 r2 ⊢
  subst r2
  refine ExRel.bind_same _ fun val' => ?_
  refine ExRel.bind (declare_rel r1 n t (some val')) ?_
  intro s1 s2 r
  exact ⟨r, rfl, rfl, rfl⟩

theorem dead_branch {x : String} {fuel : Nat} {c : Expr F} {t f : Stmt F} {σ₁ : State F}
    (ht : DeadS x fuel t σ₁) (hf : DeadS x fuel f σ₁) : DeadS x fuel (.branch c t f) σ₁ := by
  intro hd σ₂ hσ
  simp only [Stmt.deadVar, Bool.and_eq_true, Bool.not_eq_true'] at hd
  rw [exec.eq_6, exec.eq_6, evalE_congr hσ c hd.1.1]
  refine ExRel.bind_same _ fun cv => ?_
  split
  · refine ExRel.bind (ht hd.1.2 σ₂ hσ) ?_
    intro o1 o2 r
    exact ⟨r.1, r.2.1, r.2.2.1, by simp only [r.2.2.2]⟩
  · refine ExRel.bind (hf hd.2 σ₂ hσ) ?_
    intro o1 o2 r
    exact ⟨r.1, r.2.1, r.2.2.1, by simp only [r.2.2.2]⟩
  · rfl

theorem dead_loop_succ {x : String} {fuel' : Nat} {c : Expr F} {b : Stmt F} {σ₁ : State F}
    (hb : DeadS x fuel' b σ₁) (hl : ∀ o1 : Out F, DeadS x fuel' (.loop c b) o1.st) :
    DeadS x fuel'.succ (.loop c b) σ₁ := by
  intro hd σ₂ hσ
  have hd' := hd
  simp only [Stmt.deadVar, Bool.and_eq_true, Bool.not_eq_true'] at hd'
  rw [exec.eq_8, exec.eq_8, evalE_congr hσ c hd'.1]
  refine ExRel.bind_same _ fun cv => ?_
  split
  · exact ⟨hσ, rfl, rfl, rfl⟩
  · refine ExRel.bind (hb hd'.2 σ₂ hσ) ?_
    rintro ⟨st1, ret1, it1, sp1⟩ ⟨st2, ret2, it2, sp2⟩ ⟨r1, r2, r3, r4⟩
    simp only at r1 r2 r3 r4 ⊢
    subst r2 r3 r4
    cases ret1 with
    | some rv => exact ⟨r1, rfl, rfl, rfl⟩
    | none =>
      simp only
      refine ExRel.bind (hl ⟨st1, none, it1, sp1⟩ hd st2 r1) ?_
      intro o1 o2 r
      exact ⟨r.1, r.2.1, by simp only [r.2.2.1], by simp only [r.2.2.2]⟩
  · rfl

theorem dead_cons {x : String} {fuel : Nat} {s : Stmt F} {ss : List (Stmt F)} {σ₁ : State F}
    (hs : DeadS x fuel s σ₁) (hss : ∀ o1 : Out F, DeadL x fuel ss o1.st) :
    DeadL x fuel (s :: ss) σ₁ := by
  intro hd σ₂ hσ
  simp only [deadVarL, Bool.and_eq_true] at hd
  rw [execL.eq_2, execL.eq_2]
  refine ExRel.bind (hs hd.1 σ₂ hσ) ?_
  rintro ⟨st1, ret1, it1, sp1⟩ ⟨st2, ret2, it2, sp2⟩ ⟨r1, r2, r3, r4⟩
  simp only at r1 r2 r3 r4 ⊢
  subst r2 r3 r4
  cases ret1 with
  | some rv => exact ⟨r1, rfl, rfl, rfl⟩
  | none =>
    simp only
    refine ExRel.bind (hss ⟨st1, none, it1, sp1⟩ hd.2 st2 r1) ?_
    intro o1 o2 r
    exact ⟨r.1, r.2.1, by simp only [Out.seq, r.2.2.1], by simp only [Out.seq, r.2.2.2]⟩

/-- C16, relational form -/
theorem exec_dead (x : String) (fuel : Nat) (s : Stmt F) (σ₁ : State F) : DeadS x fuel s σ₁ := by
  induction fuel, s, σ₁ using exec.induct (F := F)
    (motive2 := fun fuel ss σ₁ => DeadL x fuel ss σ₁) with
  | case1 fuel e σ =>
    intro hd σ₂ hσ
    simp only [Stmt.deadVar, Bool.not_eq_true'] at hd
    rw [exec.eq_1, exec.eq_1, evalE_congr hσ e hd]
    exact ExRel.bind_same _ fun _ => ⟨hσ, rfl, rfl, rfl⟩
  | case2 fuel n t σ =>
    intro _ σ₂ hσ
    rw [exec.eq_2, exec.eq_2]
    exact ExRel.bind (declare_rel hσ n t none) fun _ _ r => ⟨r, rfl, rfl, rfl⟩
  | case3 fuel t v σ => exact dead_assign x fuel t v σ
  | case4 fuel n t v σ => exact dead_declAssign x fuel n t v σ
  | case5 fuel ss c σ ih =>
    intro hd σ₂ hσ
    rw [exec.eq_5, exec.eq_5]
    exact ih (by simpa [Stmt.deadVar] using hd) σ₂ hσ
  | case6 fuel c t f σ iht ihf => exact dead_branch iht ihf
  | case7 c b σ =>
    intro _ σ₂ _
    rw [exec.eq_7, exec.eq_7]
    rfl
  | case8 c b σ fuel' ihb ihl => exact dead_loop_succ ihb ihl
  | case9 fuel e σ =>
    intro hd σ₂ hσ
    simp only [Stmt.deadVar, Bool.not_eq_true'] at hd
    rw [exec.eq_9, exec.eq_9, evalE_congr hσ e hd]
    exact ExRel.bind_same _ fun _ => ⟨hσ, rfl, rfl, rfl⟩
  | case10 fuel σ =>
    intro _ σ₂ hσ
    rw [execL.eq_1, execL.eq_1]
    exact ⟨hσ, rfl, rfl, rfl⟩
  | case11 fuel s ss σ ihs ihss => exact dead_cons ihs ihss

end TV.IR
