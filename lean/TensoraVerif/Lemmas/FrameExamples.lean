import TensoraVerif.Model.FloatLaws
import TensoraVerif.Lemmas.FrameDead

/-!
Concrete programs over the exact carrier `F := Int` (`FloatOps.instInt`) used by the non-vacuity
`example`s of `Props/C04.lean`, `Props/C05.lean`, `Props/C16.lean`.
-/
namespace TV.IR.FrameEx

/-- block 0: the input array `[7, 8]`; block 1: an output array of two uninitialised cells;
tensor 0 is input-owned, tensor 1 output-owned -/
def st : State Int :=
  ⟨[⟨"a", .ptr .int, some (.ptr 0 0)⟩, ⟨"y", .ptr .int, some (.ptr 1 0)⟩,
    ⟨"T", .ptr .tensor, some (.tensor 1)⟩],
   [⟨.int, [some (.int 7), some (.int 8)], .input, true⟩, ⟨.int, [none, none], .output, true⟩],
   [⟨1, 0, [none], .ptr 0 0, .input⟩, ⟨1, 0, [none], .null, .output⟩]⟩

/-- `int *p = malloc(1); p[0] = a[0]; p = realloc(p, 2); p[1] = a[1]; T->vals = p;` —
allocates, reallocates (which frees a block), writes the heap and an output tensor record -/
def growProg : Stmt Int :=
  .block [
    .declAssign "p" (.ptr .int) (.alloc .int (.intLit 1)),
    .assign (.idx (.var "p") (.intLit 0)) (.idx (.var "a") (.intLit 0)),
    .assign (.var "p") (.realloc (.var "p") .int (.intLit 2)),
    .assign (.idx (.var "p") (.intLit 1)) (.idx (.var "a") (.intLit 1)),
    .assign (.attr (.var "T") "vals") (.var "p")] none

theorem grow_runs : ∃ o, exec 0 growProg st = .ok o ∧ o.st.heap.length = 4 := by
  simp [growProg, st, exec, execL, evalRhs, evalE, evalLoc, store, declare, lookupVar, convTo,
    convElem, setVar, setVarOpt, chkInt, chkVal, inI32, hasTy, readBlock, hasElemTy, Block.len,
    doAlloc, doRealloc, elemOf, isPtrVal, bind, Except.bind, Out.seq]

/-- `i = 0; while (i < 2) { y[i] = a[i] + 1; i = i + 1; }` — a compute kernel: no allocation -/
def copyProg : Stmt Int :=
  .block [
    .declAssign "i" .int (.intLit 0),
    .loop (.bin .lt (.var "i") (.intLit 2)) (.block [
      .assign (.idx (.var "y") (.var "i")) (.bin .add (.idx (.var "a") (.var "i")) (.intLit 1)),
      .assign (.var "i") (.bin .add (.var "i") (.intLit 1))] none)] none

theorem copy_runs : ∃ o, exec 3 copyProg st = .ok o ∧ o.iters = 2 := by
  simp [copyProg, st, exec, execL, evalRhs, evalE, evalLoc, store, declare, lookupVar, convTo,
    convElem, setVar, setVarOpt, chkInt, chkVal, inI32, hasTy, binVal, numOp, Val.toNum, readBlock,
    hasElemTy, Block.len, bind, Except.bind, Out.seq]

/-- `y[0] = a[0]; int t = 5; return y[0];` — `t` is dead -/
def deadProg : Stmt Int :=
  .block [
    .assign (.idx (.var "y") (.intLit 0)) (.idx (.var "a") (.intLit 0)),
    .declAssign "t" .int (.intLit 5),
    .ret (.idx (.var "y") (.intLit 0))] none

/-- `st` with a variable `t` holding `v` in front -/
def stT (v : Option (Val Int)) : State Int := { st with vars := ⟨"t", .int, v⟩ :: st.vars }

theorem stT_eqExcept (v w : Option (Val Int)) : EqExcept "t" (stT v) (stT w) :=
  ⟨rfl, rfl, .cons ⟨rfl, rfl, fun h => absurd rfl h⟩ (VarsRel.refl _ _)⟩

theorem dead_runs : ∃ o, exec 0 deadProg (stT (some (.int 1))) = .ok o ∧ o.ret = some (.int 7) := by
  simp [deadProg, stT, st, exec, execL, evalRhs, evalE, evalLoc, store, declare, lookupVar, convTo,
    convElem, setVarOpt, chkInt, chkVal, inI32, hasTy, readBlock, hasElemTy, Block.len,
    bind, Except.bind, Out.seq]

end TV.IR.FrameEx
