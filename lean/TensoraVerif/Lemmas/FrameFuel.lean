import TensoraVerif.Lemmas.FrameBasic

/-!
C05: the result of a successful run does not depend on the fuel bound.
-/
namespace TV.IR
set_option linter.unusedSectionVars false
variable {F : Type} [FloatOps F]
open Frame

def MonoS (k fuel : Nat) (s : Stmt F) (σ : State F) : Prop :=
  ∀ o, exec fuel s σ = .ok o → exec (fuel + k) s σ = .ok o
def MonoL (k fuel : Nat) (ss : List (Stmt F)) (σ : State F) : Prop :=
  ∀ o, execL fuel ss σ = .ok o → execL (fuel + k) ss σ = .ok o

theorem exec_mono (k fuel : Nat) (s : Stmt F) (σ : State F) : MonoS k fuel s σ := by
  induction fuel, s, σ using exec.induct (F := F)
    (motive2 := fun fuel ss σ => MonoL k fuel ss σ) with
  | case1 fuel e σ => intro o h; rw [exec.eq_1] at h ⊢; exact h
  | case2 fuel n t σ => intro o h; rw [exec.eq_2] at h ⊢; exact h
  | case3 fuel t v σ => intro o h; rw [exec.eq_3] at h ⊢; exact h
  | case4 fuel n t v σ => intro o h; rw [exec.eq_4] at h ⊢; exact h
  | case5 fuel ss c σ ih => intro o h; rw [exec.eq_5] at h ⊢; exact ih o h
  | case6 fuel c t f σ iht ihf =>
    intro o h
    rw [exec.eq_6] at h ⊢
    obtain ⟨cv, ec, h⟩ := bind_ok h
    rw [ec, ok_bind]
    split at h
    · obtain ⟨ot, et, h⟩ := bind_ok h
      rw [iht ot et, ok_bind]; exact h
    · obtain ⟨ot, et, h⟩ := bind_ok h
      rw [ihf ot et, ok_bind]; exact h
    · cases h
  | case7 c b σ => intro o h; rw [exec.eq_7] at h; cases h
  | case8 c b σ fuel' ihb ihl =>
    intro o h
    rw [Nat.succ_add]
    rw [exec.eq_8] at h ⊢
    obtain ⟨cv, ec, h⟩ := bind_ok h
    rw [ec, ok_bind]
    split at h
    · exact h
    · obtain ⟨o1, e1, h⟩ := bind_ok h
      rw [ihb o1 e1, ok_bind]
      split at h
      · exact h
      · obtain ⟨o2, e2, h⟩ := bind_ok h
        rw [ihl o1 o2 e2, ok_bind]; exact h
    · cases h
  | case9 fuel e σ => intro o h; rw [exec.eq_9] at h ⊢; exact h
  | case10 fuel σ => intro o h; rw [execL.eq_1] at h ⊢; exact h
  | case11 fuel s ss σ ihs ihss =>
    intro o h
    rw [execL.eq_2] at h ⊢
    obtain ⟨o1, e1, h⟩ := bind_ok h
    rw [ihs o1 e1, ok_bind]
    split at h
    · exact h
    · obtain ⟨o2, e2, h⟩ := bind_ok h
      rw [ihss o1 o2 e2, ok_bind]; exact h

end TV.IR
