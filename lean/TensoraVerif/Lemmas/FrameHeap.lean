import TensoraVerif.Lemmas.FrameBasic

/-!
C05 / C04: what one machine step can do to the heap and to the tensor records.

* `HeapLe σ σ'` (C05): the heap only grows; a block keeps its element type and owner; a dead block
  and an input-owned block are unchanged; an input-owned tensor record is unchanged.
* `HeapSame σ σ'` (C04): same number of blocks, each with the same length, liveness, type, owner.

Both are preorders; `store`, `declare`, `evalRhs` (hence every atomic statement) satisfy `HeapLe`;
without `alloc`/`realloc` they satisfy `HeapSame`. `exec_inv` lifts this to all runs.
-/
namespace TV.IR
set_option linter.unusedSectionVars false
variable {F : Type} [FloatOps F]
open Frame

/-! ### C05 relation -/

def BlkLe (blk blk' : Block F) : Prop :=
  blk'.ty = blk.ty ∧ blk'.owner = blk.owner ∧ (blk.live = false → blk' = blk) ∧
    (blk.owner = .input → blk' = blk)

def HeapLe (σ σ' : State F) : Prop :=
  σ.heap.length ≤ σ'.heap.length ∧
  (∀ (b : Nat) (blk : Block F), σ.heap[b]? = some blk →
    ∃ blk', σ'.heap[b]? = some blk' ∧ BlkLe blk blk') ∧
  (∀ (t : Nat) (tr : TensorRec F), σ.tensors[t]? = some tr → tr.owner = .input →
    σ'.tensors[t]? = some tr)

theorem BlkLe.refl (blk : Block F) : BlkLe blk blk := ⟨rfl, rfl, fun _ => rfl, fun _ => rfl⟩

theorem BlkLe.trans {a b c : Block F} (h₁ : BlkLe a b) (h₂ : BlkLe b c) : BlkLe a c := by
  obtain ⟨t1, o1, l1, i1⟩ := h₁
  obtain ⟨t2, o2, l2, i2⟩ := h₂
  refine ⟨t2.trans t1, o2.trans o1, fun h => ?_, fun h => ?_⟩
  · have := l1 h; subst this; exact l2 h
  · have := i1 h; subst this; exact i2 h

theorem HeapLe.of_eq {σ σ' : State F} (hh : σ'.heap = σ.heap) (ht : σ'.tensors = σ.tensors) :
    HeapLe σ σ' := by
  refine ⟨by rw [hh]; exact Nat.le_refl _, fun b blk hb => ⟨blk, by rw [hh]; exact hb, BlkLe.refl _⟩,
    fun t tr h _ => by rw [ht]; exact h⟩

theorem HeapLe.refl (σ : State F) : HeapLe σ σ := HeapLe.of_eq rfl rfl

theorem HeapLe.trans {a b c : State F} (h₁ : HeapLe a b) (h₂ : HeapLe b c) : HeapLe a c := by
  obtain ⟨n1, b1, t1⟩ := h₁
  obtain ⟨n2, b2, t2⟩ := h₂
  refine ⟨Nat.le_trans n1 n2, fun i blk hi => ?_, fun t tr ht hin => t2 t tr (t1 t tr ht hin) hin⟩
  obtain ⟨blk', e', r'⟩ := b1 i blk hi
  obtain ⟨blk'', e'', r''⟩ := b2 i blk' e'
  exact ⟨blk'', e'', r'.trans r''⟩

/-- appending blocks -/
theorem HeapLe.append (σ : State F) (l : List (Block F)) : HeapLe σ { σ with heap := σ.heap ++ l } := by
  refine ⟨by simp, fun b blk hb => ⟨blk, ?_, BlkLe.refl _⟩, fun t tr h _ => h⟩
  have hlt : b < σ.heap.length := by
    rcases Nat.lt_or_ge b σ.heap.length with h | h
    · exact h
    · rw [List.getElem?_eq_none h] at hb; cases hb
  simp only [List.getElem?_append, hlt, if_true]
  exact hb

/-- replacing one live, output-owned block by one of the same type and owner -/
theorem HeapLe.set {σ : State F} {b : Nat} {blk blk' : Block F} (hb : σ.heap[b]? = some blk)
    (hl : blk.live = true) (ho : blk.owner ≠ .input) (hty : blk'.ty = blk.ty)
    (hown : blk'.owner = blk.owner) : HeapLe σ { σ with heap := σ.heap.set b blk' } := by
  refine ⟨by simp, fun i bi hi => ?_, fun t tr h _ => h⟩
  by_cases hib : b = i
  · subst hib
    rw [hb] at hi; cases hi
    have hlt : b < σ.heap.length := by
      rcases Nat.lt_or_ge b σ.heap.length with h | h
      · exact h
      · rw [List.getElem?_eq_none h] at hb; cases hb
    refine ⟨blk', by simp [hlt], hty, hown, fun h => ?_, fun h => absurd h ho⟩
    rw [hl] at h; cases h
  · exact ⟨bi, by simp only [List.getElem?_set, hib, if_false]; exact hi, BlkLe.refl _⟩

/-- replacing one output-owned tensor record -/
theorem HeapLe.setTensor {σ : State F} {t : Nat} {tr tr' : TensorRec F} (ht : σ.tensors[t]? = some tr)
    (ho : tr.owner ≠ .input) : HeapLe σ { σ with tensors := σ.tensors.set t tr' } := by
  refine ⟨Nat.le_refl _, fun i bi hi => ⟨bi, hi, BlkLe.refl _⟩, fun i ti hi hin => ?_⟩
  by_cases hit : t = i
  · subst hit
    rw [ht] at hi; cases hi
    exact absurd hin ho
  · simp only [List.getElem?_set, hit, if_false]; exact hi

theorem store_heapLe {σ σ' : State F} {loc : Loc} {v : Val F} (h : store σ loc v = .ok σ') :
    HeapLe σ σ' := by
  unfold store at h
  split at h
  · split at h
    · cases h
    · obtain ⟨v', _, h⟩ := bind_ok h; cases h
      exact HeapLe.of_eq rfl rfl
  · split at h
    · cases h
    · rename_i blk hb
      split at h
      · cases h
      split at h
      · cases h
      split at h
      · cases h
      rename_i hl ho _
      obtain ⟨v', _, h⟩ := bind_ok h; cases h
      exact HeapLe.set hb (by simpa using hl) (by simpa using ho) rfl rfl
  · split at h
    · cases h
    · rename_i tr ht
      split at h
      · cases h
      split at h
      · cases h
      rename_i ho _
      split at h
      · cases h
        exact HeapLe.setTensor ht (by simpa using ho)
      · cases h
  · split at h
    · cases h
    · rename_i tr ht
      split at h
      · cases h
      split at h
      · cases h
      rename_i ho _
      cases h
      exact HeapLe.setTensor ht (by simpa using ho)

theorem declare_heap {σ σ' : State F} {x : String} {t : Ty} {v : Option (Val F)}
    (h : declare σ x t v = .ok σ') : σ'.heap = σ.heap ∧ σ'.tensors = σ.tensors := by
  unfold declare at h
  split at h
  · split at h
    · cases h; exact ⟨rfl, rfl⟩
    · cases h
  · cases h; exact ⟨rfl, rfl⟩

theorem doAlloc_heapLe {σ σ' : State F} {t : Ty} {n v : Val F} (h : doAlloc σ t n = .ok (σ', v)) :
    HeapLe σ σ' := by
  unfold doAlloc at h
  obtain ⟨et, _, h⟩ := bind_ok h
  split at h
  · split at h
    · cases h
    · cases h; exact HeapLe.append _ _
  · cases h

theorem doRealloc_heapLe {σ σ' : State F} {old : Val F} {t : Ty} {n v : Val F}
    (h : doRealloc σ old t n = .ok (σ', v)) : HeapLe σ σ' := by
  unfold doRealloc at h
  obtain ⟨et, _, h⟩ := bind_ok h
  split at h
  · split at h
    · cases h
    split at h
    · cases h
    split at h
    · cases h
    rename_i blk hb
    split at h
    · cases h
    split at h
    · cases h
    split at h
    · cases h
    rename_i hl ho _
    cases h
    exact (HeapLe.set (blk' := { blk with live := false }) hb (by simpa using hl) (by simpa using ho)
      rfl rfl).trans (HeapLe.append _ _)
  · split at h
    · cases h
    · cases h; exact HeapLe.append _ _
  · cases h

theorem evalRhs_heapLe {σ σ' : State F} {e : Expr F} {v : Val F} (h : evalRhs σ e = .ok (σ', v)) :
    HeapLe σ σ' := by
  cases e
  case alloc t n =>
    rw [evalRhs.eq_1] at h
    obtain ⟨nv, _, h⟩ := bind_ok h
    exact doAlloc_heapLe h
  case realloc o t n =>
    rw [evalRhs.eq_2] at h
    obtain ⟨ov, _, h⟩ := bind_ok h
    obtain ⟨nv, _, h⟩ := bind_ok h
    exact doRealloc_heapLe h
  all_goals
    rw [evalRhs.eq_3 _ _ (by intros; contradiction) (by intros; contradiction)] at h
    obtain ⟨v, _, h⟩ := bind_ok h
    cases h
    exact HeapLe.refl _

theorem exec_decl_heap {fuel : Nat} {x : String} {t : Ty} {σ : State F} {o : Out F}
    (h : exec fuel (.decl x t) σ = .ok o) : o.st.heap = σ.heap ∧ o.st.tensors = σ.tensors := by
  rw [exec.eq_2] at h
  obtain ⟨σ', e1, h⟩ := bind_ok h; cases h
  exact declare_heap e1

theorem exec_assign_heapLe {fuel : Nat} {t v : Expr F} {σ : State F} {o : Out F}
    (h : exec fuel (.assign t v) σ = .ok o) : HeapLe σ o.st := by
  rw [exec.eq_3] at h
  obtain ⟨⟨σ1, val⟩, e1, h⟩ := bind_ok h
  simp only at h
  obtain ⟨loc, _, h⟩ := bind_ok h
  obtain ⟨σ2, e3, h⟩ := bind_ok h
  cases h
  exact (evalRhs_heapLe e1).trans (store_heapLe e3)

theorem exec_declAssign_heapLe {fuel : Nat} {x : String} {t : Ty} {v : Expr F} {σ : State F} {o : Out F}
    (h : exec fuel (.declAssign x t v) σ = .ok o) : HeapLe σ o.st := by
  rw [exec.eq_4] at h
  obtain ⟨⟨σ1, val⟩, e1, h⟩ := bind_ok h
  simp only at h
  obtain ⟨val', _, h⟩ := bind_ok h
  obtain ⟨σ2, e3, h⟩ := bind_ok h
  cases h
  have := declare_heap e3
  exact (evalRhs_heapLe e1).trans (HeapLe.of_eq this.1 this.2)

/-- C05, the invariant form: every successful run is `HeapLe` -/
theorem exec_heapLe (fuel : Nat) (s : Stmt F) (σ : State F) (o : Out F)
    (h : exec fuel s σ = .ok o) : HeapLe σ o.st :=
  exec_inv HeapLe (fun _ => True) (fun _ => True) HeapLe.refl HeapLe.trans
    (fun _ => trivial) (fun _ => ⟨trivial, trivial⟩) (fun _ => ⟨trivial, trivial⟩) (fun _ => trivial)
    (fun _ _ _ _ _ h => by have := exec_decl_heap h; exact HeapLe.of_eq this.1 this.2)
    (fun _ _ _ _ _ _ h => exec_assign_heapLe h)
    (fun _ _ _ _ _ _ _ h => exec_declAssign_heapLe h)
    fuel s σ trivial o h

/-! ### C04 relation -/

def BlkSame (blk blk' : Block F) : Prop :=
  blk'.cells.length = blk.cells.length ∧ blk'.live = blk.live ∧ blk'.ty = blk.ty ∧
    blk'.owner = blk.owner

def HeapSame (σ σ' : State F) : Prop :=
  σ'.heap.length = σ.heap.length ∧
  ∀ (b : Nat) (blk : Block F), σ.heap[b]? = some blk →
    ∃ blk', σ'.heap[b]? = some blk' ∧ BlkSame blk blk'

theorem HeapSame.of_eq {σ σ' : State F} (hh : σ'.heap = σ.heap) : HeapSame σ σ' :=
  ⟨by rw [hh], fun b blk hb => ⟨blk, by rw [hh]; exact hb, rfl, rfl, rfl, rfl⟩⟩

theorem HeapSame.refl (σ : State F) : HeapSame σ σ := HeapSame.of_eq rfl

theorem HeapSame.trans {a b c : State F} (h₁ : HeapSame a b) (h₂ : HeapSame b c) : HeapSame a c := by
  obtain ⟨n1, b1⟩ := h₁
  obtain ⟨n2, b2⟩ := h₂
  refine ⟨n2.trans n1, fun i blk hi => ?_⟩
  obtain ⟨blk', e', c1, l1, t1, o1⟩ := b1 i blk hi
  obtain ⟨blk'', e'', c2, l2, t2, o2⟩ := b2 i blk' e'
  exact ⟨blk'', e'', c2.trans c1, l2.trans l1, t2.trans t1, o2.trans o1⟩

theorem HeapSame.set {σ : State F} {b : Nat} {blk blk' : Block F} (hb : σ.heap[b]? = some blk)
    (h : BlkSame blk blk') : HeapSame σ { σ with heap := σ.heap.set b blk' } := by
  refine ⟨by simp, fun i bi hi => ?_⟩
  by_cases hib : b = i
  · subst hib
    rw [hb] at hi; cases hi
    have hlt : b < σ.heap.length := by
      rcases Nat.lt_or_ge b σ.heap.length with h | h
      · exact h
      · rw [List.getElem?_eq_none h] at hb; cases hb
    exact ⟨blk', by simp [hlt], h⟩
  · exact ⟨bi, by simp only [List.getElem?_set, hib, if_false]; exact hi, rfl, rfl, rfl, rfl⟩

theorem store_heapSame {σ σ' : State F} {loc : Loc} {v : Val F} (h : store σ loc v = .ok σ') :
    HeapSame σ σ' := by
  unfold store at h
  split at h
  · split at h
    · cases h
    · obtain ⟨v', _, h⟩ := bind_ok h; cases h
      exact HeapSame.of_eq rfl
  · split at h
    · cases h
    · rename_i blk hb
      split at h
      · cases h
      split at h
      · cases h
      split at h
      · cases h
      obtain ⟨v', _, h⟩ := bind_ok h; cases h
      exact HeapSame.set hb ⟨by simp, rfl, rfl, rfl⟩
  · split at h
    · cases h
    · split at h
      · cases h
      split at h
      · cases h
      split at h
      · cases h; exact HeapSame.of_eq rfl
      · cases h
  · split at h
    · cases h
    · split at h
      · cases h
      split at h
      · cases h
      cases h; exact HeapSame.of_eq rfl

/-- an allocation-free right-hand side is a pure expression: the state is returned unchanged -/
theorem evalRhs_noAlloc {σ σ' : State F} {e : Expr F} {v : Val F} (hc : e.noAllocE = true)
    (h : evalRhs σ e = .ok (σ', v)) : σ' = σ := by
  cases e
  case alloc t n => simp only [Expr.noAllocE] at hc; cases hc
  case realloc o t n => simp only [Expr.noAllocE] at hc; cases hc
  all_goals
    rw [evalRhs.eq_3 _ _ (by intros; contradiction) (by intros; contradiction)] at h
    obtain ⟨v, _, h⟩ := bind_ok h
    cases h
    rfl

/-- C04, the invariant form -/
theorem exec_heapSame (fuel : Nat) (s : Stmt F) (σ : State F) (o : Out F)
    (hc : s.noAlloc = true) (h : exec fuel s σ = .ok o) : HeapSame σ o.st := by
  refine exec_inv HeapSame (fun s => s.noAlloc = true) (fun ss => noAllocL ss = true)
    HeapSame.refl HeapSame.trans ?_ ?_ ?_ ?_ ?_ ?_ ?_ fuel s σ hc o h
  · intro ss c q; simpa [Stmt.noAlloc] using q
  · intro s ss q; simpa [noAllocL] using q
  · intro c t f q
    simp only [Stmt.noAlloc, Bool.and_eq_true] at q
    exact ⟨q.1.2, q.2⟩
  · intro c b q
    simp only [Stmt.noAlloc, Bool.and_eq_true] at q
    exact q.2
  · intro fuel x t σ o h
    exact HeapSame.of_eq (exec_decl_heap h).1
  · intro fuel t v σ o q h
    simp only [Stmt.noAlloc, Bool.and_eq_true] at q
    rw [exec.eq_3] at h
    obtain ⟨⟨σ1, val⟩, e1, h⟩ := bind_ok h
    simp only at h
    obtain ⟨loc, _, h⟩ := bind_ok h
    obtain ⟨σ2, e3, h⟩ := bind_ok h
    cases h
    have := evalRhs_noAlloc q.2 e1
    subst this
    exact store_heapSame e3
  · intro fuel x t v σ o q h
    simp only [Stmt.noAlloc] at q
    rw [exec.eq_4] at h
    obtain ⟨⟨σ1, val⟩, e1, h⟩ := bind_ok h
    simp only at h
    obtain ⟨val', _, h⟩ := bind_ok h
    obtain ⟨σ2, e3, h⟩ := bind_ok h
    cases h
    have := evalRhs_noAlloc q e1
    subst this
    exact HeapSame.of_eq (declare_heap e3).1

end TV.IR
