import TensoraVerif.Model.Graph

/-!
Helper lemmas about the identifiable-expression algebra (`Model/Graph.lean`): one `exhaust` step
versus value, structural presence and the sparse/dense classification.
-/
namespace TV.Graph

/-! ### unfolding lemmas -/

theorem isZeroInt_iff (e : IdExpr) : e.isZeroInt = true ↔ e = .int 0 := by
  unfold IdExpr.isZeroInt
  split <;> simp_all

theorem isZeroInt_false_iff (e : IdExpr) : e.isZeroInt = false ↔ e ≠ .int 0 := by
  rw [Ne, ← isZeroInt_iff]; simp

theorem exhaust_int (v : Int) (ref : String) : exhaust (.int v) ref = .int v := rfl
theorem exhaust_flt (v : Rat) (ref : String) : exhaust (.flt v) ref = .flt v := rfl
theorem exhaust_tensor (t : TensorId) (ref : String) :
    exhaust (.tensor t) ref = if t.id == ref then .int 0 else .tensor t := rfl

theorem exhaust_add (l r : IdExpr) (ref : String) :
    exhaust (.add l r) ref =
      if (!(l.occurs ref) && !(r.occurs ref)) = true then .add l r
      else if (exhaust l ref).isZeroInt = true then exhaust r ref
      else if (exhaust r ref).isZeroInt = true then exhaust l ref
      else .add (exhaust l ref) (exhaust r ref) := rfl

theorem exhaust_mul (l r : IdExpr) (ref : String) :
    exhaust (.mul l r) ref =
      if (!(l.occurs ref) && !(r.occurs ref)) = true then .mul l r
      else if ((exhaust l ref).isZeroInt || (exhaust r ref).isZeroInt) = true then .int 0
      else .mul (exhaust l ref) (exhaust r ref) := rfl

theorem exhaustAll_nil (e : IdExpr) : exhaustAll e [] = e := rfl
theorem exhaustAll_cons (e : IdExpr) (r : String) (rs : List String) :
    exhaustAll e (r :: rs) = exhaustAll (exhaust e r) rs := rfl

theorem exhaustAll_int_zero (rs : List String) : exhaustAll (.int 0) rs = .int 0 := by
  induction rs with
  | nil => rfl
  | cons r rs ih => rw [exhaustAll_cons, exhaust_int, ih]

/-- the short circuit: an expression in which `ref` does not occur is returned unchanged -/
theorem exhaust_of_not_occurs (e : IdExpr) (ref : String) (h : e.occurs ref = false) :
    exhaust e ref = e := by
  cases e with
  | int v => rfl
  | flt v => rfl
  | tensor t =>
    simp only [IdExpr.occurs] at h
    simp [exhaust_tensor, h]
  | add l r =>
    simp only [IdExpr.occurs, Bool.or_eq_false_iff] at h
    simp [exhaust_add, h.1, h.2]
  | mul l r =>
    simp only [IdExpr.occurs, Bool.or_eq_false_iff] at h
    simp [exhaust_mul, h.1, h.2]

/-! ### value -/

theorem value_int_zero (ρ : String → Rat) : value ρ (.int 0) = 0 := by
  simp [value]

theorem exhaust_value (ρ : String → Rat) (e : IdExpr) (ref : String) (h0 : ρ ref = 0) :
    value ρ (exhaust e ref) = value ρ e := by
  induction e with
  | int v => rfl
  | flt v => rfl
  | tensor t =>
    rw [exhaust_tensor]
    split
    · rename_i h
      have : t.id = ref := by simpa using h
      simp [value, this, h0]
    · rfl
  | add l r ihl ihr =>
    rw [exhaust_add]
    split
    · rfl
    · split
      · rename_i hz
        rw [isZeroInt_iff] at hz
        rw [hz, value_int_zero] at ihl
        simp only [value, ihr, ← ihl, Rat.zero_add]
      · split
        · rename_i hz
          rw [isZeroInt_iff] at hz
          rw [hz, value_int_zero] at ihr
          simp only [value, ihl, ← ihr, Rat.add_zero]
        · simp only [value, ihl, ihr]
  | mul l r ihl ihr =>
    rw [exhaust_mul]
    split
    · rfl
    · split
      · rename_i hz
        rw [Bool.or_eq_true, isZeroInt_iff, isZeroInt_iff] at hz
        rcases hz with hz | hz
        · rw [hz, value_int_zero] at ihl
          simp only [value, ← ihl, Rat.zero_mul]
          simp
        · rw [hz, value_int_zero] at ihr
          simp only [value, ← ihr, Rat.mul_zero]
          simp
      · simp only [value, ihl, ihr]

/-! ### structural presence (literals present) -/

theorem presentStruct_true (e : IdExpr) : presentStruct (fun _ => true) e = true := by
  induction e with
  | int v => rfl
  | flt v => rfl
  | tensor t => rfl
  | add l r ihl ihr => simp [presentStruct, ihl]
  | mul l r ihl ihr => simp [presentStruct, ihl, ihr]

theorem presentStruct_congr {P Q : String → Bool} (h : ∀ id, P id = Q id) (e : IdExpr) :
    presentStruct P e = presentStruct Q e := by
  have : P = Q := funext h
  rw [this]

/-- removing from the present set an id that does not occur changes nothing -/
theorem presentStruct_remove_not_occurs (P : String → Bool) (r : String) (e : IdExpr)
    (h : e.occurs r = false) :
    presentStruct (fun id => !(id == r) && P id) e = presentStruct P e := by
  induction e with
  | int v => rfl
  | flt v => rfl
  | tensor t =>
    simp only [IdExpr.occurs] at h
    simp [presentStruct, h]
  | add l r' ihl ihr =>
    simp only [IdExpr.occurs, Bool.or_eq_false_iff] at h
    simp only [presentStruct, ihl h.1, ihr h.2]
  | mul l r' ihl ihr =>
    simp only [IdExpr.occurs, Bool.or_eq_false_iff] at h
    simp only [presentStruct, ihl h.1, ihr h.2]

/-- one exhaust step: an expression without structural support when `r` and the ids outside `P` are
absent becomes the literal zero or remains without support once `r` has been exhausted -/
theorem exhaust_dead_step (P : String → Bool) (r : String) (e : IdExpr)
    (h : presentStruct (fun id => !(id == r) && P id) e = false) :
    exhaust e r = .int 0 ∨ presentStruct P (exhaust e r) = false := by
  induction e with
  | int v => simp [presentStruct] at h
  | flt v => simp [presentStruct] at h
  | tensor t =>
    rw [exhaust_tensor]
    split
    · exact .inl rfl
    · rename_i hne
      right
      simpa [presentStruct, hne] using h
  | add l r' ihl ihr =>
    rw [exhaust_add]
    split
    · rename_i hno
      right
      rw [← presentStruct_remove_not_occurs P r _ (by simpa [IdExpr.occurs] using hno)]
      exact h
    · simp only [presentStruct, Bool.or_eq_false_iff] at h
      have hl := ihl h.1
      have hr := ihr h.2
      split
      · exact hr
      · split
        · exact hl
        · rename_i hzl hzr
          rw [Bool.not_eq_true, isZeroInt_false_iff] at hzl hzr
          right
          simp only [presentStruct, Bool.or_eq_false_iff]
          exact ⟨hl.resolve_left hzl, hr.resolve_left hzr⟩
  | mul l r' ihl ihr =>
    rw [exhaust_mul]
    split
    · rename_i hno
      right
      rw [← presentStruct_remove_not_occurs P r _ (by simpa [IdExpr.occurs] using hno)]
      exact h
    · split
      · exact .inl rfl
      · rename_i hz
        rw [Bool.not_eq_true, Bool.or_eq_false_iff, isZeroInt_false_iff, isZeroInt_false_iff] at hz
        right
        simp only [presentStruct, Bool.and_eq_false_iff] at h ⊢
        rcases h with h | h
        · exact .inl ((ihl h).resolve_left hz.1)
        · exact .inr ((ihr h).resolve_left hz.2)

theorem notin_cons (r : String) (A : List String) (id : String) :
    (!(r :: A).contains id) = (!(id == r) && !A.contains id) := by
  rw [List.contains_cons, Bool.not_or]

/-- an expression that is the literal zero, or has no structural support when the ids in `A` are
absent, is exhausted to the literal zero -/
theorem exhaustAll_dead (A : List String) (e : IdExpr)
    (h : e = .int 0 ∨ presentStruct (fun id => !A.contains id) e = false) :
    exhaustAll e A = .int 0 := by
  induction A generalizing e with
  | nil =>
    rcases h with h | h
    · exact h
    · rw [presentStruct_congr (Q := fun _ => true) (by simp), presentStruct_true] at h
      cases h
  | cons r A ih =>
    rw [exhaustAll_cons]
    apply ih
    rcases h with h | h
    · left; rw [h]; rfl
    · rw [presentStruct_congr (notin_cons r A)] at h
      exact exhaust_dead_step _ r e h

/-! ### structural presence with the literal `Integer 0` absent

`presentStructT` is the variant of `presentStruct` in which the literal `.int 0` is absent. The
naive variant ("`.int 0` absent, sums either, products both") does NOT make
`exhaust_all_absent_is_zero` true, because `exhaust_tensor` only simplifies a node in which the
exhausted tensor occurs:
* `mul (int 0) (int 1)` is never touched: `exhaustAll (mul (int 0) (int 1)) A = mul (int 0) (int 1)`;
* `add (tensor a) (add (int 0) (int 0))` with `a` absent exhausts to `add (int 0) (int 0)`.
A sum/product therefore only counts as absent when, in addition, some absent tensor occurs in it.
With that proviso the notion is exact (`exhaustAll_eq_zero_iff`), hence the weakest possible. -/

/-- some tensor occurrence of `e` is absent -/
def anyAbsent (P : String → Bool) : IdExpr → Bool
  | .int _ => false
  | .flt _ => false
  | .tensor t => !P t.id
  | .add l r => anyAbsent P l || anyAbsent P r
  | .mul l r => anyAbsent P l || anyAbsent P r

def presentStructT (P : String → Bool) : IdExpr → Bool
  | .int v => v != 0
  | .flt _ => true
  | .tensor t => P t.id
  | .add l r => presentStructT P l || presentStructT P r || !(anyAbsent P l || anyAbsent P r)
  | .mul l r => (presentStructT P l && presentStructT P r) || !(anyAbsent P l || anyAbsent P r)

theorem anyAbsent_true (e : IdExpr) : anyAbsent (fun _ => true) e = false := by
  induction e with
  | int v => rfl
  | flt v => rfl
  | tensor t => rfl
  | add l r ihl ihr => simp [anyAbsent, ihl, ihr]
  | mul l r ihl ihr => simp [anyAbsent, ihl, ihr]

theorem anyAbsent_congr {P Q : String → Bool} (h : ∀ id, P id = Q id) (e : IdExpr) :
    anyAbsent P e = anyAbsent Q e := by
  have : P = Q := funext h
  rw [this]

theorem presentStructT_congr {P Q : String → Bool} (h : ∀ id, P id = Q id) (e : IdExpr) :
    presentStructT P e = presentStructT Q e := by
  have : P = Q := funext h
  rw [this]

/-- with nothing absent only the literal zero itself is absent -/
theorem presentStructT_true (e : IdExpr) :
    presentStructT (fun _ => true) e = false ↔ e = .int 0 := by
  cases e with
  | int v => simp [presentStructT]
  | flt v => simp [presentStructT]
  | tensor t => simp [presentStructT]
  | add l r => simp [presentStructT, anyAbsent_true]
  | mul l r => simp [presentStructT, anyAbsent_true]

theorem anyAbsent_remove_not_occurs (P : String → Bool) (r : String) (e : IdExpr)
    (h : e.occurs r = false) :
    anyAbsent (fun id => !(id == r) && P id) e = anyAbsent P e := by
  induction e with
  | int v => rfl
  | flt v => rfl
  | tensor t =>
    simp only [IdExpr.occurs] at h
    simp [anyAbsent, h]
  | add l r' ihl ihr =>
    simp only [IdExpr.occurs, Bool.or_eq_false_iff] at h
    simp only [anyAbsent, ihl h.1, ihr h.2]
  | mul l r' ihl ihr =>
    simp only [IdExpr.occurs, Bool.or_eq_false_iff] at h
    simp only [anyAbsent, ihl h.1, ihr h.2]

theorem presentStructT_remove_not_occurs (P : String → Bool) (r : String) (e : IdExpr)
    (h : e.occurs r = false) :
    presentStructT (fun id => !(id == r) && P id) e = presentStructT P e := by
  induction e with
  | int v => rfl
  | flt v => rfl
  | tensor t =>
    simp only [IdExpr.occurs] at h
    simp [presentStructT, h]
  | add l r' ihl ihr =>
    simp only [IdExpr.occurs, Bool.or_eq_false_iff] at h
    simp only [presentStructT, ihl h.1, ihr h.2, anyAbsent_remove_not_occurs _ _ _ h.1,
      anyAbsent_remove_not_occurs _ _ _ h.2]
  | mul l r' ihl ihr =>
    simp only [IdExpr.occurs, Bool.or_eq_false_iff] at h
    simp only [presentStructT, ihl h.1, ihr h.2, anyAbsent_remove_not_occurs _ _ _ h.1,
      anyAbsent_remove_not_occurs _ _ _ h.2]

/-- an absent expression other than the literal zero contains an absent tensor -/
theorem anyAbsent_of_absentT (P : String → Bool) (e : IdExpr)
    (h : presentStructT P e = false) (hne : e ≠ .int 0) : anyAbsent P e = true := by
  cases e with
  | int v =>
    simp only [presentStructT, bne_eq_false_iff_eq] at h
    exact absurd (by rw [h]) hne
  | flt v => simp [presentStructT] at h
  | tensor t => simpa [presentStructT, anyAbsent] using h
  | add l r =>
    simp only [presentStructT, Bool.or_eq_false_iff, Bool.not_eq_false'] at h
    simpa [anyAbsent] using h.2
  | mul l r =>
    simp only [presentStructT, Bool.or_eq_false_iff, Bool.not_eq_false'] at h
    simpa [anyAbsent] using h.2

/-- forward step for `presentStructT` -/
theorem exhaust_absentT_step (P : String → Bool) (r : String) (e : IdExpr)
    (h : presentStructT (fun id => !(id == r) && P id) e = false) :
    exhaust e r = .int 0 ∨ presentStructT P (exhaust e r) = false := by
  induction e with
  | int v =>
    left
    simp only [presentStructT, bne_eq_false_iff_eq] at h
    rw [h]; rfl
  | flt v => simp [presentStructT] at h
  | tensor t =>
    rw [exhaust_tensor]
    split
    · exact .inl rfl
    · rename_i hne
      right
      simpa [presentStructT, hne] using h
  | add l r' ihl ihr =>
    rw [exhaust_add]
    split
    · rename_i hno
      right
      rw [← presentStructT_remove_not_occurs P r _ (by simpa [IdExpr.occurs] using hno)]
      exact h
    · simp only [presentStructT, Bool.or_eq_false_iff] at h
      have hl := ihl h.1.1
      have hr := ihr h.1.2
      split
      · exact hr
      · split
        · exact hl
        · rename_i hzl hzr
          rw [Bool.not_eq_true, isZeroInt_false_iff] at hzl hzr
          right
          have hl' := hl.resolve_left hzl
          simp only [presentStructT, Bool.or_eq_false_iff, Bool.not_eq_false']
          exact ⟨⟨hl', hr.resolve_left hzr⟩, by simp [anyAbsent_of_absentT P _ hl' hzl]⟩
  | mul l r' ihl ihr =>
    rw [exhaust_mul]
    split
    · rename_i hno
      right
      rw [← presentStructT_remove_not_occurs P r _ (by simpa [IdExpr.occurs] using hno)]
      exact h
    · split
      · exact .inl rfl
      · rename_i hz
        rw [Bool.not_eq_true, Bool.or_eq_false_iff, isZeroInt_false_iff, isZeroInt_false_iff] at hz
        right
        simp only [presentStructT, Bool.or_eq_false_iff, Bool.and_eq_false_iff,
          Bool.not_eq_false'] at h ⊢
        rcases h.1 with h1 | h1
        · have hl' := (ihl h1).resolve_left hz.1
          exact ⟨.inl hl', by simp [anyAbsent_of_absentT P _ hl' hz.1]⟩
        · have hr' := (ihr h1).resolve_left hz.2
          exact ⟨.inr hr', by simp [anyAbsent_of_absentT P _ hr' hz.2]⟩

theorem exhaustAll_absentT (A : List String) (e : IdExpr)
    (h : e = .int 0 ∨ presentStructT (fun id => !A.contains id) e = false) :
    exhaustAll e A = .int 0 := by
  induction A generalizing e with
  | nil =>
    rcases h with h | h
    · exact h
    · rw [presentStructT_congr (Q := fun _ => true) (by simp), presentStructT_true] at h
      exact h
  | cons r A ih =>
    rw [exhaustAll_cons]
    apply ih
    rcases h with h | h
    · left; rw [h]; rfl
    · rw [presentStructT_congr (notin_cons r A)] at h
      exact exhaust_absentT_step _ r e h

/-- an id that occurs in `e` and is removed makes some tensor of `e` absent -/
theorem anyAbsent_of_occurs (P : String → Bool) (r : String) (e : IdExpr) (h : e.occurs r = true) :
    anyAbsent (fun id => !(id == r) && P id) e = true := by
  induction e with
  | int v => simp [IdExpr.occurs] at h
  | flt v => simp [IdExpr.occurs] at h
  | tensor t =>
    simp only [IdExpr.occurs] at h
    simp [anyAbsent, h]
  | add l r' ihl ihr =>
    simp only [IdExpr.occurs, Bool.or_eq_true] at h
    simp only [anyAbsent, Bool.or_eq_true]
    exact h.imp ihl ihr
  | mul l r' ihl ihr =>
    simp only [IdExpr.occurs, Bool.or_eq_true] at h
    simp only [anyAbsent, Bool.or_eq_true]
    exact h.imp ihl ihr

/-- backward step: exactness of `presentStructT` -/
theorem exhaust_absentT_step_conv (P : String → Bool) (r : String) (e : IdExpr)
    (h : presentStructT P (exhaust e r) = false) :
    presentStructT (fun id => !(id == r) && P id) e = false := by
  induction e with
  | int v => exact h
  | flt v => exact h
  | tensor t =>
    rw [exhaust_tensor] at h
    split at h
    · rename_i heq
      simp [presentStructT, heq]
    · simp only [presentStructT] at h
      simp [presentStructT, h]
  | add l r' ihl ihr =>
    rw [exhaust_add] at h
    split at h
    · rename_i hno
      rw [presentStructT_remove_not_occurs P r _ (by simpa [IdExpr.occurs] using hno)]
      exact h
    · rename_i hocc
      have hany : (anyAbsent (fun id => !(id == r) && P id) l
          || anyAbsent (fun id => !(id == r) && P id) r') = true := by
        have : (l.occurs r || r'.occurs r) = true := by
          cases h1 : l.occurs r <;> cases h2 : r'.occurs r <;> simp [h1, h2] at hocc ⊢
        rw [Bool.or_eq_true] at this ⊢
        exact this.imp (anyAbsent_of_occurs P r l) (anyAbsent_of_occurs P r r')
      simp only [presentStructT, Bool.or_eq_false_iff, Bool.not_eq_false']
      refine ⟨?_, hany⟩
      split at h
      · rename_i hz
        rw [isZeroInt_iff] at hz
        exact ⟨ihl (by rw [hz]; rfl), ihr h⟩
      · split at h
        · rename_i hz
          rw [isZeroInt_iff] at hz
          exact ⟨ihl h, ihr (by rw [hz]; rfl)⟩
        · simp only [presentStructT, Bool.or_eq_false_iff] at h
          exact ⟨ihl h.1.1, ihr h.1.2⟩
  | mul l r' ihl ihr =>
    rw [exhaust_mul] at h
    split at h
    · rename_i hno
      rw [presentStructT_remove_not_occurs P r _ (by simpa [IdExpr.occurs] using hno)]
      exact h
    · rename_i hocc
      have hany : (anyAbsent (fun id => !(id == r) && P id) l
          || anyAbsent (fun id => !(id == r) && P id) r') = true := by
        have : (l.occurs r || r'.occurs r) = true := by
          cases h1 : l.occurs r <;> cases h2 : r'.occurs r <;> simp [h1, h2] at hocc ⊢
        rw [Bool.or_eq_true] at this ⊢
        exact this.imp (anyAbsent_of_occurs P r l) (anyAbsent_of_occurs P r r')
      simp only [presentStructT, Bool.or_eq_false_iff, Bool.and_eq_false_iff, Bool.not_eq_false']
      refine ⟨?_, hany⟩
      split at h
      · rename_i hz
        rw [Bool.or_eq_true, isZeroInt_iff, isZeroInt_iff] at hz
        rcases hz with hz | hz
        · exact .inl (ihl (by rw [hz]; rfl))
        · exact .inr (ihr (by rw [hz]; rfl))
      · simp only [presentStructT, Bool.or_eq_false_iff, Bool.and_eq_false_iff] at h
        exact h.1.imp ihl ihr

theorem exhaustAll_absentT_conv (A : List String) (e : IdExpr) (h : exhaustAll e A = .int 0) :
    presentStructT (fun id => !A.contains id) e = false := by
  induction A generalizing e with
  | nil =>
    rw [presentStructT_congr (Q := fun _ => true) (by simp), presentStructT_true]
    exact h
  | cons r A ih =>
    rw [exhaustAll_cons] at h
    rw [presentStructT_congr (notin_cons r A)]
    exact exhaust_absentT_step_conv _ r e (ih _ h)

theorem anyAbsent_of_not_presentStruct (P : String → Bool) (e : IdExpr)
    (h : presentStruct P e = false) : anyAbsent P e = true := by
  induction e with
  | int v => simp [presentStruct] at h
  | flt v => simp [presentStruct] at h
  | tensor t => simpa [presentStruct, anyAbsent] using h
  | add l r ihl ihr =>
    simp only [presentStruct, Bool.or_eq_false_iff] at h
    simp [anyAbsent, ihl h.1]
  | mul l r ihl ihr =>
    simp only [presentStruct, Bool.and_eq_false_iff] at h
    simp only [anyAbsent, Bool.or_eq_true]
    exact h.imp ihl ihr

/-- `presentStructT` is the stronger notion of presence: `presentStructT P e → presentStruct P e` -/
theorem presentStructT_false_of_presentStruct_false (P : String → Bool) (e : IdExpr)
    (h : presentStruct P e = false) : presentStructT P e = false := by
  induction e with
  | int v => simp [presentStruct] at h
  | flt v => simp [presentStruct] at h
  | tensor t => exact h
  | add l r ihl ihr =>
    have ha := anyAbsent_of_not_presentStruct P _ h
    simp only [presentStruct, Bool.or_eq_false_iff] at h
    simp only [anyAbsent] at ha
    simp [presentStructT, ihl h.1, ihr h.2, ha]
  | mul l r ihl ihr =>
    have ha := anyAbsent_of_not_presentStruct P _ h
    simp only [presentStruct, Bool.and_eq_false_iff] at h
    simp only [anyAbsent] at ha
    simp only [presentStructT, ha, Bool.not_true, Bool.or_false, Bool.and_eq_false_iff]
    exact h.imp ihl ihr

/-! ### the sparse/dense classification -/

theorem context_add_isSparse (a b : Context) : (a.add b).isSparse = (a.isSparse && b.isSparse) := rfl
theorem context_mul_isSparse (a b : Context) : (a.mul b).isSparse = (a.isSparse || b.isSparse) := rfl
theorem context_add_sparseLeaves (a b : Context) :
    (a.add b).sparseLeaves = a.sparseLeaves ++ b.sparseLeaves := rfl
theorem context_mul_sparseLeaves (a b : Context) :
    (a.mul b).sparseLeaves = a.sparseLeaves ++ b.sparseLeaves := rfl

end TV.Graph
