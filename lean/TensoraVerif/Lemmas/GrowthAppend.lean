import TensoraVerif.Lemmas.GrowthNames

/-!
C05 ("growing before overflow"), infrastructure, part 5: the guarded append `writeCrdAssembly` in
`Runs` form, and the induction over `n` consecutive appends `i = v; writeCrdAssembly; p += 1`
starting from the state produced by `cap = k; crd = malloc(cap); p = 0` ("however small they
started").
-/
namespace TV.Growth
open TV.IR TV.Gen TV.Graph

set_option linter.unusedSectionVars false
variable {F : Type} [FloatOps F]

theorem ArrInv.congr {σ σ' : State F} {arr cap : String} {ety : ElemTy} {b : Nat} {c : Int}
    (h : ArrInv σ arr cap ety b c) (hh : σ'.heap = σ.heap)
    (ha : lookupVar σ'.vars arr = lookupVar σ.vars arr)
    (hc : lookupVar σ'.vars cap = lookupVar σ.vars cap) : ArrInv σ' arr cap ety b c := by
  obtain ⟨blk, e, r⟩ := h.blk
  exact ⟨h.arr.congr ha, h.cap.congr hc, ⟨blk, by rw [hh]; exact e, r⟩, h.pos, h.lt⟩

/-- G1 in `Runs` form (see `writeCrdAssembly_safe` in `Props/C05Growth.lean`) -/
theorem crdAssembly_runs (out : Leaf) (fuel : Nat) (σ : State F) (b : Nat) (c p v : Int)
    (hinv : ArrInv σ (crdName out.tensor.name out.layer) (crdCapName out.tensor.name out.layer) .int b c)
    (hp : IntVar σ out.ptr p) (hp0 : 0 ≤ p) (hpc : p ≤ c)
    (hv : IntVar σ out.index v) (hv0 : -2147483648 ≤ v) (hv1 : v < 2147483648)
    (hov : c ≤ p → 2 * c < 2147483648)
    (hnames : namesDistinct out) :
    ∃ σ' b' c', Runs fuel (writeCrdAssembly out).finalize σ σ' ∧
      StorePost σ σ' (crdName out.tensor.name out.layer) (crdCapName out.tensor.name out.layer) .int
        b c p (.int v) b' c' ∧
      IntVar σ' out.ptr p ∧ IntVar σ' out.index v := by
  simp only [namesDistinct, List.pairwise_cons, List.mem_cons, List.not_mem_nil, or_false,
    forall_eq_or_imp, forall_eq, List.Pairwise.nil, and_true, false_imp_iff, implies_true] at hnames
  obtain ⟨⟨n1, n2, n3⟩, ⟨n4, n5⟩, _⟩ := hnames
  have hlt := hinv.lt
  have hpos := hinv.pos
  have ecap := evalE_var_int hinv.cap (by omega) hlt
  have eptr := evalE_var_int hp (by omega) (by omega)
  obtain ⟨σ1, b1, c1, hrun, g, hc1⟩ := guard_runs (fuel := fuel) (ty := .int)
    (minCap := .var out.ptr)
    (newCap := times (.var (crdCapName out.tensor.name out.layer)) (.intLit 2)) (c' := c * 2)
    hinv n1 rfl eptr
    (fun hcp => ⟨evalE_mul ecap (evalE_intLit (by omega) (by omega)) (by omega) (by have := hov hcp; omega),
      by omega, by have := hov hcp; omega⟩)
  have hp1 : IntVar σ1 out.ptr p := hp.congr (g.vars _ (Ne.symm n2) (Ne.symm n4))
  have hv1' : IntVar σ1 out.index v := hv.congr (g.vars _ (Ne.symm n3) (Ne.symm n5))
  have hpc1 : p < c1 := by
    rw [hc1]; split <;> omega
  obtain ⟨blk1, hb1, hlive, hown, hty, hlen⟩ := g.inv.blk
  have hstore := Runs.store_cell (fuel := fuel) (val' := .int v) g.inv.arr
    (evalE_var_int hp1 (by omega) (by omega)) (evalE_var_int hv1' hv0 hv1) hb1 hlive hown hp0
    (by omega) (by rw [hty]; rfl)
  refine ⟨_, b1, c1, ?_, store_post g hb1 hp0 hpc1, hp1, hv1'⟩
  rw [writeCrdAssembly_shape]
  exact Runs.block (RunsL.cons hrun (RunsL.cons hstore (RunsL.nil _ _)))

/-! ### `n` consecutive appends -/

/-- one append: the index variable takes the value `v`, `crd` is grown if full, `crd[p] = v`,
`p += 1` -/
def appendStep (out : Leaf) (v : Int) : List (Stmt F) :=
  [.assign (.var out.index) (.intLit v), (writeCrdAssembly out).finalize,
   increment (.var out.ptr) (.intLit 1)]

/-- the appends of the values `vs`, in order -/
def appendProg (out : Leaf) (vs : List Int) : List (Stmt F) := vs.flatMap (appendStep out)

/-- block `b` holds the values `ws` in its first `ws.length` cells -/
def Holds (σ : State F) (b : Nat) (ws : List Int) : Prop :=
  ∃ blk : Block F, σ.heap[b]? = some blk ∧ ∀ (j : Nat) (w : Int), ws[j]? = some w → blk.cells[j]? = some (some (Val.int w))

/-- the loop invariant of the appends: array invariant, cursor = number of values appended so far
`≤` capacity, the index variable is an `int`, and the array holds the appended values -/
structure AppInv (σ : State F) (out : Leaf) (b : Nat) (c : Int) (ws : List Int) : Prop where
  inv : ArrInv σ (crdName out.tensor.name out.layer) (crdCapName out.tensor.name out.layer) .int b c
  ptr : IntVar σ out.ptr ws.length
  idx : ∃ v0, IntVar σ out.index v0
  le : (ws.length : Int) ≤ c
  holds : Holds σ b ws

theorem RunsL.append {fuel : Nat} {ss ts : List (Stmt F)} {σ σ1 σ2 : State F}
    (h1 : RunsL fuel ss σ σ1) (h2 : RunsL fuel ts σ1 σ2) : RunsL fuel (ss ++ ts) σ σ2 := by
  induction ss generalizing σ with
  | nil =>
    obtain ⟨o, e, _, s⟩ := h1
    rw [execL.eq_1] at e; cases e; cases s; exact h2
  | cons s ss ih =>
    obtain ⟨o, e, r, st⟩ := h1
    rw [execL.eq_2] at e
    obtain ⟨o1, e1, e⟩ := Frame.bind_ok e
    cases hr : o1.ret with
    | some x => simp only [hr] at e; cases e; rw [hr] at r; cases r
    | none =>
      simp only [hr] at e
      obtain ⟨o2, e2, e⟩ := Frame.bind_ok e
      cases e
      exact RunsL.cons ⟨o1, e1, hr, rfl⟩ (ih ⟨o2, e2, r, st⟩)

theorem appendStep_runs (out : Leaf) (fuel : Nat) (σ : State F) (b : Nat) (c v : Int) (ws : List Int)
    (h : AppInv σ out b c ws) (hnames : namesDistinct out)
    (hv0 : -2147483648 ≤ v) (hv1 : v < 2147483648)
    (hn : (ws.length : Int) + 1 < 2147483648)
    (hov : c ≤ ws.length → 2 * c < 2147483648) :
    ∃ σ' b' c', RunsL fuel (appendStep out v) σ σ' ∧ AppInv σ' out b' c' (ws ++ [v]) ∧
      σ'.tensors = σ.tensors ∧
      (∀ k blk, k ≠ b → σ.heap[k]? = some blk → σ'.heap[k]? = some blk ∧ k ≠ b') := by
  have hnames' := hnames
  simp only [namesDistinct, List.pairwise_cons, List.mem_cons, List.not_mem_nil, or_false,
    forall_eq_or_imp, forall_eq, List.Pairwise.nil, and_true, false_imp_iff, implies_true] at hnames'
  obtain ⟨⟨n1, n2, n3⟩, ⟨n4, n5⟩, n6⟩ := hnames'
  obtain ⟨hinv, hptr, ⟨v0, hidx⟩, hle, blk, hb, hcells⟩ := h
  -- i = v
  have r1 := Runs.assign_int (fuel := fuel) hidx (evalE_intLit (σ := σ) hv0 hv1)
  have hinv1 : ArrInv ({ σ with vars := setVar σ.vars out.index (.int v) } : State F)
      (crdName out.tensor.name out.layer) (crdCapName out.tensor.name out.layer) .int b c :=
    hinv.congr rfl (lookupVar_setVar_other _ n3) (lookupVar_setVar_other _ n5)
  have hptr1 : IntVar ({ σ with vars := setVar σ.vars out.index (.int v) } : State F) out.ptr ws.length :=
    hptr.congr (lookupVar_setVar_other _ n6)
  have hidx1 : IntVar ({ σ with vars := setVar σ.vars out.index (.int v) } : State F) out.index v := by
    obtain ⟨r, e1, e2, _⟩ := hidx
    exact ⟨_, lookupVar_setVar_same _ e1, e2, rfl⟩
  -- crd assembly
  obtain ⟨σ2, b2, c2, r2, sp, hptr2, hidx2⟩ := crdAssembly_runs out fuel _ b c ws.length v hinv1 hptr1
    (by omega) hle hidx1 hv0 hv1 hov hnames
  -- p += 1
  have eptr2 := evalE_var_int hptr2 (by omega) (by omega)
  have r3 := Runs.assign_int (fuel := fuel) (e := plus (.var out.ptr) (.intLit 1)) hptr2
    (evalE_add eptr2 (evalE_intLit (by omega) (by omega)) (by omega) hn)
  refine ⟨_, b2, c2, RunsL.cons r1 (RunsL.cons r2 (RunsL.cons r3 (RunsL.nil _ _))), ?_, sp.tensors, ?_⟩
  · refine ⟨sp.inv.congr rfl (lookupVar_setVar_other _ n2) (lookupVar_setVar_other _ n4),
      ?_, ⟨v, hidx2.congr (lookupVar_setVar_other _ (Ne.symm n6))⟩, ?_, ?_⟩
    · obtain ⟨r, e1, e2, _⟩ := hptr2
      refine ⟨_, lookupVar_setVar_same _ e1, e2, ?_⟩
      simp
    · have := sp.bound
      simp only [List.length_append, List.length_cons, List.length_nil]
      omega
    · obtain ⟨blk2, hb2, hcell⟩ := sp.cell
      refine ⟨blk2, hb2, ?_⟩
      intro j w hj
      have hlen : (blk.cells.length : Int) = c := by
        obtain ⟨blk0, e0, _, _, _, hl⟩ := hinv.blk
        rw [hb] at e0; cases e0; exact hl
      rcases Nat.lt_or_ge j ws.length with hlt | hge
      · rw [List.getElem?_append_left hlt] at hj
        have := sp.cells blk blk2 hb hb2 j (by omega) (by simp; omega)
        rw [this]; exact hcells j w hj
      · have hjlen : j < (ws ++ [v]).length := by
          rcases Nat.lt_or_ge j (ws ++ [v]).length with h | h
          · exact h
          · rw [List.getElem?_eq_none h] at hj; cases hj
        simp only [List.length_append, List.length_cons, List.length_nil] at hjlen
        have hjeq : j = ws.length := by omega
        subst hjeq
        rw [List.getElem?_append_right (Nat.le_refl _)] at hj
        simp at hj
        subst hj
        simpa using hcell
  · intro k blk' hk e
    refine ⟨sp.heap k blk' hk e, ?_⟩
    have := lt_length_of_getElem? e
    rcases sp.old with h | ⟨h, _⟩
    · omega
    · have h' : b2 = σ.heap.length := h
      omega

/-- `n` consecutive appends run safely as long as `n ≤ 2^30` (then every doubled capacity is
`< 2^31`), whatever the capacity the array started with -/
theorem appendProg_runs (out : Leaf) (fuel : Nat) (hnames : namesDistinct out) (vs : List Int) :
    ∀ (σ : State F) (b : Nat) (c : Int) (ws : List Int), AppInv σ out b c ws →
      (∀ v ∈ vs, -2147483648 ≤ v ∧ v < 2147483648) →
      ws.length + vs.length ≤ 1073741824 →
      ∃ σ' b' c', RunsL fuel (appendProg out vs) σ σ' ∧ AppInv σ' out b' c' (ws ++ vs) ∧
        σ'.tensors = σ.tensors ∧
        (∀ k blk, k ≠ b → σ.heap[k]? = some blk → σ'.heap[k]? = some blk ∧ k ≠ b') := by
  induction vs with
  | nil =>
    intro σ b c ws h _ _
    exact ⟨σ, b, c, RunsL.nil _ _, by simpa using h, rfl, fun k blk hk e => ⟨e, hk⟩⟩
  | cons v vs ih =>
    intro σ b c ws h hvs hn
    simp only [List.length_cons] at hn
    have hv := hvs v (List.mem_cons_self ..)
    obtain ⟨σ1, b1, c1, r1, h1, t1, f1⟩ := appendStep_runs out fuel σ b c v ws h hnames hv.1 hv.2
      (by omega) (by intro hc; have := h.le; omega)
    obtain ⟨σ2, b2, c2, r2, h2, t2, f2⟩ := ih σ1 b1 c1 (ws ++ [v]) h1
      (fun x hx => hvs x (List.mem_cons_of_mem _ hx))
      (by simp only [List.length_append, List.length_cons, List.length_nil]; omega)
    refine ⟨σ2, b2, c2, ?_, by simpa using h2, t2.trans t1, ?_⟩
    · show RunsL fuel (appendStep out v ++ appendProg out vs) σ σ2
      exact RunsL.append r1 r2
    · intro k blk hk e
      obtain ⟨e1, hk1⟩ := f1 k blk hk e
      exact f2 k blk hk1 e1

/-! ### the initialisation `cap = k; crd = malloc(cap); p = 0` -/

theorem lookupVar_append_other {vars : List (VarRec F)} {r : VarRec F} {y : String} (h : y ≠ r.name) :
    lookupVar (vars ++ [r]) y = lookupVar vars y := by
  unfold lookupVar
  rw [List.find?_append]
  have : ¬ ((r.name == y) = true) := by
    intro e; exact h (by simpa using e : r.name = y).symm
  cases List.find? (fun x => x.name == y) vars with
  | some _ => rfl
  | none => simp [List.find?, this]

theorem lookupVar_append_fresh {vars : List (VarRec F)} {r : VarRec F}
    (h : lookupVar vars r.name = none) : lookupVar (vars ++ [r]) r.name = some r := by
  unfold lookupVar at h ⊢
  rw [List.find?_append, h]
  simp [List.find?]

/-- `T x = e;` for a variable `x` not yet declared -/
theorem Runs.declAssign_fresh {fuel : Nat} {x : String} {t : Ty} {e : Expr F} {σ : State F}
    {val val' : Val F} (hx : lookupVar σ.vars x = none) (he : evalE σ e = .ok val)
    (hconv : convTo t val = .ok val') :
    Runs fuel (.declAssign x t e) σ { σ with vars := σ.vars ++ [⟨x, t, some val'⟩] } := by
  refine ⟨⟨_, none, 0, 1⟩, ?_, rfl, rfl⟩
  rw [exec.eq_4, evalRhs_of_ok he]
  simp [bind, Except.bind, hconv, declare, hx]

/-- `arr = malloc(sizeof(ty) * cap)` -/
theorem Runs.alloc {fuel : Nat} {σ : State F} {arr cap : String} {ty : Ty} {ety : ElemTy} {k : Int}
    {r : VarRec F} {t : Ty} (ha : lookupVar σ.vars arr = some r) (hrt : r.ty = .ptr t)
    (hc : IntVar σ cap k) (h0 : 0 ≤ k) (h1 : k < 2147483648) (hty : elemOf ty = .ok ety) :
    Runs fuel (.assign (.var arr) (.alloc ty (.var cap))) σ
      { vars := setVar σ.vars arr (.ptr σ.heap.length 0),
        heap := σ.heap ++ [⟨ety, List.replicate k.toNat none, .output, true⟩],
        tensors := σ.tensors } := by
  have ec := evalE_var_int hc (by omega) h1
  refine ⟨⟨_, none, 0, 1⟩, ?_, rfl, rfl⟩
  rw [exec.eq_3]
  have hneg : ¬ k < 0 := by omega
  simp [evalRhs, ec, bind, Except.bind, doAlloc, hty, hneg, evalLoc, store, ha, hrt, convTo]

/-- the part of `appendDeclarations` that concerns the `crd` array of a compressed layer -/
def crdInit (out : Leaf) (k : Int) : List (Stmt F) :=
  [declAssignE (crdCapName out.tensor.name out.layer) .int (defaultArraySize (some k)),
   .assign (.var (crdName out.tensor.name out.layer))
     (.alloc .int (.var (crdCapName out.tensor.name out.layer))),
   declAssignE out.ptr .int (.intLit 0)]

/-- the initialisation establishes the loop invariant of the appends, with a fresh block and any
initial capacity `1 ≤ k < 2^31`; the old heap is untouched -/
theorem crdInit_runs (out : Leaf) (fuel : Nat) (σ : State F) (k : Int) (hnames : namesDistinct out)
    (hcrd : ∃ r t, lookupVar σ.vars (crdName out.tensor.name out.layer) = some r ∧ r.ty = .ptr t)
    (hcap : lookupVar σ.vars (crdCapName out.tensor.name out.layer) = none)
    (hptr : lookupVar σ.vars out.ptr = none)
    (hidx : ∃ v0, IntVar σ out.index v0) (hk1 : 1 ≤ k) (hk2 : k < 2147483648) :
    ∃ σ', RunsL fuel (crdInit out k) σ σ' ∧ AppInv σ' out σ.heap.length k [] ∧
      σ'.tensors = σ.tensors ∧
      (∀ (j : Nat) (blk : Block F), σ.heap[j]? = some blk → σ'.heap[j]? = some blk) := by
  simp only [namesDistinct, List.pairwise_cons, List.mem_cons, List.not_mem_nil, or_false,
    forall_eq_or_imp, forall_eq, List.Pairwise.nil, and_true, false_imp_iff, implies_true] at hnames
  obtain ⟨⟨n1, n2, n3⟩, ⟨n4, n5⟩, n6⟩ := hnames
  obtain ⟨rc, tc, hcrd1, hcrd2⟩ := hcrd
  obtain ⟨v0, hidx⟩ := hidx
  -- int cap = k
  have r1 := Runs.declAssign_fresh (fuel := fuel) (t := .int) (val' := .int k) hcap
    (evalE_intLit (σ := σ) (by omega) hk2) rfl
  -- crd = malloc(cap)
  have hcap1 : IntVar ({ σ with vars := σ.vars ++ [⟨crdCapName out.tensor.name out.layer, .int, some (.int k)⟩] } : State F)
      (crdCapName out.tensor.name out.layer) k :=
    ⟨_, lookupVar_append_fresh (r := ⟨crdCapName out.tensor.name out.layer, .int, some (.int k)⟩) hcap, rfl, rfl⟩
  have hcrd1' : lookupVar (σ.vars ++ [⟨crdCapName out.tensor.name out.layer, .int, some (.int k)⟩])
      (crdName out.tensor.name out.layer) = some rc :=
    (lookupVar_append_other (r := ⟨crdCapName out.tensor.name out.layer, .int, some (.int k)⟩) n1).trans hcrd1
  have r2 := Runs.alloc (fuel := fuel) (ty := .int) (ety := .int)
    (σ := { σ with vars := σ.vars ++ [⟨crdCapName out.tensor.name out.layer, .int, some (.int k)⟩] })
    hcrd1' hcrd2 hcap1 (by omega) hk2 rfl
  -- int p = 0
  have hptr2 : lookupVar (setVar (σ.vars ++ [⟨crdCapName out.tensor.name out.layer, .int, some (.int k)⟩])
      (crdName out.tensor.name out.layer) (.ptr σ.heap.length 0)) out.ptr = none := by
    rw [lookupVar_setVar_other _ (Ne.symm n2),
      lookupVar_append_other (r := ⟨crdCapName out.tensor.name out.layer, .int, some (.int k)⟩) (Ne.symm n4)]
    exact hptr
  have r3 := Runs.declAssign_fresh (fuel := fuel) (t := .int) (val' := .int 0)
    (σ := { vars := setVar (σ.vars ++ [⟨crdCapName out.tensor.name out.layer, .int, some (.int k)⟩])
              (crdName out.tensor.name out.layer) (.ptr σ.heap.length 0),
            heap := σ.heap ++ [⟨.int, List.replicate k.toNat none, .output, true⟩],
            tensors := σ.tensors })
    hptr2 (evalE_intLit (by omega) (by omega)) rfl
  refine ⟨_, RunsL.cons r1 (RunsL.cons r2 (RunsL.cons r3 (RunsL.nil _ _))), ?_, rfl, ?_⟩
  · refine ⟨⟨?_, ?_, ?_, hk1, hk2⟩, ?_, ⟨v0, ?_⟩, by simpa using (by omega : (0 : Int) ≤ k), ?_⟩
    · -- crd
      refine ⟨{ rc with val := some (.ptr σ.heap.length 0) }, tc, ?_, hcrd2, rfl⟩
      show lookupVar (_ ++ [(⟨out.ptr, .int, some (.int 0)⟩ : VarRec F)]) _ = _
      rw [lookupVar_append_other (r := ⟨out.ptr, .int, some (.int 0)⟩) n2]
      exact lookupVar_setVar_same _ hcrd1'
    · -- cap
      refine ⟨⟨crdCapName out.tensor.name out.layer, .int, some (.int k)⟩, ?_, rfl, rfl⟩
      show lookupVar (_ ++ [(⟨out.ptr, .int, some (.int 0)⟩ : VarRec F)]) _ = _
      rw [lookupVar_append_other (r := ⟨out.ptr, .int, some (.int 0)⟩) n4,
        lookupVar_setVar_other _ (Ne.symm n1)]
      exact lookupVar_append_fresh (r := ⟨crdCapName out.tensor.name out.layer, .int, some (.int k)⟩) hcap
    · -- block
      refine ⟨⟨.int, List.replicate k.toNat none, .output, true⟩, ?_, rfl, rfl, rfl, ?_⟩
      · show (σ.heap ++ [_])[σ.heap.length]? = _
        simp
      · simp only [List.length_replicate]; omega
    · -- p
      exact ⟨_, lookupVar_append_fresh (r := ⟨out.ptr, .int, some (.int 0)⟩) hptr2, rfl, rfl⟩
    · -- index
      refine hidx.congr ?_
      show lookupVar (_ ++ [(⟨out.ptr, .int, some (.int 0)⟩ : VarRec F)]) _ = _
      rw [lookupVar_append_other (r := ⟨out.ptr, .int, some (.int 0)⟩) (Ne.symm n6),
        lookupVar_setVar_other _ (Ne.symm n3),
        lookupVar_append_other (r := ⟨crdCapName out.tensor.name out.layer, .int, some (.int k)⟩) (Ne.symm n5)]
    · -- holds
      refine ⟨⟨.int, List.replicate k.toNat none, .output, true⟩, ?_, ?_⟩
      · show (σ.heap ++ [_])[σ.heap.length]? = _
        simp
      · intro j w hj; simp at hj
  · intro j blk e
    show (σ.heap ++ [_])[j]? = _
    rw [List.getElem?_append_left (lt_length_of_getElem? e)]
    exact e

end TV.Growth
