import TensoraVerif.Model.Machine
import TensoraVerif.Lemmas.FrameBasic
import TensoraVerif.Lemmas.PeepholeStore

/-!
C05 ("growing before overflow"), infrastructure, part 1: variable environments, the array
invariant `ArrInv`, evaluation of the small expressions the growth fragments are made of, and the
`Runs`/`RunsL` composition rules for `exec`/`execL`.
-/
namespace TV.Growth
open TV.IR

set_option linter.unusedSectionVars false
variable {F : Type} [FloatOps F]

/-! ### variable lookup / update algebra -/

theorem lookupVar_setVarOpt_same {vars : List (VarRec F)} {x : String} {r : VarRec F}
    (v : Option (Val F)) (h : lookupVar vars x = some r) :
    lookupVar (setVarOpt vars x v) x = some { r with val := v } := by
  induction vars with
  | nil => simp [lookupVar] at h
  | cons a rest ih =>
    unfold lookupVar at h ih ⊢
    unfold setVarOpt
    by_cases ha : (a.name == x) = true
    · simp only [ha, if_true, List.find?_cons_of_pos] at h ⊢
      cases h
      simp
    · simp only [ha, List.find?_cons_of_neg, Bool.false_eq_true, if_false, not_false_eq_true] at h ⊢
      exact ih h

theorem lookupVar_setVarOpt_other {vars : List (VarRec F)} {x y : String}
    (v : Option (Val F)) (h : y ≠ x) :
    lookupVar (setVarOpt vars x v) y = lookupVar vars y := by
  induction vars with
  | nil => rfl
  | cons a rest ih =>
    unfold lookupVar at ih ⊢
    unfold setVarOpt
    by_cases ha : (a.name == x) = true
    · have hax : a.name = x := by simpa using ha
      have hay : ¬ ((a.name == y) = true) := by
        intro hy; exact h ((by simpa using hy : a.name = y).symm.trans hax)
      simp only [ha, if_true]
      rw [List.find?_cons_of_neg (by simpa using hay), List.find?_cons_of_neg (by simpa using hay)]
    · simp only [ha, Bool.false_eq_true, if_false]
      by_cases hy : (a.name == y) = true
      · rw [List.find?_cons_of_pos (by simpa using hy), List.find?_cons_of_pos (by simpa using hy)]
      · rw [List.find?_cons_of_neg (by simpa using hy), List.find?_cons_of_neg (by simpa using hy)]
        exact ih

theorem lookupVar_setVar_same {vars : List (VarRec F)} {x : String} {r : VarRec F}
    (v : Val F) (h : lookupVar vars x = some r) :
    lookupVar (setVar vars x v) x = some { r with val := some v } :=
  lookupVar_setVarOpt_same (some v) h

theorem lookupVar_setVar_other {vars : List (VarRec F)} {x y : String}
    (v : Val F) (h : y ≠ x) : lookupVar (setVar vars x v) y = lookupVar vars y :=
  lookupVar_setVarOpt_other (some v) h

/-! ### typed variables and the array invariant -/

/-- `x` is declared `int` and currently holds `v` -/
def IntVar (σ : State F) (x : String) (v : Int) : Prop :=
  ∃ r, lookupVar σ.vars x = some r ∧ r.ty = .int ∧ r.val = some (.int v)

/-- `x` is declared with a pointer type and currently holds the base address of block `b` -/
def PtrVar (σ : State F) (x : String) (b : Nat) : Prop :=
  ∃ r t, lookupVar σ.vars x = some r ∧ r.ty = .ptr t ∧ r.val = some (.ptr b 0)

/-- block `b` of the heap is a live, output-owned array of `ety` with exactly `c` cells -/
def ArrBlock (σ : State F) (ety : ElemTy) (b : Nat) (c : Int) : Prop :=
  ∃ blk, σ.heap[b]? = some blk ∧ blk.live = true ∧ blk.owner = .output ∧ blk.ty = ety ∧
    (blk.cells.length : Int) = c

/-- The array invariant: the pointer variable `arr` holds the base address of block `b`, the
`int` variable `cap` holds `c`, block `b` is a live output-owned block of element type `ety` with
exactly `c` cells, and `1 ≤ c < 2^31`. -/
structure ArrInv (σ : State F) (arr cap : String) (ety : ElemTy) (b : Nat) (c : Int) : Prop where
  arr : PtrVar σ arr b
  cap : IntVar σ cap c
  blk : ArrBlock σ ety b c
  pos : 1 ≤ c
  lt : c < 2147483648

theorem inI32_of {z : Int} (h0 : -2147483648 ≤ z) (h1 : z < 2147483648) : inI32 z = true := by
  simp [inI32, h0, h1]

theorem IntVar.congr {σ σ' : State F} {x : String} {v : Int} (h : IntVar σ x v)
    (e : lookupVar σ'.vars x = lookupVar σ.vars x) : IntVar σ' x v := by
  obtain ⟨r, h1, h2, h3⟩ := h; exact ⟨r, e.trans h1, h2, h3⟩

theorem PtrVar.congr {σ σ' : State F} {x : String} {b : Nat} (h : PtrVar σ x b)
    (e : lookupVar σ'.vars x = lookupVar σ.vars x) : PtrVar σ' x b := by
  obtain ⟨r, t, h1, h2, h3⟩ := h; exact ⟨r, t, e.trans h1, h2, h3⟩

theorem IntVar.unique {σ : State F} {x : String} {v w : Int} (h : IntVar σ x v) (h' : IntVar σ x w) :
    v = w := by
  obtain ⟨r, h1, _, h3⟩ := h
  obtain ⟨r', h1', _, h3'⟩ := h'
  rw [h1] at h1'; cases h1'
  rw [h3] at h3'; cases h3'; rfl

/-! ### expressions -/

theorem evalE_var_int {σ : State F} {x : String} {v : Int} (h : IntVar σ x v)
    (h0 : -2147483648 ≤ v) (h1 : v < 2147483648) : evalE σ (.var x) = .ok (.int v) := by
  obtain ⟨r, e1, e2, e3⟩ := h
  simp [evalE, e1, e2, e3, hasTy, chkVal, chkInt, inI32_of h0 h1]

theorem evalE_var_ptr {σ : State F} {x : String} {b : Nat} (h : PtrVar σ x b) :
    evalE σ (.var x) = .ok (.ptr b 0) := by
  obtain ⟨r, t, e1, e2, e3⟩ := h
  simp [evalE, e1, e2, e3, hasTy, chkVal]

theorem evalE_intLit {σ : State F} {v : Int} (h0 : -2147483648 ≤ v) (h1 : v < 2147483648) :
    evalE σ (.intLit v) = .ok (.int v) := by
  simp [evalE, chkInt, inI32_of h0 h1]

theorem evalE_add {σ : State F} {l r : Expr F} {x y : Int} (hl : evalE σ l = .ok (.int x))
    (hr : evalE σ r = .ok (.int y)) (h0 : -2147483648 ≤ x + y) (h1 : x + y < 2147483648) :
    evalE σ (.bin .add l r) = .ok (.int (x + y)) := by
  simp [evalE, hl, hr, bind, Except.bind, binVal, Val.toNum, numOp, chkInt, inI32_of h0 h1]

theorem evalE_mul {σ : State F} {l r : Expr F} {x y : Int} (hl : evalE σ l = .ok (.int x))
    (hr : evalE σ r = .ok (.int y)) (h0 : -2147483648 ≤ x * y) (h1 : x * y < 2147483648) :
    evalE σ (.bin .mul l r) = .ok (.int (x * y)) := by
  simp [evalE, hl, hr, bind, Except.bind, binVal, Val.toNum, numOp, chkInt, inI32_of h0 h1]

theorem evalE_max {σ : State F} {l r : Expr F} {x y : Int} (hl : evalE σ l = .ok (.int x))
    (hr : evalE σ r = .ok (.int y)) :
    evalE σ (.bin .max l r) = .ok (.int (if x > y then x else y)) := by
  simp [evalE, hl, hr, bind, Except.bind, binVal, Val.toNum, numOp]

theorem evalE_ge {σ : State F} {l r : Expr F} {x y : Int} (hl : evalE σ l = .ok (.int x))
    (hr : evalE σ r = .ok (.int y)) :
    evalE σ (.bin .ge l r) = .ok (.bool (decide (x ≥ y))) := by
  simp [evalE, hl, hr, bind, Except.bind, binVal, Val.toNum, numOp]

/-! ### runs -/

/-- `s` runs from `σ` without error, does not return, and ends in `σ'` -/
def Runs (fuel : Nat) (s : Stmt F) (σ σ' : State F) : Prop :=
  ∃ o, exec fuel s σ = .ok o ∧ o.ret = none ∧ o.st = σ'

def RunsL (fuel : Nat) (ss : List (Stmt F)) (σ σ' : State F) : Prop :=
  ∃ o, execL fuel ss σ = .ok o ∧ o.ret = none ∧ o.st = σ'

theorem RunsL.nil (fuel : Nat) (σ : State F) : RunsL fuel [] σ σ :=
  ⟨⟨σ, none, 0, 0⟩, by rw [execL.eq_1], rfl, rfl⟩

theorem RunsL.cons {fuel : Nat} {s : Stmt F} {ss : List (Stmt F)} {σ σ1 σ2 : State F}
    (h1 : Runs fuel s σ σ1) (h2 : RunsL fuel ss σ1 σ2) : RunsL fuel (s :: ss) σ σ2 := by
  obtain ⟨o1, e1, r1, s1⟩ := h1
  obtain ⟨o2, e2, r2, s2⟩ := h2
  subst s1
  refine ⟨o1.seq o2, ?_, r2, s2⟩
  rw [execL.eq_2, e1]
  simp only [bind, Except.bind, r1, e2]

theorem Runs.block {fuel : Nat} {ss : List (Stmt F)} {c : Option String} {σ σ' : State F}
    (h : RunsL fuel ss σ σ') : Runs fuel (.block ss c) σ σ' := by
  obtain ⟨o, e, r, s⟩ := h
  exact ⟨o, by rw [exec.eq_5]; exact e, r, s⟩

theorem Runs.branch_true {fuel : Nat} {c : Expr F} {t f : Stmt F} {σ σ' : State F}
    (hc : evalE σ c = .ok (.bool true)) (h : Runs fuel t σ σ') : Runs fuel (.branch c t f) σ σ' := by
  obtain ⟨o, e, r, s⟩ := h
  refine ⟨{ o with steps := o.steps + 1 }, ?_, r, s⟩
  rw [exec.eq_6, hc]
  simp only [bind, Except.bind, e]

theorem Runs.branch_false {fuel : Nat} {c : Expr F} {t f : Stmt F} {σ σ' : State F}
    (hc : evalE σ c = .ok (.bool false)) (h : Runs fuel f σ σ') : Runs fuel (.branch c t f) σ σ' := by
  obtain ⟨o, e, r, s⟩ := h
  refine ⟨{ o with steps := o.steps + 1 }, ?_, r, s⟩
  rw [exec.eq_6, hc]
  simp only [bind, Except.bind, e]

theorem Runs.skip (fuel : Nat) (c : Option String) (σ : State F) : Runs fuel (.block [] c) σ σ :=
  Runs.block (RunsL.nil fuel σ)

/-- `x = e` for an `int` variable `x` and an allocation-free `e` of integer value -/
theorem Runs.assign_int {fuel : Nat} {x : String} {e : Expr F} {σ : State F} {v0 v : Int}
    (hx : IntVar σ x v0) (he : evalE σ e = .ok (.int v)) :
    Runs fuel (.assign (.var x) e) σ { σ with vars := setVar σ.vars x (.int v) } := by
  obtain ⟨r, e1, e2, _⟩ := hx
  refine ⟨⟨_, none, 0, 1⟩, ?_, rfl, rfl⟩
  rw [exec.eq_3, evalRhs_of_ok he]
  simp [bind, Except.bind, evalLoc, store, e1, e2, convTo]

end TV.Growth
