import TensoraVerif.Lemmas.GrowthNames
import TensoraVerif.Model.FloatLaws

/-!
Concrete leaves and states over the exact carrier `F := Int` (`FloatOps.instInt`) for the
non-vacuity `example`s and the closed counterexamples of `Props/C05Growth.lean`. Every array has
capacity 1, so every guard fires.
-/
namespace TV.Growth.Ex
open TV.IR TV.Gen TV.Graph TV.Growth

/-- `A(i,j)`, format `ss` -/
def tA : TensorId := ⟨"0_A", "A", ["i", "j"], [.compressed, .compressed]⟩
/-- `B(i,j)`, format `sd`: one dense level below layer 0, then `vals` -/
def tB : TensorId := ⟨"0_B", "B", ["i", "j"], [.compressed, .dense]⟩
/-- `C(i,j,k)`, format `sds`: one dense level below layer 0, then the `pos` array of layer 2 -/
def tC : TensorId := ⟨"0_C", "C", ["i", "j", "k"], [.compressed, .dense, .compressed]⟩

def leafA0 : Leaf := ⟨tA, 0⟩
def leafA1 : Leaf := ⟨tA, 1⟩
def leafB0 : Leaf := ⟨tB, 0⟩
def leafC0 : Leaf := ⟨tC, 0⟩

/-- G1: `A_0_crd` has capacity 1 and is full (cursor 1); the index variable holds 7 -/
def σcrd : State Int :=
  ⟨[⟨"A_0_crd", .ptr .int, some (.ptr 0 0)⟩, ⟨"A_0_crd_capacity", .int, some (.int 1)⟩,
    ⟨"p_0_A_0", .int, some (.int 1)⟩, ⟨"i", .int, some (.int 7)⟩],
   [⟨.int, [some (.int 3)], .output, true⟩], []⟩

theorem σcrd_inv : ArrInv σcrd (crdName leafA0.tensor.name leafA0.layer)
    (crdCapName leafA0.tensor.name leafA0.layer) .int 0 1 :=
  ⟨⟨_, _, rfl, rfl, rfl⟩, ⟨_, rfl, rfl, rfl⟩, ⟨_, rfl, rfl, rfl, rfl, rfl⟩, by decide, by decide⟩
theorem σcrd_ptr : IntVar σcrd leafA0.ptr 1 := ⟨_, rfl, rfl, rfl⟩
theorem σcrd_index : IntVar σcrd leafA0.index 7 := ⟨_, rfl, rfl, rfl⟩

/-- G2 (no dense level, next `pos`): `A_1_pos` has capacity 1, the cursor of layer 0 holds `p` -/
def σpos (p : Int) : State Int :=
  ⟨[⟨"A_1_pos", .ptr .int, some (.ptr 0 0)⟩, ⟨"A_1_pos_capacity", .int, some (.int 1)⟩,
    ⟨"p_0_A_0", .int, some (.int p)⟩],
   [⟨.int, [some (.int 0)], .output, true⟩], []⟩

theorem leafA0_nodense : denseBelow leafA0.tensor leafA0.layer = [] := rfl
theorem σpos_inv (p : Int) : ArrInv (σpos p) (allocArr leafA0) (allocCap leafA0) (allocEty leafA0) 0 1 :=
  ⟨⟨_, _, rfl, rfl, rfl⟩, ⟨_, rfl, rfl, rfl⟩, ⟨_, rfl, rfl, rfl, rfl, rfl⟩, by decide, by decide⟩
theorem σpos_ptr (p : Int) : IntVar (σpos p) leafA0.ptr p := ⟨_, rfl, rfl, rfl⟩
theorem leafA0_bonus : allocBonus leafA0 = 1 := rfl

/-- G2 (no dense level, `vals`): `A_vals` has capacity 1 and is full (cursor of layer 1 is 1) -/
def σvals : State Int :=
  ⟨[⟨"A_vals", .ptr .float, some (.ptr 0 0)⟩, ⟨"A_vals_capacity", .int, some (.int 1)⟩,
    ⟨"p_0_A_1", .int, some (.int 1)⟩],
   [⟨.float, [some (.flt 5)], .output, true⟩], []⟩

theorem leafA1_nodense : denseBelow leafA1.tensor leafA1.layer = [] := rfl
theorem σvals_inv : ArrInv σvals (allocArr leafA1) (allocCap leafA1) (allocEty leafA1) 0 1 :=
  ⟨⟨_, _, rfl, rfl, rfl⟩, ⟨_, rfl, rfl, rfl⟩, ⟨_, rfl, rfl, rfl, rfl, rfl⟩, by decide, by decide⟩
theorem σvals_ptr : IntVar σvals leafA1.ptr 1 := ⟨_, rfl, rfl, rfl⟩
theorem leafA1_bonus : allocBonus leafA1 = 0 := rfl

/-- G2 (dense level `j` below, `vals`): `B_vals` has capacity 1, cursor 1, `j_dim = 2` -/
def σdvals : State Int :=
  ⟨[⟨"B_vals", .ptr .float, some (.ptr 0 0)⟩, ⟨"B_vals_capacity", .int, some (.int 1)⟩,
    ⟨"p_0_B_0", .int, some (.int 1)⟩, ⟨"j_dim", .int, some (.int 2)⟩],
   [⟨.float, [some (.flt 5)], .output, true⟩], []⟩

theorem leafB0_dense : denseBelow leafB0.tensor leafB0.layer = ["j_dim"] := rfl
theorem σdvals_inv : ArrInv σdvals (allocArr leafB0) (allocCap leafB0) (allocEty leafB0) 0 1 :=
  ⟨⟨_, _, rfl, rfl, rfl⟩, ⟨_, rfl, rfl, rfl⟩, ⟨_, rfl, rfl, rfl, rfl, rfl⟩, by decide, by decide⟩
theorem σdvals_ptr : IntVar σdvals leafB0.ptr 1 := ⟨_, rfl, rfl, rfl⟩
theorem σdvals_dims : DimVars σdvals (denseBelow leafB0.tensor leafB0.layer) [2] :=
  ⟨⟨_, rfl, rfl, rfl⟩, trivial⟩
theorem leafB0_bonus : allocBonus leafB0 = 0 := rfl

/-- G2 (dense level `j` below, next `pos`): `C_2_pos` has capacity 1, cursor 1, `j_dim = 2` -/
def σdpos : State Int :=
  ⟨[⟨"C_2_pos", .ptr .int, some (.ptr 0 0)⟩, ⟨"C_2_pos_capacity", .int, some (.int 1)⟩,
    ⟨"p_0_C_0", .int, some (.int 1)⟩, ⟨"j_dim", .int, some (.int 2)⟩],
   [⟨.int, [some (.int 0)], .output, true⟩], []⟩

theorem leafC0_dense : denseBelow leafC0.tensor leafC0.layer = ["j_dim"] := rfl
theorem σdpos_inv : ArrInv σdpos (allocArr leafC0) (allocCap leafC0) (allocEty leafC0) 0 1 :=
  ⟨⟨_, _, rfl, rfl, rfl⟩, ⟨_, rfl, rfl, rfl⟩, ⟨_, rfl, rfl, rfl, rfl, rfl⟩, by decide, by decide⟩
theorem σdpos_ptr : IntVar σdpos leafC0.ptr 1 := ⟨_, rfl, rfl, rfl⟩
theorem σdpos_dims : DimVars σdpos (denseBelow leafC0.tensor leafC0.layer) [2] :=
  ⟨⟨_, rfl, rfl, rfl⟩, trivial⟩
theorem leafC0_bonus : allocBonus leafC0 = 1 := rfl

theorem prodsOK_two : ProdsOK 1 [2] := ⟨by decide, by decide, by decide, trivial⟩

/-- G3: `A_0_pos` / `A_1_pos` with two cells, cursors `p_0_A_0 = 0`, `p_0_A_1 = 1` -/
def σasm : State Int :=
  ⟨[⟨"A_0_pos", .ptr .int, some (.ptr 0 0)⟩, ⟨"A_0_pos_capacity", .int, some (.int 2)⟩,
    ⟨"A_1_pos", .ptr .int, some (.ptr 1 0)⟩, ⟨"A_1_pos_capacity", .int, some (.int 2)⟩,
    ⟨"p_0_A_0", .int, some (.int 0)⟩, ⟨"p_0_A_1", .int, some (.int 1)⟩],
   [⟨.int, [some (.int 0), none], .output, true⟩, ⟨.int, [some (.int 0), none], .output, true⟩], []⟩

theorem σasm_inv0 : ArrInv σasm (posName leafA0.tensor.name leafA0.layer)
    (posCapName leafA0.tensor.name leafA0.layer) .int 0 2 :=
  ⟨⟨_, _, rfl, rfl, rfl⟩, ⟨_, rfl, rfl, rfl⟩, ⟨_, rfl, rfl, rfl, rfl, rfl⟩, by decide, by decide⟩
theorem σasm_inv1 : ArrInv σasm (posName leafA1.tensor.name leafA1.layer)
    (posCapName leafA1.tensor.name leafA1.layer) .int 1 2 :=
  ⟨⟨_, _, rfl, rfl, rfl⟩, ⟨_, rfl, rfl, rfl⟩, ⟨_, rfl, rfl, rfl, rfl, rfl⟩, by decide, by decide⟩
theorem σasm_prev0 : PrevIs σasm leafA0 0 := by simp [PrevIs, leafA0]
theorem σasm_prev1 : PrevIs σasm leafA1 0 := by
  simp only [PrevIs, leafA1]; exact ⟨_, rfl, rfl, rfl⟩
theorem σasm_ptr0 : IntVar σasm leafA0.ptr 0 := ⟨_, rfl, rfl, rfl⟩
theorem σasm_ptr1 : IntVar σasm leafA1.ptr 1 := ⟨_, rfl, rfl, rfl⟩

/-- G4: `A_0_crd` is declared (unpacked from the tensor, here null), `i` is an `int`; capacity and
cursor are not yet declared; the heap is empty -/
def σinit : State Int :=
  ⟨[⟨"A_0_crd", .ptr .int, some .null⟩, ⟨"i", .int, some (.int 0)⟩], [], []⟩

end TV.Growth.Ex
