import TensoraVerif.Model.GenerateIR
import TensoraVerif.Lemmas.GrowthGrow

/-!
C05 ("growing before overflow"), infrastructure, part 3: the shape of the fragments emitted by
`TV.Gen` (`writeCrdAssembly`, `writePosAllocation`, `writePosAssembly`), the names they use, and the
evaluation of the product of dense dimensions (`mulJoin`).
-/
namespace TV.Growth
open TV.IR TV.Gen TV.Graph

set_option linter.unusedSectionVars false
variable {F : Type} [FloatOps F]

/-! ### `writeCrdAssembly` -/

theorem writeCrdAssembly_shape (out : Leaf) :
    (writeCrdAssembly (F := F) out).finalize =
      .block [
        .branch (.bin .ge (.var out.ptr) (.var (crdCapName out.tensor.name out.layer)))
          (.block [
            .assign (.var (crdCapName out.tensor.name out.layer))
              (times (.var (crdCapName out.tensor.name out.layer)) (.intLit 2)),
            .assign (.var (crdName out.tensor.name out.layer))
              (.realloc (.var (crdName out.tensor.name out.layer)) .int
                (.var (crdCapName out.tensor.name out.layer)))] none)
          (.block [] none),
        .assign (.idx (.var (crdName out.tensor.name out.layer)) (.var out.ptr)) (.var out.index)]
        (some "crd assembly") := rfl

/-- the four variable names used by `writeCrdAssembly out` are pairwise distinct -/
def namesDistinct (out : Leaf) : Prop :=
  [crdName out.tensor.name out.layer, crdCapName out.tensor.name out.layer, out.ptr, out.index].Pairwise
    (· ≠ ·)

/-! ### `writePosAllocation`: the target array -/

/-- the layer whose `pos` array (or, past the last layer, the `vals` array) `writePosAllocation out`
grows -/
def allocTarget (out : Leaf) : Nat := out.layer + (denseBelow out.tensor out.layer).length + 1
def allocIsVals (out : Leaf) : Bool := allocTarget out == out.tensor.indexes.length
def allocArr (out : Leaf) : String :=
  if allocIsVals out then valsName out.tensor.name else posName out.tensor.name (allocTarget out)
def allocCap (out : Leaf) : String :=
  if allocIsVals out then valsCapName out.tensor.name else posCapName out.tensor.name (allocTarget out)
def allocTy (out : Leaf) : Ty := if allocIsVals out then .float else .int
def allocEty (out : Leaf) : ElemTy := if allocIsVals out then .float else .int
/-- `pos` arrays have one more entry than the parent has positions -/
def allocBonus (out : Leaf) : Int := if allocIsVals out then 0 else 1
def allocComment (out : Leaf) : String :=
  if allocIsVals out then "vals allocation" else "pos allocation for next sparse layer"

theorem elemOf_allocTy (out : Leaf) : elemOf (allocTy out) = .ok (allocEty out) := by
  unfold allocTy allocEty; split <;> rfl

theorem allocBonus_cases (out : Leaf) : allocBonus out = 0 ∨ allocBonus out = 1 := by
  unfold allocBonus; split <;> simp

/-- the minimal capacity `(p + 1) * d1 * … * dk + bonus` of the dense variant -/
def denseMinCap (out : Leaf) : Expr F :=
  plus (times (plus (.var out.ptr) (.intLit 1)) (mulJoin ((denseBelow out.tensor out.layer).map .var)))
    (.intLit (allocBonus out))

theorem writePosAllocation_shape_nodense (out : Leaf) (hd : denseBelow out.tensor out.layer = []) :
    (writePosAllocation (F := F) out).finalize =
      .block [
        .branch (.bin .ge (plus (.var out.ptr) (.intLit (allocBonus out))) (.var (allocCap out)))
          (.block [
            .assign (.var (allocCap out)) (times (.var (allocCap out)) (.intLit 2)),
            .assign (.var (allocArr out)) (.realloc (.var (allocArr out)) (allocTy out) (.var (allocCap out)))]
            none)
          (.block [] none)]
        (some (allocComment out)) := by
  unfold writePosAllocation allocCap allocArr allocTy allocBonus allocComment allocIsVals allocTarget
  simp only [hd, List.isEmpty_nil, if_true]
  split <;> rfl

theorem writePosAllocation_shape_dense (out : Leaf) (hd : denseBelow out.tensor out.layer ≠ []) :
    (writePosAllocation (F := F) out).finalize =
      .block [
        .branch (.bin .ge (denseMinCap out) (.var (allocCap out)))
          (.block [
            .assign (.var (allocCap out))
              (.bin .max (times (.var (allocCap out)) (.intLit 2)) (denseMinCap out)),
            .assign (.var (allocArr out)) (.realloc (.var (allocArr out)) (allocTy out) (.var (allocCap out)))]
            none)
          (.block [] none)]
        (some (allocComment out)) := by
  have hd' : (denseBelow out.tensor out.layer).isEmpty = false := by
    cases h : denseBelow out.tensor out.layer with
    | nil => exact absurd h hd
    | cons _ _ => rfl
  unfold writePosAllocation denseMinCap allocCap allocArr allocTy allocBonus allocComment allocIsVals
    allocTarget
  simp only [hd', Bool.false_eq_true, if_false]
  split <;> rfl

/-! ### products of dense dimensions -/

/-- the product `a * d1 * … * dk`, associated as `mulJoin` computes it -/
def prodFrom (a : Int) (ds : List Int) : Int := ds.foldl (· * ·) a

/-- every dimension is a non-negative `int32` and every partial product `a * d1 * … * dj` is
`< 2^31`: exactly what the left-to-right evaluation of `mulJoin` needs -/
def ProdsOK : Int → List Int → Prop
  | _, [] => True
  | a, d :: ds => 0 ≤ d ∧ d < 2147483648 ∧ a * d < 2147483648 ∧ ProdsOK (a * d) ds

theorem prodFrom_nonneg {a : Int} {ds : List Int} (ha : 0 ≤ a) (h : ProdsOK a ds) : 0 ≤ prodFrom a ds := by
  induction ds generalizing a with
  | nil => exact ha
  | cons d ds ih =>
    obtain ⟨h0, _, _, h3⟩ := h
    exact ih (Int.mul_nonneg ha h0) h3

theorem prodFrom_mul (a : Int) (ds : List Int) : prodFrom a ds = a * prodFrom 1 ds := by
  induction ds generalizing a with
  | nil => simp [prodFrom]
  | cons d ds ih =>
    show prodFrom (a * d) ds = a * prodFrom (1 * d) ds
    rw [ih (a * d), ih (1 * d), Int.one_mul, Int.mul_assoc]

theorem le_prodFrom {x : Int} {l : List Int} (hx : 1 ≤ x) (hl : ∀ d ∈ l, 1 ≤ d) : x ≤ prodFrom x l := by
  induction l generalizing x with
  | nil => exact Int.le_refl _
  | cons e l ihl =>
    have he : 1 ≤ e := hl e (List.mem_cons_self ..)
    have hxe : x ≤ x * e := by
      have := Int.mul_le_mul (Int.le_refl x) he (by omega) (by omega)
      omega
    exact Int.le_trans hxe (ihl (x := x * e) (by omega) (fun y hy => hl y (List.mem_cons_of_mem _ hy)))

theorem one_le_prodFrom {x : Int} {l : List Int} (hx : 1 ≤ x) (hl : ∀ d ∈ l, 1 ≤ d) : 1 ≤ prodFrom x l :=
  Int.le_trans hx (le_prodFrom hx hl)

/-- when all dimensions are at least 1, the partial products are bounded by the full product -/
theorem prodsOK_of_pos {a : Int} {ds : List Int} (ha : 1 ≤ a) (hd : ∀ d ∈ ds, 1 ≤ d)
    (h : prodFrom a ds < 2147483648) : ProdsOK a ds := by
  induction ds generalizing a with
  | nil => trivial
  | cons d ds ih =>
    have hd1 : 1 ≤ d := hd d (List.mem_cons_self ..)
    have had : 1 ≤ a * d := by
      have := Int.mul_le_mul ha hd1 (by omega) (by omega)
      omega
    have hrest : ∀ d ∈ ds, 1 ≤ d := fun x hx => hd x (List.mem_cons_of_mem _ hx)
    have hmono : ∀ (x : Int) (l : List Int), 1 ≤ x → (∀ d ∈ l, 1 ≤ d) → x ≤ prodFrom x l := by
      intro x l
      induction l generalizing x with
      | nil => intro _ _; exact Int.le_refl _
      | cons e l ihl =>
        intro hx hl
        have he : 1 ≤ e := hl e (List.mem_cons_self ..)
        have hxe : x ≤ x * e := by
          have := Int.mul_le_mul (Int.le_refl x) he (by omega) (by omega)
          omega
        exact Int.le_trans hxe (ihl (x * e) (by omega) (fun y hy => hl y (List.mem_cons_of_mem _ hy)))
    have hle : a * d ≤ prodFrom (a * d) ds := hmono _ _ had hrest
    have hdle : d ≤ a * d := by
      have := Int.mul_le_mul ha (Int.le_refl d) (by omega) (by omega)
      omega
    have h' : prodFrom (a * d) ds < 2147483648 := h
    exact ⟨by omega, by omega, by omega, ih had hrest h'⟩

/-- the variables `names` are `int` variables holding the values `ds`, one by one -/
def DimVars (σ : State F) : List String → List Int → Prop
  | [], [] => True
  | x :: xs, d :: ds => IntVar σ x d ∧ DimVars σ xs ds
  | _, _ => False

theorem evalE_foldl_mul {σ : State F} (names : List String) (ds : List Int) (acc : Expr F) (a : Int)
    (hacc : evalE σ acc = .ok (.int a)) (ha : 0 ≤ a) (hv : DimVars σ names ds)
    (hok : ProdsOK a ds) :
    evalE σ ((names.map .var).foldl (.bin .mul) acc) = .ok (.int (prodFrom a ds)) := by
  induction names generalizing ds acc a with
  | nil =>
    cases ds with
    | nil => exact hacc
    | cons _ _ => exact absurd hv (by simp [DimVars])
  | cons x names ih =>
    cases ds with
    | nil => exact absurd hv (by simp [DimVars])
    | cons d ds =>
      obtain ⟨hx, hv⟩ := hv
      obtain ⟨h0, h1, h2, h3⟩ := hok
      have hnn := Int.mul_nonneg ha h0
      exact ih ds _ _ (evalE_mul hacc (evalE_var_int hx (by omega) h1) (by omega) h2) hnn hv h3

theorem evalE_mulJoin {σ : State F} (names : List String) (ds : List Int)
    (hv : DimVars σ names ds) (hok : ProdsOK 1 ds) :
    evalE σ (mulJoin (names.map .var)) = .ok (.int (prodFrom 1 ds)) :=
  evalE_foldl_mul names ds _ 1 (evalE_intLit (by omega) (by omega)) (by omega) hv hok

/-! ### `writePosAssembly` -/

theorem writePosAssembly_shape (out : Leaf) :
    (writePosAssembly (F := F) out).finalize =
      .block [.assign (.idx (.var (posName out.tensor.name out.layer)) (plus out.prevPtr (.intLit 1)))
        (.var out.ptr)] (some "pos assembly") := rfl

/-- the value of `out.prevPtr`: the literal `0` at layer 0, otherwise the cursor of the layer above -/
def PrevIs (σ : State F) (out : Leaf) (prev : Int) : Prop :=
  if out.layer = 0 then prev = 0 else IntVar σ (layerPointer out.tensor.id (out.layer - 1)) prev

theorem evalE_prevPtr {σ : State F} {out : Leaf} {prev : Int} (h : PrevIs σ out prev) (h0 : 0 ≤ prev)
    (h1 : prev < 2147483648) : evalE σ (out.prevPtr : Expr F) = .ok (.int prev) := by
  unfold PrevIs at h
  unfold Leaf.prevPtr prevLayerPointer
  split at h
  · subst h; simp [*, evalE, chkInt, inI32]
  · simp only [*, if_false]
    exact evalE_var_int h (by omega) h1

end TV.Growth
