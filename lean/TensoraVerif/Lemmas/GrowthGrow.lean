import TensoraVerif.Lemmas.GrowthBasic

/-!
C05 ("growing before overflow"), infrastructure, part 2: the `realloc` assignment, the state
`growState` it produces, the frame `GrowPost` between the state before and after a growth guard,
the generic guard `if (m >= cap) { cap = e; arr = realloc(arr, cap) }`, and the checked store
`arr[i] = e`.
-/
namespace TV.Growth
open TV.IR

set_option linter.unusedSectionVars false
variable {F : Type} [FloatOps F]

/-- the state after `cap = c'; arr = realloc(arr, sizeof(ety) * cap)` when `arr` pointed to block
`b` (whose contents were `blk`) -/
def growState (σ : State F) (arr cap : String) (b : Nat) (blk : Block F) (ety : ElemTy) (c' : Int) :
    State F :=
  { vars := setVar (setVar σ.vars cap (.int c')) arr (.ptr σ.heap.length 0),
    heap := σ.heap.set b { blk with live := false } ++
      [⟨ety, blk.cells.take c'.toNat ++ List.replicate (c'.toNat - blk.cells.length) none, .output, true⟩],
    tensors := σ.tensors }

/-- What a growth guard guarantees between the state `σ` before and `σ'` after: the array
invariant again (for a block `b'` and a capacity `c' ≥ c`), the old cells of the array, every
variable other than `arr`/`cap`, every other block of the old heap, and the tensor records are
unchanged; the old block is still the array or has been killed by `realloc`. -/
structure GrowPost (σ σ' : State F) (arr cap : String) (ety : ElemTy) (b : Nat) (c : Int) (b' : Nat)
    (c' : Int) : Prop where
  inv : ArrInv σ' arr cap ety b' c'
  mono : c ≤ c'
  cells : ∀ blk blk', σ.heap[b]? = some blk → σ'.heap[b']? = some blk' →
    ∀ j, j < blk.cells.length → blk'.cells[j]? = blk.cells[j]?
  vars : ∀ x, x ≠ arr → x ≠ cap → lookupVar σ'.vars x = lookupVar σ.vars x
  heap : ∀ k blk, k ≠ b → σ.heap[k]? = some blk → σ'.heap[k]? = some blk
  old : (b' = b ∧ c' = c ∧ σ' = σ) ∨
    (b' = σ.heap.length ∧ ∃ blk, σ.heap[b]? = some blk ∧ σ'.heap[b]? = some { blk with live := false })
  len : σ.heap.length ≤ σ'.heap.length
  tensors : σ'.tensors = σ.tensors

theorem GrowPost.refl {σ : State F} {arr cap : String} {ety : ElemTy} {b : Nat} {c : Int}
    (h : ArrInv σ arr cap ety b c) : GrowPost σ σ arr cap ety b c b c where
  inv := h
  mono := Int.le_refl _
  cells := by
    intro blk blk' e e' j _
    rw [e] at e'; cases e'; rfl
  vars := fun _ _ _ => rfl
  heap := fun _ _ _ e => e
  old := Or.inl ⟨rfl, rfl, rfl⟩
  len := Nat.le_refl _
  tensors := rfl

theorem growState_post {σ : State F} {arr cap : String} {ety : ElemTy} {b : Nat} {c c' : Int}
    {blk : Block F} (h : ArrInv σ arr cap ety b c) (hb : σ.heap[b]? = some blk) (hne : arr ≠ cap)
    (hc : c ≤ c') (hlt : c' < 2147483648) :
    GrowPost σ (growState σ arr cap b blk ety c') arr cap ety b c σ.heap.length c' := by
  obtain ⟨⟨ra, ta, ea1, ea2, ea3⟩, ⟨rc, ec1, ec2, ec3⟩, ⟨blk0, eb, hlive, hown, hty, hlen⟩, hpos, _⟩ := h
  rw [hb] at eb; cases eb
  have hbl : b < σ.heap.length := by
    rcases Nat.lt_or_ge b σ.heap.length with h | h
    · exact h
    · rw [List.getElem?_eq_none h] at hb; cases hb
  have hlen' : blk.cells.length ≤ c'.toNat := by omega
  refine ⟨⟨?_, ?_, ?_, by omega, hlt⟩, hc, ?_, ?_, ?_, ?_, ?_, rfl⟩
  · -- arr
    have e1 : lookupVar (setVar σ.vars cap (.int c')) arr = some ra :=
      (lookupVar_setVar_other (F := F) _ hne).trans ea1
    exact ⟨_, ta, lookupVar_setVar_same _ e1, ea2, rfl⟩
  · -- cap
    have e1 := lookupVar_setVar_same (F := F) (.int c') ec1
    refine ⟨_, (lookupVar_setVar_other (F := F) _ (Ne.symm hne)).trans e1, ec2, rfl⟩
  · -- block
    refine ⟨⟨ety, blk.cells.take c'.toNat ++ List.replicate (c'.toNat - blk.cells.length) none, .output, true⟩,
      ?_, rfl, rfl, rfl, ?_⟩
    · simp [growState]
    · simp only [List.length_append, List.length_take, List.length_replicate]
      omega
  · -- cells
    intro blk1 blk' e1 e' j hj
    rw [hb] at e1; cases e1
    have : (growState σ arr cap b blk ety c').heap[σ.heap.length]? = some
        ⟨ety, blk.cells.take c'.toNat ++ List.replicate (c'.toNat - blk.cells.length) none, .output, true⟩ := by
      simp [growState]
    rw [this] at e'; cases e'
    simp only
    rw [List.getElem?_append_left (by simp only [List.length_take]; omega)]
    rw [List.getElem?_take_of_lt (by omega)]
  · -- vars
    intro x hxa hxc
    show lookupVar (setVar (setVar σ.vars cap (.int c')) arr _) x = _
    rw [lookupVar_setVar_other _ hxa, lookupVar_setVar_other _ hxc]
  · -- heap
    intro k blk1 hk e1
    have hkl : k < σ.heap.length := by
      rcases Nat.lt_or_ge k σ.heap.length with h | h
      · exact h
      · rw [List.getElem?_eq_none h] at e1; cases e1
    show (σ.heap.set b _ ++ _)[k]? = _
    rw [List.getElem?_append_left (by simpa using hkl), List.getElem?_set_ne (Ne.symm hk)]
    exact e1
  · -- old
    refine Or.inr ⟨rfl, blk, hb, ?_⟩
    show (σ.heap.set b _ ++ _)[b]? = _
    rw [List.getElem?_append_left (by simpa using hbl), List.getElem?_set_self hbl]
  · -- len
    simp [growState]

/-- `arr = realloc(arr, sizeof(ty) * cap)` -/
theorem Runs.realloc {fuel : Nat} {σ : State F} {arr cap : String} {ty : Ty} {ety : ElemTy} {b : Nat}
    {c' : Int} {blk : Block F} (ha : PtrVar σ arr b) (hc : IntVar σ cap c') (h0 : 0 ≤ c')
    (h1 : c' < 2147483648) (hty : elemOf ty = .ok ety) (hb : σ.heap[b]? = some blk)
    (hlive : blk.live = true) (hown : blk.owner = .output) (hbt : blk.ty = ety) :
    Runs fuel (.assign (.var arr) (.realloc (.var arr) ty (.var cap))) σ
      { vars := setVar σ.vars arr (.ptr σ.heap.length 0),
        heap := σ.heap.set b { blk with live := false } ++
          [⟨ety, blk.cells.take c'.toNat ++ List.replicate (c'.toNat - blk.cells.length) none, .output, true⟩],
        tensors := σ.tensors } := by
  have ea := evalE_var_ptr ha
  have ec := evalE_var_int hc (by omega) h1
  obtain ⟨ra, ta, ea1, ea2, _⟩ := ha
  refine ⟨⟨_, none, 0, 1⟩, ?_, rfl, rfl⟩
  rw [exec.eq_3]
  have hneg : ¬ c' < 0 := by omega
  simp [evalRhs, ea, ec, bind, Except.bind, doRealloc, hty, hneg, hb, hlive, hown, hbt, evalLoc, store,
    ea1, ea2, convTo]

/-- the two statements of every growth branch -/
theorem RunsL.grow {fuel : Nat} {σ : State F} {arr cap : String} {ty : Ty} {ety : ElemTy} {b : Nat}
    {c c' : Int} {blk : Block F} {e : Expr F} (h : ArrInv σ arr cap ety b c)
    (hb : σ.heap[b]? = some blk) (hne : arr ≠ cap) (he : evalE σ e = .ok (.int c')) (h0 : 0 ≤ c')
    (h1 : c' < 2147483648) (hty : elemOf ty = .ok ety) :
    RunsL fuel [.assign (.var cap) e, .assign (.var arr) (.realloc (.var arr) ty (.var cap))] σ
      (growState σ arr cap b blk ety c') := by
  obtain ⟨ha, hc, ⟨blk0, eb, hlive, hown, hbt, _⟩, _, _⟩ := h
  rw [hb] at eb; cases eb
  refine RunsL.cons (Runs.assign_int hc he) (RunsL.cons ?_ (RunsL.nil _ _))
  have hc' : IntVar ({ σ with vars := setVar σ.vars cap (.int c') } : State F) cap c' := by
    obtain ⟨rc, ec1, ec2, _⟩ := hc
    exact ⟨_, lookupVar_setVar_same _ ec1, ec2, rfl⟩
  have ha' : PtrVar ({ σ with vars := setVar σ.vars cap (.int c') } : State F) arr b :=
    ha.congr (lookupVar_setVar_other _ hne)
  exact Runs.realloc (σ := { σ with vars := setVar σ.vars cap (.int c') }) ha' hc' h0 h1 hty hb hlive hown hbt

/-- The generic growth guard `if (m >= cap) { cap = e; arr = realloc(arr, cap); }`: it runs
without error from every state satisfying the array invariant in which the guard expression
`minCap` evaluates to an integer `m` and (when `m ≥ c`) the new-capacity expression `newCap`
evaluates to an integer `c'` with `c ≤ c' < 2^31`; the capacity afterwards is `c` if `m < c` and
`c'` otherwise. -/
theorem guard_runs {fuel : Nat} {σ : State F} {arr cap : String} {ty : Ty} {ety : ElemTy} {b : Nat}
    {c m c' : Int} {minCap newCap : Expr F}
    (h : ArrInv σ arr cap ety b c) (hne : arr ≠ cap) (hty : elemOf ty = .ok ety)
    (hm : evalE σ minCap = .ok (.int m))
    (hn : c ≤ m → evalE σ newCap = .ok (.int c') ∧ c ≤ c' ∧ c' < 2147483648) :
    ∃ σ' b' c'', Runs fuel (.branch (.bin .ge minCap (.var cap))
        (.block [.assign (.var cap) newCap, .assign (.var arr) (.realloc (.var arr) ty (.var cap))] none)
        (.block [] none)) σ σ' ∧
      GrowPost σ σ' arr cap ety b c b' c'' ∧ c'' = (if m < c then c else c') := by
  have ecap := evalE_var_int h.cap (by have := h.pos; omega) h.lt
  have econd := evalE_ge hm ecap
  by_cases hmc : m < c
  · refine ⟨σ, b, c, Runs.branch_false ?_ (Runs.skip _ _ _), GrowPost.refl h, by simp [hmc]⟩
    rw [econd]; simp; omega
  · obtain ⟨he, hcc, hlt⟩ := hn (by omega)
    obtain ⟨blk, hb, _⟩ := h.blk
    refine ⟨growState σ arr cap b blk ety c', σ.heap.length, c',
      Runs.branch_true ?_ (Runs.block (RunsL.grow h hb hne he (by have := h.pos; omega) hlt hty)),
      growState_post h hb hne hcc hlt, by simp [hmc]⟩
    rw [econd]; simp; omega

/-- when the guard fires and the new-capacity expression overflows, so does the fragment -/
theorem guard_error {fuel : Nat} {σ : State F} {arr cap : String} {ty : Ty} {ety : ElemTy} {b : Nat}
    {c m : Int} {minCap newCap : Expr F} {err : Err}
    (h : ArrInv σ arr cap ety b c) (hm : evalE σ minCap = .ok (.int m)) (hmc : c ≤ m)
    (hn : evalE σ newCap = .error err) (herr : err ≠ .typeError) :
    exec fuel (.branch (.bin .ge minCap (.var cap))
        (.block [.assign (.var cap) newCap, .assign (.var arr) (.realloc (.var arr) ty (.var cap))] none)
        (.block [] none)) σ = .error err := by
  have ecap := evalE_var_int h.cap (by have := h.pos; omega) h.lt
  have econd := evalE_ge hm ecap
  have hd : decide (m ≥ c) = true := by simpa using hmc
  rw [exec.eq_6, econd, hd]
  simp only [bind, Except.bind]
  rw [exec.eq_5, execL.eq_2, exec.eq_3, evalRhs_of_error hn herr]
  rfl

theorem evalE_mul_overflow {σ : State F} {l r : Expr F} {x y : Int} (hl : evalE σ l = .ok (.int x))
    (hr : evalE σ r = .ok (.int y)) (h1 : 2147483648 ≤ x * y) :
    evalE σ (.bin .mul l r) = .error .intOverflow := by
  have : ¬ (x * y < 2147483648) := by omega
  simp [evalE, hl, hr, bind, Except.bind, binVal, Val.toNum, numOp, chkInt, inI32, this]

/-- the checked store `arr[i] = e` -/
theorem Runs.store_cell {fuel : Nat} {σ : State F} {arr : String} {i e : Expr F} {b : Nat} {k : Int}
    {val val' : Val F} {blk : Block F} (ha : PtrVar σ arr b) (hi : evalE σ i = .ok (.int k))
    (he : evalE σ e = .ok val) (hb : σ.heap[b]? = some blk) (hlive : blk.live = true)
    (hown : blk.owner = .output) (h0 : 0 ≤ k) (h1 : k < blk.cells.length)
    (hconv : convElem blk.ty val = .ok val') :
    Runs fuel (.assign (.idx (.var arr) i) e) σ
      { σ with heap := σ.heap.set b { blk with cells := blk.cells.set k.toNat (some val') } } := by
  have ea := evalE_var_ptr ha
  refine ⟨⟨_, none, 0, 1⟩, ?_, rfl, rfl⟩
  rw [exec.eq_3, evalRhs_of_ok he]
  have hneg : ¬ k < 0 := by omega
  have hlen : ¬ ((blk.cells.length : Int) ≤ k) := by omega
  simp [bind, Except.bind, evalLoc, ea, hi, store, hb, hlive, hown, Block.len, hneg, hlen, hconv]

theorem lt_length_of_getElem? {α : Type} {l : List α} {k : Nat} {x : α} (h : l[k]? = some x) :
    k < l.length := by
  rcases Nat.lt_or_ge k l.length with h' | h'
  · exact h'
  · rw [List.getElem?_eq_none h'] at h; cases h

/-- What a guarded append `if (p >= cap) grow; arr[p] = val` guarantees between the state `σ`
before and `σ'` after: `GrowPost`, and cell `p` of the (possibly new) array holds `val`, every
other old cell is unchanged. -/
structure StorePost (σ σ' : State F) (arr cap : String) (ety : ElemTy) (b : Nat) (c : Int) (p : Int)
    (val : Val F) (b' : Nat) (c' : Int) : Prop where
  inv : ArrInv σ' arr cap ety b' c'
  mono : c ≤ c'
  bound : p < c'
  cell : ∃ blk', σ'.heap[b']? = some blk' ∧ blk'.cells[p.toNat]? = some (some val)
  cells : ∀ blk blk', σ.heap[b]? = some blk → σ'.heap[b']? = some blk' →
    ∀ j, j < blk.cells.length → j ≠ p.toNat → blk'.cells[j]? = blk.cells[j]?
  vars : ∀ x, x ≠ arr → x ≠ cap → lookupVar σ'.vars x = lookupVar σ.vars x
  heap : ∀ k blk, k ≠ b → σ.heap[k]? = some blk → σ'.heap[k]? = some blk
  old : b' = b ∨
    (b' = σ.heap.length ∧ ∃ blk, σ.heap[b]? = some blk ∧ σ'.heap[b]? = some { blk with live := false })
  len : σ.heap.length ≤ σ'.heap.length
  tensors : σ'.tensors = σ.tensors

theorem store_post {σ σ1 : State F} {arr cap : String} {ety : ElemTy} {b b1 : Nat} {c c1 p : Int}
    {val : Val F} {blk1 : Block F} (g : GrowPost σ σ1 arr cap ety b c b1 c1)
    (hb1 : σ1.heap[b1]? = some blk1) (h0 : 0 ≤ p) (h1 : p < c1) :
    StorePost σ { σ1 with heap := σ1.heap.set b1 { blk1 with cells := blk1.cells.set p.toNat (some val) } }
      arr cap ety b c p val b1 c1 := by
  have hb1l := lt_length_of_getElem? hb1
  obtain ⟨blk0, eb0, hlive, hown, hty, hlen⟩ := g.inv.blk
  rw [hb1] at eb0; cases eb0
  have hpl : p.toNat < blk1.cells.length := by omega
  have hne : ∀ k blk, k ≠ b → σ.heap[k]? = some blk → k ≠ b1 := by
    intro k blk hk e
    have := lt_length_of_getElem? e
    rcases g.old with ⟨h, _⟩ | ⟨h, _⟩ <;> omega
  refine ⟨⟨g.inv.arr, g.inv.cap, ?_, g.inv.pos, g.inv.lt⟩, g.mono, h1, ?_, ?_, g.vars, ?_, ?_, ?_, g.tensors⟩
  · refine ⟨{ blk1 with cells := blk1.cells.set p.toNat (some val) }, ?_, hlive, hown, hty, ?_⟩
    · show (σ1.heap.set b1 _)[b1]? = _
      rw [List.getElem?_set_self hb1l]
    · simpa using hlen
  · refine ⟨{ blk1 with cells := blk1.cells.set p.toNat (some val) }, ?_, ?_⟩
    · show (σ1.heap.set b1 _)[b1]? = _
      rw [List.getElem?_set_self hb1l]
    · show (blk1.cells.set p.toNat (some val))[p.toNat]? = _
      rw [List.getElem?_set_self hpl]
  · intro blk blk' e e' j hj hjp
    have e2 : (σ1.heap.set b1 { blk1 with cells := blk1.cells.set p.toNat (some val) })[b1]? = some blk' := e'
    rw [List.getElem?_set_self hb1l] at e2; cases e2
    show (blk1.cells.set p.toNat (some val))[j]? = _
    rw [List.getElem?_set_ne (Ne.symm hjp)]
    exact g.cells blk blk1 e hb1 j hj
  · intro k blk hk e
    show (σ1.heap.set b1 _)[k]? = _
    rw [List.getElem?_set_ne (Ne.symm (hne k blk hk e))]
    exact g.heap k blk hk e
  · rcases g.old with ⟨h, _⟩ | ⟨h, blk, e, e'⟩
    · exact Or.inl h
    · refine Or.inr ⟨h, blk, e, ?_⟩
      have := lt_length_of_getElem? e
      show (σ1.heap.set b1 _)[b]? = _
      rw [List.getElem?_set_ne (by omega)]
      exact e'
  · show _ ≤ (σ1.heap.set b1 _).length
    rw [List.length_set]; exact g.len

end TV.Growth
