import TensoraVerif.Lemmas.GrowthFrag

/-!
C05 ("growing before overflow"), infrastructure, part 4: the variable names used by the growth
fragments are distinct — by string reasoning on the naming scheme of `TV.Gen`, for ALL leaves:
an array and its capacity variable always differ (length), a cursor `p_<id>_<layer>` ends in a
digit while `…_crd` / `…_crd_capacity` do not, and an index name without `'_'` (every name the
parser admits is alphanumeric) differs from all three.
-/
namespace TV.Growth
open TV.IR TV.Gen TV.Graph

theorem ne_of_length_ne {s t : String} (h : s.length ≠ t.length) : s ≠ t := by
  intro e; exact h (by rw [e])

theorem ne_of_getLast?_ne {s t : String} (h : s.toList.getLast? ≠ t.toList.getLast?) : s ≠ t := by
  intro e; exact h (by rw [e])

/-- the decimal representation of a natural number ends in a digit -/
theorem getLast?_toString_nat (n : Nat) :
    ∃ ch, (toString n).toList.getLast? = some ch ∧ ch.isDigit = true := by
  show ∃ ch, (Nat.repr n).toList.getLast? = some ch ∧ ch.isDigit = true
  rw [Nat.toList_repr]
  cases h : (Nat.toDigits 10 n).getLast? with
  | none => exact absurd (List.getLast?_eq_none_iff.mp h) Nat.toDigits_ne_nil
  | some ch =>
    exact ⟨ch, rfl, Nat.isDigit_of_mem_toDigits (by decide) (by decide) (List.mem_of_getLast? h)⟩

theorem crdName_ne_crdCapName (t : String) (l : Nat) : crdName t l ≠ crdCapName t l := by
  apply ne_of_length_ne
  simp only [crdName, crdCapName, String.length_append]
  have h1 : "_crd".length = 4 := by decide
  have h2 : "_crd_capacity".length = 13 := by decide
  omega

theorem posName_ne_posCapName (t : String) (l : Nat) : posName t l ≠ posCapName t l := by
  apply ne_of_length_ne
  simp only [posName, posCapName, String.length_append]
  have h1 : "_pos".length = 4 := by decide
  have h2 : "_pos_capacity".length = 13 := by decide
  omega

theorem valsName_ne_valsCapName (t : String) : valsName t ≠ valsCapName t := by
  apply ne_of_length_ne
  simp only [valsName, valsCapName, String.length_append]
  have h1 : "_vals".length = 5 := by decide
  have h2 : "_vals_capacity".length = 14 := by decide
  omega

/-- the target array of `writePosAllocation` and its capacity variable are distinct, for every leaf -/
theorem allocArr_ne_allocCap (out : Leaf) : allocArr out ≠ allocCap out := by
  unfold allocArr allocCap
  split
  · exact valsName_ne_valsCapName _
  · exact posName_ne_posCapName _ _

theorem layerPointer_getLast? (ref : String) (l : Nat) :
    ∃ ch, (layerPointer ref l).toList.getLast? = some ch ∧ ch.isDigit = true := by
  obtain ⟨ch, h, hd⟩ := getLast?_toString_nat l
  refine ⟨ch, ?_, hd⟩
  simp only [layerPointer, String.toList_append, List.getLast?_append, h, Option.some_or]

theorem layerPointer_ne_crdName (ref t : String) (l k : Nat) : layerPointer ref l ≠ crdName t k := by
  obtain ⟨ch, h, hd⟩ := layerPointer_getLast? ref l
  apply ne_of_getLast?_ne
  rw [h]
  have : (crdName t k).toList.getLast? = some 'd' := by
    simp only [crdName, String.toList_append, List.getLast?_append]
    rfl
  rw [this]
  intro e; cases e; revert hd; decide

theorem layerPointer_ne_crdCapName (ref t : String) (l k : Nat) : layerPointer ref l ≠ crdCapName t k := by
  obtain ⟨ch, h, hd⟩ := layerPointer_getLast? ref l
  apply ne_of_getLast?_ne
  rw [h]
  have : (crdCapName t k).toList.getLast? = some 'y' := by
    simp only [crdCapName, String.toList_append, List.getLast?_append]
    rfl
  rw [this]
  intro e; cases e; revert hd; decide

theorem ne_of_underscore {s t : String} (hs : '_' ∉ s.toList) (ht : '_' ∈ t.toList) : s ≠ t := by
  intro e; rw [e] at hs; exact hs ht

/-- **names.** For every leaf whose index name contains no `'_'`, the four variable names used by
`writeCrdAssembly` are pairwise distinct (whatever the tensor name and id are). -/
theorem namesDistinct_of_index (out : Leaf) (h : '_' ∉ out.index.toList) : namesDistinct out := by
  have u1 : '_' ∈ (crdName out.tensor.name out.layer).toList := by
    simp [crdName, String.toList_append]
  have u2 : '_' ∈ (crdCapName out.tensor.name out.layer).toList := by
    simp [crdCapName, String.toList_append]
  have u3 : '_' ∈ (out.ptr).toList := by
    simp [Leaf.ptr, layerPointer, String.toList_append]
  simp only [namesDistinct, List.pairwise_cons, List.mem_cons, List.not_mem_nil, or_false,
    forall_eq_or_imp, forall_eq, List.Pairwise.nil, and_true, false_imp_iff, implies_true]
  exact ⟨⟨crdName_ne_crdCapName _ _, (layerPointer_ne_crdName _ _ _ _).symm, (ne_of_underscore h u1).symm⟩,
    ⟨(layerPointer_ne_crdCapName _ _ _ _).symm, (ne_of_underscore h u2).symm⟩, (ne_of_underscore h u3).symm⟩

end TV.Growth
