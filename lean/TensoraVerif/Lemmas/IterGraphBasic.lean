import TensoraVerif.Lemmas.IterGraphOrders

/-!
Structure lemmas for `Model/IterGraph.lean`: list forms of the mutual predicates, the parts of
`simplifyAdd`, and induction principles for `mergeWith` / `mergeAssignment` that hide the fuel.
-/
namespace TV.Graph

/-! ### list forms -/

theorem wellScopedL_iff (b : List String) (ts : List IGraph) :
    WellScopedL b ts = true ↔ ∀ t ∈ ts, WellScoped b t = true := by
  induction ts with
  | nil => simp [WellScopedL]
  | cons t ts ih => simp [WellScopedL, ih]

theorem noShadowInL_iff (u : List String) (ts : List IGraph) :
    NoShadowInL u ts = true ↔ ∀ t ∈ ts, NoShadowIn u t = true := by
  induction ts with
  | nil => simp [NoShadowInL]
  | cons t ts ih => simp [NoShadowInL, ih]

theorem mem_laterIndexesL (x : String) (ts : List IGraph) :
    x ∈ laterIndexesL ts ↔ ∃ t ∈ ts, x ∈ t.laterIndexes := by
  induction ts with
  | nil => simp [laterIndexesL]
  | cons t ts ih => simp [laterIndexesL, ih]

/-! ### the parts of `simplifyAdd` -/

def termsTerminals (ts : List IGraph) : List IdExpr :=
  ts.filterMap fun t => match t with | .terminal e => some e | _ => none

def termsIdxs (ts : List IGraph) : List String :=
  ts.foldl (fun acc t => match t with
    | .iter i _ _ => if acc.contains i then acc else acc ++ [i]
    | _ => acc) ([] : List String)

def termsGroup (ts : List IGraph) (i : String) : List IGraph :=
  ts.filter fun t => match t with | .iter j _ _ => i == j | _ => false

def unwrapNext : IGraph → List IGraph
  | .iter _ _ (.sum inner) => inner
  | .iter _ _ n => [n]
  | _ => []

def groupNode (fuel : Nat) (ts : List IGraph) (i : String) : Option IGraph :=
  match termsGroup ts i with
  | .iter hi ho _ :: _ => some (.iter hi ho (simplifyAdd fuel ((termsGroup ts i).flatMap unwrapNext)))
  | _ => none

def finish (combined : List IGraph) : IGraph :=
  match combined with
  | [single] => single
  | _ => .sum combined

def terminalPart (ts : List IGraph) : List IGraph :=
  match foldAdd (termsTerminals ts) with | some e => [IGraph.terminal e] | none => []

theorem simplifyAdd_zero (ts : List IGraph) : simplifyAdd 0 ts = .sum ts := rfl

theorem simplifyAdd_succ (fuel : Nat) (ts : List IGraph) :
    simplifyAdd (fuel + 1) ts = finish (terminalPart ts ++ (termsIdxs ts).filterMap (groupNode fuel ts)) := by
  rfl

theorem mem_termsTerminals (e : IdExpr) (ts : List IGraph) :
    e ∈ termsTerminals ts ↔ .terminal e ∈ ts := by
  simp only [termsTerminals, List.mem_filterMap]
  constructor
  · rintro ⟨t, ht, h⟩
    cases t <;> simp at h
    subst h; exact ht
  · intro h; exact ⟨_, h, rfl⟩

theorem mem_termsGroup (t : IGraph) (ts : List IGraph) (i : String) :
    t ∈ termsGroup ts i ↔ t ∈ ts ∧ ∃ o n, t = .iter i o n := by
  simp only [termsGroup, List.mem_filter]
  constructor
  · rintro ⟨ht, h⟩
    refine ⟨ht, ?_⟩
    cases t with
    | iter j o n => simp at h; subst h; exact ⟨o, n, rfl⟩
    | _ => simp at h
  · rintro ⟨ht, o, n, rfl⟩
    exact ⟨ht, by simp⟩

def notSum : IGraph → Bool
  | .sum _ => false
  | _ => true

theorem mem_unwrapNext (x t : IGraph) (h : x ∈ unwrapNext t) :
    ∃ j o n, t = .iter j o n ∧ ((∃ inner, n = .sum inner ∧ x ∈ inner) ∨ (x = n ∧ notSum n = true)) := by
  cases t with
  | iter j o n =>
    refine ⟨j, o, n, rfl, ?_⟩
    cases n with
    | sum inner => exact .inl ⟨inner, rfl, h⟩
    | terminal e => simp [unwrapNext] at h; exact .inr ⟨h, rfl⟩
    | iter k p m => simp [unwrapNext] at h; exact .inr ⟨h, rfl⟩
  | _ => simp [unwrapNext] at h

theorem groupNode_eq_some (fuel : Nat) (ts : List IGraph) (i : String) (g : IGraph)
    (h : groupNode fuel ts i = some g) :
    ∃ o n, .iter i o n ∈ ts ∧ g = .iter i o (simplifyAdd fuel ((termsGroup ts i).flatMap unwrapNext)) := by
  unfold groupNode at h
  split at h
  · rename_i hi ho hn rest heq
    have hmem : IGraph.iter hi ho hn ∈ termsGroup ts i := by rw [heq]; exact List.mem_cons_self
    obtain ⟨hts, o, n, he⟩ := (mem_termsGroup _ _ _).mp hmem
    injection he with h1 h2 h3
    subst h1 h2 h3
    injection h with h
    exact ⟨ho, hn, hts, h.symm⟩
  · cases h

theorem finish_cases (P : IGraph → Prop) (c : List IGraph) (h1 : ∀ g ∈ c, P g) (h2 : P (.sum c)) :
    P (finish c) := by
  unfold finish
  split
  · exact h1 _ List.mem_cons_self
  · exact h2

/-- a property `P` of graphs (and `Pt` of the terms of a sum) relative to a context that loops extend is
preserved by `simplifyAdd` -/
theorem simplifyAdd_preserves2 {C : Type} (P Pt : C → IGraph → Prop) (ext : C → String → C)
    (hcoe : ∀ c g, Pt c g → P c g)
    (hns : ∀ c g, notSum g = true → P c g → Pt c g)
    (hsumI : ∀ c ts, (∀ t ∈ ts, Pt c t) → P c (.sum ts))
    (hsumE : ∀ c ts, P c (.sum ts) → ∀ t ∈ ts, Pt c t)
    (hadd : ∀ c a b, Pt c (.terminal a) → Pt c (.terminal b) → Pt c (.terminal (.add a b)))
    (hiterE : ∀ c i o n, Pt c (.iter i o n) → P (ext c i) n)
    (hiterI : ∀ c i o n n', Pt c (.iter i o n) → P (ext c i) n' → Pt c (.iter i o n')) :
    ∀ (fuel : Nat) (c : C) (ts : List IGraph), (∀ t ∈ ts, Pt c t) → P c (simplifyAdd fuel ts) := by
  intro fuel
  induction fuel with
  | zero => intro c ts h; exact hsumI c ts h
  | succ fuel ih =>
    intro c ts h
    rw [simplifyAdd_succ]
    have hall : ∀ g ∈ terminalPart ts ++ (termsIdxs ts).filterMap (groupNode fuel ts), Pt c g := by
      intro g hg
      rcases List.mem_append.mp hg with hg | hg
      · unfold terminalPart at hg
        split at hg
        · rename_i e he
          simp only [List.mem_singleton] at hg
          subst hg
          unfold foldAdd at he
          split at he
          · cases he
          · rename_i e0 es heq
            injection he with he
            subst he
            have hP : ∀ x ∈ e0 :: es, Pt c (.terminal x) := by
              intro x hx; rw [← heq] at hx
              exact h _ ((mem_termsTerminals _ _).mp hx)
            have : ∀ (es : List IdExpr) (e0 : IdExpr), Pt c (.terminal e0) →
                (∀ x ∈ es, Pt c (.terminal x)) → Pt c (.terminal (es.foldl .add e0)) := by
              intro es
              induction es with
              | nil => intro e0 h0 _; exact h0
              | cons e es ihes =>
                intro e0 h0 hes
                exact ihes _ (hadd c _ _ h0 (hes e List.mem_cons_self))
                  (fun x hx => hes x (List.mem_cons_of_mem _ hx))
            exact this es e0 (hP e0 List.mem_cons_self) (fun x hx => hP x (List.mem_cons_of_mem _ hx))
        · cases hg
      · obtain ⟨i, _, hi⟩ := List.mem_filterMap.mp hg
        obtain ⟨o, n, hmem, rfl⟩ := groupNode_eq_some _ _ _ _ hi
        refine hiterI c i o n _ (h _ hmem) (ih _ _ ?_)
        intro x hx
        obtain ⟨t, ht, hxt⟩ := List.mem_flatMap.mp hx
        obtain ⟨hts, o', n', rfl⟩ := (mem_termsGroup _ _ _).mp ht
        obtain ⟨j, o'', n'', he, hcase⟩ := mem_unwrapNext _ _ hxt
        injection he with h1 h2 h3
        subst h1 h2 h3
        have hn := hiterE c _ _ _ (h _ hts)
        rcases hcase with ⟨inner, rfl, hxin⟩ | ⟨rfl, hnot⟩
        · exact hsumE _ _ hn _ hxin
        · exact hns _ _ hnot hn
    exact finish_cases (P c) _ (fun g hg => hcoe c g (hall g hg)) (hsumI c _ hall)

/-- a property of graphs relative to a context that loops extend is preserved by `simplifyAdd` -/
theorem simplifyAdd_preserves {C : Type} (P : C → IGraph → Prop) (ext : C → String → C)
    (hsumI : ∀ c ts, (∀ t ∈ ts, P c t) → P c (.sum ts))
    (hsumE : ∀ c ts, P c (.sum ts) → ∀ t ∈ ts, P c t)
    (hadd : ∀ c a b, P c (.terminal a) → P c (.terminal b) → P c (.terminal (.add a b)))
    (hiterE : ∀ c i o n, P c (.iter i o n) → P (ext c i) n)
    (hiterI : ∀ c i o n n', P c (.iter i o n) → P (ext c i) n' → P c (.iter i o n')) :
    ∀ (fuel : Nat) (c : C) (ts : List IGraph), (∀ t ∈ ts, P c t) → P c (simplifyAdd fuel ts) :=
  simplifyAdd_preserves2 P P ext (fun _ _ h => h) (fun _ _ _ h => h) hsumI hsumE hadd hiterE hiterI

/-! ### induction principles for the merges -/

/-- whatever holds of the results of `mergeWith` follows from its six ways of building a graph -/
theorem mergeWith_induction (op : IdExpr → IdExpr → IdExpr) (P : IGraph → IGraph → IGraph → Prop)
    (tt : ∀ a b, P (.terminal a) (.terminal b) (.terminal (op a b)))
    (it : ∀ i o n b g, P n (.terminal b) g → P (.iter i o n) (.terminal b) (.iter i o g))
    (ti : ∀ a j p m g, P (.terminal a) m g → P (.terminal a) (.iter j p m) (.iter j p g))
    (eq : ∀ i o n p m g, P n m g → P (.iter i o n) (.iter i p m) (.iter i o g))
    (left : ∀ i o n j p m g, i ≠ j → i ∉ m.laterIndexes → P n (.iter j p m) g →
      P (.iter i o n) (.iter j p m) (.iter i o g))
    (right : ∀ i o n j p m g, i ≠ j → j ∉ n.laterIndexes → P (.iter i o n) m g →
      P (.iter i o n) (.iter j p m) (.iter j p g)) :
    ∀ (fuel : Nat) (l r g : IGraph), g ∈ mergeWith op fuel l r → P l r g := by
  intro fuel
  induction fuel with
  | zero => intro l r g h; simp [mergeWith] at h
  | succ fuel ih =>
    intro l r g h
    cases l with
    | terminal a =>
      cases r with
      | terminal b => simp [mergeWith] at h; subst h; exact tt a b
      | iter j p m =>
        simp only [mergeWith, List.mem_map] at h
        obtain ⟨g', hg', rfl⟩ := h
        exact ti _ _ _ _ _ (ih _ _ _ hg')
      | sum ts => simp [mergeWith] at h
    | iter i o n =>
      cases r with
      | terminal b =>
        simp only [mergeWith, List.mem_map] at h
        obtain ⟨g', hg', rfl⟩ := h
        exact it _ _ _ _ _ (ih _ _ _ hg')
      | iter j p m =>
        simp only [mergeWith] at h
        split at h
        · rename_i hij
          have : i = j := by simpa using hij
          subst this
          obtain ⟨g', hg', rfl⟩ := List.mem_map.mp h
          exact eq _ _ _ _ _ _ (ih _ _ _ hg')
        · rename_i hij
          have hne : i ≠ j := by simpa using hij
          rcases List.mem_append.mp h with h | h
          · split at h
            · rename_i hc
              obtain ⟨g', hg', rfl⟩ := List.mem_map.mp h
              exact left _ _ _ _ _ _ _ hne (by simpa using hc) (ih _ _ _ hg')
            · cases h
          · split at h
            · rename_i hc
              obtain ⟨g', hg', rfl⟩ := List.mem_map.mp h
              exact right _ _ _ _ _ _ _ hne (by simpa using hc) (ih _ _ _ hg')
            · cases h
      | sum ts => simp [mergeWith] at h
    | sum ts => simp [mergeWith] at h

/-- choices of `cartesian`: one element of each factor, in order -/
theorem mem_cartesian {α : Type} : ∀ (L : List (List α)) (c : List α), c ∈ cartesian L →
    c.length = L.length ∧ ∀ k (h1 : k < c.length) (h2 : k < L.length), c[k] ∈ L[k] := by
  intro L
  induction L with
  | nil => intro c hc; simp [cartesian] at hc; subst hc; simp
  | cons xs rest ih =>
    intro c hc
    simp only [cartesian, List.mem_flatMap, List.mem_map] at hc
    obtain ⟨x, hx, c', hc', rfl⟩ := hc
    obtain ⟨hl, hk⟩ := ih c' hc'
    refine ⟨by simp [hl], ?_⟩
    intro k h1 h2
    cases k with
    | zero => simpa using hx
    | succ k => simpa using hk k (by simpa using h1) (by simpa using h2)

/-- whatever holds of the results of `mergeAssignment` follows from its ways of building a graph -/
theorem mergeAssignment_induction (layers : List (String × Leaf)) (P : IGraph → IGraph → IGraph → Prop)
    (te : ∀ a e, P (.terminal a) e e)
    (it : ∀ i o n b g, P n (.terminal b) g → P (.iter i o n) (.terminal b) (.iter i (layerOf layers i) g))
    (eq : ∀ i o n p m g, P n m g → P (.iter i o n) (.iter i p m) (.iter i (layerOf layers i) g))
    (left : ∀ i o n j p m g, i ≠ j → i ∉ m.laterIndexes → P n (.iter j p m) g →
      P (.iter i o n) (.iter j p m) (.iter i (layerOf layers i) g))
    (right : ∀ i o n j p m g, i ≠ j → j ∉ n.laterIndexes →
      targetHasPendingCompressed layers (.iter i o n) = false → P (.iter i o n) m g →
      P (.iter i o n) (.iter j p m) (.iter j p g))
    (sum : ∀ i o n terms merged fuel, merged.length = terms.length →
      (∀ k (h1 : k < merged.length) (h2 : k < terms.length), P (.iter i o n) terms[k] merged[k]) →
      P (.iter i o n) (.sum terms) (simplifyAdd fuel merged)) :
    ∀ (fuel : Nat) (t e g : IGraph), g ∈ mergeAssignment layers fuel t e → P t e g := by
  intro fuel
  induction fuel with
  | zero => intro l r g h; simp [mergeAssignment] at h
  | succ fuel ih =>
    intro l r g h
    cases l with
    | terminal a =>
      simp [mergeAssignment] at h; rw [h]; exact te a r
    | iter i o n =>
      cases r with
      | terminal b =>
        simp only [mergeAssignment, List.mem_map] at h
        obtain ⟨g', hg', rfl⟩ := h
        exact it _ _ _ _ _ (ih _ _ _ hg')
      | iter j p m =>
        simp only [mergeAssignment] at h
        split at h
        · rename_i hij
          have : i = j := by simpa using hij
          subst this
          obtain ⟨g', hg', rfl⟩ := List.mem_map.mp h
          exact eq _ _ _ _ _ _ (ih _ _ _ hg')
        · rename_i hij
          have hne : i ≠ j := by simpa using hij
          rcases List.mem_append.mp h with h | h
          · split at h
            · rename_i hc
              obtain ⟨g', hg', rfl⟩ := List.mem_map.mp h
              exact left _ _ _ _ _ _ _ hne (by simpa using hc) (ih _ _ _ hg')
            · cases h
          · split at h
            · rename_i hc
              obtain ⟨g', hg', rfl⟩ := List.mem_map.mp h
              simp only [Bool.and_eq_true, Bool.not_eq_true'] at hc
              exact right _ _ _ _ _ _ _ hne (by simpa using hc.1) hc.2 (ih _ _ _ hg')
            · cases h
      | sum terms =>
        simp only [mergeAssignment, List.mem_map] at h
        obtain ⟨merged, hm, rfl⟩ := h
        obtain ⟨hl, hk⟩ := mem_cartesian _ _ hm
        simp only [List.length_map] at hl
        refine sum _ _ _ _ _ _ hl ?_
        intro k h1 h2
        have := hk k h1 (by simpa using h2)
        simp only [List.getElem_map] at this
        exact ih _ _ _ this
    | sum ts => simp [mergeAssignment] at h

end TV.Graph
