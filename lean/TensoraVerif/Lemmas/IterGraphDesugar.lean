import TensoraVerif.Lemmas.DesugarCorrect
import TensoraVerif.Model.IterGraphSem
import TensoraVerif.Model.IterGraphSpec

/-!
G4, part 5: outside the known-defect signature `productHoistUnsafe`, `desugar` places contractions
hygienically (`Hygienic`, `closedFor` of `Model/IterGraphSem.lean`).
-/
namespace TV.Graph
open TV.Alg

/-! ### `wrap` -/

theorem wrap_cons (i : String) (h : List String) (e : DExpr) :
    wrap (i :: h) e = wrap h (.contract i e) := rfl

theorem mem_boundOf_wrap (x : String) : ∀ (h : List String) (e : DExpr),
    x ∈ boundOf (wrap h e) ↔ x ∈ h ∨ x ∈ boundOf e := by
  intro h
  induction h with
  | nil => intro e; simp [wrap]
  | cons i h ih =>
    intro e
    rw [wrap_cons, ih]
    simp only [boundOf, List.mem_cons]
    grind

theorem idxOfD_wrap : ∀ (h : List String) (e : DExpr), idxOfD (wrap h e) = idxOfD e := by
  intro h
  induction h with
  | nil => intro e; rfl
  | cons i h ih => intro e; rw [wrap_cons, ih]; rfl

theorem mem_freeOf_wrap (x : String) : ∀ (h : List String) (e : DExpr),
    x ∈ freeOf (wrap h e) ↔ x ∈ freeOf e ∧ x ∉ h := by
  intro h
  induction h with
  | nil => intro e; simp [wrap]
  | cons i h ih =>
    intro e
    rw [wrap_cons, ih]
    simp only [freeOf, List.mem_filter, List.mem_cons, bne_iff_ne, ne_eq]
    grind

theorem inEveryPath_wrap (j : String) : ∀ (h : List String) (e : DExpr),
    inEveryPath j (wrap h e) = inEveryPath j e := by
  intro h
  induction h with
  | nil => intro e; rfl
  | cons i h ih => intro e; rw [wrap_cons, ih]; rfl

theorem hygienic_wrap : ∀ (h : List String) (e : DExpr), Hygienic e = true → h.Nodup →
    (∀ x ∈ h, x ∉ boundOf e) → (∀ x ∈ h, inEveryPath x e = true) → Hygienic (wrap h e) = true := by
  intro h
  induction h with
  | nil => intro e he _ _ _; exact he
  | cons i h ih =>
    intro e he hnd hb hp
    rw [wrap_cons]
    rw [List.nodup_cons] at hnd
    apply ih _ _ hnd.2
    · intro x hx
      simp only [boundOf, List.mem_cons, not_or]
      exact ⟨fun hxi => hnd.1 (hxi ▸ hx), hb x (List.mem_cons_of_mem _ hx)⟩
    · intro x hx
      simpa [inEveryPath] using hp x (List.mem_cons_of_mem _ hx)
    · simp only [Hygienic, Bool.and_eq_true, Bool.not_eq_true']
      refine ⟨⟨he, ?_⟩, hp i List.mem_cons_self⟩
      have := hb i List.mem_cons_self
      cases hc : (boundOf e).contains i
      · rfl
      · exact absurd (List.contains_iff_mem.mp hc) this

theorem inEveryPath_add_of_both {j : String} {l r : DExpr} (hl : inEveryPath j l = true)
    (hr : inEveryPath j r = true) : inEveryPath j (.add l r) = true := by
  simp only [inEveryPath]
  split <;> simp [hl, hr]

theorem disjointL_iff {xs ys : List String} : disjointL xs ys = true ↔ ∀ x ∈ xs, x ∉ ys := by
  simp only [disjointL, List.all_eq_true, Bool.not_eq_true']
  constructor
  · intro h x hx hy
    have := h x hx
    rw [List.contains_iff_mem.mpr hy] at this
    cases this
  · intro h x hx
    cases hc : ys.contains x
    · rfl
    · exact absurd (List.contains_iff_mem.mp hc) (h x hx)

/-! ### names in the desugared tree -/

theorem mem_indexesOf_add {l r : SExpr} {x : String} :
    x ∈ indexesOf (.add l r) ↔ x ∈ indexesOf l ∨ x ∈ indexesOf r := by
  simp [indexesOf]

theorem mem_indexesOf_sub {l r : SExpr} {x : String} :
    x ∈ indexesOf (.sub l r) ↔ x ∈ indexesOf l ∨ x ∈ indexesOf r := by
  simp [indexesOf]

theorem mem_indexesOf_mul {l r : SExpr} {x : String} :
    x ∈ indexesOf (.mul l r) ↔ x ∈ indexesOf l ∨ x ∈ indexesOf r := by
  simp [indexesOf]

/-- which names are written, bound and free in the desugared tree -/
theorem desugarE_names (e : SExpr) : ∀ (c : List String) (n : Nat), (∀ i ∈ c, i ∈ indexesOf e) →
    (∀ x, x ∈ idxOfD (desugarE e c n).1 ↔ x ∈ indexesOf e) ∧
    (∀ x, x ∈ boundOf (desugarE e c n).1 ↔ x ∈ c) ∧
    (∀ x, x ∈ freeOf (desugarE e c n).1 ↔ x ∈ indexesOf e ∧ x ∉ c) := by
  induction e with
  | int v =>
    intro c n hc
    have : ∀ x, x ∉ c := fun x hx => by simpa [indexesOf] using hc x hx
    simp [desugarE, idxOfD, boundOf, freeOf, indexesOf, this]
  | flt v =>
    intro c n hc
    have : ∀ x, x ∉ c := fun x hx => by simpa [indexesOf] using hc x hx
    simp [desugarE, idxOfD, boundOf, freeOf, indexesOf, this]
  | tensor name idx =>
    intro c n hc
    show (∀ x, x ∈ idxOfD (wrap c (.tensor n name idx)) ↔ _) ∧
      (∀ x, x ∈ boundOf (wrap c (.tensor n name idx)) ↔ _) ∧
      (∀ x, x ∈ freeOf (wrap c (.tensor n name idx)) ↔ _)
    refine ⟨fun x => ?_, fun x => ?_, fun x => ?_⟩
    · rw [idxOfD_wrap]; simp [idxOfD, indexesOf]
    · rw [mem_boundOf_wrap]; simp [boundOf]
    · rw [mem_freeOf_wrap]; simp [freeOf, indexesOf]
  | add l r ihl ihr =>
    intro c n hc
    rw [desugarE_add]
    obtain ⟨l1, l2, l3⟩ := ihl (restOf l c (hoistAdd l r c)) n fun i hi => (mem_restOf.mp hi).1
    obtain ⟨r1, r2, r3⟩ := ihr (restOf r c (hoistAdd l r c))
      (desugarE l (restOf l c (hoistAdd l r c)) n).2 fun i hi => (mem_restOf.mp hi).1
    refine ⟨fun x => ?_, fun x => ?_, fun x => ?_⟩
    · rw [idxOfD_wrap]
      simp only [idxOfD, List.mem_append, l1, r1, mem_indexesOf_add]
    · rw [mem_boundOf_wrap]
      simp only [boundOf, List.mem_append, l2, r2, mem_restOf, mem_hoistAdd]
      have := hc x
      rw [mem_indexesOf_add] at this
      grind
    · rw [mem_freeOf_wrap]
      simp only [freeOf, List.mem_append, l3, r3, mem_restOf, mem_hoistAdd, mem_indexesOf_add]
      grind
  | sub l r ihl ihr =>
    intro c n hc
    rw [desugarE_sub]
    obtain ⟨l1, l2, l3⟩ := ihl (restOf l c (hoistAdd l r c)) n fun i hi => (mem_restOf.mp hi).1
    obtain ⟨r1, r2, r3⟩ := ihr (restOf r c (hoistAdd l r c))
      (desugarE l (restOf l c (hoistAdd l r c)) n).2 fun i hi => (mem_restOf.mp hi).1
    refine ⟨fun x => ?_, fun x => ?_, fun x => ?_⟩
    · rw [idxOfD_wrap]
      simp only [idxOfD, List.mem_append, l1, r1, mem_indexesOf_sub, List.nil_append]
    · rw [mem_boundOf_wrap]
      simp only [boundOf, List.mem_append, l2, r2, mem_restOf, mem_hoistAdd, List.nil_append]
      have := hc x
      rw [mem_indexesOf_sub] at this
      grind
    · rw [mem_freeOf_wrap]
      simp only [freeOf, List.mem_append, l3, r3, mem_restOf, mem_hoistAdd, mem_indexesOf_sub,
        List.nil_append]
      grind
  | mul l r ihl ihr =>
    intro c n hc
    rw [desugarE_mul]
    obtain ⟨l1, l2, l3⟩ := ihl (restOf l c (hoistMul l r c)) n fun i hi => (mem_restOf.mp hi).1
    obtain ⟨r1, r2, r3⟩ := ihr (restOf r c (hoistMul l r c))
      (desugarE l (restOf l c (hoistMul l r c)) n).2 fun i hi => (mem_restOf.mp hi).1
    refine ⟨fun x => ?_, fun x => ?_, fun x => ?_⟩
    · rw [idxOfD_wrap]
      simp only [idxOfD, List.mem_append, l1, r1, mem_indexesOf_mul]
    · rw [mem_boundOf_wrap]
      simp only [boundOf, List.mem_append, l2, r2, mem_restOf, mem_hoistMul]
      have := hc x
      rw [mem_indexesOf_mul] at this
      grind
    · rw [mem_freeOf_wrap]
      simp only [freeOf, List.mem_append, l3, r3, mem_restOf, mem_hoistMul, mem_indexesOf_mul]
      grind

/-- an index that every additive term mentions is looped over on every path of every candidate -/
theorem inEveryPath_desugarE (j : String) (e : SExpr) : ∀ (c : List String) (n : Nat),
    j ∈ inEveryTerm e → inEveryPath j (desugarE e c n).1 = true := by
  induction e with
  | int v => intro c n h; simp [inEveryTerm] at h
  | flt v => intro c n h; simp [inEveryTerm] at h
  | tensor name idx =>
    intro c n h
    show inEveryPath j (wrap c (.tensor n name idx)) = true
    rw [inEveryPath_wrap]
    simpa [inEveryPath, inEveryTerm] using h
  | add l r ihl ihr =>
    intro c n h
    rw [desugarE_add, inEveryPath_wrap]
    simp only [inEveryTerm, List.mem_filter, List.contains_iff_mem] at h
    exact inEveryPath_add_of_both (ihl _ _ h.1) (ihr _ _ h.2)
  | sub l r ihl ihr =>
    intro c n h
    rw [desugarE_sub, inEveryPath_wrap]
    simp only [inEveryTerm, List.mem_filter, List.contains_iff_mem] at h
    exact inEveryPath_add_of_both (ihl _ _ h.1) (by simp [inEveryPath, ihr _ _ h.2])
  | mul l r ihl ihr =>
    intro c n h
    rw [desugarE_mul, inEveryPath_wrap]
    simp only [inEveryTerm, mem_dedup, List.mem_append] at h
    simp only [inEveryPath, Bool.or_eq_true]
    rcases h with h | h
    · exact .inl (ihl _ _ h)
    · exact .inr (ihr _ _ h)

/-! ### hygiene -/

theorem desugarE_hygienic (target : List String) (e : SExpr) : ∀ (c : List String) (n : Nat),
    c.Nodup → (∀ i ∈ c, i ∈ indexesOf e) → (∀ i ∈ c, i ∉ target) →
    productHoistUnsafe target e = false → Hygienic (desugarE e c n).1 = true := by
  induction e with
  | int v => intro c n _ _ _ _; rfl
  | flt v => intro c n _ _ _ _; rfl
  | tensor name idx =>
    intro c n hnd hc _ _
    show Hygienic (wrap c (.tensor n name idx)) = true
    apply hygienic_wrap _ _ rfl hnd
    · intro x _; simp [boundOf]
    · intro x hx
      simpa [inEveryPath, indexesOf] using hc x hx
  | add l r ihl ihr =>
    intro c n hnd hc ht hs
    obtain ⟨hsl, hsr⟩ := safe_add hs
    rw [desugarE_add]
    have hsubl : ∀ i ∈ restOf l c (hoistAdd l r c), i ∈ indexesOf l := fun i hi => (mem_restOf.mp hi).1
    have hsubr : ∀ i ∈ restOf r c (hoistAdd l r c), i ∈ indexesOf r := fun i hi => (mem_restOf.mp hi).1
    obtain ⟨_, l2, l3⟩ := desugarE_names l (restOf l c (hoistAdd l r c)) n hsubl
    obtain ⟨_, r2, r3⟩ := desugarE_names r (restOf r c (hoistAdd l r c))
      (desugarE l (restOf l c (hoistAdd l r c)) n).2 hsubr
    have hl := ihl _ n (nodup_restOf l c _) hsubl (fun i hi => ht i (mem_restOf.mp hi).2.1) hsl
    have hr := ihr _ (desugarE l (restOf l c (hoistAdd l r c)) n).2 (nodup_restOf r c _) hsubr
      (fun i hi => ht i (mem_restOf.mp hi).2.1) hsr
    apply hygienic_wrap _ _ _ (nodup_hoistAdd l r c)
    · intro x hx
      simp only [boundOf, List.mem_append, l2, r2, mem_restOf]
      grind
    · intro x hx
      have := mem_hoistAdd.mp hx
      exact inEveryPath_add_of_both (inEveryPath_desugarE x l _ _ this.2.2.2.1)
        (inEveryPath_desugarE x r _ _ this.2.2.2.2)
    · simp only [Hygienic, Bool.and_eq_true, disjointL_iff]
      refine ⟨⟨⟨hl, hr⟩, ?_⟩, ?_⟩
      · intro x hx
        rw [l2, mem_restOf] at hx
        rw [r3, mem_restOf]
        grind
      · intro x hx
        rw [r2, mem_restOf] at hx
        rw [l3, mem_restOf]
        grind
  | sub l r ihl ihr =>
    intro c n hnd hc ht hs
    obtain ⟨hsl, hsr⟩ := safe_sub hs
    rw [desugarE_sub]
    have hsubl : ∀ i ∈ restOf l c (hoistAdd l r c), i ∈ indexesOf l := fun i hi => (mem_restOf.mp hi).1
    have hsubr : ∀ i ∈ restOf r c (hoistAdd l r c), i ∈ indexesOf r := fun i hi => (mem_restOf.mp hi).1
    obtain ⟨_, l2, l3⟩ := desugarE_names l (restOf l c (hoistAdd l r c)) n hsubl
    obtain ⟨_, r2, r3⟩ := desugarE_names r (restOf r c (hoistAdd l r c))
      (desugarE l (restOf l c (hoistAdd l r c)) n).2 hsubr
    have hl := ihl _ n (nodup_restOf l c _) hsubl (fun i hi => ht i (mem_restOf.mp hi).2.1) hsl
    have hr := ihr _ (desugarE l (restOf l c (hoistAdd l r c)) n).2 (nodup_restOf r c _) hsubr
      (fun i hi => ht i (mem_restOf.mp hi).2.1) hsr
    apply hygienic_wrap _ _ _ (nodup_hoistAdd l r c)
    · intro x hx
      simp only [boundOf, List.mem_append, l2, r2, mem_restOf, List.nil_append]
      grind
    · intro x hx
      have := mem_hoistAdd.mp hx
      exact inEveryPath_add_of_both (inEveryPath_desugarE x l _ _ this.2.2.2.1)
        (by simp [inEveryPath, inEveryPath_desugarE x r _ _ this.2.2.2.2])
    · simp only [Hygienic, Bool.and_eq_true, disjointL_iff, boundOf, freeOf, idxOfD,
        List.nil_append, List.not_mem_nil, not_false_eq_true, implies_true, and_true, true_and]
      refine ⟨⟨⟨hl, hr, fun _ h => h.elim⟩, ?_⟩, ?_⟩
      · intro x hx
        rw [l2, mem_restOf] at hx
        rw [r3, mem_restOf]
        grind
      · intro x hx
        rw [r2, mem_restOf] at hx
        rw [l3, mem_restOf]
        grind
  | mul l r ihl ihr =>
    intro c n hnd hc ht hs
    obtain ⟨hshared, hsl, hsr⟩ := safe_mul hs
    rw [desugarE_mul]
    have hsubl : ∀ i ∈ restOf l c (hoistMul l r c), i ∈ indexesOf l := fun i hi => (mem_restOf.mp hi).1
    have hsubr : ∀ i ∈ restOf r c (hoistMul l r c), i ∈ indexesOf r := fun i hi => (mem_restOf.mp hi).1
    obtain ⟨l1, l2, _⟩ := desugarE_names l (restOf l c (hoistMul l r c)) n hsubl
    obtain ⟨r1, r2, _⟩ := desugarE_names r (restOf r c (hoistMul l r c))
      (desugarE l (restOf l c (hoistMul l r c)) n).2 hsubr
    have hl := ihl _ n (nodup_restOf l c _) hsubl (fun i hi => ht i (mem_restOf.mp hi).2.1) hsl
    have hr := ihr _ (desugarE l (restOf l c (hoistMul l r c)) n).2 (nodup_restOf r c _) hsubr
      (fun i hi => ht i (mem_restOf.mp hi).2.1) hsr
    apply hygienic_wrap _ _ _ (nodup_filter (nodup_filter (nodup_indexesOf l)))
    · intro x hx
      simp only [boundOf, List.mem_append, l2, r2, mem_restOf]
      grind
    · intro x hx
      have hm := mem_hoistMul.mp hx
      simp only [inEveryPath, Bool.or_eq_true]
      rcases hshared x hm.1 hm.2.1 (ht x hm.2.2) with h | h
      · exact .inl (inEveryPath_desugarE x l _ _ h)
      · exact .inr (inEveryPath_desugarE x r _ _ h)
    · simp only [Hygienic, Bool.and_eq_true, disjointL_iff]
      refine ⟨⟨⟨hl, hr⟩, ?_⟩, ?_⟩
      · intro x hx
        rw [l2, mem_restOf] at hx
        rw [r1]
        intro hxr
        exact hx.2.2 (mem_hoistMul.mpr ⟨hx.1, hxr, hx.2.1⟩)
      · intro x hx
        rw [r2, mem_restOf] at hx
        rw [l1]
        intro hxl
        exact hx.2.2 (mem_hoistMul.mpr ⟨hxl, hx.1, hx.2.1⟩)

/-- outside the known-defect signature of the desugaring pass, the desugared assignment has its
contractions placed hygienically -/
theorem desugar_hygienicSource' (a : Assign) (hsafe : productHoistUnsafe a.tidx a.rhs = false) :
    hygienicSource a = true := by
  have hcn : ((dedup (a.tidx ++ indexesOf a.rhs)).filter fun i => !a.tidx.contains i).Nodup :=
    nodup_filter (nodup_dedup _)
  have hcsub : ∀ i ∈ (dedup (a.tidx ++ indexesOf a.rhs)).filter fun i => !a.tidx.contains i,
      i ∈ indexesOf a.rhs := by
    intro i hi
    simp only [List.mem_filter, mem_dedup, List.mem_append, Bool.not_eq_true'] at hi
    rcases hi.1 with h | h
    · rw [List.contains_iff_mem.mpr h] at hi; cases hi.2
    · exact h
  have hct : ∀ i ∈ (dedup (a.tidx ++ indexesOf a.rhs)).filter fun i => !a.tidx.contains i,
      i ∉ a.tidx := by
    intro i hi h
    simp only [List.mem_filter, Bool.not_eq_true'] at hi
    rw [List.contains_iff_mem.mpr h] at hi; cases hi.2
  simp only [hygienicSource, Bool.and_eq_true]
  constructor
  · exact desugarE_hygienic a.tidx a.rhs _ 1 hcn hcsub hct hsafe
  · obtain ⟨n1, n2, _⟩ := desugarE_names a.rhs _ 1 hcsub
    simp only [closedFor, List.all_eq_true]
    intro x hx
    have hx' : x ∈ indexesOf a.rhs := (n1 x).mp hx
    have hb := n2 x
    simp only [List.mem_filter, mem_dedup, List.mem_append, Bool.not_eq_true'] at hb
    show (a.tidx.contains x != (boundOf (desugarE a.rhs _ 1).1).contains x) = true
    cases h1 : a.tidx.contains x
    · have : x ∈ boundOf (desugarE a.rhs
          ((dedup (a.tidx ++ indexesOf a.rhs)).filter fun i => !a.tidx.contains i) 1).1 :=
        hb.mpr ⟨.inr hx', h1⟩
      rw [List.contains_iff_mem.mpr this]; rfl
    · have : x ∉ boundOf (desugarE a.rhs
          ((dedup (a.tidx ++ indexesOf a.rhs)).filter fun i => !a.tidx.contains i) 1).1 := by
        intro h
        have := (hb.mp h).2
        rw [h1] at this; cases this
      cases h2 : (boundOf (desugarE a.rhs
          ((dedup (a.tidx ++ indexesOf a.rhs)).filter fun i => !a.tidx.contains i) 1).1).contains x
      · rfl
      · exact absurd (List.contains_iff_mem.mp h2) this

theorem arityOk_wrap (formats : Formats) : ∀ (h : List String) (e : DExpr),
    arityOk formats (wrap h e) = arityOk formats e := by
  intro h
  induction h with
  | nil => intro e; rfl
  | cons i h ih => intro e; rw [wrap_cons, ih]; rfl

theorem arityOk_desugarE (formats : Formats) (e : SExpr) : ∀ (c : List String) (n : Nat),
    arityOk formats (desugarE e c n).1 = arityOkS formats e := by
  induction e with
  | int v => intro c n; rfl
  | flt v => intro c n; rfl
  | tensor name idx =>
    intro c n
    show arityOk formats (wrap c (.tensor n name idx)) = _
    rw [arityOk_wrap]; rfl
  | add l r ihl ihr =>
    intro c n
    rw [desugarE_add, arityOk_wrap]
    simp only [arityOk, arityOkS, ihl, ihr]
  | sub l r ihl ihr =>
    intro c n
    rw [desugarE_sub, arityOk_wrap]
    simp only [arityOk, arityOkS, ihl, ihr, Bool.true_and]
  | mul l r ihl ihr =>
    intro c n
    rw [desugarE_mul, arityOk_wrap]
    simp only [arityOk, arityOkS, ihl, ihr]

end TV.Graph
