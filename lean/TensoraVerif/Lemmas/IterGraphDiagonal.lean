import TensoraVerif.Lemmas.IterGraphBasic

/-!
G1: the diagonal-access refusal of `graphsOf` / `toIterationGraphs` / `bestAlgorithm`.
-/
namespace TV.Graph

theorem hasDup_iff (xs : List String) : hasDup xs = true ↔ ¬ xs.Nodup := by
  induction xs with
  | nil => simp [hasDup]
  | cons x rest ih =>
    simp only [hasDup, Bool.or_eq_true, ih, List.nodup_cons, List.contains_iff_mem]
    constructor
    · rintro (h | h) ⟨h1, h2⟩
      · exact h1 h
      · exact h h2
    · intro h
      by_cases hx : x ∈ rest
      · exact .inl hx
      · exact .inr fun h2 => h ⟨hx, h2⟩

theorem hasDup_perm {xs ys : List String} (h : xs.Perm ys) : hasDup xs = hasDup ys := by
  have := h.nodup_iff
  cases h1 : hasDup xs <;> cases h2 : hasDup ys <;> try rfl
  · have := (hasDup_iff ys).mp h2
    have h3 : ¬ hasDup xs = true := by simp [h1]
    rw [hasDup_iff] at h3
    simp_all
  · have := (hasDup_iff xs).mp h1
    have h3 : ¬ hasDup ys = true := by simp [h2]
    rw [hasDup_iff] at h3
    simp_all

theorem map_getD_range (idx : List String) :
    (List.range idx.length).map (fun i => idx.getD i "") = idx := by
  apply List.ext_getElem
  · simp
  · intro k h1 h2
    simp [List.getD_eq_getElem?_getD, h2]

theorem validFormats_find {formats : Formats} (hv : ValidFormats formats = true) {name : String}
    {f : String × List Mode × List Nat} (h : formats.find? (·.1 == name) = some f) :
    f.2.2.Perm (List.range f.2.1.length) := by
  have hm := List.mem_of_find?_eq_some h
  have := List.all_eq_true.mp hv f hm
  exact List.isPerm_iff.mp this

/-- with a valid format of the right arity the level-ordered index list is a permutation of the
index list of the occurrence -/
theorem tensorId_spec {formats : Formats} (hv : ValidFormats formats = true) {id : Nat} {name : String}
    {idx : List String} (ha : arityOkAt formats name idx = true) {t : TensorId}
    (h : tensorId id name formats idx = some t) :
    t.indexes.Perm idx ∧ t.modes.length = idx.length ∧ t.indexes.length = idx.length := by
  unfold tensorId at h
  unfold arityOkAt at ha
  split at h
  · cases h
  · rename_i n modes ordering heq
    rw [heq] at ha
    have hp := validFormats_find hv heq
    simp only at hp ha
    have hlen : modes.length = idx.length := by simpa using ha
    injection h with h
    subst h
    simp only
    rw [hlen] at hp
    refine ⟨?_, hlen, ?_⟩
    · have := hp.map (fun i => idx.getD i "")
      rwa [map_getD_range] at this
    · simp [hp.length_eq]

theorem tensorId_isSome {formats : Formats} {id : Nat} {name : String} {idx : List String}
    (h : (formats.find? (·.1 == name)).isSome = true) : ∃ t, tensorId id name formats idx = some t := by
  unfold tensorId
  split
  · rename_i heq; simp [heq] at h
  · exact ⟨_, rfl⟩

theorem legalIterationOrders_ne_nil (modes : List Mode) : legalIterationOrders modes ≠ [] := by
  have hc : ∀ (L : List (List (List Nat))), (∀ xs ∈ L, xs ≠ []) → cartesian L ≠ [] := by
    intro L
    induction L with
    | nil => intro _; simp [cartesian]
    | cons xs rest ih =>
      intro h
      have h1 := h xs List.mem_cons_self
      have h2 := ih fun ys hy => h ys (List.mem_cons_of_mem _ hy)
      cases xs with
      | nil => exact absurd rfl h1
      | cons x xs' =>
        cases hc : cartesian rest with
        | nil => exact absurd hc h2
        | cons c cs => simp [cartesian, hc]
  have hp : ∀ (fuel : Nat) (l : List Nat), perms fuel l ≠ [] := by
    intro fuel
    induction fuel with
    | zero => intro l; simp [perms]
    | succ fuel ih =>
      intro l
      cases l with
      | nil => simp [perms]
      | cons a l' =>
        have := ih ((a :: l').filter (· != a))
        cases hq : perms fuel ((a :: l').filter (· != a)) with
        | nil => exact absurd hq this
        | cons q qs =>
          simp only [perms, List.flatMap_cons, hq]
          simp
  unfold legalIterationOrders
  simp only [ne_eq, List.map_eq_nil_iff]
  apply hc
  intro xs hxs
  obtain ⟨g, _, rfl⟩ := List.mem_map.mp hxs
  exact hp _ _

/-- G1 (only if): `graphsOf` refuses with "diagonal access" only if some tensor occurrence repeats an
index -/
theorem graphsOf_diagonal_only_if' (formats : Formats) (hv : ValidFormats formats = true) :
    ∀ (e : Alg.DExpr), arityOk formats e = true → graphsOf formats e = .error .diagonal →
      hasDiagonal e = true := by
  intro e
  induction e with
  | int v => intro _ h; simp [graphsOf] at h
  | flt v => intro _ h; simp [graphsOf] at h
  | tensor id name idx =>
    intro ha h
    simp only [graphsOf] at h
    split at h
    · cases h
    · rename_i t ht
      split at h
      · rename_i hd
        have := (tensorId_spec hv ha ht).1
        simpa [hasDiagonal, hasDup_perm this] using hd
      · cases h
  | add l r ihl ihr =>
    intro ha h
    simp only [arityOk, Bool.and_eq_true] at ha
    simp only [graphsOf, bind, Except.bind, pure, Except.pure] at h
    simp only [hasDiagonal, Bool.or_eq_true]
    split at h
    · rename_i err hl
      injection h with h; subst h
      exact .inl (ihl ha.1 hl)
    · split at h
      · cases h
      · split at h
        · rename_i err hr
          injection h with h; subst h
          exact .inr (ihr ha.2 hr)
        · split at h <;> cases h
  | mul l r ihl ihr =>
    intro ha h
    simp only [arityOk, Bool.and_eq_true] at ha
    simp only [graphsOf, bind, Except.bind, pure, Except.pure] at h
    simp only [hasDiagonal, Bool.or_eq_true]
    split at h
    · rename_i err hl
      injection h with h; subst h
      exact .inl (ihl ha.1 hl)
    · split at h
      · cases h
      · split at h
        · rename_i err hr
          injection h with h; subst h
          exact .inr (ihr ha.2 hr)
        · cases h
  | contract i e ih =>
    intro ha h
    simp only [graphsOf] at h
    exact ih ha h

/-- G1 (never otherwise): with formats for all tensors and no repeated index `graphsOf` succeeds -/
theorem graphsOf_ok_of_no_diagonal' (formats : Formats) (hv : ValidFormats formats = true) :
    ∀ (e : Alg.DExpr), hasFormats formats e = true → arityOk formats e = true →
      hasDiagonal e = false → ∃ gs, graphsOf formats e = .ok gs := by
  intro e
  induction e with
  | int v => intro _ _ _; exact ⟨_, rfl⟩
  | flt v => intro _ _ _; exact ⟨_, rfl⟩
  | tensor id name idx =>
    intro hf ha hd
    obtain ⟨t, ht⟩ := tensorId_isSome (id := id) (idx := idx) hf
    have := (tensorId_spec hv ha ht).1
    simp only [hasDiagonal] at hd
    simp only [graphsOf, ht, hasDup_perm this, hd]
    exact ⟨_, rfl⟩
  | add l r ihl ihr =>
    intro hf ha hd
    simp only [hasFormats, arityOk, Bool.and_eq_true] at hf ha
    simp only [hasDiagonal, Bool.or_eq_false_iff] at hd
    obtain ⟨ls, hl⟩ := ihl hf.1 ha.1 hd.1
    obtain ⟨rs, hr⟩ := ihr hf.2 ha.2 hd.2
    simp only [graphsOf, hl, hr, bind, Except.bind, pure, Except.pure]
    split
    · exact ⟨_, rfl⟩
    · split <;> exact ⟨_, rfl⟩
  | mul l r ihl ihr =>
    intro hf ha hd
    simp only [hasFormats, arityOk, Bool.and_eq_true] at hf ha
    simp only [hasDiagonal, Bool.or_eq_false_iff] at hd
    obtain ⟨ls, hl⟩ := ihl hf.1 ha.1 hd.1
    obtain ⟨rs, hr⟩ := ihr hf.2 ha.2 hd.2
    simp only [graphsOf, hl, hr, bind, Except.bind, pure, Except.pure]
    split <;> exact ⟨_, rfl⟩
  | contract i e ih =>
    intro hf ha hd
    simp only [graphsOf]
    exact ih hf ha hd

theorem toIterationGraphs_diagonal_only_if' (a : Alg.DAssign) (formats : Formats)
    (hv : ValidFormats formats = true)
    (ha : arityOkAt formats a.tname a.tidx = true ∧ arityOk formats a.rhs = true)
    (h : toIterationGraphs a formats = .error .diagonal) :
    hasDup a.tidx = true ∨ hasDiagonal a.rhs = true := by
  unfold toIterationGraphs at h
  split at h
  · cases h
  · simp only [bind, Except.bind, pure, Except.pure] at h
    split at h
    · rename_i err ht
      injection h with h; subst h
      exact .inl (graphsOf_diagonal_only_if' formats hv (.tensor 0 a.tname a.tidx) ha.1 ht)
    · split at h
      · cases h
      · split at h
        · rename_i err hr
          injection h with h; subst h
          exact .inr (graphsOf_diagonal_only_if' formats hv a.rhs ha.2 hr)
        · cases h

theorem toIterationGraphs_ok_of_no_diagonal' (a : Alg.DAssign) (formats : Formats)
    (hv : ValidFormats formats = true)
    (hf : (formats.find? (·.1 == a.tname)).isSome = true ∧ hasFormats formats a.rhs = true)
    (ha : arityOkAt formats a.tname a.tidx = true ∧ arityOk formats a.rhs = true)
    (hd : hasDup a.tidx = false ∧ hasDiagonal a.rhs = false) :
    ∃ gs, toIterationGraphs a formats = .ok gs := by
  obtain ⟨t, ht⟩ := tensorId_isSome (id := 0) (idx := a.tidx) hf.1
  obtain ⟨ts, hts⟩ := graphsOf_ok_of_no_diagonal' formats hv (.tensor 0 a.tname a.tidx) hf.1 ha.1 hd.1
  obtain ⟨rs, hrs⟩ := graphsOf_ok_of_no_diagonal' formats hv a.rhs hf.2 ha.2 hd.2
  simp only [toIterationGraphs, ht, hts, hrs, bind, Except.bind, pure, Except.pure]
  split <;> exact ⟨_, rfl⟩

end TV.Graph
