import TensoraVerif.Model.IterGraphSpec

/-!
`legal_iteration_orders`: every legal order of a format is a permutation of its levels.
-/
namespace TV.Graph

theorem perms_perm : ∀ (fuel : Nat) (l : List Nat), l.length ≤ fuel → l.Nodup →
    ∀ p ∈ perms fuel l, p.Perm l := by
  intro fuel
  induction fuel with
  | zero =>
    intro l hl _ p hp
    have : l = [] := List.length_eq_zero_iff.mp (Nat.le_zero.mp hl)
    subst this
    simp [perms] at hp
    subst hp; exact .nil
  | succ fuel ih =>
    intro l hl hnd p hp
    cases l with
    | nil =>
      simp [perms] at hp
      subst hp; exact .nil
    | cons a l' =>
      simp only [perms, List.mem_flatMap, List.mem_map] at hp
      obtain ⟨x, hx, p', hp', rfl⟩ := hp
      rw [← List.Nodup.erase_eq_filter hnd x] at hp'
      have hlen : ((a :: l').erase x).length ≤ fuel := by
        rw [List.length_erase_of_mem hx]
        simp only [List.length_cons] at hl ⊢
        omega
      have := ih _ hlen (hnd.erase x) p' hp'
      exact (List.Perm.cons x this).trans (List.perm_cons_erase hx).symm

theorem flatten_dropLast_snoc (acc : List (List Nat)) (i : Nat) :
    (acc.dropLast ++ [acc.getLastD [] ++ [i]]).flatten = acc.flatten ++ [i] := by
  induction acc with
  | nil => simp
  | cons a rest ih =>
    cases rest with
    | nil => simp
    | cons b r =>
      have h1 : (a :: b :: r).dropLast = a :: (b :: r).dropLast := rfl
      have h2 : (a :: b :: r).getLastD [] = (b :: r).getLastD [] := by simp [List.getLastD]
      rw [h1, h2]
      simp only [List.cons_append, List.flatten_cons, ih, List.append_assoc]

theorem reorderableGroups_flatten : ∀ (ms : List Mode) (i : Nat) (restart : Bool) (acc : List (List Nat)),
    (reorderableGroups ms i restart acc).flatten = acc.flatten ++ List.range' i ms.length := by
  intro ms
  induction ms with
  | nil => intro i restart acc; simp [reorderableGroups]
  | cons m ms ih =>
    intro i restart acc
    cases m with
    | dense =>
      simp only [reorderableGroups]
      split
      · rw [ih]; simp [List.range'_succ]
      · rw [ih, flatten_dropLast_snoc]; simp [List.range'_succ]
    | compressed =>
      simp only [reorderableGroups]
      rw [ih]; simp [List.range'_succ]

theorem cartesian_flatten_perm (f : List Nat → List (List Nat)) :
    ∀ (G : List (List Nat)), (∀ g ∈ G, ∀ p ∈ f g, p.Perm g) →
    ∀ c ∈ cartesian (G.map f), c.flatten.Perm G.flatten := by
  intro G
  induction G with
  | nil => intro _ c hc; simp [cartesian] at hc; subst hc; exact .nil
  | cons g G ih =>
    intro h c hc
    simp only [List.map_cons, cartesian, List.mem_flatMap, List.mem_map] at hc
    obtain ⟨x, hx, c', hc', rfl⟩ := hc
    simp only [List.flatten_cons]
    exact (h g (List.mem_cons_self) x hx).append
      (ih (fun g' hg' => h g' (List.mem_cons_of_mem _ hg')) c' hc')

/-- every legal iteration order of a format is a permutation of its levels -/
theorem legalIterationOrders_perm (modes : List Mode) :
    ∀ order ∈ legalIterationOrders modes, order.Perm (List.range modes.length) := by
  intro order ho
  simp only [legalIterationOrders, List.mem_map] at ho
  obtain ⟨c, hc, rfl⟩ := ho
  have hflat : (reorderableGroups modes 0 true []).flatten = List.range modes.length := by
    rw [reorderableGroups_flatten, List.range_eq_range']; simp
  have hnd : (reorderableGroups modes 0 true []).flatten.Nodup := by
    rw [hflat]; exact List.nodup_range
  have hgnd : ∀ g ∈ reorderableGroups modes 0 true [], g.Nodup :=
    fun g hg => (List.pairwise_flatten.mp hnd).1 g hg
  rw [← hflat]
  exact cartesian_flatten_perm (fun g => perms g.length g) _
    (fun g hg p hp => perms_perm _ g (Nat.le_refl _) (hgnd g hg) p hp) c hc

end TV.Graph
