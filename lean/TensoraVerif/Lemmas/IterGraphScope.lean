import TensoraVerif.Lemmas.IterGraphDiagonal

/-!
G2/G3: every candidate graph binds the index variables its terminals use (`WellScoped`) and binds no
index variable twice on a path (`NoShadowIn`).
-/
namespace TV.Graph

theorem contains_false_iff {l : List String} {a : String} : l.contains a = false ↔ a ∉ l := by
  rw [← Bool.not_eq_true, List.contains_iff_mem]

/-! ### monotonicity -/

theorem scopedIn_mono (e : IdExpr) {b b' : List String} (hs : ∀ x ∈ b, x ∈ b')
    (h : e.scopedIn b = true) : e.scopedIn b' = true := by
  induction e with
  | int v => rfl
  | flt v => rfl
  | tensor t =>
    simp only [IdExpr.scopedIn, List.all_eq_true, List.contains_iff_mem] at h ⊢
    exact fun x hx => hs x (h x hx)
  | add l r ihl ihr =>
    simp only [IdExpr.scopedIn, Bool.and_eq_true] at h ⊢
    exact ⟨ihl h.1, ihr h.2⟩
  | mul l r ihl ihr =>
    simp only [IdExpr.scopedIn, Bool.and_eq_true] at h ⊢
    exact ⟨ihl h.1, ihr h.2⟩

mutual
theorem wellScoped_mono : ∀ (g : IGraph) (b b' : List String), (∀ x ∈ b, x ∈ b') →
    WellScoped b g = true → WellScoped b' g = true
  | .terminal e, b, b', hs, h => by
    simp only [WellScoped] at h ⊢; exact scopedIn_mono e hs h
  | .iter i o n, b, b', hs, h => by
    simp only [WellScoped] at h ⊢
    refine wellScoped_mono n (i :: b) (i :: b') ?_ h
    intro x hx
    rcases List.mem_cons.mp hx with rfl | hx
    · exact List.mem_cons_self
    · exact List.mem_cons_of_mem _ (hs x hx)
  | .sum ts, b, b', hs, h => by
    simp only [WellScoped] at h ⊢; exact wellScopedL_mono ts b b' hs h
theorem wellScopedL_mono : ∀ (ts : List IGraph) (b b' : List String), (∀ x ∈ b, x ∈ b') →
    WellScopedL b ts = true → WellScopedL b' ts = true
  | [], _, _, _, _ => by simp [WellScopedL]
  | t :: ts, b, b', hs, h => by
    simp only [WellScopedL, Bool.and_eq_true] at h ⊢
    exact ⟨wellScoped_mono t b b' hs h.1, wellScopedL_mono ts b b' hs h.2⟩
end

theorem wellScoped_cons {g : IGraph} {b : List String} (i : String) (h : WellScoped b g = true) :
    WellScoped (i :: b) g = true :=
  wellScoped_mono g b (i :: b) (fun _ hx => List.mem_cons_of_mem _ hx) h

mutual
/-- the set of enclosing loop variables may be changed by variables the graph does not bind -/
theorem noShadowIn_of : ∀ (g : IGraph) (u u' : List String), NoShadowIn u g = true →
    (∀ x ∈ u', x ∈ u ∨ x ∉ g.laterIndexes) → NoShadowIn u' g = true
  | .terminal e, _, _, _, _ => by simp [NoShadowIn]
  | .iter i o n, u, u', h, hs => by
    simp only [NoShadowIn, Bool.and_eq_true, Bool.not_eq_true', contains_false_iff] at h ⊢
    refine ⟨?_, noShadowIn_of n (i :: u) (i :: u') h.2 ?_⟩
    · intro hi
      rcases hs i hi with h1 | h1
      · exact h.1 h1
      · exact h1 (by simp [IGraph.laterIndexes])
    · intro x hx
      rcases List.mem_cons.mp hx with rfl | hx
      · exact .inl List.mem_cons_self
      · rcases hs x hx with h1 | h1
        · exact .inl (List.mem_cons_of_mem _ h1)
        · exact .inr fun h2 => h1 (by simp [IGraph.laterIndexes, h2])
  | .sum ts, u, u', h, hs => by
    simp only [NoShadowIn] at h ⊢
    exact noShadowInL_of ts u u' h (by simpa [IGraph.laterIndexes] using hs)
theorem noShadowInL_of : ∀ (ts : List IGraph) (u u' : List String), NoShadowInL u ts = true →
    (∀ x ∈ u', x ∈ u ∨ x ∉ laterIndexesL ts) → NoShadowInL u' ts = true
  | [], _, _, _, _ => by simp [NoShadowInL]
  | t :: ts, u, u', h, hs => by
    simp only [NoShadowInL, Bool.and_eq_true] at h ⊢
    refine ⟨noShadowIn_of t u u' h.1 ?_, noShadowInL_of ts u u' h.2 ?_⟩
    · intro x hx
      rcases hs x hx with h1 | h1
      · exact .inl h1
      · exact .inr fun h2 => h1 (by simp [laterIndexesL, h2])
    · intro x hx
      rcases hs x hx with h1 | h1
      · exact .inl h1
      · exact .inr fun h2 => h1 (by simp [laterIndexesL, h2])
end

/-! ### the loop chain of one tensor -/

/-- the graph of one tensor for one legal order of its levels -/
def chainOf (idxs : List String) (e : IdExpr) (order : List Nat) : IGraph :=
  order.foldr (fun l g => IGraph.iter (idxs.getD l "") none g) (.terminal e)

theorem wellScoped_chainOf (idxs : List String) (e : IdExpr) : ∀ (order : List Nat) (b : List String),
    e.scopedIn (order.map (fun l => idxs.getD l "") ++ b) = true → WellScoped b (chainOf idxs e order) = true := by
  intro order
  induction order with
  | nil => intro b h; simpa [chainOf, WellScoped] using h
  | cons l rest ih =>
    intro b h
    simp only [chainOf, List.foldr_cons, WellScoped]
    refine ih _ (scopedIn_mono e ?_ h)
    intro x hx
    simp only [List.map_cons, List.cons_append, List.mem_cons, List.mem_append, List.mem_map] at hx ⊢
    rcases hx with h1 | h1 | h1
    · exact .inr (.inl h1)
    · exact .inl h1
    · exact .inr (.inr h1)

theorem noShadowIn_chainOf (idxs : List String) (e : IdExpr) : ∀ (order : List Nat) (u : List String),
    (order.map (fun l => idxs.getD l "") ++ u).Nodup → NoShadowIn u (chainOf idxs e order) = true := by
  intro order
  induction order with
  | nil => intro u _; simp [chainOf, NoShadowIn]
  | cons l rest ih =>
    intro u h
    simp only [chainOf, List.foldr_cons, NoShadowIn, Bool.and_eq_true, Bool.not_eq_true',
      contains_false_iff]
    simp only [List.map_cons, List.cons_append, List.nodup_cons, List.mem_append, not_or] at h
    refine ⟨h.1.2, ih _ ?_⟩
    refine (List.perm_middle.nodup_iff).mpr (List.nodup_cons.mpr ⟨?_, h.2⟩)
    intro hm
    rcases List.mem_append.mp hm with hm | hm
    · exact h.1.1 hm
    · exact h.1.2 hm

/-- the chain of a tensor whose levels are all visited is well scoped and binds nothing twice -/
theorem chainOf_tensor_good (t : TensorId) (order : List Nat)
    (ho : order.Perm (List.range t.indexes.length)) (hd : hasDup t.indexes = false) :
    WellScoped [] (chainOf t.indexes (.tensor t) order) = true ∧
      NoShadowIn [] (chainOf t.indexes (.tensor t) order) = true := by
  have hp : (order.map fun l => t.indexes.getD l "").Perm t.indexes := by
    have := ho.map (fun l => t.indexes.getD l "")
    rwa [map_getD_range] at this
  constructor
  · apply wellScoped_chainOf
    simp only [IdExpr.scopedIn, List.append_nil, List.all_eq_true, List.contains_iff_mem]
    intro x hx
    exact hp.mem_iff.mpr hx
  · apply noShadowIn_chainOf
    simp only [List.append_nil]
    rw [hp.nodup_iff]
    have : ¬ hasDup t.indexes = true := by simp [hd]
    rw [hasDup_iff] at this
    simpa using this

/-! ### merges -/

theorem mergeWith_wellScoped (op : IdExpr → IdExpr → IdExpr)
    (hop : ∀ b x y, x.scopedIn b = true → y.scopedIn b = true → (op x y).scopedIn b = true)
    (fuel : Nat) (l r g : IGraph) (hg : g ∈ mergeWith op fuel l r) :
    ∀ b, WellScoped b l = true → WellScoped b r = true → WellScoped b g = true := by
  refine mergeWith_induction op (fun l r g => ∀ b, WellScoped b l = true → WellScoped b r = true →
    WellScoped b g = true) ?_ ?_ ?_ ?_ ?_ ?_ fuel l r g hg
  · intro a b' b h1 h2
    simp only [WellScoped] at h1 h2 ⊢
    exact hop b _ _ h1 h2
  · intro i o n b' g ih b h1 h2
    simp only [WellScoped] at h1 ⊢
    exact ih _ h1 (wellScoped_cons i h2)
  · intro a j p m g ih b h1 h2
    simp only [WellScoped] at h2 ⊢
    exact ih _ (wellScoped_cons j h1) h2
  · intro i o n p m g ih b h1 h2
    simp only [WellScoped] at h1 h2 ⊢
    exact ih _ h1 h2
  · intro i o n j p m g _ _ ih b h1 h2
    simp only [WellScoped] at h1 ⊢
    exact ih _ h1 (wellScoped_cons i h2)
  · intro i o n j p m g _ _ ih b h1 h2
    simp only [WellScoped] at h2 ⊢
    exact ih _ (wellScoped_cons j h1) h2

theorem noShadowIn_iter {u : List String} {i : String} {o : Option Leaf} {n : IGraph} :
    NoShadowIn u (.iter i o n) = true ↔ i ∉ u ∧ NoShadowIn (i :: u) n = true := by
  simp [NoShadowIn]

/-- a graph under enclosing loops `u` stays shadow-free under one more enclosing loop whose variable
it does not bind -/
theorem noShadowIn_push {u : List String} {g : IGraph} (i : String) (h : NoShadowIn u g = true)
    (hi : i ∉ g.laterIndexes) : NoShadowIn (i :: u) g = true := by
  refine noShadowIn_of g u (i :: u) h ?_
  intro x hx
  rcases List.mem_cons.mp hx with rfl | hx
  · exact .inr hi
  · exact .inl hx

theorem mergeWith_noShadow (op : IdExpr → IdExpr → IdExpr)
    (fuel : Nat) (l r g : IGraph) (hg : g ∈ mergeWith op fuel l r) :
    ∀ u, NoShadowIn u l = true → NoShadowIn u r = true → NoShadowIn u g = true := by
  refine mergeWith_induction op (fun l r g => ∀ u, NoShadowIn u l = true → NoShadowIn u r = true →
    NoShadowIn u g = true) ?_ ?_ ?_ ?_ ?_ ?_ fuel l r g hg
  · intro a b u _ _; simp [NoShadowIn]
  · intro i o n b g ih u h1 h2
    rw [noShadowIn_iter] at h1 ⊢
    exact ⟨h1.1, ih _ h1.2 (by simp [NoShadowIn])⟩
  · intro a j p m g ih u h1 h2
    rw [noShadowIn_iter] at h2 ⊢
    exact ⟨h2.1, ih _ (by simp [NoShadowIn]) h2.2⟩
  · intro i o n p m g ih u h1 h2
    rw [noShadowIn_iter] at h1 h2 ⊢
    exact ⟨h1.1, ih _ h1.2 h2.2⟩
  · intro i o n j p m g hne hi ih u h1 h2
    rw [noShadowIn_iter] at h1 ⊢
    refine ⟨h1.1, ih _ h1.2 (noShadowIn_push i h2 ?_)⟩
    simp only [IGraph.laterIndexes, List.mem_cons, not_or]
    exact ⟨hne, hi⟩
  · intro i o n j p m g hne hj ih u h1 h2
    rw [noShadowIn_iter] at h2 ⊢
    refine ⟨h2.1, ih _ (noShadowIn_push j h1 ?_) h2.2⟩
    simp only [IGraph.laterIndexes, List.mem_cons, not_or]
    exact ⟨fun h => hne h.symm, hj⟩

theorem simplifyAdd_wellScoped (fuel : Nat) (b : List String) (ts : List IGraph)
    (h : ∀ t ∈ ts, WellScoped b t = true) : WellScoped b (simplifyAdd fuel ts) = true := by
  refine simplifyAdd_preserves (fun b g => WellScoped b g = true) (fun b i => i :: b)
    ?_ ?_ ?_ ?_ ?_ fuel b ts h
  · intro c ts h; simp only [WellScoped]; exact (wellScopedL_iff _ _).mpr h
  · intro c ts h; simp only [WellScoped] at h; exact (wellScopedL_iff _ _).mp h
  · intro c a b h1 h2; simp only [WellScoped, IdExpr.scopedIn, Bool.and_eq_true] at *; exact ⟨h1, h2⟩
  · intro c i o n h; simpa [WellScoped] using h
  · intro c i o n n' _ h; simpa [WellScoped] using h

theorem simplifyAdd_noShadow (fuel : Nat) (u : List String) (ts : List IGraph)
    (h : ∀ t ∈ ts, NoShadowIn u t = true) : NoShadowIn u (simplifyAdd fuel ts) = true := by
  refine simplifyAdd_preserves (fun u g => NoShadowIn u g = true) (fun u i => i :: u)
    ?_ ?_ ?_ ?_ ?_ fuel u ts h
  · intro c ts h; simp only [NoShadowIn]; exact (noShadowInL_iff _ _).mpr h
  · intro c ts h; simp only [NoShadowIn] at h; exact (noShadowInL_iff _ _).mp h
  · intro c a b _ _; simp [NoShadowIn]
  · intro c i o n h; exact (noShadowIn_iter.mp h).2
  · intro c i o n n' h1 h2; exact noShadowIn_iter.mpr ⟨(noShadowIn_iter.mp h1).1, h2⟩

theorem mergeAssignment_wellScoped (layers : List (String × Leaf))
    (fuel : Nat) (t e g : IGraph) (hg : g ∈ mergeAssignment layers fuel t e) :
    ∀ b, WellScoped b e = true → WellScoped b g = true := by
  refine mergeAssignment_induction layers (fun _ e g => ∀ b, WellScoped b e = true →
    WellScoped b g = true) ?_ ?_ ?_ ?_ ?_ ?_ fuel t e g hg
  · intro a e b h; exact h
  · intro i o n b' g ih b h
    simp only [WellScoped]
    exact ih _ (wellScoped_cons i h)
  · intro i o n p m g ih b h
    simp only [WellScoped] at h ⊢
    exact ih _ h
  · intro i o n j p m g _ _ ih b h
    simp only [WellScoped]
    exact ih _ (wellScoped_cons i h)
  · intro i o n j p m g _ _ _ ih b h
    simp only [WellScoped] at h ⊢
    exact ih _ h
  · intro i o n terms merged fuel hl hk b h
    simp only [WellScoped] at h
    apply simplifyAdd_wellScoped
    intro t ht
    obtain ⟨k, hk1, rfl⟩ := List.getElem_of_mem ht
    exact hk k hk1 (hl ▸ hk1) b ((wellScopedL_iff _ _).mp h _ (List.getElem_mem _))

theorem mergeAssignment_noShadow (layers : List (String × Leaf))
    (fuel : Nat) (t e g : IGraph) (hg : g ∈ mergeAssignment layers fuel t e) :
    ∀ u, NoShadowIn u t = true → NoShadowIn u e = true → NoShadowIn u g = true := by
  refine mergeAssignment_induction layers (fun t e g => ∀ u, NoShadowIn u t = true →
    NoShadowIn u e = true → NoShadowIn u g = true) ?_ ?_ ?_ ?_ ?_ ?_ fuel t e g hg
  · intro a e u _ h; exact h
  · intro i o n b g ih u h1 h2
    rw [noShadowIn_iter] at h1 ⊢
    exact ⟨h1.1, ih _ h1.2 (by simp [NoShadowIn])⟩
  · intro i o n p m g ih u h1 h2
    rw [noShadowIn_iter] at h1 h2 ⊢
    exact ⟨h1.1, ih _ h1.2 h2.2⟩
  · intro i o n j p m g hne hi ih u h1 h2
    rw [noShadowIn_iter] at h1 ⊢
    refine ⟨h1.1, ih _ h1.2 (noShadowIn_push i h2 ?_)⟩
    simp only [IGraph.laterIndexes, List.mem_cons, not_or]
    exact ⟨hne, hi⟩
  · intro i o n j p m g hne hj _ ih u h1 h2
    rw [noShadowIn_iter] at h2 ⊢
    refine ⟨h2.1, ih _ (noShadowIn_push j h1 ?_) h2.2⟩
    simp only [IGraph.laterIndexes, List.mem_cons, not_or]
    exact ⟨fun h => hne h.symm, hj⟩
  · intro i o n terms merged fuel hl hk u h1 h2
    simp only [NoShadowIn] at h2
    apply simplifyAdd_noShadow
    intro t ht
    obtain ⟨k, hk1, rfl⟩ := List.getElem_of_mem ht
    exact hk k hk1 (hl ▸ hk1) u h1 ((noShadowInL_iff _ _).mp h2 _ (List.getElem_mem _))

/-! ### all candidates -/

/-- both properties together -/
def Good (g : IGraph) : Prop := WellScoped [] g = true ∧ NoShadowIn [] g = true

def sumTerms : IGraph → List IGraph
  | .sum ts => ts
  | g => [g]

theorem sumTerms_good {g : IGraph} (h : Good g) : ∀ t ∈ sumTerms g, Good t := by
  intro t ht
  cases g with
  | sum ts =>
    simp only [sumTerms] at ht
    exact ⟨(wellScopedL_iff _ _).mp (by simpa [WellScoped] using h.1) t ht,
      (noShadowInL_iff _ _).mp (by simpa [NoShadowIn] using h.2) t ht⟩
  | terminal e => simp only [sumTerms, List.mem_singleton] at ht; subst ht; exact h
  | iter i o n => simp only [sumTerms, List.mem_singleton] at ht; subst ht; exact h

theorem tensorId_lengths {formats : Formats} (hv : ValidFormats formats = true) {id : Nat} {name : String}
    {idx : List String} {t : TensorId} (h : tensorId id name formats idx = some t) :
    t.modes.length = t.indexes.length := by
  unfold tensorId at h
  split at h
  · cases h
  · rename_i n modes ordering heq
    have hp := validFormats_find hv heq
    injection h with h
    subst h
    simp [hp.length_eq]

theorem graphsOf_good (formats : Formats) (hv : ValidFormats formats = true) :
    ∀ (e : Alg.DExpr) (gs : List IGraph), graphsOf formats e = .ok gs → ∀ g ∈ gs, Good g := by
  intro e
  induction e with
  | int v =>
    intro gs h g hg
    simp only [graphsOf, Except.ok.injEq] at h; subst h
    simp only [List.mem_singleton] at hg; subst hg
    exact ⟨rfl, rfl⟩
  | flt v =>
    intro gs h g hg
    simp only [graphsOf, Except.ok.injEq] at h; subst h
    simp only [List.mem_singleton] at hg; subst hg
    exact ⟨rfl, rfl⟩
  | tensor id name idx =>
    intro gs h g hg
    simp only [graphsOf] at h
    split at h
    · cases h
    · rename_i t ht
      split at h
      · cases h
      · rename_i hd
        injection h with h; subst h
        obtain ⟨order, ho, rfl⟩ := List.mem_map.mp hg
        have hperm := legalIterationOrders_perm _ order ho
        rw [tensorId_lengths hv ht] at hperm
        exact chainOf_tensor_good t order hperm (by simpa using hd)
  | add l r ihl ihr =>
    intro gs h g hg
    simp only [graphsOf, bind, Except.bind, pure, Except.pure] at h
    split at h
    · cases h
    · rename_i ls hl
      split at h
      · injection h with h; subst h; cases hg
      · split at h
        · cases h
        · rename_i rs hr
          split at h
          · injection h with h; subst h
            obtain ⟨a, ha, hg⟩ := List.mem_flatMap.mp hg
            obtain ⟨b, hb, hg⟩ := List.mem_flatMap.mp hg
            have ga := ihl ls hl a ha
            have gb := ihr rs hr b hb
            exact ⟨mergeWith_wellScoped .add (fun b x y h1 h2 => by simp [IdExpr.scopedIn, h1, h2])
                _ _ _ _ hg [] ga.1 gb.1,
              mergeWith_noShadow .add _ _ _ _ hg [] ga.2 gb.2⟩
          · injection h with h; subst h
            obtain ⟨a, ha, hg⟩ := List.mem_flatMap.mp hg
            obtain ⟨b, hb, rfl⟩ := List.mem_map.mp hg
            have ga := sumTerms_good (ihl ls hl a ha)
            have gb := sumTerms_good (ihr rs hr b hb)
            have hall : ∀ t ∈ sumTerms a ++ sumTerms b, Good t := by
              intro t ht
              rcases List.mem_append.mp ht with ht | ht
              · exact ga t ht
              · exact gb t ht
            exact ⟨simplifyAdd_wellScoped _ _ _ (fun t ht => (hall t ht).1),
              simplifyAdd_noShadow _ _ _ (fun t ht => (hall t ht).2)⟩
  | mul l r ihl ihr =>
    intro gs h g hg
    simp only [graphsOf, bind, Except.bind, pure, Except.pure] at h
    split at h
    · cases h
    · rename_i ls hl
      split at h
      · injection h with h; subst h; cases hg
      · split at h
        · cases h
        · rename_i rs hr
          injection h with h; subst h
          obtain ⟨a, ha, hg⟩ := List.mem_flatMap.mp hg
          obtain ⟨b, hb, hg⟩ := List.mem_flatMap.mp hg
          have ga := ihl ls hl a ha
          have gb := ihr rs hr b hb
          exact ⟨mergeWith_wellScoped .mul (fun b x y h1 h2 => by simp [IdExpr.scopedIn, h1, h2])
              _ _ _ _ hg [] ga.1 gb.1,
            mergeWith_noShadow .mul _ _ _ _ hg [] ga.2 gb.2⟩
  | contract i e ih =>
    intro gs h g hg
    simp only [graphsOf] at h
    exact ih gs h g hg

theorem toIterationGraphs_good (a : Alg.DAssign) (formats : Formats) (hv : ValidFormats formats = true)
    (gs : List IGraph) (h : toIterationGraphs a formats = .ok gs) : ∀ g ∈ gs, Good g := by
  intro g hg
  unfold toIterationGraphs at h
  split at h
  · cases h
  · simp only [bind, Except.bind, pure, Except.pure] at h
    split at h
    · cases h
    · rename_i ts hts
      split at h
      · injection h with h; subst h; cases hg
      · split at h
        · cases h
        · rename_i es hes
          injection h with h; subst h
          obtain ⟨t, ht, hg⟩ := List.mem_flatMap.mp hg
          obtain ⟨e, he, hg⟩ := List.mem_flatMap.mp hg
          have gt := graphsOf_good formats hv _ ts hts t ht
          have ge := graphsOf_good formats hv _ es hes e he
          exact ⟨mergeAssignment_wellScoped _ _ _ _ _ hg [] ge.1,
            mergeAssignment_noShadow _ _ _ _ _ hg [] gt.2 ge.2⟩

end TV.Graph

namespace TV.Graph

mutual
/-- what `NoShadowIn` says about paths: the loop variables on a path are pairwise distinct and
distinct from the enclosing ones -/
theorem noShadowIn_paths : ∀ (g : IGraph) (u : List String), NoShadowIn u g = true →
    ∀ p ∈ g.paths, (p ++ u).Nodup ∨ ¬ u.Nodup
  | .terminal e, u, _, p, hp => by
    simp only [IGraph.paths, List.mem_singleton] at hp
    subst hp
    by_cases h : u.Nodup
    · exact .inl (by simpa using h)
    · exact .inr h
  | .iter i o n, u, h, p, hp => by
    rw [noShadowIn_iter] at h
    simp only [IGraph.paths, List.mem_map] at hp
    obtain ⟨q, hq, rfl⟩ := hp
    rcases noShadowIn_paths n (i :: u) h.2 q hq with h1 | h1
    · exact .inl ((List.perm_middle.nodup_iff).mp h1)
    · by_cases hu : u.Nodup
      · exact absurd (List.nodup_cons.mpr ⟨h.1, hu⟩) h1
      · exact .inr hu
  | .sum ts, u, h, p, hp => by
    simp only [NoShadowIn] at h
    simp only [IGraph.paths] at hp
    exact noShadowInL_paths ts u h p hp
theorem noShadowInL_paths : ∀ (ts : List IGraph) (u : List String), NoShadowInL u ts = true →
    ∀ p ∈ pathsL ts, (p ++ u).Nodup ∨ ¬ u.Nodup
  | [], _, _, p, hp => by simp [pathsL] at hp
  | t :: ts, u, h, p, hp => by
    simp only [NoShadowInL, Bool.and_eq_true] at h
    simp only [pathsL, List.mem_append] at hp
    rcases hp with hp | hp
    · exact noShadowIn_paths t u h.1 p hp
    · exact noShadowInL_paths ts u h.2 p hp
end

end TV.Graph
