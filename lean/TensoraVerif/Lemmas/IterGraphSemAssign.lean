import TensoraVerif.Lemmas.IterGraphSemGraphs

/-!
G4, part 4: `mergeAssignment` keeps the denotation of the expression graph, marks exactly the loops
over target indexes with an output, and so every candidate of `toIterationGraphs` denotes (`denoteG`)
what the right-hand side denotes.
-/
namespace TV.Graph
open TV.Alg

section
variable (leaf : TensorId → List Nat → Rat) (sizes : Sizes) (S : String → Bool)

theorem denoteSL_pointwise (env : Env) : ∀ (xs ys : List IGraph), xs.length = ys.length →
    (∀ k (h1 : k < xs.length) (h2 : k < ys.length),
      denoteS leaf sizes S xs[k] env = denoteS leaf sizes S ys[k] env) →
    denoteSL leaf sizes S xs env = denoteSL leaf sizes S ys env := by
  intro xs
  induction xs with
  | nil =>
    intro ys hl _
    cases ys with
    | nil => rfl
    | cons y ys => simp at hl
  | cons x xs ih =>
    intro ys hl h
    cases ys with
    | nil => simp at hl
    | cons y ys =>
      have h0 := h 0 (by simp) (by simp)
      simp only [List.getElem_cons_zero] at h0
      have ih' := ih ys (by simpa using hl) fun k h1 h2 => by
        have := h (k + 1) (by simpa using h1) (by simpa using h2)
        simpa using this
      simp only [denoteSL]
      rw [h0, ih']

/-- weaving in the loops of the target (none of which sums) does not change the denotation -/
theorem mergeAssignment_sem (layers : List (String × Leaf)) (fuel : Nat) (t e g : IGraph)
    (hg : g ∈ mergeAssignment layers fuel t e) :
    (∀ x ∈ t.laterIndexes, S x = false) → flat e = true →
    flat g = true ∧ ((∃ i o n, t = .iter i o n) → notSum e = true → notSum g = true) ∧
      ∀ env, denoteS leaf sizes S g env = denoteS leaf sizes S e env := by
  refine mergeAssignment_induction layers (fun t e g => (∀ x ∈ t.laterIndexes, S x = false) →
    flat e = true → flat g = true ∧ ((∃ i o n, t = .iter i o n) → notSum e = true → notSum g = true) ∧
      ∀ env, denoteS leaf sizes S g env = denoteS leaf sizes S e env) ?_ ?_ ?_ ?_ ?_ ?_ fuel t e g hg
  · intro a e _ hf
    refine ⟨hf, ?_, fun _ => rfl⟩
    intro h _
    obtain ⟨i, o, n, h⟩ := h
    cases h
  · intro i o n b g ih ht hf
    have hS : S i = false := ht i (by simp [IGraph.laterIndexes])
    obtain ⟨h1, _, h3⟩ := ih (fun x hx => ht x (by simp [IGraph.laterIndexes, hx])) hf
    refine ⟨by simpa [flat] using h1, fun _ _ => rfl, fun env => ?_⟩
    simp only [denoteS, hS]
    simpa [denoteS] using h3 env
  · intro i o n p m g ih ht hf
    have hS : S i = false := ht i (by simp [IGraph.laterIndexes])
    obtain ⟨h1, _, h3⟩ := ih (fun x hx => ht x (by simp [IGraph.laterIndexes, hx]))
      (by simpa [flat] using hf)
    refine ⟨by simpa [flat] using h1, fun _ _ => rfl, fun env => ?_⟩
    simp only [denoteS, hS]
    exact h3 env
  · intro i o n j p m g _ _ ih ht hf
    have hS : S i = false := ht i (by simp [IGraph.laterIndexes])
    obtain ⟨h1, _, h3⟩ := ih (fun x hx => ht x (by simp [IGraph.laterIndexes, hx])) hf
    refine ⟨by simpa [flat] using h1, fun _ _ => rfl, fun env => ?_⟩
    have := h3 env
    simp only [denoteS, hS] at this ⊢
    simpa using this
  · intro i o n j p m g _ _ _ ih ht hf
    obtain ⟨h1, _, h3⟩ := ih ht (by simpa [flat] using hf)
    refine ⟨by simpa [flat] using h1, fun _ _ => rfl, fun env => ?_⟩
    simp only [denoteS]
    split
    · exact sumRange_congr _ _ _ fun v => h3 _
    · exact h3 env
  · intro i o n terms merged fuel hl hk ht hf
    have hterms : ∀ t ∈ terms, TermOk t := (flatTerms_iff terms).mp (by simpa [flat] using hf)
    have hmerged : ∀ t ∈ merged, TermOk t := by
      intro t htm
      obtain ⟨k, hk1, rfl⟩ := List.getElem_of_mem htm
      have hk2 : k < terms.length := hl ▸ hk1
      have hterm := hterms _ (List.getElem_mem hk2)
      obtain ⟨h1, h2, _⟩ := hk k hk1 hk2 ht hterm.2
      exact ⟨h2 ⟨i, o, n, rfl⟩ hterm.1, h1⟩
    refine ⟨simplifyAdd_flat _ _ hmerged, fun _ h => by simp [notSum] at h, fun env => ?_⟩
    rw [simplifyAdd_sem leaf sizes S _ _ hmerged env]
    simp only [denoteS]
    apply denoteSL_pointwise leaf sizes S env merged terms hl
    intro k h1 h2
    exact (hk k h1 h2 ht (hterms _ (List.getElem_mem h2)).2).2.2 env

end

/-! ### which loops carry an output -/

mutual
theorem outputsOk_of_allNone (S : String → Bool) : ∀ (g : IGraph), OutputsOk (fun _ => true) g = true →
    (∀ x ∈ g.laterIndexes, S x = true) → OutputsOk S g = true
  | .terminal e, _, _ => rfl
  | .iter i o n, h, hS => by
    rw [outputsOk_iter] at h ⊢
    refine ⟨?_, outputsOk_of_allNone S n h.2 fun x hx => hS x (by simp [IGraph.laterIndexes, hx])⟩
    rw [h.1, hS i (by simp [IGraph.laterIndexes])]
  | .sum ts, h, hS => by
    simp only [OutputsOk] at h ⊢
    exact outputsOkL_of_allNone S ts h (by simpa [IGraph.laterIndexes] using hS)
theorem outputsOkL_of_allNone (S : String → Bool) : ∀ (ts : List IGraph), OutputsOkL (fun _ => true) ts = true →
    (∀ x ∈ laterIndexesL ts, S x = true) → OutputsOkL S ts = true
  | [], _, _ => rfl
  | t :: ts, h, hS => by
    simp only [OutputsOkL, Bool.and_eq_true] at h ⊢
    exact ⟨outputsOk_of_allNone S t h.1 fun x hx => hS x (by simp [laterIndexesL, hx]),
      outputsOkL_of_allNone S ts h.2 fun x hx => hS x (by simp [laterIndexesL, hx])⟩
end

theorem mergeAssignment_outputsOk (S : String → Bool) (layers : List (String × Leaf)) (fuel : Nat)
    (t e g : IGraph) (hg : g ∈ mergeAssignment layers fuel t e) :
    ∀ (peeled u : List String), NoShadowIn u e = true → (∀ x ∈ peeled, x ∉ e.laterIndexes) →
      (∀ x, S x = false ↔ x ∈ peeled ∨ x ∈ t.laterIndexes) →
      OutputsOk (fun _ => true) e = true →
      (∀ x ∈ t.laterIndexes, (layerOf layers x).isSome = true) → OutputsOk S g = true := by
  refine mergeAssignment_induction layers (fun t e g => ∀ (peeled u : List String),
      NoShadowIn u e = true → (∀ x ∈ peeled, x ∉ e.laterIndexes) →
      (∀ x, S x = false ↔ x ∈ peeled ∨ x ∈ t.laterIndexes) →
      OutputsOk (fun _ => true) e = true →
      (∀ x ∈ t.laterIndexes, (layerOf layers x).isSome = true) → OutputsOk S g = true)
    ?_ ?_ ?_ ?_ ?_ ?_ fuel t e g hg
  · intro a e peeled u _ hp hS hn _
    apply outputsOk_of_allNone S e hn
    intro x hx
    cases hsx : S x
    · rcases (hS x).mp hsx with h | h
      · exact absurd hx (hp x h)
      · simp [IGraph.laterIndexes] at h
    · rfl
  · intro i o n b g ih peeled u hns hp hS hn hl
    rw [outputsOk_iter]
    have hSi : S i = false := (hS i).mpr (.inr (by simp [IGraph.laterIndexes]))
    have hli := hl i (by simp [IGraph.laterIndexes])
    refine ⟨?_, ih (i :: peeled) u hns (by simp [IGraph.laterIndexes]) ?_ hn
      (fun x hx => hl x (by simp [IGraph.laterIndexes, hx]))⟩
    · rw [hSi]; cases hlo : layerOf layers i <;> simp_all
    · intro x
      rw [hS x]
      simp only [IGraph.laterIndexes, List.mem_cons]
      constructor
      · rintro (h | h | h)
        · exact .inl (.inr h)
        · exact .inl (.inl h)
        · exact .inr h
      · rintro ((h | h) | h)
        · exact .inr (.inl h)
        · exact .inl h
        · exact .inr (.inr h)
  · intro i o n p m g ih peeled u hns hp hS hn hl
    rw [outputsOk_iter]
    have hSi : S i = false := (hS i).mpr (.inr (by simp [IGraph.laterIndexes]))
    have hli := hl i (by simp [IGraph.laterIndexes])
    have hfresh := noShadowIn_iter_fresh hns
    refine ⟨?_, ih (i :: peeled) (i :: u) (noShadowIn_iter.mp hns).2 ?_ ?_ (outputsOk_iter.mp hn).2
      (fun x hx => hl x (by simp [IGraph.laterIndexes, hx]))⟩
    · rw [hSi]; cases hlo : layerOf layers i <;> simp_all
    · intro x hx
      rcases List.mem_cons.mp hx with rfl | hx
      · exact hfresh
      · exact fun h => hp x hx (by simp [IGraph.laterIndexes, h])
    · intro x
      rw [hS x]
      simp only [IGraph.laterIndexes, List.mem_cons]
      constructor
      · rintro (h | h | h)
        · exact .inl (.inr h)
        · exact .inl (.inl h)
        · exact .inr h
      · rintro ((h | h) | h)
        · exact .inr (.inl h)
        · exact .inl h
        · exact .inr (.inr h)
  · intro i o n j p m g hne hi ih peeled u hns hp hS hn hl
    rw [outputsOk_iter]
    have hSi : S i = false := (hS i).mpr (.inr (by simp [IGraph.laterIndexes]))
    have hli := hl i (by simp [IGraph.laterIndexes])
    refine ⟨?_, ih (i :: peeled) u hns ?_ ?_ hn
      (fun x hx => hl x (by simp [IGraph.laterIndexes, hx]))⟩
    · rw [hSi]; cases hlo : layerOf layers i <;> simp_all
    · intro x hx
      rcases List.mem_cons.mp hx with rfl | hx
      · simp only [IGraph.laterIndexes, List.mem_cons, not_or]; exact ⟨hne, hi⟩
      · exact hp x hx
    · intro x
      rw [hS x]
      simp only [IGraph.laterIndexes, List.mem_cons]
      constructor
      · rintro (h | h | h)
        · exact .inl (.inr h)
        · exact .inl (.inl h)
        · exact .inr h
      · rintro ((h | h) | h)
        · exact .inr (.inl h)
        · exact .inl h
        · exact .inr (.inr h)
  · intro i o n j p m g hne hj _ ih peeled u hns hp hS hn hl
    rw [outputsOk_iter] at hn ⊢
    have hSj : S j = true := by
      cases hsx : S j
      · rcases (hS j).mp hsx with h | h
        · exact absurd (by simp [IGraph.laterIndexes]) (hp j h)
        · simp only [IGraph.laterIndexes, List.mem_cons] at h
          rcases h with h | h
          · exact absurd h.symm hne
          · exact absurd h hj
      · rfl
    refine ⟨by rw [hn.1, hSj], ih peeled (j :: u) (noShadowIn_iter.mp hns).2 ?_ hS hn.2 hl⟩
    intro x hx h
    exact hp x hx (by simp [IGraph.laterIndexes, h])
  · intro i o n terms merged fuel hl hk peeled u hns hp hS hn hlay
    apply simplifyAdd_outputsOk
    intro t ht
    obtain ⟨k, hk1, rfl⟩ := List.getElem_of_mem ht
    have hk2 : k < terms.length := hl ▸ hk1
    have hmem : terms[k] ∈ terms := List.getElem_mem hk2
    simp only [NoShadowIn] at hns
    simp only [OutputsOk] at hn
    refine hk k hk1 hk2 peeled u ((noShadowInL_iff _ _).mp hns _ hmem) ?_ hS
      ((outputsOkL_iff _ _).mp hn _ hmem) hlay
    intro x hx h
    exact hp x hx (by simp only [IGraph.laterIndexes]; exact (mem_laterIndexesL _ _).mpr ⟨_, hmem, h⟩)

/-! ### the candidates of an assignment -/

theorem layerOf_isSome (out : TensorId) (x : String) (hx : x ∈ out.indexes) :
    (layerOf ((List.range out.indexes.length).map fun l => (out.indexes.getD l "", (⟨out, l⟩ : Leaf))) x).isSome
      = true := by
  obtain ⟨l, hl, rfl⟩ := List.getElem_of_mem hx
  simp only [layerOf, Option.isSome_map, List.find?_isSome]
  refine ⟨(out.indexes.getD l "", ⟨out, l⟩), ?_, ?_⟩
  · exact List.mem_map.mpr ⟨l, List.mem_range.mpr hl, rfl⟩
  · simp [List.getD_eq_getElem?_getD, hl]

/-- G4: every candidate graph of an assignment whose contractions are placed hygienically denotes, at
every environment, what the right-hand side denotes -/
theorem toIterationGraphs_sem' (a : DAssign) (formats : Formats) (inputs : Inputs) (sizes : Sizes)
    (hv : ValidFormats formats = true)
    (ha : arityOkAt formats a.tname a.tidx = true ∧ arityOk formats a.rhs = true)
    (hh : Hygienic a.rhs = true) (hc : closedFor a.tidx a.rhs = true)
    (gs : List IGraph) (h : toIterationGraphs a formats = .ok gs) :
    ∀ g ∈ gs, ∀ env, denoteG (leafOf formats inputs) sizes g env = denoteD inputs sizes a.rhs env := by
  intro g hg env
  unfold toIterationGraphs at h
  split at h
  · cases h
  · rename_i out hout
    simp only [bind, Except.bind, pure, Except.pure] at h
    split at h
    · cases h
    · rename_i ts hts
      split at h
      · injection h with h; subst h; cases hg
      · split at h
        · cases h
        · rename_i es hes
          injection h with h; subst h
          obtain ⟨t, ht, hg⟩ := List.mem_flatMap.mp hg
          obtain ⟨e, he, hg⟩ := List.mem_flatMap.mp hg
          -- the target chain
          have hspec := tensorId_spec hv ha.1 hout
          have htl : ∀ x, x ∈ t.laterIndexes ↔ x ∈ out.indexes := by
            simp only [graphsOf, hout] at hts
            split at hts
            · cases hts
            · injection hts with hts; subst hts
              obtain ⟨order, ho, rfl⟩ := List.mem_map.mp ht
              have hperm := legalIterationOrders_perm _ order ho
              rw [tensorId_lengths hv hout] at hperm
              have hp : (order.map fun l => out.indexes.getD l "").Perm out.indexes := by
                have := hperm.map (fun l => out.indexes.getD l "")
                rwa [map_getD_range] at this
              intro x
              have := laterIndexes_chainOf out.indexes (.tensor out) order
              simp only [chainOf] at this
              rw [this]
              exact hp.mem_iff
          have se := graphsOf_static formats hv a.rhs es hes ha.2 e he
          have ge := graphsOf_good formats hv a.rhs es hes e he
          let S : String → Bool := fun x => !a.tidx.contains x
          have hSt : ∀ x, S x = false ↔ x ∈ t.laterIndexes := by
            intro x
            simp only [S, Bool.not_eq_false', List.contains_iff_mem]
            rw [htl x]
            exact hspec.1.mem_iff.symm
          -- outputs
          have hout_ok : OutputsOk S g = true :=
            mergeAssignment_outputsOk S _ _ t e g hg [] [] ge.2 (by simp)
              (fun x => by rw [hSt x]; simp) se.none
              (fun x hx => layerOf_isSome out x ((htl x).mp hx))
          rw [denoteG_eq_denoteS _ _ S g env hout_ok]
          -- the merge
          rw [(mergeAssignment_sem (leafOf formats inputs) sizes S _ _ t e g hg
            (fun x hx => (hSt x).mpr hx) se.flat).2.2 env]
          -- S agrees with the contracted names on the loops of e
          have hcongr : denoteS (leafOf formats inputs) sizes S e env
              = denoteS (leafOf formats inputs) sizes (inB (boundOf a.rhs)) e env := by
            apply denoteS_congrS
            intro x hx
            have hxi := se.loops x hx
            simp only [closedFor, List.all_eq_true] at hc
            have := hc x hxi
            simp only [S, inB]
            cases h1 : a.tidx.contains x <;> cases h2 : (boundOf a.rhs).contains x
            all_goals (rw [h1, h2] at this; first | rfl | (simp at this))
          rw [hcongr]
          exact graphsOf_sem formats inputs sizes hv a.rhs es hes ha.2 hh e he env

end TV.Graph
