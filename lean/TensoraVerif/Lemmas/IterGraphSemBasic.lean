import TensoraVerif.Lemmas.IterGraphScope
import TensoraVerif.Lemmas.DesugarSum
import TensoraVerif.Model.IterGraphSem

/-!
G4, part 1: a denotation `denoteS` of iteration graphs in which the set `S` of summed loop variables
is a parameter (`denoteG` is the instance where `S` is read off the `output` fields), and how it
depends on the environment and on `S`.
-/
namespace TV.Graph
open TV.Alg

def IdExpr.indexes : IdExpr → List String
  | .int _ => []
  | .flt _ => []
  | .tensor t => t.indexes
  | .add l r => l.indexes ++ r.indexes
  | .mul l r => l.indexes ++ r.indexes

mutual
/-- index variables read by the terminals -/
def mentions : IGraph → List String
  | .terminal e => e.indexes
  | .iter _ _ n => mentions n
  | .sum ts => mentionsL ts
def mentionsL : List IGraph → List String
  | [] => []
  | t :: ts => mentions t ++ mentionsL ts
end

mutual
/-- loops over the variables in `S` sum, the other loop variables are bound by the environment -/
def denoteS (leaf : TensorId → List Nat → Rat) (sizes : Sizes) (S : String → Bool) : IGraph → Env → Rat
  | .terminal e, env => valueAt leaf env e
  | .iter i _ n, env =>
    if S i then sumRange (sizes i) fun v => denoteS leaf sizes S n (env.set i v)
    else denoteS leaf sizes S n env
  | .sum ts, env => denoteSL leaf sizes S ts env
def denoteSL (leaf : TensorId → List Nat → Rat) (sizes : Sizes) (S : String → Bool) : List IGraph → Env → Rat
  | [], _ => 0
  | t :: ts, env => denoteS leaf sizes S t env + denoteSL leaf sizes S ts env
end

mutual
/-- the `output` field of a loop is `none` exactly for the variables in `S` -/
def OutputsOk (S : String → Bool) : IGraph → Bool
  | .terminal _ => true
  | .iter i o n => (o.isNone == S i) && OutputsOk S n
  | .sum ts => OutputsOkL S ts
def OutputsOkL (S : String → Bool) : List IGraph → Bool
  | [] => true
  | t :: ts => OutputsOk S t && OutputsOkL S ts
end

section
variable (leaf : TensorId → List Nat → Rat) (sizes : Sizes)

theorem outputsOkL_iff (S : String → Bool) (ts : List IGraph) :
    OutputsOkL S ts = true ↔ ∀ t ∈ ts, OutputsOk S t = true := by
  induction ts with
  | nil => simp [OutputsOkL]
  | cons t ts ih => simp [OutputsOkL, ih]

theorem mem_mentionsL (x : String) (ts : List IGraph) :
    x ∈ mentionsL ts ↔ ∃ t ∈ ts, x ∈ mentions t := by
  induction ts with
  | nil => simp [mentionsL]
  | cons t ts ih => simp [mentionsL, ih]

theorem denoteSL_eq_lsum (S : String → Bool) (ts : List IGraph) (env : Env) :
    denoteSL leaf sizes S ts env = lsum ts (fun t => denoteS leaf sizes S t env) := by
  induction ts with
  | nil => rfl
  | cons t ts ih => rw [denoteSL, lsum_cons, ih]

theorem denoteSL_append (S : String → Bool) (xs ys : List IGraph) (env : Env) :
    denoteSL leaf sizes S (xs ++ ys) env = denoteSL leaf sizes S xs env + denoteSL leaf sizes S ys env := by
  simp only [denoteSL_eq_lsum, lsum_append]

mutual
theorem denoteG_eq_denoteS (S : String → Bool) : ∀ (g : IGraph) (env : Env), OutputsOk S g = true →
    denoteG leaf sizes g env = denoteS leaf sizes S g env
  | .terminal e, env, _ => by simp [denoteG, denoteS]
  | .iter i o n, env, h => by
    simp only [OutputsOk, Bool.and_eq_true, beq_iff_eq] at h
    cases o with
    | none =>
      have hS : S i = true := by simpa using h.1.symm
      simp only [denoteG, denoteS, hS, if_true]
      exact sumRange_congr _ _ _ fun v => denoteG_eq_denoteS S n _ h.2
    | some l =>
      have hS : S i = false := by simpa using h.1.symm
      simp only [denoteG, denoteS, hS]
      exact denoteG_eq_denoteS S n _ h.2
  | .sum ts, env, h => by
    simp only [OutputsOk] at h
    simp only [denoteG, denoteS]
    exact denoteGL_eq_denoteSL S ts env h
theorem denoteGL_eq_denoteSL (S : String → Bool) : ∀ (ts : List IGraph) (env : Env), OutputsOkL S ts = true →
    denoteGL leaf sizes ts env = denoteSL leaf sizes S ts env
  | [], _, _ => by simp [denoteGL, denoteSL]
  | t :: ts, env, h => by
    simp only [OutputsOkL, Bool.and_eq_true] at h
    simp only [denoteGL, denoteSL]
    rw [denoteG_eq_denoteS S t env h.1, denoteGL_eq_denoteSL S ts env h.2]
end

theorem valueAt_congr (e : IdExpr) {env env' : Env} (h : EnvAgree e.indexes env env') :
    valueAt leaf env e = valueAt leaf env' e := by
  induction e with
  | int v => rfl
  | flt v => rfl
  | tensor t =>
    simp only [valueAt]
    congr 1
    apply List.map_congr_left
    intro x hx
    exact h x hx
  | add l r ihl ihr =>
    simp only [valueAt]
    rw [ihl fun x hx => h x (by simp [IdExpr.indexes, hx]),
      ihr fun x hx => h x (by simp [IdExpr.indexes, hx])]
  | mul l r ihl ihr =>
    simp only [valueAt]
    rw [ihl fun x hx => h x (by simp [IdExpr.indexes, hx]),
      ihr fun x hx => h x (by simp [IdExpr.indexes, hx])]

mutual
/-- a graph looks at the environment only through the variables its terminals mention -/
theorem denoteS_congr (S : String → Bool) : ∀ (g : IGraph) (env env' : Env), EnvAgree (mentions g) env env' →
    denoteS leaf sizes S g env = denoteS leaf sizes S g env'
  | .terminal e, env, env', h => by
    simp only [denoteS]; exact valueAt_congr leaf e h
  | .iter i o n, env, env', h => by
    simp only [denoteS]
    simp only [mentions] at h
    split
    · exact sumRange_congr _ _ _ fun v => denoteS_congr S n _ _ (h.set i v)
    · exact denoteS_congr S n _ _ h
  | .sum ts, env, env', h => by
    simp only [denoteS]
    exact denoteSL_congr S ts env env' h
theorem denoteSL_congr (S : String → Bool) : ∀ (ts : List IGraph) (env env' : Env), EnvAgree (mentionsL ts) env env' →
    denoteSL leaf sizes S ts env = denoteSL leaf sizes S ts env'
  | [], _, _, _ => rfl
  | t :: ts, env, env', h => by
    simp only [denoteSL]
    rw [denoteS_congr S t env env' fun x hx => h x (by simp [mentionsL, hx]),
      denoteSL_congr S ts env env' fun x hx => h x (by simp [mentionsL, hx])]
end

theorem denoteS_ext (S : String → Bool) (g : IGraph) (env env' : Env) (h : ∀ x, env.get x = env'.get x) :
    denoteS leaf sizes S g env = denoteS leaf sizes S g env' :=
  denoteS_congr leaf sizes S g env env' fun x _ => h x

/-- setting a variable that no terminal mentions changes nothing -/
theorem denoteS_set (S : String → Bool) (g : IGraph) (env : Env) (i : String) (v : Nat)
    (hi : i ∉ mentions g) : denoteS leaf sizes S g (env.set i v) = denoteS leaf sizes S g env := by
  apply denoteS_congr
  intro x hx
  rw [Env.get_set, if_neg]
  rintro rfl
  exact hi hx

mutual
/-- only the membership in `S` of the loop variables of the graph matters -/
theorem denoteS_congrS (S S' : String → Bool) : ∀ (g : IGraph) (env : Env),
    (∀ x ∈ g.laterIndexes, S x = S' x) → denoteS leaf sizes S g env = denoteS leaf sizes S' g env
  | .terminal e, env, _ => by simp [denoteS]
  | .iter i o n, env, h => by
    have hi : S i = S' i := h i (by simp [IGraph.laterIndexes])
    have hn : ∀ x ∈ n.laterIndexes, S x = S' x := fun x hx => h x (by simp [IGraph.laterIndexes, hx])
    simp only [denoteS, hi]
    split
    · exact sumRange_congr _ _ _ fun v => denoteS_congrS S S' n _ hn
    · exact denoteS_congrS S S' n _ hn
  | .sum ts, env, h => by
    simp only [denoteS]
    exact denoteSL_congrS S S' ts env (by simpa [IGraph.laterIndexes] using h)
theorem denoteSL_congrS (S S' : String → Bool) : ∀ (ts : List IGraph) (env : Env),
    (∀ x ∈ laterIndexesL ts, S x = S' x) → denoteSL leaf sizes S ts env = denoteSL leaf sizes S' ts env
  | [], _, _ => rfl
  | t :: ts, env, h => by
    simp only [denoteSL]
    rw [denoteS_congrS S S' t env fun x hx => h x (by simp [laterIndexesL, hx]),
      denoteSL_congrS S S' ts env fun x hx => h x (by simp [laterIndexesL, hx])]
end

end

/-! ### loop variables vs. enclosing variables -/

mutual
theorem noShadowIn_disjoint : ∀ (g : IGraph) (u : List String), NoShadowIn u g = true →
    ∀ x ∈ u, x ∉ g.laterIndexes
  | .terminal e, _, _, _, _ => by simp [IGraph.laterIndexes]
  | .iter i o n, u, h, x, hx => by
    rw [noShadowIn_iter] at h
    simp only [IGraph.laterIndexes, List.mem_cons, not_or]
    refine ⟨?_, noShadowIn_disjoint n (i :: u) h.2 x (List.mem_cons_of_mem _ hx)⟩
    rintro rfl
    exact h.1 hx
  | .sum ts, u, h, x, hx => by
    simp only [NoShadowIn] at h
    simp only [IGraph.laterIndexes]
    exact noShadowInL_disjoint ts u h x hx
theorem noShadowInL_disjoint : ∀ (ts : List IGraph) (u : List String), NoShadowInL u ts = true →
    ∀ x ∈ u, x ∉ laterIndexesL ts
  | [], _, _, _, _ => by simp [laterIndexesL]
  | t :: ts, u, h, x, hx => by
    simp only [NoShadowInL, Bool.and_eq_true] at h
    simp only [laterIndexesL, List.mem_append, not_or]
    exact ⟨noShadowIn_disjoint t u h.1 x hx, noShadowInL_disjoint ts u h.2 x hx⟩
end

/-- the variable of a loop is not bound again below it -/
theorem noShadowIn_iter_fresh {u : List String} {i : String} {o : Option Leaf} {n : IGraph}
    (h : NoShadowIn u (.iter i o n) = true) : i ∉ n.laterIndexes :=
  noShadowIn_disjoint n (i :: u) (noShadowIn_iter.mp h).2 i List.mem_cons_self

end TV.Graph
