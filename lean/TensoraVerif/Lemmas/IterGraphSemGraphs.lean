import TensoraVerif.Lemmas.IterGraphSemMerge

/-!
G4, part 3: every candidate graph of a hygienic expression denotes (`denoteS`, summing exactly the
contracted names) what the expression denotes (`denoteD`).
-/
namespace TV.Graph
open TV.Alg

/-! ### static facts preserved by the merges -/

theorem mergeWith_loops (op : IdExpr → IdExpr → IdExpr) (fuel : Nat) (l r g : IGraph)
    (hg : g ∈ mergeWith op fuel l r) :
    ∀ x ∈ g.laterIndexes, x ∈ l.laterIndexes ∨ x ∈ r.laterIndexes := by
  refine mergeWith_induction op (fun l r g => ∀ x ∈ g.laterIndexes, x ∈ l.laterIndexes ∨ x ∈ r.laterIndexes)
    ?_ ?_ ?_ ?_ ?_ ?_ fuel l r g hg
  · intro a b x hx; simp [IGraph.laterIndexes] at hx
  · intro i o n b g ih x hx
    simp only [IGraph.laterIndexes, List.mem_cons] at hx ⊢
    rcases hx with rfl | hx
    · exact .inl (.inl rfl)
    · rcases ih x hx with h | h
      · exact .inl (.inr h)
      · exact .inr h
  · intro a j p m g ih x hx
    simp only [IGraph.laterIndexes, List.mem_cons] at hx ⊢
    rcases hx with rfl | hx
    · exact .inr (.inl rfl)
    · rcases ih x hx with h | h
      · exact .inl h
      · exact .inr (.inr h)
  · intro i o n p m g ih x hx
    simp only [IGraph.laterIndexes, List.mem_cons] at hx ⊢
    rcases hx with rfl | hx
    · exact .inl (.inl rfl)
    · rcases ih x hx with h | h
      · exact .inl (.inr h)
      · exact .inr (.inr h)
  · intro i o n j p m g _ _ ih x hx
    simp only [IGraph.laterIndexes, List.mem_cons] at hx ih ⊢
    rcases hx with rfl | hx
    · exact .inl (.inl rfl)
    · rcases ih x hx with h | h
      · exact .inl (.inr h)
      · exact .inr h
  · intro i o n j p m g _ _ ih x hx
    simp only [IGraph.laterIndexes, List.mem_cons] at hx ih ⊢
    rcases hx with rfl | hx
    · exact .inr (.inl rfl)
    · rcases ih x hx with h | h
      · exact .inl h
      · exact .inr (.inr h)

theorem outputsOk_iter {S : String → Bool} {i : String} {o : Option Leaf} {n : IGraph} :
    OutputsOk S (.iter i o n) = true ↔ o.isNone = S i ∧ OutputsOk S n = true := by
  simp [OutputsOk]

theorem mergeWith_outputsOk (S : String → Bool) (op : IdExpr → IdExpr → IdExpr) (fuel : Nat) (l r g : IGraph)
    (hg : g ∈ mergeWith op fuel l r) :
    OutputsOk S l = true → OutputsOk S r = true → OutputsOk S g = true := by
  refine mergeWith_induction op (fun l r g => OutputsOk S l = true → OutputsOk S r = true →
    OutputsOk S g = true) ?_ ?_ ?_ ?_ ?_ ?_ fuel l r g hg
  · intro a b _ _; rfl
  · intro i o n b g ih h1 h2
    rw [outputsOk_iter] at h1 ⊢; exact ⟨h1.1, ih h1.2 h2⟩
  · intro a j p m g ih h1 h2
    rw [outputsOk_iter] at h2 ⊢; exact ⟨h2.1, ih h1 h2.2⟩
  · intro i o n p m g ih h1 h2
    rw [outputsOk_iter] at h1 h2 ⊢; exact ⟨h1.1, ih h1.2 h2.2⟩
  · intro i o n j p m g _ _ ih h1 h2
    rw [outputsOk_iter] at h1 ⊢; exact ⟨h1.1, ih h1.2 h2⟩
  · intro i o n j p m g _ _ ih h1 h2
    rw [outputsOk_iter] at h2 ⊢; exact ⟨h2.1, ih h1 h2.2⟩

theorem everyPathHas_iter {j i : String} {o : Option Leaf} {n : IGraph} :
    everyPathHas j (.iter i o n) = true ↔ i = j ∨ everyPathHas j n = true := by
  simp [everyPathHas]

theorem mergeWith_everyPathHas (j : String) (op : IdExpr → IdExpr → IdExpr) (fuel : Nat) (l r g : IGraph)
    (hg : g ∈ mergeWith op fuel l r) :
    everyPathHas j l = true ∨ everyPathHas j r = true → everyPathHas j g = true := by
  refine mergeWith_induction op (fun l r g => everyPathHas j l = true ∨ everyPathHas j r = true →
    everyPathHas j g = true) ?_ ?_ ?_ ?_ ?_ ?_ fuel l r g hg
  · intro a b h; simp [everyPathHas] at h
  · intro i o n b g ih h
    rw [everyPathHas_iter] at h ⊢
    rcases h with (h | h) | h
    · exact .inl h
    · exact .inr (ih (.inl h))
    · simp [everyPathHas] at h
  · intro a i o n g ih h
    rw [everyPathHas_iter] at h ⊢
    rcases h with h | (h | h)
    · simp [everyPathHas] at h
    · exact .inl h
    · exact .inr (ih (.inr h))
  · intro i o n p m g ih h
    rw [everyPathHas_iter, everyPathHas_iter] at h
    rw [everyPathHas_iter]
    rcases h with (h | h) | (h | h)
    · exact .inl h
    · exact .inr (ih (.inl h))
    · exact .inl h
    · exact .inr (ih (.inr h))
  · intro i o n k p m g _ _ ih h
    rw [everyPathHas_iter] at h ⊢
    rcases h with (h | h) | h
    · exact .inl h
    · exact .inr (ih (.inl h))
    · exact .inr (ih (.inr h))
  · intro i o n k p m g _ _ ih h
    rw [everyPathHas_iter (i := k)] at h
    rw [everyPathHas_iter]
    rcases h with h | (h | h)
    · exact .inr (ih (.inl h))
    · exact .inl h
    · exact .inr (ih (.inr h))

theorem simplifyAdd_loops (fuel : Nat) (ts : List IGraph) :
    ∀ x ∈ (simplifyAdd fuel ts).laterIndexes, x ∈ laterIndexesL ts := by
  refine simplifyAdd_preserves (C := Unit)
    (fun _ g => ∀ x ∈ g.laterIndexes, x ∈ laterIndexesL ts) (fun c _ => c)
    ?_ ?_ ?_ ?_ ?_ fuel () ts ?_
  · intro _ us h x hx
    simp only [IGraph.laterIndexes] at hx
    obtain ⟨t, ht, hxt⟩ := (mem_laterIndexesL _ _).mp hx
    exact h t ht x hxt
  · intro _ us h t ht x hx
    exact h x (by simp only [IGraph.laterIndexes]; exact (mem_laterIndexesL _ _).mpr ⟨t, ht, hx⟩)
  · intro _ a b _ _ x hx; simp [IGraph.laterIndexes] at hx
  · intro _ i o n h x hx; exact h x (by simp [IGraph.laterIndexes, hx])
  · intro _ i o n n' h1 h2 x hx
    simp only [IGraph.laterIndexes, List.mem_cons] at hx
    rcases hx with rfl | hx
    · exact h1 x (by simp [IGraph.laterIndexes])
    · exact h2 x hx
  · intro t ht x hx; exact (mem_laterIndexesL _ _).mpr ⟨t, ht, hx⟩

theorem simplifyAdd_outputsOk (S : String → Bool) (fuel : Nat) (ts : List IGraph)
    (h : ∀ t ∈ ts, OutputsOk S t = true) : OutputsOk S (simplifyAdd fuel ts) = true := by
  refine simplifyAdd_preserves (C := Unit) (fun _ g => OutputsOk S g = true) (fun c _ => c)
    ?_ ?_ ?_ ?_ ?_ fuel () ts h
  · intro _ us h; simp only [OutputsOk]; exact (outputsOkL_iff S us).mpr h
  · intro _ us h; simp only [OutputsOk] at h; exact (outputsOkL_iff S us).mp h
  · intro _ a b _ _; rfl
  · intro _ i o n h; exact (outputsOk_iter.mp h).2
  · intro _ i o n n' h1 h2; exact outputsOk_iter.mpr ⟨(outputsOk_iter.mp h1).1, h2⟩

theorem simplifyAdd_everyPathHas (j : String) (fuel : Nat) (ts : List IGraph)
    (h : ∀ t ∈ ts, everyPathHas j t = true) : everyPathHas j (simplifyAdd fuel ts) = true := by
  have := simplifyAdd_preserves (C := Bool)
    (fun c g => c = true ∨ everyPathHas j g = true) (fun c i => c || i == j)
    ?_ ?_ ?_ ?_ ?_ fuel false ts (fun t ht => .inr (h t ht))
  · simpa using this
  · intro c us h
    by_cases hc : c = true
    · exact .inl hc
    · refine .inr ?_
      simp only [everyPathHas]
      refine (everyPathHasL_iff j us).mpr fun t ht => ?_
      rcases h t ht with h | h
      · exact absurd h hc
      · exact h
  · intro c us h t ht
    rcases h with h | h
    · exact .inl h
    · simp only [everyPathHas] at h
      exact .inr ((everyPathHasL_iff j us).mp h t ht)
  · intro c a b h _
    rcases h with h | h
    · exact .inl h
    · simp [everyPathHas] at h
  · intro c i o n h
    rcases h with h | h
    · exact .inl (by simp [h])
    · rcases everyPathHas_iter.mp h with h | h
      · exact .inl (by simp [h])
      · exact .inr h
  · intro c i o n n' _ h
    rcases h with h | h
    · simp only [Bool.or_eq_true, beq_iff_eq] at h
      rcases h with h | h
      · exact .inl h
      · exact .inr (everyPathHas_iter.mpr (.inl h))
    · exact .inr (everyPathHas_iter.mpr (.inr h))

/-! ### the loop chain of one tensor -/

theorem laterIndexes_chainOf (idxs : List String) (e : IdExpr) (order : List Nat) :
    (chainOf idxs e order).laterIndexes = order.map (fun l => idxs.getD l "") := by
  induction order with
  | nil => rfl
  | cons l rest ih => simp only [chainOf, List.foldr_cons, IGraph.laterIndexes, List.map_cons] at ih ⊢; rw [ih]

theorem flat_chainOf (idxs : List String) (e : IdExpr) (order : List Nat) :
    flat (chainOf idxs e order) = true := by
  induction order with
  | nil => rfl
  | cons l rest ih => simpa [chainOf, flat] using ih

theorem outputsOk_chainOf (idxs : List String) (e : IdExpr) (order : List Nat) :
    OutputsOk (fun _ => true) (chainOf idxs e order) = true := by
  induction order with
  | nil => rfl
  | cons l rest ih => simpa [chainOf, OutputsOk] using ih

theorem everyPathHas_chainOf (j : String) (idxs : List String) (e : IdExpr) (order : List Nat)
    (h : j ∈ order.map (fun l => idxs.getD l "")) : everyPathHas j (chainOf idxs e order) = true := by
  induction order with
  | nil => simp at h
  | cons l rest ih =>
    simp only [chainOf, List.foldr_cons]
    rw [everyPathHas_iter]
    simp only [List.map_cons, List.mem_cons] at h
    rcases h with h | h
    · exact .inl h.symm
    · exact .inr (ih h)

theorem denoteS_chainOf (leaf : TensorId → List Nat → Rat) (sizes : Sizes) (S : String → Bool)
    (hS : ∀ x, S x = false) (idxs : List String) (e : IdExpr) (order : List Nat) (env : Env) :
    denoteS leaf sizes S (chainOf idxs e order) env = valueAt leaf env e := by
  induction order with
  | nil => rfl
  | cons l rest ih =>
    simp only [chainOf, List.foldr_cons, denoteS, hS]
    exact ih

/-! ### reading a tensor through its format -/

theorem leafOf_tensorId {formats : Formats} (hv : ValidFormats formats = true) (inputs : Inputs)
    {id : Nat} {name : String} {idx : List String} (ha : arityOkAt formats name idx = true)
    {t : TensorId} (h : tensorId id name formats idx = some t) (env : Env) :
    valueAt (leafOf formats inputs) env (.tensor t) = inputs name (idx.map env.get) := by
  unfold tensorId at h
  unfold arityOkAt at ha
  split at h
  · cases h
  · rename_i n modes ordering heq
    rw [heq] at ha
    have hp := validFormats_find hv heq
    simp only at hp ha
    have hlen : modes.length = idx.length := by simpa using ha
    rw [hlen] at hp
    injection h with h
    subst h
    simp only [valueAt, leafOf, orderingOf, heq]
    congr 1
    apply List.ext_getElem
    · simp [hp.length_eq]
    · intro k h1 h2
      have hk : k < idx.length := by simpa using h2
      have hmem : k ∈ ordering := hp.mem_iff.mpr (List.mem_range.mpr hk)
      have hlt : ordering.idxOf k < ordering.length := List.idxOf_lt_length_of_mem hmem
      have hget : ordering[ordering.idxOf k] = k := List.getElem_idxOf hlt
      simp [List.getD_eq_getElem?_getD, hlt, hget, hk]

/-! ### static facts about the candidates of an expression -/

/-- static facts about a candidate graph `g` of the expression `e` -/
structure Static (e : DExpr) (g : IGraph) : Prop where
  loops : ∀ x ∈ g.laterIndexes, x ∈ idxOfD e
  flat : flat g = true
  none : OutputsOk (fun _ => true) g = true
  eph : ∀ j, inEveryPath j e = true → everyPathHas j g = true

theorem sumTerms_laterIndexes (g : IGraph) : laterIndexesL (sumTerms g) = g.laterIndexes := by
  cases g <;> simp [sumTerms, laterIndexesL, IGraph.laterIndexes]

theorem sumTerms_outputsOk {S : String → Bool} {g : IGraph} (h : OutputsOk S g = true) :
    ∀ t ∈ sumTerms g, OutputsOk S t = true := by
  intro t ht
  cases g with
  | sum ts => simp only [sumTerms] at ht; exact (outputsOkL_iff S ts).mp (by simpa [OutputsOk] using h) t ht
  | terminal e => simp only [sumTerms, List.mem_singleton] at ht; subst ht; exact h
  | iter i o n => simp only [sumTerms, List.mem_singleton] at ht; subst ht; exact h

theorem sumTerms_everyPathHas {j : String} {g : IGraph} (h : everyPathHas j g = true) :
    ∀ t ∈ sumTerms g, everyPathHas j t = true := by
  intro t ht
  cases g with
  | sum ts => simp only [sumTerms] at ht; exact (everyPathHasL_iff j ts).mp (by simpa [everyPathHas] using h) t ht
  | terminal e => simp only [sumTerms, List.mem_singleton] at ht; subst ht; exact h
  | iter i o n => simp only [sumTerms, List.mem_singleton] at ht; subst ht; exact h

theorem graphsOf_static (formats : Formats) (hv : ValidFormats formats = true) :
    ∀ (e : DExpr) (gs : List IGraph), graphsOf formats e = .ok gs → arityOk formats e = true →
      ∀ g ∈ gs, Static e g := by
  intro e
  induction e with
  | int v =>
    intro gs h _ g hg
    simp only [graphsOf, Except.ok.injEq] at h; subst h
    simp only [List.mem_singleton] at hg; subst hg
    exact ⟨by simp [IGraph.laterIndexes], rfl, rfl, by simp [inEveryPath]⟩
  | flt v =>
    intro gs h _ g hg
    simp only [graphsOf, Except.ok.injEq] at h; subst h
    simp only [List.mem_singleton] at hg; subst hg
    exact ⟨by simp [IGraph.laterIndexes], rfl, rfl, by simp [inEveryPath]⟩
  | tensor id name idx =>
    intro gs h ha g hg
    simp only [graphsOf] at h
    split at h
    · cases h
    · rename_i t ht
      split at h
      · cases h
      · injection h with h; subst h
        obtain ⟨order, ho, rfl⟩ := List.mem_map.mp hg
        have hperm := legalIterationOrders_perm _ order ho
        rw [tensorId_lengths hv ht] at hperm
        have hp : (order.map fun l => t.indexes.getD l "").Perm t.indexes := by
          have := hperm.map (fun l => t.indexes.getD l "")
          rwa [map_getD_range] at this
        have hpi := (tensorId_spec hv ha ht).1
        show Static _ (chainOf t.indexes (.tensor t) order)
        refine ⟨?_, flat_chainOf _ _ _, outputsOk_chainOf _ _ _, ?_⟩
        · intro x hx
          rw [laterIndexes_chainOf] at hx
          exact hpi.mem_iff.mp (hp.mem_iff.mp hx)
        · intro j hj
          apply everyPathHas_chainOf
          simp only [inEveryPath, List.contains_iff_mem] at hj
          exact hp.mem_iff.mpr (hpi.mem_iff.mpr hj)
  | add l r ihl ihr =>
    intro gs h ha g hg
    simp only [arityOk, Bool.and_eq_true] at ha
    simp only [graphsOf, bind, Except.bind, pure, Except.pure] at h
    split at h
    · cases h
    · rename_i ls hl
      split at h
      · injection h with h; subst h; cases hg
      · split at h
        · cases h
        · rename_i rs hr
          split at h
          · rename_i hcc
            injection h with h; subst h
            obtain ⟨a, ha', hg⟩ := List.mem_flatMap.mp hg
            obtain ⟨b, hb, hg⟩ := List.mem_flatMap.mp hg
            have sa := ihl ls hl ha.1 a ha'
            have sb := ihr rs hr ha.2 b hb
            refine ⟨?_, (mergeWith_termOk _ _ _ _ _ hg).2,
              mergeWith_outputsOk _ _ _ _ _ _ hg sa.none sb.none, ?_⟩
            · intro x hx
              simp only [idxOfD, List.mem_append]
              rcases mergeWith_loops _ _ _ _ _ hg x hx with h | h
              · exact .inl (sa.loops x h)
              · exact .inr (sb.loops x h)
            · intro j hj
              simp only [inEveryPath] at hj
              rw [if_neg (by simpa using hcc)] at hj
              simp only [Bool.or_eq_true] at hj
              apply mergeWith_everyPathHas j _ _ _ _ _ hg
              rcases hj with hj | hj
              · exact .inl (sa.eph j hj)
              · exact .inr (sb.eph j hj)
          · rename_i hcc
            injection h with h; subst h
            obtain ⟨a, ha', hg⟩ := List.mem_flatMap.mp hg
            obtain ⟨b, hb, rfl⟩ := List.mem_map.mp hg
            have sa := ihl ls hl ha.1 a ha'
            have sb := ihr rs hr ha.2 b hb
            have hterms : ∀ t ∈ sumTerms a ++ sumTerms b, TermOk t := by
              intro t ht
              rcases List.mem_append.mp ht with ht | ht
              · exact sumTerms_termOk sa.flat t ht
              · exact sumTerms_termOk sb.flat t ht
            refine ⟨?_, simplifyAdd_flat _ _ hterms, simplifyAdd_outputsOk _ _ _ ?_, ?_⟩
            · intro x hx
              have := simplifyAdd_loops _ _ x hx
              obtain ⟨t, ht, hxt⟩ := (mem_laterIndexesL _ _).mp this
              simp only [idxOfD, List.mem_append]
              rcases List.mem_append.mp ht with ht | ht
              · refine .inl (sa.loops x ?_)
                rw [← sumTerms_laterIndexes]; exact (mem_laterIndexesL _ _).mpr ⟨t, ht, hxt⟩
              · refine .inr (sb.loops x ?_)
                rw [← sumTerms_laterIndexes]; exact (mem_laterIndexesL _ _).mpr ⟨t, ht, hxt⟩
            · intro t ht
              rcases List.mem_append.mp ht with ht | ht
              · exact sumTerms_outputsOk sa.none t ht
              · exact sumTerms_outputsOk sb.none t ht
            · intro j hj
              simp only [inEveryPath] at hj
              have hcc2 : (containsContraction l || containsContraction r) = true := by
                cases hq : (containsContraction l || containsContraction r)
                · simp [hq] at hcc
                · rfl
              rw [if_pos hcc2] at hj
              simp only [Bool.and_eq_true] at hj
              apply simplifyAdd_everyPathHas
              intro t ht
              rcases List.mem_append.mp ht with ht | ht
              · exact sumTerms_everyPathHas (sa.eph j hj.1) t ht
              · exact sumTerms_everyPathHas (sb.eph j hj.2) t ht
  | mul l r ihl ihr =>
    intro gs h ha g hg
    simp only [arityOk, Bool.and_eq_true] at ha
    simp only [graphsOf, bind, Except.bind, pure, Except.pure] at h
    split at h
    · cases h
    · rename_i ls hl
      split at h
      · injection h with h; subst h; cases hg
      · split at h
        · cases h
        · rename_i rs hr
          injection h with h; subst h
          obtain ⟨a, ha', hg⟩ := List.mem_flatMap.mp hg
          obtain ⟨b, hb, hg⟩ := List.mem_flatMap.mp hg
          have sa := ihl ls hl ha.1 a ha'
          have sb := ihr rs hr ha.2 b hb
          refine ⟨?_, (mergeWith_termOk _ _ _ _ _ hg).2,
            mergeWith_outputsOk _ _ _ _ _ _ hg sa.none sb.none, ?_⟩
          · intro x hx
            simp only [idxOfD, List.mem_append]
            rcases mergeWith_loops _ _ _ _ _ hg x hx with h | h
            · exact .inl (sa.loops x h)
            · exact .inr (sb.loops x h)
          · intro j hj
            simp only [inEveryPath, Bool.or_eq_true] at hj
            apply mergeWith_everyPathHas j _ _ _ _ _ hg
            rcases hj with hj | hj
            · exact .inl (sa.eph j hj)
            · exact .inr (sb.eph j hj)
  | contract i e ih =>
    intro gs h ha g hg
    simp only [graphsOf] at h
    simp only [arityOk] at ha
    have s := ih gs h ha g hg
    exact ⟨s.loops, s.flat, s.none, fun j hj => s.eph j (by simpa [inEveryPath] using hj)⟩

/-! ### terminals only mention bound variables -/

theorem scopedIn_indexes (e : IdExpr) (b : List String) (h : e.scopedIn b = true) :
    ∀ x ∈ e.indexes, x ∈ b := by
  induction e with
  | int v => intro x hx; simp [IdExpr.indexes] at hx
  | flt v => intro x hx; simp [IdExpr.indexes] at hx
  | tensor t =>
    intro x hx
    simp only [IdExpr.scopedIn, List.all_eq_true, List.contains_iff_mem] at h
    exact h x hx
  | add l r ihl ihr =>
    intro x hx
    simp only [IdExpr.scopedIn, Bool.and_eq_true] at h
    simp only [IdExpr.indexes, List.mem_append] at hx
    rcases hx with hx | hx
    · exact ihl h.1 x hx
    · exact ihr h.2 x hx
  | mul l r ihl ihr =>
    intro x hx
    simp only [IdExpr.scopedIn, Bool.and_eq_true] at h
    simp only [IdExpr.indexes, List.mem_append] at hx
    rcases hx with hx | hx
    · exact ihl h.1 x hx
    · exact ihr h.2 x hx

mutual
theorem wellScoped_mentions : ∀ (g : IGraph) (b : List String), WellScoped b g = true →
    ∀ x ∈ mentions g, x ∈ b ∨ x ∈ g.laterIndexes
  | .terminal e, b, h, x, hx => by
    simp only [WellScoped] at h
    exact .inl (scopedIn_indexes e b h x hx)
  | .iter i o n, b, h, x, hx => by
    simp only [WellScoped] at h
    simp only [mentions] at hx
    simp only [IGraph.laterIndexes, List.mem_cons]
    rcases wellScoped_mentions n (i :: b) h x hx with h1 | h1
    · rcases List.mem_cons.mp h1 with h2 | h2
      · exact .inr (.inl h2)
      · exact .inl h2
    · exact .inr (.inr h1)
  | .sum ts, b, h, x, hx => by
    simp only [WellScoped] at h
    simp only [mentions] at hx
    simp only [IGraph.laterIndexes]
    exact wellScopedL_mentions ts b h x hx
theorem wellScopedL_mentions : ∀ (ts : List IGraph) (b : List String), WellScopedL b ts = true →
    ∀ x ∈ mentionsL ts, x ∈ b ∨ x ∈ laterIndexesL ts
  | [], _, _, x, hx => by simp [mentionsL] at hx
  | t :: ts, b, h, x, hx => by
    simp only [WellScopedL, Bool.and_eq_true] at h
    simp only [mentionsL, List.mem_append] at hx
    simp only [laterIndexesL, List.mem_append]
    rcases hx with hx | hx
    · rcases wellScoped_mentions t b h.1 x hx with h1 | h1
      · exact .inl h1
      · exact .inr (.inl h1)
    · rcases wellScopedL_mentions ts b h.2 x hx with h1 | h1
      · exact .inl h1
      · exact .inr (.inr h1)
end

theorem good_mentions {g : IGraph} (h : Good g) : ∀ x ∈ mentions g, x ∈ g.laterIndexes := by
  intro x hx
  rcases wellScoped_mentions g [] h.1 x hx with h1 | h1
  · cases h1
  · exact h1

/-! ### names -/

def inB (bs : List String) : String → Bool := fun x => bs.contains x

theorem inB_iff {bs : List String} {x : String} : inB bs x = true ↔ x ∈ bs := List.contains_iff_mem

theorem inB_false_iff {bs : List String} {x : String} : inB bs x = false ↔ x ∉ bs := contains_false_iff

theorem inB_append_left {bl br : List String} {x : String} (h : x ∉ br) :
    inB (bl ++ br) x = inB bl x := by
  rw [Bool.eq_iff_iff, inB_iff, inB_iff, List.mem_append]
  exact ⟨fun h' => h'.resolve_right h, .inl⟩

theorem inB_append_right {bl br : List String} {x : String} (h : x ∉ bl) :
    inB (bl ++ br) x = inB br x := by
  rw [Bool.eq_iff_iff, inB_iff, inB_iff, List.mem_append]
  exact ⟨fun h' => h'.resolve_left h, .inr⟩

theorem inB_cons (j : String) (bs : List String) : inB (j :: bs) = withVar (inB bs) j := by
  funext x
  rw [Bool.eq_iff_iff, inB_iff]
  simp only [withVar, Bool.or_eq_true, beq_iff_eq, inB_iff, List.mem_cons]

theorem boundOf_eq_nil {e : DExpr} (h : containsContraction e = false) : boundOf e = [] := by
  induction e with
  | int v => rfl
  | flt v => rfl
  | tensor id n idx => rfl
  | add l r ihl ihr =>
    simp only [containsContraction, Bool.or_eq_false_iff] at h
    simp [boundOf, ihl h.1, ihr h.2]
  | mul l r ihl ihr =>
    simp only [containsContraction, Bool.or_eq_false_iff] at h
    simp [boundOf, ihl h.1, ihr h.2]
  | contract j e _ => simp [containsContraction] at h

theorem idxOfD_free_or_bound (e : DExpr) : ∀ x ∈ idxOfD e, x ∈ freeOf e ∨ x ∈ boundOf e := by
  induction e with
  | int v => intro x hx; simp [idxOfD] at hx
  | flt v => intro x hx; simp [idxOfD] at hx
  | tensor id n idx => intro x hx; exact .inl hx
  | add l r ihl ihr =>
    intro x hx
    simp only [idxOfD, freeOf, boundOf, List.mem_append] at hx ⊢
    rcases hx with hx | hx
    · rcases ihl x hx with h | h
      · exact .inl (.inl h)
      · exact .inr (.inl h)
    · rcases ihr x hx with h | h
      · exact .inl (.inr h)
      · exact .inr (.inr h)
  | mul l r ihl ihr =>
    intro x hx
    simp only [idxOfD, freeOf, boundOf, List.mem_append] at hx ⊢
    rcases hx with hx | hx
    · rcases ihl x hx with h | h
      · exact .inl (.inl h)
      · exact .inr (.inl h)
    · rcases ihr x hx with h | h
      · exact .inl (.inr h)
      · exact .inr (.inr h)
  | contract j e ih =>
    intro x hx
    simp only [idxOfD] at hx
    simp only [freeOf, boundOf, List.mem_filter, List.mem_cons]
    by_cases hxj : x = j
    · exact .inr (.inl hxj)
    · rcases ih x hx with h | h
      · exact .inl ⟨h, by simpa using hxj⟩
      · exact .inr (.inr h)

theorem disjointL_spec {xs ys : List String} (h : disjointL xs ys = true) :
    ∀ x ∈ xs, x ∉ ys := by
  intro x hx
  simp only [disjointL, List.all_eq_true, Bool.not_eq_true', contains_false_iff] at h
  exact h x hx

theorem denoteSL_sumTerms (leaf : TensorId → List Nat → Rat) (sizes : Sizes) (S : String → Bool)
    (g : IGraph) (env : Env) : denoteSL leaf sizes S (sumTerms g) env = denoteS leaf sizes S g env := by
  cases g with
  | sum ts => simp [sumTerms, denoteS]
  | terminal e => simp [sumTerms, denoteSL, Rat.add_zero]
  | iter i o n => simp [sumTerms, denoteSL, Rat.add_zero]

/-! ### the candidates of a hygienic expression denote the expression -/

theorem graphsOf_sem (formats : Formats) (inputs : Inputs) (sizes : Sizes) (hv : ValidFormats formats = true) :
    ∀ (e : DExpr) (gs : List IGraph), graphsOf formats e = .ok gs → arityOk formats e = true →
      Hygienic e = true → ∀ g ∈ gs, ∀ env,
        denoteS (leafOf formats inputs) sizes (inB (boundOf e)) g env = denoteD inputs sizes e env := by
  intro e
  induction e with
  | int v =>
    intro gs h _ _ g hg env
    simp only [graphsOf, Except.ok.injEq] at h; subst h
    simp only [List.mem_singleton] at hg; subst hg
    simp [denoteS, valueAt, denoteD]
  | flt v =>
    intro gs h _ _ g hg env
    simp only [graphsOf, Except.ok.injEq] at h; subst h
    simp only [List.mem_singleton] at hg; subst hg
    simp [denoteS, valueAt, denoteD]
  | tensor id name idx =>
    intro gs h ha _ g hg env
    simp only [graphsOf] at h
    split at h
    · cases h
    · rename_i t ht
      split at h
      · cases h
      · injection h with h; subst h
        obtain ⟨order, ho, rfl⟩ := List.mem_map.mp hg
        have := denoteS_chainOf (leafOf formats inputs) sizes (inB (boundOf (.tensor id name idx)))
          (fun x => by simp [inB, boundOf]) t.indexes (.tensor t) order env
        simp only [chainOf] at this
        rw [this, leafOf_tensorId hv inputs ha ht]
        rfl
  | add l r ihl ihr =>
    intro gs h ha hh g hg env
    have hstat := graphsOf_static formats hv (.add l r) gs h ha
    have hgood := graphsOf_good formats hv (.add l r) gs h
    simp only [arityOk, Bool.and_eq_true] at ha
    simp only [Hygienic, Bool.and_eq_true] at hh
    obtain ⟨⟨⟨hhl, hhr⟩, hd1⟩, hd2⟩ := hh
    simp only [graphsOf, bind, Except.bind, pure, Except.pure] at h
    split at h
    · cases h
    · rename_i ls hl
      split at h
      · injection h with h; subst h; cases hg
      · split at h
        · cases h
        · rename_i rs hr
          split at h
          · rename_i hcc
            injection h with h; subst h
            obtain ⟨a, ha', hg⟩ := List.mem_flatMap.mp hg
            obtain ⟨b, hb, hg⟩ := List.mem_flatMap.mp hg
            have hcc' : containsContraction l = false ∧ containsContraction r = false := by
              simpa using hcc
            have hbl := boundOf_eq_nil hcc'.1
            have hbr := boundOf_eq_nil hcc'.2
            have hS : inB (boundOf (.add l r)) = inB [] := by simp [boundOf, hbl, hbr]
            have e1 := ihl ls hl ha.1 hhl a ha' env
            have e2 := ihr rs hr ha.2 hhr b hb env
            rw [hbl] at e1
            rw [hbr] at e2
            rw [hS, mergeWith_add_sem _ _ _ _ _ _ _ hg (fun x _ => by simp [inB])
              (fun x _ => by simp [inB]) env, e1, e2]
            rfl
          · injection h with h; subst h
            obtain ⟨a, ha', hg⟩ := List.mem_flatMap.mp hg
            obtain ⟨b, hb, rfl⟩ := List.mem_map.mp hg
            have sa := graphsOf_static formats hv l ls hl ha.1 a ha'
            have sb := graphsOf_static formats hv r rs hr ha.2 b hb
            have hterms : ∀ t ∈ sumTerms a ++ sumTerms b, TermOk t := by
              intro t ht
              rcases List.mem_append.mp ht with ht | ht
              · exact sumTerms_termOk sa.flat t ht
              · exact sumTerms_termOk sb.flat t ht
            have hsem := simplifyAdd_sem (leafOf formats inputs) sizes (inB (boundOf (.add l r)))
              (sizeL (sumTerms a ++ sumTerms b) + 1) _ hterms env
            have e1 := ihl ls hl ha.1 hhl a ha' env
            have e2 := ihr rs hr ha.2 hhr b hb env
            have c1 : denoteS (leafOf formats inputs) sizes (inB (boundOf (.add l r))) a env
                = denoteS (leafOf formats inputs) sizes (inB (boundOf l)) a env := by
              apply denoteS_congrS
              intro x hx
              have hxl := sa.loops x hx
              simp only [boundOf]
              by_cases hbx : x ∈ boundOf l
              · rw [inB_iff.mpr hbx, inB_iff.mpr (List.mem_append_left _ hbx)]
              · have : x ∈ freeOf l := by
                  rcases idxOfD_free_or_bound l x hxl with h | h
                  · exact h
                  · exact absurd h hbx
                have hnr : x ∉ boundOf r := fun h => disjointL_spec hd2 x h this
                exact inB_append_left hnr
            have c2 : denoteS (leafOf formats inputs) sizes (inB (boundOf (.add l r))) b env
                = denoteS (leafOf formats inputs) sizes (inB (boundOf r)) b env := by
              apply denoteS_congrS
              intro x hx
              have hxr := sb.loops x hx
              simp only [boundOf]
              by_cases hbx : x ∈ boundOf r
              · rw [inB_iff.mpr hbx, inB_iff.mpr (List.mem_append_right _ hbx)]
              · have : x ∈ freeOf r := by
                  rcases idxOfD_free_or_bound r x hxr with h | h
                  · exact h
                  · exact absurd h hbx
                have hnl : x ∉ boundOf l := fun h => disjointL_spec hd1 x h this
                exact inB_append_right hnl
            change denoteS _ _ _ (simplifyAdd (sizeL (sumTerms a ++ sumTerms b) + 1)
              (sumTerms a ++ sumTerms b)) env = _
            rw [hsem, denoteSL_append, denoteSL_sumTerms, denoteSL_sumTerms, c1, c2, e1, e2]
            rfl
  | mul l r ihl ihr =>
    intro gs h ha hh g hg env
    simp only [arityOk, Bool.and_eq_true] at ha
    simp only [Hygienic, Bool.and_eq_true] at hh
    obtain ⟨⟨⟨hhl, hhr⟩, hd1⟩, hd2⟩ := hh
    simp only [graphsOf, bind, Except.bind, pure, Except.pure] at h
    split at h
    · cases h
    · rename_i ls hl
      split at h
      · injection h with h; subst h; cases hg
      · split at h
        · cases h
        · rename_i rs hr
          injection h with h; subst h
          obtain ⟨a, ha', hg⟩ := List.mem_flatMap.mp hg
          obtain ⟨b, hb, hg⟩ := List.mem_flatMap.mp hg
          have sa := graphsOf_static formats hv l ls hl ha.1 a ha'
          have sb := graphsOf_static formats hv r rs hr ha.2 b hb
          have ga := graphsOf_good formats hv l ls hl a ha'
          have gb := graphsOf_good formats hv r rs hr b hb
          have e1 := ihl ls hl ha.1 hhl a ha' env
          have e2 := ihr rs hr ha.2 hhr b hb env
          have hcompat : Compat (inB (boundOf (.mul l r))) a b := by
            refine ⟨⟨[], ga.2⟩, ⟨[], gb.2⟩, ?_, ?_, ?_⟩
            · intro x _ hxb hm; exact hxb (good_mentions gb x hm)
            · intro x _ hxa hm; exact hxa (good_mentions ga x hm)
            · intro x hxa hxb
              have h1 : x ∉ boundOf l := fun h => disjointL_spec hd1 x h (sb.loops x hxb)
              have h2 : x ∉ boundOf r := fun h => disjointL_spec hd2 x h (sa.loops x hxa)
              simp only [boundOf]
              rw [inB_append_left h2]
              exact inB_false_iff.mpr h1
          have c1 : denoteS (leafOf formats inputs) sizes (inB (boundOf (.mul l r))) a env
              = denoteS (leafOf formats inputs) sizes (inB (boundOf l)) a env := by
            apply denoteS_congrS
            intro x hx
            have h2 : x ∉ boundOf r := fun h => disjointL_spec hd2 x h (sa.loops x hx)
            simp only [boundOf]
            exact inB_append_left h2
          have c2 : denoteS (leafOf formats inputs) sizes (inB (boundOf (.mul l r))) b env
              = denoteS (leafOf formats inputs) sizes (inB (boundOf r)) b env := by
            apply denoteS_congrS
            intro x hx
            have h1 : x ∉ boundOf l := fun h => disjointL_spec hd1 x h (sb.loops x hx)
            simp only [boundOf]
            exact inB_append_right h1
          rw [mergeWith_mul_sem _ _ _ _ _ _ _ hg hcompat env, c1, c2, e1, e2]
          rfl
  | contract j e ih =>
    intro gs h ha hh g hg env
    simp only [arityOk] at ha
    simp only [Hygienic, Bool.and_eq_true, Bool.not_eq_true', contains_false_iff] at hh
    obtain ⟨⟨hhe, hjb⟩, hjp⟩ := hh
    simp only [graphsOf] at h
    have s := graphsOf_static formats hv e gs h ha g hg
    have gg := graphsOf_good formats hv e gs h g hg
    have hS : inB (boundOf (.contract j e)) = withVar (inB (boundOf e)) j := inB_cons j _
    rw [hS, denoteS_pull (leafOf formats inputs) sizes (inB (boundOf e)) j
      (inB_false_iff.mpr hjb) g [] env (s.eph j hjp) gg.2]
    simp only [denoteD]
    exact sumRange_congr _ _ _ fun v => ih gs h ha hhe g hg _

end TV.Graph
