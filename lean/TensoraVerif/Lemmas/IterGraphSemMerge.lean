import TensoraVerif.Lemmas.IterGraphSemBasic

/-!
G4, part 2: what the merges and `simplifyAdd` do to the denotation `denoteS`, and how a summed loop
variable that every path binds can be pulled to the root.
-/
namespace TV.Graph
open TV.Alg

theorem sumRange_mul_right (n : Nat) (c : Rat) (f : Nat → Rat) :
    sumRange n (fun v => f v * c) = sumRange n f * c := lsum_mul_right _ _ _

section
variable (leaf : TensorId → List Nat → Rat) (sizes : Sizes) (S : String → Bool)

/-! ### products -/

theorem iter_mul_right {i : String} {o : Option Leaf} {n g' r : IGraph}
    (h : ∀ env, denoteS leaf sizes S g' env = denoteS leaf sizes S n env * denoteS leaf sizes S r env)
    (hi : i ∉ mentions r) (env : Env) :
    denoteS leaf sizes S (.iter i o g') env
      = denoteS leaf sizes S (.iter i o n) env * denoteS leaf sizes S r env := by
  simp only [denoteS]
  split
  · rw [← sumRange_mul_right]
    apply sumRange_congr
    intro v
    rw [h, denoteS_set leaf sizes S r env i v hi]
  · exact h env

theorem iter_mul_left {j : String} {p : Option Leaf} {m g' l : IGraph}
    (h : ∀ env, denoteS leaf sizes S g' env = denoteS leaf sizes S l env * denoteS leaf sizes S m env)
    (hj : j ∉ mentions l) (env : Env) :
    denoteS leaf sizes S (.iter j p g') env
      = denoteS leaf sizes S l env * denoteS leaf sizes S (.iter j p m) env := by
  simp only [denoteS]
  split
  · rw [← sumRange_mul_left]
    apply sumRange_congr
    intro v
    rw [h, denoteS_set leaf sizes S l env j v hj]
  · exact h env

end

/-- the side conditions under which the product of two graphs is computed by their merges -/
structure Compat (S : String → Bool) (l r : IGraph) : Prop where
  nsl : ∃ u, NoShadowIn u l = true
  nsr : ∃ u, NoShadowIn u r = true
  h1 : ∀ x ∈ l.laterIndexes, x ∉ r.laterIndexes → x ∉ mentions r
  h2 : ∀ x ∈ r.laterIndexes, x ∉ l.laterIndexes → x ∉ mentions l
  h3 : ∀ x ∈ l.laterIndexes, x ∈ r.laterIndexes → S x = false

theorem Compat.drop_left {S : String → Bool} {i : String} {o : Option Leaf} {n r : IGraph}
    (h : Compat S (.iter i o n) r) (hi : i ∉ r.laterIndexes) : Compat S n r ∧ i ∉ mentions r := by
  obtain ⟨u, hu⟩ := h.nsl
  have hsub : ∀ x ∈ n.laterIndexes, x ∈ (IGraph.iter i o n).laterIndexes :=
    fun x hx => by simp [IGraph.laterIndexes, hx]
  refine ⟨⟨⟨i :: u, (noShadowIn_iter.mp hu).2⟩, h.nsr, ?_, ?_, ?_⟩, ?_⟩
  · intro x hx hxr
    exact h.h1 x (hsub x hx) hxr
  · intro x hx hxn
    by_cases hxl : x ∈ (IGraph.iter i o n).laterIndexes
    · simp only [IGraph.laterIndexes, List.mem_cons] at hxl
      rcases hxl with rfl | hxl
      · exact absurd hx hi
      · exact absurd hxl hxn
    · have := h.h2 x hx hxl
      simpa [mentions] using this
  · intro x hx hxr
    exact h.h3 x (hsub x hx) hxr
  · exact h.h1 i (by simp [IGraph.laterIndexes]) hi

theorem Compat.drop_right {S : String → Bool} {j : String} {p : Option Leaf} {m l : IGraph}
    (h : Compat S l (.iter j p m)) (hj : j ∉ l.laterIndexes) : Compat S l m ∧ j ∉ mentions l := by
  obtain ⟨u, hu⟩ := h.nsr
  have hsub : ∀ x ∈ m.laterIndexes, x ∈ (IGraph.iter j p m).laterIndexes :=
    fun x hx => by simp [IGraph.laterIndexes, hx]
  refine ⟨⟨h.nsl, ⟨j :: u, (noShadowIn_iter.mp hu).2⟩, ?_, ?_, ?_⟩, ?_⟩
  · intro x hx hxm
    by_cases hxr : x ∈ (IGraph.iter j p m).laterIndexes
    · simp only [IGraph.laterIndexes, List.mem_cons] at hxr
      rcases hxr with rfl | hxr
      · exact absurd hx hj
      · exact absurd hxr hxm
    · have := h.h1 x hx hxr
      simpa [mentions] using this
  · intro x hx hxl
    exact h.h2 x (hsub x hx) hxl
  · intro x hx hxm
    exact h.h3 x hx (hsub x hxm)
  · exact h.h2 j (by simp [IGraph.laterIndexes]) hj

theorem Compat.drop_both {S : String → Bool} {i : String} {o p : Option Leaf} {n m : IGraph}
    (h : Compat S (.iter i o n) (.iter i p m)) : Compat S n m ∧ S i = false := by
  obtain ⟨u, hu⟩ := h.nsl
  obtain ⟨w, hw⟩ := h.nsr
  have hin : i ∉ n.laterIndexes := noShadowIn_iter_fresh hu
  have him : i ∉ m.laterIndexes := noShadowIn_iter_fresh hw
  refine ⟨⟨⟨i :: u, (noShadowIn_iter.mp hu).2⟩, ⟨i :: w, (noShadowIn_iter.mp hw).2⟩, ?_, ?_, ?_⟩, ?_⟩
  · intro x hx hxm
    have hne : x ≠ i := fun hxi => hin (hxi ▸ hx)
    have := h.h1 x (by simp [IGraph.laterIndexes, hx]) (by simp [IGraph.laterIndexes, hne, hxm])
    simpa [mentions] using this
  · intro x hx hxn
    have hne : x ≠ i := fun hxi => him (hxi ▸ hx)
    have := h.h2 x (by simp [IGraph.laterIndexes, hx]) (by simp [IGraph.laterIndexes, hne, hxn])
    simpa [mentions] using this
  · intro x hx hxm
    exact h.h3 x (by simp [IGraph.laterIndexes, hx]) (by simp [IGraph.laterIndexes, hxm])
  · exact h.h3 i (by simp [IGraph.laterIndexes]) (by simp [IGraph.laterIndexes])

section
variable (leaf : TensorId → List Nat → Rat) (sizes : Sizes) (S : String → Bool)

/-- the merges of two compatible graphs denote the product -/
theorem mergeWith_mul_sem (fuel : Nat) (l r g : IGraph) (hg : g ∈ mergeWith .mul fuel l r) :
    Compat S l r → ∀ env, denoteS leaf sizes S g env
      = denoteS leaf sizes S l env * denoteS leaf sizes S r env := by
  refine mergeWith_induction .mul (fun l r g => Compat S l r → ∀ env, denoteS leaf sizes S g env
      = denoteS leaf sizes S l env * denoteS leaf sizes S r env) ?_ ?_ ?_ ?_ ?_ ?_ fuel l r g hg
  · intro a b _ env; simp [denoteS, valueAt]
  · intro i o n b g ih hc env
    obtain ⟨hc', hi⟩ := hc.drop_left (by simp [IGraph.laterIndexes])
    exact iter_mul_right leaf sizes S (ih hc') hi env
  · intro a j p m g ih hc env
    obtain ⟨hc', hj⟩ := hc.drop_right (by simp [IGraph.laterIndexes])
    exact iter_mul_left leaf sizes S (ih hc') hj env
  · intro i o n p m g ih hc env
    obtain ⟨hc', hS⟩ := hc.drop_both
    simp only [denoteS, hS]
    exact ih hc' env
  · intro i o n j p m g hne hi ih hc env
    obtain ⟨hc', hi'⟩ := hc.drop_left (by simp [IGraph.laterIndexes, hne, hi])
    exact iter_mul_right leaf sizes S (ih hc') hi' env
  · intro i o n j p m g hne hj ih hc env
    obtain ⟨hc', hj'⟩ := hc.drop_right (by simp [IGraph.laterIndexes, Ne.symm hne, hj])
    exact iter_mul_left leaf sizes S (ih hc') hj' env

/-! ### sums merged loop by loop (no summed variable) -/

theorem mergeWith_add_sem (fuel : Nat) (l r g : IGraph) (hg : g ∈ mergeWith .add fuel l r) :
    (∀ x ∈ l.laterIndexes, S x = false) → (∀ x ∈ r.laterIndexes, S x = false) →
    ∀ env, denoteS leaf sizes S g env = denoteS leaf sizes S l env + denoteS leaf sizes S r env := by
  refine mergeWith_induction .add (fun l r g => (∀ x ∈ l.laterIndexes, S x = false) →
    (∀ x ∈ r.laterIndexes, S x = false) → ∀ env, denoteS leaf sizes S g env
      = denoteS leaf sizes S l env + denoteS leaf sizes S r env) ?_ ?_ ?_ ?_ ?_ ?_ fuel l r g hg
  · intro a b _ _ env; simp [denoteS, valueAt]
  · intro i o n b g ih hl hr env
    have hS : S i = false := hl i (by simp [IGraph.laterIndexes])
    simp only [denoteS, hS]
    simpa [denoteS] using ih (fun x hx => hl x (by simp [IGraph.laterIndexes, hx])) hr env
  · intro a j p m g ih hl hr env
    have hS : S j = false := hr j (by simp [IGraph.laterIndexes])
    simp only [denoteS, hS]
    simpa [denoteS] using ih hl (fun x hx => hr x (by simp [IGraph.laterIndexes, hx])) env
  · intro i o n p m g ih hl hr env
    have hS : S i = false := hl i (by simp [IGraph.laterIndexes])
    simp only [denoteS, hS]
    simpa [denoteS] using ih (fun x hx => hl x (by simp [IGraph.laterIndexes, hx]))
      (fun x hx => hr x (by simp [IGraph.laterIndexes, hx])) env
  · intro i o n j p m g _ _ ih hl hr env
    have hS : S i = false := hl i (by simp [IGraph.laterIndexes])
    have hSj : S j = false := hr j (by simp [IGraph.laterIndexes])
    have := ih (fun x hx => hl x (by simp [IGraph.laterIndexes, hx])) hr env
    simp only [denoteS, hS, hSj] at this ⊢
    simpa using this
  · intro i o n j p m g _ _ ih hl hr env
    have hS : S i = false := hl i (by simp [IGraph.laterIndexes])
    have hSj : S j = false := hr j (by simp [IGraph.laterIndexes])
    have := ih hl (fun x hx => hr x (by simp [IGraph.laterIndexes, hx])) env
    simp only [denoteS, hS, hSj] at this ⊢
    simpa using this

end

/-! ### flat graphs: no `sum` directly below a `sum` -/

mutual
def flat : IGraph → Bool
  | .terminal _ => true
  | .iter _ _ n => flat n
  | .sum ts => flatTerms ts
def flatTerms : List IGraph → Bool
  | [] => true
  | t :: ts => notSum t && flat t && flatTerms ts
end

/-- fit to be a term of a sum -/
def TermOk (g : IGraph) : Prop := notSum g = true ∧ flat g = true

theorem flatTerms_iff (ts : List IGraph) : flatTerms ts = true ↔ ∀ t ∈ ts, TermOk t := by
  induction ts with
  | nil => simp [flatTerms]
  | cons t ts ih => simp [flatTerms, ih, TermOk]

theorem simplifyAdd_flat (fuel : Nat) (ts : List IGraph) (h : ∀ t ∈ ts, TermOk t) :
    flat (simplifyAdd fuel ts) = true := by
  refine simplifyAdd_preserves2 (C := Unit) (fun _ g => flat g = true) (fun _ g => TermOk g) (fun c _ => c)
    ?_ ?_ ?_ ?_ ?_ ?_ ?_ fuel () ts h
  · intro _ g h; exact h.2
  · intro _ g h1 h2; exact ⟨h1, h2⟩
  · intro _ ts h; simp only [flat]; exact (flatTerms_iff ts).mpr h
  · intro _ ts h; simp only [flat] at h; exact (flatTerms_iff ts).mp h
  · intro _ a b _ _; exact ⟨rfl, rfl⟩
  · intro _ i o n h; simpa [flat] using h.2
  · intro _ i o n n' _ h; exact ⟨rfl, by simpa [flat] using h⟩

theorem mergeWith_termOk (op : IdExpr → IdExpr → IdExpr) (fuel : Nat) (l r g : IGraph)
    (hg : g ∈ mergeWith op fuel l r) : TermOk g := by
  refine mergeWith_induction op (fun _ _ g => TermOk g) ?_ ?_ ?_ ?_ ?_ ?_ fuel l r g hg
  · intro a b; exact ⟨rfl, rfl⟩
  · intro i o n b g ih; exact ⟨rfl, by simpa [flat] using ih.2⟩
  · intro a j p m g ih; exact ⟨rfl, by simpa [flat] using ih.2⟩
  · intro i o n p m g ih; exact ⟨rfl, by simpa [flat] using ih.2⟩
  · intro i o n j p m g _ _ ih; exact ⟨rfl, by simpa [flat] using ih.2⟩
  · intro i o n j p m g _ _ ih; exact ⟨rfl, by simpa [flat] using ih.2⟩

theorem sumTerms_termOk {g : IGraph} (h : flat g = true) : ∀ t ∈ sumTerms g, TermOk t := by
  intro t ht
  cases g with
  | sum ts => simp only [sumTerms] at ht; exact (flatTerms_iff ts).mp (by simpa [flat] using h) t ht
  | terminal e => simp only [sumTerms, List.mem_singleton] at ht; subst ht; exact ⟨rfl, h⟩
  | iter i o n => simp only [sumTerms, List.mem_singleton] at ht; subst ht; exact ⟨rfl, h⟩

/-! ### `simplifyAdd` denotes the sum of its terms -/

section
variable (leaf : TensorId → List Nat → Rat) (sizes : Sizes) (S : String → Bool)

theorem denoteS_finish (c : List IGraph) (env : Env) :
    denoteS leaf sizes S (finish c) env = denoteSL leaf sizes S c env := by
  unfold finish
  split
  · simp [denoteSL, Rat.add_zero]
  · simp [denoteS]

theorem valueAt_foldl_add (env : Env) : ∀ (es : List IdExpr) (e0 : IdExpr),
    valueAt leaf env (es.foldl .add e0) = valueAt leaf env e0 + lsum es (fun e => valueAt leaf env e) := by
  intro es
  induction es with
  | nil => intro e0; simp [Rat.add_zero]
  | cons e es ih =>
    intro e0
    rw [List.foldl_cons, ih, lsum_cons]
    simp only [valueAt]
    rw [Rat.add_assoc]

theorem denoteSL_terminalPart (ts : List IGraph) (env : Env) :
    denoteSL leaf sizes S (terminalPart ts) env = lsum (termsTerminals ts) (fun e => valueAt leaf env e) := by
  unfold terminalPart foldAdd
  split
  · rename_i e he
    split at he
    · cases he
    · rename_i e0 es heq
      injection he with he
      subst he
      rw [heq, lsum_cons]
      simp [denoteSL, denoteS, valueAt_foldl_add, Rat.add_zero]
  · rename_i he
    split at he
    · rename_i heq; rw [heq]; rfl
    · cases he

theorem lsum_ite_eq (I : List String) (j : String) (c : Rat) (hnd : I.Nodup) (hj : j ∈ I) :
    lsum I (fun i => if i = j then c else 0) = c := by
  induction I with
  | nil => cases hj
  | cons a I ih =>
    rw [lsum_cons]
    rw [List.nodup_cons] at hnd
    by_cases ha : a = j
    · subst ha
      have : lsum I (fun i => if i = a then c else 0) = 0 := by
        refine (lsum_congr I _ (fun _ => (0 : Rat)) ?_).trans (lsum_zero I)
        intro x hx
        have : x ≠ a := fun h => hnd.1 (h ▸ hx)
        simp [this]
      simp [this, Rat.add_zero]
    · have hj' : j ∈ I := by
        rcases List.mem_cons.mp hj with h | h
        · exact absurd h.symm ha
        · exact h
      simp [ha, ih hnd.2 hj', Rat.zero_add]

theorem termsGroup_cons_terminal (e : IdExpr) (ts : List IGraph) (i : String) :
    termsGroup (.terminal e :: ts) i = termsGroup ts i := by
  simp [termsGroup]

theorem termsGroup_cons_iter (j : String) (o : Option Leaf) (n : IGraph) (ts : List IGraph) (i : String) :
    termsGroup (.iter j o n :: ts) i = if i = j then .iter j o n :: termsGroup ts i else termsGroup ts i := by
  simp only [termsGroup, List.filter_cons]
  by_cases h : i = j <;> simp [h]

/-- a list of terms splits into its terminals and, for each loop variable, the loops over it -/
theorem lsum_partition (F : IGraph → Rat) : ∀ (ts : List IGraph), (∀ t ∈ ts, notSum t = true) →
    ∀ (I : List String), I.Nodup → (∀ i o n, IGraph.iter i o n ∈ ts → i ∈ I) →
    lsum ts F = lsum (termsTerminals ts) (fun e => F (.terminal e))
      + lsum I (fun i => lsum (termsGroup ts i) F) := by
  intro ts
  induction ts with
  | nil =>
    intro _ I _ _
    simp [termsTerminals, termsGroup, lsum_zero, Rat.add_zero]
  | cons t ts ih =>
    intro hns I hnd hI
    have ih' := ih (fun t ht => hns t (List.mem_cons_of_mem _ ht)) I hnd
      (fun i o n h => hI i o n (List.mem_cons_of_mem _ h))
    cases t with
    | terminal e =>
      have h1 : termsTerminals (IGraph.terminal e :: ts) = e :: termsTerminals ts := by
        simp [termsTerminals]
      have h2 : lsum I (fun i => lsum (termsGroup (IGraph.terminal e :: ts) i) F)
          = lsum I (fun i => lsum (termsGroup ts i) F) :=
        lsum_congr I _ _ fun i _ => by rw [termsGroup_cons_terminal]
      rw [lsum_cons, h1, lsum_cons, h2, ih', Rat.add_assoc]
    | iter j o n =>
      have h1 : termsTerminals (IGraph.iter j o n :: ts) = termsTerminals ts := by
        simp [termsTerminals]
      have hj : j ∈ I := hI j o n List.mem_cons_self
      have h2 : lsum I (fun i => lsum (termsGroup (IGraph.iter j o n :: ts) i) F)
          = F (.iter j o n) + lsum I (fun i => lsum (termsGroup ts i) F) := by
        rw [← lsum_ite_eq I j (F (.iter j o n)) hnd hj, ← lsum_add]
        apply lsum_congr
        intro i _
        rw [termsGroup_cons_iter]
        by_cases h : i = j
        · simp [h, lsum_cons]
        · simp [h, Rat.zero_add]
      rw [lsum_cons, h1, h2, ih']
      generalize lsum (termsTerminals ts) _ = A
      generalize lsum I _ = B
      generalize F _ = C
      rw [← Rat.add_assoc, Rat.add_comm C A, Rat.add_assoc]
    | sum us =>
      have := hns (.sum us) List.mem_cons_self
      simp [notSum] at this

/-- the step of `termsIdxs` -/
def idxStep (acc : List String) (t : IGraph) : List String :=
  match t with
  | .iter i _ _ => if acc.contains i then acc else acc ++ [i]
  | _ => acc

theorem termsIdxs_eq (ts : List IGraph) : termsIdxs ts = ts.foldl idxStep [] := rfl

theorem foldl_idxStep_spec : ∀ (ts : List IGraph) (acc : List String), acc.Nodup →
    (ts.foldl idxStep acc).Nodup ∧ (∀ x ∈ acc, x ∈ ts.foldl idxStep acc) ∧
      (∀ i o n, IGraph.iter i o n ∈ ts → i ∈ ts.foldl idxStep acc) := by
  intro ts
  induction ts with
  | nil => intro acc h; exact ⟨h, fun x hx => hx, by simp⟩
  | cons t ts ih =>
    intro acc hnd
    have hstep : (idxStep acc t).Nodup ∧ (∀ x ∈ acc, x ∈ idxStep acc t) ∧
        (∀ i o n, t = IGraph.iter i o n → i ∈ idxStep acc t) := by
      cases t with
      | terminal e => exact ⟨hnd, fun x hx => hx, by intro i o n h; cases h⟩
      | sum us => exact ⟨hnd, fun x hx => hx, by intro i o n h; cases h⟩
      | iter j p m =>
        simp only [idxStep]
        split
        · rename_i hc
          refine ⟨hnd, fun x hx => hx, ?_⟩
          intro i o n h; injection h with h1; subst h1
          exact List.contains_iff_mem.mp hc
        · rename_i hc
          have hj : j ∉ acc := fun h => hc (List.contains_iff_mem.mpr h)
          refine ⟨?_, fun x hx => List.mem_append_left _ hx, ?_⟩
          · rw [List.nodup_append]
            refine ⟨hnd, by simp, ?_⟩
            intro a ha b hb
            simp only [List.mem_singleton] at hb
            subst hb
            exact fun h => hj (h ▸ ha)
          · intro i o n h; injection h with h1; subst h1
            simp
    obtain ⟨h1, h2, h3⟩ := ih (idxStep acc t) hstep.1
    simp only [List.foldl_cons]
    refine ⟨h1, fun x hx => h2 x (hstep.2.1 x hx), ?_⟩
    intro i o n hmem
    rcases List.mem_cons.mp hmem with h | h
    · exact h2 i (hstep.2.2 i o n h.symm)
    · exact h3 i o n h

theorem lsum_filterMap {α : Type} (f : α → Option IGraph) (I : List α) (env : Env) :
    denoteSL leaf sizes S (I.filterMap f) env
      = lsum I (fun i => match f i with | some g => denoteS leaf sizes S g env | none => 0) := by
  induction I with
  | nil => rfl
  | cons a I ih =>
    rw [List.filterMap_cons, lsum_cons]
    split
    · rename_i h; simp only [h]; rw [ih, Rat.zero_add]
    · rename_i g h; simp only [h]; rw [denoteSL, ih]

/-- the body of a loop -/
def bodyOf : IGraph → IGraph
  | .iter _ _ n => n
  | g => g

theorem denoteSL_unwrapNext (j : String) (o : Option Leaf) (n : IGraph) (env : Env) :
    denoteSL leaf sizes S (unwrapNext (.iter j o n)) env = denoteS leaf sizes S n env := by
  cases n with
  | sum inner => simp [unwrapNext, denoteS]
  | terminal e => simp [unwrapNext, denoteSL, Rat.add_zero]
  | iter k p m => simp [unwrapNext, denoteSL, Rat.add_zero]

theorem groupNode_eq_none (fuel : Nat) (ts : List IGraph) (i : String)
    (h : groupNode fuel ts i = none) : termsGroup ts i = [] := by
  unfold groupNode at h
  split at h
  · cases h
  · rename_i hne
    cases hg : termsGroup ts i with
    | nil => rfl
    | cons t rest =>
      have hmem : t ∈ termsGroup ts i := by rw [hg]; exact List.mem_cons_self
      obtain ⟨_, o, n, rfl⟩ := (mem_termsGroup _ _ _).mp hmem
      exact absurd hg (hne _ _ _ _)

theorem simplifyAdd_sem : ∀ (fuel : Nat) (ts : List IGraph), (∀ t ∈ ts, TermOk t) →
    ∀ env, denoteS leaf sizes S (simplifyAdd fuel ts) env = denoteSL leaf sizes S ts env := by
  intro fuel
  induction fuel with
  | zero => intro ts _ env; simp [simplifyAdd_zero, denoteS]
  | succ fuel ih =>
    intro ts hts env
    rw [simplifyAdd_succ, denoteS_finish, denoteSL_append, denoteSL_terminalPart, lsum_filterMap]
    obtain ⟨hnd, _, hcov⟩ := foldl_idxStep_spec ts [] List.nodup_nil
    rw [denoteSL_eq_lsum, lsum_partition (fun t => denoteS leaf sizes S t env) ts
      (fun t ht => (hts t ht).1) (termsIdxs ts) hnd hcov]
    congr 1
    apply lsum_congr
    intro i _
    -- value of the next terms of the group at any environment
    have hnext : ∀ env', denoteSL leaf sizes S ((termsGroup ts i).flatMap unwrapNext) env'
        = lsum (termsGroup ts i) (fun t => denoteS leaf sizes S (bodyOf t) env') := by
      intro env'
      rw [denoteSL_eq_lsum, lsum_flatMap]
      apply lsum_congr
      intro t ht
      obtain ⟨_, o, n, rfl⟩ := (mem_termsGroup _ _ _).mp ht
      rw [← denoteSL_eq_lsum, denoteSL_unwrapNext]
      rfl
    have hok : ∀ x ∈ (termsGroup ts i).flatMap unwrapNext, TermOk x := by
      intro x hx
      obtain ⟨t, ht, hxt⟩ := List.mem_flatMap.mp hx
      obtain ⟨htts, o', n', rfl⟩ := (mem_termsGroup _ _ _).mp ht
      obtain ⟨j, o'', n'', he, hcase⟩ := mem_unwrapNext _ _ hxt
      injection he with h1 h2 h3
      subst h1 h2 h3
      have hfl : flat n' = true := by simpa [flat] using (hts _ htts).2
      rcases hcase with ⟨inner, rfl, hxin⟩ | ⟨rfl, hnot⟩
      · exact (flatTerms_iff inner).mp (by simpa [flat] using hfl) x hxin
      · exact ⟨hnot, hfl⟩
    cases hgn : groupNode fuel ts i with
    | none =>
      simp only
      rw [groupNode_eq_none fuel ts i hgn]
      rfl
    | some g =>
      simp only
      obtain ⟨o, n, _, rfl⟩ := groupNode_eq_some _ _ _ _ hgn
      simp only [denoteS]
      split
      · rename_i hS
        rw [sumRange_congr _ _ (fun v => lsum (termsGroup ts i)
          (fun t => denoteS leaf sizes S (bodyOf t) (env.set i v)))
          (fun v => by rw [ih _ hok, hnext])]
        rw [sumRange_lsum]
        apply lsum_congr
        intro t ht
        obtain ⟨_, o', n', rfl⟩ := (mem_termsGroup _ _ _).mp ht
        simp only [denoteS, hS, if_true, bodyOf]
      · rename_i hS
        rw [ih _ hok, hnext]
        apply lsum_congr
        intro t ht
        obtain ⟨_, o', n', rfl⟩ := (mem_termsGroup _ _ _).mp ht
        simp only [denoteS, hS, bodyOf]
        rfl

end

/-! ### pulling a summed variable to the root -/

mutual
/-- every root-to-terminal path loops over `j` -/
def everyPathHas (j : String) : IGraph → Bool
  | .terminal _ => false
  | .iter i _ n => i == j || everyPathHas j n
  | .sum ts => everyPathHasL j ts
def everyPathHasL (j : String) : List IGraph → Bool
  | [] => true
  | t :: ts => everyPathHas j t && everyPathHasL j ts
end

theorem everyPathHasL_iff (j : String) (ts : List IGraph) :
    everyPathHasL j ts = true ↔ ∀ t ∈ ts, everyPathHas j t = true := by
  induction ts with
  | nil => simp [everyPathHasL]
  | cons t ts ih => simp [everyPathHasL, ih]

section
variable (leaf : TensorId → List Nat → Rat) (sizes : Sizes)

/-- `S` with `j` added -/
def withVar (S : String → Bool) (j : String) : String → Bool := fun x => x == j || S x

mutual
theorem denoteS_pull (S : String → Bool) (j : String) (hj : S j = false) :
    ∀ (g : IGraph) (u : List String) (env : Env), everyPathHas j g = true → NoShadowIn u g = true →
    denoteS leaf sizes (withVar S j) g env
      = sumRange (sizes j) fun v => denoteS leaf sizes S g (env.set j v)
  | .terminal e, _, _, h, _ => by simp [everyPathHas] at h
  | .iter i o n, u, env, h, hns => by
    by_cases hij : i = j
    · subst hij
      have hfresh := noShadowIn_iter_fresh hns
      have hw : withVar S i i = true := by simp [withVar]
      simp only [denoteS, hw, hj, if_true]
      apply sumRange_congr
      intro v
      apply denoteS_congrS
      intro x hx
      have : x ≠ i := fun h => hfresh (h ▸ hx)
      simp [withVar, this]
    · have hn : everyPathHas j n = true := by
        simp only [everyPathHas, Bool.or_eq_true, beq_iff_eq] at h
        rcases h with h | h
        · exact absurd h hij
        · exact h
      have hns' := (noShadowIn_iter.mp hns).2
      have hw : withVar S j i = S i := by simp [withVar, hij]
      simp only [denoteS, hw]
      split
      · rw [sumRange_congr _ _ _ fun w => denoteS_pull S j hj n (i :: u) _ hn hns', sumRange_comm]
        apply sumRange_congr
        intro v
        apply sumRange_congr
        intro w
        apply denoteS_ext
        intro x
        simp only [Env.get_set]
        by_cases h1 : x = j
        · have h2 : x ≠ i := fun h => hij (h.symm.trans h1)
          simp [h1]
          intro h; exact absurd h.symm hij
        · by_cases h2 : x = i
          · simp [h2]
            intro h; exact absurd h hij
          · simp [h1, h2]
      · exact denoteS_pull S j hj n (i :: u) env hn hns'
  | .sum ts, u, env, h, hns => by
    simp only [everyPathHas] at h
    simp only [NoShadowIn] at hns
    simp only [denoteS]
    exact denoteSL_pull S j hj ts u env h hns
theorem denoteSL_pull (S : String → Bool) (j : String) (hj : S j = false) :
    ∀ (ts : List IGraph) (u : List String) (env : Env), everyPathHasL j ts = true → NoShadowInL u ts = true →
    denoteSL leaf sizes (withVar S j) ts env
      = sumRange (sizes j) fun v => denoteSL leaf sizes S ts (env.set j v)
  | [], _, _, _, _ => by
    simp only [denoteSL]
    exact (lsum_zero _).symm
  | t :: ts, u, env, h, hns => by
    simp only [everyPathHasL, Bool.and_eq_true] at h
    simp only [NoShadowInL, Bool.and_eq_true] at hns
    simp only [denoteSL]
    rw [sumRange_add, denoteS_pull S j hj t u env h.1 hns.1, denoteSL_pull S j hj ts u env h.2 hns.2]
end

end

end TV.Graph
