import TensoraVerif.Lemmas.LoweringCert

/-!
Relating the abstract interpretation `Graph.lowerable` (Model/IterGraph.lean) to the lowering pass
`Gen.lower` (Model/GenerateIR.lean): definitions and structural lemmas.

* `Output.abs` : the abstraction of a concrete output object to an `OutState`;
* `lowerableX`: the *exhaust-stable* strengthening of `lowerable`. `lower` does not recurse on the `next`
  of an iteration node but on the `next` of its exhausted variants, and `IGraph.exhaust` collapses a sum
  with one term to that term (and an empty sum to the terminal `0`): the collapsed node is then reached in
  the state of the sum itself instead of the `bucket` state below a sum. `lowerableX` asks, in addition to
  `lowerable`, that such a degenerate sum is lowerable after the collapse. It coincides with `lowerable`
  on graphs all of whose sums have at least two terms (`properSums`).
* `lowerableX` and `properSums` are preserved by `exhaust`, `size` does not increase;
* every member of `generateSubgraphs g` is an iterated exhaustion of `g` (`generateSubgraphs_closed`).
-/
namespace TV.Gen
open TV.IR TV.Graph

/-! ### success of computations in `Except` -/

def IsOk {ε α : Type} (x : Except ε α) : Prop := ∃ a, x = .ok a

theorem isOk_pure {ε α : Type} (a : α) : IsOk (pure a : Except ε α) := ⟨a, rfl⟩
theorem isOk_ok {ε α : Type} (a : α) : IsOk (.ok a : Except ε α) := ⟨a, rfl⟩

theorem isOk_bind {ε α β : Type} {x : Except ε α} {f : α → Except ε β}
    (hx : IsOk x) (hf : ∀ a, x = .ok a → IsOk (f a)) : IsOk (x >>= f) := by
  obtain ⟨a, ha⟩ := hx
  obtain ⟨b, hb⟩ := hf a ha
  exact ⟨b, by rw [ha]; exact hb⟩

theorem isOk_foldlM {ε α β : Type} (f : β → α → Except ε β) (xs : List α) (b0 : β)
    (hf : ∀ b a, a ∈ xs → IsOk (f b a)) : IsOk (xs.foldlM f b0) := by
  induction xs generalizing b0 with
  | nil => exact ⟨b0, rfl⟩
  | cons x xs ih =>
    rw [List.foldlM_cons]
    exact isOk_bind (hf _ _ (by simp)) (fun b1 _ => ih b1 (fun b a ha => hf b a (by simp [ha])))

theorem not_isOk_error {ε α : Type} (e : ε) : ¬ IsOk (.error e : Except ε α) := by
  rintro ⟨a, h⟩; cases h

/-! ### abstraction of outputs -/

/-- the abstract state of a concrete output object -/
def Output.abs : Output → OutState
  | .append _ n => .append n
  | .bucket _ _ => .bucket

/-- `next_output` succeeds exactly when the abstract `nextOutput` does, and commutes with `abs` -/
theorem next_ok_iff {F : Type} (o : Output) (layer : Option Nat) (k : Kind) (s' : OutState) :
    nextOutput o.tensor.modes o.abs layer = some s' ↔
      ∃ o' d, (o.next layer k : Except GenErr (Output × SB F)) = .ok (o', d) ∧ o'.abs = s' ∧ o'.tensor = o.tensor := by
  cases o with
  | bucket t ls =>
    simp only [nextOutput, Output.abs, Output.next, Output.tensor]
    constructor
    · intro h; cases h; exact ⟨_, _, rfl, rfl, rfl⟩
    · rintro ⟨o', d, h, h1, _⟩; cases h; exact congrArg some h1
  | append t n =>
    simp only [nextOutput, Output.abs, Output.next, Output.tensor]
    cases layer with
    | none =>
      have : ((none : Option Nat) == some n) = false := rfl
      simp only [this]
      by_cases hd : ((List.drop n t.modes).all fun x => x == Mode.dense) = true
      · simp only [hd, if_true, Bool.false_eq_true, if_false]
        constructor
        · intro h; cases h; exact ⟨_, _, rfl, rfl, rfl⟩
        · rintro ⟨o', d, h, h1, _⟩; cases h; exact congrArg some h1
      · simp only [hd, if_false, Bool.false_eq_true]
        constructor
        · intro h; cases h
        · rintro ⟨o', d, h, _⟩; cases h
    | some l =>
      by_cases hl : l = n
      · subst hl
        simp only [BEq.rfl, if_true]
        constructor
        · intro h; cases h; exact ⟨_, _, rfl, rfl, rfl⟩
        · rintro ⟨o', d, h, h1, _⟩; cases h; exact congrArg some h1
      · have h1 : (l == n) = false := by simpa using hl
        have h2 : (some l == some n) = false := by simpa using hl
        simp only [h1, h2, Bool.false_eq_true, if_false]
        by_cases hd : ((List.drop n t.modes).all fun x => x == Mode.dense) = true
        · simp only [hd, if_true]
          constructor
          · intro h; cases h; exact ⟨_, _, rfl, rfl, rfl⟩
          · rintro ⟨o', d, h, h1, _⟩; cases h; exact congrArg some h1
        · simp only [hd, if_false, Bool.false_eq_true]
          constructor
          · intro h; cases h
          · rintro ⟨o', d, h, _⟩; cases h

/-- the error of `next_output` is always `NotImplementedError` -/
theorem next_error {F : Type} (o : Output) (layer : Option Nat) (k : Kind) (e : GenErr)
    (h : (o.next layer k : Except GenErr (Output × SB F)) = .error e) : e = .notImplemented := by
  cases o with
  | bucket t ls => simp [Output.next] at h
  | append t n =>
    simp only [Output.next] at h
    split at h
    · cases h
    · split at h
      · cases h
      · cases h; rfl

/-! ### the exhaust-stable predicate -/

/-- a terminal can be written in state `s` (`write_assignment` does not raise) -/
def termOk (m : List Mode) : OutState → Bool
  | .append n => n == m.length
  | .bucket => true

mutual
/-- `lowerable` for the graph and for every graph obtained by collapsing degenerate sums (which is what
`exhaust` does): a sum with exactly one term must also be lowerable when the term is reached in the state
of the sum, an empty sum when it is replaced by a terminal -/
def lowerableX (m : List Mode) : IGraph → OutState → Bool
  | .terminal _, s => termOk m s
  | .iter _ o n, s =>
    match nextOutput m s (o.map (·.layer)) with
    | some s' => lowerableX m n s'
    | none => false
  | .sum ts, s =>
    (match nextOutput m s none with
     | some s' => lowerableXL m ts s'
     | none => false) && collapseX m ts s
def lowerableXL (m : List Mode) : List IGraph → OutState → Bool
  | [], _ => true
  | t :: ts, s => lowerableX m t s && lowerableXL m ts s
def collapseX (m : List Mode) : List IGraph → OutState → Bool
  | [], s => termOk m s
  | [t], s => lowerableX m t s
  | _ :: _ :: _, _ => true
end

mutual
/-- every sum has at least two terms -/
def properSums : IGraph → Bool
  | .terminal _ => true
  | .iter _ _ n => properSums n
  | .sum ts => decide (2 ≤ ts.length) && properSumsL ts
def properSumsL : List IGraph → Bool
  | [] => true
  | t :: ts => properSums t && properSumsL ts
end

theorem termOk_eq (m : List Mode) (e : IdExpr) (s : OutState) : lowerable m (.terminal e) s = termOk m s := by
  cases s <;> simp [lowerable, termOk]

mutual
theorem lowerableX_imp (m : List Mode) (g : IGraph) (s : OutState) (h : lowerableX m g s = true) :
    lowerable m g s = true := by
  cases g with
  | terminal e => rw [termOk_eq]; simpa [lowerableX] using h
  | iter i o n =>
    simp only [lowerableX] at h
    simp only [lowerable]
    split at h
    · rename_i s' hs'; simp only [hs']; exact lowerableX_imp m n s' h
    · cases h
  | sum ts =>
    simp only [lowerableX, Bool.and_eq_true] at h
    simp only [lowerable]
    obtain ⟨h, _⟩ := h
    split at h
    · rename_i s' hs'; simp only [hs']; exact lowerableXL_imp m ts s' h
    · cases h
theorem lowerableXL_imp (m : List Mode) (ts : List IGraph) (s : OutState) (h : lowerableXL m ts s = true) :
    lowerableL m ts s = true := by
  cases ts with
  | nil => simp [lowerableL]
  | cons t ts =>
    simp only [lowerableXL, Bool.and_eq_true] at h
    simp only [lowerableL, Bool.and_eq_true]
    exact ⟨lowerableX_imp m t s h.1, lowerableXL_imp m ts s h.2⟩
end

mutual
theorem lowerableX_of_proper (m : List Mode) (g : IGraph) (s : OutState) (hp : properSums g = true)
    (h : lowerable m g s = true) : lowerableX m g s = true := by
  cases g with
  | terminal e => rw [termOk_eq] at h; simpa [lowerableX] using h
  | iter i o n =>
    simp only [lowerable] at h
    simp only [lowerableX]
    simp only [properSums] at hp
    split at h
    · rename_i s' hs'; simp only [hs']; exact lowerableX_of_proper m n s' hp h
    · cases h
  | sum ts =>
    simp only [lowerable] at h
    simp only [properSums, Bool.and_eq_true, decide_eq_true_eq] at hp
    simp only [lowerableX, Bool.and_eq_true]
    constructor
    · split at h
      · rename_i s' hs'; simp only [hs']; exact lowerableXL_of_proper m ts s' hp.2 h
      · cases h
    · match ts, hp.1 with
      | _ :: _ :: _, _ => simp [collapseX]
theorem lowerableXL_of_proper (m : List Mode) (ts : List IGraph) (s : OutState) (hp : properSumsL ts = true)
    (h : lowerableL m ts s = true) : lowerableXL m ts s = true := by
  cases ts with
  | nil => simp [lowerableXL]
  | cons t ts =>
    simp only [lowerableL, Bool.and_eq_true] at h
    simp only [properSumsL, Bool.and_eq_true] at hp
    simp only [lowerableXL, Bool.and_eq_true]
    exact ⟨lowerableX_of_proper m t s hp.1 h.1, lowerableXL_of_proper m ts s hp.2 h.2⟩
end

/-- below a bucket nothing can fail -/
theorem lowerableXL_mem (m : List Mode) (ts : List IGraph) (s : OutState) (h : lowerableXL m ts s = true) :
    ∀ t ∈ ts, lowerableX m t s = true := by
  induction ts with
  | nil => simp
  | cons t ts ih =>
    simp only [lowerableXL, Bool.and_eq_true] at h
    intro x hx
    rcases List.mem_cons.1 hx with hx | hx
    · exact hx ▸ h.1
    · exact ih h.2 x hx

/-! ### `exhaust` -/

theorem exhaustL_length (ref : String) (ts : List IGraph) : (exhaustL ref ts).length = ts.length := by
  induction ts with
  | nil => simp [exhaustL]
  | cons t ts ih => simp [exhaustL, ih]

mutual
theorem lowerableX_exhaust (m : List Mode) (ref : String) (g : IGraph) (s : OutState)
    (h : lowerableX m g s = true) : lowerableX m (g.exhaust ref) s = true := by
  cases g with
  | terminal e => simpa [IGraph.exhaust, lowerableX] using h
  | iter i o n =>
    simp only [lowerableX] at h
    simp only [IGraph.exhaust, lowerableX]
    split at h
    · rename_i s' hs'; exact lowerableX_exhaust m ref n s' h
    · cases h
  | sum ts =>
    simp only [lowerableX, Bool.and_eq_true] at h
    obtain ⟨h1, h2⟩ := h
    match ts, h1, h2 with
    | [], _, h2 => simpa [IGraph.exhaust, exhaustL, lowerableX, collapseX] using h2
    | [t], _, h2 =>
      simp only [collapseX] at h2
      simp only [IGraph.exhaust, exhaustL]
      exact lowerableX_exhaust m ref t s h2
    | t1 :: t2 :: r, h1, _ =>
      simp only [IGraph.exhaust, exhaustL, lowerableX, collapseX, Bool.and_true]
      split at h1
      · rename_i s' hs'
        have := lowerableXL_exhaust m ref (t1 :: t2 :: r) s' h1
        simpa only [exhaustL] using this
      · cases h1
theorem lowerableXL_exhaust (m : List Mode) (ref : String) (ts : List IGraph) (s : OutState)
    (h : lowerableXL m ts s = true) : lowerableXL m (exhaustL ref ts) s = true := by
  cases ts with
  | nil => simp [exhaustL, lowerableXL]
  | cons t ts =>
    simp only [lowerableXL, Bool.and_eq_true] at h
    simp only [exhaustL, lowerableXL, Bool.and_eq_true]
    exact ⟨lowerableX_exhaust m ref t s h.1, lowerableXL_exhaust m ref ts s h.2⟩
end

mutual
theorem properSums_exhaust (ref : String) (g : IGraph) (h : properSums g = true) :
    properSums (g.exhaust ref) = true := by
  cases g with
  | terminal e => simp [IGraph.exhaust, properSums]
  | iter i o n =>
    simp only [properSums] at h
    simp only [IGraph.exhaust, properSums]
    exact properSums_exhaust ref n h
  | sum ts =>
    simp only [properSums, Bool.and_eq_true, decide_eq_true_eq] at h
    match ts, h with
    | t1 :: t2 :: r, h =>
      have := properSumsL_exhaust ref (t1 :: t2 :: r) h.2
      simp only [exhaustL] at this
      simp only [IGraph.exhaust, exhaustL, properSums, Bool.and_eq_true, decide_eq_true_eq]
      exact ⟨by simp, this⟩
theorem properSumsL_exhaust (ref : String) (ts : List IGraph) (h : properSumsL ts = true) :
    properSumsL (exhaustL ref ts) = true := by
  cases ts with
  | nil => simp [exhaustL, properSumsL]
  | cons t ts =>
    simp only [properSumsL, Bool.and_eq_true] at h
    simp only [exhaustL, properSumsL, Bool.and_eq_true]
    exact ⟨properSums_exhaust ref t h.1, properSumsL_exhaust ref ts h.2⟩
end

theorem size_pos (g : IGraph) : 1 ≤ g.size := by
  cases g <;> simp [IGraph.size]

mutual
theorem size_exhaust (ref : String) (g : IGraph) : (g.exhaust ref).size ≤ g.size := by
  cases g with
  | terminal e => simp [IGraph.exhaust, IGraph.size]
  | iter i o n =>
    simp only [IGraph.exhaust, IGraph.size]
    have := size_exhaust ref n
    omega
  | sum ts =>
    have hL := sizeL_exhaust ref ts
    match ts, hL with
    | [], _ => simp [IGraph.exhaust, exhaustL, IGraph.size, sizeL]
    | [t], hL =>
      simp only [exhaustL, sizeL] at hL
      simp only [IGraph.exhaust, exhaustL, IGraph.size, sizeL]
      omega
    | t1 :: t2 :: r, hL =>
      simp only [exhaustL] at hL
      simp only [IGraph.exhaust, exhaustL, IGraph.size]
      omega
theorem sizeL_exhaust (ref : String) (ts : List IGraph) : sizeL (exhaustL ref ts) ≤ sizeL ts := by
  cases ts with
  | nil => simp [exhaustL]
  | cons t ts =>
    simp only [exhaustL, sizeL]
    have := size_exhaust ref t
    have := sizeL_exhaust ref ts
    omega
end

theorem size_mem_lt (ts : List IGraph) : ∀ t ∈ ts, t.size ≤ sizeL ts := by
  induction ts with
  | nil => simp
  | cons t ts ih =>
    intro x hx
    simp only [sizeL]
    rcases List.mem_cons.1 hx with hx | hx
    · subst hx; omega
    · have := ih x hx; omega

/-! ### `generateSubgraphs`: every member is an iterated exhaustion -/

theorem dictSet_inv (P : IGraph → Prop) (d : List (List String × IGraph)) (k : List String) (g : IGraph)
    (hd : ∀ e ∈ d, P e.2) (hg : P g) : ∀ e ∈ dictSet d k g, P e.2 := by
  unfold dictSet
  split
  · intro e he
    obtain ⟨e0, he0, rfl⟩ := List.mem_map.1 he
    split
    · exact hg
    · exact hd e0 he0
  · intro e he
    rcases List.mem_append.1 he with he | he
    · exact hd e he
    · rw [List.mem_singleton] at he; subst he; exact hg

theorem generateSubgraphs_go_inv (P : IGraph → Prop) (hP : ∀ g ref, P g → P (g.exhaust ref)) :
    ∀ fuel (all old : List (List String × IGraph)), (∀ e ∈ all, P e.2) → (∀ e ∈ old, P e.2) →
      ∀ e ∈ generateSubgraphs.go fuel all old, P e.2 := by
  intro fuel
  induction fuel with
  | zero => intro all old ha _; simpa [generateSubgraphs.go] using ha
  | succ n ih =>
    intro all old ha ho
    simp only [generateSubgraphs.go]
    have hnew : ∀ e ∈ (old.foldl (fun acc kg =>
        kg.1.reverse.foldl (fun acc2 layer =>
          dictSet acc2 (compressedDims (kg.2.exhaust layer)) (kg.2.exhaust layer)) acc) []), P e.2 := by
      refine foldl_inv (fun acc : List (List String × IGraph) => ∀ e ∈ acc, P e.2) _ old [] (by simp) ?_
      intro acc kg hkg hacc
      refine foldl_inv (fun acc : List (List String × IGraph) => ∀ e ∈ acc, P e.2) _ _ acc hacc ?_
      intro acc2 layer _ hacc2
      exact dictSet_inv P _ _ _ hacc2 (hP _ _ (ho kg hkg))
    split
    · exact ha
    · apply ih
      · refine foldl_inv (fun acc : List (List String × IGraph) => ∀ e ∈ acc, P e.2) _ _ all ha ?_
        intro acc kg hkg hacc
        exact dictSet_inv P _ _ _ hacc (hnew kg hkg)
      · exact hnew

theorem sortByLenDesc_subset (gs : List IGraph) : ∀ x ∈ sortByLenDesc gs, x ∈ gs := by
  intro x hx
  simp only [sortByLenDesc, List.mem_flatMap, List.mem_filter] at hx
  obtain ⟨_, _, hx, _⟩ := hx
  exact hx

/-- a property of `g` that is preserved by `exhaust` holds of every member of `generateSubgraphs g` -/
theorem generateSubgraphs_closed (P : IGraph → Prop) (hP : ∀ g ref, P g → P (g.exhaust ref)) (g : IGraph)
    (hg : P g) : ∀ x ∈ generateSubgraphs g, P x := by
  intro x hx
  have hx := sortByLenDesc_subset _ x hx
  obtain ⟨e, he, rfl⟩ := List.mem_map.1 hx
  refine generateSubgraphs_go_inv P hP _ _ _ ?_ ?_ e he <;> simp [hg]

end TV.Gen
