import TensoraVerif.Lemmas.LowerableSound
import TensoraVerif.Lemmas.LowerableSubgraphs

/-!
The converse direction: what the success of `lower` implies.

* inversion lemmas: `lower` on a sum succeeds only if it succeeds on every term; `lower` on an iteration
  node succeeds only if it succeeds on the `next` of every sub-sub-graph whose branch is not skipped
  (`lower_iter_inv`);
* `noSkip`: no iteration node of the graph is a *sparse loop without compressed dimension* (the branch that
  `lower` skips: `isSparse && compressed_dimensions == {}`, e.g. a loop whose only terminal is the literal `0`);
* `lowerable_of_lower_ok`: for a computing kernel and a `noSkip` graph, success of `lower` implies `lowerable`.
-/
namespace TV.Gen
open TV.IR TV.Graph
variable {F : Type}

theorem foldlM_ok_each {ε α β : Type} (f : β → α → Except ε β) (xs : List α) :
    ∀ (b0 b : β), xs.foldlM f b0 = .ok b → ∀ a ∈ xs, ∃ b1 b2, f b1 a = .ok b2 := by
  induction xs with
  | nil => intro _ _ _ a ha; cases ha
  | cons x xs ih =>
    intro b0 b h a ha
    rw [List.foldlM_cons] at h
    obtain ⟨b1, h1, h2⟩ := bind_ok h
    rcases List.mem_cons.1 ha with ha | ha
    · subst ha; exact ⟨b0, b1, h1⟩
    · exact ih b1 b h2 a ha

theorem lowerTerms_ok_inv (ofRat : Rat → F) (k : Kind) (fuel : Nat) (out : Output) :
    ∀ (ts : List IGraph) (b0 b : SB F), lowerTerms ofRat fuel ts out k b0 = .ok b →
      ∀ t ∈ ts, IsOk (lower ofRat fuel t out k) := by
  intro ts
  induction ts with
  | nil => intro _ _ _ t ht; cases ht
  | cons x xs ih =>
    intro b0 b h t ht
    rw [lowerTerms.eq_2] at h
    obtain ⟨y, hy, h⟩ := bind_ok h
    rcases List.mem_cons.1 ht with ht | ht
    · subst ht; exact ⟨y, hy⟩
    · exact ih _ b h t ht

/-- `is_sparse` of the loop that `lower` emits for an iteration node -/
def iterSparse : IGraph → Bool
  | .iter i o n => (nodeContext (.iter i o n)).isSparse && (o.isNone || isSparseOutput (.iter i o n))
  | _ => false

/-- the graph below an iteration node -/
def subNext : IGraph → IGraph
  | .iter _ _ n => n
  | g => g

/-- the branch of a sub-graph is skipped: a sparse loop with no compressed dimension left -/
def skipped (self sub : IGraph) : Bool := iterSparse self && (compressedDims sub).isEmpty

theorem lower_terminal_inv (ofRat : Rat → F) (k : Kind) (hk : k.isCompute = true) (n : Nat) (e : IdExpr)
    (out : Output) (b : SB F) (h : lower ofRat (n + 1) (.terminal e) out k = .ok b) :
    IsOk (out.writeAssignment (toIrWith ofRat e)) := by
  unfold lower at h
  simp only [hk, if_true] at h
  obtain ⟨w, hw, _⟩ := bind_ok h
  exact ⟨w, hw⟩

theorem lower_sum_inv (ofRat : Rat → F) (k : Kind) (n : Nat) (ts : List IGraph)
    (out : Output) (b : SB F) (hk : (k.isCompute || out.hasSparseLayer) = true)
    (h : lower ofRat (n + 1) (.sum ts) out k = .ok b) :
    ∃ nx decls, (out.next none k : Except GenErr (Output × SB F)) = .ok (nx, decls) ∧
      ∀ t ∈ ts, IsOk (lower ofRat n t nx k) := by
  unfold lower at h
  simp only [hk, if_true] at h
  obtain ⟨⟨nx, decls⟩, hnext, h⟩ := bind_ok h
  exact ⟨nx, decls, hnext, lowerTerms_ok_inv ofRat k n nx ts _ b h⟩

theorem lower_iter_inv (ofRat : Rat → F) (k : Kind) (n : Nat) (i : String) (o : Option Leaf) (nx : IGraph)
    (out : Output) (b : SB F) (hk : (!k.isCompute && !out.hasSparseLayer) = false)
    (h : lower ofRat (n + 1) (.iter i o nx) out k = .ok b) :
    ∃ nextOut decls, (out.next (o.map (·.layer)) k : Except GenErr (Output × SB F)) = .ok (nextOut, decls) ∧
      ∀ sub ∈ generateSubgraphs (.iter i o nx), skipped (.iter i o nx) sub = false →
        ∀ ss ∈ generateSubgraphs sub, skipped (.iter i o nx) ss = false →
          IsOk (lower ofRat n (subNext ss) nextOut k) := by
  unfold lower at h
  simp only [] at h
  split at h
  · rename_i hc; rw [hk] at hc; cases hc
  obtain ⟨⟨nextOut, decls⟩, hnext, h⟩ := bind_ok h
  refine ⟨nextOut, decls, hnext, ?_⟩
  obtain ⟨b2, hfold, _⟩ := bind_ok h
  intro sub hsub hskip ss hss hskip2
  obtain ⟨b1, b1', hstep⟩ := foldlM_ok_each _ _ _ _ hfold sub hsub
  simp only [skipped, iterSparse] at hskip hskip2
  split at hstep
  · rename_i hc; rw [hskip] at hc; cases hc
  obtain ⟨leaves, hleaves, _⟩ := bind_ok hstep
  obtain ⟨a1, a1', hss'⟩ := foldlM_ok_each _ _ _ _ hleaves ss hss
  split at hss'
  · rename_i hc; rw [hskip2] at hc; cases hc
  obtain ⟨inner, hinner, _⟩ := bind_ok hss'
  exact ⟨inner, hinner⟩

mutual
/-- no iteration node is a sparse loop without a compressed dimension -/
def noSkip : IGraph → Bool
  | .terminal _ => true
  | .iter i o n => !(skipped (.iter i o n) (.iter i o n)) && noSkip n
  | .sum ts => noSkipL ts
def noSkipL : List IGraph → Bool
  | [] => true
  | t :: ts => noSkip t && noSkipL ts
end

theorem noSkipL_mem (ts : List IGraph) (h : noSkipL ts = true) : ∀ t ∈ ts, noSkip t = true := by
  induction ts with
  | nil => simp
  | cons t ts ih =>
    simp only [noSkipL, Bool.and_eq_true] at h
    intro x hx
    rcases List.mem_cons.1 hx with hx | hx
    · exact hx ▸ h.1
    · exact ih h.2 x hx

theorem lowerableL_of_mem (m : List Mode) (ts : List IGraph) (s : OutState)
    (h : ∀ t ∈ ts, lowerable m t s = true) : lowerableL m ts s = true := by
  induction ts with
  | nil => simp [lowerableL]
  | cons t ts ih =>
    simp only [lowerableL, Bool.and_eq_true]
    exact ⟨h t (by simp), ih (fun x hx => h x (by simp [hx]))⟩

theorem writeAssignment_ok_inv (o : Output) (rhs : Expr F)
    (hwf : o.tensor.indexes.length = o.tensor.modes.length)
    (h : IsOk (o.writeAssignment rhs)) : termOk o.tensor.modes o.abs = true := by
  cases o with
  | bucket t ls => rfl
  | append t n =>
    simp only [termOk, Output.abs, Output.tensor, beq_iff_eq] at hwf ⊢
    simp only [Output.writeAssignment] at h
    split at h
    · exact absurd h (not_isOk_error _)
    · rename_i hc
      rw [← hwf]
      simpa using hc

/-- **L2, restricted form.** -/
theorem lowerable_of_lower_ok (ofRat : Rat → F) (k : Kind) (hk : k.isCompute = true) :
    ∀ fuel g out, out.tensor.indexes.length = out.tensor.modes.length → noSkip g = true →
      IsOk (lower ofRat fuel g out k) → lowerable out.tensor.modes g out.abs = true := by
  intro fuel
  induction fuel with
  | zero =>
    intro g out _ _ h
    unfold lower at h
    exact absurd h (not_isOk_error _)
  | succ n ih =>
    intro g out hwf hns ⟨b, h⟩
    cases g with
    | terminal e =>
      rw [termOk_eq]
      exact writeAssignment_ok_inv out _ hwf (lower_terminal_inv ofRat k hk n e out b h)
    | sum ts =>
      obtain ⟨nx, decls, hnext, hts⟩ := lower_sum_inv ofRat k n ts out b (by simp [hk]) h
      have hno := (next_ok_iff (F := F) out none k nx.abs).2 ⟨nx, decls, hnext, rfl, ?_⟩
      · simp only [lowerable, hno]
        apply lowerableL_of_mem
        intro t ht
        have hten : nx.tensor = out.tensor := by
          obtain ⟨o', d, h1, _, h3⟩ := (next_ok_iff (F := F) out none k nx.abs).1 hno
          rw [hnext] at h1; cases h1; exact h3
        have := ih t nx (by rw [hten]; exact hwf) (noSkipL_mem ts (by simpa [noSkip] using hns) t ht) (hts t ht)
        rwa [hten] at this
      · cases out with
        | bucket t ls => simp only [Output.next] at hnext; cases hnext; rfl
        | append t m =>
          simp only [Output.next] at hnext
          split at hnext
          · cases hnext; rfl
          · split at hnext
            · cases hnext; rfl
            · cases hnext
    | iter i o nxt =>
      obtain ⟨nx, decls, hnext, hall⟩ := lower_iter_inv ofRat k n i o nxt out b (by simp [hk]) h
      simp only [noSkip, Bool.and_eq_true, Bool.not_eq_true'] at hns
      have hself := generateSubgraphs_self i o nxt
      have hin := hall _ hself hns.1 _ hself hns.1
      have hten : nx.tensor = out.tensor := by
        cases out with
        | bucket t ls => simp only [Output.next] at hnext; cases hnext; rfl
        | append t m =>
          simp only [Output.next] at hnext
          split at hnext
          · cases hnext; rfl
          · split at hnext
            · cases hnext; rfl
            · cases hnext
      have hno := (next_ok_iff (F := F) out (o.map (·.layer)) k nx.abs).2 ⟨nx, decls, hnext, rfl, hten⟩
      simp only [lowerable, hno]
      have := ih nxt nx (by rw [hten]; exact hwf) hns.2 hin
      rwa [hten] at this

end TV.Gen
