import TensoraVerif.Lemmas.LowerableSound

/-!
Which error `lower` can raise (with sufficient fuel): `noErrX m e g s` is the abstract interpretation
"`generate_ir` does not raise the error `e` on `g` in state `s`" (`e = .notImplemented`: `next_output` is
defined along every path; `e = .runtime`: every terminal is reached in a state in which `write_assignment`
is defined), in the exhaust-stable form of `lowerableX`. `lowerableX` is the conjunction of the two.
A kernel that only assembles never calls `write_assignment`, hence never raises `.runtime`.
-/
namespace TV.Gen
open TV.IR TV.Graph
variable {F : Type}

def NotErr {ε α : Type} (e : ε) (x : Except ε α) : Prop := x ≠ .error e

theorem notErr_pure {ε α : Type} (e : ε) (a : α) : NotErr e (pure a : Except ε α) := by
  intro h; cases h
theorem notErr_ok {ε α : Type} (e : ε) (a : α) : NotErr e (.ok a : Except ε α) := by
  intro h; cases h
theorem notErr_error {ε α : Type} {e e' : ε} (h : e' ≠ e) : NotErr e (.error e' : Except ε α) := by
  intro hc; cases hc; exact h rfl

theorem notErr_bind {ε α β : Type} {e : ε} {x : Except ε α} {f : α → Except ε β}
    (hx : NotErr e x) (hf : ∀ a, x = .ok a → NotErr e (f a)) : NotErr e (x >>= f) := by
  cases x with
  | error e' => exact fun hc => hx (by cases hc; rfl)
  | ok a => exact hf a rfl

theorem notErr_foldlM {ε α β : Type} (e : ε) (f : β → α → Except ε β) (xs : List α) (b0 : β)
    (hf : ∀ b a, a ∈ xs → NotErr e (f b a)) : NotErr e (xs.foldlM f b0) := by
  induction xs generalizing b0 with
  | nil => exact notErr_pure e b0
  | cons x xs ih =>
    rw [List.foldlM_cons]
    exact notErr_bind (hf _ _ (by simp)) (fun b1 _ => ih b1 (fun b a ha => hf b a (by simp [ha])))

theorem isOk_of_notErr {ε α : Type} (x : Except ε α) (h : ∀ e, NotErr e x) : IsOk x := by
  cases x with
  | error e => exact absurd rfl (h e)
  | ok a => exact ⟨a, rfl⟩

/-! ### outputs -/

theorem next_tensor (o : Output) (layer : Option Nat) (k : Kind) (o' : Output) (d : SB F)
    (h : (o.next layer k : Except GenErr (Output × SB F)) = .ok (o', d)) : o'.tensor = o.tensor := by
  cases o with
  | bucket t ls => simp only [Output.next] at h; cases h; rfl
  | append t m =>
    simp only [Output.next] at h
    split at h
    · cases h; rfl
    · split at h
      · cases h; rfl
      · cases h

/-- `next_output` either succeeds as `nextOutput` predicts or raises `NotImplementedError` -/
theorem next_cases (o : Output) (layer : Option Nat) (k : Kind) :
    (∃ s' o' d, nextOutput o.tensor.modes o.abs layer = some s' ∧
        (o.next layer k : Except GenErr (Output × SB F)) = .ok (o', d) ∧ o'.abs = s' ∧ o'.tensor = o.tensor) ∨
    (nextOutput o.tensor.modes o.abs layer = none ∧
        (o.next layer k : Except GenErr (Output × SB F)) = .error .notImplemented) := by
  cases hno : nextOutput o.tensor.modes o.abs layer with
  | some s' =>
    obtain ⟨o', d, h1, h2, h3⟩ := (next_ok_iff (F := F) o layer k s').1 hno
    exact Or.inl ⟨s', o', d, rfl, h1, h2, h3⟩
  | none =>
    refine Or.inr ⟨rfl, ?_⟩
    cases hx : (o.next layer k : Except GenErr (Output × SB F)) with
    | error e => rw [next_error o layer k e hx]
    | ok p =>
      obtain ⟨o', d⟩ := p
      have := (next_ok_iff (F := F) o layer k o'.abs).2 ⟨o', d, hx, rfl, next_tensor o layer k o' d hx⟩
      rw [hno] at this; cases this

/-! ### the abstract interpretation, per error -/

/-- a terminal in state `s` does not raise `e` -/
def termNoErr (m : List Mode) (e : GenErr) (s : OutState) : Bool := e != .runtime || termOk m s

mutual
def noErrX (m : List Mode) (e : GenErr) : IGraph → OutState → Bool
  | .terminal _, s => termNoErr m e s
  | .iter _ o n, s =>
    match nextOutput m s (o.map (·.layer)) with
    | some s' => noErrX m e n s'
    | none => e != .notImplemented
  | .sum ts, s =>
    (match nextOutput m s none with
     | some s' => noErrXL m e ts s'
     | none => e != .notImplemented) && collapseE m e ts s
def noErrXL (m : List Mode) (e : GenErr) : List IGraph → OutState → Bool
  | [], _ => true
  | t :: ts, s => noErrX m e t s && noErrXL m e ts s
def collapseE (m : List Mode) (e : GenErr) : List IGraph → OutState → Bool
  | [], s => termNoErr m e s
  | [t], s => noErrX m e t s
  | _ :: _ :: _, _ => true
end

theorem noErrXL_mem (m : List Mode) (e : GenErr) (ts : List IGraph) (s : OutState)
    (h : noErrXL m e ts s = true) : ∀ t ∈ ts, noErrX m e t s = true := by
  induction ts with
  | nil => simp
  | cons t ts ih =>
    simp only [noErrXL, Bool.and_eq_true] at h
    intro x hx
    rcases List.mem_cons.1 hx with hx | hx
    · exact hx ▸ h.1
    · exact ih h.2 x hx

mutual
theorem noErrX_exhaust (m : List Mode) (e : GenErr) (ref : String) (g : IGraph) (s : OutState)
    (h : noErrX m e g s = true) : noErrX m e (g.exhaust ref) s = true := by
  cases g with
  | terminal x => simpa [IGraph.exhaust, noErrX] using h
  | iter i o n =>
    simp only [noErrX] at h
    simp only [IGraph.exhaust, noErrX]
    split at h
    · rename_i s' hs'; exact noErrX_exhaust m e ref n s' h
    · exact h
  | sum ts =>
    simp only [noErrX, Bool.and_eq_true] at h
    obtain ⟨h1, h2⟩ := h
    match ts, h1, h2 with
    | [], _, h2 => simpa [IGraph.exhaust, exhaustL, noErrX, collapseE] using h2
    | [t], _, h2 =>
      simp only [collapseE] at h2
      simp only [IGraph.exhaust, exhaustL]
      exact noErrX_exhaust m e ref t s h2
    | t1 :: t2 :: r, h1, _ =>
      simp only [IGraph.exhaust, exhaustL, noErrX, collapseE, Bool.and_true]
      split at h1
      · rename_i s' hs'
        have := noErrXL_exhaust m e ref (t1 :: t2 :: r) s' h1
        simpa only [exhaustL] using this
      · exact h1
theorem noErrXL_exhaust (m : List Mode) (e : GenErr) (ref : String) (ts : List IGraph) (s : OutState)
    (h : noErrXL m e ts s = true) : noErrXL m e (exhaustL ref ts) s = true := by
  cases ts with
  | nil => simp [exhaustL, noErrXL]
  | cons t ts =>
    simp only [noErrXL, Bool.and_eq_true] at h
    simp only [exhaustL, noErrXL, Bool.and_eq_true]
    exact ⟨noErrX_exhaust m e ref t s h.1, noErrXL_exhaust m e ref ts s h.2⟩
end

/-- `lowerableX` is "no error of either kind" -/
theorem termOk_iff_noErr (m : List Mode) (s : OutState) :
    termOk m s = (termNoErr m .runtime s && termNoErr m .notImplemented s) := by
  simp [termNoErr]

mutual
theorem noErrX_of_lowerableX (m : List Mode) (e : GenErr) (g : IGraph) (s : OutState)
    (h : lowerableX m g s = true) : noErrX m e g s = true := by
  cases g with
  | terminal x => simp only [lowerableX] at h; simp [noErrX, termNoErr, h]
  | iter i o n =>
    simp only [lowerableX] at h
    simp only [noErrX]
    cases hs' : nextOutput m s (o.map (·.layer)) with
    | some s' => simp only [hs'] at h ⊢; exact noErrX_of_lowerableX m e n s' h
    | none => simp [hs'] at h
  | sum ts =>
    simp only [lowerableX, Bool.and_eq_true] at h
    simp only [noErrX, Bool.and_eq_true]
    obtain ⟨h1, h2⟩ := h
    constructor
    · cases hs' : nextOutput m s none with
      | some s' => simp only [hs'] at h1 ⊢; exact noErrXL_of_lowerableXL m e ts s' h1
      | none => simp [hs'] at h1
    · match ts, h2 with
      | [], h2 => simp only [collapseX] at h2; simp [collapseE, termNoErr, h2]
      | [t], h2 => simp only [collapseX] at h2; simp only [collapseE]; exact noErrX_of_lowerableX m e t s h2
      | _ :: _ :: _, _ => simp [collapseE]
theorem noErrXL_of_lowerableXL (m : List Mode) (e : GenErr) (ts : List IGraph) (s : OutState)
    (h : lowerableXL m ts s = true) : noErrXL m e ts s = true := by
  cases ts with
  | nil => simp [noErrXL]
  | cons t ts =>
    simp only [lowerableXL, Bool.and_eq_true] at h
    simp only [noErrXL, Bool.and_eq_true]
    exact ⟨noErrX_of_lowerableX m e t s h.1, noErrXL_of_lowerableXL m e ts s h.2⟩
end

mutual
theorem lowerableX_of_noErrX (m : List Mode) (g : IGraph) (s : OutState)
    (hr : noErrX m .runtime g s = true) (hn : noErrX m .notImplemented g s = true) :
    lowerableX m g s = true := by
  cases g with
  | terminal x => simp only [noErrX] at hr; simpa [lowerableX, termNoErr] using hr
  | iter i o n =>
    simp only [noErrX] at hr hn
    simp only [lowerableX]
    cases hs' : nextOutput m s (o.map (·.layer)) with
    | some s' => simp only [hs'] at hr hn ⊢; exact lowerableX_of_noErrX m n s' hr hn
    | none => simp [hs'] at hn
  | sum ts =>
    simp only [noErrX, Bool.and_eq_true] at hr hn
    simp only [lowerableX, Bool.and_eq_true]
    constructor
    · have h1 := hr.1
      have h2 := hn.1
      cases hs' : nextOutput m s none with
      | some s' => simp only [hs'] at h1 h2 ⊢; exact lowerableXL_of_noErrXL m ts s' h1 h2
      | none => simp [hs'] at h2
    · match ts, hr.2, hn.2 with
      | [], h1, _ => simpa [collapseE, collapseX, termNoErr] using h1
      | [t], h1, h2 => simp only [collapseE] at h1 h2; simp only [collapseX]; exact lowerableX_of_noErrX m t s h1 h2
      | _ :: _ :: _, _, _ => simp [collapseX]
theorem lowerableXL_of_noErrXL (m : List Mode) (ts : List IGraph) (s : OutState)
    (hr : noErrXL m .runtime ts s = true) (hn : noErrXL m .notImplemented ts s = true) :
    lowerableXL m ts s = true := by
  cases ts with
  | nil => simp [lowerableXL]
  | cons t ts =>
    simp only [noErrXL, Bool.and_eq_true] at hr hn
    simp only [lowerableXL, Bool.and_eq_true]
    exact ⟨lowerableX_of_noErrX m t s hr.1 hn.1, lowerableXL_of_noErrXL m ts s hr.2 hn.2⟩
end

/-! ### the lowering pass does not raise `e` -/

theorem lowerTerms_notErr_of (ofRat : Rat → F) (e : GenErr) (k : Kind) (fuel : Nat) (out : Output) :
    ∀ (ts : List IGraph), (∀ t ∈ ts, NotErr e (lower ofRat fuel t out k)) →
      ∀ b, NotErr e (lowerTerms ofRat fuel ts out k b) := by
  intro ts
  induction ts with
  | nil => intro _ b; rw [lowerTerms.eq_1]; exact notErr_pure _ _
  | cons t ts ih =>
    intro h b
    rw [lowerTerms.eq_2]
    exact notErr_bind (h t (by simp)) (fun x _ => ih (fun t ht => h t (by simp [ht])) _)

theorem writeAssignment_notErr (e : GenErr) (o : Output) (rhs : Expr F)
    (hwf : o.tensor.indexes.length = o.tensor.modes.length)
    (h : termNoErr o.tensor.modes e o.abs = true) : NotErr e (o.writeAssignment rhs) := by
  simp only [termNoErr, Bool.or_eq_true, bne_iff_ne] at h
  rcases h with h | h
  · cases o with
    | bucket t ls => exact notErr_ok _ _
    | append t n =>
      simp only [Output.writeAssignment]
      split
      · exact notErr_error (fun hc => h hc.symm)
      · exact notErr_ok _ _
  · obtain ⟨w, hw⟩ := writeAssignment_ok o rhs hwf h
    rw [hw]; exact notErr_ok _ _

/-- the hypothesis on a node: either the kernel only assembles and the error is `.runtime` (never raised),
or the abstract interpretation excludes the error -/
def NoErrHyp (k : Kind) (m : List Mode) (e : GenErr) (g : IGraph) (s : OutState) : Prop :=
  (k.isCompute = false ∧ e = .runtime) ∨ noErrX m e g s = true

def IterVariantE (k : Kind) (m : List Mode) (e : GenErr) (i : String) (o : Option Leaf) (n : IGraph)
    (s : OutState) (x : IGraph) : Prop :=
  ∃ n', x = .iter i o n' ∧ n'.size ≤ n.size ∧ NoErrHyp k m e n' s

theorem iterVariantE_exhaust (k : Kind) (m : List Mode) (e : GenErr) (i : String) (o : Option Leaf)
    (n : IGraph) (s : OutState) :
    ∀ g ref, IterVariantE k m e i o n s g → IterVariantE k m e i o n s (g.exhaust ref) := by
  rintro g ref ⟨n', rfl, hs, hl⟩
  refine ⟨n'.exhaust ref, by simp [IGraph.exhaust], Nat.le_trans (size_exhaust ref n') hs, ?_⟩
  exact hl.imp id (noErrX_exhaust m e ref n' s)

theorem lower_notErr_succ (ofRat : Rat → F) (e : GenErr) (k : Kind) (n : Nat)
    (ih : ∀ g out, g.size ≤ n → out.tensor.indexes.length = out.tensor.modes.length →
      NoErrHyp k out.tensor.modes e g out.abs → NotErr e (lower ofRat n g out k)) :
    ∀ g out, g.size ≤ n + 1 → out.tensor.indexes.length = out.tensor.modes.length →
      NoErrHyp k out.tensor.modes e g out.abs → NotErr e (lower ofRat (n + 1) g out k) := by
  intro g out hsz hwf hl
  cases g with
  | terminal x =>
    unfold lower
    simp only []
    split
    · rename_i hk
      rcases hl with ⟨hk', _⟩ | hl
      · rw [hk] at hk'; cases hk'
      · exact notErr_bind (writeAssignment_notErr e out _ hwf (by simpa [noErrX] using hl))
          (fun _ _ => notErr_pure _ _)
    · exact notErr_pure _ _
  | sum ts =>
    unfold lower
    simp only []
    split
    · rcases next_cases (F := F) out none k with ⟨s', o', d, hs', hnext, habs, hten⟩ | ⟨hs', hnext⟩
      · refine notErr_bind (by rw [hnext]; exact notErr_ok _ _) ?_
        rintro ⟨nx, decls⟩ hnx
        rw [hnext] at hnx
        cases hnx
        apply lowerTerms_notErr_of
        intro t ht
        apply ih
        · have := size_mem_lt ts t ht
          simp only [IGraph.size] at hsz
          omega
        · rw [hten]; exact hwf
        · rw [hten, habs]
          refine hl.imp id ?_
          intro hl
          simp only [noErrX, hs', Bool.and_eq_true] at hl
          exact noErrXL_mem _ e ts s' hl.1 t ht
      · have hne : GenErr.notImplemented ≠ e := by
          rcases hl with ⟨_, he⟩ | hl
          · rw [he]; decide
          · simp only [noErrX, hs', Bool.and_eq_true, bne_iff_ne] at hl
            exact fun hc => hl.1 hc.symm
        exact notErr_bind (by rw [hnext]; exact notErr_error hne) (fun a ha => by rw [hnext] at ha; cases ha)
    · exact notErr_pure _ _
  | iter index output next =>
    unfold lower
    simp only []
    split
    · exact notErr_pure _ _
    rcases next_cases (F := F) out (output.map (·.layer)) k with ⟨s', o', d, hs', hnext, habs, hten⟩ | ⟨hs', hnext⟩
    · refine notErr_bind (by rw [hnext]; exact notErr_ok _ _) ?_
      rintro ⟨nextOut, decls⟩ hnx
      rw [hnext] at hnx
      cases hnx
      have hself : IterVariantE k out.tensor.modes e index output next s' (.iter index output next) := by
        refine ⟨next, rfl, Nat.le_refl _, hl.imp id ?_⟩
        intro hl
        simpa only [noErrX, hs'] using hl
      refine notErr_bind ?_ (fun _ _ => notErr_pure _ _)
      apply notErr_foldlM
      intro b sub hsub
      have hPsub := generateSubgraphs_closed _
        (iterVariantE_exhaust k out.tensor.modes e index output next s') _ hself sub hsub
      split
      · exact notErr_pure _ _
      refine notErr_bind ?_ (fun _ _ => notErr_pure _ _)
      apply notErr_foldlM
      intro acc ss hss
      obtain ⟨n', rfl, hn'sz, hn'l⟩ := generateSubgraphs_closed _
        (iterVariantE_exhaust k out.tensor.modes e index output next s') _ hPsub ss hss
      split
      · exact notErr_pure _ _
      refine notErr_bind ?_ (fun _ _ => notErr_pure _ _)
      apply ih
      · show n'.size ≤ n
        simp only [IGraph.size] at hsz; omega
      · rw [hten]; exact hwf
      · rw [hten, habs]; exact hn'l
    · have hne : GenErr.notImplemented ≠ e := by
        rcases hl with ⟨_, he⟩ | hl
        · rw [he]; decide
        · simp only [noErrX, hs', bne_iff_ne] at hl
          exact fun hc => hl hc.symm
      exact notErr_bind (by rw [hnext]; exact notErr_error hne) (fun a ha => by rw [hnext] at ha; cases ha)

/-- **L3, general form.** -/
theorem lower_notErr (ofRat : Rat → F) (e : GenErr) (k : Kind) :
    ∀ fuel g out, g.size ≤ fuel → out.tensor.indexes.length = out.tensor.modes.length →
      NoErrHyp k out.tensor.modes e g out.abs → NotErr e (lower ofRat fuel g out k) := by
  intro fuel
  induction fuel with
  | zero => intro g out h; have := size_pos g; omega
  | succ n ih => exact lower_notErr_succ ofRat e k n ih

end TV.Gen
