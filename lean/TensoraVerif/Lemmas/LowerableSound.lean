import TensoraVerif.Lemmas.LowerableBasic

/-!
Soundness of the abstract interpretation: if `lowerableX` (in particular: `lowerable` on a graph whose
sums all have at least two terms) holds in the abstract state of the output object, `lower` succeeds for
every kernel kind, as soon as the fuel is at least the size of the graph. Every recursive call of `lower`
consumes one unit of fuel and goes to a graph that is strictly smaller (`exhaust` does not increase the
size, the sub-node of an exhausted variant of `.iter i o n` is an exhausted variant of `n`).
-/
namespace TV.Gen
open TV.IR TV.Graph
variable {F : Type}

theorem lowerTerms_ok_of (ofRat : Rat → F) (k : Kind) (fuel : Nat) (out : Output) :
    ∀ (ts : List IGraph), (∀ t ∈ ts, IsOk (lower ofRat fuel t out k)) →
      ∀ b, IsOk (lowerTerms ofRat fuel ts out k b) := by
  intro ts
  induction ts with
  | nil => intro _ b; rw [lowerTerms.eq_1]; exact isOk_pure _
  | cons t ts ih =>
    intro h b
    rw [lowerTerms.eq_2]
    exact isOk_bind (h t (by simp)) (fun x _ => ih (fun t ht => h t (by simp [ht])) _)

theorem writeAssignment_ok (o : Output) (rhs : Expr F)
    (hwf : o.tensor.indexes.length = o.tensor.modes.length)
    (h : termOk o.tensor.modes o.abs = true) : IsOk (o.writeAssignment rhs) := by
  cases o with
  | bucket t ls => exact isOk_ok _
  | append t n =>
    simp only [termOk, Output.abs, Output.tensor, beq_iff_eq] at h hwf
    simp only [Output.writeAssignment]
    have : (n != t.indexes.length) = false := by simp [h, hwf]
    simp only [this, Bool.false_eq_true, if_false]
    exact isOk_ok _

/-- the invariant carried through `generateSubgraphs`: an exhausted variant of `.iter i o n` -/
def IterVariant (m : List Mode) (i : String) (o : Option Leaf) (n : IGraph) (s : OutState) (x : IGraph) : Prop :=
  ∃ n', x = .iter i o n' ∧ n'.size ≤ n.size ∧ lowerableX m n' s = true

theorem iterVariant_exhaust (m : List Mode) (i : String) (o : Option Leaf) (n : IGraph) (s : OutState) :
    ∀ g ref, IterVariant m i o n s g → IterVariant m i o n s (g.exhaust ref) := by
  rintro g ref ⟨n', rfl, hs, hl⟩
  refine ⟨n'.exhaust ref, by simp [IGraph.exhaust], ?_, lowerableX_exhaust m ref n' s hl⟩
  exact Nat.le_trans (size_exhaust ref n') hs

theorem lower_ok_succ (ofRat : Rat → F) (k : Kind) (n : Nat)
    (ih : ∀ g out, g.size ≤ n → out.tensor.indexes.length = out.tensor.modes.length →
      lowerableX out.tensor.modes g out.abs = true → IsOk (lower ofRat n g out k)) :
    ∀ g out, g.size ≤ n + 1 → out.tensor.indexes.length = out.tensor.modes.length →
      lowerableX out.tensor.modes g out.abs = true → IsOk (lower ofRat (n + 1) g out k) := by
  intro g out hsz hwf hl
  cases g with
  | terminal e =>
    unfold lower
    simp only []
    split
    · exact isOk_bind (writeAssignment_ok out _ hwf (by simpa [lowerableX] using hl)) (fun _ _ => isOk_pure _)
    · exact isOk_pure _
  | sum ts =>
    unfold lower
    simp only []
    simp only [lowerableX, Bool.and_eq_true] at hl
    obtain ⟨hl, _⟩ := hl
    split
    · split at hl
      · rename_i s' hs'
        obtain ⟨o', d, hnext, habs, hten⟩ := (next_ok_iff (F := F) out none k s').1 hs'
        refine isOk_bind ⟨_, hnext⟩ ?_
        rintro ⟨nx, decls⟩ hnx
        rw [hnext] at hnx
        cases hnx
        apply lowerTerms_ok_of
        intro t ht
        apply ih
        · have := size_mem_lt ts t ht
          simp only [IGraph.size] at hsz
          omega
        · rw [hten]; exact hwf
        · rw [hten, habs]; exact lowerableXL_mem _ ts s' hl t ht
      · cases hl
    · exact isOk_pure _
  | iter index output next =>
    unfold lower
    simp only []
    split
    · exact isOk_pure _
    simp only [lowerableX] at hl
    split at hl
    case h_2 => cases hl
    rename_i s' hs'
    obtain ⟨o', d, hnext, habs, hten⟩ := (next_ok_iff (F := F) out (output.map (·.layer)) k s').1 hs'
    refine isOk_bind ⟨_, hnext⟩ ?_
    rintro ⟨nextOut, decls⟩ hnx
    rw [hnext] at hnx
    cases hnx
    have hself : IterVariant out.tensor.modes index output next s' (.iter index output next) :=
      ⟨next, rfl, Nat.le_refl _, hl⟩
    refine isOk_bind ?_ (fun _ _ => isOk_pure _)
    apply isOk_foldlM
    intro b sub hsub
    have hPsub := generateSubgraphs_closed _ (iterVariant_exhaust out.tensor.modes index output next s') _ hself sub hsub
    split
    · exact isOk_pure _
    refine isOk_bind ?_ (fun _ _ => isOk_pure _)
    apply isOk_foldlM
    intro acc ss hss
    obtain ⟨n', rfl, hn'sz, hn'l⟩ :=
      generateSubgraphs_closed _ (iterVariant_exhaust out.tensor.modes index output next s') _ hPsub ss hss
    split
    · exact isOk_pure _
    refine isOk_bind ?_ (fun _ _ => isOk_pure _)
    apply ih
    · show n'.size ≤ n
      simp only [IGraph.size] at hsz; omega
    · rw [hten]; exact hwf
    · rw [hten, habs]; exact hn'l

/-- **L1, general form.** -/
theorem lower_ok_of_lowerableX (ofRat : Rat → F) (k : Kind) :
    ∀ fuel g out, g.size ≤ fuel → out.tensor.indexes.length = out.tensor.modes.length →
      lowerableX out.tensor.modes g out.abs = true → IsOk (lower ofRat fuel g out k) := by
  intro fuel
  induction fuel with
  | zero => intro g out h; have := size_pos g; omega
  | succ n ih => exact lower_ok_succ ofRat k n ih

end TV.Gen
