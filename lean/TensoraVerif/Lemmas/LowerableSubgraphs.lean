import TensoraVerif.Lemmas.LowerableBasic
import TensoraVerif.Lemmas.GraphAlg

/-!
`generateSubgraphs (.iter i o n)` contains the node itself (`generateSubgraphs_self`): the key of every
exhausted variant misses the tensor that was exhausted, so the `dict` entry of the original node (key: all
its compressed dimensions) is never overwritten. Needed for the completeness direction: the lowering pass
does visit `n` itself (unless the branch is skipped).
-/
namespace TV.Gen
open TV.IR TV.Graph

/-! ### sparse leaves of an exhausted expression -/

theorem extractContext_leaf_occurs (i : String) : ∀ (e : IdExpr) (l : Leaf),
    l ∈ (extractContext e i).sparseLeaves → e.occurs l.tensor.id = true := by
  intro e
  induction e with
  | int v => intro l h; simp [extractContext] at h
  | flt v => intro l h; simp [extractContext] at h
  | tensor t =>
    intro l h
    simp only [extractContext] at h
    split at h
    · simp at h
    · split at h
      · simp at h
      · simp only [List.mem_singleton] at h; subst h; simp [IdExpr.occurs]
  | add a b iha ihb =>
    intro l h
    simp only [extractContext, Context.add, List.mem_append] at h
    simp only [IdExpr.occurs, Bool.or_eq_true]
    exact h.imp (iha l) (ihb l)
  | mul a b iha ihb =>
    intro l h
    simp only [extractContext, Context.mul, List.mem_append] at h
    simp only [IdExpr.occurs, Bool.or_eq_true]
    exact h.imp (iha l) (ihb l)

theorem extractContext_exhaust (i ref : String) : ∀ (e : IdExpr) (l : Leaf),
    l ∈ (extractContext (Graph.exhaust e ref) i).sparseLeaves →
      l ∈ (extractContext e i).sparseLeaves ∧ l.tensor.id ≠ ref := by
  intro e
  induction e with
  | int v => intro l h; simp [exhaust_int, extractContext] at h
  | flt v => intro l h; simp [exhaust_flt, extractContext] at h
  | tensor t =>
    intro l h
    rw [exhaust_tensor] at h
    split at h
    · simp [extractContext] at h
    · rename_i hne
      refine ⟨h, ?_⟩
      have := extractContext_leaf_occurs i _ l h
      simp only [IdExpr.occurs, beq_iff_eq] at this
      intro hc
      rw [← this] at hc
      exact hne (by simp [hc])
  | add a b iha ihb =>
    intro l h
    rw [exhaust_add] at h
    split at h
    · rename_i hno
      refine ⟨h, ?_⟩
      have ho := extractContext_leaf_occurs i _ l h
      intro hc
      rw [hc] at ho
      simp only [IdExpr.occurs] at ho
      simp only [Bool.and_eq_true, Bool.not_eq_true'] at hno
      simp [hno.1, hno.2] at ho
    · simp only [extractContext, Context.add, List.mem_append]
      split at h
      · exact ⟨Or.inr (ihb l h).1, (ihb l h).2⟩
      · split at h
        · exact ⟨Or.inl (iha l h).1, (iha l h).2⟩
        · simp only [extractContext, Context.add, List.mem_append] at h
          rcases h with h | h
          · exact ⟨Or.inl (iha l h).1, (iha l h).2⟩
          · exact ⟨Or.inr (ihb l h).1, (ihb l h).2⟩
  | mul a b iha ihb =>
    intro l h
    rw [exhaust_mul] at h
    split at h
    · rename_i hno
      refine ⟨h, ?_⟩
      have ho := extractContext_leaf_occurs i _ l h
      intro hc
      rw [hc] at ho
      simp only [IdExpr.occurs] at ho
      simp only [Bool.and_eq_true, Bool.not_eq_true'] at hno
      simp [hno.1, hno.2] at ho
    · simp only [extractContext, Context.mul, List.mem_append]
      split at h
      · simp [extractContext] at h
      · simp only [extractContext, Context.mul, List.mem_append] at h
        rcases h with h | h
        · exact ⟨Or.inl (iha l h).1, (iha l h).2⟩
        · exact ⟨Or.inr (ihb l h).1, (ihb l h).2⟩

mutual
theorem context_exhaust (i ref : String) (g : IGraph) (l : Leaf)
    (h : l ∈ ((g.exhaust ref).context i).sparseLeaves) :
    l ∈ (g.context i).sparseLeaves ∧ l.tensor.id ≠ ref := by
  cases g with
  | terminal e =>
    simp only [IGraph.exhaust, IGraph.context] at h ⊢
    exact extractContext_exhaust i ref e l h
  | iter j o n =>
    simp only [IGraph.exhaust, IGraph.context] at h ⊢
    exact context_exhaust i ref n l h
  | sum ts =>
    match ts, h with
    | [], h => simp [IGraph.exhaust, exhaustL, IGraph.context, extractContext] at h
    | [t], h =>
      simp only [IGraph.exhaust, exhaustL] at h
      have := context_exhaust i ref t l h
      simpa [IGraph.context, contextL] using this
    | t1 :: t2 :: r, h =>
      simp only [IGraph.exhaust, exhaustL, IGraph.context] at h ⊢
      have := contextL_exhaust i ref (t1 :: t2 :: r) l (by simpa only [exhaustL] using h)
      exact this
theorem contextL_exhaust (i ref : String) (ts : List IGraph) (l : Leaf)
    (h : l ∈ (contextL i (exhaustL ref ts)).sparseLeaves) :
    l ∈ (contextL i ts).sparseLeaves ∧ l.tensor.id ≠ ref := by
  cases ts with
  | nil => simp [exhaustL, contextL] at h
  | cons t ts =>
    simp only [exhaustL, contextL, List.mem_append] at h ⊢
    rcases h with h | h
    · exact ⟨Or.inl (context_exhaust i ref t l h).1, (context_exhaust i ref t l h).2⟩
    · exact ⟨Or.inr (contextL_exhaust i ref ts l h).1, (contextL_exhaust i ref ts l h).2⟩
end

theorem mem_dedupStr (xs : List String) (x : String) : x ∈ dedupStr xs ↔ x ∈ xs := by
  unfold dedupStr
  have : ∀ (acc : List String),
      x ∈ xs.foldl (fun acc x => if acc.contains x then acc else acc ++ [x]) acc ↔ x ∈ acc ∨ x ∈ xs := by
    induction xs with
    | nil => simp
    | cons y ys ih =>
      intro acc
      simp only [List.foldl_cons, ih, List.mem_cons]
      split
      · rename_i hc
        have hy : y ∈ acc := by simpa using hc
        constructor
        · rintro (h | h)
          · exact Or.inl h
          · exact Or.inr (Or.inr h)
        · rintro (h | h | h)
          · exact Or.inl h
          · exact Or.inl (h ▸ hy)
          · exact Or.inr h
      · simp only [List.mem_append, List.mem_singleton]
        constructor
        · rintro ((h | h) | h)
          · exact Or.inl h
          · exact Or.inr (Or.inl h)
          · exact Or.inr (Or.inr h)
        · rintro (h | h | h)
          · exact Or.inl (Or.inl h)
          · exact Or.inl (Or.inr h)
          · exact Or.inr h
  simpa using this []

/-- exhausting `ref` removes it from the compressed dimensions of an iteration node and adds nothing -/
theorem compressedDims_exhaust (i : String) (o : Option Leaf) (n : IGraph) (ref x : String)
    (h : x ∈ compressedDims ((IGraph.iter i o n).exhaust ref)) :
    x ∈ compressedDims (.iter i o n) ∧ x ≠ ref := by
  simp only [compressedDims, IGraph.exhaust, nodeContext, mem_dedupStr, List.mem_map] at h ⊢
  obtain ⟨l, hl, rfl⟩ := h
  have := context_exhaust i ref n l hl
  exact ⟨⟨l, this.1, rfl⟩, this.2⟩

/-! ### `dictSet` -/

theorem dictSet_inv2 (Q : List String × IGraph → Prop) (d : List (List String × IGraph)) (k : List String)
    (g : IGraph) (hd : ∀ e ∈ d, Q e) (hnew : Q (k, g)) (hrep : ∀ e ∈ d, sameSet e.1 k = true → Q (e.1, g)) :
    ∀ e ∈ dictSet d k g, Q e := by
  unfold dictSet
  split
  · intro e he
    obtain ⟨e0, he0, rfl⟩ := List.mem_map.1 he
    split
    · rename_i hs; exact hrep e0 he0 hs
    · exact hd e0 he0
  · intro e he
    rcases List.mem_append.1 he with he | he
    · exact hd e he
    · rw [List.mem_singleton] at he; subst he; exact hnew

theorem dictSet_keep (d : List (List String × IGraph)) (k : List String) (g : IGraph)
    (e : List String × IGraph) (he : e ∈ d) (hs : sameSet e.1 k = false) : e ∈ dictSet d k g := by
  unfold dictSet
  split
  · refine List.mem_map.2 ⟨e, he, ?_⟩
    simp [hs]
  · exact List.mem_append_left _ he

theorem sameSet_iff (a b : List String) : sameSet a b = true ↔ ∀ x, x ∈ a ↔ x ∈ b := by
  simp only [sameSet, Bool.and_eq_true, List.all_eq_true, List.contains_iff_mem]
  constructor
  · rintro ⟨h1, h2⟩ x; exact ⟨h1 x, h2 x⟩
  · intro h; exact ⟨fun x hx => (h x).1 hx, fun x hx => (h x).2 hx⟩

/-! ### the original node survives -/

/-- entries produced by exhausting: an exhausted variant of `.iter i o _`, keyed (up to set equality) by its
compressed dimensions, which are among `k0` -/
def EntryOk (i : String) (o : Option Leaf) (k0 : List String) (kg : List String × IGraph) : Prop :=
  (∃ n', kg.2 = .iter i o n') ∧ (∀ x, x ∈ kg.1 ↔ x ∈ compressedDims kg.2) ∧ (∀ x ∈ kg.1, x ∈ k0)

def EntryNew (i : String) (o : Option Leaf) (k0 : List String) (kg : List String × IGraph) : Prop :=
  EntryOk i o k0 kg ∧ ∃ x ∈ k0, x ∉ kg.1

theorem go_self (i : String) (o : Option Leaf) (k0 : List String) (e0 : List String × IGraph) (he0 : e0.1 = k0) :
    ∀ fuel (all old : List (List String × IGraph)), e0 ∈ all → (∀ kg ∈ old, EntryOk i o k0 kg) →
      e0 ∈ generateSubgraphs.go fuel all old := by
  intro fuel
  induction fuel with
  | zero => intro all old ha _; simpa [generateSubgraphs.go] using ha
  | succ n ih =>
    intro all old ha ho
    simp only [generateSubgraphs.go]
    have hnew : ∀ e ∈ (old.foldl (fun acc kg =>
        kg.1.reverse.foldl (fun acc2 layer =>
          dictSet acc2 (compressedDims (kg.2.exhaust layer)) (kg.2.exhaust layer)) acc) []), EntryNew i o k0 e := by
      refine foldl_inv (fun acc : List (List String × IGraph) => ∀ e ∈ acc, EntryNew i o k0 e) _ old [] (by simp) ?_
      intro acc kg hkg hacc
      have hforall : ∀ layer ∈ kg.1.reverse, layer ∈ kg.1 := fun l hl => by simpa using hl
      revert hforall
      generalize kg.1.reverse = layers
      intro hforall
      refine foldl_inv (fun acc : List (List String × IGraph) => ∀ e ∈ acc, EntryNew i o k0 e) _ _ acc hacc ?_
      intro acc2 layer hlayer hacc2
      obtain ⟨⟨n', hn'⟩, hkey, hsub⟩ := ho kg hkg
      have hD : ∀ x ∈ compressedDims (kg.2.exhaust layer), x ∈ kg.1 ∧ x ≠ layer := by
        intro x hx
        rw [hn'] at hx
        have := compressedDims_exhaust i o n' layer x hx
        rw [← hn'] at this
        exact ⟨(hkey x).2 this.1, this.2⟩
      have hiter : ∃ n'', kg.2.exhaust layer = .iter i o n'' := ⟨n'.exhaust layer, by rw [hn']; simp [IGraph.exhaust]⟩
      apply dictSet_inv2 _ _ _ _ hacc2
      · refine ⟨⟨hiter, fun x => Iff.rfl, fun x hx => hsub x (hD x hx).1⟩, layer, hsub layer (hforall layer hlayer), ?_⟩
        intro hc
        exact (hD layer hc).2 rfl
      · intro e he hs
        obtain ⟨⟨_, _, hesub⟩, hex⟩ := hacc2 e he
        rw [sameSet_iff] at hs
        exact ⟨⟨hiter, hs, hesub⟩, hex⟩
    split
    · exact ha
    · apply ih
      · refine foldl_inv (fun acc : List (List String × IGraph) => e0 ∈ acc) _ _ all ha ?_
        intro acc kg hkg hacc
        apply dictSet_keep _ _ _ _ hacc
        obtain ⟨_, x, hx0, hx⟩ := hnew kg hkg
        cases hs : sameSet e0.1 kg.1 with
        | false => rfl
        | true =>
          rw [sameSet_iff] at hs
          rw [he0] at hs
          exact absurd ((hs x).1 hx0) hx
      · exact fun kg hkg => (hnew kg hkg).1

theorem foldl_max_le (gs : List IGraph) (f : IGraph → Nat) : ∀ (m0 : Nat) (g : IGraph), g ∈ gs →
    f g ≤ gs.foldl (fun m g => max m (f g)) m0 := by
  induction gs with
  | nil => intro _ g h; cases h
  | cons x xs ih =>
    intro m0 g hg
    simp only [List.foldl_cons]
    have hmono : ∀ (ys : List IGraph) (a : Nat), a ≤ ys.foldl (fun m g => max m (f g)) a := by
      intro ys
      induction ys with
      | nil => intro a; exact Nat.le_refl _
      | cons y ys ihy => intro a; simp only [List.foldl_cons]; exact Nat.le_trans (Nat.le_max_left _ _) (ihy _)
    rcases List.mem_cons.1 hg with hg | hg
    · subst hg; exact Nat.le_trans (Nat.le_max_right _ _) (hmono xs _)
    · exact ih _ g hg

theorem mem_sortByLenDesc (gs : List IGraph) (g : IGraph) (h : g ∈ gs) : g ∈ sortByLenDesc gs := by
  simp only [sortByLenDesc, List.mem_flatMap, List.mem_reverse, List.mem_range, List.mem_filter]
  refine ⟨(compressedDims g).length, ?_, h, by simp⟩
  have := foldl_max_le gs (fun g => (compressedDims g).length) 0 g h
  omega

/-- an iteration node is one of its own sub-graphs -/
theorem generateSubgraphs_self (i : String) (o : Option Leaf) (n : IGraph) :
    IGraph.iter i o n ∈ generateSubgraphs (.iter i o n) := by
  unfold generateSubgraphs
  apply mem_sortByLenDesc
  refine List.mem_map.2 ⟨(compressedDims (.iter i o n), .iter i o n), ?_, rfl⟩
  apply go_self i o _ _ rfl
  · simp
  · intro kg hkg
    simp only [List.mem_singleton] at hkg
    subst hkg
    exact ⟨⟨n, rfl⟩, fun x => Iff.rfl, fun x hx => hx⟩

end TV.Gen
