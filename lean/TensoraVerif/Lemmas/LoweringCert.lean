import TensoraVerif.Model.GenerateIR

/-!
A parametrised syntactic certificate on IR trees, `cert pa al`:
* every attribute access `.attr _ a` satisfies `pa a`,
* `.alloc` / `.realloc` occur only if `al = true`.

`noAlloc` is the instance `cert (fun _ => true) false`; "does not read `dimensions`" is the instance
`cert (· != "dimensions") true`. The lowering pass is analysed once, for an arbitrary `(pa, al)`.
This file: the definition, the builder (`SB`) lemmas, the expression helpers and the fold lemmas.
-/
namespace TV.IR
variable {F : Type}

def Expr.cert (pa : String → Bool) (al : Bool) : Expr F → Bool
  | .var _ => true
  | .attr t a => pa a && t.cert pa al
  | .idx t i => t.cert pa al && i.cert pa al
  | .intLit _ => true
  | .floatLit _ => true
  | .boolLit _ => true
  | .bin _ l r => l.cert pa al && r.cert pa al
  | .b2i e => e.cert pa al
  | .alloc _ n => al && n.cert pa al
  | .realloc o _ n => al && (o.cert pa al && n.cert pa al)

mutual
def Stmt.cert (pa : String → Bool) (al : Bool) : Stmt F → Bool
  | .expr e => e.cert pa al
  | .decl _ _ => true
  | .assign t v => t.cert pa al && v.cert pa al
  | .declAssign _ _ v => v.cert pa al
  | .block ss _ => certL pa al ss
  | .branch c t f => c.cert pa al && (t.cert pa al && f.cert pa al)
  | .loop c b => c.cert pa al && b.cert pa al
  | .ret e => e.cert pa al
def certL (pa : String → Bool) (al : Bool) : List (Stmt F) → Bool
  | [] => true
  | s :: ss => s.cert pa al && certL pa al ss
end

/-! ### `noAlloc` is an instance -/

theorem noAllocE_eq_cert (e : Expr F) : e.noAllocE = e.cert (fun _ => true) false := by
  induction e <;> simp_all [Expr.noAllocE, Expr.cert]

mutual
theorem noAlloc_eq_cert (s : Stmt F) : s.noAlloc = s.cert (fun _ => true) false := by
  cases s with
  | block ss c => simp only [Stmt.noAlloc, Stmt.cert]; exact noAllocL_eq_certL ss
  | branch c t f =>
    simp only [Stmt.noAlloc, Stmt.cert, noAllocE_eq_cert, noAlloc_eq_cert t, noAlloc_eq_cert f, Bool.and_assoc]
  | loop c b => simp only [Stmt.noAlloc, Stmt.cert, noAllocE_eq_cert, noAlloc_eq_cert b]
  | _ => simp [Stmt.noAlloc, Stmt.cert, noAllocE_eq_cert]
theorem noAllocL_eq_certL (ss : List (Stmt F)) : noAllocL ss = certL (fun _ => true) false ss := by
  cases ss with
  | nil => simp [noAllocL, certL]
  | cons s ss => simp only [noAllocL, certL, noAlloc_eq_cert s, noAllocL_eq_certL ss]
end

/-! ### lists of statements -/

theorem certL_append (pa : String → Bool) (al : Bool) (xs ys : List (Stmt F)) :
    certL pa al (xs ++ ys) = (certL pa al xs && certL pa al ys) := by
  induction xs with
  | nil => simp [certL]
  | cons x xs ih => simp [certL, ih, Bool.and_assoc]

theorem certL_iff (pa : String → Bool) (al : Bool) (xs : List (Stmt F)) :
    certL pa al xs = true ↔ ∀ s ∈ xs, s.cert pa al = true := by
  induction xs with
  | nil => simp [certL]
  | cons x xs ih => simp [certL, ih]

theorem certL_flatMap {α : Type} (pa : String → Bool) (al : Bool) (xs : List α) (f : α → List (Stmt F))
    (h : ∀ a ∈ xs, certL pa al (f a) = true) : certL pa al (xs.flatMap f) = true := by
  rw [certL_iff]
  intro s hs
  obtain ⟨a, ha, hsa⟩ := List.mem_flatMap.1 hs
  exact (certL_iff pa al _).1 (h a ha) s hsa

end TV.IR

namespace TV.Gen
open TV.IR TV.Graph
variable {F : Type}

/-! ### generic fold lemmas -/

theorem foldl_inv {α β : Type} (P : β → Prop) (f : β → α → β) (xs : List α) (b0 : β) (h0 : P b0)
    (hf : ∀ b a, a ∈ xs → P b → P (f b a)) : P (xs.foldl f b0) := by
  induction xs generalizing b0 with
  | nil => exact h0
  | cons x xs ih =>
    simp only [List.foldl_cons]
    exact ih _ (hf _ _ (by simp) h0) (fun b a ha hb => hf b a (by simp [ha]) hb)

theorem bind_ok {ε α β : Type} {x : Except ε α} {f : α → Except ε β} {b : β}
    (h : (x >>= f) = .ok b) : ∃ a, x = .ok a ∧ f a = .ok b := by
  cases x with
  | error e => simp [bind, Except.bind] at h
  | ok a => exact ⟨a, rfl, h⟩

theorem pure_ok {ε α : Type} {a b : α} (h : (pure a : Except ε α) = .ok b) : a = b := by
  simpa [pure, Except.pure] using h

/-- a monadic fold preserves an invariant of the accumulator -/
theorem foldlM_inv {ε α β : Type} (P : β → Prop) (f : β → α → Except ε β) (xs : List α) (b0 b : β)
    (h0 : P b0) (hf : ∀ b a b', a ∈ xs → P b → f b a = .ok b' → P b')
    (h : xs.foldlM f b0 = .ok b) : P b := by
  induction xs generalizing b0 with
  | nil => rw [List.foldlM_nil] at h; exact pure_ok h ▸ h0
  | cons x xs ih =>
    rw [List.foldlM_cons] at h
    obtain ⟨b1, h1, h2⟩ := bind_ok h
    exact ih b1 (hf _ _ _ (by simp) h0 h1) (fun b a b' ha hb => hf b a b' (by simp [ha]) hb) h2

/-! ### the builder -/

def SB.cert (pa : String → Bool) (al : Bool) (b : SB F) : Bool := certL pa al b.lines

@[simp] theorem SB.cert_empty (pa : String → Bool) (al : Bool) : (SB.empty : SB F).cert pa al = true := by
  simp [SB.cert, SB.empty, certL]

@[simp] theorem SB.cert_mk' (pa : String → Bool) (al : Bool) (c : Option String) :
    (SB.mk' c : SB F).cert pa al = true := by
  simp [SB.cert, SB.mk', certL]

@[simp] theorem SB.cert_add (pa : String → Bool) (al : Bool) (b : SB F) (s : Stmt F) :
    (b.add s).cert pa al = (b.cert pa al && s.cert pa al) := by
  simp [SB.cert, SB.add, certL_append, certL]

@[simp] theorem SB.cert_append (pa : String → Bool) (al : Bool) (b x : SB F) :
    (b.append x).cert pa al = (b.cert pa al && x.cert pa al) := by
  unfold SB.append
  split <;> simp [SB.cert, certL_append, certL, Stmt.cert]

@[simp] theorem SB.cert_finalize (pa : String → Bool) (al : Bool) (b : SB F) :
    b.finalize.cert pa al = b.cert pa al := by
  simp [SB.finalize, SB.cert, Stmt.cert]

@[simp] theorem SB.cert_branch (pa : String → Bool) (al : Bool) (b : SB F) (c : Expr F) (body : List (Stmt F)) :
    (b.branch c body).cert pa al = (b.cert pa al && (c.cert pa al && certL pa al body)) := by
  simp [SB.branch, Stmt.cert, certL]

@[simp] theorem SB.cert_loop (pa : String → Bool) (al : Bool) (b : SB F) (c : Expr F) (body : List (Stmt F)) :
    (b.loop c body).cert pa al = (b.cert pa al && (c.cert pa al && certL pa al body)) := by
  simp [SB.loop, Stmt.cert]

theorem SB.cert_lines (pa : String → Bool) (al : Bool) (b : SB F) : certL pa al b.lines = b.cert pa al := rfl

/-! ### expression helpers -/

@[simp] theorem cert_plus (pa : String → Bool) (al : Bool) (a b : Expr F) :
    (plus a b).cert pa al = (a.cert pa al && b.cert pa al) := by simp [plus, Expr.cert]

@[simp] theorem cert_times (pa : String → Bool) (al : Bool) (a b : Expr F) :
    (times a b).cert pa al = (a.cert pa al && b.cert pa al) := by simp [times, Expr.cert]

@[simp] theorem cert_declAssignE (pa : String → Bool) (al : Bool) (n : String) (t : Ty) (e : Expr F) :
    (declAssignE n t e).cert pa al = e.cert pa al := by simp [declAssignE, Stmt.cert]

@[simp] theorem cert_increment (pa : String → Bool) (al : Bool) (t a : Expr F) :
    (increment t a).cert pa al = (t.cert pa al && a.cert pa al) := by
  simp [increment, Stmt.cert]

theorem cert_joinWith (pa : String → Bool) (al : Bool) (op : BinOp) (init : Expr F) (xs : List (Expr F))
    (hi : init.cert pa al = true) (hx : ∀ x ∈ xs, x.cert pa al = true) :
    (joinWith op init xs).cert pa al = true := by
  unfold joinWith
  exact foldl_inv (fun e => e.cert pa al = true) (Expr.bin op) xs init hi
    (fun b a ha hb => by
      show (Expr.bin op b a).cert pa al = true
      simp only [Expr.cert, Bool.and_eq_true]; exact ⟨hb, hx a ha⟩)

theorem cert_mulJoin (pa : String → Bool) (al : Bool) (xs : List (Expr F))
    (hx : ∀ x ∈ xs, x.cert pa al = true) : (mulJoin xs).cert pa al = true :=
  cert_joinWith pa al _ _ xs (by simp [Expr.cert]) hx

theorem cert_addJoin (pa : String → Bool) (al : Bool) (xs : List (Expr F))
    (hx : ∀ x ∈ xs, x.cert pa al = true) : (addJoin xs).cert pa al = true :=
  cert_joinWith pa al _ _ xs (by simp [Expr.cert]) hx

theorem cert_andJoin (pa : String → Bool) (al : Bool) (xs : List (Expr F))
    (hx : ∀ x ∈ xs, x.cert pa al = true) : (andJoin xs).cert pa al = true :=
  cert_joinWith pa al _ _ xs (by simp [Expr.cert]) hx

theorem cert_minJoin (pa : String → Bool) (al : Bool) (xs : List (Expr F))
    (hx : ∀ x ∈ xs, x.cert pa al = true) : (minJoin xs).cert pa al = true := by
  cases xs with
  | nil => simp [minJoin, Expr.cert]
  | cons x xs =>
    simp only [minJoin]
    exact foldl_inv (fun e => e.cert pa al = true) (Expr.bin .min) xs x (hx x (by simp))
      (fun b a ha hb => by
        show (Expr.bin .min b a).cert pa al = true
        simp only [Expr.cert, Bool.and_eq_true]; exact ⟨hb, hx a (by simp [ha])⟩)

theorem cert_branchJoin (pa : String → Bool) (al : Bool) (xs : List (Expr F × Stmt F))
    (hx : ∀ p ∈ xs, p.1.cert pa al = true ∧ p.2.cert pa al = true) : (branchJoin xs).cert pa al = true := by
  induction xs with
  | nil => simp [branchJoin, Stmt.cert, certL]
  | cons p xs ih =>
    obtain ⟨c, s⟩ := p
    have := hx (c, s) (by simp)
    simp only [branchJoin, Stmt.cert, Bool.and_eq_true]
    exact ⟨this.1, this.2, ih (fun p hp => hx p (by simp [hp]))⟩

@[simp] theorem cert_prevLayerPointer (pa : String → Bool) (al : Bool) (ref : String) (l : Nat) :
    (prevLayerPointer ref l : Expr F).cert pa al = true := by
  unfold prevLayerPointer; split <;> simp [Expr.cert]

@[simp] theorem cert_prevPtr (pa : String → Bool) (al : Bool) (l : Leaf) :
    (l.prevPtr : Expr F).cert pa al = true := by simp [Leaf.prevPtr]

@[simp] theorem cert_defaultArraySize (pa : String → Bool) (al : Bool) (cap : Option Int) :
    (defaultArraySize cap : Expr F).cert pa al = true := by
  unfold defaultArraySize; split <;> simp [Expr.cert]

theorem cert_ravelIndexes (pa : String → Bool) (al : Bool) (dims idxs : List (Expr F))
    (hd : ∀ x ∈ dims, x.cert pa al = true) (hi : ∀ x ∈ idxs, x.cert pa al = true) :
    (ravelIndexes dims idxs).cert pa al = true := by
  unfold ravelIndexes
  apply cert_addJoin
  have := foldl_inv
    (fun (acc : List (Expr F) × List (Expr F)) =>
      (∀ x ∈ acc.1, x.cert pa al = true) ∧ (∀ x ∈ acc.2, x.cert pa al = true))
    (fun (acc : List (Expr F) × List (Expr F)) di =>
      (acc.1 ++ [mulJoin (di.2 :: acc.2)], acc.2 ++ [di.1])) (dims.reverse.zip idxs.reverse) ([], [])
    (by simp)
    (by
      intro b di hdi hb
      obtain ⟨d, i⟩ := di
      have hm := List.of_mem_zip hdi
      have hdc := hd d (by simpa using hm.1)
      have hic := hi i (by simpa using hm.2)
      refine ⟨?_, ?_⟩
      · intro x hx
        rcases List.mem_append.1 hx with hx | hx
        · exact hb.1 x hx
        · rw [List.mem_singleton] at hx
          subst hx
          apply cert_mulJoin
          intro y hy
          rcases List.mem_cons.1 hy with hy | hy
          · exact hy ▸ hic
          · exact hb.2 y hy
      · intro x hx
        rcases List.mem_append.1 hx with hx | hx
        · exact hb.2 x hx
        · rw [List.mem_singleton] at hx
          exact hx ▸ hdc)
  intro x hx
  exact this.1 x (by simpa using hx)

theorem cert_toIrWith (pa : String → Bool) (al : Bool) (ofRat : Rat → F) (e : IdExpr) :
    (toIrWith ofRat e).cert pa al = true := by
  induction e with
  | int v => simp [toIrWith, Expr.cert]
  | flt q => simp [toIrWith, Expr.cert]
  | tensor t => simp [toIrWith, Expr.cert]
  | add l r ihl ihr => simp [toIrWith, Expr.cert, ihl, ihr]
  | mul l r ihl ihr => simp [toIrWith, Expr.cert, ihl, ihr]

end TV.Gen
