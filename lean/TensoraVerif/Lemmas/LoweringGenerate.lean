import TensoraVerif.Lemmas.LoweringLower

/-!
The shape of the function produced by `generateIr`, for every problem and every kernel kind:
`{ "Extract dimensions" block; "Unpack tensors" block; "Output initialization" block; …; return 0 }`,
and the certificate `cert pa al` of each part.
-/
namespace TV.Gen
open TV.IR TV.Graph
variable {F : Type}

/-- what `SB.append b x` adds to `b.lines` -/
def SB.appended (x : SB F) : List (Stmt F) :=
  match x.comment with
  | some c => [.block x.lines (some c)]
  | none => x.lines

theorem SB.append_lines (b x : SB F) : (b.append x).lines = b.lines ++ x.appended := by
  unfold SB.append SB.appended
  split <;> simp_all

theorem SB.append_comment (b x : SB F) : (b.append x).comment = b.comment := by
  unfold SB.append
  split <;> rfl

theorem SB.cert_appended (pa : String → Bool) (al : Bool) (x : SB F) :
    certL pa al x.appended = x.cert pa al := by
  unfold SB.appended
  split <;> simp [certL, Stmt.cert, SB.cert]

/-- the output tensor of `generateIr` -/
def outTensor (a : Alg.DAssign) (formats : Formats) : TensorId :=
  (tensorId 0 a.tname formats a.tidx).getD default

/-- the "Extract dimensions" declarations: one `<i>_dim` per index, read from the first tensor
dimension addressed by `i` -/
def dimDecls (a : Alg.DAssign) : List (Stmt F) :=
  (indexDimensions a).map fun (i, name, d) =>
    declAssignE (dimName i) .int (.idx (.attr (.var name) "dimensions") (.intLit d))

/-- the "Unpack tensors" declarations -/
def unpackDecls (formats : Formats) : List (Stmt F) :=
  formats.flatMap fun (name, modes, _) =>
    ((List.range modes.length).flatMap fun i =>
      if modes.getD i .dense == .compressed then
        [declAssignE (posName name i) (.ptr .int) (.idx (.idx (.attr (.var name) "indices") (.intLit i)) (.intLit 0)),
         declAssignE (crdName name i) (.ptr .int) (.idx (.idx (.attr (.var name) "indices") (.intLit i)) (.intLit 1))]
      else []) ++ [declAssignE (valsName name) (.ptr .float) (.attr (.var name) "vals")]

theorem declStep_comment (cap : Option Int) (t : TensorId) (k : Kind) (xs : List Nat) (acc : SB F × Bool) :
    (xs.foldl (declStep cap t k) acc).1.comment = acc.1.comment := by
  refine foldl_inv (fun (r : SB F × Bool) => r.1.comment = acc.1.comment) _ xs acc rfl ?_
  intro b i _ hb
  unfold declStep
  split
  · exact hb
  · simp only []
    split <;> simpa [SB.add] using hb

theorem appendDeclarations_comment (cap : Option Int) (t : TensorId) (k : Kind) :
    (appendDeclarations cap t k : SB F).comment = some "Output initialization" := by
  rw [appendDeclarations_eq]
  split <;> simp [SB.add, declStep_comment, SB.mk']

theorem appendDeclarations_appended (cap : Option Int) (t : TensorId) (k : Kind) :
    (appendDeclarations cap t k : SB F).appended =
      [.block (appendDeclarations cap t k).lines (some "Output initialization")] := by
  unfold SB.appended
  rw [appendDeclarations_comment]

/-- **Shape of every generated kernel.** -/
theorem generateIr_body (ofRat : Rat → F) (cap : Option Int) (a : Alg.DAssign) (formats : Formats) (g : IGraph)
    (k : Kind) (f : Func F) (h : generateIr ofRat cap a formats g k = .ok f) :
    ∃ body : SB F, lower ofRat (4 * g.size + 8) g (.append (outTensor a formats) 0) k = .ok body ∧
      f.body = .block (.block (dimDecls a) (some "Extract dimensions") ::
        .block (unpackDecls formats) (some "Unpack tensors") ::
        .block (appendDeclarations cap (outTensor a formats) k).lines (some "Output initialization") ::
        ((body.appended ++ (appendCleanup (outTensor a formats) k).appended) ++ [.ret (.intLit 0)])) none ∧
      f.name = k.name ∧ f.retTy = .int ∧ f.params = formats.map fun (n, _, _) => (n, .ptr .tensor) := by
  unfold generateIr at h
  simp only [] at h
  obtain ⟨body, hbody, h⟩ := bind_ok h
  cases pure_ok h
  refine ⟨body, hbody, ?_, rfl, rfl, rfl⟩
  simp only [SB.finalize, SB.add, SB.append_lines, SB.append_comment, SB.empty, appendDeclarations_appended]
  simp [dimDecls, unpackDecls, outTensor]

theorem dimDecls_cert (pa : String → Bool) (al : Bool) (a : Alg.DAssign) (hpa : pa "dimensions" = true) :
    certL pa al (dimDecls a : List (Stmt F)) = true := by
  rw [certL_iff]
  intro s hs
  simp only [dimDecls, List.mem_map] at hs
  obtain ⟨⟨i, name, d⟩, _, rfl⟩ := hs
  simp [Expr.cert, hpa]

theorem unpackDecls_cert (pa : String → Bool) (al : Bool) (formats : Formats)
    (hpa : pa "indices" = true ∧ pa "vals" = true) :
    certL pa al (unpackDecls formats : List (Stmt F)) = true := by
  unfold unpackDecls
  apply certL_flatMap
  rintro ⟨name, modes, o⟩ _
  rw [certL_append]
  simp only [Bool.and_eq_true]
  constructor
  · apply certL_flatMap
    intro i _
    split <;> simp [certL, Expr.cert, hpa.1]
  · simp [certL, Expr.cert, hpa.2]

/-- the whole body carries `cert pa al` as soon as the three tensor attributes are permitted and
allocation is permitted in assembling kernels -/
theorem generateIr_cert (pa : String → Bool) (al : Bool) (ofRat : Rat → F) (cap : Option Int) (a : Alg.DAssign)
    (formats : Formats) (g : IGraph) (k : Kind) (f : Func F)
    (hal : k.isAssemble = true → al = true)
    (hpa : pa "dimensions" = true ∧ pa "indices" = true ∧ pa "vals" = true)
    (h : generateIr ofRat cap a formats g k = .ok f) : f.body.cert pa al = true := by
  obtain ⟨body, hbody, hf, -⟩ := generateIr_body ofRat cap a formats g k f h
  rw [hf]
  simp only [Stmt.cert, certL, certL_append, SB.cert_appended, Bool.and_eq_true]
  exact ⟨dimDecls_cert pa al a hpa.1, unpackDecls_cert pa al formats hpa.2,
    appendDeclarations_cert pa al cap _ k hal (fun _ _ => hpa.1),
    ⟨lower_cert pa al ofRat k hal _ _ _ _ hbody,
     appendCleanup_cert pa al _ k hal (fun _ => hpa.2)⟩, by simp [Expr.cert]⟩

end TV.Gen
