import TensoraVerif.Lemmas.LoweringParts

/-!
The certificate `cert pa al` on the recursive lowering `lower` / `lowerTerms`: for every fuel, graph,
output and kernel kind `k`, if allocation is permitted whenever `k` assembles (`k.isAssemble → al`),
the emitted code satisfies `cert pa al` for *every* attribute predicate `pa` (the recursive lowering
never emits an attribute access). Induction on the fuel; the two monadic folds over sub-graphs are
handled by `foldlM_inv`.
-/
namespace TV.Gen
open TV.IR TV.Graph
variable {F : Type}

theorem lowerTerms_cert_of (pa : String → Bool) (al : Bool) (ofRat : Rat → F) (k : Kind) (fuel : Nat)
    (hA : ∀ g out b, lower ofRat fuel g out k = .ok b → b.cert pa al = true) :
    ∀ ts out b0 b, b0.cert pa al = true → lowerTerms ofRat fuel ts out k b0 = .ok b → b.cert pa al = true := by
  intro ts
  induction ts with
  | nil =>
    intro out b0 b h0 h
    rw [lowerTerms.eq_1] at h
    exact pure_ok h ▸ h0
  | cons t ts ih =>
    intro out b0 b h0 h
    rw [lowerTerms.eq_2] at h
    obtain ⟨x, hx, h⟩ := bind_ok h
    exact ih out _ b (by simp [h0, hA _ _ _ hx]) h


theorem SB.cert_foldl {α : Type} (pa : String → Bool) (al : Bool) (f : SB F → α → SB F) (xs : List α) (b0 : SB F)
    (h0 : b0.cert pa al = true) (hf : ∀ b a, a ∈ xs → b.cert pa al = true → (f b a).cert pa al = true) :
    (xs.foldl f b0).cert pa al = true :=
  foldl_inv (fun b => b.cert pa al = true) f xs b0 h0 hf

theorem SB.cert_foldl_add {α : Type} (pa : String → Bool) (al : Bool) (f : α → Stmt F) (xs : List α) (b0 : SB F) :
    (xs.foldl (fun b x => b.add (f x)) b0).cert pa al = (b0.cert pa al && xs.all fun x => (f x).cert pa al) := by
  induction xs generalizing b0 with
  | nil => simp
  | cons x xs ih => simp [ih, Bool.and_assoc]

theorem SB.cert_foldl_foldl_add {α β : Type} (pa : String → Bool) (al : Bool) (g : α → List β) (f : β → Stmt F)
    (xs : List α) (b0 : SB F) :
    (xs.foldl (fun b x => (g x).foldl (fun b y => b.add (f y)) b) b0).cert pa al =
      (b0.cert pa al && xs.all fun x => (g x).all fun y => (f y).cert pa al) := by
  induction xs generalizing b0 with
  | nil => simp
  | cons x xs ih => simp [ih, SB.cert_foldl_add, Bool.and_assoc]

theorem lower_cert_succ (pa : String → Bool) (al : Bool) (ofRat : Rat → F) (k : Kind)
    (hal : k.isAssemble = true → al = true) (n : Nat)
    (ihA : ∀ g out b, lower ofRat n g out k = .ok b → b.cert pa al = true)
    (ihB : ∀ ts out b0 b, b0.cert pa al = true → lowerTerms ofRat n ts out k b0 = .ok b → b.cert pa al = true) :
    ∀ g out b, lower ofRat (n + 1) g out k = .ok b → b.cert pa al = true := by
  intro g out b h
  cases g with
  | terminal e =>
    unfold lower at h
    simp only [] at h
    have hb : (if (e != IdExpr.int 0) = true then
        List.foldl (fun (b : SB F) f => b.add (Stmt.assign (Expr.var f) (Expr.boolLit true)))
          (SB.mk' (some "*** Computation of expression ***")) out.writtenFlags
        else SB.mk' (some "*** Computation of expression ***")).cert pa al = true := by
      split
      · apply SB.cert_foldl
        · simp
        · intro b a _ hb; simp [hb, Stmt.cert, Expr.cert]
      · simp
    split at h
    · obtain ⟨w, hw, h⟩ := bind_ok h
      cases pure_ok h
      rw [SB.cert_append, hb, writeAssignment_cert pa al _ _ _ (cert_toIrWith pa al ofRat e) hw]; rfl
    · cases pure_ok h; exact hb
  | sum ts =>
    unfold lower at h
    simp only [] at h
    split at h
    · obtain ⟨⟨nx, decls⟩, hnext, h⟩ := bind_ok h
      exact ihB _ _ _ _ (by simp [next_cert pa al _ _ _ _ hnext]) h
    · cases pure_ok h; simp
  | iter index output next =>
    unfold lower at h
    simp only [] at h
    split at h
    · cases pure_ok h; simp
    obtain ⟨⟨nextOut, decls⟩, hnext, h⟩ := bind_ok h
    have hdecls : decls.cert pa al = true := next_cert pa al _ _ _ _ hnext
    obtain ⟨b2, hfold, h⟩ := bind_ok h
    cases pure_ok h
    have hb2 : b2.cert pa al = true := by
      refine foldlM_inv (fun b => b.cert pa al = true) _ _ _ _ ?_ ?_ hfold
      · apply SB.cert_foldl
        · split <;> simp [hdecls, Expr.cert]
        · intro b a _ hb; simp [hb]
      · intro b sub b' _ hb hstep
        split at hstep
        · cases pure_ok hstep; exact hb
        obtain ⟨leaves, hleaves, hstep⟩ := bind_ok hstep
        cases pure_ok hstep
        have hl : ∀ p ∈ leaves, p.1.cert pa al = true ∧ p.2.cert pa al = true := by
          refine foldlM_inv (fun (acc : List (Expr F × Stmt F)) =>
            ∀ p ∈ acc, p.1.cert pa al = true ∧ p.2.cert pa al = true) _ _ _ _ (by simp) ?_ hleaves
          intro acc ss acc' _ hacc hss
          split at hss
          · cases pure_ok hss; exact hacc
          obtain ⟨inner, hinner, hss⟩ := bind_ok hss
          cases pure_ok hss
          have hi := ihA _ _ _ hinner
          intro p hp
          rcases List.mem_append.1 hp with hp | hp
          · exact hacc p hp
          · rw [List.mem_singleton] at hp
            subst hp
            constructor
            · apply cert_andJoin; simp [Expr.cert]
            · clear hfold hleaves hacc hp
              rw [SB.cert_finalize]
              cases output with
              | none => simp [hi, apply_ite (SB.cert pa al), Expr.cert]
              | some l =>
                simp [hi, SB.cert_lines, Expr.cert, apply_ite (SB.cert pa al), writeCrdAssembly_cert_eq,
                  writePosAllocation_cert_eq]
                cases hk : k.isAssemble <;> simp_all
        clear hfold hleaves
        simp only [SB.cert_loop, hb, Bool.true_and, Bool.and_eq_true]
        constructor
        · split
          · apply cert_andJoin; simp [Expr.cert]
          · simp [Expr.cert]
        · rw [SB.cert_lines]
          have hbj := cert_branchJoin pa al leaves hl
          have hmin : ∀ xs : List Leaf,
              (minJoin (xs.map fun l => (Expr.var (valueFromCrd l.tensor.id l.layer) : Expr F))).cert pa al = true :=
            fun xs => cert_minJoin pa al _ (by simp [Expr.cert])
          simp [apply_ite (SB.cert pa al), SB.cert_foldl_add, SB.cert_foldl_foldl_add, hbj, hmin, Expr.cert]
    clear hfold
    cases output <;> simp [hb2, apply_ite (SB.cert pa al)]

theorem lower_cert (pa : String → Bool) (al : Bool) (ofRat : Rat → F) (k : Kind)
    (hal : k.isAssemble = true → al = true) :
    ∀ fuel g out b, lower ofRat fuel g out k = .ok b → b.cert pa al = true := by
  intro fuel
  induction fuel with
  | zero =>
    intro g out b h
    unfold lower at h
    cases h
  | succ n ih =>
    exact lower_cert_succ pa al ofRat k hal n ih (lowerTerms_cert_of pa al ofRat k n ih)

theorem lowerTerms_cert (pa : String → Bool) (al : Bool) (ofRat : Rat → F) (k : Kind)
    (hal : k.isAssemble = true → al = true) (fuel : Nat) :
    ∀ ts out b0 b, b0.cert pa al = true → lowerTerms ofRat fuel ts out k b0 = .ok b → b.cert pa al = true :=
  lowerTerms_cert_of pa al ofRat k fuel (lower_cert pa al ofRat k hal fuel)

end TV.Gen
