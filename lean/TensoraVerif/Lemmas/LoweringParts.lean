import TensoraVerif.Lemmas.LoweringCert

/-!
The certificate `cert pa al` on the non-recursive pieces of the lowering pass:
`writeSparseInit`, `writeCrdAssembly`, `writePosAssembly`, `writePosAllocation`,
`bucketDeclarations`, `Output.writeAssignment`, `Output.next`, `appendDeclarations`, `appendCleanup`.
-/
namespace TV.Gen
open TV.IR TV.Graph
variable {F : Type}

@[simp] theorem writeSparseInit_cert (pa : String → Bool) (al : Bool) (leaf : Leaf) :
    (writeSparseInit leaf : SB F).cert pa al = true := by
  simp [writeSparseInit, Expr.cert]

@[simp] theorem writePosAssembly_cert (pa : String → Bool) (al : Bool) (out : Leaf) :
    (writePosAssembly out : SB F).cert pa al = true := by
  simp [writePosAssembly, Expr.cert, Stmt.cert]

theorem writeCrdAssembly_cert (pa : String → Bool) (al : Bool) (out : Leaf) (hal : al = true) :
    (writeCrdAssembly out : SB F).cert pa al = true := by
  simp [writeCrdAssembly, Expr.cert, Stmt.cert, certL, hal]

theorem writePosAllocation_cert (pa : String → Bool) (al : Bool) (out : Leaf) (hal : al = true) :
    (writePosAllocation out : SB F).cert pa al = true := by
  subst hal
  unfold writePosAllocation
  have hm : (mulJoin ((denseBelow out.tensor out.layer).map .var) : Expr F).cert pa true = true :=
    cert_mulJoin pa true _ (by simp [Expr.cert])
  simp only []
  split <;> simp [Expr.cert, Stmt.cert, certL, hm, apply_ite (Expr.cert pa true)]

theorem writeCrdAssembly_cert_eq (pa : String → Bool) (al : Bool) (out : Leaf) :
    (writeCrdAssembly out : SB F).cert pa al = al := by
  cases al
  · simp [writeCrdAssembly, Expr.cert, Stmt.cert, certL]
  · exact writeCrdAssembly_cert pa true out rfl

theorem writePosAllocation_cert_eq (pa : String → Bool) (al : Bool) (out : Leaf) :
    (writePosAllocation out : SB F).cert pa al = al := by
  cases al
  · unfold writePosAllocation
    simp only []
    split <;> simp [Expr.cert, Stmt.cert, certL]
  · exact writePosAllocation_cert pa true out rfl

theorem bucketDims_cert (pa : String → Bool) (al : Bool) (t : TensorId) (layers : List Nat) :
    ∀ x ∈ (bucketDims t layers : List (Expr F)), x.cert pa al = true := by
  simp [bucketDims, Expr.cert]

theorem bucketDeclarations_cert (pa : String → Bool) (al : Bool) (t : TensorId) (layers : List Nat)
    (rhs : Expr F) (h : rhs.cert pa al = true) : (bucketDeclarations t layers rhs).cert pa al = true := by
  have hm := cert_mulJoin pa al _ (bucketDims_cert (F := F) pa al t layers)
  simp [bucketDeclarations, Expr.cert, Stmt.cert, certL, h, hm]

theorem writeAssignment_cert (pa : String → Bool) (al : Bool) (o : Output) (rhs : Expr F) (b : SB F)
    (hr : rhs.cert pa al = true) (h : o.writeAssignment rhs = .ok b) : b.cert pa al = true := by
  unfold Output.writeAssignment at h
  split at h
  · split at h
    · cases h
    · cases h
      simp [Expr.cert, Stmt.cert, hr]
  · cases h
    rename_i t layers
    have hi := cert_ravelIndexes pa al (bucketDims (F := F) t layers) _ (bucketDims_cert pa al _ _)
      (by
        show ∀ x ∈ (layers.map fun l => (Expr.var (t.indexes.getD l "") : Expr F)), x.cert pa al = true
        simp [Expr.cert])
    simp [-List.getD_eq_getElem?_getD, Expr.cert, hr, hi]

theorem next_cert (pa : String → Bool) (al : Bool) (o : Output) (layer : Option Nat) (k : Kind)
    (r : Output × SB F) (h : o.next layer k = .ok r) : r.2.cert pa al = true := by
  unfold Output.next at h
  split at h
  · cases h; simp
  · split at h
    · cases h; simp
    · split at h
      · cases h
        simp only []
        split
        · apply bucketDeclarations_cert
          simp only [cert_plus, cert_times, Expr.cert, cert_prevLayerPointer, Bool.true_and]
          refine cert_mulJoin pa al _ (fun x hx => ?_)
          simp only [List.mem_map] at hx
          obtain ⟨i, _, rfl⟩ := hx
          simp [Expr.cert]
        · simp
      · cases h

/-! ### `appendDeclarations` -/

/-- the step function of the fold in `appendDeclarations` -/
def declStep (cap : Option Int) (t : TensorId) (k : Kind) (acc : SB F × Bool) (i : Nat) : SB F × Bool :=
  match t.modes.getD i .dense with
  | .dense => acc
  | .compressed =>
    let b := acc.1
    let b := if k.isAssemble then
        let posSize : Expr F := if acc.2
          then plus (mulJoin ((List.range i).map fun j => .var (dimName (t.indexes.getD j "")))) (.intLit 1)
          else defaultArraySize cap
        let posCap := posCapName t.name i
        let posArr : Expr F := .var (posName t.name i)
        let b := b.add (declAssignE posCap .int posSize)
        let b := b.add (.assign posArr (.alloc .int (.var posCap)))
        let b := b.add (.assign (.idx posArr (.intLit 0)) (.intLit 0))
        let crdCap := crdCapName t.name i
        let b := b.add (declAssignE crdCap .int (defaultArraySize cap))
        b.add (.assign (.var (crdName t.name i)) (.alloc .int (.var crdCap)))
      else b
    (b.add (declAssignE (layerPointer t.id i) .int (.intLit 0)), false)

theorem appendDeclarations_eq (cap : Option Int) (t : TensorId) (k : Kind) :
    (appendDeclarations cap t k : SB F) =
      if k.isAssemble then
        (((List.range t.modes.length).foldl (declStep cap t k) (SB.mk' (some "Output initialization"), true)).1.add
          (declAssignE (valsCapName t.name) .int
            (if ((List.range t.modes.length).foldl (declStep (F := F) cap t k) (SB.mk' (some "Output initialization"), true)).2
              then mulJoin ((List.range t.indexes.length).map fun (i : Nat) =>
                .idx (.attr (.var t.name) "dimensions") (.intLit (Int.ofNat i)))
              else defaultArraySize cap))).add
          (.assign (.var (valsName t.name)) (.alloc .float (.var (valsCapName t.name))))
      else ((List.range t.modes.length).foldl (declStep cap t k) (SB.mk' (some "Output initialization"), true)).1 := rfl

/-- the "all layers so far are dense" flag computed by the fold of `appendDeclarations` -/
theorem declStep_flag (cap : Option Int) (t : TensorId) (k : Kind) (xs : List Nat) (acc : SB F × Bool) :
    (xs.foldl (declStep cap t k) acc).2 = (acc.2 && xs.all fun i => t.modes.getD i .dense == .dense) := by
  induction xs generalizing acc with
  | nil => simp
  | cons x xs ih =>
    rw [List.foldl_cons, ih]
    unfold declStep
    cases hm : t.modes.getD x .dense <;> simp [-List.getD_eq_getElem?_getD, hm]

theorem declStep_cert (pa : String → Bool) (al : Bool) (cap : Option Int) (t : TensorId) (k : Kind)
    (hal : k.isAssemble = true → al = true) (xs : List Nat) (acc : SB F × Bool)
    (hacc : acc.1.cert pa al = true) : (xs.foldl (declStep cap t k) acc).1.cert pa al = true := by
  refine foldl_inv (fun (acc : SB F × Bool) => acc.1.cert pa al = true) _ xs acc hacc ?_
  intro acc i _ hacc
  unfold declStep
  split
  · exact hacc
  · simp only []
    have hm : (mulJoin ((List.range i).map fun j => (Expr.var (dimName (t.indexes.getD j "")) : Expr F))).cert pa al = true :=
      cert_mulJoin pa al _ (by simp [Expr.cert])
    split
    · rename_i hk
      obtain rfl := hal hk
      simp [-List.getD_eq_getElem?_getD, Expr.cert, Stmt.cert, hacc, hm, apply_ite (Expr.cert pa true)]
    · simp [Expr.cert, hacc]

/-- `appendDeclarations` allocates only in assembling kernels, and reads `dimensions` only in an
assembling kernel whose output is all-dense. -/
theorem appendDeclarations_cert (pa : String → Bool) (al : Bool) (cap : Option Int) (t : TensorId) (k : Kind)
    (hal : k.isAssemble = true → al = true)
    (hpa : k.isAssemble = true →
      ((List.range t.modes.length).all fun i => t.modes.getD i .dense == .dense) = true →
      pa "dimensions" = true) :
    (appendDeclarations cap t k : SB F).cert pa al = true := by
  rw [appendDeclarations_eq]
  have hstep := declStep_cert (F := F) pa al cap t k hal (List.range t.modes.length)
    (SB.mk' (some "Output initialization"), true) (by simp)
  split
  · rename_i hk
    obtain rfl := hal hk
    simp only [SB.cert_add, cert_declAssignE, hstep, Bool.true_and, Stmt.cert, Expr.cert,
      Bool.and_true]
    split
    · rename_i hs
      rw [declStep_flag] at hs
      have hd := hpa hk (by simpa using hs)
      apply cert_mulJoin
      simp [Expr.cert, hd]
    · simp
  · exact hstep

/-! ### `appendCleanup` -/

theorem appendCleanup_cert (pa : String → Bool) (al : Bool) (t : TensorId) (k : Kind)
    (hal : k.isAssemble = true → al = true)
    (hpa : k.isAssemble = true → pa "indices" = true ∧ pa "vals" = true) :
    (appendCleanup t k : SB F).cert pa al = true := by
  unfold appendCleanup
  simp only []
  split
  · simp
  · rename_i hk
    have hk : k.isAssemble = true := by simpa using hk
    obtain rfl := hal hk
    obtain ⟨hi, hv⟩ := hpa hk
    have hstep := foldl_inv
      (fun (acc : SB F × Bool × Expr F × Expr F) =>
        acc.1.cert pa true = true ∧ acc.2.2.1.cert pa true = true ∧ acc.2.2.2.cert pa true = true)
      (fun (acc : SB F × Bool × Expr F × Expr F) i =>
        let (b, allDense, prevSize, padded) := acc
        match t.modes.getD i .dense with
        | .dense =>
          let d : Expr F := .var (dimName (t.indexes.getD i ""))
          (b, allDense, times prevSize d, times padded d)
        | .compressed =>
          let posArr : Expr F := .var (posName t.name i)
          let b := if !allDense then b.add (.assign posArr (.realloc posArr .int (plus prevSize (.intLit 1)))) else b
          let crdArr : Expr F := .var (crdName t.name i)
          let final : Expr F := .var (layerPointer t.id i)
          let b := b.add (.assign crdArr (.realloc crdArr .int final))
          let b := b.add (.assign (.idx (.idx (.attr (.var t.name) "indices") (.intLit i)) (.intLit 0)) posArr)
          let b := b.add (.assign (.idx (.idx (.attr (.var t.name) "indices") (.intLit i)) (.intLit 1)) crdArr)
          (b, false, final, plus final (.intLit 1)))
      (List.range t.modes.length)
      (SB.mk' (some ("Assembling output tensor " ++ t.name)), true, (.intLit 1 : Expr F), (.intLit 1 : Expr F))
      (by simp [Expr.cert])
      (by
        intro acc i _ hacc
        obtain ⟨b, allDense, prevSize, padded⟩ := acc
        obtain ⟨h1, h2, h3⟩ := hacc
        simp only [] at h1 h2 h3
        simp only []
        split
        · simp [Expr.cert, h1, h2, h3]
        · split <;> simp [Expr.cert, Stmt.cert, h1, h2, hi])
    revert hstep
    generalize List.foldl _ _ _ = step
    obtain ⟨b, allDense, prevSize, padded⟩ := step
    rintro ⟨h1, h2, h3⟩
    simp only [] at h1 h2 h3
    simp only []
    split <;> simp [Expr.cert, Stmt.cert, h1, h3, hv]

end TV.Gen
