import TensoraVerif.Model.IR

/-!
The peephole optimiser preserves the syntactic certificates `noAlloc` and `deadVar`: it only deletes
statements, or replaces an expression by one of its sub-expressions or a literal.
-/
namespace TV.IR
variable {F : Type} [FloatOps F]

/-! ### `noAlloc` -/

theorem noAllocE_peepBin (op : BinOp) (l r : Expr F) (hl : l.noAllocE = true) (hr : r.noAllocE = true) :
    (peepBin op l r).noAllocE = true := by
  cases op <;> simp only [peepBin] <;> (repeat' split) <;> simp_all [Expr.noAllocE]

theorem noAllocE_peepE (e : Expr F) (h : e.noAllocE = true) : (peepE e).noAllocE = true := by
  induction e with
  | var n => simpa [peepE] using h
  | attr t a ih => simp only [Expr.noAllocE] at h; simp [peepE, Expr.noAllocE, ih h]
  | idx t i iht ihi =>
    simp only [Expr.noAllocE, Bool.and_eq_true] at h
    simp [peepE, Expr.noAllocE, iht h.1, ihi h.2]
  | intLit v => simp [peepE, Expr.noAllocE]
  | floatLit v => simp [peepE, Expr.noAllocE]
  | boolLit b => simp [peepE, Expr.noAllocE]
  | bin op l r ihl ihr =>
    simp only [Expr.noAllocE, Bool.and_eq_true] at h
    simp only [peepE]
    exact noAllocE_peepBin op _ _ (ihl h.1) (ihr h.2)
  | b2i e ih =>
    simp only [Expr.noAllocE] at h
    simp only [peepE]
    split
    · simp [Expr.noAllocE]
    · split
      · simp [Expr.noAllocE]
      · simp [Expr.noAllocE, ih h]
  | alloc t n _ => simp [Expr.noAllocE] at h
  | realloc o t n _ _ => simp [Expr.noAllocE] at h

mutual
theorem noAlloc_peepS (s : Stmt F) (h : s.noAlloc = true) : (peepS s).noAlloc = true := by
  cases s with
  | expr e => simp only [Stmt.noAlloc] at h; simp [peepS, Stmt.noAlloc, noAllocE_peepE e h]
  | decl n t => simp [peepS, Stmt.noAlloc]
  | assign t v =>
    simp only [Stmt.noAlloc, Bool.and_eq_true] at h
    simp only [peepS]
    split
    · simp [Stmt.noAlloc, noAllocL]
    · simp [Stmt.noAlloc, noAllocE_peepE t h.1, noAllocE_peepE v h.2]
  | declAssign n t v => simp only [Stmt.noAlloc] at h; simp [peepS, Stmt.noAlloc, noAllocE_peepE v h]
  | block ss c =>
    simp only [Stmt.noAlloc] at h
    simp [peepS, Stmt.noAlloc, noAllocL_peepL ss h]
  | branch c t f =>
    simp only [Stmt.noAlloc, Bool.and_eq_true] at h
    have ht := noAlloc_peepS t h.1.2
    have hf := noAlloc_peepS f h.2
    simp only [peepS]
    split
    · exact ht
    · split
      · exact hf
      · split
        · simp [Stmt.noAlloc, noAllocL]
        · simp [Stmt.noAlloc, noAllocE_peepE c h.1.1, ht, hf]
  | loop c b =>
    simp only [Stmt.noAlloc, Bool.and_eq_true] at h
    have hb := noAlloc_peepS b h.2
    simp only [peepS]
    split
    · simp [Stmt.noAlloc, noAllocL]
    · split
      · simp [Stmt.noAlloc, noAllocL]
      · simp [Stmt.noAlloc, noAllocE_peepE c h.1, hb]
  | ret e => simp only [Stmt.noAlloc] at h; simp [peepS, Stmt.noAlloc, noAllocE_peepE e h]
theorem noAllocL_peepL (ss : List (Stmt F)) (h : noAllocL ss = true) : noAllocL (peepL ss) = true := by
  cases ss with
  | nil => simp [peepL, noAllocL]
  | cons s ss =>
    simp only [noAllocL, Bool.and_eq_true] at h
    have hs := noAlloc_peepS s h.1
    have hss := noAllocL_peepL ss h.2
    simp only [peepL]
    split
    · exact hss
    · simp [noAllocL, hs, hss]
end

/-! ### `mentions` / `deadVar` -/

theorem mentions_peepBin (x : String) (op : BinOp) (l r : Expr F)
    (hl : l.mentions x = false) (hr : r.mentions x = false) : (peepBin op l r).mentions x = false := by
  cases op <;> simp only [peepBin] <;> (repeat' split) <;> simp_all [Expr.mentions]

theorem mentions_peepE (x : String) (e : Expr F) (h : e.mentions x = false) : (peepE e).mentions x = false := by
  induction e with
  | var n => simpa [peepE] using h
  | attr t a ih => simp only [Expr.mentions] at h; simp [peepE, Expr.mentions, ih h]
  | idx t i iht ihi =>
    simp only [Expr.mentions, Bool.or_eq_false_iff] at h
    simp [peepE, Expr.mentions, iht h.1, ihi h.2]
  | intLit v => simp [peepE, Expr.mentions]
  | floatLit v => simp [peepE, Expr.mentions]
  | boolLit b => simp [peepE, Expr.mentions]
  | bin op l r ihl ihr =>
    simp only [Expr.mentions, Bool.or_eq_false_iff] at h
    simp only [peepE]
    exact mentions_peepBin x op _ _ (ihl h.1) (ihr h.2)
  | b2i e ih =>
    simp only [Expr.mentions] at h
    simp only [peepE]
    split
    · simp [Expr.mentions]
    · split
      · simp [Expr.mentions]
      · simp [Expr.mentions, ih h]
  | alloc t n ih => simp only [Expr.mentions] at h; simp [peepE, Expr.mentions, ih h]
  | realloc o t n iho ihn =>
    simp only [Expr.mentions, Bool.or_eq_false_iff] at h
    simp [peepE, Expr.mentions, iho h.1, ihn h.2]

mutual
theorem deadVar_peepS (x : String) (s : Stmt F) (h : s.deadVar x = true) : (peepS s).deadVar x = true := by
  cases s with
  | expr e =>
    simp only [Stmt.deadVar, Bool.not_eq_true'] at h
    simp [peepS, Stmt.deadVar, mentions_peepE x e h]
  | decl n t => simp [peepS, Stmt.deadVar]
  | assign t v =>
    simp only [Stmt.deadVar, Bool.and_eq_true, Bool.not_eq_true'] at h
    simp only [peepS]
    split
    · simp [Stmt.deadVar, deadVarL]
    · simp [Stmt.deadVar, mentions_peepE x t h.1, mentions_peepE x v h.2]
  | declAssign n t v =>
    simp only [Stmt.deadVar, Bool.not_eq_true'] at h
    simp [peepS, Stmt.deadVar, mentions_peepE x v h]
  | block ss c =>
    simp only [Stmt.deadVar] at h
    simp [peepS, Stmt.deadVar, deadVarL_peepL x ss h]
  | branch c t f =>
    simp only [Stmt.deadVar, Bool.and_eq_true, Bool.not_eq_true'] at h
    have ht := deadVar_peepS x t h.1.2
    have hf := deadVar_peepS x f h.2
    simp only [peepS]
    split
    · exact ht
    · split
      · exact hf
      · split
        · simp [Stmt.deadVar, deadVarL]
        · simp [Stmt.deadVar, mentions_peepE x c h.1.1, ht, hf]
  | loop c b =>
    simp only [Stmt.deadVar, Bool.and_eq_true, Bool.not_eq_true'] at h
    have hb := deadVar_peepS x b h.2
    simp only [peepS]
    split
    · simp [Stmt.deadVar, deadVarL]
    · split
      · simp [Stmt.deadVar, deadVarL]
      · simp [Stmt.deadVar, mentions_peepE x c h.1, hb]
  | ret e =>
    simp only [Stmt.deadVar, Bool.not_eq_true'] at h
    simp [peepS, Stmt.deadVar, mentions_peepE x e h]
theorem deadVarL_peepL (x : String) (ss : List (Stmt F)) (h : deadVarL x ss = true) :
    deadVarL x (peepL ss) = true := by
  cases ss with
  | nil => simp [peepL, deadVarL]
  | cons s ss =>
    simp only [deadVarL, Bool.and_eq_true] at h
    have hs := deadVar_peepS x s h.1
    have hss := deadVarL_peepL x ss h.2
    simp only [peepL]
    split
    · exact hss
    · simp [deadVarL, hs, hss]
end

end TV.IR
