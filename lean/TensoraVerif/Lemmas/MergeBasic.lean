import TensoraVerif.Lemmas.MergePure
import TensoraVerif.Lemmas.GrowthAppend

/-!
C05 (merge loop), part 2: the skeleton of the co-iteration loop as IR (built from the helper functions of
`TV.Gen` that `lower` uses), the state invariant, runs that count loop iterations, and the evaluation of the
small expressions the skeleton is made of.
-/
namespace TV.Merge
open TV.IR TV.Gen TV.Graph TV.Growth

set_option linter.unusedSectionVars false
variable {F : Type} [FloatOps F]

/-! ### the skeleton -/

/-- `p_l1 < p_l1_end && … && p_lk < p_lk_end` -/
def mergeCond (L : List Leaf) : Expr F :=
  andJoin (L.map fun l => .bin .lt (.var l.ptr) (.var (sparseEndName l.tensor.id l.layer)))

/-- `int i_l = crd_l[p_l];` for every leaf -/
def mergeLoads (L : List Leaf) : List (Stmt F) :=
  L.map fun l => declAssignE (valueFromCrd l.tensor.id l.layer) .int
    (.idx (.var (crdName l.tensor.name l.layer)) (.var l.ptr))

/-- `int i = min(i_l1, …, i_lk);` -/
def mergeMin (L : List Leaf) (i : String) : Stmt F :=
  declAssignE i .int (minJoin (L.map fun l => .var (valueFromCrd l.tensor.id l.layer)))

/-- `p_l += (int32_t)(i_l == i);` for every leaf -/
def mergeIncs (L : List Leaf) (i : String) : List (Stmt F) :=
  L.map fun l => increment (.var l.ptr) (.b2i (.bin .eq (.var (valueFromCrd l.tensor.id l.layer)) (.var i)))

/-- the statements of one iteration; `mid` is whatever `lower` puts between the `min` and the increments
(the dense pointer computations and the `branchJoin …` statement) -/
def mergeBodyL (L : List Leaf) (i : String) (mid : List (Stmt F)) : List (Stmt F) :=
  mergeLoads L ++ [mergeMin L i] ++ mid ++ mergeIncs L i

/-- **the skeleton** of the co-iteration loop over the sparse leaves `L` and index `i` -/
def mergeLoopL (L : List Leaf) (i : String) (mid : List (Stmt F)) : Stmt F :=
  .loop (mergeCond L) (.block (mergeBodyL L i mid) none)

/-- the skeleton with a single BODY statement -/
def mergeLoop (L : List Leaf) (i : String) (body : Stmt F) : Stmt F := mergeLoopL L i [body]

/-! ### names -/
def Cur.ptrN (c : Cur) : String := c.leaf.ptr
def Cur.endN (c : Cur) : String := sparseEndName c.leaf.tensor.id c.leaf.layer
def Cur.crdN (c : Cur) : String := crdName c.leaf.tensor.name c.leaf.layer
def Cur.valN (c : Cur) : String := valueFromCrd c.leaf.tensor.id c.leaf.layer

@[simp] theorem adv_ptrN (m : Int) (c : Cur) : (c.adv m).ptrN = c.ptrN := rfl
@[simp] theorem adv_endN (m : Int) (c : Cur) : (c.adv m).endN = c.endN := rfl
@[simp] theorem adv_crdN (m : Int) (c : Cur) : (c.adv m).crdN = c.crdN := rfl
@[simp] theorem adv_valN (m : Int) (c : Cur) : (c.adv m).valN = c.valN := rfl

/-- all the variable names of the skeleton: the loop index, then cursors, ends, `crd` arrays, loaded
coordinates -/
def curNames (cs : List Cur) (i : String) : List String :=
  i :: (cs.map Cur.ptrN ++ cs.map Cur.endN ++ cs.map Cur.crdN ++ cs.map Cur.valN)

theorem curNames_adv (m : Int) (cs : List Cur) (i : String) : curNames (cs.map (Cur.adv m)) i = curNames cs i := by
  simp [curNames, List.map_map, Function.comp_def]

/-! ### the state invariant -/

/-- `x` can be (re)declared as an `int`: it is undeclared or already an `int` -/
def DeclOK (σ : State F) (x : String) : Prop := ∀ r, lookupVar σ.vars x = some r → r.ty = .int

/-- The invariant of one leaf: the `crd` variable points to the live `int` block `blk`; cursor and end are
`int` variables holding `p ≤ e ≤ len(blk)`, `e < 2^31`; the cells `[p, e)` are initialised and hold the
(32-bit) coordinates `crd p … crd (e-1)`. -/
structure CurInv (σ : State F) (c : Cur) : Prop where
  crdv : PtrVar σ c.crdN c.blk
  ptrv : IntVar σ c.ptrN c.p
  endv : IntVar σ c.endN c.e
  le : c.p ≤ c.e
  lt : (c.e : Int) < 2147483648
  cells : ∃ blk, σ.heap[c.blk]? = some blk ∧ blk.live = true ∧ blk.ty = .int ∧ c.e ≤ blk.cells.length ∧
    ∀ j, c.p ≤ j → j < c.e → blk.cells[j]? = some (some (.int (c.crd j)))
  rng : ∀ j, c.p ≤ j → j < c.e → -2147483648 ≤ c.crd j ∧ c.crd j < 2147483648

/-- The loop invariant: `CurInv` for every leaf, and the per-iteration variables `i_l`, `i` are declarable -/
structure MergeInv (σ : State F) (cs : List Cur) (i : String) : Prop where
  cur : ∀ c ∈ cs, CurInv σ c
  val : ∀ c ∈ cs, DeclOK σ c.valN
  idx : DeclOK σ i

theorem DeclOK.congr {σ σ' : State F} {x : String} (h : DeclOK σ x)
    (e : lookupVar σ'.vars x = lookupVar σ.vars x) : DeclOK σ' x := by
  intro r hr; rw [e] at hr; exact h r hr

theorem DeclOK.of_intVar {σ : State F} {x : String} {v : Int} (h : IntVar σ x v) : DeclOK σ x := by
  obtain ⟨r, h1, h2, _⟩ := h
  intro r' hr'; rw [h1] at hr'; cases hr'; exact h2

/-- `CurInv` only looks at the three variables of the leaf and at its block -/
theorem CurInv.congr {σ σ' : State F} {c : Cur} (h : CurInv σ c)
    (e1 : lookupVar σ'.vars c.crdN = lookupVar σ.vars c.crdN)
    (e2 : lookupVar σ'.vars c.ptrN = lookupVar σ.vars c.ptrN)
    (e3 : lookupVar σ'.vars c.endN = lookupVar σ.vars c.endN)
    (e4 : σ'.heap[c.blk]? = σ.heap[c.blk]?) : CurInv σ' c :=
  ⟨h.crdv.congr e1, h.ptrv.congr e2, h.endv.congr e3, h.le, h.lt, by rw [e4]; exact h.cells, h.rng⟩

/-- advancing the cursor (in the record and in the state) keeps the invariant -/
theorem CurInv.adv {σ σ' : State F} {c : Cur} {m : Int} (h : CurInv σ c) (hlt : c.p < c.e)
    (e1 : lookupVar σ'.vars c.crdN = lookupVar σ.vars c.crdN)
    (e2 : IntVar σ' c.ptrN (c.adv m).p)
    (e3 : lookupVar σ'.vars c.endN = lookupVar σ.vars c.endN)
    (e4 : σ'.heap[c.blk]? = σ.heap[c.blk]?) : CurInv σ' (c.adv m) := by
  have hge := adv_p_ge m c
  refine ⟨h.crdv.congr e1, e2, h.endv.congr e3, adv_le_e hlt, h.lt, ?_, ?_⟩
  · obtain ⟨blk, b1, b2, b3, b4, b5⟩ := h.cells
    refine ⟨blk, by rw [adv_blk, e4]; exact b1, b2, b3, b4, ?_⟩
    intro j h1 h2
    exact b5 j (Nat.le_trans hge h1) h2
  · intro j h1 h2
    exact h.rng j (Nat.le_trans hge h1) h2

/-! ### runs that count iterations -/

/-- `s` runs from `σ` without error and without `return`, ends in `σ'` and performs `n` loop iterations -/
def RunsN (fuel : Nat) (s : Stmt F) (σ σ' : State F) (n : Nat) : Prop :=
  ∃ o, exec fuel s σ = .ok o ∧ o.ret = none ∧ o.st = σ' ∧ o.iters = n

def RunsLN (fuel : Nat) (ss : List (Stmt F)) (σ σ' : State F) (n : Nat) : Prop :=
  ∃ o, execL fuel ss σ = .ok o ∧ o.ret = none ∧ o.st = σ' ∧ o.iters = n

theorem RunsLN.nil (fuel : Nat) (σ : State F) : RunsLN fuel [] σ σ 0 :=
  ⟨⟨σ, none, 0, 0⟩, by rw [execL.eq_1], rfl, rfl, rfl⟩

theorem RunsLN.cons {fuel : Nat} {s : Stmt F} {ss : List (Stmt F)} {σ σ1 σ2 : State F} {n1 n2 : Nat}
    (h1 : RunsN fuel s σ σ1 n1) (h2 : RunsLN fuel ss σ1 σ2 n2) : RunsLN fuel (s :: ss) σ σ2 (n1 + n2) := by
  obtain ⟨o1, e1, r1, s1, i1⟩ := h1
  obtain ⟨o2, e2, r2, s2, i2⟩ := h2
  subst s1
  refine ⟨o1.seq o2, ?_, r2, s2, by simp [Out.seq, i1, i2]⟩
  rw [execL.eq_2, e1]
  simp only [bind, Except.bind, r1, e2]

theorem RunsLN.append {fuel : Nat} {ss ts : List (Stmt F)} {σ σ1 σ2 : State F} {n1 n2 : Nat}
    (h1 : RunsLN fuel ss σ σ1 n1) (h2 : RunsLN fuel ts σ1 σ2 n2) : RunsLN fuel (ss ++ ts) σ σ2 (n1 + n2) := by
  induction ss generalizing σ n1 with
  | nil =>
    obtain ⟨o, e, _, s, i⟩ := h1
    rw [execL.eq_1] at e; cases e; cases s; cases i
    simpa using h2
  | cons s ss ih =>
    obtain ⟨o, e, r, st, it⟩ := h1
    rw [execL.eq_2] at e
    obtain ⟨o1, e1, e⟩ := Frame.bind_ok e
    cases hr : o1.ret with
    | some x => simp only [hr] at e; cases e; rw [hr] at r; cases r
    | none =>
      simp only [hr] at e
      obtain ⟨o2, e2, e⟩ := Frame.bind_ok e
      cases e
      have := RunsLN.cons (n1 := o1.iters) ⟨o1, e1, hr, rfl, rfl⟩ (ih (n1 := o2.iters) ⟨o2, e2, r, st, rfl⟩)
      have hit : n1 = o1.iters + o2.iters := by rw [← it]; rfl
      rw [hit, Nat.add_assoc]
      exact this

theorem RunsN.block {fuel : Nat} {ss : List (Stmt F)} {c : Option String} {σ σ' : State F} {n : Nat}
    (h : RunsLN fuel ss σ σ' n) : RunsN fuel (.block ss c) σ σ' n := by
  obtain ⟨o, e, r, s, i⟩ := h
  exact ⟨o, by rw [exec.eq_5]; exact e, r, s, i⟩

/-! ### single statements -/

/-- `int x = e;` where `x` is undeclared or already an `int` -/
theorem declInt_run {fuel : Nat} {x : String} {e : Expr F} {σ : State F} {z : Int}
    (hd : DeclOK σ x) (he : evalE σ e = .ok (.int z)) :
    ∃ σ', RunsN fuel (.declAssign x .int e) σ σ' 0 ∧ IntVar σ' x z ∧
      (∀ y, y ≠ x → lookupVar σ'.vars y = lookupVar σ.vars y) ∧ σ'.heap = σ.heap ∧
      σ'.tensors = σ.tensors := by
  cases hx : lookupVar σ.vars x with
  | none =>
    refine ⟨{ σ with vars := σ.vars ++ [⟨x, .int, some (.int z)⟩] }, ⟨⟨_, none, 0, 1⟩, ?_, rfl, rfl, rfl⟩,
      ⟨_, lookupVar_append_fresh (r := ⟨x, .int, some (.int z)⟩) hx, rfl, rfl⟩, ?_, rfl, rfl⟩
    · rw [exec.eq_4, evalRhs_of_ok he]
      simp [bind, Except.bind, convTo, declare, hx]
    · intro y hy
      exact lookupVar_append_other (r := ⟨x, .int, some (.int z)⟩) hy
  | some r =>
    have hr : r.ty = .int := hd r hx
    refine ⟨{ σ with vars := setVarOpt σ.vars x (some (.int z)) }, ⟨⟨_, none, 0, 1⟩, ?_, rfl, rfl, rfl⟩,
      ⟨_, lookupVar_setVarOpt_same _ hx, hr, rfl⟩, ?_, rfl, rfl⟩
    · rw [exec.eq_4, evalRhs_of_ok he]
      simp [bind, Except.bind, convTo, declare, hx, hr]
    · intro y hy
      exact lookupVar_setVarOpt_other _ hy

/-- `x = e;` for an `int` variable -/
theorem assignInt_run {fuel : Nat} {x : String} {e : Expr F} {σ : State F} {v0 v : Int}
    (hx : IntVar σ x v0) (he : evalE σ e = .ok (.int v)) :
    ∃ σ', RunsN fuel (.assign (.var x) e) σ σ' 0 ∧ IntVar σ' x v ∧
      (∀ y, y ≠ x → lookupVar σ'.vars y = lookupVar σ.vars y) ∧ σ'.heap = σ.heap ∧
      σ'.tensors = σ.tensors := by
  obtain ⟨r, e1, e2, e3⟩ := hx
  refine ⟨{ σ with vars := setVar σ.vars x (.int v) }, ⟨⟨_, none, 0, 1⟩, ?_, rfl, rfl, rfl⟩,
    ⟨_, lookupVar_setVar_same _ e1, e2, rfl⟩, ?_, rfl, rfl⟩
  · rw [exec.eq_3, evalRhs_of_ok he]
    simp [bind, Except.bind, evalLoc, store, e1, e2, convTo]
  · intro y hy
    exact lookupVar_setVar_other _ hy

/-! ### expressions -/

theorem evalE_lt {σ : State F} {l r : Expr F} {x y : Int} (hl : evalE σ l = .ok (.int x))
    (hr : evalE σ r = .ok (.int y)) :
    evalE σ (.bin .lt l r) = .ok (.bool (decide (x < y))) := by
  simp [evalE, hl, hr, bind, Except.bind, binVal, Val.toNum, numOp]

theorem evalE_eqInt {σ : State F} {l r : Expr F} {x y : Int} (hl : evalE σ l = .ok (.int x))
    (hr : evalE σ r = .ok (.int y)) :
    evalE σ (.bin .eq l r) = .ok (.bool (x == y)) := by
  simp [evalE, hl, hr, bind, Except.bind, binVal, Val.toNum, numOp]

theorem evalE_min {σ : State F} {l r : Expr F} {x y : Int} (hl : evalE σ l = .ok (.int x))
    (hr : evalE σ r = .ok (.int y)) :
    evalE σ (.bin .min l r) = .ok (.int (min x y)) := by
  have : (if x < y then x else y) = min x y := by
    by_cases h : x < y
    · rw [if_pos h, Int.min_eq_left (Int.le_of_lt h)]
    · rw [if_neg h, Int.min_eq_right (by omega)]
  simp [evalE, hl, hr, bind, Except.bind, binVal, Val.toNum, numOp, this]

theorem evalE_b2i {σ : State F} {e : Expr F} {b : Bool} (h : evalE σ e = .ok (.bool b)) :
    evalE σ (.b2i e) = .ok (.int (if b then 1 else 0)) := by
  simp [evalE, h, bind, Except.bind]

theorem evalE_and {σ : State F} {l r : Expr F} {a b : Bool} (hl : evalE σ l = .ok (.bool a))
    (hr : evalE σ r = .ok (.bool b)) :
    evalE σ (.bin .and l r) = .ok (.bool (a && b)) := by
  cases a <;> simp [evalE, hl, hr, bind, Except.bind]

/-- **the coordinate load is in bounds**: `crd_l[p_l]` with `p_l < e_l` reads the stored coordinate -/
theorem evalE_load {σ : State F} {c : Cur} (h : CurInv σ c) (hlt : c.p < c.e) :
    evalE σ (.idx (.var c.crdN) (.var c.ptrN)) = .ok (.int c.here) := by
  have e1 := evalE_var_ptr h.crdv
  have hl := h.lt
  have e2 := evalE_var_int h.ptrv (by omega) (by omega)
  obtain ⟨blk, b1, b2, b3, b4, b5⟩ := h.cells
  have hc := b5 c.p (Nat.le_refl _) hlt
  obtain ⟨r1, r2⟩ := h.rng c.p (Nat.le_refl _) hlt
  have hlen : ¬ ((c.p : Int) ≥ (blk.len : Int)) := by
    unfold Block.len; omega
  rw [evalE.eq_3, e1, e2]
  simp [bind, Except.bind, readBlock, b1, b2, b3, hlen, hc, hasElemTy, chkVal, chkInt,
    inI32_of r1 r2, Cur.here]

end TV.Merge
