import TensoraVerif.Lemmas.MergeBasic

/-!
C05 (merge loop), part 3: the loop test, the coordinate loads, the `min`, and the increments, for an
arbitrary list of leaves; then one whole iteration of the skeleton around an arbitrary `mid` that satisfies
the frame condition `MidOK`.
-/
namespace TV.Merge
open TV.IR TV.Gen TV.Graph TV.Growth

set_option linter.unusedSectionVars false
variable {F : Type} [FloatOps F]

/-! ### the skeleton in terms of cursor records -/
def loadsOf (cs : List Cur) : List (Stmt F) :=
  cs.map fun c => declAssignE c.valN .int (.idx (.var c.crdN) (.var c.ptrN))
def incsOf (cs : List Cur) (i : String) : List (Stmt F) :=
  cs.map fun c => increment (.var c.ptrN) (.b2i (.bin .eq (.var c.valN) (.var i)))

theorem mergeCond_map (cs : List Cur) :
    (mergeCond (cs.map Cur.leaf) : Expr F) = andJoin (cs.map fun c => .bin .lt (.var c.ptrN) (.var c.endN)) := by
  simp [mergeCond, List.map_map, Function.comp_def, Cur.ptrN, Cur.endN]
theorem mergeLoads_map (cs : List Cur) : (mergeLoads (cs.map Cur.leaf) : List (Stmt F)) = loadsOf cs := by
  simp [mergeLoads, loadsOf, List.map_map, Function.comp_def, Cur.ptrN, Cur.crdN, Cur.valN]
theorem mergeMin_map (cs : List Cur) (i : String) :
    (mergeMin (cs.map Cur.leaf) i : Stmt F) = declAssignE i .int (minJoin (cs.map fun c => .var c.valN)) := by
  simp [mergeMin, List.map_map, Function.comp_def, Cur.valN]
theorem mergeIncs_map (cs : List Cur) (i : String) :
    (mergeIncs (cs.map Cur.leaf) i : List (Stmt F)) = incsOf cs i := by
  simp [mergeIncs, incsOf, List.map_map, Function.comp_def, Cur.ptrN, Cur.valN]

/-! ### names -/

/-- the names the skeleton itself writes: the loop index, the cursors, the loaded coordinates -/
def writtenNames (cs : List Cur) (i : String) : List String := i :: (cs.map Cur.ptrN ++ cs.map Cur.valN)

theorem writtenNames_adv (m : Int) (cs : List Cur) (i : String) :
    writtenNames (cs.map (Cur.adv m)) i = writtenNames cs i := by
  simp [writtenNames, List.map_map, Function.comp_def]

/-- what the proofs use of "the names are pairwise distinct" -/
structure NamesOK (cs : List Cur) (i : String) : Prop where
  i_ne : ∀ c ∈ cs, i ≠ c.ptrN ∧ i ≠ c.endN ∧ i ≠ c.crdN ∧ i ≠ c.valN
  ptr_pw : cs.Pairwise (fun a b => a.ptrN ≠ b.ptrN)
  val_pw : cs.Pairwise (fun a b => a.valN ≠ b.valN)
  cross : ∀ a ∈ cs, ∀ b ∈ cs, a.ptrN ≠ b.endN ∧ a.ptrN ≠ b.crdN ∧ a.ptrN ≠ b.valN ∧ a.endN ≠ b.crdN ∧
    a.endN ≠ b.valN ∧ a.crdN ≠ b.valN

theorem NamesOK.of_nodup {cs : List Cur} {i : String} (h : (curNames cs i).Nodup) : NamesOK cs i := by
  unfold curNames at h
  rw [List.nodup_cons] at h
  obtain ⟨hi, h⟩ := h
  rw [List.nodup_append] at h
  obtain ⟨h, hV, hxV⟩ := h
  rw [List.nodup_append] at h
  obtain ⟨h, _, hxC⟩ := h
  rw [List.nodup_append] at h
  obtain ⟨hP, _, hxE⟩ := h
  have mP : ∀ c ∈ cs, c.ptrN ∈ cs.map Cur.ptrN := fun c hc => List.mem_map_of_mem hc
  have mE : ∀ c ∈ cs, c.endN ∈ cs.map Cur.endN := fun c hc => List.mem_map_of_mem hc
  have mC : ∀ c ∈ cs, c.crdN ∈ cs.map Cur.crdN := fun c hc => List.mem_map_of_mem hc
  have mV : ∀ c ∈ cs, c.valN ∈ cs.map Cur.valN := fun c hc => List.mem_map_of_mem hc
  refine ⟨?_, ?_, ?_, ?_⟩
  · intro c hc
    refine ⟨?_, ?_, ?_, ?_⟩ <;> intro e <;> apply hi <;> rw [e] <;>
      simp only [List.mem_append] <;> simp [mP c hc, mE c hc, mC c hc, mV c hc]
  · exact List.pairwise_map.1 hP
  · exact List.pairwise_map.1 hV
  · intro a ha b hb
    refine ⟨hxE _ (mP a ha) _ (mE b hb), ?_, ?_, ?_, ?_, ?_⟩
    · exact hxC _ (List.mem_append_left _ (mP a ha)) _ (mC b hb)
    · exact hxV _ (List.mem_append_left _ (List.mem_append_left _ (mP a ha))) _ (mV b hb)
    · exact hxC _ (List.mem_append_right _ (mE a ha)) _ (mC b hb)
    · exact hxV _ (List.mem_append_left _ (List.mem_append_right _ (mE a ha))) _ (mV b hb)
    · exact hxV _ (List.mem_append_right _ (mC a ha)) _ (mV b hb)

theorem NamesOK.adv {cs : List Cur} {i : String} (m : Int) (h : NamesOK cs i) :
    NamesOK (cs.map (Cur.adv m)) i := by
  refine ⟨?_, ?_, ?_, ?_⟩
  · intro c hc
    obtain ⟨d, hd, rfl⟩ := List.mem_map.1 hc
    exact h.i_ne d hd
  · rw [List.pairwise_map]; exact h.ptr_pw
  · rw [List.pairwise_map]; exact h.val_pw
  · intro a ha b hb
    obtain ⟨a', ha', rfl⟩ := List.mem_map.1 ha
    obtain ⟨b', hb', rfl⟩ := List.mem_map.1 hb
    exact h.cross a' ha' b' hb'

theorem mem_curNames {cs : List Cur} {i : String} {c : Cur} (hc : c ∈ cs) :
    c.ptrN ∈ curNames cs i ∧ c.endN ∈ curNames cs i ∧ c.crdN ∈ curNames cs i ∧ c.valN ∈ curNames cs i := by
  have mP : c.ptrN ∈ cs.map Cur.ptrN := List.mem_map_of_mem hc
  have mE : c.endN ∈ cs.map Cur.endN := List.mem_map_of_mem hc
  have mC : c.crdN ∈ cs.map Cur.crdN := List.mem_map_of_mem hc
  have mV : c.valN ∈ cs.map Cur.valN := List.mem_map_of_mem hc
  simp only [curNames, List.mem_cons, List.mem_append]
  simp [mP, mE, mC, mV]

theorem not_mem_writtenNames {cs : List Cur} {i y : String} (h : y ∉ writtenNames cs i) :
    y ≠ i ∧ ∀ c ∈ cs, y ≠ c.ptrN ∧ y ≠ c.valN := by
  simp only [writtenNames, List.mem_cons, List.mem_append, List.mem_map, not_or, not_exists, not_and] at h
  refine ⟨h.1, fun c hc => ⟨fun e => h.2.1 c hc e.symm, fun e => h.2.2 c hc e.symm⟩⟩

/-! ### the loop test -/
theorem curActive_cons (c : Cur) (cs : List Cur) :
    curActive (c :: cs) = (decide (c.p < c.e) && curActive cs) := rfl

theorem evalE_cond_fold (σ : State F) : ∀ (cs : List Cur) (acc : Expr F) (a : Bool),
    evalE σ acc = .ok (.bool a) → (∀ c ∈ cs, CurInv σ c) →
    evalE σ ((cs.map fun c => Expr.bin .lt (.var c.ptrN) (.var c.endN)).foldl (.bin .and) acc)
      = .ok (.bool (a && curActive cs)) := by
  intro cs
  induction cs with
  | nil => intro acc a h _; simpa [curActive] using h
  | cons c cs ih =>
    intro acc a h hinv
    have hc := hinv c List.mem_cons_self
    have hl := hc.lt
    have hle := hc.le
    have e1 := evalE_var_int hc.ptrv (by omega) (by omega)
    have e2 := evalE_var_int hc.endv (by omega) (by omega)
    have e3 := evalE_and h (evalE_lt e1 e2)
    rw [List.map_cons, List.foldl_cons, ih _ _ e3 fun d hd => hinv d (List.mem_cons_of_mem _ hd),
      curActive_cons, Bool.and_assoc]
    have : decide ((c.p : Int) < (c.e : Int)) = decide (c.p < c.e) := decide_eq_decide.2 Int.ofNat_lt
    rw [this]

/-- the loop test evaluates (without error) to "every cursor is before its end" -/
theorem evalE_mergeCond {σ : State F} {cs : List Cur} (hinv : ∀ c ∈ cs, CurInv σ c) :
    evalE σ (mergeCond (cs.map Cur.leaf)) = .ok (.bool (curActive cs)) := by
  rw [mergeCond_map]
  have := evalE_cond_fold σ cs (.boolLit true) true (by simp [evalE]) hinv
  simpa [andJoin, joinWith] using this

/-! ### the minimum -/
theorem evalE_min_fold (σ : State F) : ∀ (cs : List Cur) (acc : Expr F) (a : Int),
    evalE σ acc = .ok (.int a) → (∀ c ∈ cs, evalE σ (.var c.valN) = .ok (.int c.here)) →
    evalE σ ((cs.map fun c => (Expr.var c.valN : Expr F)).foldl (.bin .min) acc)
      = .ok (.int (cs.foldl (fun a d => min a d.here) a)) := by
  intro cs
  induction cs with
  | nil => intro acc a h _; simpa using h
  | cons c cs ih =>
    intro acc a h hv
    rw [List.map_cons, List.foldl_cons, List.foldl_cons]
    exact ih _ _ (evalE_min h (hv c List.mem_cons_self)) fun d hd => hv d (List.mem_cons_of_mem _ hd)

theorem evalE_minJoin {σ : State F} {cs : List Cur} (hne : cs ≠ [])
    (hv : ∀ c ∈ cs, evalE σ (.var c.valN) = .ok (.int c.here)) :
    evalE σ (minJoin (cs.map fun c => (Expr.var c.valN : Expr F))) = .ok (.int (curMin cs)) := by
  cases cs with
  | nil => exact absurd rfl hne
  | cons c cs =>
    simp only [List.map_cons, minJoin, curMin]
    exact evalE_min_fold σ cs _ _ (hv c List.mem_cons_self) fun d hd => hv d (List.mem_cons_of_mem _ hd)

/-- the minimum is a 32-bit value because it is one of the loaded coordinates -/
theorem curMin_range {σ : State F} {cs : List Cur} (hne : cs ≠ []) (hinv : ∀ c ∈ cs, CurInv σ c)
    (hact : ∀ c ∈ cs, c.p < c.e) : -2147483648 ≤ curMin cs ∧ curMin cs < 2147483648 := by
  obtain ⟨c, hc, e⟩ := curMin_attained hne
  rw [← e]
  exact (hinv c hc).rng c.p (Nat.le_refl _) (hact c hc)

/-! ### the loads -/
theorem loads_run (fuel : Nat) : ∀ (cs : List Cur) (σ : State F),
    (∀ c ∈ cs, CurInv σ c) → (∀ c ∈ cs, c.p < c.e) → (∀ c ∈ cs, DeclOK σ c.valN) →
    cs.Pairwise (fun a b => a.valN ≠ b.valN) →
    (∀ a ∈ cs, ∀ b ∈ cs, b.ptrN ≠ a.valN ∧ b.crdN ≠ a.valN ∧ b.endN ≠ a.valN) →
    ∃ σ', RunsLN fuel (loadsOf cs) σ σ' 0 ∧ (∀ c ∈ cs, IntVar σ' c.valN c.here) ∧
      (∀ y, (∀ c ∈ cs, y ≠ c.valN) → lookupVar σ'.vars y = lookupVar σ.vars y) ∧
      σ'.heap = σ.heap ∧ σ'.tensors = σ.tensors := by
  intro cs
  induction cs with
  | nil =>
    intro σ _ _ _ _ _
    exact ⟨σ, RunsLN.nil fuel σ, fun _ h => absurd h List.not_mem_nil, fun _ _ => rfl, rfl, rfl⟩
  | cons c cs ih =>
    intro σ hinv hact hdecl hpw hx
    have hmem : c ∈ c :: cs := List.mem_cons_self
    obtain ⟨hhead, hpw'⟩ := List.pairwise_cons.1 hpw
    obtain ⟨σ1, r1, v1, fr1, hp1, ht1⟩ :=
      declInt_run (fuel := fuel) (hdecl c hmem) (evalE_load (hinv c hmem) (hact c hmem))
    obtain ⟨σ', r2, v2, fr2, hp2, ht2⟩ := ih σ1
      (fun d hd => by
        have hd' := List.mem_cons_of_mem c hd
        obtain ⟨n1, n2, n3⟩ := hx c hmem d hd'
        exact (hinv d hd').congr (fr1 _ n2) (fr1 _ n1) (fr1 _ n3) (by rw [hp1]))
      (fun d hd => hact d (List.mem_cons_of_mem _ hd))
      (fun d hd => (hdecl d (List.mem_cons_of_mem _ hd)).congr (fr1 _ (Ne.symm (hhead d hd))))
      hpw'
      (fun a ha b hb => hx a (List.mem_cons_of_mem _ ha) b (List.mem_cons_of_mem _ hb))
    refine ⟨σ', RunsLN.cons r1 r2, ?_, ?_, hp2.trans hp1, ht2.trans ht1⟩
    · intro d hd
      rcases List.mem_cons.1 hd with e | e
      · subst e; exact v1.congr (fr2 _ fun a ha => hhead a ha)
      · exact v2 d e
    · intro y hy
      rw [fr2 y fun a ha => hy a (List.mem_cons_of_mem _ ha), fr1 y (hy c hmem)]

/-! ### the increments -/
theorem adv_p_cast (m : Int) (c : Cur) :
    ((c.adv m).p : Int) = (c.p : Int) + (if (c.here == m) = true then 1 else 0) := by
  by_cases h : c.here = m
  · rw [adv_p_of_eq h]; simp [h]
  · rw [adv_p_of_ne h]; simp [h]

theorem incs_run (fuel : Nat) (i : String) (m : Int) (hm0 : -2147483648 ≤ m) (hm1 : m < 2147483648) :
    ∀ (cs : List Cur) (σ : State F),
    IntVar σ i m → (∀ c ∈ cs, IntVar σ c.ptrN c.p) → (∀ c ∈ cs, IntVar σ c.valN c.here) →
    (∀ c ∈ cs, c.p < c.e ∧ (c.e : Int) < 2147483648 ∧ -2147483648 ≤ c.here ∧ c.here < 2147483648) →
    cs.Pairwise (fun a b => a.ptrN ≠ b.ptrN) →
    (∀ a ∈ cs, ∀ b ∈ cs, b.valN ≠ a.ptrN) → (∀ a ∈ cs, i ≠ a.ptrN) →
    ∃ σ', RunsLN fuel (incsOf cs i) σ σ' 0 ∧ (∀ c ∈ cs, IntVar σ' c.ptrN (c.adv m).p) ∧
      (∀ y, (∀ c ∈ cs, y ≠ c.ptrN) → lookupVar σ'.vars y = lookupVar σ.vars y) ∧
      σ'.heap = σ.heap ∧ σ'.tensors = σ.tensors := by
  intro cs
  induction cs with
  | nil =>
    intro σ _ _ _ _ _ _ _
    exact ⟨σ, RunsLN.nil fuel σ, fun _ h => absurd h List.not_mem_nil, fun _ _ => rfl, rfl, rfl⟩
  | cons c cs ih =>
    intro σ hi hp hv hr hpw hx hxi
    have hmem : c ∈ c :: cs := List.mem_cons_self
    obtain ⟨hhead, hpw'⟩ := List.pairwise_cons.1 hpw
    obtain ⟨r1, r2, r3, r4⟩ := hr c hmem
    have e1 := evalE_var_int (hp c hmem) (by omega) (by omega)
    have e2 := evalE_var_int (hv c hmem) r3 r4
    have e3 := evalE_var_int hi hm0 hm1
    have e4 := evalE_b2i (evalE_eqInt e2 e3)
    have e5 : evalE σ (plus (.var c.ptrN) (.b2i (.bin .eq (.var c.valN) (.var i))))
        = .ok (.int ((c.adv m).p : Int)) := by
      rw [adv_p_cast]
      refine evalE_add e1 e4 ?_ ?_ <;> split <;> omega
    obtain ⟨σ1, s1, v1, fr1, hp1, ht1⟩ := assignInt_run (fuel := fuel) (hp c hmem) e5
    obtain ⟨σ', s2, v2, fr2, hp2, ht2⟩ := ih σ1
      (hi.congr (fr1 _ (hxi c hmem)))
      (fun d hd => (hp d (List.mem_cons_of_mem _ hd)).congr (fr1 _ (Ne.symm (hhead d hd))))
      (fun d hd => (hv d (List.mem_cons_of_mem _ hd)).congr
        (fr1 _ (hx c hmem d (List.mem_cons_of_mem _ hd))))
      (fun d hd => hr d (List.mem_cons_of_mem _ hd))
      hpw'
      (fun a ha b hb => hx a (List.mem_cons_of_mem _ ha) b (List.mem_cons_of_mem _ hb))
      (fun a ha => hxi a (List.mem_cons_of_mem _ ha))
    refine ⟨σ', RunsLN.cons s1 s2, ?_, ?_, hp2.trans hp1, ht2.trans ht1⟩
    · intro d hd
      rcases List.mem_cons.1 hd with e | e
      · subst e; exact v1.congr (fr2 _ fun a ha => hhead a ha)
      · exact v2 d e
    · intro y hy
      rw [fr2 y fun a ha => hy a (List.mem_cons_of_mem _ ha), fr1 y (hy c hmem)]

/-! ### reachable cursor lists and the frame condition on `mid` -/

/-- `cs` is `cs0` with some cursors advanced (same leaves, blocks, coordinates and ends) -/
def Reach : List Cur → List Cur → Prop
  | [], [] => True
  | a :: as, b :: bs =>
    (b.leaf = a.leaf ∧ b.blk = a.blk ∧ b.crd = a.crd ∧ b.e = a.e ∧ a.p ≤ b.p) ∧ Reach as bs
  | _, _ => False

theorem Reach.refl : ∀ (cs : List Cur), Reach cs cs
  | [] => trivial
  | _ :: cs => ⟨⟨rfl, rfl, rfl, rfl, Nat.le_refl _⟩, Reach.refl cs⟩

theorem Reach.adv (m : Int) : ∀ {cs0 cs : List Cur}, Reach cs0 cs → Reach cs0 (cs.map (Cur.adv m))
  | [], [], _ => trivial
  | a :: as, b :: bs, h => by
    obtain ⟨⟨h1, h2, h3, h4, h5⟩, h⟩ := h
    exact ⟨⟨h1, h2, h3, h4, Nat.le_trans h5 (adv_p_ge m b)⟩, Reach.adv m h⟩
  | [], _ :: _, h => nomatch h
  | _ :: _, [], h => nomatch h

theorem Reach.leaves : ∀ {cs0 cs : List Cur}, Reach cs0 cs → cs.map Cur.leaf = cs0.map Cur.leaf
  | [], [], _ => rfl
  | a :: as, b :: bs, h => by
    obtain ⟨⟨h1, _⟩, h⟩ := h
    simp [h1, Reach.leaves h]
  | [], _ :: _, h => nomatch h
  | _ :: _, [], h => nomatch h

/-- The ghost predicate `P tr σ` ("the loop index has taken the values `tr` so far") does not look at the
variables the skeleton itself writes (`i`, the cursors, the loaded coordinates). -/
def GhostStable (P : List Int → State F → Prop) (cs : List Cur) (i : String) : Prop :=
  ∀ tr σ σ', P tr σ → σ'.heap = σ.heap → σ'.tensors = σ.tensors →
    (∀ y, y ∉ writtenNames cs i → lookupVar σ'.vars y = lookupVar σ.vars y) → P tr σ'

/-- **The frame condition on the statements between the `min` and the increments.**
Whenever the invariant holds (for cursors reachable from the initial ones, all inside their segments), the
loaded coordinates `i_l` and the index `i = min` are bound, and `fuel ≥ B`: `mid` runs without error and
without `return`, performs at most `K` loop iterations of its own, preserves every variable of the skeleton
(`i`, cursors, ends, `crd` pointers, `i_l`) and every `crd` block — everything else may change — and
extends the ghost history by the current value of `i`. The bound `N` (history so far plus remaining measure)
lets a ghost BODY know that it has room for the values still to come. -/
def MidOK (B K N : Nat) (P : List Int → State F → Prop) (cs0 : List Cur) (i : String)
    (mid : List (Stmt F)) : Prop :=
  ∀ (fuel : Nat) (σ : State F) (cs : List Cur) (tr : List Int), B ≤ fuel → Reach cs0 cs →
    tr.length + curMeasure cs ≤ N → (∀ c ∈ cs, c.p < c.e) → MergeInv σ cs i → (∀ c ∈ cs, IntVar σ c.valN c.here) →
    IntVar σ i (curMin cs) → P tr σ →
    ∃ o, execL fuel mid σ = .ok o ∧ o.ret = none ∧ o.iters ≤ K ∧
      (∀ x ∈ curNames cs i, lookupVar o.st.vars x = lookupVar σ.vars x) ∧
      (∀ c ∈ cs, o.st.heap[c.blk]? = σ.heap[c.blk]?) ∧
      P (tr ++ [curMin cs]) o.st

/-! ### one iteration -/
theorem iter_run {B K N : Nat} {P : List Int → State F → Prop} {cs0 cs : List Cur} {i : String}
    {mid : List (Stmt F)} {fuel : Nat} {σ : State F} {tr : List Int}
    (hN : NamesOK cs i) (hne : cs ≠ []) (hreach : Reach cs0 cs) (hinv : MergeInv σ cs i)
    (hact : ∀ c ∈ cs, c.p < c.e) (hP : P tr σ) (hstab : GhostStable P cs i)
    (hmid : MidOK B K N P cs0 i mid) (hfuel : B ≤ fuel) (hroom : tr.length + curMeasure cs ≤ N) :
    ∃ σ' n, RunsLN fuel (mergeBodyL (cs.map Cur.leaf) i mid) σ σ' n ∧ n ≤ K ∧
      MergeInv σ' (cs.map (Cur.adv (curMin cs))) i ∧ P (tr ++ [curMin cs]) σ' := by
  obtain ⟨m0, m1⟩ := curMin_range hne hinv.cur hact
  -- loads
  obtain ⟨σ1, r1, v1, fr1, hp1, ht1⟩ := loads_run fuel cs σ hinv.cur hact hinv.val hN.val_pw
    (fun a ha b hb => ⟨(hN.cross b hb a ha).2.2.1, (hN.cross b hb a ha).2.2.2.2.2,
      (hN.cross b hb a ha).2.2.2.2.1⟩)
  have inv1 : ∀ c ∈ cs, CurInv σ1 c := fun c hc =>
    (hinv.cur c hc).congr (fr1 _ fun a ha => (hN.cross c hc a ha).2.2.2.2.2)
      (fr1 _ fun a ha => (hN.cross c hc a ha).2.2.1) (fr1 _ fun a ha => (hN.cross c hc a ha).2.2.2.2.1)
      (by rw [hp1])
  -- min
  have hval1 : ∀ c ∈ cs, evalE σ1 (.var c.valN) = .ok (.int c.here) := fun c hc => by
    obtain ⟨q0, q1⟩ := (hinv.cur c hc).rng c.p (Nat.le_refl _) (hact c hc)
    exact evalE_var_int (v1 c hc) q0 q1
  obtain ⟨σ2, r2, vi2, fr2, hp2, ht2⟩ := declInt_run (fuel := fuel) (x := i)
    (hinv.idx.congr (fr1 _ fun a ha => (hN.i_ne a ha).2.2.2)) (evalE_minJoin hne hval1)
  have inv2 : MergeInv σ2 cs i :=
    ⟨fun c hc => (inv1 c hc).congr (fr2 _ (Ne.symm (hN.i_ne c hc).2.2.1)) (fr2 _ (Ne.symm (hN.i_ne c hc).1))
        (fr2 _ (Ne.symm (hN.i_ne c hc).2.1)) (by rw [hp2]),
      fun c hc => DeclOK.of_intVar ((v1 c hc).congr (fr2 _ (Ne.symm (hN.i_ne c hc).2.2.2))),
      DeclOK.of_intVar vi2⟩
  have v2 : ∀ c ∈ cs, IntVar σ2 c.valN c.here := fun c hc =>
    (v1 c hc).congr (fr2 _ (Ne.symm (hN.i_ne c hc).2.2.2))
  have P1 : P tr σ1 := hstab tr σ σ1 hP hp1 ht1 fun y hy =>
    fr1 y fun c hc => ((not_mem_writtenNames hy).2 c hc).2
  have P2 : P tr σ2 := hstab tr σ1 σ2 P1 hp2 ht2 fun y hy => fr2 y (not_mem_writtenNames hy).1
  -- mid
  obtain ⟨o, eo, ro, ko, fr3, hb3, P3⟩ := hmid fuel σ2 cs tr hfuel hreach hroom hact inv2 v2 vi2 P2
  have r3 : RunsLN fuel mid σ2 o.st o.iters := ⟨o, eo, ro, rfl, rfl⟩
  -- increments
  have vi3 : IntVar o.st i (curMin cs) := vi2.congr (fr3 _ (by simp [curNames]))
  obtain ⟨σ4, r4, v4, fr4, hp4, ht4⟩ := incs_run fuel i (curMin cs) m0 m1 cs o.st vi3
    (fun c hc => (inv2.cur c hc).ptrv.congr (fr3 _ (mem_curNames hc).1))
    (fun c hc => (v2 c hc).congr (fr3 _ (mem_curNames hc).2.2.2))
    (fun c hc => ⟨hact c hc, (hinv.cur c hc).lt, (hinv.cur c hc).rng c.p (Nat.le_refl _) (hact c hc)⟩)
    hN.ptr_pw (fun a ha b hb => Ne.symm (hN.cross a ha b hb).2.2.1) (fun a ha => (hN.i_ne a ha).1)
  refine ⟨σ4, 0 + 0 + o.iters + 0, ?_, by omega, ?_, ?_⟩
  · unfold mergeBodyL
    rw [mergeLoads_map, mergeMin_map, mergeIncs_map]
    exact RunsLN.append (RunsLN.append (RunsLN.append r1 (RunsLN.cons r2 (RunsLN.nil _ _))) r3) r4
  · refine ⟨?_, ?_, ?_⟩
    · intro c' hc'
      obtain ⟨c, hc, rfl⟩ := List.mem_map.1 hc'
      refine (inv2.cur c hc).adv (hact c hc) ?_ (v4 c hc) ?_ ?_
      · rw [fr4 _ fun a ha => Ne.symm (hN.cross a ha c hc).2.1, fr3 _ (mem_curNames hc).2.2.1]
      · rw [fr4 _ fun a ha => Ne.symm (hN.cross a ha c hc).1, fr3 _ (mem_curNames hc).2.1]
      · rw [hp4, hb3 c hc]
    · intro c' hc'
      obtain ⟨c, hc, rfl⟩ := List.mem_map.1 hc'
      exact DeclOK.of_intVar (((v2 c hc).congr (fr3 _ (mem_curNames hc).2.2.2)).congr
        (fr4 _ fun a ha => Ne.symm (hN.cross a ha c hc).2.2.1))
    · exact DeclOK.of_intVar (vi3.congr (fr4 _ fun a ha => (hN.i_ne a ha).1))
  · exact hstab _ o.st σ4 P3 hp4 ht4 fun y hy => fr4 y fun c hc => ((not_mem_writtenNames hy).2 c hc).1

end TV.Merge
