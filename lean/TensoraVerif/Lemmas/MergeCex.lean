import TensoraVerif.Lemmas.MergeExamples

/-!
A closed counterexample to the frame condition as worded in the brief ("BODY preserves the cursor/end/crd
variables and the crd blocks — everything else may change"): a BODY that overwrites the loop index `i`
satisfies that condition, yet the loop never advances a cursor and exhausts every fuel. Hence `MidOK` also
asks BODY to preserve `i` and the loaded coordinates `i_l` (the compiler's BODY never assigns them).
-/
namespace TV.Merge.Ex
open TV.IR TV.Gen TV.Graph TV.Growth TV.Merge

/-- `i = -1;` -/
def badMid : List (Stmt Int) := [.assign (.var "i") (.intLit (-1))]

/-- `badMid` satisfies the frame condition of the brief: whenever `i` is bound it runs without error and
without `return`, and changes nothing but `i` (in particular no cursor, end, `crd` pointer, block) -/
theorem badMid_frame (fuel : Nat) (σ : State Int) (v : Int) (hi : IntVar σ "i" v) :
    ∃ o, execL fuel badMid σ = .ok o ∧ o.ret = none ∧ o.iters = 0 ∧ IntVar o.st "i" (-1) ∧
      (∀ y, y ≠ "i" → lookupVar o.st.vars y = lookupVar σ.vars y) ∧ o.st.heap = σ.heap ∧
      o.st.tensors = σ.tensors := by
  obtain ⟨σ', r, v', fr, hh, ht⟩ := assignInt_run (fuel := fuel) hi
    (evalE_intLit (σ := σ) (v := -1) (by decide) (by decide))
  obtain ⟨o, e, ro, so, io⟩ := RunsLN.cons r (RunsLN.nil _ _)
  subst so
  exact ⟨o, e, ro, io, v', fr, hh, ht⟩

theorem namesOK_B : NamesOK [cB 0] "i" := NamesOK.of_nodup (by decide)

/-- one iteration with `badMid` leaves the cursor where it was -/
theorem bad_iter (fuel : Nat) (σ : State Int) (hinv : MergeInv σ [cB 0] "i") :
    ∃ σ', RunsLN fuel (mergeBodyL [lB] "i" badMid) σ σ' 0 ∧ MergeInv σ' [cB 0] "i" := by
  have hN := namesOK_B
  have hmem : cB 0 ∈ [cB 0] := List.mem_cons_self
  have hc := hinv.cur _ hmem
  have hact : ∀ c ∈ [cB 0], c.p < c.e := by
    intro c h; simp only [List.mem_cons, List.not_mem_nil, or_false] at h; subst h; decide
  have hone : ∀ {Q : Cur → Prop}, Q (cB 0) → ∀ c ∈ [cB 0], Q c := by
    intro Q h c hc'; simp only [List.mem_cons, List.not_mem_nil, or_false] at hc'; subst hc'; exact h
  obtain ⟨n1, n2, n3, n4⟩ := hN.i_ne _ hmem
  obtain ⟨x1, x2, x3, x4, x5, x6⟩ := hN.cross _ hmem _ hmem
  -- loads
  obtain ⟨σ1, r1, v1, fr1, hp1, _⟩ := loads_run fuel [cB 0] σ hinv.cur hact hinv.val hN.val_pw
    (hone (Q := fun a => ∀ b ∈ [cB 0], b.ptrN ≠ a.valN ∧ b.crdN ≠ a.valN ∧ b.endN ≠ a.valN)
      (hone ⟨x3, x6, x5⟩))
  have fr1' : ∀ y, y ≠ (cB 0).valN → lookupVar σ1.vars y = lookupVar σ.vars y :=
    fun y hy => fr1 y (hone hy)
  -- min
  have hval1 : ∀ c ∈ [cB 0], evalE σ1 (.var c.valN) = .ok (.int c.here) :=
    hone (evalE_var_int (v1 _ hmem) (by decide) (by decide))
  obtain ⟨σ2, r2, vi2, fr2, hp2, _⟩ := declInt_run (fuel := fuel) (x := "i")
    (hinv.idx.congr (fr1' _ n4)) (evalE_minJoin (by simp) hval1)
  -- i = -1
  obtain ⟨o, eo, ro, io, vi3, fr3, hp3, _⟩ := badMid_frame fuel σ2 _ vi2
  have r3 : RunsLN fuel badMid σ2 o.st 0 := ⟨o, eo, ro, rfl, io⟩
  -- increments
  have ptr3 : IntVar o.st (cB 0).ptrN (cB 0).p :=
    hc.ptrv.congr ((fr3 _ (Ne.symm n1)).trans ((fr2 _ (Ne.symm n1)).trans (fr1' _ x3)))
  have val3 : IntVar o.st (cB 0).valN (cB 0).here :=
    (v1 _ hmem).congr ((fr3 _ (Ne.symm n4)).trans (fr2 _ (Ne.symm n4)))
  obtain ⟨σ4, r4, v4, fr4, hp4, _⟩ := incs_run fuel "i" (-1) (by decide) (by decide) [cB 0] o.st vi3
    (hone ptr3) (hone val3) (hone (by decide)) hN.ptr_pw
    (hone (Q := fun a => ∀ b ∈ [cB 0], b.valN ≠ a.ptrN) (hone (Ne.symm x3))) (hone n1)
  have fr4' : ∀ y, y ≠ (cB 0).ptrN → lookupVar σ4.vars y = lookupVar o.st.vars y :=
    fun y hy => fr4 y (hone hy)
  refine ⟨σ4, ?_, ?_⟩
  · have := RunsLN.append (RunsLN.append (RunsLN.append r1 (RunsLN.cons r2 (RunsLN.nil _ _))) r3) r4
    have e : mergeBodyL [lB] "i" badMid
        = loadsOf [cB 0] ++ [declAssignE "i" .int (minJoin ([cB 0].map fun c => .var c.valN))] ++ badMid
          ++ incsOf [cB 0] "i" := by
      rw [← mergeLoads_map, ← mergeMin_map, ← mergeIncs_map]; rfl
    rw [e]; exact this
  · have hheap : σ4.heap = σ.heap := by rw [hp4, hp3, hp2, hp1]
    refine ⟨hone ?_, hone ?_, ?_⟩
    · refine ⟨?_, v4 _ hmem, ?_, hc.le, hc.lt, by rw [hheap]; exact hc.cells, hc.rng⟩
      · exact hc.crdv.congr ((fr4' _ (Ne.symm x2)).trans ((fr3 _ (Ne.symm n3)).trans
          ((fr2 _ (Ne.symm n3)).trans (fr1' _ x6))))
      · exact hc.endv.congr ((fr4' _ (Ne.symm x1)).trans ((fr3 _ (Ne.symm n2)).trans
          ((fr2 _ (Ne.symm n2)).trans (fr1' _ x5))))
    · exact DeclOK.of_intVar (val3.congr (fr4' _ (Ne.symm x3)))
    · exact DeclOK.of_intVar (vi3.congr (fr4' _ n1))

/-- **counterexample to the brief's frame condition**: with a BODY that only overwrites `i`, the loop over
the single leaf `B` (segment of length 3) runs out of fuel for EVERY fuel, from every state satisfying the
invariant -/
theorem bad_loop_diverges : ∀ (fuel : Nat) (σ : State Int), MergeInv σ [cB 0] "i" →
    exec fuel (mergeLoopL [lB] "i" badMid) σ = .error .fuel := by
  intro fuel
  induction fuel with
  | zero => intro σ _; unfold mergeLoopL; rw [exec.eq_7]
  | succ f ih =>
    intro σ hinv
    obtain ⟨σ', rb, inv'⟩ := bad_iter f σ hinv
    obtain ⟨o1, e1, ret1, st1, _⟩ := RunsN.block (c := none) rb
    have hc : evalE σ (mergeCond [lB]) = .ok (.bool true) := evalE_mergeCond (cs := [cB 0]) hinv.cur
    have h2 := ih o1.st (by rw [st1]; exact inv')
    unfold mergeLoopL at h2 ⊢
    rw [exec.eq_8, hc]
    simp only [bind, Except.bind, e1, ret1, h2]

end TV.Merge.Ex
