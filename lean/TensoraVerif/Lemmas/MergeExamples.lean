import TensoraVerif.Lemmas.MergeGhost
import TensoraVerif.Lemmas.MergeInit
import TensoraVerif.Model.FloatLaws

/-!
Concrete instances over the exact carrier `F := Int` for the non-vacuity examples of `Props/C05Merge.lean`:
two compressed vectors `B` (stored coordinates 0, 2, 5) and `C` (stored coordinates 2, 3), an output array
of five cells for the ghost BODY.
-/
namespace TV.Merge.Ex
open TV.IR TV.Gen TV.Graph TV.Growth TV.Merge

def tB : TensorId := ⟨"0_B", "B", ["i"], [.compressed]⟩
def tC : TensorId := ⟨"1_C", "C", ["i"], [.compressed]⟩
def lB : Leaf := ⟨tB, 0⟩
def lC : Leaf := ⟨tC, 0⟩

def crdB (j : Nat) : Int := [0, 2, 5].getD j 0
def crdC (j : Nat) : Int := [2, 3].getD j 0

/-- the cursor record of `B` at position `p` (block 0, segment end 3) -/
def cB (p : Nat) : Cur := ⟨lB, 0, crdB, p, 3⟩
/-- the cursor record of `C` at position `p` (block 1, segment end 2) -/
def cC (p : Nat) : Cur := ⟨lC, 1, crdC, p, 2⟩

def σ0 : State Int :=
  ⟨[⟨"B_0_crd", .ptr .int, some (.ptr 0 0)⟩, ⟨"C_0_crd", .ptr .int, some (.ptr 1 0)⟩,
    ⟨"p_0_B_0", .int, some (.int 0)⟩, ⟨"p_0_B_0_end", .int, some (.int 3)⟩,
    ⟨"p_1_C_0", .int, some (.int 0)⟩, ⟨"p_1_C_0_end", .int, some (.int 2)⟩,
    ⟨"out", .ptr .int, some (.ptr 2 0)⟩, ⟨"k", .int, some (.int 0)⟩],
   [⟨.int, [some (.int 0), some (.int 2), some (.int 5)], .input, true⟩,
    ⟨.int, [some (.int 2), some (.int 3)], .input, true⟩,
    ⟨.int, [none, none, none, none, none], .output, true⟩], []⟩

theorem names_BC : ("k" :: "out" :: curNames [cB 0, cC 0] "i").Nodup := by decide
theorem names_B : ("k" :: "out" :: curNames [cB 2] "i").Nodup := by decide
theorem names_C : ("k" :: "out" :: curNames [cC 2] "i").Nodup := by decide

theorem inv_B0 : CurInv σ0 (cB 0) := by
  refine ⟨⟨_, _, rfl, rfl, rfl⟩, ⟨_, rfl, rfl, rfl⟩, ⟨_, rfl, rfl, rfl⟩, by decide, by decide,
    ⟨_, rfl, rfl, rfl, by decide, ?_⟩, ?_⟩
  · intro j _ h2
    have h2 : j < 3 := h2
    have : j = 0 ∨ j = 1 ∨ j = 2 := by omega
    rcases this with rfl | rfl | rfl <;> rfl
  · intro j _ h2
    have h2 : j < 3 := h2
    have : j = 0 ∨ j = 1 ∨ j = 2 := by omega
    rcases this with rfl | rfl | rfl <;> decide

theorem inv_C0 : CurInv σ0 (cC 0) := by
  refine ⟨⟨_, _, rfl, rfl, rfl⟩, ⟨_, rfl, rfl, rfl⟩, ⟨_, rfl, rfl, rfl⟩, by decide, by decide,
    ⟨_, rfl, rfl, rfl, by decide, ?_⟩, ?_⟩
  · intro j _ h2
    have h2 : j < 2 := h2
    have : j = 0 ∨ j = 1 := by omega
    rcases this with rfl | rfl <;> rfl
  · intro j _ h2
    have h2 : j < 2 := h2
    have : j = 0 ∨ j = 1 := by omega
    rcases this with rfl | rfl <;> decide

theorem declOK_of_none {σ : State Int} {x : String} (h : lookupVar σ.vars x = none) : DeclOK σ x := by
  intro r hr; rw [h] at hr; cases hr

theorem inv0 : MergeInv σ0 [cB 0, cC 0] "i" := by
  refine ⟨?_, ?_, declOK_of_none rfl⟩
  · intro c hc
    simp only [List.mem_cons, List.not_mem_nil, or_false] at hc
    rcases hc with rfl | rfl
    · exact inv_B0
    · exact inv_C0
  · intro c hc
    simp only [List.mem_cons, List.not_mem_nil, or_false] at hc
    rcases hc with rfl | rfl <;> exact declOK_of_none rfl

theorem ghost0 : GhostArr "out" "k" 2 5 [] σ0 :=
  ⟨⟨_, _, rfl, rfl, rfl⟩, ⟨_, rfl, rfl, rfl⟩, _, rfl, rfl, rfl, rfl, rfl, fun j v h => by simp at h⟩

theorem sorted_B (p : Nat) : (cB p).Sorted := by
  intro j k _ h2 h3
  have h3 : k < 3 := h3
  have : (j = 0 ∧ k = 1) ∨ (j = 0 ∧ k = 2) ∨ (j = 1 ∧ k = 2) := by omega
  rcases this with ⟨rfl, rfl⟩ | ⟨rfl, rfl⟩ | ⟨rfl, rfl⟩
  · show crdB 0 < crdB 1; decide
  · show crdB 0 < crdB 2; decide
  · show crdB 1 < crdB 2; decide

theorem sorted_C (p : Nat) : (cC p).Sorted := by
  intro j k _ h2 h3
  have h3 : k < 2 := h3
  have : j = 0 ∧ k = 1 := by omega
  obtain ⟨rfl, rfl⟩ := this
  show crdC 0 < crdC 1
  decide

/-- the conjunctive loop over `{B, C}` sees 0, 2, 3 and stops because `C` is exhausted -/
theorem trace_BC : mergeTrace [cB 0, cC 0] = [0, 2, 3] := by decide
theorem final_BC : mergeFinal [cB 0, cC 0] = [cB 2, cC 2] := rfl
/-- the loop over `{B}` alone then sees the remaining 5 -/
theorem trace_B : mergeTrace [cB 2] = [5] := by decide
theorem final_B : mergeFinal [cB 2] = [cB 3] := rfl
/-- the loop over `{C}` alone has nothing left -/
theorem trace_C : mergeTrace [cC 2] = [] := by decide
theorem final_C : mergeFinal [cC 2] = [cC 2] := rfl

/-! ### a well-formed input level for `writeSparseInit` -/
def σinit : State Int :=
  ⟨[⟨"B_0_pos", .ptr .int, some (.ptr 1 0)⟩, ⟨"B_0_crd", .ptr .int, some (.ptr 0 0)⟩],
   [⟨.int, [some (.int 0), some (.int 2), some (.int 5)], .input, true⟩,
    ⟨.int, [some (.int 0), some (.int 3)], .input, true⟩], []⟩

theorem posOK_init : PosOK σinit (cB 0) 1 0 :=
  ⟨⟨_, _, rfl, rfl, rfl⟩, by simp [PrevIs, cB, lB], by decide, by decide, _, rfl, rfl, rfl, rfl, rfl⟩

end TV.Merge.Ex
