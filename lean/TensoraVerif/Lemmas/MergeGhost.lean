import TensoraVerif.Lemmas.MergeLoop
import TensoraVerif.Lemmas.MergeTrace

/-!
C02 (merge loop), part 8: a ghost BODY that makes the sequence of values of the loop index observable on
the machine: `out[k] = i; k = k + 1`. It satisfies the frame condition `MidOK`, so after the loop the
designated array holds exactly `mergeTrace cs`.
-/
namespace TV.Merge
open TV.IR TV.Gen TV.Graph TV.Growth

set_option linter.unusedSectionVars false
variable {F : Type} [FloatOps F]

/-- `out[k] = i; k = k + 1;` -/
def ghostBody (out k i : String) : List (Stmt F) :=
  [.assign (.idx (.var out) (.var k)) (.var i), increment (.var k) (.intLit 1)]

/-- the ghost history: `out` points to the live output block `ob` of `cap` `int` cells, `k` holds the number
of values recorded so far, and the block starts with these values -/
def GhostArr (out k : String) (ob cap : Nat) (tr : List Int) (σ : State F) : Prop :=
  PtrVar σ out ob ∧ IntVar σ k tr.length ∧
  ∃ blk, σ.heap[ob]? = some blk ∧ blk.live = true ∧ blk.owner = .output ∧ blk.ty = .int ∧
    blk.cells.length = cap ∧ ∀ (j : Nat) (v : Int), tr[j]? = some v → blk.cells[j]? = some (some (.int v))

/-- the state after `out[n] = z` in block `ob` -/
def storeState (σ : State F) (ob : Nat) (blk : Block F) (n : Nat) (z : Int) : State F :=
  { σ with heap := σ.heap.set ob { blk with cells := blk.cells.set n (some (.int z)) } }

theorem storeCell_run {fuel : Nat} {σ : State F} {out k : String} {e : Expr F} {ob n : Nat} {z : Int}
    {blk : Block F} (ho : PtrVar σ out ob) (hk : IntVar σ k n) (hn : (n : Int) < 2147483648)
    (he : evalE σ e = .ok (.int z)) (hb : σ.heap[ob]? = some blk) (hlive : blk.live = true)
    (hown : blk.owner = .output) (hty : blk.ty = .int) (hlen : n < blk.cells.length) :
    RunsN fuel (.assign (.idx (.var out) (.var k)) e) σ (storeState σ ob blk n z) 0 := by
  unfold storeState
  refine ⟨⟨_, none, 0, 1⟩, ?_, rfl, rfl, rfl⟩
  have eo := evalE_var_ptr ho
  have ek := evalE_var_int hk (by omega) hn
  have h1 : ¬ ((n : Int) ≥ (blk.len : Int)) := by unfold Block.len; omega
  have h0 : ¬ ((n : Int) < 0) := by omega
  rw [exec.eq_3, evalRhs_of_ok he]
  simp [bind, Except.bind, evalLoc, eo, ek, store, hb, hlive, hown, hty, convElem, h1, h0]

theorem GhostArr.stable (out k : String) (ob cap : Nat) (cs : List Cur) (i : String)
    (ho : out ∉ writtenNames cs i) (hk : k ∉ writtenNames cs i) :
    GhostStable (F := F) (GhostArr out k ob cap) cs i := by
  intro tr σ σ' ⟨h1, h2, h3⟩ hh _ hv
  exact ⟨h1.congr (hv _ ho), h2.congr (hv _ hk), by rw [hh]; exact h3⟩

theorem Reach.ne_nil : ∀ {cs0 cs : List Cur}, Reach cs0 cs → cs0 ≠ [] → cs ≠ []
  | [], _, _, h => absurd rfl h
  | _ :: _, _ :: _, _, _ => List.cons_ne_nil _ _
  | _ :: _, [], h, _ => nomatch h

theorem Reach.blk_mem : ∀ {cs0 cs : List Cur}, Reach cs0 cs → ∀ c ∈ cs, ∃ c0 ∈ cs0, c.blk = c0.blk
  | [], [], _, c, hc => nomatch hc
  | a :: as, b :: bs, h, c, hc => by
    obtain ⟨⟨_, h2, _⟩, h⟩ := h
    rcases List.mem_cons.1 hc with e | e
    · subst e; exact ⟨a, List.mem_cons_self, h2⟩
    · obtain ⟨c0, hc0, e0⟩ := Reach.blk_mem h c e
      exact ⟨c0, List.mem_cons_of_mem _ hc0, e0⟩
  | [], _ :: _, h, _, _ => nomatch h
  | _ :: _, [], h, _, _ => nomatch h

theorem Reach.curNames {cs0 cs : List Cur} (h : Reach cs0 cs) (i : String) : curNames cs i = curNames cs0 i := by
  have e := h.leaves
  have names : ∀ (xs : List Cur), TV.Merge.curNames xs i = i :: ((xs.map Cur.leaf).map (fun l => l.ptr) ++
      (xs.map Cur.leaf).map (fun l => sparseEndName l.tensor.id l.layer) ++
      (xs.map Cur.leaf).map (fun l => crdName l.tensor.name l.layer) ++
      (xs.map Cur.leaf).map (fun l => valueFromCrd l.tensor.id l.layer)) := by
    intro xs; simp only [TV.Merge.curNames, List.map_map]; rfl
  rw [names cs, names cs0, e]

/-- **the ghost BODY satisfies the frame condition**, provided its counter is not a name of the skeleton,
its block is none of the `crd` blocks, and the array has room for `N` values -/
theorem ghostBody_midOK (out k : String) (ob cap N : Nat) (cs0 : List Cur) (i : String)
    (hne : cs0 ≠ []) (hk : k ∉ curNames cs0 i) (hok : out ≠ k)
    (hblk : ∀ c ∈ cs0, c.blk ≠ ob) (hN : N ≤ cap) (hcap : (cap : Int) < 2147483648) :
    MidOK (F := F) 0 0 N (GhostArr out k ob cap) cs0 i (ghostBody out k i) := by
  intro fuel σ cs tr _ hreach hroom hact hinv _ hi ⟨g1, g2, blk, b1, b2, b3, b4, b5, b6⟩
  have hne' := hreach.ne_nil hne
  have hpos := curMeasure_pos hne' hact
  obtain ⟨m0, m1⟩ := curMin_range hne' hinv.cur hact
  have hlen : tr.length < blk.cells.length := by omega
  have hnames := hreach.curNames i
  -- out[k] = i
  have r1 := storeCell_run (fuel := fuel) g1 g2 (by omega) (evalE_var_int hi m0 m1) b1 b2 b3 b4 hlen
  -- k = k + 1
  have g2' : IntVar (storeState σ ob blk tr.length (curMin cs)) k tr.length := g2
  have ek := evalE_add (evalE_var_int g2' (by omega) (by omega))
    (evalE_intLit (v := 1) (by omega) (by omega)) (by omega) (by omega)
  obtain ⟨σ2, r2, v2, fr2, hh2, _⟩ := assignInt_run (fuel := fuel) g2' ek
  obtain ⟨o, eo, ro, so, io⟩ := RunsLN.cons r1 (RunsLN.cons r2 (RunsLN.nil _ _))
  refine ⟨o, eo, ro, by omega, ?_, ?_, ?_⟩
  · intro x hx
    rw [so]
    have : x ≠ k := fun e => hk (by rw [← hnames, ← e]; exact hx)
    exact fr2 x this
  · intro c hc
    obtain ⟨c0, hc0, e0⟩ := hreach.blk_mem c hc
    rw [so, hh2]
    show (σ.heap.set ob _)[c.blk]? = _
    rw [List.getElem?_set_ne (by rw [e0]; exact Ne.symm (hblk c0 hc0))]
  · rw [so]
    refine ⟨?_, ?_, ?_⟩
    · exact PtrVar.congr (σ := σ) g1 (fr2 _ hok)
    · simpa using v2
    · refine ⟨{ blk with cells := blk.cells.set tr.length (some (.int (curMin cs))) }, ?_, b2, b3, b4, ?_, ?_⟩
      · rw [hh2]
        show (σ.heap.set ob _)[ob]? = _
        rw [List.getElem?_set_self (by
          rcases Nat.lt_or_ge ob σ.heap.length with h | h
          · exact h
          · rw [List.getElem?_eq_none h] at b1; cases b1)]
      · simp [b5]
      · intro j v hj
        show (blk.cells.set tr.length _)[j]? = _
        rcases Nat.lt_or_ge j tr.length with h | h
        · rw [List.getElem?_append_left h] at hj
          rw [List.getElem?_set_ne (by omega)]
          exact b6 j v hj
        · rw [List.getElem?_append_right h] at hj
          have hj0 : j = tr.length := by
            rcases Nat.eq_or_lt_of_le h with e | e
            · exact e.symm
            · rw [List.getElem?_eq_none (by simp; omega)] at hj; cases hj
          subst hj0
          simp at hj
          subst hj
          rw [List.getElem?_set_self hlen]

theorem writtenNames_sub_curNames {cs : List Cur} {i x : String} (h : x ∈ writtenNames cs i) :
    x ∈ curNames cs i := by
  simp only [writtenNames, curNames, List.mem_cons, List.mem_append] at h ⊢
  rcases h with h | h | h
  · exact .inl h
  · exact .inr (.inl (.inl (.inl h)))
  · exact .inr (.inr h)

/-- **the loop with the ghost BODY**: the designated array receives exactly `mergeTrace cs`, one value per
iteration; the loop performs exactly `(mergeTrace cs).length ≤ Σ (e_l − p_l)` iterations -/
theorem merge_loop_ghost_run (out k : String) (ob cap : Nat) (cs : List Cur) (i : String) (fuel : Nat)
    (σ : State F) (tr0 : List Int) (hne : cs ≠ [])
    (hnames : NamesOK cs i) (hk' : k ∉ curNames cs i) (ho : out ∉ writtenNames cs i) (hok : out ≠ k)
    (hblk : ∀ c ∈ cs, c.blk ≠ ob)
    (hroom : tr0.length + curMeasure cs ≤ cap) (hcap : (cap : Int) < 2147483648)
    (hinv : MergeInv σ cs i) (hP : GhostArr out k ob cap tr0 σ) (hfuel : curMeasure cs + 1 ≤ fuel) :
    ∃ o, exec fuel (mergeLoopL (cs.map Cur.leaf) i (ghostBody out k i)) σ = .ok o ∧ o.ret = none ∧
      MergeInv o.st (mergeFinal cs) i ∧ Reach cs (mergeFinal cs) ∧ (∃ c ∈ mergeFinal cs, c.p = c.e) ∧
      o.iters = (mergeTrace cs).length ∧ (mergeTrace cs).length ≤ curMeasure cs ∧
      GhostArr out k ob cap (tr0 ++ mergeTrace cs) o.st := by
  obtain ⟨o, e, r, inv, hr, hx, hl, lo, hi, hp⟩ := merge_loop_main (B := 0) (K := 0)
    (P := GhostArr out k ob cap) cs i (ghostBody out k i) fuel σ tr0 hne hnames hinv hP
    (GhostArr.stable out k ob cap cs i ho (fun h => hk' (writtenNames_sub_curNames h)))
    (ghostBody_midOK out k ob cap _ cs i hne hk' hok hblk hroom hcap) (by omega)
  exact ⟨o, e, r, inv, hr, hx, by omega, hl, hp⟩

/-- the same with the single hypothesis "all names pairwise distinct" -/
theorem merge_loop_ghost_run_nodup (out k : String) (ob cap : Nat) (cs : List Cur) (i : String) (fuel : Nat)
    (σ : State F) (tr0 : List Int) (hne : cs ≠ [])
    (hnames : (k :: out :: curNames cs i).Nodup) (hblk : ∀ c ∈ cs, c.blk ≠ ob)
    (hroom : tr0.length + curMeasure cs ≤ cap) (hcap : (cap : Int) < 2147483648)
    (hinv : MergeInv σ cs i) (hP : GhostArr out k ob cap tr0 σ) (hfuel : curMeasure cs + 1 ≤ fuel) :
    ∃ o, exec fuel (mergeLoopL (cs.map Cur.leaf) i (ghostBody out k i)) σ = .ok o ∧ o.ret = none ∧
      MergeInv o.st (mergeFinal cs) i ∧ Reach cs (mergeFinal cs) ∧ (∃ c ∈ mergeFinal cs, c.p = c.e) ∧
      o.iters = (mergeTrace cs).length ∧ (mergeTrace cs).length ≤ curMeasure cs ∧
      GhostArr out k ob cap (tr0 ++ mergeTrace cs) o.st := by
  rw [List.nodup_cons] at hnames
  obtain ⟨hk, hnames⟩ := hnames
  rw [List.nodup_cons] at hnames
  obtain ⟨ho, hnames⟩ := hnames
  exact merge_loop_ghost_run out k ob cap cs i fuel σ tr0 hne (NamesOK.of_nodup hnames)
    (fun h => hk (List.mem_cons_of_mem _ h)) (fun h => ho (writtenNames_sub_curNames h))
    (fun e => hk (by rw [← e]; exact List.mem_cons_self)) hblk hroom hcap hinv hP hfuel

end TV.Merge
