import TensoraVerif.Lemmas.MergeBasic

/-!
C05 (merge loop), part 6: `writeSparseInit` — `int p_l = pos_l[prev]; int p_l_end = pos_l[prev + 1];` —
establishes the invariant `CurInv` of its leaf from a well-formed input level.
-/
namespace TV.Merge
open TV.IR TV.Gen TV.Graph TV.Growth

set_option linter.unusedSectionVars false
variable {F : Type} [FloatOps F]

theorem PrevIs.congr {σ σ' : State F} {l : Leaf} {prev : Int} (h : PrevIs σ l prev)
    (e : l.layer ≠ 0 → lookupVar σ'.vars (layerPointer l.tensor.id (l.layer - 1))
      = lookupVar σ.vars (layerPointer l.tensor.id (l.layer - 1))) : PrevIs σ' l prev := by
  unfold PrevIs at h ⊢
  split
  · rename_i h0; simpa [h0] using h
  · rename_i h0; simp only [h0, if_false] at h; exact h.congr (e h0)

/-- a well-formed compressed input level, seen from the parent position `prev`: the `pos` variable points to
a live `int` block whose cells `prev`, `prev + 1` are initialised and hold the segment bounds `c.p ≤ c.e` -/
structure PosOK (σ : State F) (c : Cur) (pb : Nat) (prev : Int) : Prop where
  posv : PtrVar σ (posName c.leaf.tensor.name c.leaf.layer) pb
  prevv : PrevIs σ c.leaf prev
  prev0 : 0 ≤ prev
  prev1 : prev + 1 < 2147483648
  cells : ∃ blk, σ.heap[pb]? = some blk ∧ blk.live = true ∧ blk.ty = .int ∧
    blk.cells[prev.toNat]? = some (some (.int c.p)) ∧ blk.cells[prev.toNat + 1]? = some (some (.int c.e))

theorem evalE_posLoad {σ : State F} {x : String} {pb : Nat} {idx : Expr F} {k : Int} {z : Int}
    (hx : PtrVar σ x pb) (hi : evalE σ idx = .ok (.int k)) (hk : 0 ≤ k)
    (hblk : ∃ blk, σ.heap[pb]? = some blk ∧ blk.live = true ∧ blk.ty = .int ∧
      blk.cells[k.toNat]? = some (some (.int z)))
    (z0 : -2147483648 ≤ z) (z1 : z < 2147483648) :
    evalE σ (.idx (.var x) idx) = .ok (.int z) := by
  obtain ⟨blk, b1, b2, b3, b4⟩ := hblk
  have hlen : k.toNat < blk.cells.length := by
    rcases Nat.lt_or_ge k.toNat blk.cells.length with h | h
    · exact h
    · rw [List.getElem?_eq_none h] at b4; cases b4
  have hlen' : ¬ (k ≥ (blk.len : Int)) := by unfold Block.len; omega
  have hneg : ¬ (k < 0) := by omega
  rw [evalE.eq_3, evalE_var_ptr hx, hi]
  simp [bind, Except.bind, readBlock, b1, b2, b3, hlen', hneg, b4, hasElemTy, chkVal, chkInt,
    inI32_of z0 z1]

/-- the names `writeSparseInit` needs to be distinct -/
structure InitNames (c : Cur) : Prop where
  ptr_end : c.ptrN ≠ c.endN
  ptr_crd : c.ptrN ≠ c.crdN
  end_crd : c.endN ≠ c.crdN
  pos_ptr : posName c.leaf.tensor.name c.leaf.layer ≠ c.ptrN
  prev_ptr : c.leaf.layer ≠ 0 → layerPointer c.leaf.tensor.id (c.leaf.layer - 1) ≠ c.ptrN

/-- `writeSparseInit` runs without error and establishes `CurInv`; it writes only the cursor and the end -/
theorem writeSparseInit_run (c : Cur) (fuel : Nat) (σ : State F) (pb : Nat) (prev : Int)
    (hpos : PosOK σ c pb prev) (hn : InitNames c)
    (hcrd : PtrVar σ c.crdN c.blk) (hle : c.p ≤ c.e) (hlt : (c.e : Int) < 2147483648)
    (hcells : ∃ blk, σ.heap[c.blk]? = some blk ∧ blk.live = true ∧ blk.ty = .int ∧ c.e ≤ blk.cells.length ∧
      ∀ j, c.p ≤ j → j < c.e → blk.cells[j]? = some (some (.int (c.crd j))))
    (hrng : ∀ j, c.p ≤ j → j < c.e → -2147483648 ≤ c.crd j ∧ c.crd j < 2147483648)
    (hd1 : DeclOK σ c.ptrN) (hd2 : DeclOK σ c.endN) :
    ∃ σ', RunsN fuel (writeSparseInit c.leaf).finalize σ σ' 0 ∧ CurInv σ' c ∧
      (∀ y, y ≠ c.ptrN → y ≠ c.endN → lookupVar σ'.vars y = lookupVar σ.vars y) ∧
      σ'.heap = σ.heap ∧ σ'.tensors = σ.tensors := by
  obtain ⟨blk, b1, b2, b3, b4, b5⟩ := hpos.cells
  have hp0 := hpos.prev0
  have hp1 := hpos.prev1
  -- int p = pos[prev]
  have ev1 : evalE σ (.idx (.var (posName c.leaf.tensor.name c.leaf.layer)) (c.leaf.prevPtr : Expr F))
      = .ok (.int c.p) :=
    evalE_posLoad hpos.posv (evalE_prevPtr hpos.prevv hp0 (by omega)) hp0 ⟨blk, b1, b2, b3, b4⟩
      (by omega) (by omega)
  obtain ⟨σ1, r1, v1, fr1, hh1, ht1⟩ := declInt_run (fuel := fuel) (x := c.ptrN) hd1 ev1
  -- int p_end = pos[prev + 1]
  have hprev1 : PrevIs σ1 c.leaf prev := PrevIs.congr hpos.prevv fun h0 => fr1 _ (hn.prev_ptr h0)
  have eprev := evalE_add (evalE_prevPtr hprev1 hp0 (by omega))
    (evalE_intLit (σ := σ1) (v := 1) (by omega) (by omega)) (by omega) (by omega)
  have htn : (prev + 1).toNat = prev.toNat + 1 := by omega
  have ev2 : evalE σ1 (.idx (.var (posName c.leaf.tensor.name c.leaf.layer))
      (plus (c.leaf.prevPtr : Expr F) (.intLit 1))) = .ok (.int c.e) :=
    evalE_posLoad (hpos.posv.congr (fr1 _ hn.pos_ptr)) eprev (by omega)
      ⟨blk, by rw [hh1]; exact b1, b2, b3, by rw [htn]; exact b5⟩ (by omega) (by omega)
  obtain ⟨σ2, r2, v2, fr2, hh2, ht2⟩ := declInt_run (fuel := fuel) (x := c.endN)
    (hd2.congr (fr1 _ (Ne.symm hn.ptr_end))) ev2
  refine ⟨σ2, ?_, ?_, ?_, hh2.trans hh1, ht2.trans ht1⟩
  · exact RunsN.block (RunsLN.cons r1 (RunsLN.cons r2 (RunsLN.nil _ _)))
  · refine ⟨?_, v1.congr (fr2 _ hn.ptr_end), v2, hle, hlt, ?_, hrng⟩
    · exact hcrd.congr ((fr2 _ (Ne.symm hn.end_crd)).trans (fr1 _ (Ne.symm hn.ptr_crd)))
    · rw [hh2, hh1]; exact hcells
  · intro y h1 h2
    rw [fr2 y h2, fr1 y h1]

end TV.Merge
