import TensoraVerif.Lemmas.MergeBody

/-!
C05 (merge loop), part 4: the whole loop, by induction on a bound `n ≥ Σ (e_l − p_l)`.
-/
namespace TV.Merge
open TV.IR TV.Gen TV.Graph TV.Growth

set_option linter.unusedSectionVars false
variable {F : Type} [FloatOps F]

theorem exec_loop_exit {c : Expr F} {b : Stmt F} {σ : State F} (fuel : Nat)
    (hc : evalE σ c = .ok (.bool false)) : exec (fuel + 1) (.loop c b) σ = .ok ⟨σ, none, 0, 1⟩ := by
  rw [exec.eq_8, hc]; rfl

theorem exec_loop_step {c : Expr F} {b : Stmt F} {σ : State F} {fuel : Nat} {o1 o2 : Out F}
    (hc : evalE σ c = .ok (.bool true)) (h1 : exec fuel b σ = .ok o1) (hr : o1.ret = none)
    (h2 : exec fuel (.loop c b) o1.st = .ok o2) :
    exec (fuel + 1) (.loop c b) σ
      = .ok ⟨o2.st, o2.ret, o1.iters + o2.iters + 1, o1.steps + o2.steps + 1⟩ := by
  rw [exec.eq_8, hc]
  simp only [bind, Except.bind, h1, hr, h2]

theorem map_adv_leaf (m : Int) (cs : List Cur) : (cs.map (Cur.adv m)).map Cur.leaf = cs.map Cur.leaf := by
  simp [List.map_map, Function.comp_def]

theorem GhostStable.adv {P : List Int → State F → Prop} {cs : List Cur} {i : String} (m : Int)
    (h : GhostStable P cs i) : GhostStable P (cs.map (Cur.adv m)) i := by
  unfold GhostStable; rw [writtenNames_adv]; exact h

/-- the loop of the skeleton, for every bound `n ≥ Σ (e_l − p_l)` and fuel `≥ n + 1 + B` -/
theorem loop_run {B K N : Nat} {P : List Int → State F → Prop} {cs0 : List Cur} {i : String}
    {mid : List (Stmt F)} (hmid : MidOK B K N P cs0 i mid) :
    ∀ (n : Nat) (cs : List Cur) (σ : State F) (fuel : Nat) (tr : List Int),
      cs ≠ [] → NamesOK cs i → GhostStable P cs i → Reach cs0 cs → curMeasure cs ≤ n →
      n + 1 + B ≤ fuel → tr.length + curMeasure cs ≤ N → MergeInv σ cs i → P tr σ →
      ∃ o, exec fuel (mergeLoopL (cs.map Cur.leaf) i mid) σ = .ok o ∧ o.ret = none ∧
        MergeInv o.st (mergeRun n cs).2 i ∧ P (tr ++ (mergeRun n cs).1) o.st ∧
        (mergeRun n cs).1.length ≤ o.iters ∧ o.iters ≤ (mergeRun n cs).1.length * (K + 1) := by
  intro n
  induction n with
  | zero =>
    intro cs σ fuel tr hne _ _ _ hmeas hfuel _ hinv hP
    obtain ⟨f, rfl⟩ : ∃ f, fuel = f + 1 := ⟨fuel - 1, by omega⟩
    have hb := curMeasure_zero_inactive hne (by omega)
    refine ⟨⟨σ, none, 0, 1⟩, ?_, rfl, ?_, ?_, ?_, ?_⟩
    · exact exec_loop_exit f (by rw [evalE_mergeCond hinv.cur, hb])
    · exact hinv
    · simpa [mergeRun] using hP
    · simp [mergeRun]
    · simp [mergeRun]
  | succ n ih =>
    intro cs σ fuel tr hne hN hstab hreach hmeas hfuel hroom hinv hP
    obtain ⟨f, rfl⟩ : ∃ f, fuel = f + 1 := ⟨fuel - 1, by omega⟩
    cases hb : curActive cs with
    | false =>
      rw [mergeRun_inactive _ hb]
      refine ⟨⟨σ, none, 0, 1⟩, ?_, rfl, hinv, by simpa using hP, by simp, by simp⟩
      exact exec_loop_exit f (by rw [evalE_mergeCond hinv.cur, hb])
    | true =>
      have hact := (curActive_iff cs).1 hb
      rw [mergeRun_active _ hb]
      obtain ⟨σ', k, rb, hk, inv', P'⟩ :=
        iter_run (fuel := f) hN hne hreach hinv hact hP hstab hmid (by omega) hroom
      obtain ⟨o1, e1, ret1, st1, it1⟩ := RunsN.block (c := none) rb
      have hlt := curMeasure_adv_lt hne hact
      obtain ⟨o2, e2, ret2, inv2, P2, lo2, hi2⟩ := ih (cs.map (Cur.adv (curMin cs))) σ' f
        (tr ++ [curMin cs]) (map_adv_ne_nil hne) (hN.adv _) (hstab.adv _) (hreach.adv _) (by omega)
        (by omega) (by simp only [List.length_append, List.length_cons, List.length_nil]; omega) inv' P'
      rw [map_adv_leaf] at e2
      subst st1
      refine ⟨_, exec_loop_step (by rw [evalE_mergeCond hinv.cur, hb]) e1 ret1 e2, ret2, inv2, ?_, ?_, ?_⟩
      · simpa [List.append_assoc] using P2
      · simp only [List.length_cons]; omega
      · simp only [List.length_cons]
        rw [Nat.add_mul]
        omega

theorem mergeRun_reach (n : Nat) : ∀ {cs0 cs : List Cur}, Reach cs0 cs → Reach cs0 (mergeRun n cs).2 := by
  induction n with
  | zero => intro cs0 cs h; exact h
  | succ n ih =>
    intro cs0 cs h
    cases hb : curActive cs with
    | false => rw [mergeRun_inactive _ hb]; exact h
    | true => rw [mergeRun_active _ hb]; exact ih (h.adv _)

/-- when the loop test fails, some cursor has reached its end -/
theorem exists_exhausted {σ : State F} {cs : List Cur} {i : String} (hinv : MergeInv σ cs i)
    (hb : curActive cs = false) : ∃ c ∈ cs, c.p = c.e := by
  by_cases h : ∃ c ∈ cs, ¬ (c.p < c.e)
  · obtain ⟨c, hc, hlt⟩ := h
    have := (hinv.cur c hc).le
    exact ⟨c, hc, by omega⟩
  · have : curActive cs = true := (curActive_iff cs).2 fun c hc =>
      Decidable.byContradiction fun hn => h ⟨c, hc, hn⟩
    rw [this] at hb; cases hb

/-- the loop, assembled: safety, termination, exit condition, iteration count, ghost history -/
theorem merge_loop_main {B K : Nat} {P : List Int → State F → Prop} (cs : List Cur) (i : String)
    (mid : List (Stmt F)) (fuel : Nat) (σ : State F) (tr0 : List Int)
    (hne : cs ≠ []) (hnames : NamesOK cs i) (hinv : MergeInv σ cs i)
    (hP : P tr0 σ) (hstab : GhostStable P cs i)
    (hmid : MidOK B K (tr0.length + curMeasure cs) P cs i mid)
    (hfuel : curMeasure cs + 1 + B ≤ fuel) :
    ∃ o, exec fuel (mergeLoopL (cs.map Cur.leaf) i mid) σ = .ok o ∧ o.ret = none ∧
      MergeInv o.st (mergeFinal cs) i ∧ Reach cs (mergeFinal cs) ∧ (∃ c ∈ mergeFinal cs, c.p = c.e) ∧
      (mergeTrace cs).length ≤ curMeasure cs ∧
      (mergeTrace cs).length ≤ o.iters ∧ o.iters ≤ (mergeTrace cs).length * (K + 1) ∧
      P (tr0 ++ mergeTrace cs) o.st := by
  obtain ⟨o, e, r, inv, hp, lo, hi⟩ := loop_run hmid (curMeasure cs) cs σ fuel tr0 hne
    hnames hstab (Reach.refl cs) (Nat.le_refl _) hfuel (Nat.le_refl _) hinv hP
  exact ⟨o, e, r, inv, mergeRun_reach _ (Reach.refl cs),
    exists_exhausted inv (mergeRun_final_inactive _ cs hne (Nat.le_refl _)),
    mergeRun_length_le _ cs hne, lo, hi, hp⟩

/-- **The frame condition on BODY, without ghost state.** For every state satisfying the invariant (cursors
reachable from the initial ones, all inside their segments) in which the loaded coordinates `i_l` and the
index `i = min` are bound, and every `fuel ≥ B`: `mid` runs without error and without `return`, performs at
most `K` loop iterations of its own, preserves the variables of the skeleton (`i`, cursors, ends, `crd`
pointers, `i_l`) and the `crd` blocks. Everything else may change. -/
def BodyFrame (B K : Nat) (cs0 : List Cur) (i : String) (mid : List (Stmt F)) : Prop :=
  ∀ (fuel : Nat) (σ : State F) (cs : List Cur), B ≤ fuel → Reach cs0 cs →
    (∀ c ∈ cs, c.p < c.e) → MergeInv σ cs i → (∀ c ∈ cs, IntVar σ c.valN c.here) →
    IntVar σ i (curMin cs) →
    ∃ o, execL fuel mid σ = .ok o ∧ o.ret = none ∧ o.iters ≤ K ∧
      (∀ x ∈ curNames cs i, lookupVar o.st.vars x = lookupVar σ.vars x) ∧
      (∀ c ∈ cs, o.st.heap[c.blk]? = σ.heap[c.blk]?)

theorem BodyFrame.midOK {B K : Nat} {cs0 : List Cur} {i : String} {mid : List (Stmt F)}
    (h : BodyFrame B K cs0 i mid) (N : Nat) : MidOK B K N (fun _ _ => True) cs0 i mid := by
  intro fuel σ cs tr hf hr _ hact hinv hv hi _
  obtain ⟨o, e, r, k, f1, f2⟩ := h fuel σ cs hf hr hact hinv hv hi
  exact ⟨o, e, r, k, f1, f2, trivial⟩

/-- the empty BODY satisfies the frame condition -/
theorem BodyFrame.nil (cs0 : List Cur) (i : String) : BodyFrame (F := F) 0 0 cs0 i [] := by
  intro fuel σ cs _ _ _ _ _ _
  exact ⟨⟨σ, none, 0, 0⟩, by rw [execL.eq_1], rfl, Nat.le_refl _, fun _ _ => rfl, fun _ _ => rfl⟩

end TV.Merge
