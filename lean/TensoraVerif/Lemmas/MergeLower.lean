import TensoraVerif.Lemmas.MergeBody
import TensoraVerif.Lemmas.LowerableComplete

/-!
C05 (merge loop), part 9 (M0): the syntactic link. For an iteration node whose loop is sparse
(`iterSparse`), every loop `lower` emits — one per sub-node that is not skipped, in order — is literally the
skeleton `mergeLoopL` over the sparse leaves of the sub-node, with `mid` = the dense pointer computations
followed by the `branchJoin …` statement.
-/
namespace TV.Merge
open TV.IR TV.Gen TV.Graph
set_option linter.unusedSectionVars false
variable {F : Type} [FloatOps F]

/-- the output leaf whose dense pointer is computed by this loop, if any -/
def maybeDenseOut (o : Option Leaf) (out : Output) : List Leaf :=
  match o, out with
  | some l, .append _ _ => if l.mode == .dense then [l] else []
  | _, _ => []

/-- the "compute dense indexes" statements of a loop body -/
def denseComputations (leaves : List Leaf) (i : String) (later : List String) : List (Stmt F) :=
  leaves.flatMap fun leaf => (layersToWrite leaf i later).map fun layer =>
    declAssignE layer.ptr .int (plus (times layer.prevPtr (.var (dimName layer.index))) (.var layer.index))

@[simp] theorem SB.add_lines (b : SB F) (s : Stmt F) : (b.add s).lines = b.lines ++ [s] := rfl
@[simp] theorem SB.empty_lines : (SB.empty : SB F).lines = [] := rfl

theorem foldl_add_lines {α : Type} (g : α → Stmt F) : ∀ (xs : List α) (b : SB F),
    (xs.foldl (fun body x => body.add (g x)) b).lines = b.lines ++ xs.map g := by
  intro xs
  induction xs with
  | nil => intro b; simp
  | cons x xs ih => intro b; simp [ih, List.append_assoc]

theorem foldl_foldl_add_lines {α β : Type} (h : α → List β) (g : β → Stmt F) : ∀ (xs : List α) (b : SB F),
    (xs.foldl (fun body x => (h x).foldl (fun body y => body.add (g y)) body) b).lines
      = b.lines ++ xs.flatMap fun x => (h x).map g := by
  intro xs
  induction xs with
  | nil => intro b; simp
  | cons x xs ih => intro b; simp [ih, foldl_add_lines, List.append_assoc]


/-- `ss` lists, in order, one statement per element of `xs`, related by `Q` -/
def PairsWith {α : Type} (Q : α → Stmt F → Prop) : List α → List (Stmt F) → Prop
  | [], [] => True
  | a :: as, s :: ss => Q a s ∧ PairsWith Q as ss
  | _, _ => False

theorem foldlM_add_inv {α ε : Type} (skip : α → Bool) (Q : α → Stmt F → Prop)
    (f : SB F → α → Except ε (SB F)) : ∀ (xs : List α) (b0 b : SB F), xs.foldlM f b0 = .ok b →
    (∀ bb a bb', f bb a = .ok bb' →
      (skip a = true ∧ bb' = bb) ∨ (skip a = false ∧ ∃ s, Q a s ∧ bb' = bb.add s)) →
    ∃ ss, b = ⟨b0.comment, b0.lines ++ ss⟩ ∧ PairsWith Q (xs.filter fun a => !skip a) ss := by
  intro xs
  induction xs with
  | nil =>
    intro b0 b h _
    rw [List.foldlM_nil] at h
    cases h
    exact ⟨[], by simp, trivial⟩
  | cons x xs ih =>
    intro b0 b h hf
    rw [List.foldlM_cons] at h
    obtain ⟨b1, h1, h2⟩ := bind_ok h
    obtain ⟨ss, e, hp⟩ := ih b1 b h2 hf
    rcases hf b0 x b1 h1 with ⟨hs, rfl⟩ | ⟨hs, s, hq, rfl⟩
    · exact ⟨ss, e, by simpa [List.filter_cons, hs] using hp⟩
    · refine ⟨s :: ss, by simpa [SB.add, List.append_assoc] using e, ?_⟩
      simp only [List.filter_cons, hs, Bool.not_false, if_true]
      exact ⟨hq, hp⟩

set_option maxHeartbeats 1000000 in
/-- **M0.** If `lower` succeeds on an iteration node over `i` whose loop is sparse (`iterSparse`: the context
is sparse and the output, if any, is compressed), then the emitted lines are `pre ++ loops ++ post` where
`loops` are, in order, one statement for every sub-node that is not skipped, and the statement for sub-node
`sub` is EXACTLY `mergeLoopL (sparse leaves of sub) i mid` with
`mid = denseComputations … ++ [branchJoin leaves]`. -/
theorem lower_iter_mergeLoops (ofRat : Rat → F) (k : Kind) (n : Nat) (i : String) (o : Option Leaf)
    (nx : IGraph) (out : Output) (b : SB F) (hk : (!k.isCompute && !out.hasSparseLayer) = false)
    (hsp : iterSparse (.iter i o nx) = true)
    (h : lower ofRat (n + 1) (.iter i o nx) out k = .ok b) :
    ∃ pre post loops, b.lines = pre ++ loops ++ post ∧
      PairsWith (fun sub s => ∃ leaves, s = mergeLoopL (nodeContext sub).sparseLeaves i
          (denseComputations (maybeDenseOut o out ++ (nodeContext sub).denseLeaves) i
            (IGraph.iter i o nx).laterIndexes ++ [branchJoin leaves]))
        ((generateSubgraphs (.iter i o nx)).filter fun sub => !skipped (.iter i o nx) sub) loops := by
  unfold lower at h
  simp only [] at h
  split at h
  · rename_i hc; rw [hk] at hc; cases hc
  obtain ⟨⟨nextOut, decls⟩, hnext, h⟩ := bind_ok h
  obtain ⟨b2, hfold, h3⟩ := bind_ok h
  clear h
  simp only [iterSparse] at hsp
  have key := foldlM_add_inv (fun sub => skipped (.iter i o nx) sub)
    (fun sub s => ∃ leaves, s = mergeLoopL (nodeContext sub).sparseLeaves i
      (denseComputations (maybeDenseOut o out ++ (nodeContext sub).denseLeaves) i
        (IGraph.iter i o nx).laterIndexes ++ [branchJoin leaves])) _ _ _ _ hfold
  obtain ⟨loops, hb2, hpairs⟩ := key (by
    intro bb sub bb' hstep
    simp only [] at hstep
    split at hstep
    · rename_i hc
      exact .inl ⟨by simpa [skipped, iterSparse] using hc, (pure_ok hstep).symm⟩
    · rename_i hc
      have hh := bind_ok hstep
      obtain ⟨leaves, -, hb'⟩ := hh
      clear hstep
      simp only [hsp, Bool.not_true] at hb'
      have hb'' := pure_ok hb'
      clear hb'
      have hns : (compressedDims sub).isEmpty = false := by
        simpa [hsp] using hc
      have hL : (nodeContext sub).sparseLeaves ≠ [] := by
        intro e
        simp [compressedDims, e, dedupStr] at hns
      refine .inr ⟨by simp [skipped, iterSparse, hsp, hns], _, ⟨leaves, rfl⟩, ?_⟩
      rw [← hb'']
      have hL' : (nodeContext sub).sparseLeaves.isEmpty = false := by simpa using hL
      simp [SB.loop, mergeLoopL, mergeBodyL, mergeCond, mergeLoads, mergeMin, mergeIncs, denseComputations,
        maybeDenseOut, foldl_add_lines, foldl_foldl_add_lines, hL', List.append_assoc]
      first
        | rfl
        | (congr; done)
        | (congr 8; funext a b; cases a <;> cases b <;> simp))
  have hpost : ∃ post, b.lines = b2.lines ++ post := by
    have e := pure_ok h3
    rw [← e]
    cases o with
    | none => exact ⟨[], by simp⟩
    | some l =>
      simp only []
      split
      · exact ⟨_, rfl⟩
      · exact ⟨[], by simp⟩
  obtain ⟨post, hpost⟩ := hpost
  obtain ⟨pre, hpre⟩ : ∃ pre, b2.lines = pre ++ loops := by rw [hb2]; exact ⟨_, rfl⟩
  exact ⟨pre, post, loops, by rw [hpost, hpre], hpairs⟩

end TV.Merge
