import TensoraVerif.Lemmas.MergeBody
import TensoraVerif.Lemmas.MergeInit
import TensoraVerif.Lemmas.GrowthNames

/-!
C05/C16 (merge loop), part 7: names. The skeleton never reads a dimension variable (`Stmt.deadVar`), and
the generated names of the skeleton are distinct across kinds, for all leaves (last/first character
arguments on the naming scheme of `TV.Gen`).
-/
namespace TV.Merge
open TV.IR TV.Gen TV.Graph TV.Growth

set_option linter.unusedSectionVars false
variable {F : Type} [FloatOps F]

/-- the variable names of the skeleton over the leaves `L` and index `i` -/
def leafNames (L : List Leaf) (i : String) : List String :=
  i :: (L.map (fun l => l.ptr) ++ L.map (fun l => sparseEndName l.tensor.id l.layer) ++
    L.map (fun l => crdName l.tensor.name l.layer) ++ L.map (fun l => valueFromCrd l.tensor.id l.layer))

theorem curNames_eq_leafNames (cs : List Cur) (i : String) : curNames cs i = leafNames (cs.map Cur.leaf) i := by
  simp only [curNames, leafNames, List.map_map]
  rfl

/-! ### `deadVar` -/
theorem mentions_foldl_bin (op : BinOp) (x : String) : ∀ (xs : List (Expr F)) (acc : Expr F),
    acc.mentions x = false → (∀ e ∈ xs, e.mentions x = false) →
    (xs.foldl (.bin op) acc).mentions x = false := by
  intro xs
  induction xs with
  | nil => intro acc h _; exact h
  | cons e es ih =>
    intro acc h he
    rw [List.foldl_cons]
    exact ih _ (by simp [Expr.mentions, h, he e List.mem_cons_self])
      fun e' he' => he e' (List.mem_cons_of_mem _ he')

theorem deadVarL_append (x : String) (ss ts : List (Stmt F)) :
    deadVarL x (ss ++ ts) = (deadVarL x ss && deadVarL x ts) := by
  induction ss with
  | nil => simp [deadVarL]
  | cons s ss ih => simp [deadVarL, ih, Bool.and_assoc]

theorem deadVarL_of_forall (x : String) (ss : List (Stmt F)) (h : ∀ s ∈ ss, s.deadVar x = true) :
    deadVarL x ss = true := by
  induction ss with
  | nil => simp [deadVarL]
  | cons s ss ih =>
    simp [deadVarL, h s List.mem_cons_self, ih fun t ht => h t (List.mem_cons_of_mem _ ht)]

theorem var_mentions_false {x n : String} (h : x ≠ n) : (Expr.var n : Expr F).mentions x = false := by
  simp [Expr.mentions, Ne.symm h]

/-- **the skeleton reads and writes only its own names**: a variable that is none of them and is dead in
`mid` is dead in the whole loop -/
theorem mergeLoopL_deadVar (L : List Leaf) (i : String) (mid : List (Stmt F)) (x : String)
    (hx : x ∉ leafNames L i) (hmid : deadVarL x mid = true) : (mergeLoopL L i mid).deadVar x = true := by
  simp only [leafNames, List.mem_cons, List.mem_append, List.mem_map, not_or, not_exists, not_and] at hx
  obtain ⟨hi, ⟨⟨hP, hE⟩, hC⟩, hV⟩ := hx
  have nP : ∀ l ∈ L, x ≠ l.ptr := fun l hl e => hP l hl e.symm
  have nE : ∀ l ∈ L, x ≠ sparseEndName l.tensor.id l.layer := fun l hl e => hE l hl e.symm
  have nC : ∀ l ∈ L, x ≠ crdName l.tensor.name l.layer := fun l hl e => hC l hl e.symm
  have nV : ∀ l ∈ L, x ≠ valueFromCrd l.tensor.id l.layer := fun l hl e => hV l hl e.symm
  have hcond : (mergeCond L : Expr F).mentions x = false := by
    unfold mergeCond andJoin joinWith
    apply mentions_foldl_bin
    · rfl
    · intro e he
      obtain ⟨l, hl, rfl⟩ := List.mem_map.1 he
      simp [Expr.mentions, Ne.symm (nP l hl), Ne.symm (nE l hl)]
  have hloads : deadVarL x (mergeLoads L : List (Stmt F)) = true := by
    apply deadVarL_of_forall
    intro s hs
    obtain ⟨l, hl, rfl⟩ := List.mem_map.1 hs
    simp [declAssignE, Stmt.deadVar, Expr.mentions, Ne.symm (nP l hl), Ne.symm (nC l hl)]
  have hmin : (mergeMin L i : Stmt F).deadVar x = true := by
    unfold mergeMin declAssignE
    simp only [Stmt.deadVar, Bool.not_eq_true']
    cases L with
    | nil => rfl
    | cons l ls =>
      simp only [List.map_cons, minJoin]
      apply mentions_foldl_bin
      · exact var_mentions_false (nV l List.mem_cons_self)
      · intro e he
        obtain ⟨l', hl', rfl⟩ := List.mem_map.1 he
        exact var_mentions_false (nV l' (List.mem_cons_of_mem _ hl'))
  have hincs : deadVarL x (mergeIncs L i : List (Stmt F)) = true := by
    apply deadVarL_of_forall
    intro s hs
    obtain ⟨l, hl, rfl⟩ := List.mem_map.1 hs
    simp [increment, plus, Stmt.deadVar, Expr.mentions, Ne.symm (nP l hl), Ne.symm (nV l hl), Ne.symm hi]
  simp only [mergeLoopL, Stmt.deadVar, mergeBodyL, deadVarL_append, hcond, hloads, hincs, hmid, deadVarL, hmin]
  rfl

/-! ### last characters of the generated names -/
theorem dimName_getLast? (i : String) : (dimName i).toList.getLast? = some 'm' := by
  simp only [dimName, String.toList_append, List.getLast?_append]; rfl

theorem sparseEndName_getLast? (ref : String) (l : Nat) : (sparseEndName ref l).toList.getLast? = some 'd' := by
  simp only [sparseEndName, String.toList_append, List.getLast?_append]; rfl

theorem crdName_getLast? (t : String) (l : Nat) : (crdName t l).toList.getLast? = some 'd' := by
  simp only [crdName, String.toList_append, List.getLast?_append]; rfl

theorem posName_getLast? (t : String) (l : Nat) : (posName t l).toList.getLast? = some 's' := by
  simp only [posName, String.toList_append, List.getLast?_append]; rfl

theorem valueFromCrd_getLast? (ref : String) (l : Nat) :
    ∃ ch, (valueFromCrd ref l).toList.getLast? = some ch ∧ ch.isDigit = true := by
  obtain ⟨ch, h, hd⟩ := getLast?_toString_nat l
  refine ⟨ch, ?_, hd⟩
  simp only [valueFromCrd, String.toList_append, List.getLast?_append, h, Option.some_or]

theorem ne_of_digit_last {s t : String} {ch' : Char}
    (hs : ∃ ch, s.toList.getLast? = some ch ∧ ch.isDigit = true) (ht : t.toList.getLast? = some ch')
    (hd : ch'.isDigit = false) : s ≠ t := by
  obtain ⟨ch, h, hdig⟩ := hs
  apply ne_of_getLast?_ne
  rw [h, ht]
  intro e; cases e; rw [hd] at hdig; cases hdig

/-- a dimension variable `<j>_dim` is none of the names of the skeleton (if it is not the loop index itself,
which holds for every parser-admitted index name, and always for `j = i`) -/
theorem dimName_not_mem_leafNames (L : List Leaf) (i j : String) (hij : dimName j ≠ i) :
    dimName j ∉ leafNames L i := by
  simp only [leafNames, List.mem_cons, List.mem_append, List.mem_map, not_or, not_exists, not_and]
  refine ⟨hij, ⟨⟨?_, ?_⟩, ?_⟩, ?_⟩
  · intro l _ e
    exact ne_of_digit_last (layerPointer_getLast? _ _) (dimName_getLast? j) (by decide) e
  · intro l _ e
    apply ne_of_getLast?_ne _ e
    rw [sparseEndName_getLast?, dimName_getLast?]; decide
  · intro l _ e
    apply ne_of_getLast?_ne _ e
    rw [crdName_getLast?, dimName_getLast?]; decide
  · intro l _ e
    exact ne_of_digit_last (valueFromCrd_getLast? _ _) (dimName_getLast? j) (by decide) e

theorem dimName_ne_self (i : String) : dimName i ≠ i := by
  apply ne_of_length_ne
  simp only [dimName, String.length_append]
  have : "_dim".length = 4 := by decide
  omega

/-- **no `_dim` variable is read by the skeleton**: if the dimension of the loop index is dead in `mid`, it
is dead in the loop — the number of iterations cannot depend on the dimension -/
theorem mergeLoopL_dim_dead (L : List Leaf) (i : String) (mid : List (Stmt F))
    (hmid : deadVarL (dimName i) mid = true) : (mergeLoopL L i mid).deadVar (dimName i) = true :=
  mergeLoopL_deadVar L i mid _ (dimName_not_mem_leafNames L i i (dimName_ne_self i)) hmid

/-! ### the names `writeSparseInit` needs, for every leaf -/
theorem ptrN_ne_endN (c d : Cur) : c.ptrN ≠ d.endN :=
  ne_of_digit_last (layerPointer_getLast? _ _) (sparseEndName_getLast? _ _) (by decide)

theorem ptrN_ne_crdN (c d : Cur) : c.ptrN ≠ d.crdN := layerPointer_ne_crdName _ _ _ _

theorem valN_ne_endN (c d : Cur) : c.valN ≠ d.endN :=
  ne_of_digit_last (valueFromCrd_getLast? _ _) (sparseEndName_getLast? _ _) (by decide)

theorem valN_ne_crdN (c d : Cur) : c.valN ≠ d.crdN :=
  ne_of_digit_last (valueFromCrd_getLast? _ _) (crdName_getLast? _ _) (by decide)

theorem posName_ne_ptrN (t : String) (l : Nat) (c : Cur) : posName t l ≠ c.ptrN :=
  (ne_of_digit_last (layerPointer_getLast? _ _) (posName_getLast? t l) (by decide)).symm

/-! ### the generated names of distinct leaves are distinct -/

/-- splitting at the last `'_'`: the decimal layer number contains no underscore -/
theorem split_last_underscore : ∀ (xs xs' ds ds' : List Char), '_' ∉ ds → '_' ∉ ds' →
    xs ++ '_' :: ds = xs' ++ '_' :: ds' → xs = xs' ∧ ds = ds'
  | [], [], _, _, _, _, h => by simp at h; exact ⟨rfl, h⟩
  | [], y :: ys, ds, ds', h1, _, h => by
    simp only [List.nil_append, List.cons_append, List.cons.injEq] at h
    exact absurd (by rw [h.2]; simp) h1
  | x :: xs, [], ds, ds', _, h2, h => by
    simp only [List.nil_append, List.cons_append, List.cons.injEq] at h
    exact absurd (by rw [← h.2]; simp) h2
  | x :: xs, y :: ys, ds, ds', h1, h2, h => by
    simp only [List.cons_append, List.cons.injEq] at h
    obtain ⟨e1, e2⟩ := split_last_underscore xs ys ds ds' h1 h2 h.2
    exact ⟨by rw [h.1, e1], e2⟩

theorem underscore_not_mem_toString (n : Nat) : '_' ∉ (toString n).toList := by
  show '_' ∉ (Nat.repr n).toList
  rw [Nat.toList_repr]
  intro h
  have := Nat.isDigit_of_mem_toDigits (by decide) (by decide) h
  revert this; decide

theorem toString_nat_inj {a b : Nat} (h : toString a = toString b) : a = b := by
  have h' : (Nat.repr a).toList = (Nat.repr b).toList := congrArg String.toList h
  rw [Nat.toList_repr, Nat.toList_repr] at h'
  have := congrArg (fun l => Nat.ofDigitChars 10 l 0) h'
  simpa [Nat.ofDigitChars_toDigits] using this

/-- `<pre><id>_<layer>` determines `id` and `layer` -/
theorem id_layer_inj (pre : String) {r r' : String} {l l' : Nat}
    (h : pre ++ r ++ "_" ++ toString l = pre ++ r' ++ "_" ++ toString l') : r = r' ∧ l = l' := by
  have h' := congrArg String.toList h
  simp only [String.toList_append, List.append_assoc] at h'
  have h'' := List.append_cancel_left h'
  have e : ("_" : String).toList = ['_'] := rfl
  rw [e] at h''
  obtain ⟨e1, e2⟩ := split_last_underscore _ _ _ _ (underscore_not_mem_toString l)
    (underscore_not_mem_toString l') h''
  exact ⟨String.ext e1, toString_nat_inj (String.ext e2)⟩

theorem layerPointer_inj {r r' : String} {l l' : Nat} (h : layerPointer r l = layerPointer r' l') :
    r = r' ∧ l = l' := id_layer_inj "p_" h

theorem valueFromCrd_inj {r r' : String} {l l' : Nat} (h : valueFromCrd r l = valueFromCrd r' l') :
    r = r' ∧ l = l' := id_layer_inj "i_" h

theorem head?_ne {s t : String} (h : s.toList.head? ≠ t.toList.head?) : s ≠ t := by
  intro e; exact h (by rw [e])

theorem ptrN_ne_valN (c d : Cur) : c.ptrN ≠ d.valN := by
  apply head?_ne
  simp [Cur.ptrN, Cur.valN, Leaf.ptr, layerPointer, valueFromCrd, String.toList_append]

theorem endN_ne_valN (c d : Cur) : c.endN ≠ d.valN := by
  apply head?_ne
  simp [Cur.endN, Cur.valN, sparseEndName, valueFromCrd, String.toList_append]

theorem endN_ne_crdN (c d : Cur) : c.endN ≠ d.crdN := by
  intro e
  have h := congrArg (fun s => s.toList.reverse.take 2) e
  simp [Cur.endN, Cur.crdN, sparseEndName, crdName, String.toList_append] at h

theorem underscore_mem_names (c : Cur) :
    '_' ∈ c.ptrN.toList ∧ '_' ∈ c.endN.toList ∧ '_' ∈ c.crdN.toList ∧ '_' ∈ c.valN.toList := by
  simp [Cur.ptrN, Cur.endN, Cur.crdN, Cur.valN, Leaf.ptr, layerPointer, sparseEndName, crdName, valueFromCrd,
    String.toList_append]

/-- **generated names.** For every list of leaves with pairwise distinct `(tensor id, layer)` and every index
name without `'_'` (parser names are alphanumeric), the names of the skeleton satisfy everything the proofs
need. (Two leaves of the same tensor NAME share their `crd` variable — `B(i) * B(i)` — which is why `NamesOK`
does not ask the `crd` names to be distinct from each other.) -/
theorem NamesOK.of_leaves (cs : List Cur) (i : String) (hi : '_' ∉ i.toList)
    (hd : cs.Pairwise fun a b => ¬ (a.leaf.tensor.id = b.leaf.tensor.id ∧ a.leaf.layer = b.leaf.layer)) :
    NamesOK cs i := by
  refine ⟨?_, ?_, ?_, ?_⟩
  · intro c _
    obtain ⟨u1, u2, u3, u4⟩ := underscore_mem_names c
    exact ⟨ne_of_underscore hi u1, ne_of_underscore hi u2, ne_of_underscore hi u3, ne_of_underscore hi u4⟩
  · exact hd.imp fun {a b} h e => h (layerPointer_inj e)
  · exact hd.imp fun {a b} h e => h (valueFromCrd_inj e)
  · intro a _ b _
    exact ⟨ptrN_ne_endN a b, ptrN_ne_crdN a b, ptrN_ne_valN a b, endN_ne_crdN a b, endN_ne_valN a b,
      (valN_ne_crdN b a).symm⟩

/-- the names `writeSparseInit` needs are distinct for every leaf -/
theorem InitNames.of_leaf (c : Cur) : InitNames c := by
  refine ⟨ptrN_ne_endN c c, ptrN_ne_crdN c c, endN_ne_crdN c c, posName_ne_ptrN _ _ c, ?_⟩
  intro h0 e
  have := (layerPointer_inj e).2
  omega

end TV.Merge
