import TensoraVerif.Model.GenerateIR

/-!
C05/C02/C16 (merge loop), part 1: the PURE model of the co-iteration skeleton.

A cursor record `Cur` describes one sparse leaf of the merge: its names (through the `Leaf`), the heap block
of its `crd` array, the coordinates stored there (`crd j` = coordinate at position `j`), the cursor `p` and
the end `e` of the segment. `mergeRun` is the merge as a function on lists of cursor records: while every
cursor is inside its segment, take the minimum of the coordinates under the cursors, and advance exactly the
cursors that sit on that minimum. Everything here is arithmetic on lists; the machine enters in
`MergeBasic`/`MergeBody`/`MergeLoop`.
-/
namespace TV.Merge
open TV.Graph

structure Cur where
  leaf : Leaf
  /-- heap block of the `crd` array -/
  blk : Nat
  /-- coordinate stored at position `j` of the `crd` array -/
  crd : Nat → Int
  /-- cursor -/
  p : Nat
  /-- end of the segment -/
  e : Nat

/-- the coordinate under the cursor -/
def Cur.here (c : Cur) : Int := c.crd c.p

/-- `p += (int)(crd[p] == m)` -/
def Cur.adv (m : Int) (c : Cur) : Cur := { c with p := if c.crd c.p = m then c.p + 1 else c.p }

/-- `min(i_l1, …, i_lk)`, folded from the left exactly like `minJoin` -/
def curMin : List Cur → Int
  | [] => 0
  | c :: cs => cs.foldl (fun a d => min a d.here) c.here

/-- the loop test: every cursor is strictly before its end -/
def curActive (cs : List Cur) : Bool := cs.all fun c => decide (c.p < c.e)

/-- the termination measure `Σ (e_l − p_l)` -/
def curMeasure (cs : List Cur) : Nat := (cs.map fun c => c.e - c.p).sum

/-- the merge: the list of values taken by the loop index, and the final cursors; `n` bounds the number of
iterations (`curMeasure cs` always suffices: `mergeRun_final_inactive`) -/
def mergeRun : Nat → List Cur → List Int × List Cur
  | 0, cs => ([], cs)
  | n + 1, cs =>
    if curActive cs then
      ((curMin cs) :: (mergeRun n (cs.map (Cur.adv (curMin cs)))).1,
        (mergeRun n (cs.map (Cur.adv (curMin cs)))).2)
    else ([], cs)

/-- the values taken by the loop index `i`, iteration by iteration -/
def mergeTrace (cs : List Cur) : List Int := (mergeRun (curMeasure cs) cs).1
/-- the cursors at loop exit -/
def mergeFinal (cs : List Cur) : List Cur := (mergeRun (curMeasure cs) cs).2

/-- the segment `[p, e)` of a cursor record holds strictly increasing coordinates -/
def Cur.Sorted (c : Cur) : Prop := ∀ j k, c.p ≤ j → j < k → k < c.e → c.crd j < c.crd k

/-! ### fields preserved by advancing -/
@[simp] theorem adv_leaf (m : Int) (c : Cur) : (c.adv m).leaf = c.leaf := rfl
@[simp] theorem adv_blk (m : Int) (c : Cur) : (c.adv m).blk = c.blk := rfl
@[simp] theorem adv_crd (m : Int) (c : Cur) : (c.adv m).crd = c.crd := rfl
@[simp] theorem adv_e (m : Int) (c : Cur) : (c.adv m).e = c.e := rfl

theorem adv_p_eq (m : Int) (c : Cur) : (c.adv m).p = if c.crd c.p = m then c.p + 1 else c.p := rfl

theorem adv_p_ge (m : Int) (c : Cur) : c.p ≤ (c.adv m).p := by
  rw [adv_p_eq]; split <;> omega

theorem adv_p_le (m : Int) (c : Cur) : (c.adv m).p ≤ c.p + 1 := by
  rw [adv_p_eq]; split <;> omega

theorem adv_p_of_eq {m : Int} {c : Cur} (h : c.here = m) : (c.adv m).p = c.p + 1 := by
  rw [adv_p_eq]; unfold Cur.here at h; simp [h]

theorem adv_p_of_ne {m : Int} {c : Cur} (h : c.here ≠ m) : (c.adv m).p = c.p := by
  rw [adv_p_eq]; unfold Cur.here at h; simp [h]

theorem adv_sorted {m : Int} {c : Cur} (h : c.Sorted) : (c.adv m).Sorted := by
  intro j k h1 h2 h3
  exact h j k (Nat.le_trans (adv_p_ge m c) h1) h2 h3

/-! ### the minimum -/
theorem foldl_min_le_init (cs : List Cur) (a : Int) : cs.foldl (fun a d => min a d.here) a ≤ a := by
  induction cs generalizing a with
  | nil => exact Int.le_refl _
  | cons c cs ih => exact Int.le_trans (ih _) (Int.min_le_left _ _)

theorem foldl_min_le_mem (cs : List Cur) (a : Int) {d : Cur} (hd : d ∈ cs) :
    cs.foldl (fun a d => min a d.here) a ≤ d.here := by
  induction cs generalizing a with
  | nil => cases hd
  | cons c cs ih =>
    rcases List.mem_cons.1 hd with h | h
    · subst h; rw [List.foldl_cons]; exact Int.le_trans (foldl_min_le_init _ _) (Int.min_le_right _ _)
    · exact ih _ h

theorem foldl_min_attained (cs : List Cur) (a : Int) :
    cs.foldl (fun a d => min a d.here) a = a ∨ ∃ d ∈ cs, d.here = cs.foldl (fun a d => min a d.here) a := by
  induction cs generalizing a with
  | nil => exact .inl rfl
  | cons c cs ih =>
    rcases ih (min a c.here) with h | ⟨d, hd, h⟩
    · rw [List.foldl_cons, h]
      rcases Int.le_total a c.here with h' | h'
      · exact .inl (Int.min_eq_left h')
      · exact .inr ⟨c, List.mem_cons_self, (Int.min_eq_right h').symm⟩
    · exact .inr ⟨d, List.mem_cons_of_mem _ hd, h⟩

/-- the minimum is a lower bound of the coordinates under the cursors -/
theorem curMin_le {cs : List Cur} {c : Cur} (h : c ∈ cs) : curMin cs ≤ c.here := by
  cases cs with
  | nil => cases h
  | cons d ds =>
    rcases List.mem_cons.1 h with h | h
    · subst h; exact foldl_min_le_init _ _
    · exact foldl_min_le_mem _ _ h

/-- **some leaf attains the minimum**: the set of leaves with `i_l == i` is never empty -/
theorem curMin_attained {cs : List Cur} (h : cs ≠ []) : ∃ c ∈ cs, c.here = curMin cs := by
  cases cs with
  | nil => exact absurd rfl h
  | cons d ds =>
    rcases foldl_min_attained ds d.here with e | ⟨c, hc, e⟩
    · exact ⟨d, List.mem_cons_self, e.symm⟩
    · exact ⟨c, List.mem_cons_of_mem _ hc, e⟩

/-! ### the measure -/
theorem curActive_iff (cs : List Cur) : curActive cs = true ↔ ∀ c ∈ cs, c.p < c.e := by
  simp [curActive, List.all_eq_true]

theorem sum_map_le {α : Type} (f g : α → Nat) (xs : List α) (h : ∀ x ∈ xs, f x ≤ g x) :
    (xs.map f).sum ≤ (xs.map g).sum := by
  induction xs with
  | nil => exact Nat.le_refl _
  | cons x xs ih =>
    simp only [List.map_cons, List.sum_cons]
    have h1 := h x List.mem_cons_self
    have h2 := ih fun y hy => h y (List.mem_cons_of_mem _ hy)
    omega

theorem sum_map_lt {α : Type} (f g : α → Nat) (xs : List α) (h : ∀ x ∈ xs, f x ≤ g x)
    (hx : ∃ x ∈ xs, f x < g x) : (xs.map f).sum < (xs.map g).sum := by
  induction xs with
  | nil => obtain ⟨x, hx, _⟩ := hx; cases hx
  | cons x xs ih =>
    simp only [List.map_cons, List.sum_cons]
    have h1 := h x List.mem_cons_self
    have h2 := sum_map_le f g xs fun y hy => h y (List.mem_cons_of_mem _ hy)
    obtain ⟨y, hy, hlt⟩ := hx
    rcases List.mem_cons.1 hy with e | e
    · subst e; omega
    · have := ih (fun y hy => h y (List.mem_cons_of_mem _ hy)) ⟨y, e, hlt⟩
      omega

theorem curMeasure_adv (m : Int) (cs : List Cur) :
    curMeasure (cs.map (Cur.adv m)) = (cs.map fun c => c.e - (c.adv m).p).sum := by
  simp [curMeasure, List.map_map, Function.comp_def]

/-- **every iteration advances a cursor**: the measure strictly decreases -/
theorem curMeasure_adv_lt {cs : List Cur} (hne : cs ≠ []) (hact : ∀ c ∈ cs, c.p < c.e) :
    curMeasure (cs.map (Cur.adv (curMin cs))) < curMeasure cs := by
  rw [curMeasure_adv]
  apply sum_map_lt
  · intro c _; have := adv_p_ge (curMin cs) c; omega
  · obtain ⟨c, hc, e⟩ := curMin_attained hne
    refine ⟨c, hc, ?_⟩
    have := hact c hc
    rw [adv_p_of_eq e]; omega

theorem curMeasure_pos {cs : List Cur} (hne : cs ≠ []) (hact : ∀ c ∈ cs, c.p < c.e) : 0 < curMeasure cs := by
  have := curMeasure_adv_lt hne hact; omega

theorem curMeasure_zero_inactive {cs : List Cur} (hne : cs ≠ []) (h : curMeasure cs = 0) :
    curActive cs = false := by
  cases hb : curActive cs with
  | false => rfl
  | true => have := curMeasure_pos hne ((curActive_iff cs).1 hb); omega

/-- advancing keeps every cursor inside its segment -/
theorem adv_le_e {m : Int} {c : Cur} (h : c.p < c.e) : (c.adv m).p ≤ c.e := by
  have := adv_p_le m c; omega

/-! ### the run -/
theorem mergeRun_zero (cs : List Cur) : mergeRun 0 cs = ([], cs) := rfl

theorem mergeRun_inactive (n : Nat) {cs : List Cur} (h : curActive cs = false) : mergeRun n cs = ([], cs) := by
  cases n with
  | zero => rfl
  | succ n => simp [mergeRun, h]

theorem mergeRun_active (n : Nat) {cs : List Cur} (h : curActive cs = true) :
    mergeRun (n + 1) cs = ((curMin cs) :: (mergeRun n (cs.map (Cur.adv (curMin cs)))).1,
        (mergeRun n (cs.map (Cur.adv (curMin cs)))).2) := by
  simp [mergeRun, h]

theorem map_adv_ne_nil {m : Int} {cs : List Cur} (h : cs ≠ []) : cs.map (Cur.adv m) ≠ [] := by
  simpa using h

/-- the loop runs at most `Σ (e − p)` times -/
theorem mergeRun_length_le (n : Nat) : ∀ (cs : List Cur), cs ≠ [] → (mergeRun n cs).1.length ≤ curMeasure cs := by
  induction n with
  | zero => intro cs _; simp [mergeRun]
  | succ n ih =>
    intro cs hne
    cases hb : curActive cs with
    | false => rw [mergeRun_inactive _ hb]; simp
    | true =>
      rw [mergeRun_active _ hb]
      have h1 := curMeasure_adv_lt hne ((curActive_iff cs).1 hb)
      have h2 := ih _ (map_adv_ne_nil (m := curMin cs) hne)
      simp only [List.length_cons]; omega

/-- with `n ≥ Σ (e − p)` the run stops because the test fails, not because `n` is exhausted -/
theorem mergeRun_final_inactive (n : Nat) : ∀ (cs : List Cur), cs ≠ [] → curMeasure cs ≤ n →
    curActive (mergeRun n cs).2 = false := by
  induction n with
  | zero =>
    intro cs hne h
    rw [mergeRun_zero]
    exact curMeasure_zero_inactive hne (by show curMeasure cs = 0; omega)
  | succ n ih =>
    intro cs hne h
    cases hb : curActive cs with
    | false => rw [mergeRun_inactive _ hb]; exact hb
    | true =>
      rw [mergeRun_active _ hb]
      have h1 := curMeasure_adv_lt hne ((curActive_iff cs).1 hb)
      exact ih _ (map_adv_ne_nil hne) (by omega)

end TV.Merge
