import TensoraVerif.Lemmas.MergePure

/-!
C02/C16 (merge loop), part 5: what the sequence of values of the loop index looks like — pure facts about
`mergeRun`: it is strictly increasing when the input segments are ("sorted because co-iterated by `min`"),
every value is a stored coordinate of some leaf, and for a single leaf it is exactly the stored segment.
-/
namespace TV.Merge
open TV.Graph

/-- after the increments, the coordinate under every cursor that is still inside its segment is strictly
greater than the minimum just processed -/
theorem adv_here_gt {cs : List Cur} {c : Cur} (hc : c ∈ cs) (hs : c.Sorted)
    (h' : (c.adv (curMin cs)).p < c.e) : curMin cs < (c.adv (curMin cs)).here := by
  by_cases h : c.here = curMin cs
  · have hp := adv_p_of_eq h
    rw [hp] at h'
    have := hs c.p (c.p + 1) (Nat.le_refl _) (Nat.lt_succ_self _) h'
    unfold Cur.here
    rw [adv_crd, hp, ← h]
    exact this
  · have hp := adv_p_of_ne h
    have hle := curMin_le hc
    unfold Cur.here at h hle ⊢
    rw [adv_crd, hp]
    omega

/-- **one iteration to the next**: if the loop runs again, the next value of `i` is strictly greater -/
theorem curMin_adv_gt {cs : List Cur} (hne : cs ≠ []) (hs : ∀ c ∈ cs, c.Sorted)
    (hact' : curActive (cs.map (Cur.adv (curMin cs))) = true) :
    curMin cs < curMin (cs.map (Cur.adv (curMin cs))) := by
  obtain ⟨c', hc', e⟩ := curMin_attained (map_adv_ne_nil (m := curMin cs) hne)
  have hlt := (curActive_iff _).1 hact' c' hc'
  obtain ⟨c, hc, rfl⟩ := List.mem_map.1 hc'
  rw [← e]
  exact adv_here_gt hc (hs c hc) hlt

theorem mergeRun_increasing_aux (n : Nat) : ∀ (cs : List Cur) (lb : Int), cs ≠ [] → (∀ c ∈ cs, c.Sorted) →
    (∀ c ∈ cs, c.p < c.e → lb < c.here) →
    (∀ x ∈ (mergeRun n cs).1, lb < x) ∧ (mergeRun n cs).1.Pairwise (· < ·) := by
  induction n with
  | zero => intro cs lb _ _ _; simp [mergeRun]
  | succ n ih =>
    intro cs lb hne hs hlb
    cases hb : curActive cs with
    | false => rw [mergeRun_inactive _ hb]; simp
    | true =>
      rw [mergeRun_active _ hb]
      have hact := (curActive_iff cs).1 hb
      have hm : lb < curMin cs := by
        obtain ⟨c, hc, e⟩ := curMin_attained hne
        rw [← e]; exact hlb c hc (hact c hc)
      obtain ⟨h1, h2⟩ := ih (cs.map (Cur.adv (curMin cs))) (curMin cs) (map_adv_ne_nil hne)
        (fun c' hc' => by
          obtain ⟨c, hc, rfl⟩ := List.mem_map.1 hc'
          exact adv_sorted (hs c hc))
        (fun c' hc' hlt => by
          obtain ⟨c, hc, rfl⟩ := List.mem_map.1 hc'
          exact adv_here_gt hc (hs c hc) hlt)
      refine ⟨?_, List.pairwise_cons.2 ⟨h1, h2⟩⟩
      intro x hx
      rcases List.mem_cons.1 hx with e | e
      · rw [e]; exact hm
      · exact Int.lt_trans hm (h1 x e)

/-- **sorted because co-iterated by `min`**: if every input segment is strictly increasing, so is the
sequence of values taken by the loop index -/
theorem mergeRun_increasing (n : Nat) (cs : List Cur) (hne : cs ≠ []) (hs : ∀ c ∈ cs, c.Sorted) :
    (mergeRun n cs).1.Pairwise (· < ·) := by
  cases hb : curActive cs with
  | false => rw [mergeRun_inactive _ hb]; simp
  | true =>
    have hact := (curActive_iff cs).1 hb
    refine (mergeRun_increasing_aux n cs (curMin cs - 1) hne hs ?_).2
    intro c hc _
    have := curMin_le hc
    omega

/-- **iterations depend only on stored entries**: every value taken by the loop index is a coordinate
stored in the (remaining) segment of some leaf -/
theorem mergeRun_mem_stored (n : Nat) : ∀ (cs : List Cur), cs ≠ [] → ∀ x ∈ (mergeRun n cs).1,
    ∃ c ∈ cs, ∃ j, c.p ≤ j ∧ j < c.e ∧ c.crd j = x := by
  induction n with
  | zero => intro cs _ x hx; simp [mergeRun] at hx
  | succ n ih =>
    intro cs hne x hx
    cases hb : curActive cs with
    | false => rw [mergeRun_inactive _ hb] at hx; simp at hx
    | true =>
      rw [mergeRun_active _ hb] at hx
      have hact := (curActive_iff cs).1 hb
      rcases List.mem_cons.1 hx with e | e
      · obtain ⟨c, hc, hh⟩ := curMin_attained hne
        exact ⟨c, hc, c.p, Nat.le_refl _, hact c hc, by rw [e]; exact hh⟩
      · obtain ⟨c', hc', j, h1, h2, h3⟩ := ih _ (map_adv_ne_nil hne) x e
        obtain ⟨c, hc, rfl⟩ := List.mem_map.1 hc'
        exact ⟨c, hc, j, Nat.le_trans (adv_p_ge _ c) h1, h2, h3⟩

/-! ### a single leaf -/
theorem curMin_single (c : Cur) : curMin [c] = c.here := rfl

theorem mergeRun_single (n : Nat) : ∀ (c : Cur), c.p ≤ c.e → c.e - c.p ≤ n →
    mergeRun n [c] = ((List.range' c.p (c.e - c.p)).map c.crd, [{ c with p := c.e }]) := by
  induction n with
  | zero =>
    intro c h1 h2
    have : c.e = c.p := by omega
    cases c; simp_all [mergeRun]
  | succ n ih =>
    intro c h1 h2
    by_cases hlt : c.p < c.e
    · have hb : curActive [c] = true := by simp [curActive, hlt]
      rw [mergeRun_active _ hb, curMin_single]
      have hp : (c.adv c.here).p = c.p + 1 := adv_p_of_eq rfl
      have := ih (c.adv c.here) (by rw [hp, adv_e]; omega) (by rw [hp, adv_e]; omega)
      rw [List.map_cons, List.map_nil, this, hp, adv_e, adv_crd]
      obtain ⟨k, hk⟩ : ∃ k, c.e - c.p = k + 1 := ⟨c.e - c.p - 1, by omega⟩
      have hk' : c.e - (c.p + 1) = k := by omega
      rw [hk, hk', List.range'_succ]
      simp [Cur.here, Cur.adv]
    · have hb : curActive [c] = false := by simp [curActive, hlt]
      have he : c.e = c.p := by omega
      rw [mergeRun_inactive _ hb]
      cases c; simp_all

/-- **work follows sparsity (one operand)**: the loop index visits exactly the stored coordinates
`crd[p], …, crd[e-1]`, in order -/
theorem mergeTrace_single (c : Cur) (h : c.p ≤ c.e) :
    mergeTrace [c] = (List.range' c.p (c.e - c.p)).map c.crd := by
  unfold mergeTrace
  rw [mergeRun_single _ c h (by simp [curMeasure])]

theorem mergeFinal_single (c : Cur) (h : c.p ≤ c.e) : mergeFinal [c] = [{ c with p := c.e }] := by
  unfold mergeFinal
  rw [mergeRun_single _ c h (by simp [curMeasure])]

theorem mergeTrace_single_length (c : Cur) (h : c.p ≤ c.e) : (mergeTrace [c]).length = c.e - c.p := by
  rw [mergeTrace_single c h]; simp

/-- the value of the index in iteration `k` is `crd[p + k]` -/
theorem mergeTrace_single_get (c : Cur) (h : c.p ≤ c.e) (k : Nat) (hk : k < c.e - c.p) :
    (mergeTrace [c])[k]? = some (c.crd (c.p + k)) := by
  rw [mergeTrace_single c h]
  simp [hk]

end TV.Merge
