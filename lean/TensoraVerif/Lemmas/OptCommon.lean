import TensoraVerif.Lemmas.PeepTypedStmt
import TensoraVerif.Lemmas.PeepTypedCheck
import TensoraVerif.Lemmas.PeepTypedToIr
import TensoraVerif.Lemmas.Dense1Frags

/-!
C07 for the kernels of the end-to-end classes (C01): generic lemmas.

* `Opt.lookupTy_classify`, `Opt.lookupTy_of_mem`: the typing `lookupTy D` of a declaration list all of
  whose entries agree with a classifier `T : String → Ty` is `T` on the declared names;
* `Opt.mem_declsL`, … : the declarations of blocks / mapped lists;
* `Opt.noRetypeL_*`, `Opt.noRetypeS_*`: the typed fragment `NoRetypeS Γ` for the statement shapes the
  kernels are built from;
* `Opt.wt_of_params`: an initial state whose variables are exactly the tensor parameters agrees with
  every typing that types the parameters `taco_tensor_t*`, as soon as the tensor records are well typed
  (`TensorsOK`);
* `Opt.peep_transfer`: the transfer of a run to the optimised function.
-/
namespace TV.Opt
open TV.IR TV.Gen
set_option linter.unusedSectionVars false
variable {F : Type}

/-! ### typing of a declaration list -/

theorem lookupTy_classify {D : List (String × Ty)} {T : String → Ty} (h : ∀ d ∈ D, T d.1 = d.2)
    (x : String) : lookupTy D x = none ∨ lookupTy D x = some (T x) := by
  induction D with
  | nil => exact Or.inl rfl
  | cons d rest ih =>
    unfold lookupTy
    by_cases hd : (d.1 == x) = true
    · rw [if_pos hd]
      have : d.1 = x := by simpa using hd
      right; rw [← this, h d (List.mem_cons_self)]
    · rw [if_neg hd]
      exact ih (fun d' hd' => h d' (List.mem_cons_of_mem _ hd'))

theorem lookupTy_of_mem {D : List (String × Ty)} {T : String → Ty} (h : ∀ d ∈ D, T d.1 = d.2)
    {x : String} (hx : x ∈ D.map (·.1)) : lookupTy D x = some (T x) := by
  induction D with
  | nil => cases hx
  | cons d rest ih =>
    unfold lookupTy
    by_cases hd : (d.1 == x) = true
    · rw [if_pos hd]
      have : d.1 = x := by simpa using hd
      rw [← this, h d (List.mem_cons_self)]
    · rw [if_neg hd]
      rcases List.mem_cons.1 hx with e | e
      · exact absurd (by simpa using e.symm) hd
      · exact ih (fun d' hd' => h d' (List.mem_cons_of_mem _ hd')) e

/-! ### declarations -/

theorem mem_declsL {d : String × Ty} : ∀ {ss : List (Stmt F)}, d ∈ declsL ss ↔ ∃ s ∈ ss, d ∈ s.decls
  | [] => by simp [declsL]
  | s :: ss => by
    simp only [declsL, List.mem_append, mem_declsL (ss := ss), List.mem_cons, exists_eq_or_imp]

theorem mem_decls_block {d : String × Ty} {ss : List (Stmt F)} {c : Option String} :
    d ∈ (Stmt.block ss c).decls ↔ ∃ s ∈ ss, d ∈ s.decls := by
  simp only [Stmt.decls]; exact mem_declsL

/-! ### the typed fragment, lists -/

theorem noRetypeL_iff [FloatOps F] {Γ : String → Option Ty} :
    ∀ {ss : List (Stmt F)}, NoRetypeL Γ ss = true ↔ ∀ s ∈ ss, NoRetypeS Γ s = true
  | [] => by simp [NoRetypeL]
  | s :: ss => by
    simp only [NoRetypeL, Bool.and_eq_true, noRetypeL_iff (ss := ss), List.mem_cons, forall_eq_or_imp]

theorem noRetypeS_block [FloatOps F] {Γ : String → Option Ty} {ss : List (Stmt F)} {c : Option String}
    (h : ∀ s ∈ ss, NoRetypeS Γ s = true) : NoRetypeS Γ (.block ss c) = true := by
  simp only [NoRetypeS]; exact noRetypeL_iff.2 h

/-- `Γ` does not type `x`, or types it `int` -/
def IntOrNone (Γ : String → Option Ty) (x : String) : Prop := Γ x = none ∨ Γ x = some .int

theorem IntOrNone.of_classify {Γ : String → Option Ty} {T : String → Ty} {x : String}
    (h : Γ x = none ∨ Γ x = some (T x)) (hT : T x = .int) : IntOrNone Γ x := by
  rw [hT] at h; exact h

theorem noRetypeS_declInt [FloatOps F] {Γ : String → Option Ty} {x : String} {v : Expr F}
    (hx : IntOrNone Γ x) (hv : NoRetypeE Γ v = true) : NoRetypeS Γ (declAssignE x .int v) = true := by
  simp only [declAssignE, NoRetypeS, Bool.and_eq_true]
  rcases hx with h | h <;> simp [hv, declOK, varRhsOK, h]

theorem noRetypeS_assignInt [FloatOps F] {Γ : String → Option Ty} {x : String} {v : Expr F}
    (hx : IntOrNone Γ x) (hv : NoRetypeE Γ v = true) : NoRetypeS Γ (.assign (.var x) v) = true := by
  simp only [NoRetypeS, Bool.and_eq_true]
  rcases hx with h | h <;> simp [hv, NoRetypeE, assignOK, varRhsOK, h]

/-- `i = i + 1;` -/
theorem noRetypeS_incr [FloatOps F] {Γ : String → Option Ty} {x : String} (hx : IntOrNone Γ x) :
    NoRetypeS Γ (increment (.var x) (.intLit 1) : Stmt F) = true := by
  unfold increment
  apply noRetypeS_assignInt hx
  simp [plus, NoRetypeE, binOKT, peepE, Expr.isInt, Expr.isFloatZero]

/-- `<prev or 0> * d + i` with `d : int` -/
theorem noRetypeE_position [FloatOps F] {Γ : String → Option Ty} (ref : String) (l : Nat) {d i : String}
    (hd : Γ d = some .int) :
    NoRetypeE Γ (plus (times (prevLayerPointer ref l) (.var d)) (.var i) : Expr F) = true := by
  unfold prevLayerPointer
  split <;>
    simp [plus, times, NoRetypeE, binOKT, peepE, peepBin, Expr.isInt, Expr.isFloatZero, Expr.isFloatOne,
      hasKindE, tyOf, hd, NumKind.ofTy]

/-- `double* t_vals = t->vals;` -/
theorem noRetypeS_unpackVals [FloatOps F] {Γ : String → Option Ty} {t : String}
    (h : Γ (valsName t) = some (.ptr .float)) :
    NoRetypeS Γ (declAssignE (valsName t) (.ptr .float) (.attr (.var t) "vals") : Stmt F) = true := by
  simp [declAssignE, NoRetypeS, NoRetypeE, declOK, varRhsOK, h, rhsKindOK, tyOf]

/-- `t_vals = malloc(n)` -/
theorem noRetypeS_allocVals [FloatOps F] {Γ : String → Option Ty} {t c : String}
    (h : Γ (valsName t) = some (.ptr .float)) :
    NoRetypeS Γ (.assign (.var (valsName t)) (.alloc .float (.var c)) : Stmt F) = true := by
  simp [NoRetypeS, NoRetypeE, assignOK, varRhsOK, h, rhsKindOK, NumKind.ptrOf]

/-- `t->vals = t_vals;` -/
theorem noRetypeS_storeVals [FloatOps F] {Γ : String → Option Ty} {t : String}
    (h : Γ (valsName t) = some (.ptr .float)) :
    NoRetypeS Γ (.assign (.attr (.var t) "vals") (.var (valsName t)) : Stmt F) = true := by
  simp [NoRetypeS, NoRetypeE, assignOK, rhsKindOK, tyOf, h, NumKind.ofTy]

/-- `x_vals[p] = <to_ir e>` -/
theorem noRetypeS_storeCell [FloatOps F] {Γ : String → Option Ty} (ofRat : Rat → F) {x : String}
    {p : Expr F} {e : Graph.IdExpr} (hp : NoRetypeE Γ p = true) (he : valsTyped Γ e = true) :
    NoRetypeS Γ (.assign (.idx (.var x) p) (toIrWith ofRat e) : Stmt F) = true := by
  simp [NoRetypeS, NoRetypeE, assignOK, Expr.isLevelE, hp, (toIrWith_typed Γ ofRat e he).2.2]

theorem noRetypeE_prev [FloatOps F] {Γ : String → Option Ty} (ref : String) (l : Nat) :
    NoRetypeE Γ (prevLayerPointer ref l : Expr F) = true := by
  unfold prevLayerPointer; split <;> rfl

/-! ### a product `1 * e₀ * e₁ * …` of non-literal factors -/

/-- the optimised expression is not a literal -/
def NotLit [FloatOps F] (e : Expr F) : Prop :=
  (∀ k, (peepE e).isInt k = false) ∧ (peepE e).isFloatZero = false ∧ (peepE e).isFloatOne = false

theorem noRetypeE_mulFold [FloatOps F] {Γ : String → Option Ty} (xs : List (Expr F))
    (hx : ∀ x ∈ xs, NoRetypeE Γ x = true ∧ NotLit x) :
    ∀ acc : Expr F, NoRetypeE Γ acc = true → NotLit acc →
      NoRetypeE Γ (xs.foldl (.bin .mul) acc) = true := by
  induction xs with
  | nil => intro acc h _; exact h
  | cons x xs ih =>
    intro acc ha hn
    obtain ⟨hx1, hx2⟩ := hx x (List.mem_cons_self)
    rw [List.foldl_cons]
    apply ih (fun y hy => hx y (List.mem_cons_of_mem _ hy))
    · simp [NoRetypeE, ha, hx1, binOKT, hn.1, hn.2.1, hn.2.2, hx2.1, hx2.2.1, hx2.2.2]
    · simp only [NotLit, peepE, peepBin, hn.1, hn.2.1, hn.2.2, hx2.1, hx2.2.1, hx2.2.2,
        Bool.or_self, Bool.false_eq_true, if_false]
      exact ⟨fun _ => rfl, rfl, rfl⟩

/-- `1 * e₀ * e₁ * …` -/
theorem noRetypeE_mulJoin [FloatOps F] {Γ : String → Option Ty} (xs : List (Expr F))
    (hx : ∀ x ∈ xs, NoRetypeE Γ x = true ∧ NotLit x) : NoRetypeE Γ (mulJoin xs) = true := by
  unfold mulJoin joinWith
  cases xs with
  | nil => rfl
  | cons x xs =>
    obtain ⟨hx1, hx2⟩ := hx x (List.mem_cons_self)
    rw [List.foldl_cons]
    apply noRetypeE_mulFold xs (fun y hy => hx y (List.mem_cons_of_mem _ hy))
    · have e0 : (Expr.intLit 1 : Expr F).isInt 0 = false := rfl
      have e1 : (Expr.intLit 1 : Expr F).isInt 1 = true := rfl
      have e2 : (Expr.intLit 1 : Expr F).isFloatZero = false := rfl
      simp [NoRetypeE, hx1, binOKT, peepE, hx2.1, hx2.2.1, e0, e1, e2]
    · have e0 : (Expr.intLit 1 : Expr F).isInt 0 = false := rfl
      have e1 : (Expr.intLit 1 : Expr F).isInt 1 = true := rfl
      have e2 : (Expr.intLit 1 : Expr F).isFloatZero = false := rfl
      have : peepE (.bin .mul (.intLit 1) x : Expr F) = peepE x := by
        simp [peepE, peepBin, hx2.1, hx2.2.1, e0, e1, e2]
      unfold NotLit
      rw [this]; exact hx2

theorem notLit_dimAt [FloatOps F] (t : String) (k : Int) :
    NotLit (.idx (.attr (.var t) "dimensions") (.intLit k) : Expr F) :=
  ⟨fun _ => rfl, rfl, rfl⟩

/-! ### the entry state -/

variable [FloatOps F]

/-- an entry state whose variables are exactly the tensor parameters agrees with every typing that
types the parameters `taco_tensor_t*`, as soon as its tensor records are well typed -/
theorem wt_of_params {Γ : String → Option Ty} {σ : State F} (ps : List String)
    (hΓ : ∀ p ∈ ps, Γ p = some (.ptr .tensor))
    (hp : ∀ p ∈ ps, ∃ k, Dense1.TensorVar σ p k)
    (hfresh : ∀ x, x ∉ ps → lookupVar σ.vars x = none)
    (hT : TensorsOK σ.heap σ.tensors) : WT Γ σ := by
  refine ⟨?_, hT⟩
  intro x t r hx hr
  by_cases hm : x ∈ ps
  · obtain ⟨k, r', h1, h2, h3⟩ := hp x hm
    rw [hr] at h1; cases h1
    rw [hΓ x hm] at hx; cases hx
    exact ⟨h2, fun v _ => by constructor <;> intro e <;> cases e⟩
  · rw [hfresh x hm] at hr; cases hr

/-- the parameters come first in the typing of a function -/
theorem lookupTy_params (ps : List String) (rest : List (String × Ty)) {p : String} (hp : p ∈ ps) :
    lookupTy (ps.map (fun q => (q, Ty.ptr .tensor)) ++ rest) p = some (.ptr .tensor) := by
  induction ps with
  | nil => cases hp
  | cons q ps ih =>
    simp only [List.map_cons, List.cons_append]
    unfold lookupTy
    by_cases hq : (q == p) = true
    · simp [hq]
    · simp only [hq]
      rcases List.mem_cons.1 hp with e | e
      · exact absurd (by simpa using e.symm) hq
      · exact ih e


/-- `Γ` types the values arrays of all leaves `double*` -/
theorem valsTyped_of_leaves {Γ : String → Option Ty} (e : Graph.IdExpr)
    (h : ∀ t ∈ Dense1.leaves e, Γ (valsName t.name) = some (.ptr .float)) : valsTyped Γ e = true := by
  induction e with
  | int v => rfl
  | flt q => rfl
  | tensor t => simp [valsTyped, h t (by simp [Dense1.leaves])]
  | add l r ihl ihr =>
    simp only [valsTyped, Bool.and_eq_true]
    exact ⟨ihl (fun t ht => h t (by simp [Dense1.leaves, ht])), ihr (fun t ht => h t (by simp [Dense1.leaves, ht]))⟩
  | mul l r ihl ihr =>
    simp only [valsTyped, Bool.and_eq_true]
    exact ⟨ihl (fun t ht => h t (by simp [Dense1.leaves, ht])), ihr (fun t ht => h t (by simp [Dense1.leaves, ht]))⟩

theorem layerPointer_ne_valsName (ref : String) (l : Nat) (t : String) : layerPointer ref l ≠ valsName t := by
  obtain ⟨ch, h1, h2⟩ := Growth.layerPointer_getLast? ref l
  apply Growth.ne_of_getLast?_ne
  rw [h1, Dense1.getLast?_valsName]
  intro e; cases e; revert h2; decide

/-- transfer of a run to the optimised function (exact) -/
theorem peep_transfer [FloatLaws F] (f : Func F) (fuel : Nat) (σ : State F) (o : Out F)
    (hs : f.noRetype = true) (wt : WT f.tyEnv σ) (h : exec fuel f.body σ = .ok o) :
    ∃ o', exec fuel (peepF f).body σ = .ok o' ∧ o'.st = o.st ∧ o'.ret = o.ret ∧ o'.iters ≤ o.iters := by
  obtain ⟨o', e', r1, r2, r3, _⟩ := peepS_sound_typed f.tyEnv fuel f.body σ hs wt o h
  exact ⟨o', e', r1, r2, r3⟩

end TV.Opt
