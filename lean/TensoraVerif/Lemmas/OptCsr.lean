import TensoraVerif.Lemmas.OptCommon
import TensoraVerif.Lemmas.CsrKernel

/-!
C07 for the CSR matrix copy/scale kernels (`Csr.kernel`): the kernel lies in the typed stable fragment
relative to its own typing (`kernel_noRetype`), and an initial state `Csr.Init` whose tensor records are
well typed agrees with that typing (`init_WT`).
-/
namespace TV.Opt.Csr
open TV.IR TV.Gen TV.Graph TV.Merge TV.Csr TV.Opt
open TV.Sparse2 (Nm nameOf allNames nameOf_inj in1 out1 dimStmts)
set_option linter.unusedSectionVars false
set_option linter.unusedSimpArgs false
variable {F : Type} [FloatOps F]

/-- what the typing of the kernel has to say about its variables -/
structure TyFacts (Γ : String → Option Ty) (i j : String) (outT bT : TensorId) : Prop where
  vi : Γ i = some .int
  vj : Γ j = some .int
  di : Γ (dimName i) = some .int
  dj : Γ (dimName j) = some .int
  ap1 : Γ (posName outT.name 1) = some (.ptr .int)
  ac1 : Γ (crdName outT.name 1) = some (.ptr .int)
  av : Γ (valsName outT.name) = some (.ptr .float)
  bp1 : Γ (posName bT.name 1) = some (.ptr .int)
  bc1 : Γ (crdName bT.name 1) = some (.ptr .int)
  bv : Γ (valsName bT.name) = some (.ptr .float)
  kp1 : Γ (posCapName outT.name 1) = some .int
  kc1 : Γ (crdCapName outT.name 1) = some .int
  kv : Γ (valsCapName outT.name) = some .int
  pA0 : Γ (layerPointer outT.id 0) = some .int
  pA1 : Γ (layerPointer outT.id 1) = some .int
  pB0 : Γ (layerPointer bT.id 0) = some .int
  pB1 : Γ (layerPointer bT.id 1) = some .int
  eB1 : Γ (sparseEndName bT.id 1) = some .int
  vB1 : Γ (valueFromCrd bT.id 1) = some .int
  w1 : Γ (writtenName outT.name 1) = some .bool

/-- `Γ` types the values arrays of all leaves `double*` (`ToIr.leaves`) -/
theorem valsTyped_of_toIrLeaves {Γ : String → Option Ty} (e : IdExpr)
    (h : ∀ t ∈ ToIr.leaves e, Γ (valsName t.name) = some (.ptr .float)) : valsTyped Γ e = true := by
  induction e with
  | int v => rfl
  | flt q => rfl
  | tensor t => simp [valsTyped, h t (by simp [ToIr.leaves])]
  | add l r ihl ihr =>
    simp only [valsTyped, Bool.and_eq_true]
    exact ⟨ihl (fun t ht => h t (by simp [ToIr.leaves, ht])), ihr (fun t ht => h t (by simp [ToIr.leaves, ht]))⟩
  | mul l r ihl ihr =>
    simp only [valsTyped, Bool.and_eq_true]
    exact ⟨ihl (fun t ht => h t (by simp [ToIr.leaves, ht])), ihr (fun t ht => h t (by simp [ToIr.leaves, ht]))⟩

theorem flatMap_unpack (formats : Formats) {an bn : String} (hfmt : formats.map (·.1) = [an, bn]) :
    (formats.flatMap fun f => unpackStmts (F := F) f.1) = unpackStmts an ++ unpackStmts bn := by
  have : (formats.flatMap fun f => unpackStmts (F := F) f.1) =
      (formats.map (·.1)).flatMap unpackStmts := by
    rw [List.flatMap_map]
  rw [this, hfmt]
  simp

theorem dimStmts_noRetype {Γ : String → Option Ty} {i j : String} {outT bT : TensorId}
    (hΓ : TyFacts Γ i j outT bT) : NoRetypeL Γ (dimStmts i j outT : List (Stmt F)) = true := by
  simp [dimStmts, declAssignE, NoRetypeL, NoRetypeS, NoRetypeE, declOK, varRhsOK, hΓ.di, hΓ.dj]

theorem unpack_noRetype {Γ : String → Option Ty} {i j : String} {outT bT : TensorId}
    (hΓ : TyFacts Γ i j outT bT) :
    NoRetypeL Γ (unpackStmts outT.name ++ unpackStmts bT.name : List (Stmt F)) = true := by
  simp [unpackStmts, declAssignE, NoRetypeL, NoRetypeS, NoRetypeE, declOK, varRhsOK, rhsKindOK, tyOf,
    Expr.isLevelE, hΓ.ap1, hΓ.ac1, hΓ.av, hΓ.bp1, hΓ.bc1, hΓ.bv]

theorem outInit_noRetype {Γ : String → Option Ty} {i j : String} {outT bT : TensorId} (cap : Option Int)
    (hΓ : TyFacts Γ i j outT bT) : NoRetypeL Γ (outInit cap i outT : List (Stmt F)) = true := by
  cases cap <;>
  simp [outInit, defaultArraySize, declAssignE, plus, times, NoRetypeL, NoRetypeS, NoRetypeE, binOKT, peepE,
    peepBin, Expr.isInt, Expr.isFloatZero, Expr.isFloatOne, hasKindE, tyOf, assignOK, varRhsOK, rhsKindOK,
    declOK, NumKind.ofTy, NumKind.ptrOf, Expr.isLevelE, hΓ.di, hΓ.ap1, hΓ.ac1, hΓ.av, hΓ.kp1, hΓ.kc1, hΓ.kv,
    hΓ.pA1]

theorem cleanup_noRetype {Γ : String → Option Ty} {i j : String} {outT bT : TensorId}
    (hΓ : TyFacts Γ i j outT bT) : NoRetypeL Γ (cleanupLines outT : List (Stmt F)) = true := by
  simp [cleanupLines, plus, times, NoRetypeL, NoRetypeS, NoRetypeE, binOKT, peepE,
    peepBin, Expr.isInt, Expr.isFloatZero, Expr.isFloatOne, hasKindE, tyOf, assignOK, varRhsOK, rhsKindOK,
    declOK, NumKind.ofTy, NumKind.ptrOf, Expr.isLevelE, hΓ.ap1, hΓ.ac1, hΓ.av, hΓ.pA1]


/-- `p = p + (int32_t)(a == b);` -/
theorem noRetypeS_incrB2i {Γ : String → Option Ty} {x a b : String} (hx : Γ x = some .int) :
    NoRetypeS Γ (increment (.var x) (.b2i (.bin .eq (.var a) (.var b))) : Stmt F) = true := by
  by_cases h : (Expr.var a : Expr F).beq (Expr.var b) = true <;>
  simp [increment, plus, NoRetypeS, NoRetypeE, binOKT, peepE, peepBin, Expr.isInt, Expr.isFloatZero,
    Expr.isFloatOne, Expr.isBool, hasKindE, tyOf, assignOK, varRhsOK, hx, h]

theorem loop_noRetype {Γ : String → Option Ty} {i j : String} {outT bT : TensorId} (ofRat : Rat → F)
    (e : IdExpr) (hΓ : TyFacts Γ i j outT bT) (hi : outT.indexes = [i, j])
    (hm : outT.modes = [.dense, .compressed]) (hv : valsTyped Γ e = true) :
    NoRetypeL Γ (loopLines ofRat i j outT bT e) = true := by
  have hstore := noRetypeS_storeCell (Γ := Γ) ofRat (x := valsName outT.name)
    (p := (.var (layerPointer outT.id 1) : Expr F)) (e := e) rfl hv
  simp only [NoRetypeS, Bool.and_eq_true] at hstore
  by_cases hbeq : (Expr.var (valueFromCrd bT.id 1) : Expr F).beq (Expr.var j) = true <;>
  simp [loopLines, outerLoop, outerBody, innerBlock, innerLines, mid1, branch1, termBlock, termLines,
    Dense1.ptrDecl, writeSparseInit, writePosAllocation, writeCrdAssembly, writePosAssembly, denseBelow,
    mergeLoopL, mergeCond, mergeBodyL, mergeLoads, mergeMin, mergeIncs, andJoin, minJoin, joinWith, mulJoin,
    SB.finalize, SB.add, SB.mk', SB.empty, SB.branch, in1, out1, Leaf.ptr, Leaf.prevPtr, Leaf.index,
    prevLayerPointer, hi, hm,
    increment, declAssignE, plus, times, NoRetypeL, NoRetypeS, NoRetypeE, binOKT, peepE,
    peepBin, Expr.isInt, Expr.isFloatZero, Expr.isFloatOne, hasKindE, tyOf, assignOK, varRhsOK, rhsKindOK,
    declOK, NumKind.ofTy, NumKind.ptrOf, Expr.isLevelE, hΓ.vi, hΓ.vj, hΓ.di, hΓ.ap1, hΓ.ac1, hΓ.av, hΓ.bp1,
    hΓ.bc1, hΓ.kc1, hΓ.kv, hΓ.pA0, hΓ.pA1, hΓ.pB0, hΓ.pB1, hΓ.eB1, hΓ.vB1, hΓ.w1, hstore, hbeq, Expr.isBool]


/-- the body of the kernel lies in the typed fragment of any typing with `TyFacts` -/
theorem kernel_noRetypeS {Γ : String → Option Ty} (ofRat : Rat → F) (cap : Option Int) (formats : Formats)
    (i j : String) (outT bT : TensorId) (e : IdExpr) (hΓ : TyFacts Γ i j outT bT)
    (ho : isDS i j outT = true) (he : isExpr i j bT e = true)
    (hfmt : formats.map (·.1) = [outT.name, bT.name]) :
    NoRetypeS Γ (kernel ofRat cap formats i j outT bT e).body = true := by
  obtain ⟨hi, hm⟩ := (isDS_iff i j outT).1 ho
  obtain ⟨hl, _, _⟩ := (isExpr_iff i j bT e).1 he
  have hv : valsTyped Γ e = true := by
    apply valsTyped_of_toIrLeaves
    intro t ht
    rw [hl] at ht
    simp only [List.mem_singleton] at ht
    subst ht; exact hΓ.bv
  simp only [kernel, kernelStmts, flatMap_unpack formats hfmt, List.cons_append, List.nil_append, NoRetypeS,
    NoRetypeL, Bool.and_eq_true, dimStmts_noRetype hΓ, unpack_noRetype hΓ, outInit_noRetype cap hΓ,
    loop_noRetype ofRat e hΓ hi hm hv, cleanup_noRetype hΓ, NoRetypeE, and_self]

/-! ### the typing of the kernel -/

/-- the parameters and declarations of the kernel, in order -/
theorem kernel_decls_eq (ofRat : Rat → F) (cap : Option Int) (formats : Formats)
    (i j : String) (outT bT : TensorId) (e : IdExpr)
    (ho : isDS i j outT = true) (hfmt : formats.map (·.1) = [outT.name, bT.name]) :
    (kernel ofRat cap formats i j outT bT e).params ++ (kernel ofRat cap formats i j outT bT e).body.decls =
      [(nameOf i j outT bT .a, .ptr .tensor), (nameOf i j outT bT .b, .ptr .tensor),
       (nameOf i j outT bT .di, .int), (nameOf i j outT bT .dj, .int),
       (nameOf i j outT bT .ap1, .ptr .int), (nameOf i j outT bT .ac1, .ptr .int),
       (nameOf i j outT bT .av, .ptr .float),
       (nameOf i j outT bT .bp1, .ptr .int), (nameOf i j outT bT .bc1, .ptr .int),
       (nameOf i j outT bT .bv, .ptr .float),
       (nameOf i j outT bT .kp1, .int), (nameOf i j outT bT .kc1, .int), (nameOf i j outT bT .pA1, .int),
       (nameOf i j outT bT .kv, .int),
       (nameOf i j outT bT .i, .int), (nameOf i j outT bT .pA0, .int), (nameOf i j outT bT .pB0, .int),
       (nameOf i j outT bT .pB1, .int), (nameOf i j outT bT .eB1, .int), (nameOf i j outT bT .vB1, .int),
       (nameOf i j outT bT .j, .int), (nameOf i j outT bT .w1, .bool)] := by
  obtain ⟨hi, hm⟩ := (isDS_iff i j outT).1 ho
  have hp : (formats.map fun f => (f.1, Ty.ptr .tensor)) =
      (formats.map (·.1)).map (fun q => (q, Ty.ptr .tensor)) := by
    rw [List.map_map]; rfl
  simp only [kernel, kernelStmts, flatMap_unpack formats hfmt, hp, hfmt]
  simp [Stmt.decls, declsL, dimStmts, unpackStmts, outInit, cleanupLines,
    loopLines, outerLoop, outerBody, innerBlock, innerLines, mid1, branch1, termBlock, termLines,
    Dense1.ptrDecl, writeSparseInit, writePosAllocation, writeCrdAssembly, writePosAssembly, denseBelow,
    mergeLoopL, mergeCond, mergeBodyL, mergeLoads, mergeMin, mergeIncs,
    SB.finalize, SB.add, SB.mk', SB.empty, SB.branch, in1, out1, Leaf.ptr, Leaf.prevPtr, Leaf.index,
    hi, hm, increment, declAssignE, nameOf]


/-- the typing of the kernel has `TyFacts` -/
theorem kernel_tyFacts (ofRat : Rat → F) (cap : Option Int) (formats : Formats)
    (i j : String) (outT bT : TensorId) (e : IdExpr) (hN : (allNames i j outT bT).Nodup)
    (ho : isDS i j outT = true) (hfmt : formats.map (·.1) = [outT.name, bT.name]) :
    TyFacts (kernel ofRat cap formats i j outT bT e).tyEnv i j outT bT := by
  have hd := kernel_decls_eq ofRat cap formats i j outT bT e ho hfmt
  have key : ∀ c : Nm, (kernel ofRat cap formats i j outT bT e).tyEnv (nameOf i j outT bT c) =
      lookupTy _ (nameOf i j outT bT c) := fun c => congrArg (fun l => lookupTy l (nameOf i j outT bT c)) hd
  constructor
  · have := key .i; simp [lookupTy, nameOf_inj hN] at this; exact this
  · have := key .j; simp [lookupTy, nameOf_inj hN] at this; exact this
  · have := key .di; simp [lookupTy, nameOf_inj hN] at this; exact this
  · have := key .dj; simp [lookupTy, nameOf_inj hN] at this; exact this
  · have := key .ap1; simp [lookupTy, nameOf_inj hN] at this; exact this
  · have := key .ac1; simp [lookupTy, nameOf_inj hN] at this; exact this
  · have := key .av; simp [lookupTy, nameOf_inj hN] at this; exact this
  · have := key .bp1; simp [lookupTy, nameOf_inj hN] at this; exact this
  · have := key .bc1; simp [lookupTy, nameOf_inj hN] at this; exact this
  · have := key .bv; simp [lookupTy, nameOf_inj hN] at this; exact this
  · have := key .kp1; simp [lookupTy, nameOf_inj hN] at this; exact this
  · have := key .kc1; simp [lookupTy, nameOf_inj hN] at this; exact this
  · have := key .kv; simp [lookupTy, nameOf_inj hN] at this; exact this
  · have := key .pA0; simp [lookupTy, nameOf_inj hN] at this; exact this
  · have := key .pA1; simp [lookupTy, nameOf_inj hN] at this; exact this
  · have := key .pB0; simp [lookupTy, nameOf_inj hN] at this; exact this
  · have := key .pB1; simp [lookupTy, nameOf_inj hN] at this; exact this
  · have := key .eB1; simp [lookupTy, nameOf_inj hN] at this; exact this
  · have := key .vB1; simp [lookupTy, nameOf_inj hN] at this; exact this
  · have := key .w1; simp [lookupTy, nameOf_inj hN] at this; exact this


/-- **the kernel of the class lies in the typed stable fragment** (symbolic names: the names of the kernel
pairwise distinct, output and input CSR matrices indexed by `[i, j]`, a format table of the two tensors) -/
theorem kernel_noRetype (ofRat : Rat → F) (cap : Option Int) (formats : Formats)
    (i j : String) (outT bT : TensorId) (e : IdExpr) (hN : (allNames i j outT bT).Nodup)
    (ho : isDS i j outT = true) (he : isExpr i j bT e = true)
    (hfmt : formats.map (·.1) = [outT.name, bT.name]) :
    (kernel ofRat cap formats i j outT bT e).noRetype = true :=
  kernel_noRetypeS ofRat cap formats i j outT bT e
    (kernel_tyFacts ofRat cap formats i j outT bT e hN ho hfmt) ho he hfmt

/-- the same from the static hypotheses `K.OK` of a call context -/
theorem kernel_noRetype_ctx {K : Ctx F} (ok : K.OK) (cap : Option Int) (formats : Formats)
    (hfmt : formats.map (·.1) = [K.outT.name, K.bT.name]) :
    (kernel K.ofRat cap formats K.i K.j K.outT K.bT K.e).noRetype = true :=
  kernel_noRetype K.ofRat cap formats K.i K.j K.outT K.bT K.e ok.names ok.ho ok.he hfmt

/-- **the initial state agrees with the typing of the kernel** -/
theorem init_WT {K : Ctx F} (cap : Option Int) (formats : Formats)
    (hfmt : formats.map (·.1) = [K.outT.name, K.bT.name])
    {atr btr : TensorRec F} {tb : Nat} {m : Int} {σ : State F} (hinit : Init K atr btr tb m σ)
    (hT : TensorsOK σ.heap σ.tensors) :
    WT (kernel K.ofRat cap formats K.i K.j K.outT K.bT K.e).tyEnv σ := by
  apply wt_of_params [K.outT.name, K.bT.name]
  · intro p hp
    have : (kernel K.ofRat cap formats K.i K.j K.outT K.bT K.e).params =
        [K.outT.name, K.bT.name].map (fun q => (q, Ty.ptr .tensor)) := by
      rw [← hfmt, List.map_map]; rfl
    unfold Func.tyEnv
    rw [this]
    exact lookupTy_params _ _ hp
  · intro p hp
    simp only [List.mem_cons, List.not_mem_nil, or_false] at hp
    rcases hp with rfl | rfl
    · exact ⟨_, hinit.avar⟩
    · exact ⟨_, hinit.bvar⟩
  · intro x hx
    simp only [List.mem_cons, List.not_mem_nil, or_false, not_or] at hx
    exact hinit.fresh x hx.1 hx.2
  · exact hT

end TV.Opt.Csr
