import TensoraVerif.Lemmas.OptCommon
import TensoraVerif.Lemmas.ConvKernel

/-!
C07 for the dense → compressed conversion kernel (`Conv.d2sKernel`): the kernel lies in the typed stable
fragment relative to its own typing (`kernel_noRetype`), and an initial state `Conv.D2SInit` whose tensor
records are well typed agrees with that typing (`init_WT`).

The kernel has no recursive part: its parameters and declarations are an explicit list of 14 names
(`kernel_decls`), pairwise distinct under `Sparse1.KNames` (`kernel_names_nodup`), so the typing of the
kernel is read off that list (`lookupTy_of_nodup`).
-/
namespace TV.Opt.D2s
open TV.IR TV.Gen TV.Graph TV.Merge TV.Conv TV.Sparse1 TV.Opt
set_option linter.unusedSectionVars false
variable {F : Type} [FloatOps F]

/-- `Γ` does not type `x`, or types it `bool` -/
def BoolOrNone (Γ : String → Option Ty) (x : String) : Prop := Γ x = none ∨ Γ x = some .bool

/-- what the typing of the kernel has to say about its variables -/
structure TyFacts (Γ : String → Option Ty) (i : String) (outT bT : TensorId) : Prop where
  dim : Γ (dimName i) = some .int
  idx : IntOrNone Γ i
  pos : Γ (posName outT.name 0) = some (.ptr .int)
  crd : Γ (crdName outT.name 0) = some (.ptr .int)
  avals : Γ (valsName outT.name) = some (.ptr .float)
  bvals : Γ (valsName bT.name) = some (.ptr .float)
  posCap : IntOrNone Γ (posCapName outT.name 0)
  crdCap : IntOrNone Γ (crdCapName outT.name 0)
  valsCap : IntOrNone Γ (valsCapName outT.name)
  aptr : IntOrNone Γ (layerPointer outT.id 0)
  bptr : IntOrNone Γ (layerPointer bT.id 0)
  written : BoolOrNone Γ (writtenName outT.name 0)

/-- `if (p_a + 0 >= a_vals_capacity) { a_vals_capacity = a_vals_capacity * 2; a_vals = realloc(…); }` -/
theorem noRetypeS_valsAllocation {Γ : String → Option Ty} {i : String} {outT bT : TensorId}
    (ho : isSp i outT = true) (hΓ : TyFacts Γ i outT bT) :
    NoRetypeS Γ ((writePosAllocation (outLeaf outT)).finalize : Stmt F) = true := by
  obtain ⟨hix, hmd⟩ := (isSp_iff i outT).1 ho
  rcases hΓ.valsCap with h | h <;>
    simp [writePosAllocation, outLeaf, denseBelow, hix, SB.mk', SB.branch, SB.add, SB.finalize, Leaf.ptr, plus,
      times, NoRetypeS, NoRetypeL, NoRetypeE, assignOK, varRhsOK, hΓ.avals, rhsKindOK, NumKind.ptrOf, binOKT,
      peepE, Expr.isInt, Expr.isFloatZero, Expr.isFloatOne, h]

/-- `if (p_a >= a_0_crd_capacity) { … realloc … } a_0_crd[p_a] = i;` -/
theorem noRetypeS_crdAssembly {Γ : String → Option Ty} {i : String} {outT bT : TensorId}
    (hΓ : TyFacts Γ i outT bT) :
    NoRetypeS Γ ((writeCrdAssembly (outLeaf outT)).finalize : Stmt F) = true := by
  rcases hΓ.crdCap with h | h <;>
    simp [writeCrdAssembly, outLeaf, SB.mk', SB.branch, SB.add, SB.finalize, Leaf.ptr, Leaf.index,
      times, NoRetypeS, NoRetypeL, NoRetypeE, assignOK, varRhsOK, hΓ.crd, rhsKindOK, NumKind.ptrOf, binOKT,
      peepE, Expr.isInt, Expr.isFloatZero, Expr.isFloatOne, Expr.isLevelE, h]

/-- `a_0_pos[0 + 1] = p_a;` -/
theorem noRetypeS_posAssembly {Γ : String → Option Ty} (outT : TensorId) :
    NoRetypeS Γ ((writePosAssembly (outLeaf outT)).finalize : Stmt F) = true := by
  simp [writePosAssembly, outLeaf, SB.mk', SB.add, SB.finalize, Leaf.ptr, Leaf.prevPtr, prevLayerPointer, plus,
    NoRetypeS, NoRetypeL, NoRetypeE, assignOK, binOKT, peepE, Expr.isInt, Expr.isLevelE]

/-- the body of the kernel lies in the typed fragment of any typing with `TyFacts` -/
theorem kernel_noRetypeS {Γ : String → Option Ty} (ofRat : Rat → F) (cap : Option Int) (formats : Formats)
    (i : String) (outT bT : TensorId) (ho : isSp i outT = true) (hΓ : TyFacts Γ i outT bT) :
    NoRetypeS Γ (d2sKernel ofRat cap formats i outT bT).body = true := by
  obtain ⟨hix, hmd⟩ := (isSp_iff i outT).1 ho
  simp only [d2sKernel]
  apply noRetypeS_block
  intro s hs
  simp only [d2sKernelStmts, List.cons_append, List.nil_append, List.mem_cons, List.not_mem_nil, or_false] at hs
  rcases hs with rfl | rfl | rfl | rfl | rfl | rfl
  · -- extract dimensions
    apply noRetypeS_block
    intro s hs
    simp only [List.mem_singleton] at hs; subst hs
    exact noRetypeS_declInt (Or.inr hΓ.dim) (by simp [NoRetypeE])
  · -- unpack
    apply noRetypeS_block
    intro s hs
    simp only [unpackStmts, unpackDense, List.cons_append, List.nil_append, List.mem_cons, List.not_mem_nil,
      or_false] at hs
    rcases hs with rfl | rfl | rfl | rfl
    · simp [declAssignE, NoRetypeS, NoRetypeE, declOK, varRhsOK, hΓ.pos, rhsKindOK, tyOf, Expr.isLevelE]
    · simp [declAssignE, NoRetypeS, NoRetypeE, declOK, varRhsOK, hΓ.crd, rhsKindOK, tyOf, Expr.isLevelE]
    · exact noRetypeS_unpackVals hΓ.avals
    · exact noRetypeS_unpackVals hΓ.bvals
  · -- output initialisation
    apply noRetypeS_block
    intro s hs
    simp only [outInit, List.mem_cons, List.not_mem_nil, or_false] at hs
    rcases hs with rfl | rfl | rfl | rfl | rfl | rfl | rfl | rfl
    · exact noRetypeS_declInt hΓ.posCap (by simp [plus, NoRetypeE, binOKT, peepE, Expr.isInt, Expr.isFloatZero])
    · simp [NoRetypeS, NoRetypeE, assignOK, varRhsOK, hΓ.pos, rhsKindOK, NumKind.ptrOf]
    · simp [NoRetypeS, NoRetypeE, assignOK, Expr.isLevelE]
    · refine noRetypeS_declInt hΓ.crdCap ?_
      unfold defaultArraySize
      split <;> simp [NoRetypeE, binOKT, peepE, Expr.isInt, Expr.isFloatZero, Expr.isFloatOne]
    · simp [NoRetypeS, NoRetypeE, assignOK, varRhsOK, hΓ.crd, rhsKindOK, NumKind.ptrOf]
    · exact noRetypeS_declInt hΓ.aptr rfl
    · refine noRetypeS_declInt hΓ.valsCap ?_
      unfold defaultArraySize
      split <;> simp [NoRetypeE, binOKT, peepE, Expr.isInt, Expr.isFloatZero, Expr.isFloatOne]
    · exact noRetypeS_allocVals hΓ.avals
  · -- the iteration block
    apply noRetypeS_block
    intro s hs
    simp only [d2sLoopLines, List.mem_cons, List.not_mem_nil, or_false] at hs
    rcases hs with rfl | rfl | rfl
    · exact noRetypeS_declInt hΓ.idx rfl
    · simp only [d2sLoop, NoRetypeS, Bool.and_eq_true]
      refine ⟨by simp [NoRetypeE, binOKT], ?_⟩
      apply noRetypeL_iff.2
      intro s hs
      simp only [d2sBody, List.mem_cons, List.not_mem_nil, or_false] at hs
      rcases hs with rfl | rfl | rfl
      · exact noRetypeS_declInt hΓ.bptr (noRetypeE_position bT.id 0 hΓ.dim)
      · simp only [d2sMid, NoRetypeS, NoRetypeL, NoRetypeE, Bool.true_and, Bool.and_true]
        apply noRetypeL_iff.2
        intro s hs
        simp only [branchBody, List.mem_cons, List.not_mem_nil, or_false] at hs
        rcases hs with rfl | rfl | rfl | rfl
        · exact noRetypeS_valsAllocation ho hΓ
        · rcases hΓ.written with h | h <;> simp [declAssignE, NoRetypeS, NoRetypeE, declOK, varRhsOK, h]
        · apply noRetypeS_block
          intro s hs
          simp only [termBlockLines, List.mem_cons, List.not_mem_nil, or_false] at hs
          rcases hs with rfl | rfl
          · rcases hΓ.written with h | h <;> simp [NoRetypeS, NoRetypeE, assignOK, varRhsOK, h]
          · exact noRetypeS_storeCell ofRat rfl (by simp [valsTyped, hΓ.bvals])
        · simp only [NoRetypeS, NoRetypeL, NoRetypeE, Bool.true_and, Bool.and_true, Bool.and_eq_true]
          exact ⟨noRetypeS_crdAssembly hΓ, noRetypeS_incr hΓ.aptr⟩
      · exact noRetypeS_incr hΓ.idx
    · exact noRetypeS_posAssembly outT
  · -- cleanup
    apply noRetypeS_block
    intro s hs
    simp only [cleanupLines, List.mem_cons, List.not_mem_nil, or_false] at hs
    rcases hs with rfl | rfl | rfl | rfl | rfl
    · simp [NoRetypeS, NoRetypeE, assignOK, varRhsOK, hΓ.crd, rhsKindOK, NumKind.ptrOf]
    · simp [NoRetypeS, NoRetypeE, assignOK, Expr.isLevelE, rhsKindOK, tyOf, hΓ.pos, NumKind.ofTy]
    · simp [NoRetypeS, NoRetypeE, assignOK, Expr.isLevelE, rhsKindOK, tyOf, hΓ.crd, NumKind.ofTy]
    · simp [plus, NoRetypeS, NoRetypeE, assignOK, varRhsOK, hΓ.avals, rhsKindOK, NumKind.ptrOf, binOKT, peepE,
        Expr.isInt, Expr.isFloatZero]
    · exact noRetypeS_storeVals hΓ.avals
  · rfl

/-! ### the typing of the kernel -/

/-- the names of the kernel: the two parameters, then the declared variables in order -/
def kernelDecls (i : String) (outT bT : TensorId) : List (String × Ty) :=
  [(outT.name, .ptr .tensor), (bT.name, .ptr .tensor), (dimName i, .int),
   (posName outT.name 0, .ptr .int), (crdName outT.name 0, .ptr .int), (valsName outT.name, .ptr .float),
   (valsName bT.name, .ptr .float), (posCapName outT.name 0, .int), (crdCapName outT.name 0, .int),
   (layerPointer outT.id 0, .int), (valsCapName outT.name, .int), (i, .int), (layerPointer bT.id 0, .int),
   (writtenName outT.name 0, .bool)]

theorem d2s_params {formats : Formats} {outT bT : TensorId} (hf : d2sFormats formats outT bT) :
    formats.map (·.1) = [outT.name, bT.name] := by
  have := congrArg (List.map (·.1)) hf
  simpa [List.map_map, Function.comp_def] using this

/-- the parameters and declarations of the kernel, written out -/
theorem kernel_decls (ofRat : Rat → F) (cap : Option Int) (formats : Formats) (i : String) (outT bT : TensorId)
    (ho : isSp i outT = true) (hf : d2sFormats formats outT bT) :
    (d2sKernel ofRat cap formats i outT bT).params ++ (d2sKernel ofRat cap formats i outT bT).body.decls =
      kernelDecls i outT bT := by
  obtain ⟨hix, hmd⟩ := (isSp_iff i outT).1 ho
  have hp : formats.map (fun f => (f.1, Ty.ptr .tensor)) = [(outT.name, .ptr .tensor), (bT.name, .ptr .tensor)] := by
    have := congrArg (List.map (fun q : String => (q, Ty.ptr .tensor))) (d2s_params hf)
    simpa [List.map_map, Function.comp_def] using this
  simp [d2sKernel, hp, kernelDecls, d2sKernelStmts, Stmt.decls, declsL, declAssignE, unpackStmts, unpackDense,
    outInit, d2sLoopLines, d2sLoop, d2sBody, d2sMid, branchBody, termBlock, termBlockLines, cleanupLines,
    Dense1.ptrDecl, increment, writePosAllocation, writeCrdAssembly, writePosAssembly, outLeaf, denseBelow, hix,
    SB.mk', SB.branch, SB.add, SB.finalize]

/-- the first binding of a declared name in a declaration list without repeated names -/
theorem lookupTy_of_nodup {D : List (String × Ty)} (h : (D.map (·.1)).Nodup) {x : String} {t : Ty}
    (hd : (x, t) ∈ D) : lookupTy D x = some t := by
  induction D with
  | nil => cases hd
  | cons d rest ih =>
    unfold lookupTy
    rw [List.map_cons, List.nodup_cons] at h
    rcases List.mem_cons.1 hd with e | e
    · subst e; simp
    · have hne : ¬ ((d.1 == x) = true) := by
        intro hq
        have hq' : d.1 = x := by simpa using hq
        exact h.1 (hq' ▸ List.mem_map.2 ⟨(x, t), e, rfl⟩)
      rw [if_neg hne]
      exact ih h.2 e

/-- the 14 names of the kernel are pairwise different -/
theorem kernel_names_nodup {i : String} {outT bT : TensorId} (N : KNames i outT bT) :
    ((kernelDecls i outT bT).map (·.1)).Nodup := by
  simp only [kernelDecls, List.map_cons, List.map_nil, List.nodup_cons, List.mem_cons, List.not_mem_nil,
    or_false, not_or, List.nodup_nil, not_false_eq_true, and_true]
  and_intros <;> nm N

/-- the typing of the kernel has `TyFacts` -/
theorem kernel_tyFacts (ofRat : Rat → F) (cap : Option Int) (formats : Formats) (i : String) (outT bT : TensorId)
    (ho : isSp i outT = true) (hf : d2sFormats formats outT bT) (N : KNames i outT bT) :
    TyFacts (d2sKernel ofRat cap formats i outT bT).tyEnv i outT bT := by
  have hl : ∀ {x : String} {t : Ty}, (x, t) ∈ kernelDecls i outT bT →
      (d2sKernel ofRat cap formats i outT bT).tyEnv x = some t := by
    intro x t hm
    unfold Func.tyEnv
    rw [kernel_decls ofRat cap formats i outT bT ho hf]
    exact lookupTy_of_nodup (kernel_names_nodup N) hm
  refine ⟨hl ?_, Or.inr (hl ?_), hl ?_, hl ?_, hl ?_, hl ?_, Or.inr (hl ?_), Or.inr (hl ?_), Or.inr (hl ?_),
    Or.inr (hl ?_), Or.inr (hl ?_), Or.inr (hl ?_)⟩ <;> simp [kernelDecls]

/-- **the kernel of the class lies in the typed stable fragment** -/
theorem kernel_noRetype (ofRat : Rat → F) (cap : Option Int) (formats : Formats) (i : String) (outT bT : TensorId)
    (ho : isSp i outT = true) (hf : d2sFormats formats outT bT) (N : KNames i outT bT) :
    (d2sKernel ofRat cap formats i outT bT).noRetype = true :=
  kernel_noRetypeS ofRat cap formats i outT bT ho (kernel_tyFacts ofRat cap formats i outT bT ho hf N)

/-- **the initial state agrees with the typing of the kernel** -/
theorem init_WT (ofRat : Rat → F) (cap : Option Int) (formats : Formats) (i : String) (outT bT : TensorId)
    (hf : d2sFormats formats outT bT)
    {ta tb : Nat} {atr btr : TensorRec F} {n bvb : Nat} {cellsB : Nat → F} {σ : State F}
    (hinit : D2SInit outT bT ta tb atr btr n bvb cellsB σ) (hT : TensorsOK σ.heap σ.tensors) :
    WT (d2sKernel ofRat cap formats i outT bT).tyEnv σ := by
  apply wt_of_params [outT.name, bT.name]
  · intro p hp
    have : (d2sKernel ofRat cap formats i outT bT).params =
        [outT.name, bT.name].map (fun q => (q, Ty.ptr .tensor)) := by
      rw [← d2s_params hf]; simp [d2sKernel]
    unfold Func.tyEnv
    rw [this]
    exact lookupTy_params _ _ hp
  · intro p hp
    simp only [List.mem_cons, List.not_mem_nil, or_false] at hp
    rcases hp with rfl | rfl
    · exact ⟨_, hinit.avar⟩
    · exact ⟨_, hinit.bvar⟩
  · intro x hx
    simp only [List.mem_cons, List.not_mem_nil, or_false, not_or] at hx
    exact hinit.fresh x hx.1 hx.2
  · exact hT

end TV.Opt.D2s
