import TensoraVerif.Lemmas.OptCommon
import TensoraVerif.Lemmas.Dense1Generate
import TensoraVerif.Lemmas.Dense1Kernel

/-!
C07 for the dense element-wise vector kernels (`Dense1.kernel`): the kernel lies in the typed stable
fragment relative to its own typing (`kernel_noRetype`), and an initial state `Dense1.Init` whose tensor
records are well typed agrees with that typing (`init_WT`).
-/
namespace TV.Opt.Dense1
open TV.IR TV.Gen TV.Graph TV.Dense1 TV.Opt
set_option linter.unusedSectionVars false
variable {F : Type} [FloatOps F]

/-- what the typing of the kernel has to say about its variables -/
structure TyFacts (Γ : String → Option Ty) (formats : Formats) (i : String) (outT : TensorId) : Prop where
  dim : Γ (dimName i) = some .int
  idx : IntOrNone Γ i
  lp : ∀ ref l, IntOrNone Γ (layerPointer ref l)
  cap : IntOrNone Γ (valsCapName outT.name)
  vals : ∀ f ∈ formats, Γ (valsName f.1) = some (.ptr .float)

/-- the body of the kernel lies in the typed fragment of any typing with `TyFacts` -/
theorem kernel_noRetypeS {Γ : String → Option Ty} (ofRat : Rat → F) (formats : Formats) (i : String)
    (outT : TensorId) (e : IdExpr) (hΓ : TyFacts Γ formats i outT)
    (hout : outT.name ∈ formats.map (·.1))
    (hins : ∀ t ∈ leaves e, t.name ∈ formats.map (·.1)) :
    NoRetypeS Γ (kernel ofRat formats i outT e).body = true := by
  have hvals : ∀ n, n ∈ formats.map (·.1) → Γ (valsName n) = some (.ptr .float) := by
    intro n hn
    obtain ⟨f, hf, rfl⟩ := List.mem_map.1 hn
    exact hΓ.vals f hf
  have hv : valsTyped Γ e = true := valsTyped_of_leaves e (fun t ht => hvals _ (hins t ht))
  simp only [kernel]
  apply noRetypeS_block
  intro s hs
  simp only [kernelStmts, List.cons_append, List.nil_append, List.mem_cons, List.not_mem_nil, or_false] at hs
  rcases hs with rfl | rfl | rfl | rfl | rfl | rfl
  · apply noRetypeS_block
    intro s hs
    simp only [List.mem_singleton] at hs; subst hs
    refine noRetypeS_declInt (Or.inr hΓ.dim) ?_
    simp [NoRetypeE]
  · apply noRetypeS_block
    intro s hs
    simp only [List.mem_map] at hs
    obtain ⟨f, hf, rfl⟩ := hs
    exact noRetypeS_unpackVals (hΓ.vals f hf)
  · apply noRetypeS_block
    intro s hs
    simp only [List.mem_cons, List.not_mem_nil, or_false] at hs
    rcases hs with rfl | rfl
    · refine noRetypeS_declInt hΓ.cap ?_
      simp [NoRetypeE, binOKT, peepE, Expr.isInt, Expr.isFloatZero]
    · exact noRetypeS_allocVals (hvals _ hout)
  · apply noRetypeS_block
    intro s hs
    simp only [loopLines, List.mem_cons, List.not_mem_nil, or_false] at hs
    rcases hs with rfl | rfl
    · exact noRetypeS_declInt hΓ.idx rfl
    · simp only [loopStmt, NoRetypeS, Bool.and_eq_true]
      refine ⟨by simp [NoRetypeE, binOKT], ?_⟩
      apply noRetypeL_iff.2
      intro s hs
      simp only [loopBody, List.mem_append, List.mem_map, List.mem_cons, List.not_mem_nil, or_false] at hs
      rcases hs with ⟨t, _, rfl⟩ | rfl | rfl
      · exact noRetypeS_declInt (hΓ.lp _ _) (noRetypeE_position "" 0 hΓ.dim)
      · simp only [NoRetypeS, NoRetypeE, NoRetypeL, Bool.true_and, Bool.and_true]
        exact noRetypeS_storeCell ofRat rfl hv
      · exact noRetypeS_incr hΓ.idx
  · apply noRetypeS_block
    intro s hs
    simp only [List.mem_singleton] at hs; subst hs
    exact noRetypeS_storeVals (hvals _ hout)
  · rfl

/-! ### the typing of the kernel -/

/-- the classifier: parameters are `taco_tensor_t*`, `<t>_vals` are `double*`, everything else `int` -/
noncomputable def clsTy (formats : Formats) (x : String) : Ty :=
  open Classical in
  if x ∈ formats.map (·.1) then .ptr .tensor
  else if x ∈ formats.map (fun f => valsName f.1) then .ptr .float
  else .int

theorem clsTy_int {formats : Formats} {x : String} (h1 : x ∉ formats.map (·.1))
    (h2 : ∀ s, x ≠ valsName s) : clsTy formats x = .int := by
  unfold clsTy
  rw [if_neg h1, if_neg]
  intro hm
  obtain ⟨f, _, hf⟩ := List.mem_map.1 hm
  exact h2 f.1 hf.symm

theorem mem_us_lp (ref : String) (l : Nat) : '_' ∈ (layerPointer ref l).toList := by
  simp [layerPointer, String.toList_append]

/-- every parameter and declaration of the kernel has the type the classifier gives to its name -/
theorem kernel_decls_cls (ofRat : Rat → F) (formats : Formats) (i : String) (outT : TensorId)
    (e : IdExpr) (ok : KernelOK formats i outT e) :
    ∀ d ∈ (kernel ofRat formats i outT e).params ++ (kernel ofRat formats i outT e).body.decls,
      clsTy formats d.1 = d.2 := by
  have hgen : ∀ x, '_' ∈ x.toList → x ∉ formats.map (·.1) := by
    intro x hx hm
    obtain ⟨f, hf, rfl⟩ := List.mem_map.1 hm
    exact ok.tensors f hf hx
  intro d hd
  rcases List.mem_append.1 hd with hd | hd
  · simp only [kernel, List.mem_map] at hd
    obtain ⟨f, hf, rfl⟩ := hd
    simp only [clsTy]
    rw [if_pos (List.mem_map.2 ⟨f, hf, rfl⟩)]
  · simp only [kernel] at hd
    obtain ⟨s, hs, hd⟩ := mem_decls_block.1 hd
    simp only [kernelStmts, List.cons_append, List.nil_append, List.mem_cons, List.not_mem_nil, or_false] at hs
    rcases hs with rfl | rfl | rfl | rfl | rfl | rfl
    · obtain ⟨s, hs, hd⟩ := mem_decls_block.1 hd
      simp only [List.mem_singleton] at hs; subst hs
      simp only [declAssignE, Stmt.decls, List.mem_singleton] at hd
      subst hd
      exact clsTy_int (hgen _ (mem_us_dimName _)) (fun s => dimName_ne_valsName _ s)
    · obtain ⟨s, hs, hd⟩ := mem_decls_block.1 hd
      simp only [List.mem_map] at hs
      obtain ⟨f, hf, rfl⟩ := hs
      simp only [declAssignE, Stmt.decls, List.mem_singleton] at hd
      subst hd
      simp only [clsTy]
      rw [if_neg (hgen _ (mem_us_valsName _)), if_pos (List.mem_map.2 ⟨f, hf, rfl⟩)]
    · obtain ⟨s, hs, hd⟩ := mem_decls_block.1 hd
      simp only [List.mem_cons, List.not_mem_nil, or_false] at hs
      rcases hs with rfl | rfl
      · simp only [declAssignE, Stmt.decls, List.mem_singleton] at hd
        subst hd
        exact clsTy_int (hgen _ (mem_us_valsCapName _))
          (fun s => (valsName_ne_valsCapName' s _).symm)
      · simp [Stmt.decls] at hd
    · obtain ⟨s, hs, hd⟩ := mem_decls_block.1 hd
      simp only [loopLines, List.mem_cons, List.not_mem_nil, or_false] at hs
      rcases hs with rfl | rfl
      · simp only [declAssignE, Stmt.decls, List.mem_singleton] at hd
        subst hd
        exact clsTy_int ok.idxTensor
          (fun s => Growth.ne_of_underscore ok.idx (mem_us_valsName s))
      · simp only [loopStmt, Stmt.decls] at hd
        obtain ⟨s, hs, hd⟩ := mem_declsL.1 hd
        simp only [loopBody, List.mem_append, List.mem_map, List.mem_cons, List.not_mem_nil, or_false] at hs
        rcases hs with ⟨t, _, rfl⟩ | rfl | rfl
        · simp only [ptrDecl, declAssignE, Stmt.decls, List.mem_singleton] at hd
          subst hd
          exact clsTy_int (hgen _ (mem_us_lp _ _)) (fun s => layerPointer_ne_valsName _ _ s)
        · simp [Stmt.decls, declsL, storeStmt] at hd
        · simp [increment, Stmt.decls] at hd
    · obtain ⟨s, hs, hd⟩ := mem_decls_block.1 hd
      simp only [List.mem_singleton] at hs; subst hs
      simp [Stmt.decls] at hd
    · simp [Stmt.decls] at hd

/-- the typing of the kernel has `TyFacts` -/
theorem kernel_tyFacts (ofRat : Rat → F) (formats : Formats) (i : String) (outT : TensorId)
    (e : IdExpr) (ok : KernelOK formats i outT e) :
    TyFacts (kernel ofRat formats i outT e).tyEnv formats i outT := by
  have hc := kernel_decls_cls ofRat formats i outT e ok
  have hgen : ∀ x, '_' ∈ x.toList → x ∉ formats.map (·.1) := by
    intro x hx hm
    obtain ⟨f, hf, rfl⟩ := List.mem_map.1 hm
    exact ok.tensors f hf hx
  have hcl := fun x => lookupTy_classify hc x
  have hdecl : ∀ {x : String} {t : Ty}, (x, t) ∈ (kernel ofRat formats i outT e).body.decls →
      (kernel ofRat formats i outT e).tyEnv x = some t := by
    intro x t hm
    have h1 : x ∈ ((kernel ofRat formats i outT e).params ++ (kernel ofRat formats i outT e).body.decls).map
        (·.1) := List.mem_map.2 ⟨(x, t), List.mem_append_right _ hm, rfl⟩
    have h2 := lookupTy_of_mem hc h1
    rw [hc (x, t) (List.mem_append_right _ hm)] at h2
    exact h2
  refine ⟨?_, ?_, ?_, ?_, ?_⟩
  · apply hdecl
    simp only [kernel]
    refine mem_decls_block.2 ⟨_, by simp [kernelStmts]; exact Or.inl rfl, ?_⟩
    refine mem_decls_block.2 ⟨_, List.mem_singleton.2 rfl, by simp [declAssignE, Stmt.decls]⟩
  · exact IntOrNone.of_classify (hcl i) (clsTy_int ok.idxTensor
      (fun s => Growth.ne_of_underscore ok.idx (mem_us_valsName s)))
  · intro ref l
    exact IntOrNone.of_classify (hcl _) (clsTy_int (hgen _ (mem_us_lp _ _))
      (fun s => layerPointer_ne_valsName _ _ s))
  · exact IntOrNone.of_classify (hcl _) (clsTy_int (hgen _ (mem_us_valsCapName _))
      (fun s => (valsName_ne_valsCapName' s _).symm))
  · intro f hf
    apply hdecl
    simp only [kernel]
    refine mem_decls_block.2 ⟨_, by simp [kernelStmts]; exact Or.inr (Or.inl rfl), ?_⟩
    refine mem_decls_block.2 ⟨declAssignE (valsName f.1) (.ptr .float) (.attr (.var f.1) "vals"),
      List.mem_map.2 ⟨f, hf, rfl⟩, by simp [declAssignE, Stmt.decls]⟩

/-- **the kernel of the class lies in the typed stable fragment** -/
theorem kernel_noRetype (ofRat : Rat → F) (formats : Formats) (i : String) (outT : TensorId)
    (e : IdExpr) (ok : KernelOK formats i outT e) :
    (kernel ofRat formats i outT e).noRetype = true :=
  kernel_noRetypeS ofRat formats i outT e (kernel_tyFacts ofRat formats i outT e ok) ok.out
    (fun t ht => (ok.ins t ht).1)

/-- **the initial state agrees with the typing of the kernel** -/
theorem init_WT (ofRat : Rat → F) (formats : Formats) (i : String) (outT : TensorId) (e : IdExpr)
    {n : Nat} {tix blkOf : String → Nat} {cellsOf : String → Nat → F} {σ : State F}
    (hinit : Init formats outT e n tix blkOf cellsOf σ) (hT : TensorsOK σ.heap σ.tensors) :
    WT (kernel ofRat formats i outT e).tyEnv σ := by
  apply wt_of_params (formats.map (·.1))
  · intro p hp
    have : (kernel ofRat formats i outT e).params = (formats.map (·.1)).map (fun q => (q, Ty.ptr .tensor)) := by
      simp [kernel]
    unfold Func.tyEnv
    rw [this]
    exact lookupTy_params _ _ hp
  · intro p hp
    obtain ⟨f, hf, rfl⟩ := List.mem_map.1 hp
    exact ⟨_, hinit.params f hf⟩
  · exact hinit.fresh
  · exact hT

end TV.Opt.Dense1
