import TensoraVerif.Lemmas.OptCommon
import TensoraVerif.Lemmas.Dense2Kernel

/-!
C07 for the dense kernels with one contraction (`Dense2.kernel`): the kernel lies in the typed stable
fragment relative to its own typing (`kernel_noRetype`), and an initial state `Dense2.Init` whose tensor
records are well typed agrees with that typing (`init_WT`).
-/
namespace TV.Opt.Dense2
open TV.IR TV.Gen TV.Graph TV.Dense2 TV.Opt
open TV.Dense1 (leaves ptrDecl)
set_option linter.unusedSectionVars false
variable {F : Type} [FloatOps F]

/-- what the typing of the kernel has to say about its variables -/
structure TyFacts (Γ : String → Option Ty) (formats : Formats) (i j : String) (outT : TensorId) : Prop where
  dimI : Γ (dimName i) = some .int
  dimJ : Γ (dimName j) = some .int
  idxI : IntOrNone Γ i
  idxJ : IntOrNone Γ j
  lp : ∀ ref l, IntOrNone Γ (layerPointer ref l)
  lpOut : Γ (layerPointer outT.id 0) = some .int
  cap : IntOrNone Γ (valsCapName outT.name)
  vals : ∀ f ∈ formats, Γ (valsName f.1) = some (.ptr .float)
  bN : Γ (bN outT) = some (.ptr .float)
  bL : IntOrNone Γ (bL outT)

/-- `bucket[0] = bucket[0] + <to_ir e>` -/
theorem noRetypeS_acc {Γ : String → Option Ty} (ofRat : Rat → F) {x : String} {e : IdExpr}
    (hx : Γ x = some (.ptr .float)) (he : valsTyped Γ e = true) :
    NoRetypeS Γ (increment (.idx (.var x) (.intLit 0)) (toIrWith ofRat e) : Stmt F) = true := by
  simp [increment, plus, NoRetypeS, NoRetypeE, assignOK, Expr.isLevelE, (toIrWith_typed Γ ofRat e he).2.2,
    binOKT, peepE, Expr.isInt, Expr.isFloatZero, hasKindE, tyOf, hx, NumKind.ofTy]

/-- `double* bucket = out_vals + p_<out>_0 * 1;` -/
theorem noRetypeS_bucketDecl {Γ : String → Option Ty} {b v p : String}
    (hb : Γ b = some (.ptr .float)) (hv : Γ v = some (.ptr .float)) (hp : Γ p = some .int) :
    NoRetypeS Γ (declAssignE b (.ptr .float) (plus (.var v) (times (.var p) (.intLit 1))) : Stmt F) = true := by
  simp [declAssignE, plus, times, NoRetypeS, NoRetypeE, declOK, varRhsOK, rhsKindOK, binOKT, peepE, peepBin,
    Expr.isInt, Expr.isFloatZero, Expr.isFloatOne, tyOf, hb, hv, hp, NumKind.ofTy, addKind, arithKind]

/-- the lines of the inner loop -/
theorem innerLines_noRetype {Γ : String → Option Ty} {formats : Formats} (ofRat : Rat → F) (i j : String)
    (outT : TensorId) (e : IdExpr) (hΓ : TyFacts Γ formats i j outT)
    (hov : Γ (valsName outT.name) = some (.ptr .float)) (hv : valsTyped Γ e = true) :
    ∀ s ∈ innerLines ofRat i j outT e, NoRetypeS Γ s = true := by
  intro s hs
  simp only [innerLines, List.mem_cons, List.not_mem_nil, or_false] at hs
  rcases hs with rfl | rfl | rfl
  · apply noRetypeS_block
    intro s hs
    simp only [bucketInitLines, List.mem_cons, List.not_mem_nil, or_false] at hs
    rcases hs with rfl | rfl | rfl
    · exact noRetypeS_bucketDecl hΓ.bN hov hΓ.lpOut
    · exact noRetypeS_declInt hΓ.bL rfl
    · simp only [bucketZeroLoop, NoRetypeS, Bool.and_eq_true]
      refine ⟨by simp [NoRetypeE, binOKT], ?_⟩
      apply noRetypeL_iff.2
      intro s hs
      simp only [bucketZeroBody, List.mem_cons, List.not_mem_nil, or_false] at hs
      rcases hs with rfl | rfl
      · simp [NoRetypeS, NoRetypeE, assignOK, Expr.isLevelE]
      · exact noRetypeS_incr hΓ.bL
  · exact noRetypeS_declInt hΓ.idxJ rfl
  · simp only [innerLoop, NoRetypeS, Bool.and_eq_true]
    refine ⟨by simp [NoRetypeE, binOKT], ?_⟩
    apply noRetypeL_iff.2
    intro s hs
    simp only [innerBody, List.mem_append, List.mem_flatMap, List.mem_cons, List.not_mem_nil, or_false] at hs
    rcases hs with ⟨t, _, hs⟩ | rfl | rfl
    · unfold innerDecl at hs
      split at hs
      · simp only [List.mem_singleton] at hs; subst hs
        refine noRetypeS_declInt (hΓ.lp _ _) ?_
        simp [plus, times, NoRetypeE, binOKT, peepE, peepBin, Expr.isInt, Expr.isFloatZero, Expr.isFloatOne]
      · split at hs
        · simp only [List.mem_singleton] at hs; subst hs
          exact noRetypeS_declInt (hΓ.lp _ _) (noRetypeE_position "" 0 hΓ.dimJ)
        · cases hs
    · simp only [NoRetypeS, NoRetypeE, NoRetypeL, Bool.true_and, Bool.and_true]
      exact noRetypeS_acc ofRat hΓ.bN hv
    · exact noRetypeS_incr hΓ.idxJ

/-- the body of the kernel lies in the typed fragment of any typing with `TyFacts` -/
theorem kernel_noRetypeS {Γ : String → Option Ty} (ofRat : Rat → F) (formats : Formats) (i j jt : String)
    (jd : Nat) (outT : TensorId) (e : IdExpr) (hΓ : TyFacts Γ formats i j outT)
    (hout : outT.name ∈ formats.map (·.1))
    (hins : ∀ t ∈ leaves e, t.name ∈ formats.map (·.1)) :
    NoRetypeS Γ (kernel ofRat formats i j jt jd outT e).body = true := by
  have hvals : ∀ n, n ∈ formats.map (·.1) → Γ (valsName n) = some (.ptr .float) := by
    intro n hn
    obtain ⟨f, hf, rfl⟩ := List.mem_map.1 hn
    exact hΓ.vals f hf
  have hv : valsTyped Γ e = true := valsTyped_of_leaves e (fun t ht => hvals _ (hins t ht))
  simp only [kernel]
  apply noRetypeS_block
  intro s hs
  simp only [kernelStmts, List.cons_append, List.nil_append, List.mem_cons, List.not_mem_nil, or_false] at hs
  rcases hs with rfl | rfl | rfl | rfl | rfl | rfl
  · apply noRetypeS_block
    intro s hs
    simp only [List.mem_cons, List.not_mem_nil, or_false] at hs
    rcases hs with rfl | rfl
    · refine noRetypeS_declInt (Or.inr hΓ.dimI) ?_
      simp [NoRetypeE]
    · refine noRetypeS_declInt (Or.inr hΓ.dimJ) ?_
      simp [NoRetypeE]
  · apply noRetypeS_block
    intro s hs
    simp only [List.mem_map] at hs
    obtain ⟨f, hf, rfl⟩ := hs
    exact noRetypeS_unpackVals (hΓ.vals f hf)
  · apply noRetypeS_block
    intro s hs
    simp only [List.mem_cons, List.not_mem_nil, or_false] at hs
    rcases hs with rfl | rfl
    · refine noRetypeS_declInt hΓ.cap ?_
      simp [NoRetypeE, binOKT, peepE, Expr.isInt, Expr.isFloatZero]
    · exact noRetypeS_allocVals (hvals _ hout)
  · apply noRetypeS_block
    intro s hs
    simp only [loopLines, List.mem_cons, List.not_mem_nil, or_false] at hs
    rcases hs with rfl | rfl
    · exact noRetypeS_declInt hΓ.idxI rfl
    · simp only [outerLoop, NoRetypeS, Bool.and_eq_true]
      refine ⟨by simp [NoRetypeE, binOKT], ?_⟩
      apply noRetypeL_iff.2
      intro s hs
      simp only [outerBody, List.mem_append, List.mem_map, List.mem_cons, List.not_mem_nil, or_false] at hs
      rcases hs with ⟨t, _, rfl⟩ | rfl | rfl
      · exact noRetypeS_declInt (hΓ.lp _ _) (noRetypeE_position "" 0 hΓ.dimI)
      · simp only [NoRetypeS, NoRetypeE, NoRetypeL, Bool.true_and, Bool.and_true]
        exact noRetypeL_iff.2 (innerLines_noRetype ofRat i j outT e hΓ (hvals _ hout) hv)
      · exact noRetypeS_incr hΓ.idxI
  · apply noRetypeS_block
    intro s hs
    simp only [List.mem_singleton] at hs; subst hs
    exact noRetypeS_storeVals (hvals _ hout)
  · rfl

/-! ### the typing of the kernel -/

/-- the classifier: parameters are `taco_tensor_t*`, `<t>_vals` and the bucket are `double*`, everything
else `int` -/
noncomputable def clsTy (formats : Formats) (outT : TensorId) (x : String) : Ty :=
  open Classical in
  if x ∈ formats.map (·.1) then .ptr .tensor
  else if x ∈ formats.map (fun f => valsName f.1) ∨ x = bN outT then .ptr .float
  else .int

theorem clsTy_int {formats : Formats} {outT : TensorId} {x : String} (h1 : x ∉ formats.map (·.1))
    (h2 : ∀ f ∈ formats, x ≠ valsName f.1) (h3 : x ≠ bN outT) : clsTy formats outT x = .int := by
  unfold clsTy
  rw [if_neg h1, if_neg]
  rintro (hm | hm)
  · obtain ⟨f, hf, hfe⟩ := List.mem_map.1 hm
    exact h2 f hf hfe.symm
  · exact h3 hm

/-- the declarations of the loop nest -/
theorem loop_decls (ofRat : Rat → F) (i j : String) (outT : TensorId) (e : IdExpr) {d : String × Ty}
    (h : d ∈ declsL (loopLines ofRat i j outT e)) :
    (d.2 = .int ∧ (d.1 = i ∨ d.1 = j ∨ d.1 = bL outT ∨ ∃ ref l, d.1 = layerPointer ref l)) ∨
      d = (bN outT, .ptr .float) := by
  obtain ⟨s, hs, hd⟩ := mem_declsL.1 h
  simp only [loopLines, List.mem_cons, List.not_mem_nil, or_false] at hs
  rcases hs with rfl | rfl
  · simp only [declAssignE, Stmt.decls, List.mem_singleton] at hd
    subst hd; exact Or.inl ⟨rfl, Or.inl rfl⟩
  · simp only [outerLoop, Stmt.decls] at hd
    obtain ⟨s, hs, hd⟩ := mem_declsL.1 hd
    simp only [outerBody, List.mem_append, List.mem_map, List.mem_cons, List.not_mem_nil, or_false] at hs
    rcases hs with ⟨t, _, rfl⟩ | rfl | rfl
    · simp only [ptrDecl, declAssignE, Stmt.decls, List.mem_singleton] at hd
      subst hd; exact Or.inl ⟨rfl, Or.inr (Or.inr (Or.inr ⟨_, _, rfl⟩))⟩
    · simp only [Stmt.decls, declsL, List.append_nil] at hd
      obtain ⟨s, hs, hd⟩ := mem_declsL.1 hd
      simp only [innerLines, List.mem_cons, List.not_mem_nil, or_false] at hs
      rcases hs with rfl | rfl | rfl
      · simp only [Stmt.decls] at hd
        obtain ⟨s, hs, hd⟩ := mem_declsL.1 hd
        simp only [bucketInitLines, List.mem_cons, List.not_mem_nil, or_false] at hs
        rcases hs with rfl | rfl | rfl
        · simp only [declAssignE, Stmt.decls, List.mem_singleton] at hd
          subst hd; exact Or.inr rfl
        · simp only [declAssignE, Stmt.decls, List.mem_singleton] at hd
          subst hd; exact Or.inl ⟨rfl, Or.inr (Or.inr (Or.inl rfl))⟩
        · simp [bucketZeroLoop, bucketZeroBody, increment, Stmt.decls, declsL] at hd
      · simp only [declAssignE, Stmt.decls, List.mem_singleton] at hd
        subst hd; exact Or.inl ⟨rfl, Or.inr (Or.inl rfl)⟩
      · simp only [innerLoop, Stmt.decls] at hd
        obtain ⟨s, hs, hd⟩ := mem_declsL.1 hd
        simp only [innerBody, List.mem_append, List.mem_flatMap, List.mem_cons, List.not_mem_nil,
          or_false] at hs
        rcases hs with ⟨t, _, hs⟩ | rfl | rfl
        · unfold innerDecl at hs
          split at hs
          · simp only [List.mem_singleton] at hs; subst hs
            simp only [mDecl, declAssignE, Stmt.decls, List.mem_singleton] at hd
            subst hd; exact Or.inl ⟨rfl, Or.inr (Or.inr (Or.inr ⟨_, _, rfl⟩))⟩
          · split at hs
            · simp only [List.mem_singleton] at hs; subst hs
              simp only [ptrDecl, declAssignE, Stmt.decls, List.mem_singleton] at hd
              subst hd; exact Or.inl ⟨rfl, Or.inr (Or.inr (Or.inr ⟨_, _, rfl⟩))⟩
            · cases hs
        · simp [accStmt, increment, Stmt.decls, declsL] at hd
        · simp [increment, Stmt.decls] at hd
    · simp [increment, Stmt.decls] at hd

/-- the cursor of the output and the bucket are declared by the loop nest -/
theorem loop_decls_mem (ofRat : Rat → F) (i j : String) (outT : TensorId) (e : IdExpr) :
    (layerPointer outT.id 0, Ty.int) ∈ declsL (loopLines ofRat i j outT e) ∧
      (bN outT, Ty.ptr .float) ∈ declsL (loopLines ofRat i j outT e) := by
  constructor
  · refine mem_declsL.2 ⟨outerLoop ofRat i j outT e, by simp [loopLines], ?_⟩
    simp only [outerLoop, Stmt.decls]
    refine mem_declsL.2 ⟨ptrDecl i outT, by simp [outerBody, outerPtrs], ?_⟩
    simp [ptrDecl, declAssignE, Stmt.decls]
  · refine mem_declsL.2 ⟨outerLoop ofRat i j outT e, by simp [loopLines], ?_⟩
    simp only [outerLoop, Stmt.decls]
    refine mem_declsL.2 ⟨.branch (.boolLit true)
      (.block [.block (innerLines ofRat i j outT e) (some ("*** Iteration over " ++ j ++ " ***"))] none)
      (.block [] none), by simp [outerBody], ?_⟩
    simp only [Stmt.decls, declsL, List.append_nil]
    refine mem_declsL.2 ⟨.block (bucketInitLines outT) (some "Bucket initialization"), by simp [innerLines], ?_⟩
    simp only [Stmt.decls]
    refine mem_declsL.2 ⟨_, List.mem_cons_self, ?_⟩
    simp [declAssignE, Stmt.decls, bN]

/-- the names the kernel declares `int` are classified `int` -/
theorem cls_int_names {formats : Formats} {i j jt : String} {outT : TensorId} {e : IdExpr}
    (ok : KernelOK formats i j jt outT e) :
    clsTy formats outT (dimName i) = .int ∧ clsTy formats outT (dimName j) = .int ∧
    clsTy formats outT i = .int ∧ clsTy formats outT j = .int ∧
    clsTy formats outT (valsCapName outT.name) = .int ∧ clsTy formats outT (bL outT) = .int ∧
    ∀ ref l, clsTy formats outT (layerPointer ref l) = .int := by
  have hgen : ∀ x, '_' ∈ x.toList → x ∉ formats.map (·.1) := by
    intro x hx hm
    obtain ⟨f, hf, rfl⟩ := List.mem_map.1 hm
    exact ok.tensors f hf hx
  have hcid := ok.count_id
  refine ⟨?_, ?_, ?_, ?_, ?_, ?_, ?_⟩
  · exact clsTy_int (hgen _ (Dense1.mem_us_dimName _)) (fun f _ => Dense1.dimName_ne_valsName _ _)
      (ne_of_count_ne (by rw [count_dimName ok.idxI, count_bN]; omega))
  · exact clsTy_int (hgen _ (Dense1.mem_us_dimName _)) (fun f _ => Dense1.dimName_ne_valsName _ _)
      (ne_of_count_ne (by rw [count_dimName ok.idxJ, count_bN]; omega))
  · exact clsTy_int ok.idxTensorI (fun f _ => Growth.ne_of_underscore ok.idxI (Dense1.mem_us_valsName _))
      (Growth.ne_of_underscore ok.idxI (mem_us_bN outT))
  · exact clsTy_int ok.idxTensorJ (fun f _ => Growth.ne_of_underscore ok.idxJ (Dense1.mem_us_valsName _))
      (Growth.ne_of_underscore ok.idxJ (mem_us_bN outT))
  · exact clsTy_int (hgen _ (Dense1.mem_us_valsCapName _))
      (fun f _ => (Dense1.valsName_ne_valsCapName' _ _).symm) (bN_ne_valsCapName ok.outId ok.outName).symm
  · exact clsTy_int (hgen _ (mem_us_bL outT))
      (fun f hf => ne_of_count_ne (by rw [count_bL, count_valsName (ok.tensors f hf)]; omega))
      (ToIr.ne_of_head?_ne (by rw [head?_bN, head?_bL]; decide)).symm
  · intro ref l
    exact clsTy_int (hgen _ (mem_us_lp _ _)) (fun f _ => layerPointer_ne_valsName _ _ _)
      (ToIr.ne_of_head?_ne (by rw [head?_bN, head?_lp]; decide)).symm

/-- every parameter and declaration of the kernel has the type the classifier gives to its name -/
theorem kernel_decls_cls (ofRat : Rat → F) (formats : Formats) (i j jt : String) (jd : Nat)
    (outT : TensorId) (e : IdExpr) (ok : KernelOK formats i j jt outT e) :
    ∀ d ∈ (kernel ofRat formats i j jt jd outT e).params ++ (kernel ofRat formats i j jt jd outT e).body.decls,
      clsTy formats outT d.1 = d.2 := by
  have hgen : ∀ x, '_' ∈ x.toList → x ∉ formats.map (·.1) := by
    intro x hx hm
    obtain ⟨f, hf, rfl⟩ := List.mem_map.1 hm
    exact ok.tensors f hf hx
  obtain ⟨cDI, cDJ, cI, cJ, cCap, cBL, cLP⟩ := cls_int_names ok
  intro d hd
  rcases List.mem_append.1 hd with hd | hd
  · simp only [kernel, List.mem_map] at hd
    obtain ⟨f, hf, rfl⟩ := hd
    simp only [clsTy]
    rw [if_pos (List.mem_map.2 ⟨f, hf, rfl⟩)]
  · simp only [kernel] at hd
    obtain ⟨s, hs, hd⟩ := mem_decls_block.1 hd
    simp only [kernelStmts, List.cons_append, List.nil_append, List.mem_cons, List.not_mem_nil, or_false] at hs
    rcases hs with rfl | rfl | rfl | rfl | rfl | rfl
    · obtain ⟨s, hs, hd⟩ := mem_decls_block.1 hd
      simp only [List.mem_cons, List.not_mem_nil, or_false] at hs
      rcases hs with rfl | rfl <;>
      · simp only [declAssignE, Stmt.decls, List.mem_singleton] at hd
        subst hd
        assumption
    · obtain ⟨s, hs, hd⟩ := mem_decls_block.1 hd
      simp only [List.mem_map] at hs
      obtain ⟨f, hf, rfl⟩ := hs
      simp only [declAssignE, Stmt.decls, List.mem_singleton] at hd
      subst hd
      simp only [clsTy]
      rw [if_neg (hgen _ (Dense1.mem_us_valsName _)), if_pos (Or.inl (List.mem_map.2 ⟨f, hf, rfl⟩))]
    · obtain ⟨s, hs, hd⟩ := mem_decls_block.1 hd
      simp only [List.mem_cons, List.not_mem_nil, or_false] at hs
      rcases hs with rfl | rfl
      · simp only [declAssignE, Stmt.decls, List.mem_singleton] at hd
        subst hd
        exact cCap
      · simp [Stmt.decls] at hd
    · simp only [Stmt.decls] at hd
      rcases loop_decls ofRat i j outT e hd with ⟨h1, h2⟩ | h
      · rw [h1]
        rcases h2 with h2 | h2 | h2 | ⟨ref, l, h2⟩ <;> rw [h2]
        · exact cI
        · exact cJ
        · exact cBL
        · exact cLP ref l
      · subst h
        unfold clsTy
        rw [if_neg (hgen _ (mem_us_bN outT)), if_pos (Or.inr rfl)]
    · obtain ⟨s, hs, hd⟩ := mem_decls_block.1 hd
      simp only [List.mem_singleton] at hs; subst hs
      simp [Stmt.decls] at hd
    · simp [Stmt.decls] at hd

/-- the typing of the kernel has `TyFacts` -/
theorem kernel_tyFacts (ofRat : Rat → F) (formats : Formats) (i j jt : String) (jd : Nat)
    (outT : TensorId) (e : IdExpr) (ok : KernelOK formats i j jt outT e) :
    TyFacts (kernel ofRat formats i j jt jd outT e).tyEnv formats i j outT := by
  have hc := kernel_decls_cls ofRat formats i j jt jd outT e ok
  obtain ⟨cDI, cDJ, cI, cJ, cCap, cBL, cLP⟩ := cls_int_names ok
  have hcl := fun x => lookupTy_classify hc x
  have hdecl : ∀ {x : String} {t : Ty}, (x, t) ∈ (kernel ofRat formats i j jt jd outT e).body.decls →
      (kernel ofRat formats i j jt jd outT e).tyEnv x = some t := by
    intro x t hm
    have h1 : x ∈ ((kernel ofRat formats i j jt jd outT e).params ++
        (kernel ofRat formats i j jt jd outT e).body.decls).map (·.1) :=
      List.mem_map.2 ⟨(x, t), List.mem_append_right _ hm, rfl⟩
    have h2 := lookupTy_of_mem hc h1
    rw [hc (x, t) (List.mem_append_right _ hm)] at h2
    exact h2
  have hloop : ∀ {d : String × Ty}, d ∈ declsL (loopLines ofRat i j outT e) →
      d ∈ (kernel ofRat formats i j jt jd outT e).body.decls := by
    intro d hd
    simp only [kernel]
    exact mem_decls_block.2 ⟨.block (loopLines ofRat i j outT e) (some ("*** Iteration over " ++ i ++ " ***")),
      by simp [kernelStmts], by simpa [Stmt.decls] using hd⟩
  refine ⟨?_, ?_, ?_, ?_, ?_, ?_, ?_, ?_, ?_, ?_⟩
  · apply hdecl
    simp only [kernel]
    refine mem_decls_block.2 ⟨_, by simp [kernelStmts]; exact Or.inl rfl, ?_⟩
    refine mem_decls_block.2 ⟨_, List.mem_cons_self, by simp [declAssignE, Stmt.decls]⟩
  · apply hdecl
    simp only [kernel]
    refine mem_decls_block.2 ⟨_, by simp [kernelStmts]; exact Or.inl rfl, ?_⟩
    refine mem_decls_block.2 ⟨_, List.mem_cons_of_mem _ List.mem_cons_self, by simp [declAssignE, Stmt.decls]⟩
  · exact IntOrNone.of_classify (hcl i) cI
  · exact IntOrNone.of_classify (hcl j) cJ
  · intro ref l
    exact IntOrNone.of_classify (hcl _) (cLP ref l)
  · exact hdecl (hloop (loop_decls_mem ofRat i j outT e).1)
  · exact IntOrNone.of_classify (hcl _) cCap
  · intro f hf
    apply hdecl
    simp only [kernel]
    refine mem_decls_block.2 ⟨_, by simp [kernelStmts]; exact Or.inr (Or.inl rfl), ?_⟩
    refine mem_decls_block.2 ⟨declAssignE (valsName f.1) (.ptr .float) (.attr (.var f.1) "vals"),
      List.mem_map.2 ⟨f, hf, rfl⟩, by simp [declAssignE, Stmt.decls]⟩
  · exact hdecl (hloop (loop_decls_mem ofRat i j outT e).2)
  · exact IntOrNone.of_classify (hcl _) cBL

/-- **the kernel of the class lies in the typed stable fragment** -/
theorem kernel_noRetype (ofRat : Rat → F) (formats : Formats) (i j jt : String) (jd : Nat)
    (outT : TensorId) (e : IdExpr) (ok : KernelOK formats i j jt outT e) :
    (kernel ofRat formats i j jt jd outT e).noRetype = true :=
  kernel_noRetypeS ofRat formats i j jt jd outT e (kernel_tyFacts ofRat formats i j jt jd outT e ok) ok.out
    (fun t ht => (ok.ins t ht).1)

/-- **the initial state agrees with the typing of the kernel** -/
theorem init_WT (ofRat : Rat → F) (formats : Formats) (i j jt : String) (jd : Nat) (outT : TensorId)
    (e : IdExpr) {n m : Nat} {tix blkOf : String → Nat} {cellsOf : String → Nat → F} {σ : State F}
    (hinit : Init formats i j jt jd outT e n m tix blkOf cellsOf σ) (hT : TensorsOK σ.heap σ.tensors) :
    WT (kernel ofRat formats i j jt jd outT e).tyEnv σ := by
  apply wt_of_params (formats.map (·.1))
  · intro p hp
    have : (kernel ofRat formats i j jt jd outT e).params =
        (formats.map (·.1)).map (fun q => (q, Ty.ptr .tensor)) := by
      simp [kernel]
    unfold Func.tyEnv
    rw [this]
    exact lookupTy_params _ _ hp
  · intro p hp
    obtain ⟨f, hf, rfl⟩ := List.mem_map.1 hp
    exact ⟨_, hinit.params f hf⟩
  · exact hinit.fresh
  · exact hT

end TV.Opt.Dense2
