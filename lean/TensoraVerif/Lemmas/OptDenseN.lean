import TensoraVerif.Lemmas.OptCommon
import TensoraVerif.Lemmas.DenseNKernel

/-!
C07 for the dense element-wise kernels of every order (`DenseN.kernel`): the kernel lies in the typed
stable fragment relative to its own typing (`kernel_noRetype`), and an initial state `DenseN.Init`
whose tensor records are well typed agrees with that typing (`init_WT`).
-/
namespace TV.Opt.DenseN
open TV.IR TV.Gen TV.Graph TV.DenseN TV.Opt
open TV.Dense1 (leaves)
set_option linter.unusedSectionVars false
variable {F : Type} [FloatOps F]

/-- what the typing of the kernel has to say about its variables -/
structure TyFacts (Γ : String → Option Ty) (formats : Formats) (is : List String) (outT : TensorId) : Prop where
  dim : ∀ i ∈ is, Γ (dimName i) = some .int
  idx : ∀ i ∈ is, IntOrNone Γ i
  lp : ∀ ref l, IntOrNone Γ (layerPointer ref l)
  cap : IntOrNone Γ (valsCapName outT.name)
  vals : ∀ f ∈ formats, Γ (valsName f.1) = some (.ptr .float)

theorem nest_noRetype {Γ : String → Option Ty} {formats : Formats} {full : List String} {outT : TensorId}
    (ofRat : Rat → F) (e : IdExpr) (hΓ : TyFacts Γ formats full outT) (hv : valsTyped Γ e = true) :
    ∀ (is : List String) (l : Nat), (∀ i ∈ is, i ∈ full) →
      NoRetypeS Γ (nestSB ofRat outT e l is).finalize = true := by
  intro is
  induction is with
  | nil =>
    intro l _
    simp only [nestSB, SB.finalize]
    apply noRetypeS_block
    intro s hs
    simp only [List.mem_singleton] at hs; subst hs
    exact noRetypeS_storeCell ofRat (noRetypeE_prev _ _) hv
  | cons i is ih =>
    intro l hsub
    have hi : i ∈ full := hsub i (List.mem_cons_self)
    simp only [nestSB, SB.finalize]
    apply noRetypeS_block
    intro s hs
    simp only [List.mem_cons, List.not_mem_nil, or_false] at hs
    rcases hs with rfl | rfl
    · exact noRetypeS_declInt (hΓ.idx i hi) rfl
    · simp only [NoRetypeS, Bool.and_eq_true]
      refine ⟨by simp [NoRetypeE, binOKT], ?_⟩
      apply noRetypeL_iff.2
      intro s hs
      simp only [List.mem_append, List.mem_map, List.mem_cons, List.not_mem_nil, or_false] at hs
      rcases hs with ⟨t, _, rfl⟩ | rfl | rfl
      · exact noRetypeS_declInt (hΓ.lp _ _) (noRetypeE_position _ _ (hΓ.dim i hi))
      · simp only [NoRetypeS, NoRetypeE, Bool.true_and, Bool.and_eq_true]
        refine ⟨?_, rfl⟩
        apply noRetypeL_iff.2
        intro s hs
        simp only [List.mem_singleton] at hs; subst hs
        exact ih (l + 1) (fun j hj => hsub j (List.mem_cons_of_mem _ hj))
      · exact noRetypeS_incr (hΓ.idx i hi)

theorem getD_mem {is : List String} {k : Nat} (hk : k < is.length) : is.getD k "" ∈ is := by
  have : is.getD k "" = is[k] := by simp [List.getD_eq_getElem?_getD, hk]
  rw [this]; exact List.getElem_mem hk

/-- the body of the kernel lies in the typed fragment of any typing with `TyFacts` -/
theorem kernel_noRetypeS {Γ : String → Option Ty} (ofRat : Rat → F) (formats : Formats) (is : List String)
    (outT : TensorId) (e : IdExpr) (hΓ : TyFacts Γ formats is outT)
    (hout : outT.name ∈ formats.map (·.1))
    (hins : ∀ t ∈ leaves e, t.name ∈ formats.map (·.1)) :
    NoRetypeS Γ (kernel ofRat formats is outT e).body = true := by
  have hvals : ∀ n, n ∈ formats.map (·.1) → Γ (valsName n) = some (.ptr .float) := by
    intro n hn
    obtain ⟨f, hf, rfl⟩ := List.mem_map.1 hn
    exact hΓ.vals f hf
  have hv : valsTyped Γ e = true := valsTyped_of_leaves e (fun t ht => hvals _ (hins t ht))
  simp only [kernel]
  apply noRetypeS_block
  intro s hs
  simp only [kernelStmts, List.cons_append, List.nil_append, List.mem_cons, List.not_mem_nil, or_false] at hs
  rcases hs with rfl | rfl | rfl | rfl | rfl | rfl
  · apply noRetypeS_block
    intro s hs
    simp only [dimDeclsN, List.mem_map, List.mem_range] at hs
    obtain ⟨k, hk, rfl⟩ := hs
    refine noRetypeS_declInt (Or.inr (hΓ.dim _ (getD_mem hk))) ?_
    simp [NoRetypeE]
  · apply noRetypeS_block
    intro s hs
    simp only [List.mem_map] at hs
    obtain ⟨f, hf, rfl⟩ := hs
    exact noRetypeS_unpackVals (hΓ.vals f hf)
  · apply noRetypeS_block
    intro s hs
    simp only [List.mem_cons, List.not_mem_nil, or_false] at hs
    rcases hs with rfl | rfl
    · refine noRetypeS_declInt hΓ.cap ?_
      unfold capExpr
      apply noRetypeE_mulJoin
      intro x hx
      simp only [List.mem_map, List.mem_range] at hx
      obtain ⟨k, _, rfl⟩ := hx
      exact ⟨by simp [NoRetypeE], notLit_dimAt _ _⟩
    · exact noRetypeS_allocVals (hvals _ hout)
  · exact nest_noRetype ofRat e hΓ hv is 0 (fun _ h => h)
  · apply noRetypeS_block
    intro s hs
    simp only [List.mem_singleton] at hs; subst hs
    exact noRetypeS_storeVals (hvals _ hout)
  · rfl

/-! ### the typing of the kernel -/

/-- the classifier: parameters are `taco_tensor_t*`, `<t>_vals` are `double*`, everything else `int` -/
noncomputable def clsTy (formats : Formats) (x : String) : Ty :=
  open Classical in
  if x ∈ formats.map (·.1) then .ptr .tensor
  else if x ∈ formats.map (fun f => valsName f.1) then .ptr .float
  else .int

theorem clsTy_int {formats : Formats} {x : String} (h1 : x ∉ formats.map (·.1))
    (h2 : ∀ s, x ≠ valsName s) : clsTy formats x = .int := by
  unfold clsTy
  rw [if_neg h1, if_neg]
  intro hm
  obtain ⟨f, _, hf⟩ := List.mem_map.1 hm
  exact h2 f.1 hf.symm

/-- the declarations of the loop nest: `int i` and `int p_<t>_<k>` -/
theorem nest_decls (ofRat : Rat → F) (outT : TensorId) (e : IdExpr) {d : String × Ty} :
    ∀ (is : List String) (l : Nat), d ∈ (nestSB ofRat outT e l is).finalize.decls →
      d.2 = .int ∧ (d.1 ∈ is ∨ ∃ ref k, d.1 = layerPointer ref k) := by
  intro is
  induction is with
  | nil =>
    intro l h
    simp [nestSB, SB.finalize, Stmt.decls, declsL, storeStmt] at h
  | cons i is ih =>
    intro l h
    simp only [nestSB, SB.finalize] at h
    obtain ⟨s, hs, hd⟩ := mem_decls_block.1 h
    simp only [List.mem_cons, List.not_mem_nil, or_false] at hs
    rcases hs with rfl | rfl
    · simp only [declAssignE, Stmt.decls, List.mem_singleton] at hd
      subst hd; exact ⟨rfl, Or.inl (by simp)⟩
    · simp only [Stmt.decls] at hd
      obtain ⟨s, hs, hd⟩ := mem_declsL.1 hd
      simp only [List.mem_append, List.mem_map, List.mem_cons, List.not_mem_nil, or_false] at hs
      rcases hs with ⟨t, _, rfl⟩ | rfl | rfl
      · simp only [ptrDecl, declAssignE, Stmt.decls, List.mem_singleton] at hd
        subst hd; exact ⟨rfl, Or.inr ⟨_, _, rfl⟩⟩
      · simp only [Stmt.decls, declsL, List.append_nil] at hd
        obtain ⟨h1, h2⟩ := ih (l + 1) hd
        exact ⟨h1, h2.imp (fun h => List.mem_cons_of_mem _ h) id⟩
      · simp [increment, Stmt.decls] at hd

/-- every parameter and declaration of the kernel has the type the classifier gives to its name -/
theorem kernel_decls_cls (ofRat : Rat → F) (formats : Formats) (is : List String) (outT : TensorId)
    (e : IdExpr) (ok : KernelOK formats is outT e) :
    ∀ d ∈ (kernel ofRat formats is outT e).params ++ (kernel ofRat formats is outT e).body.decls,
      clsTy formats d.1 = d.2 := by
  have hgen : ∀ x, '_' ∈ x.toList → x ∉ formats.map (·.1) := by
    intro x hx hm
    obtain ⟨f, hf, rfl⟩ := List.mem_map.1 hm
    exact ok.tensors f hf hx
  intro d hd
  rcases List.mem_append.1 hd with hd | hd
  · simp only [kernel, List.mem_map] at hd
    obtain ⟨f, hf, rfl⟩ := hd
    simp only [clsTy]
    rw [if_pos (List.mem_map.2 ⟨f, hf, rfl⟩)]
  · simp only [kernel] at hd
    obtain ⟨s, hs, hd⟩ := mem_decls_block.1 hd
    simp only [kernelStmts, List.cons_append, List.nil_append, List.mem_cons, List.not_mem_nil, or_false] at hs
    rcases hs with rfl | rfl | rfl | rfl | rfl | rfl
    · obtain ⟨s, hs, hd⟩ := mem_decls_block.1 hd
      simp only [dimDeclsN, List.mem_map, List.mem_range] at hs
      obtain ⟨k, _, rfl⟩ := hs
      simp only [declAssignE, Stmt.decls, List.mem_singleton] at hd
      subst hd
      exact clsTy_int (hgen _ (Dense1.mem_us_dimName _)) (fun s => Dense1.dimName_ne_valsName _ s)
    · obtain ⟨s, hs, hd⟩ := mem_decls_block.1 hd
      simp only [List.mem_map] at hs
      obtain ⟨f, hf, rfl⟩ := hs
      simp only [declAssignE, Stmt.decls, List.mem_singleton] at hd
      subst hd
      simp only [clsTy]
      rw [if_neg (hgen _ (Dense1.mem_us_valsName _)), if_pos (List.mem_map.2 ⟨f, hf, rfl⟩)]
    · obtain ⟨s, hs, hd⟩ := mem_decls_block.1 hd
      simp only [List.mem_cons, List.not_mem_nil, or_false] at hs
      rcases hs with rfl | rfl
      · simp only [declAssignE, Stmt.decls, List.mem_singleton] at hd
        subst hd
        exact clsTy_int (hgen _ (Dense1.mem_us_valsCapName _))
          (fun s => (Dense1.valsName_ne_valsCapName' s _).symm)
      · simp [Stmt.decls] at hd
    · obtain ⟨h1, h2⟩ := nest_decls ofRat outT e is 0 hd
      rw [h1]
      rcases h2 with h2 | ⟨ref, k, h2⟩
      · exact clsTy_int (ok.idxTensor _ h2)
          (fun s => Growth.ne_of_underscore (ok.idx _ h2) (Dense1.mem_us_valsName s))
      · rw [h2]
        exact clsTy_int (hgen _ (DenseN.mem_us_lp _ _)) (fun s => layerPointer_ne_valsName _ _ s)
    · obtain ⟨s, hs, hd⟩ := mem_decls_block.1 hd
      simp only [List.mem_singleton] at hs; subst hs
      simp [Stmt.decls] at hd
    · simp [Stmt.decls] at hd

/-- the typing of the kernel has `TyFacts` -/
theorem kernel_tyFacts (ofRat : Rat → F) (formats : Formats) (is : List String) (outT : TensorId)
    (e : IdExpr) (ok : KernelOK formats is outT e) :
    TyFacts (kernel ofRat formats is outT e).tyEnv formats is outT := by
  have hc := kernel_decls_cls ofRat formats is outT e ok
  have hgen : ∀ x, '_' ∈ x.toList → x ∉ formats.map (·.1) := by
    intro x hx hm
    obtain ⟨f, hf, rfl⟩ := List.mem_map.1 hm
    exact ok.tensors f hf hx
  have hcl := fun x => lookupTy_classify hc x
  have hdecl : ∀ {x : String} {t : Ty}, (x, t) ∈ (kernel ofRat formats is outT e).body.decls →
      (kernel ofRat formats is outT e).tyEnv x = some t := by
    intro x t hm
    have h1 : x ∈ ((kernel ofRat formats is outT e).params ++ (kernel ofRat formats is outT e).body.decls).map
        (·.1) := List.mem_map.2 ⟨(x, t), List.mem_append_right _ hm, rfl⟩
    have h2 := lookupTy_of_mem hc h1
    rw [hc (x, t) (List.mem_append_right _ hm)] at h2
    exact h2
  refine ⟨?_, ?_, ?_, ?_, ?_⟩
  · intro i hi
    obtain ⟨k, hk, rfl⟩ := List.getElem_of_mem hi
    apply hdecl
    simp only [kernel]
    refine mem_decls_block.2 ⟨_, by simp [kernelStmts]; exact Or.inl rfl, ?_⟩
    refine mem_decls_block.2 ⟨declAssignE (dimName is[k]) .int
      (.idx (.attr (.var outT.name) "dimensions") (.intLit k)), ?_, by simp [declAssignE, Stmt.decls]⟩
    simp only [dimDeclsN, List.mem_map, List.mem_range]
    exact ⟨k, hk, by simp [List.getD_eq_getElem?_getD, hk]⟩
  · intro i hi
    exact IntOrNone.of_classify (hcl i) (clsTy_int (ok.idxTensor _ hi)
      (fun s => Growth.ne_of_underscore (ok.idx _ hi) (Dense1.mem_us_valsName s)))
  · intro ref l
    exact IntOrNone.of_classify (hcl _) (clsTy_int (hgen _ (DenseN.mem_us_lp _ _))
      (fun s => layerPointer_ne_valsName _ _ s))
  · exact IntOrNone.of_classify (hcl _) (clsTy_int (hgen _ (Dense1.mem_us_valsCapName _))
      (fun s => (Dense1.valsName_ne_valsCapName' s _).symm))
  · intro f hf
    apply hdecl
    simp only [kernel]
    refine mem_decls_block.2 ⟨_, by simp [kernelStmts]; exact Or.inr (Or.inl rfl), ?_⟩
    refine mem_decls_block.2 ⟨declAssignE (valsName f.1) (.ptr .float) (.attr (.var f.1) "vals"),
      List.mem_map.2 ⟨f, hf, rfl⟩, by simp [declAssignE, Stmt.decls]⟩

/-- **the kernel of the class lies in the typed stable fragment** -/
theorem kernel_noRetype (ofRat : Rat → F) (formats : Formats) (is : List String) (outT : TensorId)
    (e : IdExpr) (ok : KernelOK formats is outT e) :
    (kernel ofRat formats is outT e).noRetype = true :=
  kernel_noRetypeS ofRat formats is outT e (kernel_tyFacts ofRat formats is outT e ok) ok.out
    (fun t ht => (ok.ins t ht).1)

/-- **the initial state agrees with the typing of the kernel** -/
theorem init_WT (ofRat : Rat → F) (formats : Formats) (is : List String) (outT : TensorId) (e : IdExpr)
    {ds : List Nat} {tix blkOf : String → Nat} {cellsOf : String → Nat → F} {σ : State F}
    (hinit : Init formats outT e ds tix blkOf cellsOf σ) (hT : TensorsOK σ.heap σ.tensors) :
    WT (kernel ofRat formats is outT e).tyEnv σ := by
  apply wt_of_params (formats.map (·.1))
  · intro p hp
    have : (kernel ofRat formats is outT e).params = (formats.map (·.1)).map (fun q => (q, Ty.ptr .tensor)) := by
      simp [kernel]
    unfold Func.tyEnv
    rw [this]
    exact lookupTy_params _ _ hp
  · intro p hp
    obtain ⟨f, hf, rfl⟩ := List.mem_map.1 hp
    exact ⟨_, hinit.params f hf⟩
  · exact hinit.fresh
  · exact hT

end TV.Opt.DenseN
