import TensoraVerif.Lemmas.OptIntE
import TensoraVerif.Lemmas.OptDenseN
import TensoraVerif.Lemmas.DenseTermKernel

/-!
C07 for ALL dense single-term contractions (`DenseTerm.kernel`: arbitrary linear loop nests, bucket
accumulation, matrix product, dot product, …): the kernel lies in the typed stable fragment relative
to its own typing (`kernel_noRetype`), and an initial state `DenseTerm.Init` whose tensor records are
well typed agrees with that typing (`init_WT`).
-/
namespace TV.Opt.DenseTerm
open TV.IR TV.Gen TV.Graph TV.DenseTerm TV.Opt
open TV.Dense1 (leaves)
open TV.DenseN (ptrDecl storeStmt)
set_option linter.unusedSectionVars false
variable {F : Type} [FloatOps F]

/-- what the typing of the kernel has to say about its variables (`xs`: the indexes of the nest) -/
structure TyFacts (Γ : String → Option Ty) (formats : Formats) (xs : List String) (outT : TensorId) : Prop where
  dim : ∀ x ∈ xs, Γ (dimName x) = some .int
  idx : ∀ x ∈ xs, IntOrNone Γ x
  lp : ∀ ref l, IntOrNone Γ (layerPointer ref l)
  bl : ∀ ls, IntOrNone Γ (bucketLoopName outT ls)
  cap : IntOrNone Γ (valsCapName outT.name)
  vals : ∀ f ∈ formats, Γ (valsName f.1) = some (.ptr .float)

/-- what the typing says about the variables the output state refers to -/
def ModeOK (Γ : String → Option Ty) (outT : TensorId) : OMode → Prop
  | .app n => n = 0 ∨ Γ (layerPointer outT.id (n - 1)) = some .int
  | .bkt n0 => Γ (bucketName outT (bucketLayers outT n0)) = some (.ptr .float)

/-! ### `ravel_indexes` of variables -/

theorem ravel_fold {Γ : String → Option Ty} :
    ∀ (l : List (Expr F × Expr F)) (acc : List (Expr F) × List (Expr F)),
      (∀ di ∈ l, (NoRetypeE Γ di.1 = true ∧ NotLit di.1) ∧ (NoRetypeE Γ di.2 = true ∧ NotLit di.2)) →
      (∀ x ∈ acc.1, NoRetypeE Γ x = true ∧ NotLit x) → (∀ x ∈ acc.2, NoRetypeE Γ x = true ∧ NotLit x) →
      (∀ x ∈ (l.foldl (fun (acc : List (Expr F) × List (Expr F)) di =>
          (acc.1 ++ [mulJoin (di.2 :: acc.2)], acc.2 ++ [di.1])) acc).1,
        NoRetypeE Γ x = true ∧ NotLit x) := by
  intro l
  induction l with
  | nil => intro acc _ h1 _; exact h1
  | cons di l ih =>
    intro acc hl h1 h2
    rw [List.foldl_cons]
    obtain ⟨hd1, hd2⟩ := hl di (List.mem_cons_self)
    apply ih _ (fun d hd => hl d (List.mem_cons_of_mem _ hd))
    · intro x hx
      rcases List.mem_append.1 hx with hx | hx
      · exact h1 x hx
      · simp only [List.mem_singleton] at hx; subst hx
        apply mulJoin_cons_notLit
        intro y hy
        rcases List.mem_cons.1 hy with rfl | hy
        · exact hd2
        · exact h2 y hy
    · intro x hx
      rcases List.mem_append.1 hx with hx | hx
      · exact h2 x hx
      · simp only [List.mem_singleton] at hx; subst hx; exact hd1

theorem noRetypeE_ravel {Γ : String → Option Ty} (dims idxs : List (Expr F))
    (hd : ∀ x ∈ dims, NoRetypeE Γ x = true ∧ NotLit x) (hi : ∀ x ∈ idxs, NoRetypeE Γ x = true ∧ NotLit x) :
    NoRetypeE Γ (ravelIndexes dims idxs) = true := by
  unfold ravelIndexes
  apply noRetypeE_addJoin
  intro x hx
  rw [List.mem_reverse] at hx
  refine ravel_fold _ ([], []) ?_ (by simp) (by simp) x hx
  intro di hdi
  have := List.of_mem_zip hdi
  exact ⟨hd _ (List.mem_reverse.1 this.1), hi _ (List.mem_reverse.1 this.2)⟩

theorem varP {Γ : String → Option Ty} (x : String) : NoRetypeE Γ (.var x : Expr F) = true ∧ NotLit (.var x : Expr F) :=
  ⟨rfl, notLit_var x⟩

/-! ### the statements of the nest -/

theorem binOKT_add_idx (fr il ir : Bool) (a b r : Expr F) (hr : r.isInt 0 = false) :
    binOKT true fr il ir .add (.idx a b) r = true := by
  have e1 : (Expr.idx a b).isInt 0 = false := rfl
  have e2 : (Expr.idx a b).isFloatZero = false := rfl
  simp only [binOKT, e1, e2, hr, Bool.false_eq_true, if_false]
  split <;> rfl

/-- `v + X` with `v : double*`, `X` an integer expression -/
theorem ptrPlus_typed {Γ : String → Option Ty} {v : String} {X : Expr F}
    (hv : Γ v = some (.ptr .float)) (m1 : tyOf Γ X = some .int) (m2 : tyOf Γ (peepE X) = some .int)
    (m3 : NoRetypeE Γ X = true) :
    NoRetypeE Γ (.bin .add (.var v) X) = true ∧ rhsKindOK Γ .ptrFloat (.bin .add (.var v) X) = true := by
  constructor
  · have e1 : (Expr.var v : Expr F).isInt 0 = false := rfl
    have e2 : (Expr.var v : Expr F).isFloatZero = false := rfl
    simp only [NoRetypeE, Bool.true_and, m3, binOKT, peepE, e1, e2,
      isFloatZero_false_of_int m2, Bool.false_eq_true, if_false]
    split <;> rfl
  · simp [rhsKindOK, tyOf, hv, NumKind.ofTy, m1, addKind]

/-- `bucket[ravel] = bucket[ravel] + <e>` -/
theorem accStmt_noRetype {Γ : String → Option Ty} (ofRat : Rat → F) (outT : TensorId) (e : IdExpr) (n0 : Nat)
    (hb : Γ (bucketName outT (bucketLayers outT n0)) = some (.ptr .float)) (hv : valsTyped Γ e = true) :
    NoRetypeS Γ (accStmt ofRat outT e n0) = true := by
  obtain ⟨t1, t2, t3⟩ := toIrWith_typed Γ ofRat e hv
  have hR : NoRetypeE Γ (ravelIndexes (bucketDims outT (bucketLayers outT n0))
      ((bucketLayers outT n0).map fun l => (.var (outT.indexes.getD l "") : Expr F))) = true := by
    apply noRetypeE_ravel
    · intro x hx
      simp only [bucketDims, List.mem_map] at hx
      obtain ⟨l, _, rfl⟩ := hx; exact varP _
    · intro x hx
      simp only [List.mem_map] at hx
      obtain ⟨l, _, rfl⟩ := hx; exact varP _
  have hfl : ∀ R : Expr F, hasKindE Γ .float (.idx (.var (bucketName outT (bucketLayers outT n0))) R) = true := by
    intro R; simp [hasKindE, tyOf, Expr.isLevelE, hb, NumKind.ofTy]
  simp only [accStmt, increment, plus, NoRetypeS, NoRetypeE, Bool.true_and, Bool.and_eq_true, hR, t3, assignOK,
    Expr.isLevelE, Bool.not_false, Bool.true_or, and_true, hfl, peepE]
  exact binOKT_add_idx _ _ _ _ _ _ (isInt_false_of_float 0 t2)

/-- the "Bucket initialization" block -/
theorem bucketInit_noRetype {Γ : String → Option Ty} {formats : Formats} {xs : List String} (outT : TensorId) (n : Nat)
    (hΓ : TyFacts Γ formats xs outT) (hsub : ∀ x ∈ outT.indexes, x ∈ xs)
    (hout : Γ (valsName outT.name) = some (.ptr .float))
    (hb : Γ (bucketName outT (bucketLayers outT n)) = some (.ptr .float))
    (hm : ModeOK Γ outT (.app n)) :
    NoRetypeS Γ (bucketInit outT n : Stmt F) = true := by
  have hM : IntE Γ (times (prevLayerPointer outT.id n)
      (mulJoin ((outT.indexes.drop n).map fun i => (.var (dimName i) : Expr F)))) := by
    refine .mul (IntE.prev _ _ hm) (IntE.mulJoin _ ?_)
    intro x hx
    obtain ⟨i, hi, rfl⟩ := List.mem_map.1 hx
    exact .var (hΓ.dim i (hsub i (List.mem_of_mem_drop hi)))
  obtain ⟨m1, m2, m3⟩ := hM.sound
  have hrhs := ptrPlus_typed hout m1 m2 m3
  have hcond : NoRetypeE Γ (mulJoin (bucketDims outT (bucketLayers outT n)) : Expr F) = true := by
    apply noRetypeE_mulJoin
    intro x hx
    simp only [bucketDims, List.mem_map] at hx
    obtain ⟨l, _, rfl⟩ := hx; exact varP _
  simp only [bucketInit, bucketDeclarations, SB.mk', SB.add, SB.loop, SB.finalize, List.nil_append,
    List.cons_append]
  apply noRetypeS_block
  intro s hs
  simp only [List.mem_cons, List.not_mem_nil, or_false] at hs
  rcases hs with rfl | rfl | rfl
  · have h1 : NoRetypeE Γ (bucketPtrE outT n : Expr F) = true := hrhs.1
    have h2 : rhsKindOK Γ .ptrFloat (bucketPtrE outT n : Expr F) = true := hrhs.2
    simp [declAssignE, NoRetypeS, h1, declOK, varRhsOK, hb, h2]
  · exact noRetypeS_declInt (hΓ.bl _) rfl
  · simp only [NoRetypeS, NoRetypeE, Bool.true_and, Bool.and_eq_true, hcond]
    refine ⟨by simp [binOKT], ?_⟩
    apply noRetypeL_iff.2
    intro s hs
    simp only [List.mem_cons, List.not_mem_nil, or_false] at hs
    rcases hs with rfl | rfl
    · simp [NoRetypeS, NoRetypeE, assignOK, Expr.isLevelE]
    · exact noRetypeS_incr (hΓ.bl _)

theorem decls_block_sub {d : String × Ty} {s : Stmt F} {ss : List (Stmt F)} {c : Option String}
    (hs : s ∈ ss) (hd : d ∈ s.decls) : d ∈ (Stmt.block ss c).decls :=
  mem_decls_block.2 ⟨s, hs, hd⟩

theorem termSB_cons_finalize (ofRat : Rat → F) (outT : TensorId) (e : IdExpr) (m : OMode) (x : String) (o : Bool)
    (r : List Level) :
    (termSB ofRat outT e m ((x, o) :: r)).finalize =
      .block (initDecl outT m o ++
        [declAssignE x .int (.intLit 0),
         .loop (.bin .lt (.var x) (.var (dimName x)))
           (.block (outDecl outT x m o ++ leafDecls x (leaves e) ++
             [.branch (.boolLit true)
                (.block [(termSB ofRat outT e (m.next o) r).finalize] none) (.block [] none),
              increment (.var x) (.intLit 1)]) none)]) (some ("*** Iteration over " ++ x ++ " ***")) := rfl

/-- the nest lies in the typed fragment of every typing with `TyFacts` that types its own
declarations and the variables of the output state -/
theorem nest_noRetype {Γ : String → Option Ty} {formats : Formats} {xs : List String} {outT : TensorId}
    (ofRat : Rat → F) (e : IdExpr) (hΓ : TyFacts Γ formats xs outT) (hsub : ∀ x ∈ outT.indexes, x ∈ xs)
    (hout : Γ (valsName outT.name) = some (.ptr .float)) (hv : valsTyped Γ e = true) :
    ∀ (lv : List Level) (m : OMode), (∀ p ∈ lv, p.1 ∈ xs) → ModeOK Γ outT m →
      (∀ d ∈ (termSB ofRat outT e m lv).finalize.decls, Γ d.1 = some d.2) →
      NoRetypeS Γ (termSB ofRat outT e m lv).finalize = true := by
  intro lv
  induction lv with
  | nil =>
    intro m _ hm _
    simp only [termSB, SB.finalize]
    apply noRetypeS_block
    intro s hs
    simp only [List.mem_singleton] at hs; subst hs
    cases m with
    | app n => exact noRetypeS_storeCell ofRat (noRetypeE_prev _ _) hv
    | bkt n0 => exact accStmt_noRetype ofRat outT e n0 hm hv
  | cons p r ih =>
    obtain ⟨x, o⟩ := p
    intro m hsubl hm htyped
    have hx : x ∈ xs := hsubl (x, o) (List.mem_cons_self)
    rw [termSB_cons_finalize] at htyped ⊢
    -- the loop statement and its body
    have hloopmem : ∀ (s : Stmt F), s ∈ outDecl outT x m o ++ leafDecls x (leaves e) ++
          [.branch (.boolLit true)
              (.block [(termSB ofRat outT e (m.next o) r).finalize] none) (.block [] none),
            increment (.var x) (.intLit 1)] → ∀ d ∈ s.decls, Γ d.1 = some d.2 := by
      intro s hs d hd
      apply htyped d
      refine mem_decls_block.2 ⟨_, List.mem_append_right _ (List.mem_cons_of_mem _ List.mem_cons_self), ?_⟩
      simp only [Stmt.decls]; exact mem_declsL.2 ⟨s, hs, hd⟩
    apply noRetypeS_block
    intro s hs
    simp only [List.mem_append, List.mem_cons, List.not_mem_nil, or_false] at hs
    rcases hs with hs | rfl | rfl
    · -- bucket initialisation
      cases m with
      | bkt n0 => simp [initDecl] at hs
      | app n =>
        cases o with
        | true => simp [initDecl] at hs
        | false =>
          simp only [initDecl, List.mem_singleton] at hs; subst hs
          refine bucketInit_noRetype outT n hΓ hsub hout ?_ hm
          apply htyped (bucketName outT (bucketLayers outT n), .ptr .float)
          refine decls_block_sub (s := bucketInit outT n) (by simp [initDecl]) ?_
          simp [bucketInit, bucketDeclarations, SB.mk', SB.add, SB.loop, SB.finalize, Stmt.decls, declsL,
            declAssignE]
    · exact noRetypeS_declInt (hΓ.idx x hx) rfl
    · simp only [NoRetypeS, Bool.and_eq_true]
      refine ⟨by simp [NoRetypeE, binOKT], ?_⟩
      apply noRetypeL_iff.2
      intro s hs
      have hty := hloopmem s hs
      simp only [List.mem_append, List.mem_cons, List.not_mem_nil, or_false] at hs
      rcases hs with (hs | hs) | rfl | rfl
      · cases m with
        | bkt n0 => simp [outDecl] at hs
        | app n =>
          cases o with
          | false => simp [outDecl] at hs
          | true =>
            simp only [outDecl, List.mem_singleton] at hs; subst hs
            exact noRetypeS_declInt (hΓ.lp _ _) (noRetypeE_position _ _ (hΓ.dim x hx))
      · simp only [leafDecls, List.mem_filterMap, Option.map_eq_some_iff] at hs
        obtain ⟨t, _, k, _, rfl⟩ := hs
        exact noRetypeS_declInt (hΓ.lp _ _) (noRetypeE_position _ _ (hΓ.dim x hx))
      · simp only [NoRetypeS, NoRetypeE, Bool.true_and, Bool.and_eq_true]
        refine ⟨?_, rfl⟩
        apply noRetypeL_iff.2
        intro s hs
        simp only [List.mem_singleton] at hs; subst hs
        refine ih (m.next o) (fun q hq => hsubl q (List.mem_cons_of_mem _ hq)) ?_ ?_
        · -- the output state below this level
          cases m with
          | bkt n0 => exact hm
          | app n =>
            cases o with
            | true =>
              right
              simp only [Nat.add_sub_cancel]
              apply hloopmem (ptrDecl x n outT) (by simp [outDecl]) (layerPointer outT.id n, .int)
              simp [ptrDecl, declAssignE, Stmt.decls]
            | false =>
              show Γ (bucketName outT (bucketLayers outT n)) = some (.ptr .float)
              apply htyped (bucketName outT (bucketLayers outT n), .ptr .float)
              refine decls_block_sub (s := bucketInit outT n) (by simp [initDecl]) ?_
              simp [bucketInit, bucketDeclarations, SB.mk', SB.add, SB.loop, SB.finalize, Stmt.decls, declsL,
                declAssignE]
        · intro d hd
          apply hty d
          simp only [Stmt.decls, declsL, List.append_nil]
          exact hd
      · exact noRetypeS_incr (hΓ.idx x hx)

/-! ### the kernel -/

/-- the body of the kernel lies in the typed fragment of any typing with `TyFacts` that types the
declarations of the body -/
theorem kernel_noRetypeS {Γ : String → Option Ty} (ofRat : Rat → F) (formats : Formats)
    (srcs : List (String × String × Nat)) (lv : List Level) (outT : TensorId) (e : IdExpr)
    (hΓ : TyFacts Γ formats (idxs lv) outT) (hsub : ∀ x ∈ outT.indexes, x ∈ idxs lv)
    (hout : outT.name ∈ formats.map (·.1)) (hins : ∀ t ∈ leaves e, t.name ∈ formats.map (·.1))
    (hsrc : ∀ p ∈ srcs, p.1 ∈ idxs lv)
    (htyped : ∀ d ∈ (kernel ofRat formats srcs lv outT e).body.decls, Γ d.1 = some d.2) :
    NoRetypeS Γ (kernel ofRat formats srcs lv outT e).body = true := by
  have hvals : ∀ n, n ∈ formats.map (·.1) → Γ (valsName n) = some (.ptr .float) := by
    intro n hn
    obtain ⟨f, hf, rfl⟩ := List.mem_map.1 hn
    exact hΓ.vals f hf
  have hv : valsTyped Γ e = true := valsTyped_of_leaves e (fun t ht => hvals _ (hins t ht))
  simp only [kernel] at htyped ⊢
  apply noRetypeS_block
  intro s hs
  have hty : ∀ d ∈ s.decls, Γ d.1 = some d.2 := fun d hd => htyped d (mem_decls_block.2 ⟨s, hs, hd⟩)
  simp only [kernelStmts, List.cons_append, List.nil_append, List.mem_cons, List.not_mem_nil, or_false] at hs
  rcases hs with rfl | rfl | rfl | rfl | rfl | rfl
  · apply noRetypeS_block
    intro s hs
    simp only [DenseTerm.dimDecls, List.mem_map] at hs
    obtain ⟨p, hp, rfl⟩ := hs
    refine noRetypeS_declInt (Or.inr (hΓ.dim _ (hsrc p hp))) ?_
    simp [NoRetypeE]
  · apply noRetypeS_block
    intro s hs
    simp only [List.mem_map] at hs
    obtain ⟨f, hf, rfl⟩ := hs
    exact noRetypeS_unpackVals (hΓ.vals f hf)
  · apply noRetypeS_block
    intro s hs
    simp only [List.mem_cons, List.not_mem_nil, or_false] at hs
    rcases hs with rfl | rfl
    · refine noRetypeS_declInt hΓ.cap ?_
      unfold DenseN.capExpr
      apply noRetypeE_mulJoin
      intro x hx
      simp only [List.mem_map, List.mem_range] at hx
      obtain ⟨k, _, rfl⟩ := hx
      exact ⟨by simp [NoRetypeE], notLit_dimAt _ _⟩
    · exact noRetypeS_allocVals (hvals _ hout)
  · exact nest_noRetype ofRat e hΓ hsub (hvals _ hout) hv lv (.app 0)
      (fun p hp => List.mem_map.2 ⟨p, hp, rfl⟩) (Or.inl rfl) hty
  · apply noRetypeS_block
    intro s hs
    simp only [List.mem_singleton] at hs; subst hs
    exact noRetypeS_storeVals (hvals _ hout)
  · rfl

/-! ### the typing of the kernel -/

/-- the classifier: parameters are `taco_tensor_t*`, `<t>_vals` and the bucket pointers `double*`,
everything else `int` -/
noncomputable def clsTy (formats : Formats) (outT : TensorId) (x : String) : Ty :=
  open Classical in
  if x ∈ formats.map (·.1) then .ptr .tensor
  else if x ∈ formats.map (fun f => valsName f.1) ∨ ∃ ls, x = bucketName outT ls then .ptr .float
  else .int

theorem clsTy_int {formats : Formats} {outT : TensorId} {x : String} (h1 : x ∉ formats.map (·.1))
    (h2 : ∀ f ∈ formats, x ≠ valsName f.1) (h3 : ∀ ls, x ≠ bucketName outT ls) :
    clsTy formats outT x = .int := by
  unfold clsTy
  rw [if_neg h1, if_neg]
  rintro (hm | ⟨ls, hm⟩)
  · obtain ⟨f, hf, hfe⟩ := List.mem_map.1 hm
    exact h2 f hf hfe.symm
  · exact h3 ls hm

theorem clsTy_float {formats : Formats} {outT : TensorId} {x : String} (h1 : x ∉ formats.map (·.1))
    (h2 : x ∈ formats.map (fun f => valsName f.1) ∨ ∃ ls, x = bucketName outT ls) :
    clsTy formats outT x = .ptr .float := by
  unfold clsTy
  rw [if_neg h1, if_pos h2]

/-- the declarations of the loop nest -/
theorem nest_decls (ofRat : Rat → F) (outT : TensorId) (e : IdExpr) {d : String × Ty} :
    ∀ (lv : List Level) (m : OMode), d ∈ (termSB ofRat outT e m lv).finalize.decls →
      (d.2 = .int ∧ (d.1 ∈ idxs lv ∨ (∃ ref k, d.1 = layerPointer ref k) ∨ ∃ ls, d.1 = bucketLoopName outT ls)) ∨
      (d.2 = .ptr .float ∧ ∃ ls, d.1 = bucketName outT ls) := by
  intro lv
  induction lv with
  | nil =>
    intro m h
    cases m <;>
      simp [termSB, termStmt, SB.finalize, Stmt.decls, declsL, storeStmt, accStmt, increment] at h
  | cons p r ih =>
    obtain ⟨x, o⟩ := p
    intro m h
    rw [termSB_cons_finalize] at h
    obtain ⟨s, hs, hd⟩ := mem_decls_block.1 h
    simp only [List.mem_append, List.mem_cons, List.not_mem_nil, or_false] at hs
    rcases hs with hs | rfl | rfl
    · cases m with
      | bkt n0 => simp [initDecl] at hs
      | app n =>
        cases o with
        | true => simp [initDecl] at hs
        | false =>
          simp only [initDecl, List.mem_singleton] at hs; subst hs
          simp only [bucketInit, bucketDeclarations, SB.mk', SB.add, SB.loop, SB.finalize, Stmt.decls, declsL,
            declAssignE, increment, List.nil_append, List.cons_append, List.append_nil, List.mem_cons,
            List.not_mem_nil, or_false] at hd
          rcases hd with rfl | rfl
          · exact Or.inr ⟨rfl, _, rfl⟩
          · exact Or.inl ⟨rfl, Or.inr (Or.inr ⟨_, rfl⟩)⟩
    · simp only [declAssignE, Stmt.decls, List.mem_singleton] at hd
      subst hd; exact Or.inl ⟨rfl, Or.inl (by simp [idxs])⟩
    · simp only [Stmt.decls] at hd
      obtain ⟨s, hs, hd⟩ := mem_declsL.1 hd
      simp only [List.mem_append, List.mem_cons, List.not_mem_nil, or_false] at hs
      rcases hs with (hs | hs) | rfl | rfl
      · cases m with
        | bkt n0 => simp [outDecl] at hs
        | app n =>
          cases o with
          | false => simp [outDecl] at hs
          | true =>
            simp only [outDecl, List.mem_singleton] at hs; subst hs
            simp only [ptrDecl, declAssignE, Stmt.decls, List.mem_singleton] at hd
            subst hd; exact Or.inl ⟨rfl, Or.inr (Or.inl ⟨_, _, rfl⟩)⟩
      · simp only [leafDecls, List.mem_filterMap, Option.map_eq_some_iff] at hs
        obtain ⟨t, _, k, _, rfl⟩ := hs
        simp only [ptrDecl, declAssignE, Stmt.decls, List.mem_singleton] at hd
        subst hd; exact Or.inl ⟨rfl, Or.inr (Or.inl ⟨_, _, rfl⟩)⟩
      · simp only [Stmt.decls, declsL, List.append_nil] at hd
        rcases ih (m.next o) hd with ⟨h1, h2⟩ | h2
        · exact Or.inl ⟨h1, h2.imp (fun h => by simp [idxs] at h ⊢; exact Or.inr h) id⟩
        · exact Or.inr h2
      · simp [increment, Stmt.decls] at hd

theorem count_us_pos {s : String} (h : '_' ∈ s.toList) : 1 ≤ s.toList.count '_' :=
  List.count_pos_iff.2 h

/-- every parameter and declaration of the kernel has the type the classifier gives to its name -/
theorem kernel_decls_cls (ofRat : Rat → F) (formats : Formats) (srcs : List (String × String × Nat))
    (C : Ctx F) (ok : KernelOK formats srcs C) :
    ∀ d ∈ (kernel ofRat formats srcs C.full C.outT C.e).params ++
        (kernel ofRat formats srcs C.full C.outT C.e).body.decls,
      clsTy formats C.outT d.1 = d.2 := by
  have S := ok.static
  have hgen : ∀ x, '_' ∈ x.toList → x ∉ formats.map (·.1) := by
    intro x hx hm
    obtain ⟨f, hf, rfl⟩ := List.mem_map.1 hm
    exact ok.tensors f hf hx
  have hbcount : ∀ ls, 2 ≤ (bucketName C.outT ls).toList.count '_' := by
    intro ls
    have := count_bucketName C.outT ls
    have := count_us_pos S.oid
    omega
  obtain ⟨fo, hfo, hfoe⟩ := List.mem_map.1 ok.out
  have houtus : '_' ∉ C.outT.name.toList := by rw [← hfoe]; exact ok.tensors fo hfo
  have hidxI : ∀ x ∈ idxs C.full, clsTy formats C.outT x = .int := by
    intro x hx
    exact clsTy_int (ok.idxTensor x hx)
      (fun f _ => Growth.ne_of_underscore (S.us x hx) (Dense1.mem_us_valsName _))
      (fun ls => Growth.ne_of_underscore (S.us x hx) (mem_us_bucketName _ _))
  have hlpI : ∀ ref k, clsTy formats C.outT (layerPointer ref k) = .int := by
    intro ref k
    exact clsTy_int (hgen _ (DenseN.mem_us_lp _ _)) (fun f _ => layerPointer_ne_valsName _ _ _)
      (fun ls => ToIr.ne_of_head?_ne (by rw [head?_bucketName, Dense2.head?_lp]; decide))
  have hblI : ∀ ls, clsTy formats C.outT (bucketLoopName C.outT ls) = .int := by
    intro ls
    refine clsTy_int (hgen _ (mem_us_bucketLoopName _ _)) (fun f hf => ?_)
      (fun ls' => ToIr.ne_of_head?_ne (by rw [head?_bucketName, head?_bucketLoopName]; decide))
    apply Dense2.ne_of_count_ne
    rw [Dense2.count_valsName (ok.tensors f hf)]
    have := count_bucketLoopName C.outT ls
    omega
  intro d hd
  rcases List.mem_append.1 hd with hd | hd
  · simp only [kernel, List.mem_map] at hd
    obtain ⟨f, hf, rfl⟩ := hd
    simp only [clsTy]
    rw [if_pos (List.mem_map.2 ⟨f, hf, rfl⟩)]
  · simp only [kernel] at hd
    obtain ⟨s, hs, hd⟩ := mem_decls_block.1 hd
    simp only [kernelStmts, List.cons_append, List.nil_append, List.mem_cons, List.not_mem_nil, or_false] at hs
    rcases hs with rfl | rfl | rfl | rfl | rfl | rfl
    · obtain ⟨s, hs, hd⟩ := mem_decls_block.1 hd
      simp only [DenseTerm.dimDecls, List.mem_map] at hs
      obtain ⟨p, hp, rfl⟩ := hs
      simp only [declAssignE, Stmt.decls, List.mem_singleton] at hd
      subst hd
      have hpu : '_' ∉ p.1.toList := S.us _ (ok.srcIdx p hp).1
      refine clsTy_int (hgen _ (Dense1.mem_us_dimName _)) (fun f _ => Dense1.dimName_ne_valsName _ _) (fun ls => ?_)
      apply Dense2.ne_of_count_ne
      rw [Dense2.count_dimName hpu]
      have := hbcount ls
      omega
    · obtain ⟨s, hs, hd⟩ := mem_decls_block.1 hd
      simp only [List.mem_map] at hs
      obtain ⟨f, hf, rfl⟩ := hs
      simp only [declAssignE, Stmt.decls, List.mem_singleton] at hd
      subst hd
      exact clsTy_float (hgen _ (Dense1.mem_us_valsName _)) (Or.inl (List.mem_map.2 ⟨f, hf, rfl⟩))
    · obtain ⟨s, hs, hd⟩ := mem_decls_block.1 hd
      simp only [List.mem_cons, List.not_mem_nil, or_false] at hs
      rcases hs with rfl | rfl
      · simp only [declAssignE, Stmt.decls, List.mem_singleton] at hd
        subst hd
        exact clsTy_int (hgen _ (Dense1.mem_us_valsCapName _))
          (fun f _ => (Dense1.valsName_ne_valsCapName' _ _).symm)
          (fun ls => (bucketName_ne_valsCapName C.outT ls houtus ok.outId).symm)
      · simp [Stmt.decls] at hd
    · rcases nest_decls ofRat C.outT C.e C.full (.app 0) hd with ⟨h1, h2⟩ | ⟨h1, ls, h2⟩
      · rw [h1]
        rcases h2 with h2 | ⟨ref, k, h2⟩ | ⟨ls, h2⟩
        · exact hidxI _ h2
        · rw [h2]; exact hlpI _ _
        · rw [h2]; exact hblI _
      · rw [h1, h2]
        exact clsTy_float (hgen _ (mem_us_bucketName _ _)) (Or.inr ⟨ls, rfl⟩)
    · obtain ⟨s, hs, hd⟩ := mem_decls_block.1 hd
      simp only [List.mem_singleton] at hs; subst hs
      simp [Stmt.decls] at hd
    · simp [Stmt.decls] at hd

/-- **the kernel of the class lies in the typed stable fragment** -/
theorem kernel_noRetype (ofRat : Rat → F) (formats : Formats) (srcs : List (String × String × Nat))
    (C : Ctx F) (ok : KernelOK formats srcs C) :
    (kernel ofRat formats srcs C.full C.outT C.e).noRetype = true := by
  have S := ok.static
  have hc := kernel_decls_cls ofRat formats srcs C ok
  have hcl := fun x => lookupTy_classify hc x
  have hgen : ∀ x, '_' ∈ x.toList → x ∉ formats.map (·.1) := by
    intro x hx hm
    obtain ⟨f, hf, rfl⟩ := List.mem_map.1 hm
    exact ok.tensors f hf hx
  have hdecl : ∀ d ∈ (kernel ofRat formats srcs C.full C.outT C.e).body.decls,
      (kernel ofRat formats srcs C.full C.outT C.e).tyEnv d.1 = some d.2 := by
    intro d hm
    have h1 : d.1 ∈ ((kernel ofRat formats srcs C.full C.outT C.e).params ++
        (kernel ofRat formats srcs C.full C.outT C.e).body.decls).map (·.1) :=
      List.mem_map.2 ⟨d, List.mem_append_right _ hm, rfl⟩
    have h2 := lookupTy_of_mem hc h1
    rw [hc d (List.mem_append_right _ hm)] at h2
    exact h2
  obtain ⟨fo, hfo, hfoe⟩ := List.mem_map.1 ok.out
  have houtus : '_' ∉ C.outT.name.toList := by rw [← hfoe]; exact ok.tensors fo hfo
  have hbcount : ∀ ls, 2 ≤ (bucketName C.outT ls).toList.count '_' := by
    intro ls
    have := count_bucketName C.outT ls
    have := count_us_pos S.oid
    omega
  have hfacts : TyFacts (kernel ofRat formats srcs C.full C.outT C.e).tyEnv formats (idxs C.full) C.outT := by
    refine ⟨?_, ?_, ?_, ?_, ?_, ?_⟩
    · intro x hx
      obtain ⟨p, hp, hpe⟩ := List.mem_map.1 (ok.srcAll x hx)
      have hpe : p.1 = x := hpe
      subst hpe
      apply hdecl (dimName p.1, .int)
      simp only [kernel]
      refine mem_decls_block.2 ⟨_, by simp [kernelStmts]; exact Or.inl rfl, ?_⟩
      refine mem_decls_block.2 ⟨declAssignE (dimName p.1) .int
        (.idx (.attr (.var p.2.1) "dimensions") (.intLit p.2.2)), ?_, by simp [declAssignE, Stmt.decls]⟩
      simp only [DenseTerm.dimDecls, List.mem_map]
      exact ⟨p, hp, rfl⟩
    · intro x hx
      exact IntOrNone.of_classify (hcl x) (clsTy_int (ok.idxTensor x hx)
        (fun f _ => Growth.ne_of_underscore (S.us x hx) (Dense1.mem_us_valsName _))
        (fun ls => Growth.ne_of_underscore (S.us x hx) (mem_us_bucketName _ _)))
    · intro ref k
      exact IntOrNone.of_classify (hcl _) (clsTy_int (hgen _ (DenseN.mem_us_lp _ _))
        (fun f _ => layerPointer_ne_valsName _ _ _)
        (fun ls => ToIr.ne_of_head?_ne (by rw [head?_bucketName, Dense2.head?_lp]; decide)))
    · intro ls
      refine IntOrNone.of_classify (hcl _) (clsTy_int (hgen _ (mem_us_bucketLoopName _ _)) (fun f hf => ?_)
        (fun ls' => ToIr.ne_of_head?_ne (by rw [head?_bucketName, head?_bucketLoopName]; decide)))
      apply Dense2.ne_of_count_ne
      rw [Dense2.count_valsName (ok.tensors f hf)]
      have := count_bucketLoopName C.outT ls
      omega
    · exact IntOrNone.of_classify (hcl _) (clsTy_int (hgen _ (Dense1.mem_us_valsCapName _))
        (fun f _ => (Dense1.valsName_ne_valsCapName' _ _).symm)
        (fun ls => (bucketName_ne_valsCapName C.outT ls houtus ok.outId).symm))
    · intro f hf
      apply hdecl (valsName f.1, .ptr .float)
      simp only [kernel]
      refine mem_decls_block.2 ⟨_, by simp [kernelStmts]; exact Or.inr (Or.inl rfl), ?_⟩
      refine mem_decls_block.2 ⟨declAssignE (valsName f.1) (.ptr .float) (.attr (.var f.1) "vals"),
        List.mem_map.2 ⟨f, hf, rfl⟩, by simp [declAssignE, Stmt.decls]⟩
  refine kernel_noRetypeS ofRat formats srcs C.full C.outT C.e hfacts ?_ ok.out
    (fun t ht => (ok.ins t ht).1) (fun p hp => (ok.srcIdx p hp).1) hdecl
  intro x hx
  rw [S.outI] at hx
  exact (outIdxs_sublist C.full).subset hx

/-- **the initial state agrees with the typing of the kernel** -/
theorem init_WT (ofRat : Rat → F) (formats : Formats) (srcs : List (String × String × Nat)) (C : Ctx F)
    {tix : String → Nat} {σ : State F}
    (hinit : Init formats srcs C tix σ) (hT : TensorsOK σ.heap σ.tensors) :
    WT (kernel ofRat formats srcs C.full C.outT C.e).tyEnv σ := by
  apply wt_of_params (formats.map (·.1))
  · intro p hp
    have : (kernel ofRat formats srcs C.full C.outT C.e).params =
        (formats.map (·.1)).map (fun q => (q, Ty.ptr .tensor)) := by
      simp [kernel]
    unfold Func.tyEnv
    rw [this]
    exact lookupTy_params _ _ hp
  · intro p hp
    obtain ⟨f, hf, rfl⟩ := List.mem_map.1 hp
    exact ⟨_, hinit.params f hf⟩
  · exact hinit.fresh
  · exact hT

end TV.Opt.DenseTerm
