import TensoraVerif.Lemmas.OptCommon

/-!
C07 for the kernels of the end-to-end classes, generic part 2: integer-typed expressions (`IntE`:
literals, `int` variables, `+ - *`) are int-typed before and after optimisation and lie in the typed
fragment; folds (`mulJoin`, `addJoin`) of non-literal operands.
-/
namespace TV.Opt
open TV.IR TV.Gen
set_option linter.unusedSectionVars false
variable {F : Type} [FloatOps F]

/-- integer expressions: literals, `int` variables, `+`, `-`, `*` -/
inductive IntE (Γ : String → Option Ty) : Expr F → Prop where
  | lit (k : Int) : IntE Γ (.intLit k)
  | var {x : String} (h : Γ x = some .int) : IntE Γ (.var x)
  | add {l r : Expr F} (hl : IntE Γ l) (hr : IntE Γ r) : IntE Γ (.bin .add l r)
  | sub {l r : Expr F} (hl : IntE Γ l) (hr : IntE Γ r) : IntE Γ (.bin .sub l r)
  | mul {l r : Expr F} (hl : IntE Γ l) (hr : IntE Γ r) : IntE Γ (.bin .mul l r)

theorem isFloatZero_false_of_int {Γ : String → Option Ty} {e : Expr F} (h : tyOf Γ e = some .int) :
    e.isFloatZero = false := by
  cases e <;> first | rfl | (simp [tyOf] at h)

theorem isFloatOne_false_of_int {Γ : String → Option Ty} {e : Expr F} (h : tyOf Γ e = some .int) :
    e.isFloatOne = false := by
  cases e <;> first | rfl | (simp [tyOf] at h)

theorem peepBin_int {Γ : String → Option Ty} {op : BinOp} {l r : Expr F}
    (ho : op = .add ∨ op = .sub ∨ op = .mul) (hl : tyOf Γ l = some .int) (hr : tyOf Γ r = some .int) :
    tyOf Γ (peepBin op l r) = some .int := by
  have z1 := isFloatZero_false_of_int hl
  have z2 := isFloatZero_false_of_int hr
  have o1 := isFloatOne_false_of_int hl
  have o2 := isFloatOne_false_of_int hr
  rcases ho with rfl | rfl | rfl
  · simp only [peepBin, z1, z2, Bool.or_false]
    split; · exact hr
    split; · exact hl
    simp [tyOf, hl, hr, addKind, arithKind]
  · simp only [peepBin, z2, Bool.or_false]
    split; · exact hl
    simp [tyOf, hl, hr, arithKind]
  · simp only [peepBin, z1, z2, o1, o2, Bool.or_false, Bool.false_eq_true, if_false]
    split; · rfl
    split; · exact hr
    split; · exact hl
    simp [tyOf, hl, hr, arithKind]

theorem binOKT_int {op : BinOp} {Γ : String → Option Ty} {l r : Expr F} (fl fr : Bool)
    (hl : tyOf Γ l = some .int) (hr : tyOf Γ r = some .int) :
    binOKT fl fr true true op l r = true := by
  have z1 := isFloatZero_false_of_int hl
  have z2 := isFloatZero_false_of_int hr
  have o1 := isFloatOne_false_of_int hl
  have o2 := isFloatOne_false_of_int hr
  cases op <;> simp only [binOKT, z1, z2, o1, o2, Bool.false_eq_true, if_false, Bool.and_self, Bool.or_self]
  case add => repeat (first | rfl | split)
  case sub => repeat (first | rfl | split)
  case mul => repeat (first | rfl | split)

/-- integer expressions are int-typed — before and after optimisation — and in the typed fragment -/
theorem IntE.sound {Γ : String → Option Ty} {e : Expr F} (h : IntE Γ e) :
    tyOf Γ e = some .int ∧ tyOf Γ (peepE e) = some .int ∧ NoRetypeE Γ e = true := by
  induction h with
  | lit k => exact ⟨rfl, rfl, rfl⟩
  | var h => exact ⟨by simp [tyOf, h, NumKind.ofTy], by simp [peepE, tyOf, h, NumKind.ofTy], rfl⟩
  | @add l r hl hr ihl ihr =>
    refine ⟨by simp [tyOf, ihl.1, ihr.1, addKind, arithKind],
      peepBin_int (Or.inl rfl) ihl.2.1 ihr.2.1, ?_⟩
    simp only [NoRetypeE, Bool.and_eq_true]
    refine ⟨⟨ihl.2.2, ihr.2.2⟩, ?_⟩
    have e1 : hasKindE Γ .int l = true := by simp [hasKindE, ihl.1]
    have e2 : hasKindE Γ .int r = true := by simp [hasKindE, ihr.1]
    rw [e1, e2]; exact binOKT_int _ _ ihl.2.1 ihr.2.1
  | @sub l r hl hr ihl ihr =>
    refine ⟨by simp [tyOf, ihl.1, ihr.1, arithKind],
      peepBin_int (Or.inr (Or.inl rfl)) ihl.2.1 ihr.2.1, ?_⟩
    simp only [NoRetypeE, Bool.and_eq_true]
    refine ⟨⟨ihl.2.2, ihr.2.2⟩, ?_⟩
    have e1 : hasKindE Γ .int l = true := by simp [hasKindE, ihl.1]
    have e2 : hasKindE Γ .int r = true := by simp [hasKindE, ihr.1]
    rw [e1, e2]; exact binOKT_int _ _ ihl.2.1 ihr.2.1
  | @mul l r hl hr ihl ihr =>
    refine ⟨by simp [tyOf, ihl.1, ihr.1, arithKind],
      peepBin_int (Or.inr (Or.inr rfl)) ihl.2.1 ihr.2.1, ?_⟩
    simp only [NoRetypeE, Bool.and_eq_true]
    refine ⟨⟨ihl.2.2, ihr.2.2⟩, ?_⟩
    have e1 : hasKindE Γ .int l = true := by simp [hasKindE, ihl.1]
    have e2 : hasKindE Γ .int r = true := by simp [hasKindE, ihr.1]
    rw [e1, e2]; exact binOKT_int _ _ ihl.2.1 ihr.2.1

theorem IntE.foldl_mul {Γ : String → Option Ty} (xs : List (Expr F)) (hx : ∀ x ∈ xs, IntE Γ x) :
    ∀ acc : Expr F, IntE Γ acc → IntE Γ (xs.foldl (.bin .mul) acc) := by
  induction xs with
  | nil => intro acc h; exact h
  | cons x xs ih =>
    intro acc h
    exact ih (fun y hy => hx y (List.mem_cons_of_mem _ hy)) _ (.mul h (hx x (List.mem_cons_self)))

theorem IntE.mulJoin {Γ : String → Option Ty} (xs : List (Expr F)) (hx : ∀ x ∈ xs, IntE Γ x) :
    IntE Γ (mulJoin xs) := IntE.foldl_mul xs hx _ (.lit 1)

theorem IntE.prev {Γ : String → Option Ty} (ref : String) (n : Nat)
    (h : n = 0 ∨ Γ (layerPointer ref (n - 1)) = some .int) : IntE Γ (prevLayerPointer ref n : Expr F) := by
  unfold prevLayerPointer
  split
  · exact .lit 0
  · rename_i hn
    rcases h with h | h
    · exact absurd h hn
    · exact .var h

/-! ### folds of non-literal operands (no typing needed) -/

theorem notLit_var (x : String) : NotLit (.var x : Expr F) := ⟨fun _ => rfl, rfl, rfl⟩

theorem mulFold_notLit {Γ : String → Option Ty} (xs : List (Expr F))
    (hx : ∀ x ∈ xs, NoRetypeE Γ x = true ∧ NotLit x) :
    ∀ acc : Expr F, NoRetypeE Γ acc = true → NotLit acc →
      NoRetypeE Γ (xs.foldl (.bin .mul) acc) = true ∧ NotLit (xs.foldl (.bin .mul) acc) := by
  induction xs with
  | nil => intro acc h hn; exact ⟨h, hn⟩
  | cons x xs ih =>
    intro acc ha hn
    obtain ⟨hx1, hx2⟩ := hx x (List.mem_cons_self)
    rw [List.foldl_cons]
    apply ih (fun y hy => hx y (List.mem_cons_of_mem _ hy))
    · simp [NoRetypeE, ha, hx1, binOKT, hn.1, hn.2.1, hn.2.2, hx2.1, hx2.2.1, hx2.2.2]
    · simp only [NotLit, peepE, peepBin, hn.1, hn.2.1, hn.2.2, hx2.1, hx2.2.1, hx2.2.2,
        Bool.or_self, Bool.false_eq_true, if_false]
      exact ⟨fun _ => rfl, rfl, rfl⟩

/-- `1 * x₀ * x₁ * …` with at least one factor -/
theorem mulJoin_cons_notLit {Γ : String → Option Ty} (x : Expr F) (xs : List (Expr F))
    (hx : ∀ y ∈ x :: xs, NoRetypeE Γ y = true ∧ NotLit y) :
    NoRetypeE Γ (mulJoin (x :: xs)) = true ∧ NotLit (mulJoin (x :: xs)) := by
  unfold mulJoin joinWith
  obtain ⟨hx1, hx2⟩ := hx x (List.mem_cons_self)
  rw [List.foldl_cons]
  have e0 : (Expr.intLit 1 : Expr F).isInt 0 = false := rfl
  have e1 : (Expr.intLit 1 : Expr F).isInt 1 = true := rfl
  have e2 : (Expr.intLit 1 : Expr F).isFloatZero = false := rfl
  apply mulFold_notLit xs (fun y hy => hx y (List.mem_cons_of_mem _ hy))
  · simp [NoRetypeE, hx1, binOKT, peepE, hx2.1, hx2.2.1, e0, e1, e2]
  · have : peepE (.bin .mul (.intLit 1) x : Expr F) = peepE x := by
      simp [peepE, peepBin, hx2.1, hx2.2.1, e0, e1, e2]
    unfold NotLit
    rw [this]; exact hx2

theorem addFold_notLit {Γ : String → Option Ty} (xs : List (Expr F))
    (hx : ∀ x ∈ xs, NoRetypeE Γ x = true ∧ NotLit x) :
    ∀ acc : Expr F, NoRetypeE Γ acc = true → NotLit acc →
      NoRetypeE Γ (xs.foldl (.bin .add) acc) = true ∧ NotLit (xs.foldl (.bin .add) acc) := by
  induction xs with
  | nil => intro acc h hn; exact ⟨h, hn⟩
  | cons x xs ih =>
    intro acc ha hn
    obtain ⟨hx1, hx2⟩ := hx x (List.mem_cons_self)
    rw [List.foldl_cons]
    apply ih (fun y hy => hx y (List.mem_cons_of_mem _ hy))
    · simp [NoRetypeE, ha, hx1, binOKT, hn.1, hn.2.1, hx2.1, hx2.2.1]
    · simp only [NotLit, peepE, peepBin, hn.1, hn.2.1, hx2.1, hx2.2.1,
        Bool.or_self, Bool.false_eq_true, if_false]
      exact ⟨fun _ => rfl, rfl, rfl⟩

/-- `0 + x₀ + x₁ + …` of non-literal summands -/
theorem noRetypeE_addJoin {Γ : String → Option Ty} (xs : List (Expr F))
    (hx : ∀ x ∈ xs, NoRetypeE Γ x = true ∧ NotLit x) : NoRetypeE Γ (addJoin xs) = true := by
  unfold addJoin joinWith
  cases xs with
  | nil => rfl
  | cons x xs =>
    obtain ⟨hx1, hx2⟩ := hx x (List.mem_cons_self)
    rw [List.foldl_cons]
    have e0 : (Expr.intLit 0 : Expr F).isInt 0 = true := rfl
    refine (addFold_notLit xs (fun y hy => hx y (List.mem_cons_of_mem _ hy)) _ ?_ ?_).1
    · simp [NoRetypeE, hx1, binOKT, peepE, e0]
    · have : peepE (.bin .add (.intLit 0) x : Expr F) = peepE x := by
        simp [peepE, peepBin, e0]
      unfold NotLit
      rw [this]; exact hx2

end TV.Opt
