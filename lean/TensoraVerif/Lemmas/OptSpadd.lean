import TensoraVerif.Lemmas.OptCommon
import TensoraVerif.Lemmas.SpaddKernel

/-!
C07 for the element-wise sum of two sparse vectors (`Spadd.kernel`): the kernel lies in the typed stable
fragment relative to its own typing (`kernel_noRetype`), and an initial state `Spmul.Init` whose tensor
records are well typed agrees with that typing (`init_WT`).
-/
namespace TV.Opt.Spadd
open TV.IR TV.Gen TV.Graph TV.Merge TV.Spadd TV.Opt
open TV.Sparse1 (isSp outLeaf inLeaf branchBody unpackStmts outInit cleanupLines termBlock termBlockLines
  nameClass nc_plain nc_dim nc_pos nc_crd nc_vals nc_posCap nc_crdCap nc_valsCap nc_end nc_ptr nc_val nc_wr)
open TV.Spmul (KNames KernelOK Init isClass)
set_option linter.unusedSectionVars false
set_option linter.unusedSimpArgs false
variable {F : Type} [FloatOps F]

/-- what the typing of the kernel has to say about its variables -/
structure TyFacts (Γ : String → Option Ty) (i : String) (outT bT cT : TensorId) : Prop where
  dim : Γ (dimName i) = some .int
  idx : Γ i = some .int
  apos : Γ (posName outT.name 0) = some (.ptr .int)
  acrd : Γ (crdName outT.name 0) = some (.ptr .int)
  avals : Γ (valsName outT.name) = some (.ptr .float)
  bpos : Γ (posName bT.name 0) = some (.ptr .int)
  bcrd : Γ (crdName bT.name 0) = some (.ptr .int)
  bvals : Γ (valsName bT.name) = some (.ptr .float)
  cpos : Γ (posName cT.name 0) = some (.ptr .int)
  ccrd : Γ (crdName cT.name 0) = some (.ptr .int)
  cvals : Γ (valsName cT.name) = some (.ptr .float)
  posCap : Γ (posCapName outT.name 0) = some .int
  crdCap : Γ (crdCapName outT.name 0) = some .int
  valsCap : Γ (valsCapName outT.name) = some .int
  aptr : Γ (layerPointer outT.id 0) = some .int
  bptr : Γ (layerPointer bT.id 0) = some .int
  cptr : Γ (layerPointer cT.id 0) = some .int
  bend : Γ (sparseEndName bT.id 0) = some .int
  cend : Γ (sparseEndName cT.id 0) = some .int
  bval : Γ (valueFromCrd bT.id 0) = some .int
  cval : Γ (valueFromCrd cT.id 0) = some .int
  wr : Γ (writtenName outT.name 0) = some .bool

/-- the three tensors of the table, unpacked in order -/
theorem unpack_eq {formats : Formats} {i : String} {outT bT cT : TensorId}
    (ok : KernelOK formats i outT bT cT) :
    (formats.flatMap fun f => unpackStmts (F := F) f.1) =
      unpackStmts outT.name ++ unpackStmts bT.name ++ unpackStmts cT.name := by
  have : (formats.flatMap fun f => unpackStmts (F := F) f.1) =
      (formats.map (·.1)).flatMap unpackStmts := by
    rw [List.flatMap_map]
  rw [this, ok.fmt]
  simp

theorem unpack_noRetype {Γ : String → Option Ty} {t : String}
    (hp : Γ (posName t 0) = some (.ptr .int)) (hc : Γ (crdName t 0) = some (.ptr .int))
    (hv : Γ (valsName t) = some (.ptr .float)) :
    ∀ s ∈ unpackStmts (F := F) t, NoRetypeS Γ s = true := by
  intro s hs
  simp only [unpackStmts, List.mem_cons, List.not_mem_nil, or_false] at hs
  rcases hs with rfl | rfl | rfl <;>
    simp [declAssignE, NoRetypeS, NoRetypeE, declOK, varRhsOK, rhsKindOK, tyOf, Expr.isLevelE, hp, hc, hv]

theorem outInit_noRetype {Γ : String → Option Ty} {i : String} {outT bT cT : TensorId} (cap : Option Int)
    (hΓ : TyFacts Γ i outT bT cT) : ∀ s ∈ outInit (F := F) cap outT, NoRetypeS Γ s = true := by
  intro s hs
  simp only [outInit, List.mem_cons, List.not_mem_nil, or_false] at hs
  rcases hs with rfl | rfl | rfl | rfl | rfl | rfl | rfl | rfl <;>
    (try cases cap) <;>
    simp [declAssignE, plus, times, defaultArraySize, NoRetypeS, NoRetypeE, binOKT, peepE, peepBin, Expr.isInt,
      Expr.isFloatZero, Expr.isFloatOne, hasKindE, tyOf, assignOK, declOK, varRhsOK, rhsKindOK,
      NumKind.ofTy, NumKind.ptrOf, Expr.isLevelE, hΓ.posCap, hΓ.crdCap, hΓ.valsCap, hΓ.apos, hΓ.acrd,
      hΓ.avals, hΓ.aptr]

theorem cleanup_noRetype {Γ : String → Option Ty} {i : String} {outT bT cT : TensorId}
    (hΓ : TyFacts Γ i outT bT cT) : ∀ s ∈ cleanupLines (F := F) outT, NoRetypeS Γ s = true := by
  intro s hs
  simp only [cleanupLines, List.mem_cons, List.not_mem_nil, or_false] at hs
  rcases hs with rfl | rfl | rfl | rfl | rfl <;>
    simp [declAssignE, plus, times, NoRetypeS, NoRetypeE, binOKT, peepE, peepBin, Expr.isInt,
      Expr.isFloatZero, Expr.isFloatOne, hasKindE, tyOf, assignOK, declOK, varRhsOK, rhsKindOK,
      NumKind.ofTy, NumKind.ptrOf, Expr.isLevelE, hΓ.apos, hΓ.acrd, hΓ.avals, hΓ.aptr]

/-- the statements appended at every stored coordinate -/
theorem branchBody_noRetype {Γ : String → Option Ty} {i : String} {outT bT cT : TensorId} (ofRat : Rat → F)
    (hΓ : TyFacts Γ i outT bT cT) (ho : isSp i outT = true) (e : IdExpr) (he : valsTyped Γ e = true) :
    NoRetypeS Γ (.block (branchBody ofRat outT e) none) = true := by
  obtain ⟨h1, h2⟩ := (Sparse1.isSp_iff i outT).1 ho
  have hte := (toIrWith_typed Γ ofRat e he).2.2
  simp [branchBody, termBlock, termBlockLines, writePosAllocation, writeCrdAssembly, outLeaf, denseBelow,
    Leaf.ptr, Leaf.index, SB.mk', SB.branch, SB.add, SB.finalize, increment, h1, h2,
    declAssignE, plus, times, NoRetypeS, NoRetypeL, NoRetypeE, binOKT, peepE, peepBin, Expr.isInt,
    Expr.isFloatZero, Expr.isFloatOne, hasKindE, tyOf, assignOK, declOK, varRhsOK, rhsKindOK,
    NumKind.ofTy, NumKind.ptrOf, Expr.isLevelE, hΓ.valsCap, hΓ.crdCap, hΓ.acrd, hΓ.avals, hΓ.aptr, hΓ.wr,
    hΓ.idx, hte]

/-- `(int32_t)(…)` never optimises to a float literal -/
theorem b2i_notFloatZero (e : Expr F) : (peepE (.b2i e)).isFloatZero = false := by
  simp only [peepE]
  split
  · rfl
  · split <;> rfl

/-- the lines of the iteration block -/
theorem loopLines_noRetype {Γ : String → Option Ty} {i : String} {outT bT cT : TensorId} (ofRat : Rat → F)
    (hΓ : TyFacts Γ i outT bT cT) (ho : isSp i outT = true) :
    ∀ s ∈ loopLines ofRat i outT bT cT, NoRetypeS Γ s = true := by
  have hb : valsTyped Γ (.tensor bT) = true := by simp [valsTyped, hΓ.bvals]
  have hc : valsTyped Γ (.tensor cT) = true := by simp [valsTyped, hΓ.cvals]
  have hbc : valsTyped Γ (addE bT cT) = true := by simp [addE, valsTyped, hΓ.bvals, hΓ.cvals]
  have Bb := branchBody_noRetype ofRat hΓ ho _ hb
  have Bc := branchBody_noRetype ofRat hΓ ho _ hc
  have Bbc := branchBody_noRetype ofRat hΓ ho _ hbc
  simp only [NoRetypeS] at Bb Bc Bbc
  intro s hs
  simp only [loopLines, writeSparseInit, SB.add, SB.empty, List.nil_append, List.cons_append,
    List.mem_cons, List.not_mem_nil, or_false] at hs
  rcases hs with rfl | rfl | rfl | rfl | rfl | rfl | rfl | rfl
  all_goals
    simp [↓b2i_notFloatZero, mergeLoopL, mergeBodyL, mergeCond, mergeLoads, mergeMin, mergeIncs, midStmt, tailStmt, Sparse1.midStmt,
      Spmul.bothCond, oneCond, andJoin, minJoin, joinWith, writePosAssembly, inLeaf, outLeaf,
      Leaf.ptr, Leaf.prevPtr, prevLayerPointer, SB.mk', SB.add, SB.finalize, increment,
      declAssignE, plus, times, NoRetypeS, NoRetypeL, NoRetypeE, binOKT, peepE, peepBin, Expr.isInt,
      Expr.isFloatZero, Expr.isFloatOne, hasKindE, tyOf, assignOK, declOK, varRhsOK, rhsKindOK,
      NumKind.ofTy, NumKind.ptrOf, Expr.isLevelE, hΓ.apos, hΓ.bpos, hΓ.cpos, hΓ.bcrd, hΓ.ccrd, hΓ.aptr,
      hΓ.bptr, hΓ.cptr, hΓ.bend, hΓ.cend, hΓ.bval, hΓ.cval, hΓ.idx, Bb, Bc, Bbc]

/-- the body of the kernel lies in the typed fragment of any typing with `TyFacts` -/
theorem kernel_noRetypeS {Γ : String → Option Ty} (ofRat : Rat → F) (cap : Option Int) (formats : Formats)
    (i : String) (outT bT cT : TensorId) (hΓ : TyFacts Γ i outT bT cT)
    (hcl : isClass i outT bT cT = true) (ok : KernelOK formats i outT bT cT) :
    NoRetypeS Γ (kernel ofRat cap formats i outT bT cT).body = true := by
  obtain ⟨ho, _, _, _⟩ := (Spmul.isClass_iff i outT bT cT).1 hcl
  simp only [kernel]
  apply noRetypeS_block
  intro s hs
  simp only [kernelStmts, List.cons_append, List.nil_append, List.mem_cons, List.not_mem_nil, or_false] at hs
  rcases hs with rfl | rfl | rfl | rfl | rfl | rfl
  · apply noRetypeS_block
    intro s hs
    simp only [List.mem_singleton] at hs; subst hs
    exact noRetypeS_declInt (Or.inr hΓ.dim) (by simp [NoRetypeE])
  · rw [unpack_eq ok]
    apply noRetypeS_block
    intro s hs
    simp only [List.mem_append] at hs
    rcases hs with (hs | hs) | hs
    · exact unpack_noRetype hΓ.apos hΓ.acrd hΓ.avals s hs
    · exact unpack_noRetype hΓ.bpos hΓ.bcrd hΓ.bvals s hs
    · exact unpack_noRetype hΓ.cpos hΓ.ccrd hΓ.cvals s hs
  · exact noRetypeS_block (outInit_noRetype cap hΓ)
  · exact noRetypeS_block (loopLines_noRetype ofRat hΓ ho)
  · exact noRetypeS_block (cleanup_noRetype hΓ)
  · rfl

/-! ### the typing of the kernel -/

/-- the classifier, by the shape of the name (`Sparse1.nameClass`): `<t>_0_pos`, `<t>_0_crd` are `int32_t*`,
`<t>_vals` is `double*`, `written_<t>_0` is `bool`, a name without `'_'` other than the index is a tensor
parameter, everything else is `int` -/
def clsTy (i : String) (x : String) : Ty :=
  match nameClass x with
  | 0 => if x = i then .int else .ptr .tensor
  | 2 => .ptr .int
  | 3 => .ptr .int
  | 4 => .ptr .float
  | 11 => .bool
  | _ => .int

/-- the declarations of the kernel, in order -/
def declList (i : String) (outT bT cT : TensorId) : List (String × Ty) :=
  [(dimName i, .int),
   (posName outT.name 0, .ptr .int), (crdName outT.name 0, .ptr .int), (valsName outT.name, .ptr .float),
   (posName bT.name 0, .ptr .int), (crdName bT.name 0, .ptr .int), (valsName bT.name, .ptr .float),
   (posName cT.name 0, .ptr .int), (crdName cT.name 0, .ptr .int), (valsName cT.name, .ptr .float),
   (posCapName outT.name 0, .int), (crdCapName outT.name 0, .int), (layerPointer outT.id 0, .int),
   (valsCapName outT.name, .int),
   (layerPointer bT.id 0, .int), (sparseEndName bT.id 0, .int),
   (layerPointer cT.id 0, .int), (sparseEndName cT.id 0, .int),
   (valueFromCrd bT.id 0, .int), (valueFromCrd cT.id 0, .int), (i, .int),
   (writtenName outT.name 0, .bool), (writtenName outT.name 0, .bool), (writtenName outT.name 0, .bool),
   (valueFromCrd bT.id 0, .int), (i, .int), (writtenName outT.name 0, .bool),
   (valueFromCrd cT.id 0, .int), (i, .int), (writtenName outT.name 0, .bool)]

/-- the declarations of the kernel, written out -/
theorem kernel_decls (ofRat : Rat → F) (cap : Option Int) (formats : Formats)
    (i : String) (outT bT cT : TensorId) (hcl : isClass i outT bT cT = true)
    (ok : KernelOK formats i outT bT cT) :
    (kernel ofRat cap formats i outT bT cT).body.decls = declList i outT bT cT := by
  obtain ⟨ho, _, _, _⟩ := (Spmul.isClass_iff i outT bT cT).1 hcl
  obtain ⟨h1, h2⟩ := (Sparse1.isSp_iff i outT).1 ho
  simp only [kernel, kernelStmts]
  rw [unpack_eq ok]
  simp [declList, unpackStmts, outInit, loopLines, cleanupLines, Stmt.decls, declsL,
    declAssignE, writeSparseInit, SB.add, SB.empty, SB.mk', SB.branch, SB.finalize,
    mergeLoopL, mergeBodyL, mergeCond, mergeLoads, mergeMin, mergeIncs, midStmt, tailStmt, Sparse1.midStmt,
    branchBody, termBlock, termBlockLines, writePosAllocation, writeCrdAssembly, writePosAssembly,
    inLeaf, outLeaf, denseBelow, Leaf.ptr, increment, h1, h2]

/-- a typing that types every declaration of the kernel has `TyFacts` -/
theorem tyFacts_of_decls {Γ : String → Option Ty} {i : String} {outT bT cT : TensorId}
    (h : ∀ d ∈ declList i outT bT cT, Γ d.1 = some d.2) : TyFacts Γ i outT bT cT := by
  refine ⟨h (dimName i, .int) ?_,
    h (i, .int) ?_,
    h (posName outT.name 0, .ptr .int) ?_,
    h (crdName outT.name 0, .ptr .int) ?_,
    h (valsName outT.name, .ptr .float) ?_,
    h (posName bT.name 0, .ptr .int) ?_,
    h (crdName bT.name 0, .ptr .int) ?_,
    h (valsName bT.name, .ptr .float) ?_,
    h (posName cT.name 0, .ptr .int) ?_,
    h (crdName cT.name 0, .ptr .int) ?_,
    h (valsName cT.name, .ptr .float) ?_,
    h (posCapName outT.name 0, .int) ?_,
    h (crdCapName outT.name 0, .int) ?_,
    h (valsCapName outT.name, .int) ?_,
    h (layerPointer outT.id 0, .int) ?_,
    h (layerPointer bT.id 0, .int) ?_,
    h (layerPointer cT.id 0, .int) ?_,
    h (sparseEndName bT.id 0, .int) ?_,
    h (sparseEndName cT.id 0, .int) ?_,
    h (valueFromCrd bT.id 0, .int) ?_,
    h (valueFromCrd cT.id 0, .int) ?_,
    h (writtenName outT.name 0, .bool) ?_⟩ <;>
    simp only [declList, List.mem_cons, true_or, or_true]

/-- every parameter and declaration of the kernel has the type the classifier gives to its name -/
theorem kernel_decls_cls (ofRat : Rat → F) (cap : Option Int) (formats : Formats)
    (i : String) (outT bT cT : TensorId) (hcl : isClass i outT bT cT = true)
    (ok : KernelOK formats i outT bT cT) :
    ∀ d ∈ (kernel ofRat cap formats i outT bT cT).params ++ (kernel ofRat cap formats i outT bT cT).body.decls,
      clsTy i d.1 = d.2 := by
  have N := ok.names
  intro d hd
  rcases List.mem_append.1 hd with hd | hd
  · simp only [kernel, List.mem_map] at hd
    obtain ⟨f, hf, rfl⟩ := hd
    have hm : f.1 ∈ formats.map (·.1) := List.mem_map.2 ⟨f, hf, rfl⟩
    rw [ok.fmt] at hm
    simp only [List.mem_cons, List.not_mem_nil, or_false] at hm
    rcases hm with e | e | e <;> simp only [e, clsTy]
    · rw [N.a0]; simp [N.ia.symm]
    · rw [N.b0]; simp [N.ib.symm]
    · rw [N.c0]; simp [N.ic.symm]
  · rw [kernel_decls ofRat cap formats i outT bT cT hcl ok] at hd
    simp only [declList, List.mem_cons, List.not_mem_nil, or_false] at hd
    rcases hd with rfl | rfl | rfl | rfl | rfl | rfl | rfl | rfl | rfl | rfl | rfl | rfl | rfl | rfl | rfl | rfl |
      rfl | rfl | rfl | rfl | rfl | rfl | rfl | rfl | rfl | rfl | rfl | rfl | rfl | rfl <;>
    simp [clsTy, nc_dim, nc_pos, nc_crd, nc_vals, nc_posCap, nc_crdCap, nc_valsCap, nc_end, nc_ptr, nc_val,
      nc_wr, N.i0]

/-- the typing of the kernel has `TyFacts` -/
theorem kernel_tyFacts (ofRat : Rat → F) (cap : Option Int) (formats : Formats)
    (i : String) (outT bT cT : TensorId) (hcl : isClass i outT bT cT = true)
    (ok : KernelOK formats i outT bT cT) :
    TyFacts (kernel ofRat cap formats i outT bT cT).tyEnv i outT bT cT := by
  have hc := kernel_decls_cls ofRat cap formats i outT bT cT hcl ok
  apply tyFacts_of_decls
  intro d hd
  rw [← kernel_decls ofRat cap formats i outT bT cT hcl ok] at hd
  have h1 : d.1 ∈ ((kernel ofRat cap formats i outT bT cT).params ++
      (kernel ofRat cap formats i outT bT cT).body.decls).map (·.1) :=
    List.mem_map.2 ⟨d, List.mem_append_right _ hd, rfl⟩
  have h2 := lookupTy_of_mem hc h1
  rw [hc d (List.mem_append_right _ hd)] at h2
  exact h2

/-- **the kernel of the class lies in the typed stable fragment** -/
theorem kernel_noRetype (ofRat : Rat → F) (cap : Option Int) (formats : Formats)
    (i : String) (outT bT cT : TensorId) (hcl : isClass i outT bT cT = true)
    (ok : KernelOK formats i outT bT cT) :
    (kernel ofRat cap formats i outT bT cT).noRetype = true :=
  kernel_noRetypeS ofRat cap formats i outT bT cT (kernel_tyFacts ofRat cap formats i outT bT cT hcl ok) hcl ok

/-- **the initial state agrees with the typing of the kernel** -/
theorem init_WT (ofRat : Rat → F) (cap : Option Int) (formats : Formats) (i : String) (outT bT cT : TensorId)
    (ok : KernelOK formats i outT bT cT)
    {ta : Nat} {atr : TensorRec F} {n : Int}
    {tb : Nat} {btr : TensorRec F} {mb bpb bcb bvb : Nat} {crdB : Nat → Int} {cellsB : Nat → F}
    {tc : Nat} {ctr : TensorRec F} {mc cpb ccb cvb : Nat} {crdC : Nat → Int} {cellsC : Nat → F}
    {σ : State F}
    (hinit : Init outT bT cT ta atr n tb btr mb bpb bcb bvb crdB cellsB tc ctr mc cpb ccb cvb crdC cellsC σ)
    (hT : TensorsOK σ.heap σ.tensors) :
    WT (kernel ofRat cap formats i outT bT cT).tyEnv σ := by
  apply wt_of_params (formats.map (·.1))
  · intro p hp
    have : (kernel ofRat cap formats i outT bT cT).params =
        (formats.map (·.1)).map (fun q => (q, Ty.ptr .tensor)) := by
      simp [kernel]
    unfold Func.tyEnv
    rw [this]
    exact lookupTy_params _ _ hp
  · intro p hp
    rw [ok.fmt] at hp
    simp only [List.mem_cons, List.not_mem_nil, or_false] at hp
    rcases hp with rfl | rfl | rfl
    · exact ⟨_, hinit.avar⟩
    · exact ⟨_, hinit.b.var⟩
    · exact ⟨_, hinit.c.var⟩
  · intro x hx
    rw [ok.fmt] at hx
    simp only [List.mem_cons, List.not_mem_nil, or_false, not_or] at hx
    exact hinit.fresh x hx.1 hx.2.1 hx.2.2
  · exact hT

end TV.Opt.Spadd
