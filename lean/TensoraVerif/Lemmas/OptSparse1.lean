import TensoraVerif.Lemmas.OptCommon
import TensoraVerif.Lemmas.Sparse1Kernel

/-!
C07 for the sparse vector copy/scale kernels (`Sparse1.kernel`): the kernel lies in the typed stable
fragment relative to its own typing (`kernel_noRetype`), and an initial state `Sparse1.Init` whose tensor
records are well typed agrees with that typing (`init_WT`).
-/
namespace TV.Opt.Sparse1
open TV.IR TV.Gen TV.Graph TV.Merge TV.Sparse1 TV.Opt
set_option linter.unusedSectionVars false
variable {F : Type} [FloatOps F]

/-- the allocation check of the output leaf, written out -/
theorem writePosAllocation_out {i : String} {outT : TensorId} (ho : isSp i outT = true) :
    (writePosAllocation (outLeaf outT) : SB F) =
      ⟨some "vals allocation",
        [.branch (.bin .ge (plus (.var (layerPointer outT.id 0)) (.intLit 0)) (.var (valsCapName outT.name)))
          (.block [.assign (.var (valsCapName outT.name)) (times (.var (valsCapName outT.name)) (.intLit 2)),
             .assign (.var (valsName outT.name))
               (.realloc (.var (valsName outT.name)) .float (.var (valsCapName outT.name)))] none)
          (.block [] none)]⟩ := by
  obtain ⟨ho1, ho2⟩ := (isSp_iff i outT).1 ho
  have hdb : denseBelow outT 0 = [] := by
    simp [denseBelow, ho1, List.range, List.range.loop]
  simp [writePosAllocation, outLeaf, hdb, ho1, SB.mk', SB.branch, SB.add, Leaf.ptr]

/-- `Γ` does not type `x`, or types it `bool` -/
def BoolOrNone (Γ : String → Option Ty) (x : String) : Prop := Γ x = none ∨ Γ x = some .bool

/-- what the typing of the kernel has to say about its variables -/
structure TyFacts (Γ : String → Option Ty) (i : String) (outT bT : TensorId) : Prop where
  dim : IntOrNone Γ (dimName i)
  idx : IntOrNone Γ i
  pos : ∀ n, n = outT.name ∨ n = bT.name → Γ (posName n 0) = some (.ptr .int)
  crd : ∀ n, n = outT.name ∨ n = bT.name → Γ (crdName n 0) = some (.ptr .int)
  vals : ∀ n, n = outT.name ∨ n = bT.name → Γ (valsName n) = some (.ptr .float)
  posCap : IntOrNone Γ (posCapName outT.name 0)
  crdCap : IntOrNone Γ (crdCapName outT.name 0)
  valsCap : IntOrNone Γ (valsCapName outT.name)
  aptr : IntOrNone Γ (layerPointer outT.id 0)
  bptr : IntOrNone Γ (layerPointer bT.id 0)
  bend : IntOrNone Γ (sparseEndName bT.id 0)
  bval : IntOrNone Γ (valueFromCrd bT.id 0)
  wr : BoolOrNone Γ (writtenName outT.name 0)

macro "nr_simp" : tactic =>
  `(tactic| simp [NoRetypeS, NoRetypeL, NoRetypeE, binOKT, peepE, peepBin, Expr.isInt, Expr.isFloatZero,
      Expr.isFloatOne, hasKindE, tyOf, assignOK, varRhsOK, rhsKindOK, declOK, NumKind.ofTy, NumKind.ptrOf,
      Expr.isLevelE, Expr.isBool, plus, times, declAssignE, *])

theorem unpack_noRetype {Γ : String → Option Ty} {n : String}
    (hp : Γ (posName n 0) = some (.ptr .int)) (hc : Γ (crdName n 0) = some (.ptr .int))
    (hv : Γ (valsName n) = some (.ptr .float)) :
    ∀ s ∈ (unpackStmts n : List (Stmt F)), NoRetypeS Γ s = true := by
  intro s hs
  simp only [unpackStmts, List.mem_cons, List.not_mem_nil, or_false] at hs
  rcases hs with rfl | rfl | rfl <;> nr_simp

theorem outInit_noRetype {Γ : String → Option Ty} {i : String} {outT bT : TensorId} (cap : Option Int)
    (hΓ : TyFacts Γ i outT bT) : ∀ s ∈ (outInit cap outT : List (Stmt F)), NoRetypeS Γ s = true := by
  have hp := hΓ.pos _ (Or.inl rfl)
  have hc := hΓ.crd _ (Or.inl rfl)
  have hv := hΓ.vals _ (Or.inl rfl)
  intro s hs
  simp only [outInit, List.mem_cons, List.not_mem_nil, or_false] at hs
  rcases hs with rfl | rfl | rfl | rfl | rfl | rfl | rfl | rfl
  · exact noRetypeS_declInt hΓ.posCap (by nr_simp)
  · nr_simp
  · nr_simp
  · refine noRetypeS_declInt hΓ.crdCap ?_
    cases cap <;> simp [defaultArraySize, NoRetypeE, binOKT, peepE, Expr.isInt, Expr.isFloatZero, Expr.isFloatOne]
  · nr_simp
  · exact noRetypeS_declInt hΓ.aptr (by nr_simp)
  · refine noRetypeS_declInt hΓ.valsCap ?_
    cases cap <;> simp [defaultArraySize, NoRetypeE, binOKT, peepE, Expr.isInt, Expr.isFloatZero, Expr.isFloatOne]
  · nr_simp

theorem cleanup_noRetype {Γ : String → Option Ty} {i : String} {outT bT : TensorId}
    (hΓ : TyFacts Γ i outT bT) : ∀ s ∈ (cleanupLines outT : List (Stmt F)), NoRetypeS Γ s = true := by
  have hp := hΓ.pos _ (Or.inl rfl)
  have hc := hΓ.crd _ (Or.inl rfl)
  have hv := hΓ.vals _ (Or.inl rfl)
  intro s hs
  simp only [cleanupLines, List.mem_cons, List.not_mem_nil, or_false] at hs
  rcases hs with rfl | rfl | rfl | rfl | rfl <;> nr_simp

theorem noRetypeS_assignBool {Γ : String → Option Ty} {x : String} {v : Expr F}
    (hx : BoolOrNone Γ x) (hv : NoRetypeE Γ v = true) : NoRetypeS Γ (.assign (.var x) v) = true := by
  simp only [NoRetypeS, Bool.and_eq_true]
  rcases hx with h | h <;> simp [hv, NoRetypeE, assignOK, varRhsOK, h]

theorem noRetypeS_declBool {Γ : String → Option Ty} {x : String} {v : Expr F}
    (hx : BoolOrNone Γ x) (hv : NoRetypeE Γ v = true) : NoRetypeS Γ (declAssignE x .bool v) = true := by
  simp only [declAssignE, NoRetypeS, Bool.and_eq_true]
  rcases hx with h | h <;> simp [hv, declOK, varRhsOK, h]

theorem noRetypeS_branch1 {Γ : String → Option Ty} {c : Expr F} {ss : List (Stmt F)}
    (hc : NoRetypeE Γ c = true) (h : ∀ s ∈ ss, NoRetypeS Γ s = true) :
    NoRetypeS Γ (.branch c (.block ss none) (.block [] none)) = true := by
  simp only [NoRetypeS, NoRetypeL, Bool.and_true, Bool.and_eq_true]
  exact ⟨hc, noRetypeL_iff.2 h⟩

theorem branchBody_noRetype {Γ : String → Option Ty} {i : String} {outT bT : TensorId} (ofRat : Rat → F)
    (e : IdExpr) (ho : isSp i outT = true) (hΓ : TyFacts Γ i outT bT) (hv : valsTyped Γ e = true) :
    ∀ s ∈ branchBody ofRat outT e, NoRetypeS Γ s = true := by
  have hp := hΓ.pos _ (Or.inl rfl)
  have hc := hΓ.crd _ (Or.inl rfl)
  have hvl := hΓ.vals _ (Or.inl rfl)
  intro s hs
  simp only [branchBody, List.mem_cons, List.not_mem_nil, or_false] at hs
  rcases hs with rfl | rfl | rfl | rfl
  · rw [writePosAllocation_out ho]
    simp only [SB.finalize]
    apply noRetypeS_block
    intro s hs
    simp only [List.mem_singleton] at hs; subst hs
    refine noRetypeS_branch1 (by nr_simp) ?_
    intro s hs
    simp only [List.mem_cons, List.not_mem_nil, or_false] at hs
    rcases hs with rfl | rfl
    · exact noRetypeS_assignInt hΓ.valsCap (by nr_simp)
    · nr_simp
  · exact noRetypeS_declBool hΓ.wr rfl
  · simp only [termBlock, termBlockLines]
    apply noRetypeS_block
    intro s hs
    simp only [List.mem_cons, List.not_mem_nil, or_false] at hs
    rcases hs with rfl | rfl
    · exact noRetypeS_assignBool hΓ.wr rfl
    · exact noRetypeS_storeCell ofRat rfl hv
  · simp only [NoRetypeS, NoRetypeL, NoRetypeE, Bool.and_true, Bool.true_and, Bool.and_eq_true]
    refine ⟨?_, noRetypeS_incr hΓ.aptr⟩
    simp only [writeCrdAssembly, SB.finalize, SB.mk', SB.branch, SB.add, List.nil_append, List.cons_append,
      outLeaf, Leaf.ptr]
    apply noRetypeS_block
    intro s hs
    simp only [List.mem_cons, List.not_mem_nil, or_false] at hs
    rcases hs with rfl | rfl
    · refine noRetypeS_branch1 (by nr_simp) ?_
      intro s hs
      simp only [List.mem_cons, List.not_mem_nil, or_false] at hs
      rcases hs with rfl | rfl
      · exact noRetypeS_assignInt hΓ.crdCap (by nr_simp)
      · nr_simp
    · nr_simp

theorem loop_noRetype {Γ : String → Option Ty} {i : String} {outT bT : TensorId} (ofRat : Rat → F)
    (e : IdExpr) (ho : isSp i outT = true) (hΓ : TyFacts Γ i outT bT) (hv : valsTyped Γ e = true) :
    ∀ s ∈ loopLines ofRat i outT bT e, NoRetypeS Γ s = true := by
  have hp := hΓ.pos _ (Or.inl rfl)
  have hpb := hΓ.pos _ (Or.inr rfl)
  have hcb := hΓ.crd _ (Or.inr rfl)
  intro s hs
  simp only [loopLines, writeSparseInit, SB.empty, SB.add, List.nil_append, List.cons_append, inLeaf, outLeaf,
    Leaf.ptr, Leaf.prevPtr, prevLayerPointer, if_true, List.mem_cons, List.not_mem_nil, or_false] at hs
  rcases hs with rfl | rfl | rfl | rfl
  · exact noRetypeS_declInt hΓ.bptr (by nr_simp)
  · exact noRetypeS_declInt hΓ.bend (by nr_simp)
  · simp only [mergeLoopL, NoRetypeS, Bool.and_eq_true]
    refine ⟨by simp [mergeCond, andJoin, joinWith, NoRetypeE, binOKT], ?_⟩
    apply noRetypeL_iff.2
    intro s hs
    simp only [mergeBodyL, mergeLoads, mergeMin, mergeIncs, minJoin, List.map_cons, List.map_nil, List.foldl_nil,
      List.nil_append, List.cons_append, Leaf.ptr, List.mem_cons, List.not_mem_nil, or_false] at hs
    rcases hs with rfl | rfl | rfl | rfl
    · exact noRetypeS_declInt hΓ.bval (by nr_simp)
    · exact noRetypeS_declInt hΓ.idx (by nr_simp)
    · simp only [midStmt, NoRetypeS, NoRetypeL, Bool.and_true, Bool.and_eq_true]
      refine ⟨by simp [NoRetypeE, binOKT], ?_⟩
      exact noRetypeL_iff.2 (branchBody_noRetype ofRat e ho hΓ hv)
    · unfold increment
      refine noRetypeS_assignInt hΓ.bptr ?_
      cases hb : ((Expr.var (valueFromCrd bT.id 0) : Expr F).beq (Expr.var i)) <;> nr_simp
  · simp only [writePosAssembly, SB.finalize, SB.mk', SB.add, List.nil_append, Leaf.ptr, Leaf.prevPtr,
      prevLayerPointer, if_true]
    apply noRetypeS_block
    intro s hs
    simp only [List.mem_singleton] at hs; subst hs
    nr_simp

theorem valsTyped_of_toIrLeaves {Γ : String → Option Ty} (e : IdExpr)
    (h : ∀ t ∈ ToIr.leaves e, Γ (valsName t.name) = some (.ptr .float)) : valsTyped Γ e = true := by
  induction e with
  | int v => rfl
  | flt q => rfl
  | tensor t => simp [valsTyped, h t (by simp [ToIr.leaves])]
  | add l r ihl ihr =>
    simp only [valsTyped, Bool.and_eq_true]
    exact ⟨ihl (fun t ht => h t (by simp [ToIr.leaves, ht])), ihr (fun t ht => h t (by simp [ToIr.leaves, ht]))⟩
  | mul l r ihl ihr =>
    simp only [valsTyped, Bool.and_eq_true]
    exact ⟨ihl (fun t ht => h t (by simp [ToIr.leaves, ht])), ihr (fun t ht => h t (by simp [ToIr.leaves, ht]))⟩

theorem unpack_eq {formats : Formats} {outT bT : TensorId} (hfmt : formats.map (·.1) = [outT.name, bT.name]) :
    (formats.flatMap fun f => unpackStmts (F := F) f.1) = unpackStmts outT.name ++ unpackStmts bT.name := by
  have : (formats.flatMap fun f => unpackStmts (F := F) f.1) = (formats.map (·.1)).flatMap unpackStmts := by
    rw [List.flatMap_map]
  rw [this, hfmt]
  simp

/-- the body of the kernel lies in the typed fragment of any typing with `TyFacts` -/
theorem kernel_noRetypeS {Γ : String → Option Ty} (ofRat : Rat → F) (cap : Option Int) (formats : Formats)
    (i : String) (outT bT : TensorId) (e : IdExpr) (hΓ : TyFacts Γ i outT bT)
    (ho : isSp i outT = true) (he : isExpr i bT e = true)
    (hfmt : formats.map (·.1) = [outT.name, bT.name]) :
    NoRetypeS Γ (kernel ofRat cap formats i outT bT e).body = true := by
  have hv : valsTyped Γ e = true := by
    apply valsTyped_of_toIrLeaves
    intro t ht
    rw [((isExpr_iff i bT e).1 he).1] at ht
    simp only [List.mem_singleton] at ht; subst ht
    exact hΓ.vals _ (Or.inr rfl)
  simp only [kernel]
  apply noRetypeS_block
  intro s hs
  simp only [kernelStmts, List.cons_append, List.nil_append, List.mem_cons, List.not_mem_nil, or_false] at hs
  rcases hs with rfl | rfl | rfl | rfl | rfl | rfl
  · apply noRetypeS_block
    intro s hs
    simp only [List.mem_singleton] at hs; subst hs
    exact noRetypeS_declInt hΓ.dim (by nr_simp)
  · apply noRetypeS_block
    rw [unpack_eq hfmt]
    intro s hs
    rcases List.mem_append.1 hs with hs | hs
    · exact unpack_noRetype (hΓ.pos _ (Or.inl rfl)) (hΓ.crd _ (Or.inl rfl)) (hΓ.vals _ (Or.inl rfl)) s hs
    · exact unpack_noRetype (hΓ.pos _ (Or.inr rfl)) (hΓ.crd _ (Or.inr rfl)) (hΓ.vals _ (Or.inr rfl)) s hs
  · exact noRetypeS_block (outInit_noRetype cap hΓ)
  · exact noRetypeS_block (loop_noRetype ofRat e ho hΓ hv)
  · exact noRetypeS_block (cleanup_noRetype hΓ)
  · rfl

/-! ### the typing of the kernel -/

/-- the declarations of the kernel, in order -/
def declList (i : String) (outT bT : TensorId) : List (String × Ty) :=
  [(dimName i, .int),
   (posName outT.name 0, .ptr .int), (crdName outT.name 0, .ptr .int), (valsName outT.name, .ptr .float),
   (posName bT.name 0, .ptr .int), (crdName bT.name 0, .ptr .int), (valsName bT.name, .ptr .float),
   (posCapName outT.name 0, .int), (crdCapName outT.name 0, .int), (layerPointer outT.id 0, .int),
   (valsCapName outT.name, .int),
   (layerPointer bT.id 0, .int), (sparseEndName bT.id 0, .int), (valueFromCrd bT.id 0, .int), (i, .int),
   (writtenName outT.name 0, .bool)]

theorem kernel_decls (ofRat : Rat → F) (cap : Option Int) (formats : Formats)
    (i : String) (outT bT : TensorId) (e : IdExpr) (ho : isSp i outT = true)
    (hfmt : formats.map (·.1) = [outT.name, bT.name]) :
    (kernel ofRat cap formats i outT bT e).body.decls = declList i outT bT := by
  simp only [kernel, kernelStmts, unpack_eq hfmt, loopLines, midStmt, branchBody, writePosAllocation_out ho]
  simp [unpackStmts, outInit, cleanupLines, writeSparseInit,
    mergeLoopL, mergeBodyL, mergeLoads, mergeMin, mergeIncs, termBlock, termBlockLines,
    writeCrdAssembly, writePosAssembly, SB.finalize, SB.mk', SB.branch, SB.add,
    SB.empty, inLeaf, outLeaf, Leaf.ptr, increment, declAssignE, Stmt.decls, declsL, declList]

/-- the classifier: the two parameters are `taco_tensor_t*`, `<t>_0_pos` / `<t>_0_crd` are `int32_t*`,
`<t>_vals` are `double*`, `written_<t>_0` is `bool`, everything else `int` -/
def clsTy (outT bT : TensorId) (x : String) : Ty :=
  if x = outT.name ∨ x = bT.name then .ptr .tensor
  else if nameClass x = 2 ∨ nameClass x = 3 then .ptr .int
  else if nameClass x = 4 then .ptr .float
  else if nameClass x = 11 then .bool
  else .int

theorem clsTy_gen {i : String} {outT bT : TensorId} (N : KNames i outT bT) {x : String}
    (h : nameClass x ≠ 0) :
    clsTy outT bT x =
      if nameClass x = 2 ∨ nameClass x = 3 then .ptr .int
      else if nameClass x = 4 then .ptr .float
      else if nameClass x = 11 then .bool
      else .int := by
  unfold clsTy
  rw [if_neg]
  rintro (rfl | rfl)
  · exact h N.a0
  · exact h N.b0

theorem clsTy_idx {i : String} {outT bT : TensorId} (N : KNames i outT bT) : clsTy outT bT i = .int := by
  unfold clsTy
  rw [if_neg (by rintro (h | h); exact N.ia h; exact N.ib h)]
  simp [N.i0]

/-- every parameter and declaration of the kernel has the type the classifier gives to its name -/
theorem kernel_decls_cls (ofRat : Rat → F) (cap : Option Int) (formats : Formats)
    (i : String) (outT bT : TensorId) (e : IdExpr) (ho : isSp i outT = true)
    (ok : KernelOK formats i outT bT) :
    ∀ d ∈ (kernel ofRat cap formats i outT bT e).params ++ (kernel ofRat cap formats i outT bT e).body.decls,
      clsTy outT bT d.1 = d.2 := by
  have N := ok.names
  intro d hd
  rcases List.mem_append.1 hd with hd | hd
  · simp only [kernel, List.mem_map] at hd
    obtain ⟨f, hf, rfl⟩ := hd
    have : f.1 ∈ formats.map (·.1) := List.mem_map.2 ⟨f, hf, rfl⟩
    rw [ok.fmt] at this
    simp only [List.mem_cons, List.not_mem_nil, or_false] at this
    simp only [clsTy]
    rw [if_pos this]
  · rw [kernel_decls ofRat cap formats i outT bT e ho ok.fmt] at hd
    simp only [declList, List.mem_cons, List.not_mem_nil, or_false] at hd
    rcases hd with rfl | rfl | rfl | rfl | rfl | rfl | rfl | rfl | rfl | rfl | rfl | rfl | rfl | rfl | rfl | rfl
    all_goals first
      | exact clsTy_idx N
      | (rw [clsTy_gen N (by simp [nc_dim, nc_pos, nc_crd, nc_vals, nc_posCap, nc_crdCap, nc_valsCap, nc_end,
            nc_ptr, nc_val, nc_wr])]
         simp [nc_dim, nc_pos, nc_crd, nc_vals, nc_posCap, nc_crdCap, nc_valsCap, nc_end, nc_ptr, nc_val, nc_wr])

theorem BoolOrNone.of_classify {Γ : String → Option Ty} {T : String → Ty} {x : String}
    (h : Γ x = none ∨ Γ x = some (T x)) (hT : T x = .bool) : BoolOrNone Γ x := by
  rw [hT] at h; exact h

/-- the typing of the kernel has `TyFacts` -/
theorem kernel_tyFacts (ofRat : Rat → F) (cap : Option Int) (formats : Formats)
    (i : String) (outT bT : TensorId) (e : IdExpr) (ho : isSp i outT = true)
    (ok : KernelOK formats i outT bT) :
    TyFacts (kernel ofRat cap formats i outT bT e).tyEnv i outT bT := by
  have N := ok.names
  have hc := kernel_decls_cls ofRat cap formats i outT bT e ho ok
  have hcl := fun x => lookupTy_classify hc x
  have hdecl : ∀ {x : String} {t : Ty}, (x, t) ∈ declList i outT bT →
      (kernel ofRat cap formats i outT bT e).tyEnv x = some t := by
    intro x t hm
    rw [← kernel_decls ofRat cap formats i outT bT e ho ok.fmt] at hm
    have h1 : x ∈ ((kernel ofRat cap formats i outT bT e).params ++
        (kernel ofRat cap formats i outT bT e).body.decls).map (·.1) :=
      List.mem_map.2 ⟨(x, t), List.mem_append_right _ hm, rfl⟩
    have h2 := lookupTy_of_mem hc h1
    rw [hc (x, t) (List.mem_append_right _ hm)] at h2
    exact h2
  have hint : ∀ x, nameClass x ≠ 0 → ¬ (nameClass x = 2 ∨ nameClass x = 3) → nameClass x ≠ 4 →
      nameClass x ≠ 11 → IntOrNone (kernel ofRat cap formats i outT bT e).tyEnv x := by
    intro x h0 h1 h2 h3
    refine IntOrNone.of_classify (hcl x) ?_
    rw [clsTy_gen N h0, if_neg h1, if_neg h2, if_neg h3]
  refine
    { dim := hint _ ?_ ?_ ?_ ?_, idx := IntOrNone.of_classify (hcl i) (clsTy_idx N),
      pos := ?_, crd := ?_, vals := ?_,
      posCap := hint _ ?_ ?_ ?_ ?_, crdCap := hint _ ?_ ?_ ?_ ?_, valsCap := hint _ ?_ ?_ ?_ ?_,
      aptr := hint _ ?_ ?_ ?_ ?_, bptr := hint _ ?_ ?_ ?_ ?_, bend := hint _ ?_ ?_ ?_ ?_,
      bval := hint _ ?_ ?_ ?_ ?_, wr := ?_ }
  any_goals (simp [nc_dim, nc_posCap, nc_crdCap, nc_valsCap, nc_end, nc_ptr, nc_val]; done)
  · rintro n (rfl | rfl) <;> exact hdecl (by simp [declList])
  · rintro n (rfl | rfl) <;> exact hdecl (by simp [declList])
  · rintro n (rfl | rfl) <;> exact hdecl (by simp [declList])
  · refine BoolOrNone.of_classify (hcl _) ?_
    rw [clsTy_gen N (by simp [nc_wr])]
    simp [nc_wr]

/-- **the kernel of the class lies in the typed stable fragment** -/
theorem kernel_noRetype (ofRat : Rat → F) (cap : Option Int) (formats : Formats)
    (i : String) (outT bT : TensorId) (e : IdExpr) (ho : isSp i outT = true) (he : isExpr i bT e = true)
    (ok : KernelOK formats i outT bT) :
    (kernel ofRat cap formats i outT bT e).noRetype = true :=
  kernel_noRetypeS ofRat cap formats i outT bT e (kernel_tyFacts ofRat cap formats i outT bT e ho ok) ho he
    ok.fmt

/-- **the initial state agrees with the typing of the kernel** -/
theorem init_WT (ofRat : Rat → F) (cap : Option Int) (formats : Formats)
    (i : String) (outT bT : TensorId) (e : IdExpr) (hfmt : formats.map (·.1) = [outT.name, bT.name])
    {ta tb : Nat} {atr btr : TensorRec F} {n : Int} {m bpb bcb bvb : Nat} {crdB : Nat → Int}
    {cellsB : Nat → F} {σ : State F}
    (hinit : Init outT bT ta tb atr btr n m bpb bcb bvb crdB cellsB σ) (hT : TensorsOK σ.heap σ.tensors) :
    WT (kernel ofRat cap formats i outT bT e).tyEnv σ := by
  apply wt_of_params [outT.name, bT.name]
  · intro p hp
    have : (kernel ofRat cap formats i outT bT e).params =
        ([outT.name, bT.name]).map (fun q => (q, Ty.ptr .tensor)) := by
      rw [← hfmt]; simp [kernel]
    unfold Func.tyEnv
    rw [this]
    exact lookupTy_params _ _ hp
  · intro p hp
    simp only [List.mem_cons, List.not_mem_nil, or_false] at hp
    rcases hp with rfl | rfl
    · exact ⟨_, hinit.avar⟩
    · exact ⟨_, hinit.bvar⟩
  · intro x hx
    simp only [List.mem_cons, List.not_mem_nil, or_false, not_or] at hx
    exact hinit.fresh x hx.1 hx.2
  · exact hT

end TV.Opt.Sparse1
