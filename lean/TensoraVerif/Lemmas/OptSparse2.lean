import TensoraVerif.Lemmas.OptCommon
import TensoraVerif.Lemmas.Sparse2Kernel

/-!
C07 for the sparse matrix copy/scale kernels (`Sparse2.kernel`): the kernel lies in the typed stable
fragment relative to its own typing (`kernel_noRetype`), and an initial state `Sparse2.Init` whose tensor
records are well typed agrees with that typing (`init_WT`).
-/
namespace TV.Opt.Sparse2
open TV.IR TV.Gen TV.Graph TV.Sparse2 TV.Merge TV.Opt
set_option linter.unusedSectionVars false
set_option linter.unusedSimpArgs false
variable {F : Type} [FloatOps F]

/-- the type of every variable of the kernel -/
def nmTy : Nm → Ty
  | .a | .b => .ptr .tensor
  | .ap0 | .ac0 | .ap1 | .ac1 | .bp0 | .bc0 | .bp1 | .bc1 => .ptr .int
  | .av | .bv => .ptr .float
  | .w0 | .w1 => .bool
  | _ => .int

/-- what the typing of the kernel has to say about its variables: every variable of the kernel has its type -/
def TyFacts (Γ : String → Option Ty) (i j : String) (outT bT : TensorId) : Prop :=
  ∀ c : Nm, Γ (nameOf i j outT bT c) = some (nmTy c)

theorem flat_eq (formats : Formats) (a b : String) (hfmt : formats.map (·.1) = [a, b]) :
    (formats.flatMap fun f => unpackStmts (F := F) f.1) = unpackStmts a ++ unpackStmts b := by
  have : (formats.flatMap fun f => unpackStmts (F := F) f.1) =
      (formats.map (·.1)).flatMap unpackStmts := by
    rw [List.flatMap_map]
  rw [this, hfmt]; simp

theorem params_eq (formats : Formats) (a b : String) (hfmt : formats.map (·.1) = [a, b]) :
    (formats.map fun f => (f.1, Ty.ptr .tensor)) = [(a, .ptr .tensor), (b, .ptr .tensor)] := by
  have : (formats.map fun f => (f.1, Ty.ptr .tensor)) =
      (formats.map (·.1)).map (fun q => (q, Ty.ptr .tensor)) := by
    rw [List.map_map]; rfl
  rw [this, hfmt]; rfl

theorem valsTyped_of_toIrLeaves {Γ : String → Option Ty} (e : IdExpr)
    (h : ∀ t ∈ ToIr.leaves e, Γ (valsName t.name) = some (.ptr .float)) : valsTyped Γ e = true := by
  induction e with
  | int v => rfl
  | flt q => rfl
  | tensor t => simp [valsTyped, h t (by simp [ToIr.leaves])]
  | add l r ihl ihr =>
    simp only [valsTyped, Bool.and_eq_true]
    exact ⟨ihl (fun t ht => h t (by simp [ToIr.leaves, ht])), ihr (fun t ht => h t (by simp [ToIr.leaves, ht]))⟩
  | mul l r ihl ihr =>
    simp only [valsTyped, Bool.and_eq_true]
    exact ⟨ihl (fun t ht => h t (by simp [ToIr.leaves, ht])), ihr (fun t ht => h t (by simp [ToIr.leaves, ht]))⟩

/-- `p += (int32_t)(x == y);` -/
theorem noRetypeS_incrB2i {Γ : String → Option Ty} {p : String} (x y : String) (hp : IntOrNone Γ p) :
    NoRetypeS Γ (increment (.var p) (.b2i (.bin .eq (.var x) (.var y))) : Stmt F) = true := by
  unfold increment
  apply noRetypeS_assignInt hp
  by_cases h : x = y <;>
    simp [plus, NoRetypeE, binOKT, peepE, peepBin, Expr.beq, Expr.isBool, Expr.isInt, Expr.isFloatZero, h]

/-- the body of the kernel lies in the typed fragment of any typing with `TyFacts` -/
theorem kernel_noRetypeS {Γ : String → Option Ty} (ofRat : Rat → F) (cap : Option Int) (formats : Formats)
    (i j : String) (outT bT : TensorId) (e : IdExpr) (hΓ : TyFacts Γ i j outT bT)
    (hfmt : formats.map (·.1) = [outT.name, bT.name])
    (ho : isSS i j outT = true) (he : isExpr i j bT e = true) :
    NoRetypeS Γ (kernel ofRat cap formats i j outT bT e).body = true := by
  obtain ⟨ho1, ho2⟩ := (isSS_iff i j outT).1 ho
  have hd0 : denseBelow outT 0 = [] := by simp [denseBelow, ho1, ho2, List.range, List.range.loop]
  have hd1 : denseBelow outT 1 = [] := by simp [denseBelow, ho1, List.range, List.range.loop]
  have hv : valsTyped Γ e = true := by
    apply valsTyped_of_toIrLeaves
    intro t ht
    rw [((isExpr_iff i j bT e).1 he).1] at ht
    simp only [List.mem_singleton] at ht; subst ht
    exact hΓ .bv
  have h_i := hΓ .i; have h_j := hΓ .j; have h_a := hΓ .a; have h_b := hΓ .b
  have h_di := hΓ .di; have h_dj := hΓ .dj
  have h_ap0 := hΓ .ap0; have h_ac0 := hΓ .ac0; have h_ap1 := hΓ .ap1; have h_ac1 := hΓ .ac1; have h_av := hΓ .av
  have h_bp0 := hΓ .bp0; have h_bc0 := hΓ .bc0; have h_bp1 := hΓ .bp1; have h_bc1 := hΓ .bc1; have h_bv := hΓ .bv
  have h_kp0 := hΓ .kp0; have h_kc0 := hΓ .kc0; have h_kp1 := hΓ .kp1; have h_kc1 := hΓ .kc1; have h_kv := hΓ .kv
  have h_pA0 := hΓ .pA0; have h_pA1 := hΓ .pA1
  have h_pB0 := hΓ .pB0; have h_eB0 := hΓ .eB0; have h_vB0 := hΓ .vB0
  have h_pB1 := hΓ .pB1; have h_eB1 := hΓ .eB1; have h_vB1 := hΓ .vB1
  have h_w0 := hΓ .w0; have h_w1 := hΓ .w1
  simp only [nameOf, nmTy] at h_i h_j h_a h_b h_di h_dj h_ap0 h_ac0 h_ap1 h_ac1 h_av h_bp0 h_bc0 h_bp1 h_bc1 h_bv
  simp only [nameOf, nmTy] at h_kp0 h_kc0 h_kp1 h_kc1 h_kv h_pA0 h_pA1 h_pB0 h_eB0 h_vB0 h_pB1 h_eB1 h_vB1 h_w0 h_w1
  have hte := (toIrWith_typed Γ ofRat e hv).2.2
  have i1 := noRetypeS_incrB2i (F := F) (valueFromCrd bT.id 0) i (Or.inr h_pB0)
  have i2 := noRetypeS_incrB2i (F := F) (valueFromCrd bT.id 1) j (Or.inr h_pB1)
  have i3 := noRetypeS_incr (F := F) (Or.inr h_pA0)
  have i4 := noRetypeS_incr (F := F) (Or.inr h_pA1)
  simp only [kernel, kernelStmts]
  rw [flat_eq formats _ _ hfmt]
  cases cap <;>
  simp [NoRetypeS, NoRetypeL, NoRetypeE, binOKT, peepE, peepBin, Expr.isInt, Expr.isFloatZero, Expr.isFloatOne,
    hasKindE, tyOf, assignOK, varRhsOK, rhsKindOK, declOK, NumKind.ofTy, NumKind.ptrOf, Expr.isLevelE,
    dimStmts, unpackStmts, outInit, loopLines, cleanupLines, defaultArraySize, plus, times,
    declAssignE, writeSparseInit, SB.add, SB.empty, SB.mk', SB.finalize, SB.branch, mergeLoopL, mergeBodyL,
    mergeLoads, mergeMin, mergeIncs, mergeCond, andJoin, minJoin, joinWith, mid0, mid1, branch0, branch1,
    innerBlock, innerLines, termBlock, termLines, hte, i1, i2, i3, i4, writePosAllocation, writeCrdAssembly, writePosAssembly,
    in0, in1, out0, out1, Leaf.ptr, Leaf.prevPtr, Leaf.index, prevLayerPointer, hd0, hd1, ho1,
    h_i, h_j, h_a, h_b, h_di, h_dj, h_ap0, h_ac0, h_ap1, h_ac1, h_av, h_bp0, h_bc0, h_bp1, h_bc1, h_bv,
    h_kp0, h_kc0, h_kp1, h_kc1, h_kv, h_pA0, h_pA1, h_pB0, h_eB0, h_vB0, h_pB1, h_eB1, h_vB1, h_w0, h_w1]

/-! ### the typing of the kernel -/

/-- the parameters and declarations of the kernel, in order -/
def declList (i j : String) (outT bT : TensorId) : List (String × Ty) :=
  [(outT.name, .ptr .tensor), (bT.name, .ptr .tensor), (dimName i, .int), (dimName j, .int),
   (posName outT.name 0, .ptr .int), (crdName outT.name 0, .ptr .int), (posName outT.name 1, .ptr .int),
   (crdName outT.name 1, .ptr .int), (valsName outT.name, .ptr .float),
   (posName bT.name 0, .ptr .int), (crdName bT.name 0, .ptr .int), (posName bT.name 1, .ptr .int),
   (crdName bT.name 1, .ptr .int), (valsName bT.name, .ptr .float),
   (posCapName outT.name 0, .int), (crdCapName outT.name 0, .int), (layerPointer outT.id 0, .int),
   (posCapName outT.name 1, .int), (crdCapName outT.name 1, .int), (layerPointer outT.id 1, .int),
   (valsCapName outT.name, .int),
   (layerPointer bT.id 0, .int), (sparseEndName bT.id 0, .int), (valueFromCrd bT.id 0, .int), (i, .int),
   (writtenName outT.name 0, .bool),
   (layerPointer bT.id 1, .int), (sparseEndName bT.id 1, .int), (valueFromCrd bT.id 1, .int), (j, .int),
   (writtenName outT.name 1, .bool)]

/-- the parameters and declarations of the kernel, written out -/
theorem kernel_decls_eq (ofRat : Rat → F) (cap : Option Int) (formats : Formats) (i j : String)
    (outT bT : TensorId) (e : IdExpr) (hfmt : formats.map (·.1) = [outT.name, bT.name])
    (ho : isSS i j outT = true) :
    (kernel ofRat cap formats i j outT bT e).params ++ (kernel ofRat cap formats i j outT bT e).body.decls =
      declList i j outT bT := by
  obtain ⟨ho1, ho2⟩ := (isSS_iff i j outT).1 ho
  have hd0 : denseBelow outT 0 = [] := by simp [denseBelow, ho1, ho2, List.range, List.range.loop]
  have hd1 : denseBelow outT 1 = [] := by simp [denseBelow, ho1, List.range, List.range.loop]
  simp only [kernel, kernelStmts]
  rw [flat_eq formats _ _ hfmt, params_eq formats _ _ hfmt]
  simp [declList, Stmt.decls, declsL, dimStmts, unpackStmts, outInit, loopLines, cleanupLines,
    declAssignE, writeSparseInit, SB.add, SB.empty, SB.mk', SB.finalize, SB.branch, mergeLoopL, mergeBodyL,
    mergeLoads, mergeMin, mergeIncs, mid0, mid1, branch0, branch1, innerBlock, innerLines, termBlock, termLines,
    writePosAllocation, writeCrdAssembly, writePosAssembly, increment, in0, in1, out0, out1, Leaf.ptr, hd0,
    hd1, ho1]

theorem declList_nm (i j : String) (outT bT : TensorId) :
    ∀ d ∈ declList i j outT bT, ∃ c : Nm, d = (nameOf i j outT bT c, nmTy c) := by
  simp only [declList, List.forall_mem_cons, List.not_mem_nil, false_imp_iff, implies_true, and_true]
  exact ⟨⟨.a, rfl⟩, ⟨.b, rfl⟩, ⟨.di, rfl⟩, ⟨.dj, rfl⟩, ⟨.ap0, rfl⟩, ⟨.ac0, rfl⟩, ⟨.ap1, rfl⟩, ⟨.ac1, rfl⟩,
    ⟨.av, rfl⟩, ⟨.bp0, rfl⟩, ⟨.bc0, rfl⟩, ⟨.bp1, rfl⟩, ⟨.bc1, rfl⟩, ⟨.bv, rfl⟩, ⟨.kp0, rfl⟩, ⟨.kc0, rfl⟩,
    ⟨.pA0, rfl⟩, ⟨.kp1, rfl⟩, ⟨.kc1, rfl⟩, ⟨.pA1, rfl⟩, ⟨.kv, rfl⟩, ⟨.pB0, rfl⟩, ⟨.eB0, rfl⟩, ⟨.vB0, rfl⟩,
    ⟨.i, rfl⟩, ⟨.w0, rfl⟩, ⟨.pB1, rfl⟩, ⟨.eB1, rfl⟩, ⟨.vB1, rfl⟩, ⟨.j, rfl⟩, ⟨.w1, rfl⟩⟩

theorem nm_mem_declList (i j : String) (outT bT : TensorId) (c : Nm) :
    (nameOf i j outT bT c, nmTy c) ∈ declList i j outT bT := by
  cases c <;> simp [declList, nameOf, nmTy]

/-- the classifier: a variable of the kernel has the type of its role, every other name `int` -/
noncomputable def clsTy (i j : String) (outT bT : TensorId) (x : String) : Ty :=
  open Classical in
  if h : ∃ c : Nm, nameOf i j outT bT c = x then nmTy (choose h) else .int

theorem clsTy_nameOf {i j : String} {outT bT : TensorId} (hN : (allNames i j outT bT).Nodup) (c : Nm) :
    clsTy i j outT bT (nameOf i j outT bT c) = nmTy c := by
  unfold clsTy
  have h : ∃ c' : Nm, nameOf i j outT bT c' = nameOf i j outT bT c := ⟨c, rfl⟩
  rw [dif_pos h]
  rw [(nameOf_inj hN _ _).1 (Classical.choose_spec h)]

/-- every parameter and declaration of the kernel has the type the classifier gives to its name -/
theorem kernel_decls_cls (ofRat : Rat → F) (cap : Option Int) (formats : Formats) (i j : String)
    (outT bT : TensorId) (e : IdExpr) (hN : (allNames i j outT bT).Nodup)
    (hfmt : formats.map (·.1) = [outT.name, bT.name]) (ho : isSS i j outT = true) :
    ∀ d ∈ (kernel ofRat cap formats i j outT bT e).params ++ (kernel ofRat cap formats i j outT bT e).body.decls,
      clsTy i j outT bT d.1 = d.2 := by
  rw [kernel_decls_eq ofRat cap formats i j outT bT e hfmt ho]
  intro d hd
  obtain ⟨c, rfl⟩ := declList_nm i j outT bT d hd
  exact clsTy_nameOf hN c

/-- the typing of the kernel has `TyFacts` -/
theorem kernel_tyFacts (ofRat : Rat → F) (cap : Option Int) (formats : Formats) (i j : String)
    (outT bT : TensorId) (e : IdExpr) (hN : (allNames i j outT bT).Nodup)
    (hfmt : formats.map (·.1) = [outT.name, bT.name]) (ho : isSS i j outT = true) :
    TyFacts (kernel ofRat cap formats i j outT bT e).tyEnv i j outT bT := by
  intro c
  have hc := kernel_decls_cls ofRat cap formats i j outT bT e hN hfmt ho
  have hm : nameOf i j outT bT c ∈ ((kernel ofRat cap formats i j outT bT e).params ++
      (kernel ofRat cap formats i j outT bT e).body.decls).map (·.1) := by
    rw [kernel_decls_eq ofRat cap formats i j outT bT e hfmt ho]
    exact List.mem_map.2 ⟨_, nm_mem_declList i j outT bT c, rfl⟩
  have := lookupTy_of_mem hc hm
  rw [clsTy_nameOf hN c] at this
  exact this

/-- **the kernel of the class lies in the typed stable fragment** -/
theorem kernel_noRetype (ofRat : Rat → F) (cap : Option Int) (formats : Formats) (i j : String)
    (outT bT : TensorId) (e : IdExpr) (hN : (allNames i j outT bT).Nodup)
    (hfmt : formats.map (·.1) = [outT.name, bT.name])
    (ho : isSS i j outT = true) (he : isExpr i j bT e = true) :
    (kernel ofRat cap formats i j outT bT e).noRetype = true :=
  kernel_noRetypeS ofRat cap formats i j outT bT e (kernel_tyFacts ofRat cap formats i j outT bT e hN hfmt ho)
    hfmt ho he

/-- the same, from the static hypotheses `Ctx.OK` of the class -/
theorem kernel_noRetype_of_OK {K : Ctx F} (ok : K.OK) (cap : Option Int) (formats : Formats)
    (hfmt : formats.map (·.1) = [K.outT.name, K.bT.name]) :
    (kernel K.ofRat cap formats K.i K.j K.outT K.bT K.e).noRetype = true :=
  kernel_noRetype K.ofRat cap formats K.i K.j K.outT K.bT K.e ok.names hfmt ok.ho ok.he

/-- **the initial state agrees with the typing of the kernel** -/
theorem init_WT {K : Ctx F} (cap : Option Int) (formats : Formats)
    (hfmt : formats.map (·.1) = [K.outT.name, K.bT.name])
    {atr btr : TensorRec F} {tb : Nat} {n m : Int} {σ : State F}
    (hinit : Init K atr btr tb n m σ) (hT : TensorsOK σ.heap σ.tensors) :
    WT (kernel K.ofRat cap formats K.i K.j K.outT K.bT K.e).tyEnv σ := by
  apply wt_of_params [K.outT.name, K.bT.name]
  · intro p hp
    have : (kernel K.ofRat cap formats K.i K.j K.outT K.bT K.e).params =
        [K.outT.name, K.bT.name].map (fun q => (q, Ty.ptr .tensor)) := by
      simp only [kernel]; rw [params_eq formats _ _ hfmt]; rfl
    unfold Func.tyEnv
    rw [this]
    exact lookupTy_params _ _ hp
  · intro p hp
    simp only [List.mem_cons, List.not_mem_nil, or_false] at hp
    rcases hp with rfl | rfl
    · exact ⟨_, hinit.avar⟩
    · exact ⟨_, hinit.bvar⟩
  · intro x hx
    simp only [List.mem_cons, List.not_mem_nil, or_false, not_or] at hx
    exact hinit.fresh x hx.1 hx.2
  · exact hT

end TV.Opt.Sparse2
