import TensoraVerif.Lemmas.OptCommon
import TensoraVerif.Lemmas.SpdotKernel

/-!
C07 for the sparse dot product `a() = b(i) * c(i)` (`Spdot.kernel`): the kernel lies in the typed stable
fragment relative to its own typing (`kernel_noRetype`), and an initial state `Spdot.Init` whose tensor
records are well typed agrees with that typing (`init_WT`).
-/
namespace TV.Opt.Spdot
open TV.IR TV.Gen TV.Graph TV.Merge TV.Spdot TV.Opt
open TV.Sparse1 (isSp inLeaf unpackStmts nameClass nc_plain nc_dim nc_pos nc_crd nc_vals nc_posCap nc_crdCap
  nc_valsCap nc_end nc_ptr nc_val nc_wr)
open TV.Spmul (mulE bothCond)
set_option linter.unusedSectionVars false
set_option linter.unusedSimpArgs false
variable {F : Type} [FloatOps F]

/-- what the typing of the kernel has to say about its variables -/
structure TyFacts (Γ : String → Option Ty) (i : String) (outT bT cT : TensorId) : Prop where
  dim : IntOrNone Γ (dimName i)
  avals : Γ (valsName outT.name) = some (.ptr .float)
  bpos : Γ (posName bT.name 0) = some (.ptr .int)
  bcrd : Γ (crdName bT.name 0) = some (.ptr .int)
  bvals : Γ (valsName bT.name) = some (.ptr .float)
  cpos : Γ (posName cT.name 0) = some (.ptr .int)
  ccrd : Γ (crdName cT.name 0) = some (.ptr .int)
  cvals : Γ (valsName cT.name) = some (.ptr .float)
  cap : IntOrNone Γ (valsCapName outT.name)
  bk : Γ (bkN outT) = some (.ptr .float)
  bl : IntOrNone Γ (blN outT)
  pb : IntOrNone Γ (layerPointer bT.id 0)
  eb : IntOrNone Γ (sparseEndName bT.id 0)
  pc : IntOrNone Γ (layerPointer cT.id 0)
  ec : IntOrNone Γ (sparseEndName cT.id 0)
  vb : IntOrNone Γ (valueFromCrd bT.id 0)
  vc : IntOrNone Γ (valueFromCrd cT.id 0)
  idx : IntOrNone Γ i

/-! ### statement shapes -/

/-- `int32_t* t_0_pos = t->indices[0][k];` -/
theorem noRetypeS_unpackLevel {Γ : String → Option Ty} {x t : String} (k : Int)
    (h : Γ x = some (.ptr .int)) :
    NoRetypeS Γ (declAssignE x (.ptr .int)
      (.idx (.idx (.attr (.var t) "indices") (.intLit 0)) (.intLit k)) : Stmt F) = true := by
  simp [declAssignE, NoRetypeS, NoRetypeE, declOK, varRhsOK, h, rhsKindOK, tyOf, Expr.isLevelE]

/-- `bucket[0] = bucket[0] + <to_ir e>` -/
theorem noRetypeS_acc {Γ : String → Option Ty} (ofRat : Rat → F) {bk : String} {e : IdExpr}
    (hbk : Γ bk = some (.ptr .float)) (he : valsTyped Γ e = true) :
    NoRetypeS Γ (increment (.idx (.var bk) (.intLit 0)) (toIrWith ofRat e) : Stmt F) = true := by
  obtain ⟨h1, h2, h3⟩ := toIrWith_typed Γ ofRat e he
  have hl : tyOf Γ (.idx (.var bk) (.intLit 0) : Expr F) = some .float := by
    simp [tyOf, Expr.isLevelE, hbk, NumKind.ofTy]
  have hl' : tyOf Γ (peepE (.idx (.var bk) (.intLit 0) : Expr F)) = some .float := by
    simpa [peepE] using hl
  have hb := binOKT_float (op := .add)
    (hasKindE Γ .int (.idx (.var bk) (.intLit 0) : Expr F)) (hasKindE Γ .int (toIrWith ofRat e)) hl' h2
  have k1 : hasKindE Γ .float (.idx (.var bk) (.intLit 0) : Expr F) = true := by
    simp [hasKindE, hl]
  have k2 : hasKindE Γ .float (toIrWith ofRat e) = true := by
    simp [hasKindE, h1]
  simp only [increment, plus, NoRetypeS, NoRetypeE, k1, k2, hb, h3, assignOK, Expr.isLevelE]
  rfl

/-- `p = p + (int)(c)` -/
theorem noRetypeS_incrB2i {Γ : String → Option Ty} {p : String} {c : Expr F} (hp : IntOrNone Γ p)
    (hc : NoRetypeE Γ c = true) :
    NoRetypeS Γ (increment (.var p) (.b2i c) : Stmt F) = true := by
  unfold increment
  apply noRetypeS_assignInt hp
  simp only [plus, NoRetypeE, hc, Bool.true_and, binOKT, peepE]
  by_cases h1 : (peepE c).isBool false = true <;> by_cases h2 : (peepE c).isBool true = true <;>
    simp [h1, h2, Expr.isInt, Expr.isFloatZero]

/-- the body of the kernel lies in the typed fragment of any typing with `TyFacts` -/
theorem kernel_noRetypeS {Γ : String → Option Ty} (ofRat : Rat → F) (formats : Formats) (i : String)
    (outT bT cT : TensorId) (hΓ : TyFacts Γ i outT bT cT) :
    NoRetypeS Γ (kernel ofRat formats i outT bT cT).body = true := by
  have hv : valsTyped Γ (mulE bT cT) = true := by simp [mulE, valsTyped, hΓ.bvals, hΓ.cvals]
  simp only [kernel]
  apply noRetypeS_block
  intro s hs
  simp only [kernelStmts, List.cons_append, List.nil_append, List.mem_cons, List.not_mem_nil, or_false] at hs
  rcases hs with rfl | rfl | rfl | rfl | rfl | rfl
  · -- Extract dimensions
    apply noRetypeS_block
    intro s hs
    simp only [List.mem_singleton] at hs; subst hs
    exact noRetypeS_declInt hΓ.dim (by simp [NoRetypeE])
  · -- Unpack tensors
    apply noRetypeS_block
    intro s hs
    simp only [unpackStmts, List.cons_append, List.nil_append, List.mem_cons, List.not_mem_nil, or_false] at hs
    rcases hs with rfl | rfl | rfl | rfl | rfl | rfl | rfl
    · exact noRetypeS_unpackVals hΓ.avals
    · exact noRetypeS_unpackLevel 0 hΓ.bpos
    · exact noRetypeS_unpackLevel 1 hΓ.bcrd
    · exact noRetypeS_unpackVals hΓ.bvals
    · exact noRetypeS_unpackLevel 0 hΓ.cpos
    · exact noRetypeS_unpackLevel 1 hΓ.ccrd
    · exact noRetypeS_unpackVals hΓ.cvals
  · -- Output initialization
    apply noRetypeS_block
    intro s hs
    simp only [List.mem_cons, List.not_mem_nil, or_false] at hs
    rcases hs with rfl | rfl
    · exact noRetypeS_declInt hΓ.cap rfl
    · exact noRetypeS_allocVals hΓ.avals
  · -- Iteration over i
    apply noRetypeS_block
    intro s hs
    simp only [loopLines, writeSparseInit, SB.add, SB.empty, inLeaf, Leaf.ptr, Leaf.prevPtr, prevLayerPointer,
      if_true, List.cons_append, List.nil_append, List.mem_cons, List.not_mem_nil, or_false] at hs
    rcases hs with rfl | rfl | rfl | rfl | rfl | rfl
    · -- Bucket initialization
      apply noRetypeS_block
      intro s hs
      simp only [bucketInitLines, List.mem_cons, List.not_mem_nil, or_false] at hs
      rcases hs with rfl | rfl | rfl
      · simp [declAssignE, plus, times, NoRetypeS, NoRetypeE, binOKT, peepE, peepBin, Expr.isInt,
          Expr.isFloatZero, Expr.isFloatOne, hasKindE, tyOf, declOK, varRhsOK, rhsKindOK, hΓ.bk, hΓ.avals,
          NumKind.ofTy, addKind, arithKind]
      · exact noRetypeS_declInt hΓ.bl rfl
      · simp only [NoRetypeS, Bool.and_eq_true]
        refine ⟨by simp [NoRetypeE, binOKT], ?_⟩
        apply noRetypeL_iff.2
        intro s hs
        simp only [List.mem_cons, List.not_mem_nil, or_false] at hs
        rcases hs with rfl | rfl
        · simp [NoRetypeS, NoRetypeE, assignOK, Expr.isLevelE]
        · exact noRetypeS_incr hΓ.bl
    · exact noRetypeS_declInt hΓ.pb (by simp [NoRetypeE])
    · exact noRetypeS_declInt hΓ.eb
        (by simp [plus, NoRetypeE, binOKT, peepE, Expr.isInt, Expr.isFloatZero])
    · exact noRetypeS_declInt hΓ.pc (by simp [NoRetypeE])
    · exact noRetypeS_declInt hΓ.ec
        (by simp [plus, NoRetypeE, binOKT, peepE, Expr.isInt, Expr.isFloatZero])
    · -- the merge loop
      simp only [mergeLoopL, NoRetypeS, Bool.and_eq_true]
      refine ⟨by simp [mergeCond, andJoin, joinWith, NoRetypeE, binOKT], ?_⟩
      apply noRetypeL_iff.2
      intro s hs
      simp only [mergeBodyL, mergeLoads, mergeMin, mergeIncs, minJoin, Leaf.ptr, List.map_cons, List.map_nil,
        List.foldl_cons, List.foldl_nil, List.cons_append, List.nil_append, List.mem_cons, List.not_mem_nil,
        or_false] at hs
      rcases hs with rfl | rfl | rfl | rfl | rfl | rfl
      · exact noRetypeS_declInt hΓ.vb (by simp [NoRetypeE])
      · exact noRetypeS_declInt hΓ.vc (by simp [NoRetypeE])
      · exact noRetypeS_declInt hΓ.idx (by simp [NoRetypeE, binOKT])
      · -- the branch
        simp only [midStmt, NoRetypeS, NoRetypeL, Bool.and_eq_true, Bool.and_true]
        refine ⟨by simp [bothCond, NoRetypeE, binOKT], ?_⟩
        simp only [termBlock, NoRetypeS, NoRetypeL, Bool.and_true]
        exact noRetypeS_acc ofRat hΓ.bk hv
      · exact noRetypeS_incrB2i hΓ.pb (by simp [NoRetypeE, binOKT])
      · exact noRetypeS_incrB2i hΓ.pc (by simp [NoRetypeE, binOKT])
  · -- Assembling output tensor
    apply noRetypeS_block
    intro s hs
    simp only [List.mem_singleton] at hs; subst hs
    exact noRetypeS_storeVals hΓ.avals
  · rfl

/-! ### the typing of the kernel -/

/-- the declarations of the body, in order -/
theorem kernel_decls (ofRat : Rat → F) (formats : Formats) (i : String) (outT bT cT : TensorId) :
    (kernel ofRat formats i outT bT cT).body.decls =
      [(dimName i, .int), (valsName outT.name, .ptr .float),
       (posName bT.name 0, .ptr .int), (crdName bT.name 0, .ptr .int), (valsName bT.name, .ptr .float),
       (posName cT.name 0, .ptr .int), (crdName cT.name 0, .ptr .int), (valsName cT.name, .ptr .float),
       (valsCapName outT.name, .int), (bkN outT, .ptr .float), (blN outT, .int),
       (layerPointer bT.id 0, .int), (sparseEndName bT.id 0, .int),
       (layerPointer cT.id 0, .int), (sparseEndName cT.id 0, .int),
       (valueFromCrd bT.id 0, .int), (valueFromCrd cT.id 0, .int), (i, .int)] := by
  simp [kernel, kernelStmts, loopLines, bucketInitLines, unpackStmts, writeSparseInit, SB.add, SB.empty,
    mergeLoopL, mergeBodyL, mergeLoads, mergeMin, mergeIncs, midStmt, termBlock, accStmt, increment,
    declAssignE, inLeaf, Leaf.ptr, Stmt.decls, declsL]

/-- the classifier: parameters are `taco_tensor_t*`, the bucket and `<t>_vals` are `double*`, `<t>_0_pos`
and `<t>_0_crd` are `int32_t*`, everything else `int` -/
def clsTy (outT bT cT : TensorId) (x : String) : Ty :=
  if x = outT.name ∨ x = bT.name ∨ x = cT.name then .ptr .tensor
  else if x = bkN outT then .ptr .float
  else if nameClass x = 2 ∨ nameClass x = 3 then .ptr .int
  else if nameClass x = 4 then .ptr .float
  else .int

theorem clsTy_eq {outT bT cT : TensorId} {x : String} (h1 : x ≠ outT.name) (h2 : x ≠ bT.name)
    (h3 : x ≠ cT.name) (h4 : x ≠ bkN outT) :
    clsTy outT bT cT x = if nameClass x = 2 ∨ nameClass x = 3 then .ptr .int
      else if nameClass x = 4 then .ptr .float else .int := by
  simp [clsTy, h1, h2, h3, h4]

/-- `cls N k` : the classifier on a generated name of class `k` -/
macro "cls" N:term : tactic =>
  `(tactic| (rw [clsTy_eq (by dnm $N) (by dnm $N) (by dnm $N) (by dnm $N)]
             simp [nc_dim, nc_pos, nc_crd, nc_vals, nc_valsCap, nc_end, nc_ptr, nc_val,
               ($N).base.i0, ($N).kl]))

/-- every parameter and declaration of the kernel has the type the classifier gives to its name -/
theorem kernel_decls_cls (ofRat : Rat → F) (formats : Formats) (i : String) (outT bT cT : TensorId)
    (ok : KernelOK formats i outT bT cT) :
    ∀ d ∈ (kernel ofRat formats i outT bT cT).params ++ (kernel ofRat formats i outT bT cT).body.decls,
      clsTy outT bT cT d.1 = d.2 := by
  have N := ok.names
  obtain ⟨oa, ob, oc, hf⟩ := ok.fmt
  intro d hd
  rcases List.mem_append.1 hd with hd | hd
  · simp only [kernel, hf, List.map_cons, List.map_nil, List.mem_cons, List.not_mem_nil, or_false] at hd
    rcases hd with rfl | rfl | rfl <;> simp [clsTy]
  · rw [kernel_decls] at hd
    simp only [List.mem_cons, List.not_mem_nil, or_false] at hd
    rcases hd with rfl | rfl | rfl | rfl | rfl | rfl | rfl | rfl | rfl | rfl | rfl | rfl | rfl | rfl | rfl |
      rfl | rfl | rfl
    · cls N
    · cls N
    · cls N
    · cls N
    · cls N
    · cls N
    · cls N
    · cls N
    · cls N
    · have h1 : bkN outT ≠ outT.name := by dnm N
      have h2 : bkN outT ≠ bT.name := by dnm N
      have h3 : bkN outT ≠ cT.name := by dnm N
      simp [clsTy, h1, h2, h3]
    · cls N
    · cls N
    · cls N
    · cls N
    · cls N
    · cls N
    · cls N
    · cls N

/-- the typing of the kernel has `TyFacts` -/
theorem kernel_tyFacts (ofRat : Rat → F) (formats : Formats) (i : String) (outT bT cT : TensorId)
    (ok : KernelOK formats i outT bT cT) :
    TyFacts (kernel ofRat formats i outT bT cT).tyEnv i outT bT cT := by
  have hc := kernel_decls_cls ofRat formats i outT bT cT ok
  have hdecl : ∀ {x : String} {t : Ty}, (x, t) ∈ (kernel ofRat formats i outT bT cT).body.decls →
      (kernel ofRat formats i outT bT cT).tyEnv x = some t := by
    intro x t hm
    have h1 : x ∈ ((kernel ofRat formats i outT bT cT).params ++
        (kernel ofRat formats i outT bT cT).body.decls).map (·.1) :=
      List.mem_map.2 ⟨(x, t), List.mem_append_right _ hm, rfl⟩
    have h2 := lookupTy_of_mem hc h1
    rw [hc (x, t) (List.mem_append_right _ hm)] at h2
    exact h2
  have hd : ∀ {x : String} {t : Ty}, (x, t) ∈ [(dimName i, Ty.int), (valsName outT.name, .ptr .float),
       (posName bT.name 0, .ptr .int), (crdName bT.name 0, .ptr .int), (valsName bT.name, .ptr .float),
       (posName cT.name 0, .ptr .int), (crdName cT.name 0, .ptr .int), (valsName cT.name, .ptr .float),
       (valsCapName outT.name, .int), (bkN outT, .ptr .float), (blN outT, .int),
       (layerPointer bT.id 0, .int), (sparseEndName bT.id 0, .int),
       (layerPointer cT.id 0, .int), (sparseEndName cT.id 0, .int),
       (valueFromCrd bT.id 0, .int), (valueFromCrd cT.id 0, .int), (i, .int)] →
      (kernel ofRat formats i outT bT cT).tyEnv x = some t := by
    intro x t hm
    apply hdecl
    rw [kernel_decls]; exact hm
  refine ⟨Or.inr (hd ?_), hd ?_, hd ?_, hd ?_, hd ?_, hd ?_, hd ?_, hd ?_, Or.inr (hd ?_), hd ?_,
    Or.inr (hd ?_), Or.inr (hd ?_), Or.inr (hd ?_), Or.inr (hd ?_), Or.inr (hd ?_), Or.inr (hd ?_),
    Or.inr (hd ?_), Or.inr (hd ?_)⟩ <;> simp

/-- **the kernel of the class lies in the typed stable fragment** -/
theorem kernel_noRetype (ofRat : Rat → F) (formats : Formats) (i : String) (outT bT cT : TensorId)
    (ok : KernelOK formats i outT bT cT) :
    (kernel ofRat formats i outT bT cT).noRetype = true :=
  kernel_noRetypeS ofRat formats i outT bT cT (kernel_tyFacts ofRat formats i outT bT cT ok)

/-- **the initial state agrees with the typing of the kernel** (the format table is the one of the class:
`FmtOK`, a field of `KernelOK`) -/
theorem init_WT (ofRat : Rat → F) (formats : Formats) (i : String) (outT bT cT : TensorId)
    (hf : FmtOK formats outT bT cT)
    {ta : Nat} {atr : TensorRec F} {n : Int}
    {tb : Nat} {btr : TensorRec F} {mb bpb bcb bvb : Nat} {crdB : Nat → Int} {cellsB : Nat → F}
    {tc : Nat} {ctr : TensorRec F} {mc cpb ccb cvb : Nat} {crdC : Nat → Int} {cellsC : Nat → F}
    {σ : State F}
    (init : Init outT bT cT ta atr n tb btr mb bpb bcb bvb crdB cellsB tc ctr mc cpb ccb cvb crdC cellsC σ)
    (hT : TensorsOK σ.heap σ.tensors) :
    WT (kernel ofRat formats i outT bT cT).tyEnv σ := by
  obtain ⟨oa, ob, oc, hf⟩ := hf
  apply wt_of_params [outT.name, bT.name, cT.name]
  · intro p hp
    have : (kernel ofRat formats i outT bT cT).params =
        [outT.name, bT.name, cT.name].map (fun q => (q, Ty.ptr .tensor)) := by
      simp [kernel, hf]
    unfold Func.tyEnv
    rw [this]
    exact lookupTy_params _ _ hp
  · intro p hp
    simp only [List.mem_cons, List.not_mem_nil, or_false] at hp
    rcases hp with rfl | rfl | rfl
    · exact ⟨_, init.avar⟩
    · exact ⟨_, init.b.var⟩
    · exact ⟨_, init.c.var⟩
  · intro x hx
    simp only [List.mem_cons, List.not_mem_nil, or_false, not_or] at hx
    exact init.fresh x hx.1 hx.2.1 hx.2.2
  · exact hT

end TV.Opt.Spdot
