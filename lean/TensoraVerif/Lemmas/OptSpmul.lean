import TensoraVerif.Lemmas.OptCommon
import TensoraVerif.Lemmas.SpmulKernel

/-!
C07 for the element-wise product of two sparse vectors (`Spmul.kernel`): the kernel lies in the typed
stable fragment relative to its own typing (`kernel_noRetype`), and an initial state `Spmul.Init`
whose tensor records are well typed agrees with that typing (`init_WT`).
-/
namespace TV.Opt.Spmul
open TV.IR TV.Gen TV.Graph TV.Merge TV.Spmul TV.Opt
open TV.Sparse1 (isSp isSp_iff outLeaf inLeaf cleanupLines unpackStmts outInit branchBody termBlock
  termBlockLines nameClass nc_plain nc_dim nc_pos nc_crd nc_vals nc_posCap nc_crdCap nc_valsCap nc_end nc_ptr
  nc_val nc_wr)
set_option linter.unusedSectionVars false
variable {F : Type} [FloatOps F]

/-- the names the kernel declares, with their types -/
def declList (i : String) (outT bT cT : TensorId) : List (String × Ty) :=
  [(dimName i, .int),
   (posName outT.name 0, .ptr .int), (crdName outT.name 0, .ptr .int), (valsName outT.name, .ptr .float),
   (posName bT.name 0, .ptr .int), (crdName bT.name 0, .ptr .int), (valsName bT.name, .ptr .float),
   (posName cT.name 0, .ptr .int), (crdName cT.name 0, .ptr .int), (valsName cT.name, .ptr .float),
   (posCapName outT.name 0, .int), (crdCapName outT.name 0, .int), (layerPointer outT.id 0, .int),
   (valsCapName outT.name, .int),
   (layerPointer bT.id 0, .int), (sparseEndName bT.id 0, .int),
   (layerPointer cT.id 0, .int), (sparseEndName cT.id 0, .int),
   (valueFromCrd bT.id 0, .int), (valueFromCrd cT.id 0, .int), (i, .int),
   (writtenName outT.name 0, .bool)]

theorem unpack_eq {formats : Formats} {outT bT cT : TensorId}
    (hfmt : formats.map (·.1) = [outT.name, bT.name, cT.name]) :
    (formats.flatMap fun f => unpackStmts (F := F) f.1) =
      unpackStmts outT.name ++ unpackStmts bT.name ++ unpackStmts cT.name := by
  have : (formats.flatMap fun f => unpackStmts (F := F) f.1) =
      (formats.map (·.1)).flatMap unpackStmts := by
    rw [List.flatMap_map]
  rw [this, hfmt]
  simp

/-- `writePosAllocation` of the output of the class: the `vals` allocation -/
theorem posAlloc_eq {i : String} {outT : TensorId} (ho : isSp i outT = true) :
    (writePosAllocation (F := F) (outLeaf outT)).finalize =
      .block [
        .branch (.bin .ge (plus (.var (layerPointer outT.id 0)) (.intLit 0)) (.var (valsCapName outT.name)))
          (.block [
            .assign (.var (valsCapName outT.name)) (times (.var (valsCapName outT.name)) (.intLit 2)),
            .assign (.var (valsName outT.name))
              (.realloc (.var (valsName outT.name)) .float (.var (valsCapName outT.name)))] none)
          (.block [] none)]
        (some "vals allocation") := by
  obtain ⟨h1, h2⟩ := (isSp_iff i outT).1 ho
  simp [writePosAllocation, outLeaf, denseBelow, h1, h2, SB.finalize, SB.mk', SB.branch, SB.add, Leaf.ptr,
    List.range, List.range.loop]

/-- the declarations of the kernel -/
theorem kernel_decls (ofRat : Rat → F) (cap : Option Int) (formats : Formats) (i : String)
    (outT bT cT : TensorId) (hcl : isClass i outT bT cT = true)
    (hfmt : formats.map (·.1) = [outT.name, bT.name, cT.name]) :
    (kernel ofRat cap formats i outT bT cT).body.decls = declList i outT bT cT := by
  obtain ⟨ho, _, _, _⟩ := (isClass_iff i outT bT cT).1 hcl
  simp only [kernel, kernelStmts, unpack_eq hfmt, loopLines, midStmt, branchBody, posAlloc_eq ho]
  simp [unpackStmts, outInit, cleanupLines, termBlock, termBlockLines, writeSparseInit, writeCrdAssembly,
    writePosAssembly,
    mergeLoopL, mergeBodyL, mergeLoads, mergeMin, mergeIncs, inLeaf, outLeaf, Leaf.ptr, SB.finalize, SB.mk',
    SB.branch, SB.add, SB.empty, Stmt.decls, declsL, declAssignE, increment, declList]

/-- `p = p + (int32_t)(c);` -/
theorem noRetypeS_incrB2i {Γ : String → Option Ty} {x : String} {c : Expr F} (hx : IntOrNone Γ x)
    (hc : NoRetypeE Γ c = true) :
    NoRetypeS Γ (increment (.var x) (.b2i c) : Stmt F) = true := by
  unfold increment
  apply noRetypeS_assignInt hx
  have h1 : (peepE (.b2i c : Expr F)).isFloatZero = false := by
    simp only [peepE]; split
    · rfl
    · split <;> rfl
  have h2 : (peepE (.var x : Expr F)) = .var x := by simp [peepE]
  have h3 : (Expr.var x : Expr F).isInt 0 = false := rfl
  have h4 : (Expr.var x : Expr F).isFloatZero = false := rfl
  simp [plus, NoRetypeE, hc, binOKT, h1, h2, h3, h4]

/-- the body of the kernel lies in the typed fragment of any typing that types every declared variable
with its declared type -/
theorem kernel_noRetypeS {Γ : String → Option Ty} (ofRat : Rat → F) (cap : Option Int) (formats : Formats)
    (i : String) (outT bT cT : TensorId) (hcl : isClass i outT bT cT = true)
    (hfmt : formats.map (·.1) = [outT.name, bT.name, cT.name])
    (hΓ : ∀ d ∈ declList i outT bT cT, Γ d.1 = some d.2) :
    NoRetypeS Γ (kernel ofRat cap formats i outT bT cT).body = true := by
  obtain ⟨ho, _, _, _⟩ := (isClass_iff i outT bT cT).1 hcl
  simp only [declList, List.mem_cons, List.not_mem_nil, or_false, forall_eq_or_imp, forall_eq] at hΓ
  obtain ⟨g1, g2, g3, g4, g5, g6, g7, g8, g9, g10, g11, g12, g13, g14, g15, g16, g17, g18, g19, g20, g21,
    g22⟩ := hΓ
  have hv : valsTyped Γ (mulE bT cT) = true := by simp [valsTyped, mulE, g7, g10]
  have hcell := (toIrWith_typed Γ ofRat (mulE bT cT) hv).2.2
  have hi1 := noRetypeS_incr (F := F) (Or.inr g13 : IntOrNone Γ (layerPointer outT.id 0))
  have hi2 := noRetypeS_incrB2i (Γ := Γ) (x := layerPointer bT.id 0)
    (c := (.bin .eq (.var (valueFromCrd bT.id 0)) (.var i) : Expr F)) (Or.inr g15) (by simp [NoRetypeE, binOKT])
  have hi3 := noRetypeS_incrB2i (Γ := Γ) (x := layerPointer cT.id 0)
    (c := (.bin .eq (.var (valueFromCrd cT.id 0)) (.var i) : Expr F)) (Or.inr g17) (by simp [NoRetypeE, binOKT])
  simp only [kernel, kernelStmts, unpack_eq hfmt, loopLines, midStmt, branchBody, posAlloc_eq ho, termBlock,
    termBlockLines]
  cases cap <;>
  simp [hcell, hi1, hi2, hi3, NoRetypeS, NoRetypeL, NoRetypeE, binOKT, peepE, Expr.isInt, Expr.isFloatZero,
    Expr.isFloatOne, tyOf, assignOK, varRhsOK, rhsKindOK, declOK, NumKind.ofTy, NumKind.ptrOf,
    Expr.isLevelE, g1, g2, g3, g4, g5, g6, g7, g8, g9, g10, g11, g12, g13, g14, g15, g16, g17, g18, g19, g20,
    g21, g22,
    unpackStmts, outInit, cleanupLines, writeSparseInit, writeCrdAssembly, writePosAssembly, bothCond,
    mergeLoopL, mergeBodyL, mergeLoads, mergeMin, mergeIncs, mergeCond, andJoin, minJoin, joinWith,
    inLeaf, outLeaf, Leaf.ptr, Leaf.prevPtr, Leaf.index, prevLayerPointer, SB.finalize, SB.mk',
    SB.branch, SB.add, SB.empty, declAssignE, plus, times, defaultArraySize]

/-! ### the typing of the kernel -/

/-- the classifier: by the class of the name (`Sparse1.nameClass`) — `<t>_0_pos`, `<t>_0_crd` are `int32_t*`,
`<t>_vals` is `double*`, `written_<t>_0` is `bool`, the user-chosen names are `taco_tensor_t*` except the
index `i`, everything else is `int` -/
def clsTy (i : String) (x : String) : Ty :=
  if nameClass x = 0 then (if x = i then .int else .ptr .tensor)
  else if nameClass x = 2 then .ptr .int
  else if nameClass x = 3 then .ptr .int
  else if nameClass x = 4 then .ptr .float
  else if nameClass x = 11 then .bool
  else .int

/-- every parameter and declaration of the kernel has the type the classifier gives to its name -/
theorem kernel_decls_cls (ofRat : Rat → F) (cap : Option Int) (formats : Formats) (i : String)
    (outT bT cT : TensorId) (hcl : isClass i outT bT cT = true) (ok : KernelOK formats i outT bT cT) :
    ∀ d ∈ (kernel ofRat cap formats i outT bT cT).params ++ (kernel ofRat cap formats i outT bT cT).body.decls,
      clsTy i d.1 = d.2 := by
  have N := ok.names
  intro d hd
  rcases List.mem_append.1 hd with hd | hd
  · simp only [kernel, List.mem_map] at hd
    obtain ⟨f, hf, rfl⟩ := hd
    have hm : f.1 ∈ formats.map (·.1) := List.mem_map.2 ⟨f, hf, rfl⟩
    rw [ok.fmt] at hm
    simp only [List.mem_cons, List.not_mem_nil, or_false] at hm
    rcases hm with h | h | h <;> simp only [h, clsTy]
    · simp [N.a0, N.ia.symm]
    · simp [N.b0, N.ib.symm]
    · simp [N.c0, N.ic.symm]
  · rw [kernel_decls ofRat cap formats i outT bT cT hcl ok.fmt] at hd
    simp only [declList, List.mem_cons, List.not_mem_nil, or_false] at hd
    rcases hd with h | h | h | h | h | h | h | h | h | h | h | h | h | h | h | h | h | h | h | h | h | h <;>
      subst h <;>
      simp [clsTy, nc_dim, nc_pos, nc_crd, nc_vals, nc_posCap, nc_crdCap, nc_valsCap, nc_end, nc_ptr, nc_val,
        nc_wr, N.i0]

/-- the typing of the kernel types every declared variable with its declared type -/
theorem kernel_tyFacts (ofRat : Rat → F) (cap : Option Int) (formats : Formats) (i : String)
    (outT bT cT : TensorId) (hcl : isClass i outT bT cT = true) (ok : KernelOK formats i outT bT cT) :
    ∀ d ∈ declList i outT bT cT, (kernel ofRat cap formats i outT bT cT).tyEnv d.1 = some d.2 := by
  have hc := kernel_decls_cls ofRat cap formats i outT bT cT hcl ok
  intro d hd
  rw [← kernel_decls ofRat cap formats i outT bT cT hcl ok.fmt] at hd
  have h1 : d.1 ∈ ((kernel ofRat cap formats i outT bT cT).params ++
      (kernel ofRat cap formats i outT bT cT).body.decls).map (·.1) :=
    List.mem_map.2 ⟨d, List.mem_append_right _ hd, rfl⟩
  have h2 := lookupTy_of_mem hc h1
  rw [hc d (List.mem_append_right _ hd)] at h2
  exact h2

/-- **the kernel of the class lies in the typed stable fragment** -/
theorem kernel_noRetype (ofRat : Rat → F) (cap : Option Int) (formats : Formats) (i : String)
    (outT bT cT : TensorId) (hcl : isClass i outT bT cT = true) (ok : KernelOK formats i outT bT cT) :
    (kernel ofRat cap formats i outT bT cT).noRetype = true :=
  kernel_noRetypeS ofRat cap formats i outT bT cT hcl ok.fmt
    (kernel_tyFacts ofRat cap formats i outT bT cT hcl ok)

/-- **the initial state agrees with the typing of the kernel** -/
theorem init_WT (ofRat : Rat → F) (cap : Option Int) (formats : Formats) (i : String) (outT bT cT : TensorId)
    (ok : KernelOK formats i outT bT cT)
    {ta : Nat} {atr : TensorRec F} {n : Int}
    {tb : Nat} {btr : TensorRec F} {mb bpb bcb bvb : Nat} {crdB : Nat → Int} {cellsB : Nat → F}
    {tc : Nat} {ctr : TensorRec F} {mc cpb ccb cvb : Nat} {crdC : Nat → Int} {cellsC : Nat → F}
    {σ : State F}
    (hinit : Init outT bT cT ta atr n tb btr mb bpb bcb bvb crdB cellsB tc ctr mc cpb ccb cvb crdC cellsC σ)
    (hT : TensorsOK σ.heap σ.tensors) :
    WT (kernel ofRat cap formats i outT bT cT).tyEnv σ := by
  apply wt_of_params (formats.map (·.1))
  · intro p hp
    have : (kernel ofRat cap formats i outT bT cT).params =
        (formats.map (·.1)).map (fun q => (q, Ty.ptr .tensor)) := by
      simp [kernel]
    unfold Func.tyEnv
    rw [this]
    exact lookupTy_params _ _ hp
  · intro p hp
    rw [ok.fmt] at hp
    simp only [List.mem_cons, List.not_mem_nil, or_false] at hp
    rcases hp with rfl | rfl | rfl
    · exact ⟨_, hinit.avar⟩
    · exact ⟨_, hinit.b.var⟩
    · exact ⟨_, hinit.c.var⟩
  · intro x hx
    rw [ok.fmt] at hx
    simp only [List.mem_cons, List.not_mem_nil, or_false, not_or] at hx
    exact hinit.fresh x hx.1 hx.2.1 hx.2.2
  · exact hT

end TV.Opt.Spmul
