import TensoraVerif.Model.Ownership

/-!
Helpers for C13 (`Model/Ownership.lean`): the invariant `Inv` strengthened by "nothing is lost"
(`Inv'`), and its preservation by every operation.

Plan: every operation is either the identity or `collect` applied to a state obtained from the old
one by (optionally) creating a fresh object and then rebinding names. The name-independent part of
the invariant (`Pre`) survives object creation and arbitrary rebinding; `collect` turns `Pre` into
the full invariant.
-/
namespace TV.Own

/-! ### list facts -/

theorem filter_flatMap_sublist {α β} (p : α → Bool) (f : α → List β) (l : List α) :
    ((l.filter p).flatMap f).Sublist (l.flatMap f) := by
  induction l with
  | nil => simp
  | cons x xs ih =>
    rw [List.filter_cons]
    split
    · simp only [List.flatMap_cons]
      exact List.Sublist.append (List.Sublist.refl _) ih
    · simp only [List.flatMap_cons]
      exact List.Sublist.trans ih (List.sublist_append_right _ _)

/-- in a list of objects whose arrays are pairwise distinct, an array determines its owner -/
theorem owner_unique {l : List (Nat × List Nat)} (h : (l.flatMap (·.2)).Nodup)
    {o o' : Nat × List Nat} (ho : o ∈ l) (ho' : o' ∈ l) {a : Nat} (ha : a ∈ o.2) (ha' : a ∈ o'.2) :
    o = o' := by
  induction l with
  | nil => cases ho
  | cons x xs ih =>
    simp only [List.flatMap_cons, List.nodup_append] at h
    obtain ⟨_, hxs, hd⟩ := h
    rcases List.mem_cons.1 ho with h1 | h1
    · rcases List.mem_cons.1 ho' with h2 | h2
      · rw [h1, h2]
      · subst h1
        exact absurd rfl (hd a ha a (List.mem_flatMap.2 ⟨o', h2, ha'⟩))
    · rcases List.mem_cons.1 ho' with h2 | h2
      · subst h2
        exact absurd rfl (hd a ha' a (List.mem_flatMap.2 ⟨o, h1, ha⟩))
      · exact ih hxs h1 h2

theorem nodup_range_shift (n k : Nat) : ((List.range n).map (· + k)).Nodup := by
  rw [List.Nodup, List.pairwise_map]
  exact List.Pairwise.imp (fun h => by omega) (List.nodup_range (n := n))

theorem mem_range_shift {n k a : Nat} : a ∈ (List.range n).map (· + k) ↔ k ≤ a ∧ a < k + n := by
  simp only [List.mem_map, List.mem_range]
  constructor
  · rintro ⟨i, hi, rfl⟩; omega
  · intro h; exact ⟨a - k, by omega, by omega⟩

theorem count_eq_one_of_nodup {l : List Nat} (h : l.Nodup) {a : Nat} (ha : a ∈ l) : l.count a = 1 := by
  have h1 := List.nodup_iff_count.1 h a
  have h2 := List.count_pos_iff.2 ha
  omega

/-! ### the strengthened invariant -/

/-- nothing is lost: every array ever allocated is freed or owned by a live object -/
def Complete (s : St) : Prop := ∀ a, a < s.nextArr → a ∈ s.freed ∨ ∃ o ∈ s.objs, a ∈ o.2

/-- `Inv` plus "nothing is lost" -/
structure Inv' (s : St) : Prop extends Inv s where
  complete : Complete s

/-- the part of `Inv'` that does not mention names -/
structure Pre (s : St) : Prop where
  freed_nodup : s.freed.Nodup
  live_not_freed : ∀ o ∈ s.objs, ∀ a ∈ o.2, a ∉ s.freed
  arrays_bounded : (∀ o ∈ s.objs, ∀ a ∈ o.2, a < s.nextArr) ∧ (∀ a ∈ s.freed, a < s.nextArr)
  arrays_disjoint : (s.objs.flatMap (·.2)).Nodup
  ids_bounded : (∀ o ∈ s.objs, o.1 < s.nextObj) ∧ (s.objs.map (·.1)).Nodup

theorem Inv.pre {s : St} (h : Inv s) : Pre s :=
  ⟨h.freed_nodup, h.live_not_freed, h.arrays_bounded, h.arrays_disjoint, h.ids_bounded⟩

theorem Pre.names {s : St} (h : Pre s) (ns : List (Nat × Nat)) : Pre { s with names := ns } :=
  ⟨h.freed_nodup, h.live_not_freed, h.arrays_bounded, h.arrays_disjoint, h.ids_bounded⟩

theorem Complete.names {s : St} (h : Complete s) (ns : List (Nat × Nat)) :
    Complete { s with names := ns } := h

/-! ### object creation -/

theorem Pre.newObj {s : St} (h : Pre s) (n : Nat) : Pre (newObj s n).1 := by
  refine ⟨h.freed_nodup, ?_, ⟨?_, ?_⟩, ?_, ⟨?_, ?_⟩⟩
  · intro o ho a ha hf
    rcases List.mem_cons.1 ho with rfl | ho
    · have := h.arrays_bounded.2 a hf
      have := (mem_range_shift.1 ha).1
      omega
    · exact h.live_not_freed o ho a ha hf
  · intro o ho a ha
    show a < s.nextArr + n
    rcases List.mem_cons.1 ho with rfl | ho
    · exact (mem_range_shift.1 ha).2
    · have := h.arrays_bounded.1 o ho a ha; omega
  · intro a ha
    show a < s.nextArr + n
    have := h.arrays_bounded.2 a ha; omega
  · show (((List.range n).map (· + s.nextArr)) ++ s.objs.flatMap (·.2)).Nodup
    refine List.nodup_append.2 ⟨nodup_range_shift _ _, h.arrays_disjoint, ?_⟩
    intro a ha b hb hab
    subst hab
    obtain ⟨o, ho, hao⟩ := List.mem_flatMap.1 hb
    have := h.arrays_bounded.1 o ho a hao
    have := (mem_range_shift.1 ha).1
    omega
  · intro o ho
    show o.1 < s.nextObj + 1
    rcases List.mem_cons.1 ho with rfl | ho
    · exact Nat.lt_succ_self _
    · have := h.ids_bounded.1 o ho; omega
  · show (s.nextObj :: s.objs.map (·.1)).Nodup
    refine List.nodup_cons.2 ⟨?_, h.ids_bounded.2⟩
    intro hm
    obtain ⟨o, ho, hoe⟩ := List.mem_map.1 hm
    have := h.ids_bounded.1 o ho
    omega

theorem Complete.newObj {s : St} (h : Complete s) (n : Nat) : Complete (newObj s n).1 := by
  intro a ha
  have ha : a < s.nextArr + n := ha
  by_cases hlt : a < s.nextArr
  · rcases h a hlt with hf | ⟨o, ho, hao⟩
    · exact Or.inl hf
    · exact Or.inr ⟨o, List.mem_cons_of_mem _ ho, hao⟩
  · exact Or.inr ⟨_, List.mem_cons_self, mem_range_shift.2 ⟨by omega, ha⟩⟩

/-! ### reference counting -/

theorem collect_names (s : St) : (collect s).1.names = s.names := rfl
theorem collect_nextArr (s : St) : (collect s).1.nextArr = s.nextArr := rfl
theorem collect_nextObj (s : St) : (collect s).1.nextObj = s.nextObj := rfl
theorem collect_freed (s : St) : (collect s).1.freed = s.freed ++ (collect s).2 := rfl

theorem mem_collect_objs {s : St} {o : Nat × List Nat} :
    o ∈ (collect s).1.objs ↔ o ∈ s.objs ∧ ∃ n ∈ s.names, n.2 = o.1 := by
  simp [collect, List.mem_filter]

theorem mem_collect_gone {s : St} {a : Nat} :
    a ∈ (collect s).2 ↔ ∃ o ∈ s.objs, (¬ ∃ n ∈ s.names, n.2 = o.1) ∧ a ∈ o.2 := by
  simp only [collect, List.mem_flatMap, List.mem_filter]
  constructor
  · rintro ⟨o, ⟨ho, hd⟩, ha⟩
    refine ⟨o, ho, ?_, ha⟩
    rintro ⟨n, hn, hne⟩
    simp at hd
    exact hd n.1 n.2 hn hne
  · rintro ⟨o, ho, hd, ha⟩
    refine ⟨o, ⟨ho, ?_⟩, ha⟩
    simp
    intro x y hxy hy
    exact hd ⟨(x, y), hxy, hy⟩

theorem Pre.collect {s : St} (h : Pre s) : Inv (collect s).1 := by
  refine ⟨?_, ?_, ?_, ⟨?_, ?_⟩, ?_, ⟨?_, ?_⟩⟩
  · rw [collect_freed]
    refine List.nodup_append.2 ⟨h.freed_nodup, ?_, ?_⟩
    · exact List.Nodup.sublist (filter_flatMap_sublist _ _ _) h.arrays_disjoint
    · intro a ha b hb hab
      subst hab
      obtain ⟨o, ho, _, hao⟩ := mem_collect_gone.1 hb
      exact h.live_not_freed o ho a hao ha
  · intro o ho a ha
    rw [collect_freed]
    obtain ⟨ho, hn⟩ := mem_collect_objs.1 ho
    intro hf
    rcases List.mem_append.1 hf with hf | hf
    · exact h.live_not_freed o ho a ha hf
    · obtain ⟨o', ho', hd, hao'⟩ := mem_collect_gone.1 hf
      have := owner_unique h.arrays_disjoint ho ho' ha hao'
      subst this
      exact hd hn
  · intro o ho
    exact (mem_collect_objs.1 ho).2
  · intro o ho a ha
    exact h.arrays_bounded.1 o (mem_collect_objs.1 ho).1 a ha
  · intro a ha
    rw [collect_freed] at ha
    rcases List.mem_append.1 ha with ha | ha
    · exact h.arrays_bounded.2 a ha
    · obtain ⟨o, ho, _, hao⟩ := mem_collect_gone.1 ha
      exact h.arrays_bounded.1 o ho a hao
  · exact List.Nodup.sublist (filter_flatMap_sublist _ _ _) h.arrays_disjoint
  · intro o ho
    exact h.ids_bounded.1 o (mem_collect_objs.1 ho).1
  · exact List.Nodup.sublist (List.Sublist.map _ List.filter_sublist) h.ids_bounded.2

theorem Complete.collect {s : St} (h : Complete s) : Complete (collect s).1 := by
  intro a ha
  rw [collect_freed]
  rcases h a ha with hf | ⟨o, ho, hao⟩
  · exact Or.inl (List.mem_append_left _ hf)
  · by_cases hn : ∃ n ∈ s.names, n.2 = o.1
    · exact Or.inr ⟨o, mem_collect_objs.2 ⟨ho, hn⟩, hao⟩
    · exact Or.inl (List.mem_append_right _ (mem_collect_gone.2 ⟨o, ho, hn, hao⟩))

/-! ### the shape of a step -/

/-- every operation is the identity, or reference counting after rebinding names, possibly after
creating one fresh object -/
theorem step_cases (s : St) (op : Op) :
    step s op = (s, []) ∨
    (∃ ns, step s op = collect { s with names := ns }) ∨
    (∃ n ns, step s op = collect { (newObj s n).1 with names := ns }) := by
  cases op with
  | eval x k => exact Or.inr (Or.inr ⟨k.arrays, _, rfl⟩)
  | alias y x =>
    simp only [step]
    split
    · exact Or.inr (Or.inl ⟨_, rfl⟩)
    · exact Or.inl rfl
  | read x => exact Or.inl rfl
  | pickle y x =>
    simp only [step]
    split
    · exact Or.inr (Or.inr ⟨0, _, rfl⟩)
    · exact Or.inl rfl
  | feed y x k =>
    simp only [step]
    split
    · exact Or.inr (Or.inr ⟨k.arrays, _, rfl⟩)
    · exact Or.inl rfl
  | del x => exact Or.inr (Or.inl ⟨_, rfl⟩)
  | gc => exact Or.inr (Or.inl ⟨s.names, rfl⟩)

theorem Inv'.step {s : St} (h : Inv' s) (op : Op) : Inv' (step s op).1 := by
  rcases step_cases s op with he | ⟨ns, he⟩ | ⟨n, ns, he⟩ <;> rw [he]
  · exact h
  · exact ⟨(h.toInv.pre.names ns).collect, (h.complete.names ns).collect⟩
  · exact ⟨((h.toInv.pre.newObj n).names ns).collect, ((h.complete.newObj n).names ns).collect⟩

theorem Inv'.init : Inv' St.init where
  freed_nodup := List.nodup_nil
  live_not_freed := by intro o ho; cases ho
  live_named := by intro o ho; cases ho
  arrays_bounded := ⟨(by intro o ho; cases ho), (by intro a ha; cases ha)⟩
  arrays_disjoint := List.nodup_nil
  ids_bounded := ⟨(by intro o ho; cases ho), List.nodup_nil⟩
  complete := by intro a ha; cases ha

theorem run_cons (s : St) (op : Op) (ops : List Op) : run s (op :: ops) = run (step s op).1 ops := rfl

theorem Inv'.run {s : St} (h : Inv' s) (ops : List Op) : Inv' (run s ops) := by
  induction ops generalizing s with
  | nil => exact h
  | cons op ops ih => rw [run_cons]; exact ih (h.step op)

/-- the objects of the old state survive into the state `collect` is applied to -/
theorem step_objs_mono (s : St) (op : Op) :
    step s op = (s, []) ∨ ∃ s', step s op = collect s' ∧ (∀ o ∈ s.objs, o ∈ s'.objs) := by
  rcases step_cases s op with he | ⟨ns, he⟩ | ⟨n, ns, he⟩
  · exact Or.inl he
  · exact Or.inr ⟨_, he, fun o ho => ho⟩
  · exact Or.inr ⟨_, he, fun o ho => List.mem_cons_of_mem _ ho⟩

end TV.Own
