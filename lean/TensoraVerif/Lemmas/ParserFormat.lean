/-
C12 (format language): `parseFormat (Format.deparse f) = f` for every well-formed format, and every
format accepted by `parseFormat` is well formed (ordering is a permutation of `range (len modes)`).
-/
import TensoraVerif.Model.Parser

namespace TV.Parse

/-! ### decimal digits -/

theorem isDigit_eq_charIsDigit (c : Char) : isDigit c = c.isDigit := by
  simp [isDigit, Char.isDigit, Char.le_def, UInt32.le_iff_toNat_le]

theorem digitsToNat_eq_ofDigitChars (ds : List Char) : digitsToNat ds = Nat.ofDigitChars 10 ds 0 := by
  unfold digitsToNat Nat.ofDigitChars
  congr 1
  funext n c
  simp [Nat.mul_comm]

theorem natToString_toList (n : Nat) : (natToString n).toList = Nat.toDigits 10 n := by
  simp [natToString]

theorem digitsToNat_natToString (n : Nat) : digitsToNat (natToString n).toList = n := by
  rw [natToString_toList, digitsToNat_eq_ofDigitChars, Nat.ofDigitChars_ten_toDigits]

theorem isDigit_of_mem_natToString (n : Nat) (c : Char) (h : c ∈ (natToString n).toList) :
    isDigit c = true := by
  rw [natToString_toList] at h
  rw [isDigit_eq_charIsDigit]
  exact Nat.isDigit_of_mem_toDigits (by decide) (by decide) h

theorem natToString_toList_ne_nil (n : Nat) : (natToString n).toList ≠ [] := by
  rw [natToString_toList]; exact Nat.toDigits_ne_nil

/-! ### mode characters -/

theorem modeOfChar_char (m : FMode) : modeOfChar m.char = some m := by
  cases m <;> rfl

theorem isDigit_char (m : FMode) : isDigit m.char = false := by
  cases m <;> decide

theorem modeOfChar_of_isDigit (c : Char) (h : isDigit c = true) : modeOfChar c = none := by
  unfold modeOfChar
  split
  · exact absurd h (by decide)
  · exact absurd h (by decide)
  · rfl

/-! ### `validPerm` -/

theorem validPerm_range (n : Nat) : validPerm (List.range n) n = true := by
  simp [validPerm]

/-! ### natural order: only mode characters -/

theorem repMode_map_char (ms : List FMode) : repMode (ms.map FMode.char) = (ms, []) := by
  induction ms with
  | nil => rfl
  | cons m ms ih =>
    simp only [repMode, Prod.mk.injEq] at ih ⊢
    simp [modeOfChar_char, ih.1, ih.2]

theorem takeWhile_isDigit_map_char (ms : List FMode) :
    (ms.map FMode.char).takeWhile isDigit = [] := by
  cases ms with
  | nil => rfl
  | cons m ms => simp [isDigit_char]

theorem repModeInt_map_char (fuel : Nat) (ms : List FMode) :
    repModeInt fuel (ms.map FMode.char) = ([], ms.map FMode.char) := by
  cases fuel with
  | zero => rfl
  | succ fuel =>
    cases ms with
    | nil => rfl
    | cons m ms =>
      simp [repModeInt, modeOfChar_char, takeWhile_isDigit_map_char]

theorem parseFormatChars_map_char (ms : List FMode) :
    parseFormatChars (ms.map FMode.char) = .ok ⟨ms, List.range ms.length⟩ := by
  unfold parseFormatChars
  simp [repMode_map_char, repModeInt_map_char, validPerm]

/-! ### explicit ordering: `mode integer` repetitions -/

/-- the characters `Format.deparse` prints for an explicit ordering -/
def encPairs (ps : List (FMode × Nat)) : List Char :=
  ps.flatMap fun (m, o) => m.char :: (natToString o).toList

theorem encPairs_nil : encPairs [] = [] := rfl

theorem encPairs_cons (m : FMode) (o : Nat) (ps : List (FMode × Nat)) :
    encPairs ((m, o) :: ps) = m.char :: ((natToString o).toList ++ encPairs ps) := by
  simp [encPairs]

theorem takeWhile_isDigit_encPairs (ps : List (FMode × Nat)) :
    (encPairs ps).takeWhile isDigit = [] := by
  cases ps with
  | nil => rfl
  | cons p ps =>
    obtain ⟨m, o⟩ := p
    simp [encPairs_cons, isDigit_char]

theorem dropWhile_isDigit_encPairs (ps : List (FMode × Nat)) :
    (encPairs ps).dropWhile isDigit = encPairs ps := by
  cases ps with
  | nil => rfl
  | cons p ps =>
    obtain ⟨m, o⟩ := p
    simp [encPairs_cons, isDigit_char]

theorem length_le_length_encPairs (ps : List (FMode × Nat)) : ps.length ≤ (encPairs ps).length := by
  induction ps with
  | nil => simp [encPairs_nil]
  | cons p ps ih =>
    obtain ⟨m, o⟩ := p
    simp only [encPairs_cons, List.length_cons, List.length_append]
    omega

theorem repModeInt_encPairs (fuel : Nat) (ps : List (FMode × Nat)) (h : ps.length < fuel) :
    repModeInt fuel (encPairs ps) = (ps, []) := by
  induction ps generalizing fuel with
  | nil =>
    cases fuel with
    | zero => omega
    | succ fuel => rfl
  | cons p ps ih =>
    obtain ⟨m, o⟩ := p
    cases fuel with
    | zero => omega
    | succ fuel =>
      have hd := isDigit_of_mem_natToString o
      have hne := natToString_toList_ne_nil o
      have htake : ((natToString o).toList ++ encPairs ps).takeWhile isDigit = (natToString o).toList := by
        rw [List.takeWhile_append_of_pos hd, takeWhile_isDigit_encPairs, List.append_nil]
      have hdrop : ((natToString o).toList ++ encPairs ps).dropWhile isDigit = encPairs ps := by
        rw [List.dropWhile_append_of_pos hd, dropWhile_isDigit_encPairs]
      rw [encPairs_cons]
      simp only [repModeInt, modeOfChar_char, htake, hdrop]
      rw [ih fuel (by simpa using h)]
      simp [hne, digitsToNat_natToString]

theorem repMode_encPairs_cons_rest_ne_nil (p : FMode × Nat) (ps : List (FMode × Nat)) :
    (repMode (encPairs (p :: ps))).2 ≠ [] := by
  obtain ⟨m, o⟩ := p
  rw [encPairs_cons]
  have hne := natToString_toList_ne_nil o
  have hd := isDigit_of_mem_natToString o
  cases hds : (natToString o).toList with
  | nil => exact absurd hds hne
  | cons d ds =>
    have hdd : isDigit d = true := hd d (by rw [hds]; exact List.mem_cons_self)
    simp [repMode, modeOfChar_char, modeOfChar_of_isDigit d hdd]

theorem parseFormatChars_encPairs (p : FMode × Nat) (ps : List (FMode × Nat))
    (hp : validPerm ((p :: ps).map (·.2)) ((p :: ps).map (·.1)).length = true) :
    parseFormatChars (encPairs (p :: ps)) = .ok ⟨(p :: ps).map (·.1), (p :: ps).map (·.2)⟩ := by
  have h2 := repModeInt_encPairs ((encPairs (p :: ps)).length + 1) (p :: ps)
    (by have := length_le_length_encPairs (p :: ps); omega)
  have h1 := repMode_encPairs_cons_rest_ne_nil p ps
  unfold parseFormatChars
  rw [h2]
  cases hr : repMode (encPairs (p :: ps)) with
  | mk ms r1 =>
    rw [hr] at h1
    have hpos : 0 < r1.length := List.length_pos_iff.mpr h1
    simp only [hp]
    simp [hpos]

/-! ### targets -/

theorem format_roundtrip_lem (f : Format) (hl : f.ordering.length = f.modes.length)
    (hp : validPerm f.ordering f.modes.length = true) : parseFormat f.deparse = .ok f := by
  obtain ⟨modes, ordering⟩ := f
  simp only at hl hp
  unfold parseFormat Format.deparse
  simp only
  split
  · rename_i hnat
    rw [String.toList_ofList, parseFormatChars_map_char, hnat]
  · rename_i hnat
    rw [String.toList_ofList]
    have hfst : (modes.zip ordering).map (·.1) = modes := List.map_fst_zip (by omega)
    have hsnd : (modes.zip ordering).map (·.2) = ordering := List.map_snd_zip (by omega)
    cases hz : modes.zip ordering with
    | nil =>
      rw [hz] at hfst hsnd
      subst hfst hsnd
      exact absurd rfl hnat
    | cons p ps =>
      have := parseFormatChars_encPairs p ps (by rw [← hz, hfst, hsnd]; exact hp)
      rw [← hz, hfst, hsnd] at this
      rw [← hz]
      exact this

theorem parseFormat_ok_perm_lem (s : String) (f : Format) (h : parseFormat s = .ok f) :
    f.ordering.length = f.modes.length ∧ validPerm f.ordering f.modes.length = true := by
  unfold parseFormat parseFormatChars at h
  simp only at h
  split at h
  · cases h
  · rename_i hv
    split at h
    · split at h
      · cases h
        simp only [List.length_map, true_and]
        simpa using hv
      · cases h
    · split at h
      · cases h
        simp [validPerm_range]
      · cases h

/-! ### examples -/

example : parseFormat "d1s0" = .ok ⟨[.dense, .compressed], [1, 0]⟩ := by rfl
example : parseFormat "ds" = .ok ⟨[.dense, .compressed], [0, 1]⟩ := by rfl
example : parseFormat "" = .ok ⟨[], []⟩ := by rfl
example : parseFormat "d1s1" = .error .invalidOrdering := by rfl
example : parseFormat "dx" = .error .syntax := by rfl

end TV.Parse
