import TensoraVerif.Lemmas.ParserRoundTrip

/-!
The textbook grammar of tensor expressions as an inductive relation on token lists, independent of the
parser, and soundness of the parser with respect to it (C12: precedence and associativity).

    F ::= name ( name,* ) | int | float | ( E )
    T ::= T * F | F                (left associative)
    E ::= E + T | E - T | T        (left associative, `*` binds tighter)
-/
namespace TV.Parse

mutual
/-- factor -/
inductive DerivesF : List Tok → PExpr → Prop
  | int (s : String) : DerivesF [.int s] (.int s)
  | flt (s : String) : DerivesF [.flt s] (.flt s)
  | tensor (n : String) (idx : List String) : DerivesF (tensorToks n idx) (.tensor n idx)
  | paren {ts : List Tok} {e : PExpr} : DerivesE ts e → DerivesF (.lpar :: ts ++ [.rpar]) e
/-- term: a left-associative product of factors -/
inductive DerivesT : List Tok → PExpr → Prop
  | factor {ts : List Tok} {e : PExpr} : DerivesF ts e → DerivesT ts e
  | mul {ts₁ ts₂ : List Tok} {l r : PExpr} :
      DerivesT ts₁ l → DerivesF ts₂ r → DerivesT (ts₁ ++ .star :: ts₂) (.mul l r)
/-- expression: a left-associative sum/difference of terms -/
inductive DerivesE : List Tok → PExpr → Prop
  | term {ts : List Tok} {e : PExpr} : DerivesT ts e → DerivesE ts e
  | add {ts₁ ts₂ : List Tok} {l r : PExpr} :
      DerivesE ts₁ l → DerivesT ts₂ r → DerivesE (ts₁ ++ .plus :: ts₂) (.add l r)
  | sub {ts₁ ts₂ : List Tok} {l r : PExpr} :
      DerivesE ts₁ l → DerivesT ts₂ r → DerivesE (ts₁ ++ .minus :: ts₂) (.sub l r)
end

/-! ### what `parseIndexes` accepts -/

theorem parseIndexes_more_sound (acc : List String) (ts : List Tok) (idx : List String) (rest : List Tok)
    (h : parseIndexes.more acc ts = some (idx, rest)) :
    ∃ tl, idx = acc ++ tl ∧ ts = (tl.flatMap fun j => [Tok.comma, .name j]) ++ .rpar :: rest := by
  fun_induction parseIndexes.more acc ts with
  | case1 acc m r ih =>
    obtain ⟨tl, h1, h2⟩ := ih h
    exact ⟨m :: tl, by simp [h1], by simp [h2]⟩
  | case2 acc r =>
    simp at h
    exact ⟨[], by simp [h.1], by simp [h.2]⟩
  | case3 => simp at h

theorem parseIndexes_sound (ts : List Tok) (idx : List String) (rest : List Tok)
    (h : parseIndexes ts = some (idx, rest)) : ts = idxToks idx ++ .rpar :: rest := by
  unfold parseIndexes at h
  split at h
  · simp at h; simp [h.1, h.2, idxToks]
  · obtain ⟨tl, h1, h2⟩ := parseIndexes_more_sound _ _ _ _ h
    simp [h1, h2, idxToks]
  · cases h

/-! ### soundness of the five parser functions, by induction on the fuel -/

/-- the statement for one fuel value -/
structure SoundAt (fuel : Nat) : Prop where
  factor : ∀ ts e rest, parseFactor fuel ts = some (e, rest) → ∃ used, ts = used ++ rest ∧ DerivesF used e
  term : ∀ ts e rest, parseTerm fuel ts = some (e, rest) → ∃ used, ts = used ++ rest ∧ DerivesT used e
  termRest : ∀ acc ts e rest, parseTermRest fuel acc ts = some (e, rest) →
    ∀ pre, DerivesT pre acc → ∃ used, ts = used ++ rest ∧ DerivesT (pre ++ used) e
  expr : ∀ ts e rest, parseExpr fuel ts = some (e, rest) → ∃ used, ts = used ++ rest ∧ DerivesE used e
  exprRest : ∀ acc ts e rest, parseExprRest fuel acc ts = some (e, rest) →
    ∀ pre, DerivesE pre acc → ∃ used, ts = used ++ rest ∧ DerivesE (pre ++ used) e

theorem soundAt_zero : SoundAt 0 := by
  constructor <;> intros <;> simp_all [parseFactor, parseTerm, parseTermRest, parseExpr, parseExprRest]

theorem soundAt_succ (fuel : Nat) (ih : SoundAt fuel) : SoundAt (fuel + 1) := by
  constructor
  · -- factor
    intro ts e rest h
    unfold parseFactor at h
    split at h
    · rename_i n r
      cases hp : parseIndexes r with
      | none => simp [hp] at h
      | some p =>
        obtain ⟨idx, r'⟩ := p
        simp [hp] at h
        refine ⟨tensorToks n idx, ?_, h.1 ▸ DerivesF.tensor n idx⟩
        rw [parseIndexes_sound _ _ _ hp, tensorToks_eq, h.2]; simp
    · simp at h; exact ⟨[.flt _], by simp [h.2], h.1 ▸ DerivesF.flt _⟩
    · simp at h; exact ⟨[.int _], by simp [h.2], h.1 ▸ DerivesF.int _⟩
    · rename_i r
      split at h
      · rename_i e' r' he
        simp at h
        obtain ⟨used, h1, h2⟩ := ih.expr _ _ _ he
        exact ⟨.lpar :: used ++ [.rpar], by simp [h1, h.2], h.1 ▸ DerivesF.paren h2⟩
      · cases h
    · cases h
  · -- term
    intro ts e rest h
    unfold parseTerm at h
    split at h
    · cases h
    · rename_i f r hf
      obtain ⟨u1, h1, d1⟩ := ih.factor _ _ _ hf
      obtain ⟨u2, h2, d2⟩ := ih.termRest _ _ _ _ h u1 (.factor d1)
      exact ⟨u1 ++ u2, by simp [h1, h2], d2⟩
  · -- termRest
    intro acc ts e rest h pre hpre
    unfold parseTermRest at h
    split at h
    · rename_i r
      split at h
      · rename_i f r' hf
        obtain ⟨u1, h1, d1⟩ := ih.factor _ _ _ hf
        obtain ⟨u2, h2, d2⟩ := ih.termRest _ _ _ _ h (pre ++ .star :: u1) (.mul hpre d1)
        exact ⟨.star :: u1 ++ u2, by simp [h1, h2], by simpa using d2⟩
      · simp at h; exact ⟨[], by simp [h.2], by simpa [h.1] using hpre⟩
    · simp at h; exact ⟨[], by simp [h.2], by simpa [h.1] using hpre⟩
  · -- expr
    intro ts e rest h
    unfold parseExpr at h
    split at h
    · cases h
    · rename_i t r ht
      obtain ⟨u1, h1, d1⟩ := ih.term _ _ _ ht
      obtain ⟨u2, h2, d2⟩ := ih.exprRest _ _ _ _ h u1 (.term d1)
      exact ⟨u1 ++ u2, by simp [h1, h2], d2⟩
  · -- exprRest
    intro acc ts e rest h pre hpre
    unfold parseExprRest at h
    split at h
    · rename_i r
      split at h
      · rename_i t r' ht
        obtain ⟨u1, h1, d1⟩ := ih.term _ _ _ ht
        obtain ⟨u2, h2, d2⟩ := ih.exprRest _ _ _ _ h (pre ++ .plus :: u1) (.add hpre d1)
        exact ⟨.plus :: u1 ++ u2, by simp [h1, h2], by simpa using d2⟩
      · simp at h; exact ⟨[], by simp [h.2], by simpa [h.1] using hpre⟩
    · rename_i r
      split at h
      · rename_i t r' ht
        obtain ⟨u1, h1, d1⟩ := ih.term _ _ _ ht
        obtain ⟨u2, h2, d2⟩ := ih.exprRest _ _ _ _ h (pre ++ .minus :: u1) (.sub hpre d1)
        exact ⟨.minus :: u1 ++ u2, by simp [h1, h2], by simpa using d2⟩
      · simp at h; exact ⟨[], by simp [h.2], by simpa [h.1] using hpre⟩
    · simp at h; exact ⟨[], by simp [h.2], by simpa [h.1] using hpre⟩

theorem soundAt (fuel : Nat) : SoundAt fuel := by
  induction fuel with
  | zero => exact soundAt_zero
  | succ n ih => exact soundAt_succ n ih

/-! ### completeness: every derivation is found by the parser, with fuel three times the number of tokens

(so the fuel `3 * ts.length + 3` of `parseAssignment` never truncates a parse, whatever the input) -/

theorem tensorToks_length (n : String) (idx : List String) : 3 ≤ (tensorToks n idx).length := by
  simp only [tensorToks, List.length_cons, List.length_append]; omega

def CplF (ts : List Tok) (e : PExpr) : Prop :=
  ∀ fuel rest, 3 * ts.length ≤ fuel + 2 → parseFactor fuel (ts ++ rest) = some (e, rest)
def CplT (ts : List Tok) (e : PExpr) : Prop :=
  ∃ c, 1 ≤ c ∧ c ≤ ts.length ∧ ∀ fuel rest, 3 * ts.length ≤ fuel + c + 1 →
    parseTerm (fuel + c) (ts ++ rest) = parseTermRest fuel e rest
def CplE (ts : List Tok) (e : PExpr) : Prop :=
  ∃ c, 1 ≤ c ∧ c ≤ ts.length ∧ ∀ fuel rest, noStar rest = true → 3 * ts.length ≤ fuel + c →
    parseExpr (fuel + c) (ts ++ rest) = parseExprRest fuel e rest

theorem CplT.full {ts e} (h : CplT ts e) (fuel : Nat) (rest : List Tok) (hs : noStar rest = true)
    (hf : 3 * ts.length ≤ fuel + 1) : parseTerm fuel (ts ++ rest) = some (e, rest) := by
  obtain ⟨c, h1, h2, h⟩ := h
  obtain ⟨k, rfl⟩ : ∃ k, fuel = (k + 1) + c := ⟨fuel - c - 1, by omega⟩
  rw [h (k + 1) rest (by omega), parseTermRest_stop _ _ _ hs]

theorem CplE.full {ts e} (h : CplE ts e) (fuel : Nat) (rest : List Tok) (hs : Stops rest = true)
    (hf : 3 * ts.length ≤ fuel) : parseExpr fuel (ts ++ rest) = some (e, rest) := by
  obtain ⟨c, h1, h2, h⟩ := h
  obtain ⟨k, rfl⟩ : ∃ k, fuel = (k + 1) + c := ⟨fuel - c - 1, by omega⟩
  rw [h (k + 1) rest (noStar_of_Stops hs) (by omega), parseExprRest_stop _ _ _ hs]

theorem cplF_int (s : String) : CplF [.int s] (.int s) := by
  intro fuel rest hf
  obtain ⟨k, rfl⟩ : ∃ k, fuel = k + 1 := ⟨fuel - 1, by simp at hf; omega⟩
  simp [parseFactor]
theorem cplF_flt (s : String) : CplF [.flt s] (.flt s) := by
  intro fuel rest hf
  obtain ⟨k, rfl⟩ : ∃ k, fuel = k + 1 := ⟨fuel - 1, by simp at hf; omega⟩
  simp [parseFactor]
theorem cplF_tensor (n : String) (idx : List String) : CplF (tensorToks n idx) (.tensor n idx) := by
  intro fuel rest hf
  have := tensorToks_length n idx
  obtain ⟨k, rfl⟩ : ∃ k, fuel = k + 1 := ⟨fuel - 1, by omega⟩
  exact parseFactor_tensor k n idx rest
theorem cplF_paren {ts e} (h : CplE ts e) : CplF (.lpar :: ts ++ [.rpar]) e := by
  intro fuel rest hf
  simp only [List.length_cons, List.length_append, List.length_nil] at hf
  obtain ⟨k, rfl⟩ : ∃ k, fuel = k + 1 := ⟨fuel - 1, by omega⟩
  exact parseFactor_paren k e ts rest (h.full k (.rpar :: rest) rfl (by omega))
theorem cplT_factor {ts e} (h : CplF ts e) (hne : 1 ≤ ts.length) : CplT ts e := by
  refine ⟨1, Nat.le_refl 1, hne, ?_⟩
  intro fuel rest hf
  rw [parseTerm_of_factor fuel e _ rest (h fuel rest (by omega))]
theorem cplT_mul {ts₁ ts₂ l r} (h1 : CplT ts₁ l) (h2 : CplF ts₂ r) : CplT (ts₁ ++ .star :: ts₂) (.mul l r) := by
  obtain ⟨c, hc1, hc2, h⟩ := h1
  refine ⟨c + 1, by omega, by simp only [List.length_append, List.length_cons]; omega, ?_⟩
  intro fuel rest hf
  simp only [List.length_append, List.length_cons] at hf
  rw [List.append_assoc, List.cons_append, ← Nat.add_assoc,
    show fuel + c + 1 = (fuel + 1) + c by omega, h (fuel + 1) _ (by omega),
    parseTermRest_star fuel l r _ rest (h2 fuel rest (by omega))]
theorem cplE_term {ts e} (h : CplT ts e) : CplE ts e := by
  have hT := h
  obtain ⟨c, h1, h2, _⟩ := hT
  refine ⟨1, Nat.le_refl 1, by omega, ?_⟩
  intro fuel rest hs hf
  rw [parseExpr_of_term fuel e _ rest (h.full fuel rest hs (by omega))]
theorem cplE_add {ts₁ ts₂ l r} (h1 : CplE ts₁ l) (h2 : CplT ts₂ r) : CplE (ts₁ ++ .plus :: ts₂) (.add l r) := by
  obtain ⟨c, hc1, hc2, h⟩ := h1
  refine ⟨c + 1, by omega, by simp only [List.length_append, List.length_cons]; omega, ?_⟩
  intro fuel rest hs hf
  simp only [List.length_append, List.length_cons] at hf
  rw [List.append_assoc, List.cons_append, ← Nat.add_assoc,
    show fuel + c + 1 = (fuel + 1) + c by omega, h (fuel + 1) _ rfl (by omega),
    parseExprRest_plus fuel l r _ rest (h2.full fuel rest hs (by omega))]
theorem cplE_sub {ts₁ ts₂ l r} (h1 : CplE ts₁ l) (h2 : CplT ts₂ r) : CplE (ts₁ ++ .minus :: ts₂) (.sub l r) := by
  obtain ⟨c, hc1, hc2, h⟩ := h1
  refine ⟨c + 1, by omega, by simp only [List.length_append, List.length_cons]; omega, ?_⟩
  intro fuel rest hs hf
  simp only [List.length_append, List.length_cons] at hf
  rw [List.append_assoc, List.cons_append, ← Nat.add_assoc,
    show fuel + c + 1 = (fuel + 1) + c by omega, h (fuel + 1) _ rfl (by omega),
    parseExprRest_minus fuel l r _ rest (h2.full fuel rest hs (by omega))]

/-- a factor derivation consumes at least one token -/
theorem DerivesF.length_pos {ts e} (d : DerivesF ts e) : 1 ≤ ts.length := by
  cases d with
  | int s => simp
  | flt s => simp
  | tensor n idx => have := tensorToks_length n idx; omega
  | paren _ => simp

theorem cplE_of_derives {ts e} (d : DerivesE ts e) : CplE ts e :=
  DerivesE.rec (motive_1 := fun ts e _ => CplF ts e) (motive_2 := fun ts e _ => CplT ts e)
    (motive_3 := fun ts e _ => CplE ts e)
    cplF_int cplF_flt cplF_tensor (fun _ h => cplF_paren h) (fun d h => cplT_factor h d.length_pos)
    (fun _ _ h1 h2 => cplT_mul h1 h2) (fun _ h => cplE_term h) (fun _ _ h1 h2 => cplE_add h1 h2)
    (fun _ _ h1 h2 => cplE_sub h1 h2) d

theorem cplT_of_derives {ts e} (d : DerivesT ts e) : CplT ts e :=
  DerivesT.rec (motive_1 := fun ts e _ => CplF ts e) (motive_2 := fun ts e _ => CplT ts e)
    (motive_3 := fun ts e _ => CplE ts e)
    cplF_int cplF_flt cplF_tensor (fun _ h => cplF_paren h) (fun d h => cplT_factor h d.length_pos)
    (fun _ _ h1 h2 => cplT_mul h1 h2) (fun _ h => cplE_term h) (fun _ _ h1 h2 => cplE_add h1 h2)
    (fun _ _ h1 h2 => cplE_sub h1 h2) d

theorem cplF_of_derives {ts e} (d : DerivesF ts e) : CplF ts e :=
  DerivesF.rec (motive_1 := fun ts e _ => CplF ts e) (motive_2 := fun ts e _ => CplT ts e)
    (motive_3 := fun ts e _ => CplE ts e)
    cplF_int cplF_flt cplF_tensor (fun _ h => cplF_paren h) (fun d h => cplT_factor h d.length_pos)
    (fun _ _ h1 h2 => cplT_mul h1 h2) (fun _ h => cplE_term h) (fun _ _ h1 h2 => cplE_add h1 h2)
    (fun _ _ h1 h2 => cplE_sub h1 h2) d

/-- the grammar is unambiguous: a token sequence has at most one tree -/
theorem DerivesE.unique {ts : List Tok} {e e' : PExpr} (d : DerivesE ts e) (d' : DerivesE ts e') : e = e' := by
  have h := (cplE_of_derives d).full (3 * ts.length) [] rfl (Nat.le_refl _)
  have h' := (cplE_of_derives d').full (3 * ts.length) [] rfl (Nat.le_refl _)
  rw [h] at h'
  simpa using h'

/-! ### `parseAssignment` accepts exactly the grammatical, valid assignments -/

/-- `name(idx…) = E`: if the lexer yields such a token sequence, `parseAssignment` builds the tree of the
derivation and reports what `validate` says -/
theorem parseAssignment_of_derives (s : String) (n : String) (idx : List String) (used : List Tok) (e : PExpr)
    (hlex : lex s = (tensorToks n idx ++ .eq :: used, true)) (d : DerivesE used e) :
    parseAssignment s = match validate ⟨n, idx, e⟩ with
      | some err => .error err
      | none => .ok ⟨n, idx, e⟩ := by
  have hts : tensorToks n idx ++ .eq :: used = .name n :: .lpar :: (idxToks idx ++ .rpar :: .eq :: used) := by
    simp [tensorToks_eq]
  have hE := (cplE_of_derives d).full (3 * (tensorToks n idx ++ .eq :: used).length + 3) [] rfl
    (by simp only [List.length_cons, List.length_append]; omega)
  rw [List.append_nil] at hE
  unfold parseAssignment
  rw [hlex]
  simp only
  rw [hts] at hE ⊢
  simp only [parseIndexes_idxToks, hE]
  cases validate ⟨n, idx, e⟩ <;> rfl

/-- everything `parseAssignment` accepts is a completely lexed, grammatical, valid assignment -/
theorem parseAssignment_ok_sound (s : String) (a : PAssign) (h : parseAssignment s = .ok a) :
    ∃ used, lex s = (tensorToks a.tname a.tidx ++ .eq :: used, true) ∧ DerivesE used a.rhs ∧
      validate a = none := by
  unfold parseAssignment at h
  generalize hl : lex s = lx at h
  obtain ⟨ts, complete⟩ := lx
  simp only at h
  split at h
  · rename_i n rest
    split at h
    · rename_i idx rest' hidx
      split at h
      · rename_i e remaining hpe
        split at h
        · cases h
        · rename_i hv
          split at h
          · rename_i hc
            simp only [Bool.and_eq_true, List.isEmpty_iff] at hc
            obtain ⟨used, h1, h2⟩ := (soundAt _).expr _ _ _ hpe
            injection h with h
            subst h
            refine ⟨used, ?_, h2, hv⟩
            rw [parseIndexes_sound _ _ _ hidx, h1, hc.1, hc.2, tensorToks_eq]
            simp
          · cases h
      · cases h
    · cases h
  · cases h

/-! ### the printer prints grammatical token sequences -/

theorem derives_toks (e : PExpr) :
    DerivesE e.toks e ∧ DerivesT (termToks e) e ∧ DerivesF (factorToks e) e := by
  induction e with
  | int s =>
    have : DerivesF (factorToks (.int s)) (.int s) := DerivesF.int s
    exact ⟨.term (.factor this), .factor this, this⟩
  | flt s =>
    have : DerivesF (factorToks (.flt s)) (.flt s) := DerivesF.flt s
    exact ⟨.term (.factor this), .factor this, this⟩
  | tensor n idx =>
    have : DerivesF (factorToks (.tensor n idx)) (.tensor n idx) := DerivesF.tensor n idx
    exact ⟨.term (.factor this), .factor this, this⟩
  | add l r ihl ihr =>
    have hE : DerivesE (PExpr.add l r).toks (.add l r) := toks_add l r ▸ .add ihl.1 ihr.2.1
    have hF : DerivesF (factorToks (.add l r)) (.add l r) := DerivesF.paren hE
    exact ⟨hE, .factor hF, hF⟩
  | sub l r ihl ihr =>
    have hE : DerivesE (PExpr.sub l r).toks (.sub l r) := toks_sub l r ▸ .sub ihl.1 ihr.2.1
    have hF : DerivesF (factorToks (.sub l r)) (.sub l r) := DerivesF.paren hE
    exact ⟨hE, .factor hF, hF⟩
  | mul l r ihl ihr =>
    have hT : DerivesT (PExpr.mul l r).toks (.mul l r) := toks_mul l r ▸ .mul ihl.2.1 ihr.2.2
    have hF : DerivesF (factorToks (.mul l r)) (.mul l r) := DerivesF.paren (.term hT)
    exact ⟨.term hT, hT, hF⟩

end TV.Parse
