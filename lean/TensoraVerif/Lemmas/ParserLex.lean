import TensoraVerif.Model.Parser
/-
Character level of the print/parse round trip: lexing the text `deparse` prints gives back exactly
the tokens that were rendered (`lex_render_ofList`, `lex_deparse`), provided every name / integer / float
token is spelled as the corresponding regular expression of the grammar demands and no two such
tokens are adjacent (`renderable`), which holds for the token lists of `PExpr.toks`/`PAssign.toks`.
-/
namespace TV.Parse

/-! ### spelling predicates -/

/-- `[A-Za-z][A-Za-z0-9]*` -/
def isName : List Char → Bool
  | [] => false
  | c :: r => isAlpha c && r.all isAlnum
/-- `[0-9]+` -/
def isIntLexeme (cs : List Char) : Bool := !cs.isEmpty && cs.all isDigit
/-- `[Ee][+-]?\d+` -/
def isExpLexeme : List Char → Bool
  | e :: r => (e == 'e' || e == 'E') &&
      (let r' := match r with | '+' :: x => x | '-' :: x => x | x => x
       !r'.isEmpty && r'.all isDigitU)
  | [] => false
/-- `\d+((\.\d+([Ee][+-]?\d+)?)|((\.\d+)?[Ee][+-]?\d+))` -/
def isFloatLexeme (cs : List Char) : Bool :=
  let ds := cs.takeWhile isDigitU
  !ds.isEmpty && (match cs.dropWhile isDigitU with
    | '.' :: r1 =>
      let fs := r1.takeWhile isDigitU
      let r2 := r1.dropWhile isDigitU
      !fs.isEmpty && (r2.isEmpty || isExpLexeme r2)
    | r => isExpLexeme r)
def Tok.wellSpelled : Tok → Bool
  | .name s => isName s.toList
  | .int s => isIntLexeme s.toList
  | .flt s => isFloatLexeme s.toList
  | _ => true
/-- tokens printed without surrounding spaces that would merge with a neighbouring one of the same kind -/
def Tok.isWord : Tok → Bool
  | .name _ | .int _ | .flt _ => true
  | _ => false
/-- every word token is well spelled and no two word tokens are adjacent -/
def renderable : List Tok → Bool
  | [] => true
  | t :: rest => t.wellSpelled && (!t.isWord || (match rest with | u :: _ => !u.isWord | [] => true)) && renderable rest
def PExpr.wellSpelled : PExpr → Bool
  | .int s => isIntLexeme s.toList
  | .flt s => isFloatLexeme s.toList
  | .tensor n idx => isName n.toList && idx.all (fun i => isName i.toList)
  | .add l r => l.wellSpelled && r.wellSpelled
  | .sub l r => l.wellSpelled && r.wellSpelled
  | .mul l r => l.wellSpelled && r.wellSpelled
def PAssign.wellSpelled (a : PAssign) : Bool :=
  isName a.tname.toList && a.tidx.all (fun i => isName i.toList) && a.rhs.wellSpelled

/-- a character that ends a word token in rendered text: `(`, `)`, `,`, space -/
def isStopChar (c : Char) : Bool := c == ' ' || c == '(' || c == ')' || c == ','

/-! ### characters -/

theorem isAlpha_iff (c : Char) :
    isAlpha c = true ↔ (97 ≤ c.toNat ∧ c.toNat ≤ 122) ∨ (65 ≤ c.toNat ∧ c.toNat ≤ 90) := by
  simp [isAlpha, Char.le_def, UInt32.le_iff_toNat_le]

theorem isDigit_iff (c : Char) : isDigit c = true ↔ (48 ≤ c.toNat ∧ c.toNat ≤ 57) := by
  simp [isDigit, Char.le_def, UInt32.le_iff_toNat_le]

theorem ndStarts_bound : ∀ s ∈ ndStarts, s = 48 ∨ 1632 ≤ s := by decide

theorem isDigitU_bound (c : Char) (h : isDigitU c = true) :
    48 ≤ c.toNat ∧ (c.toNat < 58 ∨ 1632 ≤ c.toNat) := by
  unfold isDigitU at h
  rw [List.any_eq_true] at h
  obtain ⟨s, hs, h⟩ := h
  have := ndStarts_bound s hs
  simp at h
  omega

theorem isDigitU_of_isDigit (c : Char) (h : isDigit c = true) : isDigitU c = true := by
  rw [isDigit_iff] at h
  unfold isDigitU ndStarts
  rw [List.any_cons]
  simp
  omega

theorem beq_char_false (c d : Char) (h : c.toNat ≠ d.toNat) : (c == d) = false := by
  rw [beq_eq_false_iff_ne]
  intro e
  exact h (by rw [e])

theorem isStopChar_iff (c : Char) :
    isStopChar c = true ↔ c = ' ' ∨ c = '(' ∨ c = ')' ∨ c = ',' := by
  simp [isStopChar, or_assoc]

theorem stop_toNat (c : Char) (h : isStopChar c = true) :
    c.toNat = 32 ∨ c.toNat = 40 ∨ c.toNat = 41 ∨ c.toNat = 44 := by
  rw [isStopChar_iff] at h
  rcases h with h | h | h | h <;> subst h <;> decide

theorem stop_not_digitU (c : Char) (h : isStopChar c = true) : isDigitU c = false := by
  cases hd : isDigitU c
  · rfl
  · have := isDigitU_bound c hd
    have := stop_toNat c h
    omega

theorem stop_not_digit (c : Char) (h : isStopChar c = true) : isDigit c = false := by
  cases hd : isDigit c
  · rfl
  · have := stop_not_digitU c h
    have := isDigitU_of_isDigit c hd
    simp_all

theorem stop_not_alnum (c : Char) (h : isStopChar c = true) : isAlnum c = false := by
  cases hd : isAlnum c
  · rfl
  · have h1 := stop_not_digit c h
    have h2 := stop_toNat c h
    simp only [isAlnum, h1, Bool.or_false] at hd
    rw [isAlpha_iff] at hd
    omega

/-! ### `takeWhile` / `dropWhile` up to a stop -/

theorem takeWhile_append_of_stop (p : Char → Bool) (xs rest : List Char)
    (h : xs.all p = true) (hr : ∀ c ∈ rest.head?, p c = false) :
    (xs ++ rest).takeWhile p = xs := by
  induction xs with
  | nil =>
    cases rest with
    | nil => rfl
    | cons c r => simp [hr c (by simp)]
  | cons x xs ih =>
    simp only [List.all_cons, Bool.and_eq_true] at h
    simp [h.1, ih h.2]

theorem dropWhile_append_of_stop (p : Char → Bool) (xs rest : List Char)
    (h : xs.all p = true) (hr : ∀ c ∈ rest.head?, p c = false) :
    (xs ++ rest).dropWhile p = rest := by
  induction xs with
  | nil =>
    cases rest with
    | nil => rfl
    | cons c r => simp [hr c (by simp)]
  | cons x xs ih =>
    simp only [List.all_cons, Bool.and_eq_true] at h
    simp [h.1, ih h.2]

theorem all_takeWhile (p : Char → Bool) (xs : List Char) : (xs.takeWhile p).all p = true := by
  induction xs with
  | nil => rfl
  | cons x xs ih =>
    rw [List.takeWhile_cons]
    split <;> simp_all

theorem head_dropWhile (p : Char → Bool) (xs : List Char) :
    ∀ c ∈ (xs.dropWhile p).head?, p c = false := by
  induction xs with
  | nil => simp
  | cons x xs ih =>
    rw [List.dropWhile_cons]
    split
    · exact ih
    · simp_all

/-! ### numbers -/

theorem lexExponent_stop (rest : List Char) (hr : ∀ c ∈ rest.head?, isStopChar c = true) :
    lexExponent rest = none := by
  cases rest with
  | nil => rfl
  | cons c r =>
    have h := stop_toNat c (hr c (by simp))
    have h1 : (c == 'e') = false := beq_char_false _ _ (by simp; omega)
    have h2 : (c == 'E') = false := beq_char_false _ _ (by simp; omega)
    simp [lexExponent, h1, h2]

theorem digitU_ne_sign (d : Char) (h : isDigitU d = true) : d ≠ '+' ∧ d ≠ '-' := by
  have := isDigitU_bound d h
  constructor <;> (intro e; subst e; simp at this)

theorem lexExponent_exp (ex rest : List Char) (h : isExpLexeme ex = true)
    (hr : ∀ c ∈ rest.head?, isStopChar c = true) :
    lexExponent (ex ++ rest) = some (ex, rest) := by
  have hr' : ∀ c ∈ rest.head?, isDigitU c = false := fun c hc => stop_not_digitU c (hr c hc)
  cases ex with
  | nil => simp [isExpLexeme] at h
  | cons e r =>
    simp only [isExpLexeme, Bool.and_eq_true] at h
    obtain ⟨he, h2⟩ := h
    simp only [lexExponent, List.cons_append, he, if_true]
    split at h2
    · rename_i x
      simp only [Bool.not_eq_true'] at h2
      simp only [List.cons_append, takeWhile_append_of_stop _ _ _ h2.2 hr',
        dropWhile_append_of_stop _ _ _ h2.2 hr', h2.1]
      simp
    · rename_i x
      simp only [Bool.not_eq_true'] at h2
      simp only [List.cons_append, takeWhile_append_of_stop _ _ _ h2.2 hr',
        dropWhile_append_of_stop _ _ _ h2.2 hr', h2.1]
      simp
    · rename_i hp hm
      simp only [Bool.not_eq_true'] at h2
      cases r with
      | nil => simp at h2
      | cons d x =>
        have hx := h2.2
        have hd : isDigitU d = true := by
          have := h2.2; simp only [List.all_cons, Bool.and_eq_true] at this; exact this.1
        have hne := digitU_ne_sign d hd
        split
        · rename_i heq; simp only [List.cons_append, List.cons.injEq] at heq; exact absurd heq.1 hne.1
        · rename_i heq; simp only [List.cons_append, List.cons.injEq] at heq; exact absurd heq.1 hne.2
        · simp only [takeWhile_append_of_stop _ _ _ hx hr', dropWhile_append_of_stop _ _ _ hx hr']
          simp

theorem stop_ne_dot (c : Char) (h : isStopChar c = true) : c ≠ '.' := by
  have := stop_toNat c h
  intro e; subst e; simp at this

theorem all_digitU_of_all_digit (cs : List Char) (h : cs.all isDigit = true) :
    cs.all isDigitU = true := by
  rw [List.all_eq_true] at *
  exact fun c hc => isDigitU_of_isDigit c (h c hc)

theorem lexNumber_int (cs rest : List Char) (h : isIntLexeme cs = true)
    (hr : ∀ c ∈ rest.head?, isStopChar c = true) :
    lexNumber (cs ++ rest) = some (.int (String.ofList cs), rest) := by
  simp only [isIntLexeme, Bool.and_eq_true, Bool.not_eq_true'] at h
  obtain ⟨hne, hd⟩ := h
  have hU := all_digitU_of_all_digit cs hd
  have hrU : ∀ c ∈ rest.head?, isDigitU c = false := fun c hc => stop_not_digitU c (hr c hc)
  have hrD : ∀ c ∈ rest.head?, isDigit c = false := fun c hc => stop_not_digit c (hr c hc)
  unfold lexNumber
  simp only [takeWhile_append_of_stop _ _ _ hU hrU, dropWhile_append_of_stop _ _ _ hU hrU,
    takeWhile_append_of_stop _ _ _ hd hrD, dropWhile_append_of_stop _ _ _ hd hrD,
    lexExponent_stop rest hr, hne]
  cases rest with
  | nil => simp
  | cons c r =>
    have := stop_ne_dot c (hr c (by simp))
    split
    · rename_i heq
      split at heq
      · rename_i h2; simp only [List.cons.injEq] at h2; exact absurd h2.1 this
      · simp at heq
    · simp

theorem dot_not_digitU : isDigitU '.' = false := by decide

theorem exp_head (ex : List Char) (h : isExpLexeme ex = true) :
    ∃ e r, ex = e :: r ∧ isDigitU e = false ∧ e ≠ '.' := by
  cases ex with
  | nil => simp [isExpLexeme] at h
  | cons e r =>
    refine ⟨e, r, rfl, ?_⟩
    simp only [isExpLexeme, Bool.and_eq_true, Bool.or_eq_true, beq_iff_eq] at h
    rcases h.1 with h | h <;> subst h <;> decide

/-- digits, a fraction, then whatever `lexExponent` makes of the tail -/
theorem lexNumber_frac (ds fs tail : List Char) (hds : ds.all isDigitU = true)
    (hfs : fs.all isDigitU = true) (hfe : fs.isEmpty = false)
    (ht : ∀ c ∈ tail.head?, isDigitU c = false) :
    lexNumber (ds ++ '.' :: (fs ++ tail)) =
      match lexExponent tail with
      | some (e, rest2) => some (.flt (String.ofList (ds ++ '.' :: fs ++ e)), rest2)
      | none => some (.flt (String.ofList (ds ++ '.' :: fs)), tail) := by
  have h1 : ∀ c ∈ ('.' :: (fs ++ tail)).head?, isDigitU c = false := by
    intro c hc; simp at hc; subst hc; exact dot_not_digitU
  cases hle : lexExponent tail with
  | none =>
    unfold lexNumber
    simp only [takeWhile_append_of_stop _ _ _ hds h1, dropWhile_append_of_stop _ _ _ hds h1,
      takeWhile_append_of_stop _ _ _ hfs ht, dropWhile_append_of_stop _ _ _ hfs ht, hfe]
    simp [hle]
  | some p =>
    obtain ⟨e, r2⟩ := p
    unfold lexNumber
    simp only [takeWhile_append_of_stop _ _ _ hds h1, dropWhile_append_of_stop _ _ _ hds h1,
      takeWhile_append_of_stop _ _ _ hfs ht, dropWhile_append_of_stop _ _ _ hfs ht, hfe]
    simp [hle]

/-- digits then an exponent -/
theorem lexNumber_exp (ds ex rest : List Char) (hds : ds.all isDigitU = true)
    (hex : isExpLexeme ex = true) (hr : ∀ c ∈ rest.head?, isStopChar c = true) :
    lexNumber (ds ++ (ex ++ rest)) = some (.flt (String.ofList (ds ++ ex)), rest) := by
  obtain ⟨e, r, rfl, he, hdot⟩ := exp_head ex hex
  have h1 : ∀ c ∈ (e :: r ++ rest).head?, isDigitU c = false := by
    intro c hc; simp at hc; subst hc; exact he
  unfold lexNumber
  simp only [takeWhile_append_of_stop _ _ _ hds h1, dropWhile_append_of_stop _ _ _ hds h1,
    lexExponent_exp _ rest hex hr]
  split
  · rename_i heq
    split at heq
    · rename_i h2; simp only [List.cons_append, List.cons.injEq] at h2; exact absurd h2.1 hdot
    · simp at heq
  · rfl

theorem lexNumber_flt (cs rest : List Char) (h : isFloatLexeme cs = true)
    (hr : ∀ c ∈ rest.head?, isStopChar c = true) :
    lexNumber (cs ++ rest) = some (.flt (String.ofList cs), rest) := by
  have hrU : ∀ c ∈ rest.head?, isDigitU c = false := fun c hc => stop_not_digitU c (hr c hc)
  simp only [isFloatLexeme, Bool.and_eq_true, Bool.not_eq_true'] at h
  obtain ⟨_, h⟩ := h
  have hcs := List.takeWhile_append_dropWhile (p := isDigitU) (l := cs)
  have hds := all_takeWhile isDigitU cs
  generalize cs.takeWhile isDigitU = ds at *
  generalize cs.dropWhile isDigitU = dr at *
  subst hcs
  split at h
  · rename_i r1
    simp only [Bool.and_eq_true, Bool.not_eq_true', Bool.or_eq_true] at h
    obtain ⟨hfe, h⟩ := h
    have hr1 := List.takeWhile_append_dropWhile (p := isDigitU) (l := r1)
    have hfs := all_takeWhile isDigitU r1
    generalize r1.takeWhile isDigitU = fs at *
    generalize r1.dropWhile isDigitU = r2 at *
    subst hr1
    rcases h with h | h
    · have : r2 = [] := by simpa using h
      subst this
      have := lexNumber_frac ds fs rest hds hfs hfe hrU
      rw [lexExponent_stop rest hr] at this
      simpa using this
    · obtain ⟨e, r, rfl, he, _⟩ := exp_head r2 h
      have ht : ∀ c ∈ (e :: r ++ rest).head?, isDigitU c = false := by
        intro c hc; simp at hc; subst hc; exact he
      have := lexNumber_frac ds fs (e :: r ++ rest) hds hfs hfe ht
      rw [lexExponent_exp _ rest h hr] at this
      simpa using this
  · have := lexNumber_exp ds dr rest hds h hr
    simpa using this

/-! ### one lexer step -/

theorem lexAux_alpha (fuel : Nat) (c : Char) (rest : List Char) (h : isAlpha c = true) :
    lexAux (fuel + 1) (c :: rest) =
      (.name (String.ofList ((c :: rest).takeWhile isAlnum)) ::
        (lexAux fuel ((c :: rest).dropWhile isAlnum)).1,
       (lexAux fuel ((c :: rest).dropWhile isAlnum)).2) := by
  have hb := (isAlpha_iff c).mp h
  have h1 : (c == ' ') = false := beq_char_false _ _ (by simp; omega)
  have h2 : (c == '(') = false := beq_char_false _ _ (by simp; omega)
  have h3 : (c == ')') = false := beq_char_false _ _ (by simp; omega)
  have h4 : (c == ',') = false := beq_char_false _ _ (by simp; omega)
  have h5 : (c == '*') = false := beq_char_false _ _ (by simp; omega)
  have h6 : (c == '+') = false := beq_char_false _ _ (by simp; omega)
  have h7 : (c == '-') = false := beq_char_false _ _ (by simp; omega)
  have h8 : (c == '=') = false := beq_char_false _ _ (by simp; omega)
  simp [lexAux, h1, h2, h3, h4, h5, h6, h7, h8, h]

theorem lexAux_digitU (fuel : Nat) (c : Char) (rest : List Char) (h : isDigitU c = true) :
    lexAux (fuel + 1) (c :: rest) =
      match lexNumber (c :: rest) with
      | some (t, rest') => (t :: (lexAux fuel rest').1, (lexAux fuel rest').2)
      | none => ([], false) := by
  have hb := isDigitU_bound c h
  have h1 : (c == ' ') = false := beq_char_false _ _ (by simp; omega)
  have h2 : (c == '(') = false := beq_char_false _ _ (by simp; omega)
  have h3 : (c == ')') = false := beq_char_false _ _ (by simp; omega)
  have h4 : (c == ',') = false := beq_char_false _ _ (by simp; omega)
  have h5 : (c == '*') = false := beq_char_false _ _ (by simp; omega)
  have h6 : (c == '+') = false := beq_char_false _ _ (by simp; omega)
  have h7 : (c == '-') = false := beq_char_false _ _ (by simp; omega)
  have h8 : (c == '=') = false := beq_char_false _ _ (by simp; omega)
  have h9 : isAlpha c = false := by
    cases ha : isAlpha c
    · rfl
    · have := (isAlpha_iff c).mp ha; omega
  simp only [lexAux, h1, h2, h3, h4, h5, h6, h7, h8, h9, h, if_true, Bool.false_eq_true, if_false]
  cases lexNumber (c :: rest) with
  | none => rfl
  | some p => rfl

/-! ### lexing rendered tokens -/

theorem render_cons (t : Tok) (ts : List Tok) : render (t :: ts) = t.render ++ render ts := by
  simp [render]

theorem render_nonword_head (t : Tok) (h : t.isWord = false) :
    ∃ c r, t.render = c :: r ∧ isStopChar c = true := by
  cases t <;> simp [Tok.isWord] at h <;> exact ⟨_, _, rfl, by decide⟩

theorem render_head_stop (ts : List Tok)
    (h : (match ts with | u :: _ => !u.isWord | [] => true) = true) :
    ∀ c ∈ (render ts).head?, isStopChar c = true := by
  cases ts with
  | nil => simp [render]
  | cons u us =>
    simp only [Bool.not_eq_true'] at h
    obtain ⟨c, r, hc, hs⟩ := render_nonword_head u h
    intro d hd
    rw [render_cons, hc] at hd
    simp at hd
    subst hd
    exact hs

theorem alnum_of_alpha (c : Char) (h : isAlpha c = true) : isAlnum c = true := by
  simp [isAlnum, h]

theorem lexAux_render (ts : List Tok) (h : renderable ts = true) (fuel : Nat)
    (hf : (render ts).length < fuel) : lexAux fuel (render ts) = (ts, true) := by
  induction ts generalizing fuel with
  | nil =>
    cases fuel with
    | zero => simp [render, lexAux]
    | succ f => simp [render, lexAux]
  | cons t ts ih =>
    simp only [renderable, Bool.and_eq_true, Bool.or_eq_true, Bool.not_eq_true'] at h
    obtain ⟨⟨hw, hadj⟩, hrest⟩ := h
    rw [render_cons] at hf ⊢
    rw [List.length_append] at hf
    cases t with
    | name s =>
      have hstop := render_head_stop ts (by simpa [Tok.isWord] using hadj)
      have hstopA : ∀ c ∈ (render ts).head?, isAlnum c = false :=
        fun c hc => stop_not_alnum c (hstop c hc)
      simp only [Tok.wellSpelled] at hw
      simp only [Tok.render] at hf ⊢
      have hs : String.ofList s.toList = s := String.ofList_toList
      generalize s.toList = cs at *
      cases cs with
      | nil => simp [isName] at hw
      | cons c r =>
        simp only [isName, Bool.and_eq_true] at hw
        have hall : (c :: r).all isAlnum = true := by
          simp only [List.all_cons, Bool.and_eq_true]; exact ⟨alnum_of_alpha c hw.1, hw.2⟩
        obtain ⟨f, rfl⟩ : ∃ f, fuel = f + 1 := ⟨fuel - 1, by omega⟩
        rw [List.cons_append, lexAux_alpha _ _ _ hw.1, ← List.cons_append,
          takeWhile_append_of_stop _ _ _ hall hstopA, dropWhile_append_of_stop _ _ _ hall hstopA,
          ih hrest f (by simp at hf; omega), hs]
    | int s =>
      have hstop := render_head_stop ts (by simpa [Tok.isWord] using hadj)
      simp only [Tok.wellSpelled] at hw
      simp only [Tok.render] at hf ⊢
      have hs : String.ofList s.toList = s := String.ofList_toList
      generalize s.toList = cs at *
      have hnum := lexNumber_int cs (render ts) hw hstop
      cases cs with
      | nil => simp [isIntLexeme] at hw
      | cons c r =>
        simp only [isIntLexeme, List.all_cons, Bool.and_eq_true] at hw
        obtain ⟨f, rfl⟩ : ∃ f, fuel = f + 1 := ⟨fuel - 1, by omega⟩
        rw [List.cons_append, lexAux_digitU _ _ _ (isDigitU_of_isDigit c hw.2.1), ← List.cons_append,
          hnum]
        simp only
        rw [ih hrest f (by simp at hf; omega), hs]
    | flt s =>
      have hstop := render_head_stop ts (by simpa [Tok.isWord] using hadj)
      simp only [Tok.wellSpelled] at hw
      simp only [Tok.render] at hf ⊢
      have hs : String.ofList s.toList = s := String.ofList_toList
      generalize s.toList = cs at *
      have hnum := lexNumber_flt cs (render ts) hw hstop
      cases cs with
      | nil => simp [isFloatLexeme] at hw
      | cons c r =>
        have hc : isDigitU c = true := by
          simp only [isFloatLexeme, Bool.and_eq_true, Bool.not_eq_true'] at hw
          have := hw.1
          rw [List.takeWhile_cons] at this
          cases hd : isDigitU c
          · simp [hd] at this
          · rfl
        obtain ⟨f, rfl⟩ : ∃ f, fuel = f + 1 := ⟨fuel - 1, by omega⟩
        rw [List.cons_append, lexAux_digitU _ _ _ hc, ← List.cons_append, hnum]
        simp only
        rw [ih hrest f (by simp at hf; omega), hs]
    | lpar =>
      obtain ⟨f, rfl⟩ : ∃ f, fuel = f + 1 := ⟨fuel - 1, by omega⟩
      simp [Tok.render, lexAux, ih hrest f (by simp [Tok.render] at hf; omega)]
    | rpar =>
      obtain ⟨f, rfl⟩ : ∃ f, fuel = f + 1 := ⟨fuel - 1, by omega⟩
      simp [Tok.render, lexAux, ih hrest f (by simp [Tok.render] at hf; omega)]
    | comma =>
      obtain ⟨f, rfl⟩ : ∃ f, fuel = f + 1 := ⟨fuel - 1, by omega⟩
      simp [Tok.render, lexAux, ih hrest f (by simp [Tok.render] at hf; omega)]
    | star =>
      obtain ⟨f, rfl⟩ : ∃ f, fuel = f + 1 + 1 + 1 := ⟨fuel - 3, by simp [Tok.render] at hf; omega⟩
      simp [Tok.render, lexAux, ih hrest f (by simp [Tok.render] at hf; omega)]
    | plus =>
      obtain ⟨f, rfl⟩ : ∃ f, fuel = f + 1 + 1 + 1 := ⟨fuel - 3, by simp [Tok.render] at hf; omega⟩
      simp [Tok.render, lexAux, ih hrest f (by simp [Tok.render] at hf; omega)]
    | minus =>
      obtain ⟨f, rfl⟩ : ∃ f, fuel = f + 1 + 1 + 1 := ⟨fuel - 3, by simp [Tok.render] at hf; omega⟩
      simp [Tok.render, lexAux, ih hrest f (by simp [Tok.render] at hf; omega)]
    | eq =>
      obtain ⟨f, rfl⟩ : ∃ f, fuel = f + 1 + 1 + 1 := ⟨fuel - 3, by simp [Tok.render] at hf; omega⟩
      simp [Tok.render, lexAux, ih hrest f (by simp [Tok.render] at hf; omega)]

theorem lex_render_ofList (ts : List Tok) (h : renderable ts = true) :
    lex (String.ofList (render ts)) = (ts, true) := by
  unfold lex
  rw [String.toList_ofList]
  exact lexAux_render ts h _ (by omega)

/-! ### the deparser's token lists are renderable -/

theorem renderable_append (xs ys : List Tok) (hx : renderable xs = true) (hy : renderable ys = true)
    (hh : ∀ u ∈ ys.head?, u.isWord = false) : renderable (xs ++ ys) = true := by
  induction xs with
  | nil => simpa using hy
  | cons t xs ih =>
    simp only [renderable, Bool.and_eq_true, Bool.or_eq_true, Bool.not_eq_true'] at hx
    obtain ⟨⟨hw, hadj⟩, hrest⟩ := hx
    simp only [List.cons_append, renderable, Bool.and_eq_true, Bool.or_eq_true, Bool.not_eq_true']
    refine ⟨⟨hw, ?_⟩, ih hrest⟩
    rcases hadj with hadj | hadj
    · exact Or.inl hadj
    · cases xs with
      | cons u us => exact Or.inr (by simpa using hadj)
      | nil =>
        cases ys with
        | nil => exact Or.inr rfl
        | cons v vs => exact Or.inr (by simpa using hh v (by simp))

theorem renderable_commaNames (rest : List String) (h : rest.all (fun i => isName i.toList) = true) :
    renderable (rest.flatMap (fun j => [Tok.comma, Tok.name j]) ++ [Tok.rpar]) = true := by
  induction rest with
  | nil => simp [renderable, Tok.wellSpelled, Tok.isWord]
  | cons j rest ih =>
    simp only [List.all_cons, Bool.and_eq_true] at h
    have := ih h.2
    cases rest with
    | nil => simp [renderable, Tok.wellSpelled, Tok.isWord, h.1]
    | cons k rest =>
      simp only [List.flatMap_cons, List.cons_append, List.nil_append] at this ⊢
      simp [renderable, Tok.wellSpelled, Tok.isWord, h.1] at this ⊢
      exact this

theorem renderable_tensorToks (n : String) (idx : List String) (hn : isName n.toList = true)
    (hi : idx.all (fun i => isName i.toList) = true) : renderable (tensorToks n idx) = true := by
  cases idx with
  | nil => simp [tensorToks, renderable, Tok.wellSpelled, Tok.isWord, hn]
  | cons i rest =>
    simp only [List.all_cons, Bool.and_eq_true] at hi
    have := renderable_commaNames rest hi.2
    cases rest with
    | nil => simp [tensorToks, renderable, Tok.wellSpelled, Tok.isWord, hn, hi.1]
    | cons k rest =>
      simp only [List.flatMap_cons, List.cons_append, List.nil_append] at this
      simp [tensorToks, renderable, Tok.wellSpelled, Tok.isWord, hn, hi.1] at this ⊢
      exact this

theorem renderable_parenToks (ts : List Tok) (h : renderable ts = true) :
    renderable (parenToks ts) = true := by
  have h1 : renderable (ts ++ [Tok.rpar]) = true :=
    renderable_append ts [Tok.rpar] h (by simp [renderable, Tok.wellSpelled, Tok.isWord])
      (by simp [Tok.isWord])
  simp only [parenToks, List.cons_append, renderable, Tok.wellSpelled, Tok.isWord, h1]
  simp

theorem renderable_binop (xs ys : List Tok) (op : Tok) (hop : op.isWord = false)
    (hx : renderable xs = true) (hy : renderable ys = true) :
    renderable (xs ++ [op] ++ ys) = true := by
  rw [List.append_assoc]
  apply renderable_append _ _ hx
  · have hws : op.wellSpelled = true := by cases op <;> simp_all [Tok.isWord, Tok.wellSpelled]
    simp [renderable, hop, hws, hy]
  · simp [hop]

theorem renderable_maybeParen (b : Bool) (ts : List Tok) (h : renderable ts = true) :
    renderable (if b = true then parenToks ts else ts) = true := by
  cases b
  · simpa using h
  · simpa using renderable_parenToks ts h

theorem renderable_exprToks (e : PExpr) (h : e.wellSpelled = true) : renderable e.toks = true := by
  induction e with
  | int s => simpa [PExpr.toks, renderable, Tok.wellSpelled, Tok.isWord, PExpr.wellSpelled] using h
  | flt s => simpa [PExpr.toks, renderable, Tok.wellSpelled, Tok.isWord, PExpr.wellSpelled] using h
  | tensor n idx =>
    simp only [PExpr.wellSpelled, Bool.and_eq_true] at h
    exact renderable_tensorToks n idx h.1 h.2
  | add l r ihl ihr =>
    simp only [PExpr.wellSpelled, Bool.and_eq_true] at h
    exact renderable_binop _ _ _ rfl (ihl h.1) (renderable_maybeParen _ _ (ihr h.2))
  | sub l r ihl ihr =>
    simp only [PExpr.wellSpelled, Bool.and_eq_true] at h
    exact renderable_binop _ _ _ rfl (ihl h.1) (renderable_maybeParen _ _ (ihr h.2))
  | mul l r ihl ihr =>
    simp only [PExpr.wellSpelled, Bool.and_eq_true] at h
    exact renderable_binop _ _ _ rfl (renderable_maybeParen _ _ (ihl h.1))
      (renderable_maybeParen _ _ (ihr h.2))

theorem renderable_assignToks (a : PAssign) (h : a.wellSpelled = true) :
    renderable a.toks = true := by
  simp only [PAssign.wellSpelled, Bool.and_eq_true] at h
  exact renderable_binop _ _ _ rfl (renderable_tensorToks _ _ h.1.1 h.1.2)
    (renderable_exprToks _ h.2)

theorem lex_deparse (a : PAssign) (h : a.wellSpelled = true) : lex a.deparse = (a.toks, true) :=
  lex_render_ofList a.toks (renderable_assignToks a h)

end TV.Parse
