import TensoraVerif.Model.Parser

/-!
Token level of the print/parse round trip (C12): the recursive-descent parser of `Model/Parser.lean`
applied to the token sequence `PExpr.toks e` printed for a tree `e` rebuilds exactly `e`.

The printer has three syntactic levels (`toks` = expression level, `termToks` = parenthesised when the tree is a
sum/difference, `factorToks` = parenthesised when it is a sum/difference/product) and the parser three
functions; the induction on the tree proves the three statements together, in continuation form for the two
left-recursive spines (`parseTerm` on the print of a product spine reaches `parseTermRest` with the spine
rebuilt as accumulator).

Fuel: `needs e` is the exact fuel the three parser functions need on the three prints of `e`
(`parseExpr`/`parseTerm`/`parseFactor` give the answer for every fuel ≥ that number); it is bounded by
three times the number of tokens printed. General fuel monotonicity is false in the model (fuel exhaustion
inside `parseFactor` is indistinguishable from "no factor follows", so a small fuel gives a *shorter* parse).
-/
namespace TV.Parse

/-! ### the three print levels -/

/-- the print of `e` as an operand of `+`/`-` on the right or `*` on the left -/
def termToks (e : PExpr) : List Tok := if e.isAddSub then parenToks e.toks else e.toks
/-- the print of `e` as right operand of `*` -/
def factorToks (e : PExpr) : List Tok := if e.isAddSub || e.isMul then parenToks e.toks else e.toks

/-- the index list between the parentheses of a tensor -/
def idxToks : List String → List Tok
  | [] => []
  | i :: rest => .name i :: rest.flatMap fun j => [.comma, .name j]

theorem tensorToks_eq (n : String) (idx : List String) :
    tensorToks n idx = .name n :: .lpar :: idxToks idx ++ [.rpar] := by
  cases idx <;> rfl

theorem toks_add (l r : PExpr) : (PExpr.add l r).toks = l.toks ++ .plus :: termToks r := by
  simp [PExpr.toks, termToks]
theorem toks_sub (l r : PExpr) : (PExpr.sub l r).toks = l.toks ++ .minus :: termToks r := by
  simp [PExpr.toks, termToks]
theorem toks_mul (l r : PExpr) : (PExpr.mul l r).toks = termToks l ++ .star :: factorToks r := by
  simp [PExpr.toks, termToks, factorToks]

/-! ### continuations that cannot extend a term / an expression -/

/-- the continuation does not start with `*` -/
def noStar : List Tok → Bool
  | .star :: _ => false
  | _ => true
/-- the continuation does not start with `*`, `+` or `-`: nothing that could extend an expression -/
def Stops : List Tok → Bool
  | .star :: _ => false
  | .plus :: _ => false
  | .minus :: _ => false
  | _ => true

theorem noStar_of_Stops {ts : List Tok} (h : Stops ts = true) : noStar ts = true := by
  unfold Stops at h; unfold noStar; split <;> simp_all

/-! ### one-step unfoldings of the parser -/

theorem parseIndexes_more (acc rest : List String) (r : List Tok) :
    parseIndexes.more acc ((rest.flatMap fun j => [Tok.comma, .name j]) ++ .rpar :: r) = some (acc ++ rest, r) := by
  induction rest generalizing acc with
  | nil => simp [parseIndexes.more]
  | cons j rest ih => simp [parseIndexes.more, ih]

/-- the index list of a printed tensor is read back, whatever the names are -/
theorem parseIndexes_idxToks (idx : List String) (r : List Tok) :
    parseIndexes (idxToks idx ++ .rpar :: r) = some (idx, r) := by
  cases idx with
  | nil => simp [idxToks, parseIndexes]
  | cons i rest => simp [idxToks, parseIndexes, parseIndexes_more]

theorem parseFactor_tensor (f : Nat) (n : String) (idx : List String) (rest : List Tok) :
    parseFactor (f + 1) (tensorToks n idx ++ rest) = some (.tensor n idx, rest) := by
  simp [tensorToks_eq, parseFactor, parseIndexes_idxToks]

theorem parseFactor_paren (f : Nat) (e : PExpr) (ts rest : List Tok)
    (h : parseExpr f (ts ++ .rpar :: rest) = some (e, .rpar :: rest)) :
    parseFactor (f + 1) (parenToks ts ++ rest) = some (e, rest) := by
  simp [parenToks, parseFactor, h]

theorem parseTerm_of_factor (f : Nat) (e : PExpr) (ts rest : List Tok)
    (h : parseFactor f ts = some (e, rest)) : parseTerm (f + 1) ts = parseTermRest f e rest := by
  simp [parseTerm, h]

theorem parseTermRest_star (f : Nat) (acc e : PExpr) (ts rest : List Tok)
    (h : parseFactor f ts = some (e, rest)) :
    parseTermRest (f + 1) acc (.star :: ts) = parseTermRest f (.mul acc e) rest := by
  simp [parseTermRest, h]

theorem parseTermRest_stop (f : Nat) (acc : PExpr) (ts : List Tok) (h : noStar ts = true) :
    parseTermRest (f + 1) acc ts = some (acc, ts) := by
  cases ts with
  | nil => simp [parseTermRest]
  | cons t r => cases t <;> simp_all [parseTermRest, noStar]

theorem parseExpr_of_term (f : Nat) (e : PExpr) (ts rest : List Tok)
    (h : parseTerm f ts = some (e, rest)) : parseExpr (f + 1) ts = parseExprRest f e rest := by
  simp [parseExpr, h]

theorem parseExprRest_plus (f : Nat) (acc e : PExpr) (ts rest : List Tok)
    (h : parseTerm f ts = some (e, rest)) :
    parseExprRest (f + 1) acc (.plus :: ts) = parseExprRest f (.add acc e) rest := by
  simp [parseExprRest, h]

theorem parseExprRest_minus (f : Nat) (acc e : PExpr) (ts rest : List Tok)
    (h : parseTerm f ts = some (e, rest)) :
    parseExprRest (f + 1) acc (.minus :: ts) = parseExprRest f (.sub acc e) rest := by
  simp [parseExprRest, h]

theorem parseExprRest_stop (f : Nat) (acc : PExpr) (ts : List Tok) (h : Stops ts = true) :
    parseExprRest (f + 1) acc ts = some (acc, ts) := by
  cases ts with
  | nil => simp [parseExprRest]
  | cons t r => cases t <;> simp_all [parseExprRest, Stops]

/-! ### fuel -/

/-- number of `parseTermRest` steps the product spine of `e` takes -/
def cT : PExpr → Nat
  | .mul l _ => cT l + 1
  | _ => 1
/-- number of `parseExprRest` steps the sum spine of `e` takes -/
def cE : PExpr → Nat
  | .add l _ => cE l + 1
  | .sub l _ => cE l + 1
  | _ => 1

/-- the fuel `parseExpr` needs on `e.toks`, `parseTerm` on `termToks e`, `parseFactor` on `factorToks e` -/
def needs : PExpr → Nat × Nat × Nat
  | .int _ => (3, 2, 1)
  | .flt _ => (3, 2, 1)
  | .tensor _ _ => (3, 2, 1)
  | .add l r => let n := max (needs l).1 ((needs r).2.1 + cE l + 1); (n, n + 2, n + 1)
  | .sub l r => let n := max (needs l).1 ((needs r).2.1 + cE l + 1); (n, n + 2, n + 1)
  | .mul l r => let n := max (needs l).2.1 ((needs r).2.2 + cT l + 1); (n + 1, n, n + 2)

def needE (e : PExpr) : Nat := (needs e).1
def needT (e : PExpr) : Nat := (needs e).2.1
def needF (e : PExpr) : Nat := (needs e).2.2

theorem needF_pos (e : PExpr) : 1 ≤ needF e := by
  cases e <;> simp [needF, needs]
theorem cT_lt_needT (e : PExpr) : cT e + 1 ≤ needT e := by
  cases e with
  | mul l r => have := needF_pos r; simp only [needT, needs, cT, needF] at *; omega
  | _ => simp [needT, needs, cT] <;> omega
theorem cE_lt_needE (e : PExpr) : cE e + 1 ≤ needE e := by
  cases e with
  | add l r => have := cT_lt_needT r; simp only [needE, needs, cE, needT] at *; omega
  | sub l r => have := cT_lt_needT r; simp only [needE, needs, cE, needT] at *; omega
  | mul l r => have := needF_pos r; simp only [needE, needs, cE, needF] at *; omega
  | _ => simp [needE, needs, cE]

/-! ### the three statements -/

/-- factor level -/
def RtF (e : PExpr) : Prop := ∀ fuel rest, needF e ≤ fuel → parseFactor fuel (factorToks e ++ rest) = some (e, rest)
/-- term level, continuation form -/
def RtT (e : PExpr) : Prop := ∀ fuel rest, needT e ≤ fuel + cT e →
  parseTerm (fuel + cT e) (termToks e ++ rest) = parseTermRest fuel e rest
/-- expression level, continuation form -/
def RtE (e : PExpr) : Prop := ∀ fuel rest, noStar rest = true → needE e ≤ fuel + cE e →
  parseExpr (fuel + cE e) (e.toks ++ rest) = parseExprRest fuel e rest

/-- full term level: the term is returned when no `*` follows -/
theorem RtT.full {e : PExpr} (h : RtT e) (fuel : Nat) (rest : List Tok) (hs : noStar rest = true)
    (hf : needT e ≤ fuel) : parseTerm fuel (termToks e ++ rest) = some (e, rest) := by
  have hc := cT_lt_needT e
  obtain ⟨k, rfl⟩ : ∃ k, fuel = (k + 1) + cT e := ⟨fuel - cT e - 1, by omega⟩
  rw [h (k + 1) rest (by omega), parseTermRest_stop _ _ _ hs]

/-- full expression level -/
theorem RtE.full {e : PExpr} (h : RtE e) (fuel : Nat) (rest : List Tok) (hs : Stops rest = true)
    (hf : needE e ≤ fuel) : parseExpr fuel (e.toks ++ rest) = some (e, rest) := by
  have hc := cE_lt_needE e
  obtain ⟨k, rfl⟩ : ∃ k, fuel = (k + 1) + cE e := ⟨fuel - cE e - 1, by omega⟩
  rw [h (k + 1) rest (noStar_of_Stops hs) (by omega), parseExprRest_stop _ _ _ hs]

theorem rtF_of_rtE {e : PExpr} (hc : (e.isAddSub || e.isMul) = true) (hn : needF e = needE e + 1) (h : RtE e) :
    RtF e := by
  intro fuel rest hf
  obtain ⟨k, rfl⟩ : ∃ k, fuel = k + 1 := ⟨fuel - 1, by omega⟩
  simp only [factorToks, hc, if_true]
  exact parseFactor_paren k e e.toks rest (h.full k (.rpar :: rest) rfl (by omega))

theorem rtT_of_rtF {e : PExpr} (hc : e.isMul = false) (hn : needT e = needF e + 1) (hcT : cT e = 1) (h : RtF e) :
    RtT e := by
  intro fuel rest hf
  have : termToks e = factorToks e := by simp [termToks, factorToks, hc]
  rw [this, hcT, parseTerm_of_factor fuel e _ rest (h fuel rest (by omega))]

theorem rtE_of_rtT {e : PExpr} (hc : e.isAddSub = false) (hn : needE e = needT e + 1) (hcE : cE e = 1)
    (h : RtT e) : RtE e := by
  intro fuel rest hs hf
  have : e.toks = termToks e := by simp [termToks, hc]
  rw [this, hcE, parseExpr_of_term fuel e _ rest (h.full fuel rest hs (by omega))]

theorem rtT_mul {l r : PExpr} (hl : RtT l) (hr : RtF r) : RtT (.mul l r) := by
  intro fuel rest hf
  have hn : needT (.mul l r) = max (needT l) (needF r + cT l + 1) := rfl
  have hterm : termToks (.mul l r) = termToks l ++ .star :: factorToks r := by
    simp [termToks, PExpr.isAddSub, toks_mul]
  simp only [cT] at hf ⊢
  rw [hterm, List.append_assoc, List.cons_append, ← Nat.add_assoc,
    show fuel + cT l + 1 = (fuel + 1) + cT l by omega, hl (fuel + 1) _ (by omega),
    parseTermRest_star fuel l r _ rest (hr fuel rest (by omega))]

theorem rtE_add {l r : PExpr} (hl : RtE l) (hr : RtT r) : RtE (.add l r) := by
  intro fuel rest hs hf
  have hn : needE (.add l r) = max (needE l) (needT r + cE l + 1) := rfl
  simp only [cE] at hf ⊢
  rw [toks_add, List.append_assoc, List.cons_append, ← Nat.add_assoc,
    show fuel + cE l + 1 = (fuel + 1) + cE l by omega, hl (fuel + 1) _ rfl (by omega),
    parseExprRest_plus fuel l r _ rest (hr.full fuel rest hs (by omega))]

theorem rtE_sub {l r : PExpr} (hl : RtE l) (hr : RtT r) : RtE (.sub l r) := by
  intro fuel rest hs hf
  have hn : needE (.sub l r) = max (needE l) (needT r + cE l + 1) := rfl
  simp only [cE] at hf ⊢
  rw [toks_sub, List.append_assoc, List.cons_append, ← Nat.add_assoc,
    show fuel + cE l + 1 = (fuel + 1) + cE l by omega, hl (fuel + 1) _ rfl (by omega),
    parseExprRest_minus fuel l r _ rest (hr.full fuel rest hs (by omega))]

theorem rt_all (e : PExpr) : RtE e ∧ RtT e ∧ RtF e := by
  induction e with
  | int s =>
    have hF : RtF (.int s) := by
      intro fuel rest hf
      obtain ⟨k, rfl⟩ : ∃ k, fuel = k + 1 := ⟨fuel - 1, by have := needF_pos (.int s); omega⟩
      simp [factorToks, PExpr.isAddSub, PExpr.isMul, PExpr.toks, parseFactor]
    have hT := rtT_of_rtF (e := .int s) rfl rfl rfl hF
    exact ⟨rtE_of_rtT rfl rfl rfl hT, hT, hF⟩
  | flt s =>
    have hF : RtF (.flt s) := by
      intro fuel rest hf
      obtain ⟨k, rfl⟩ : ∃ k, fuel = k + 1 := ⟨fuel - 1, by have := needF_pos (.flt s); omega⟩
      simp [factorToks, PExpr.isAddSub, PExpr.isMul, PExpr.toks, parseFactor]
    have hT := rtT_of_rtF (e := .flt s) rfl rfl rfl hF
    exact ⟨rtE_of_rtT rfl rfl rfl hT, hT, hF⟩
  | tensor n idx =>
    have hF : RtF (.tensor n idx) := by
      intro fuel rest hf
      obtain ⟨k, rfl⟩ : ∃ k, fuel = k + 1 := ⟨fuel - 1, by have := needF_pos (.tensor n idx); omega⟩
      simp only [factorToks, PExpr.isAddSub, PExpr.isMul, PExpr.toks, Bool.or_self, Bool.false_eq_true, if_false]
      exact parseFactor_tensor k n idx rest
    have hT := rtT_of_rtF (e := .tensor n idx) rfl rfl rfl hF
    exact ⟨rtE_of_rtT rfl rfl rfl hT, hT, hF⟩
  | add l r ihl ihr =>
    have hE := rtE_add ihl.1 ihr.2.1
    have hF := rtF_of_rtE (e := .add l r) rfl rfl hE
    exact ⟨hE, rtT_of_rtF rfl rfl rfl hF, hF⟩
  | sub l r ihl ihr =>
    have hE := rtE_sub ihl.1 ihr.2.1
    have hF := rtF_of_rtE (e := .sub l r) rfl rfl hE
    exact ⟨hE, rtT_of_rtF rfl rfl rfl hF, hF⟩
  | mul l r ihl ihr =>
    have hT := rtT_mul ihl.2.1 ihr.2.2
    have hE := rtE_of_rtT (e := .mul l r) rfl rfl rfl hT
    exact ⟨hE, hT, rtF_of_rtE rfl rfl hE⟩

/-! ### the fuel needed is at most three times the number of tokens -/

theorem length_parenToks (ts : List Tok) : (parenToks ts).length = ts.length + 2 := by
  simp [parenToks]

theorem toks_length_pos (e : PExpr) : 1 ≤ e.toks.length := by
  cases e <;> simp [PExpr.toks, tensorToks] <;> omega

theorem termToks_length (e : PExpr) :
    (termToks e).length = if e.isAddSub then e.toks.length + 2 else e.toks.length := by
  unfold termToks; split <;> simp [length_parenToks]

theorem factorToks_length (e : PExpr) :
    (factorToks e).length = if e.isAddSub || e.isMul then e.toks.length + 2 else e.toks.length := by
  unfold factorToks; split <;> simp [length_parenToks]

theorem cT_le (e : PExpr) : cT e ≤ e.toks.length := by
  induction e with
  | mul l r ihl _ =>
    have := termToks_length l
    have := toks_length_pos r
    have := factorToks_length r
    simp only [cT, toks_mul, List.length_append, List.length_cons]
    split at * <;> split at * <;> omega
  | _ => simp only [cT]; exact toks_length_pos _

theorem cE_le (e : PExpr) : cE e ≤ e.toks.length := by
  induction e with
  | add l r ihl _ =>
    have := termToks_length r
    have := toks_length_pos r
    simp only [cE, toks_add, List.length_append, List.length_cons]
    split at * <;> omega
  | sub l r ihl _ =>
    have := termToks_length r
    have := toks_length_pos r
    simp only [cE, toks_sub, List.length_append, List.length_cons]
    split at * <;> omega
  | _ => simp only [cE]; exact toks_length_pos _

theorem needs_le (e : PExpr) :
    needE e ≤ 3 * e.toks.length ∧ needT e + 1 ≤ 3 * (termToks e).length ∧
      needF e + 2 ≤ 3 * (factorToks e).length := by
  induction e with
  | int s => simp [needE, needT, needF, needs, termToks, factorToks, PExpr.toks, PExpr.isAddSub, PExpr.isMul]
  | flt s => simp [needE, needT, needF, needs, termToks, factorToks, PExpr.toks, PExpr.isAddSub, PExpr.isMul]
  | tensor n idx =>
    have := toks_length_pos (.tensor n idx)
    simp only [needE, needT, needF, needs, termToks, factorToks, PExpr.isAddSub, PExpr.isMul,
      Bool.or_self, Bool.false_eq_true, if_false]
    omega
  | add l r ihl ihr =>
    have hE : needE (.add l r) = max (needE l) (needT r + cE l + 1) := rfl
    have hT : needT (.add l r) = needE (.add l r) + 2 := rfl
    have hF : needF (.add l r) = needE (.add l r) + 1 := rfl
    have := cE_le l
    have h1 : (PExpr.add l r).toks.length = l.toks.length + (1 + (termToks r).length) := by
      simp [toks_add]; omega
    have h2 : (termToks (.add l r)).length = (PExpr.add l r).toks.length + 2 := by
      simp [termToks_length, PExpr.isAddSub]
    have h3 : (factorToks (.add l r)).length = (PExpr.add l r).toks.length + 2 := by
      simp [factorToks_length, PExpr.isAddSub]
    omega
  | sub l r ihl ihr =>
    have hE : needE (.sub l r) = max (needE l) (needT r + cE l + 1) := rfl
    have hT : needT (.sub l r) = needE (.sub l r) + 2 := rfl
    have hF : needF (.sub l r) = needE (.sub l r) + 1 := rfl
    have := cE_le l
    have h1 : (PExpr.sub l r).toks.length = l.toks.length + (1 + (termToks r).length) := by
      simp [toks_sub]; omega
    have h2 : (termToks (.sub l r)).length = (PExpr.sub l r).toks.length + 2 := by
      simp [termToks_length, PExpr.isAddSub]
    have h3 : (factorToks (.sub l r)).length = (PExpr.sub l r).toks.length + 2 := by
      simp [factorToks_length, PExpr.isAddSub]
    omega
  | mul l r ihl ihr =>
    have hT : needT (.mul l r) = max (needT l) (needF r + cT l + 1) := rfl
    have hE : needE (.mul l r) = needT (.mul l r) + 1 := rfl
    have hF : needF (.mul l r) = needT (.mul l r) + 2 := rfl
    have hc := cT_le l
    have hl := termToks_length l
    have h1 : (PExpr.mul l r).toks.length = (termToks l).length + (1 + (factorToks r).length) := by
      simp [toks_mul]; omega
    have h2 : (termToks (.mul l r)).length = (PExpr.mul l r).toks.length := by
      simp [termToks_length, PExpr.isAddSub]
    have h3 : (factorToks (.mul l r)).length = (PExpr.mul l r).toks.length + 2 := by
      simp [factorToks_length, PExpr.isAddSub, PExpr.isMul]
    split at hl <;> omega

/-! ### G1 -/

/-- printing then parsing gives the tree back, with the exact fuel requirement -/
theorem parseExpr_toks_need (e : PExpr) (rest : List Tok) (fuel : Nat)
    (hrest : Stops rest = true) (hfuel : needE e ≤ fuel) : parseExpr fuel (e.toks ++ rest) = some (e, rest) :=
  (rt_all e).1.full fuel rest hrest hfuel

theorem parseTerm_termToks (e : PExpr) (rest : List Tok) (fuel : Nat)
    (hrest : noStar rest = true) (hfuel : 3 * (termToks e).length ≤ fuel) :
    parseTerm fuel (termToks e ++ rest) = some (e, rest) :=
  (rt_all e).2.1.full fuel rest hrest (by have := (needs_le e).2.1; omega)

theorem parseFactor_factorToks (e : PExpr) (rest : List Tok) (fuel : Nat)
    (hfuel : 3 * (factorToks e).length ≤ fuel) : parseFactor fuel (factorToks e ++ rest) = some (e, rest) :=
  (rt_all e).2.2 fuel rest (by have := (needs_le e).2.2; omega)

/-- with the tree-independent fuel bound: three times the number of printed tokens -/
theorem parseExpr_toks_fuel (e : PExpr) (rest : List Tok) (fuel : Nat)
    (hrest : Stops rest = true) (hfuel : 3 * e.toks.length ≤ fuel) :
    parseExpr fuel (e.toks ++ rest) = some (e, rest) :=
  parseExpr_toks_need e rest fuel hrest (by have := (needs_le e).1; omega)

/-! ### the assignment level, given the lexer result -/

theorem assignToks_eq (a : PAssign) :
    a.toks = .name a.tname :: .lpar :: (idxToks a.tidx ++ .rpar :: .eq :: a.rhs.toks) := by
  simp [PAssign.toks, tensorToks_eq]

/-- the token-level part of `parseAssignment` -/
def parseAssignToks (ts : List Tok) (complete : Bool) : Except ParseErr PAssign :=
  match ts with
  | .name n :: .lpar :: rest =>
    match parseIndexes rest with
    | some (idx, .eq :: rest') =>
      match parseExpr (3 * ts.length + 3) rest' with
      | some (e, remaining) =>
        match validate ⟨n, idx, e⟩ with
        | some err => .error err
        | none => if remaining.isEmpty && complete then .ok ⟨n, idx, e⟩ else .error .syntax
      | none => .error .syntax
    | _ => .error .syntax
  | _ => .error .syntax

theorem parseAssignment_eq_toks (s : String) : parseAssignment s = parseAssignToks (lex s).1 (lex s).2 := rfl

/-- if the lexer returns the printed tokens of an assignment, `parseAssignment` rebuilds the assignment and
reports what `validate` says about it -/
theorem parseAssignment_of_lex (a : PAssign) (s : String) (hlex : lex s = (a.toks, true)) :
    parseAssignment s = match validate a with
      | some err => .error err
      | none => .ok a := by
  have hfuel : 3 * a.rhs.toks.length ≤ 3 * a.toks.length + 3 := by
    rw [assignToks_eq]; simp only [List.length_cons, List.length_append]; omega
  have hE := parseExpr_toks_fuel a.rhs [] (3 * a.toks.length + 3) rfl hfuel
  rw [List.append_nil] at hE
  unfold parseAssignment
  rw [hlex]
  simp only
  rw [assignToks_eq] at hE ⊢
  simp only [parseIndexes_idxToks, hE]
  cases validate a <;> rfl

end TV.Parse
