/-
C12 (validation part): `validate a = none` characterised declaratively, plus the classification of
the three errors it can return.
-/
import TensoraVerif.Model.Parser

namespace TV.Parse

/-! ### `namesInOrder` has the same members as the list of tensor names -/

theorem mem_namesFold (ts : List (String × List String)) (acc : List String) (n : String) :
    n ∈ ts.foldl (fun acc t => if acc.contains t.1 then acc else acc ++ [t.1]) acc ↔
      n ∈ acc ∨ n ∈ ts.map (·.1) := by
  induction ts generalizing acc with
  | nil => simp
  | cons t ts ih =>
    simp only [List.foldl_cons, List.map_cons, List.mem_cons]
    rw [ih]
    by_cases h : acc.contains t.1 = true
    · simp only [h, if_true]
      have : t.1 ∈ acc := by simpa using h
      constructor
      · rintro (h | h)
        · exact Or.inl h
        · exact Or.inr (Or.inr h)
      · rintro (h | h | h)
        · exact Or.inl h
        · exact Or.inl (h ▸ this)
        · exact Or.inr h
    · simp only [h]
      simp [or_assoc]

theorem mem_namesInOrder (ts : List (String × List String)) (n : String) :
    n ∈ namesInOrder ts ↔ n ∈ ts.map (·.1) := by
  unfold namesInOrder
  rw [mem_namesFold]
  simp

/-! ### the per-name step of `validate` -/

/-- the body of the loop over the tensor names -/
def valStep (tn : String) (ts : List (String × List String)) (acc : Option ParseErr) (n : String) :
    Option ParseErr :=
  match acc with
  | some e => some e
  | none =>
    if n == tn then some .mutating
    else
      match ts.filter (·.1 == n) with
      | [] => none
      | first :: rest =>
        if rest.all (fun t => t.2.length == first.2.length) then none
        else some .inconsistentDimensions

/-- the result of the loop over the tensor names -/
def perName (tn : String) (ts : List (String × List String)) : Option ParseErr :=
  (namesInOrder ts).foldl (valStep tn ts) none

theorem validate_eq (a : PAssign) :
    validate a =
      match perName a.tname (tensorsOf a.rhs) with
      | some e => some e
      | none =>
        if (a.tidx ++ (tensorsOf a.rhs).flatMap (·.2)).any
            (a.tname :: namesInOrder (tensorsOf a.rhs)).contains
        then some .nameConflict else none := rfl

theorem foldl_valStep_some (tn : String) (ts : List (String × List String)) (names : List String)
    (e : ParseErr) : names.foldl (valStep tn ts) (some e) = some e := by
  induction names with
  | nil => rfl
  | cons n names ih => simpa [List.foldl_cons, valStep] using ih

theorem foldl_valStep_none (tn : String) (ts : List (String × List String)) (names : List String) :
    names.foldl (valStep tn ts) none = none ↔ ∀ n ∈ names, valStep tn ts none n = none := by
  induction names with
  | nil => simp
  | cons n names ih =>
    simp only [List.foldl_cons, List.mem_cons, forall_eq_or_imp]
    cases h : valStep tn ts none n with
    | none => simp [ih]
    | some e => simp [foldl_valStep_some]

/-- all occurrences of `n` in `ts` have the same number of indexes -/
def consistentAt (ts : List (String × List String)) (n : String) : Prop :=
  ∀ t₁ ∈ ts, ∀ t₂ ∈ ts, t₁.1 = n → t₂.1 = n → t₁.2.length = t₂.2.length

theorem filter_consistent (ts : List (String × List String)) (n : String) :
    (match ts.filter (·.1 == n) with
      | [] => (none : Option ParseErr)
      | first :: rest =>
        if rest.all (fun t => t.2.length == first.2.length) then none
        else some .inconsistentDimensions) = none ↔ consistentAt ts n := by
  have hmem : ∀ t, t ∈ ts.filter (·.1 == n) ↔ t ∈ ts ∧ t.1 = n := by
    intro t; simp [List.mem_filter]
  unfold consistentAt
  generalize ts.filter (·.1 == n) = occ at hmem
  cases occ with
  | nil =>
    simp only [true_iff]
    intro t₁ h₁ _ _ e₁ _
    exact absurd ((hmem t₁).2 ⟨h₁, e₁⟩) (by simp)
  | cons first rest =>
    simp only
    constructor
    · intro h
      have hall : ∀ t ∈ rest, t.2.length = first.2.length := by
        by_cases hc : rest.all (fun t => t.2.length == first.2.length) = true
        · simpa [List.all_eq_true] using hc
        · simp [hc] at h
      have hf : ∀ t, t ∈ ts → t.1 = n → t.2.length = first.2.length := by
        intro t ht e
        have := (hmem t).2 ⟨ht, e⟩
        rcases List.mem_cons.1 this with h | h
        · rw [h]
        · exact hall t h
      intro t₁ h₁ t₂ h₂ e₁ e₂
      rw [hf t₁ h₁ e₁, hf t₂ h₂ e₂]
    · intro h
      have hfirst := (hmem first).1 (List.mem_cons_self ..)
      have hc : rest.all (fun t => t.2.length == first.2.length) = true := by
        simp only [List.all_eq_true, beq_iff_eq]
        intro t ht
        have := (hmem t).1 (List.mem_cons_of_mem _ ht)
        exact h t this.1 first hfirst.1 this.2 hfirst.2
      simp [hc]

theorem valStep_none (tn : String) (ts : List (String × List String)) (n : String) :
    valStep tn ts none n = none ↔ n ≠ tn ∧ consistentAt ts n := by
  unfold valStep
  by_cases h : n = tn
  · simp [h]
  · simp only [beq_iff_eq, h, if_false, ne_eq, not_false_eq_true, true_and]
    exact filter_consistent ts n

theorem perName_none (tn : String) (ts : List (String × List String)) :
    perName tn ts = none ↔
      tn ∉ ts.map (·.1) ∧
      ∀ t₁ ∈ ts, ∀ t₂ ∈ ts, t₁.1 = t₂.1 → t₁.2.length = t₂.2.length := by
  unfold perName
  rw [foldl_valStep_none]
  simp only [valStep_none, mem_namesInOrder]
  constructor
  · intro h
    refine ⟨fun hm => (h tn hm).1 rfl, ?_⟩
    intro t₁ h₁ t₂ h₂ e
    exact (h t₂.1 (List.mem_map_of_mem h₂)).2 t₁ h₁ t₂ h₂ e rfl
  · rintro ⟨h1, h2⟩ n hn
    refine ⟨fun e => h1 (e ▸ hn), ?_⟩
    intro t₁ h₁ t₂ h₂ e₁ e₂
    exact h2 t₁ h₁ t₂ h₂ (e₁.trans e₂.symm)

/-! ### the name/index conflict test -/

theorem conflict_false (tn : String) (ts : List (String × List String)) (idx : List String) :
    idx.any (tn :: namesInOrder ts).contains = false ↔
      ∀ i ∈ idx, i ≠ tn ∧ i ∉ ts.map (·.1) := by
  simp only [List.any_eq_false, List.contains_iff_mem, List.mem_cons, mem_namesInOrder, not_or,
    ne_eq]

/-! ### main theorem -/

theorem validate_none_iff_lem (a : PAssign) :
    validate a = none ↔
      (a.tname ∉ (tensorsOf a.rhs).map (·.1)) ∧
      (∀ t₁ ∈ tensorsOf a.rhs, ∀ t₂ ∈ tensorsOf a.rhs, t₁.1 = t₂.1 → t₁.2.length = t₂.2.length) ∧
      (∀ i ∈ a.tidx ++ (tensorsOf a.rhs).flatMap (·.2),
        i ≠ a.tname ∧ i ∉ (tensorsOf a.rhs).map (·.1)) := by
  rw [validate_eq, ← and_assoc, ← perName_none, ← conflict_false]
  cases h : perName a.tname (tensorsOf a.rhs) with
  | some e => simp
  | none =>
    simp only [true_and]
    cases hc : (a.tidx ++ (tensorsOf a.rhs).flatMap (·.2)).any
        (a.tname :: namesInOrder (tensorsOf a.rhs)).contains <;> simp

/-! ### classification of the errors -/

theorem foldl_valStep_eq_some (tn : String) (ts : List (String × List String))
    (names : List String) (e : ParseErr) (h : names.foldl (valStep tn ts) none = some e) :
    ∃ n ∈ names, valStep tn ts none n = some e := by
  induction names with
  | nil => simp at h
  | cons n names ih =>
    rw [List.foldl_cons] at h
    cases hn : valStep tn ts none n with
    | none =>
      rw [hn] at h
      obtain ⟨m, hm, hv⟩ := ih h
      exact ⟨m, List.mem_cons_of_mem _ hm, hv⟩
    | some e' =>
      rw [hn, foldl_valStep_some] at h
      exact ⟨n, List.mem_cons_self .., h ▸ hn⟩

theorem valStep_eq_some (tn : String) (ts : List (String × List String)) (n : String)
    (e : ParseErr) (h : valStep tn ts none n = some e) :
    (e = .mutating ∧ n = tn) ∨ (e = .inconsistentDimensions ∧ n ≠ tn ∧ ¬ consistentAt ts n) := by
  by_cases hn : n = tn
  · left
    simp [valStep, hn] at h
    exact ⟨h.symm, hn⟩
  · right
    have hc : ¬ consistentAt ts n := by
      intro hc
      have := (valStep_none tn ts n).2 ⟨hn, hc⟩
      rw [this] at h
      cases h
    refine ⟨?_, hn, hc⟩
    unfold valStep at h
    simp only [beq_iff_eq, hn, if_false] at h
    split at h
    · cases h
    · split at h
      · cases h
      · exact (Option.some.inj h).symm

theorem perName_eq_some (tn : String) (ts : List (String × List String)) (e : ParseErr)
    (h : perName tn ts = some e) :
    (e = .mutating ∧ tn ∈ ts.map (·.1)) ∨
    (e = .inconsistentDimensions ∧
      ∃ t₁ ∈ ts, ∃ t₂ ∈ ts, t₁.1 = t₂.1 ∧ t₁.2.length ≠ t₂.2.length) := by
  obtain ⟨n, hn, hv⟩ := foldl_valStep_eq_some tn ts _ e h
  rw [mem_namesInOrder] at hn
  rcases valStep_eq_some tn ts n e hv with ⟨he, hnt⟩ | ⟨he, _, hc⟩
  · exact Or.inl ⟨he, hnt ▸ hn⟩
  · refine Or.inr ⟨he, ?_⟩
    apply Classical.byContradiction
    intro hno
    apply hc
    intro t₁ h₁ t₂ h₂ e₁ e₂
    apply Classical.byContradiction
    intro hne
    exact hno ⟨t₁, h₁, t₂, h₂, e₁.trans e₂.symm, hne⟩

/-- what `validate` can return, and why -/
theorem validate_eq_some (a : PAssign) (e : ParseErr) (h : validate a = some e) :
    (e = .mutating ∧ a.tname ∈ (tensorsOf a.rhs).map (·.1)) ∨
    (e = .inconsistentDimensions ∧
      ∃ t₁ ∈ tensorsOf a.rhs, ∃ t₂ ∈ tensorsOf a.rhs, t₁.1 = t₂.1 ∧ t₁.2.length ≠ t₂.2.length) ∨
    (e = .nameConflict ∧
      ∃ i ∈ a.tidx ++ (tensorsOf a.rhs).flatMap (·.2),
        i = a.tname ∨ i ∈ (tensorsOf a.rhs).map (·.1)) := by
  rw [validate_eq] at h
  cases hp : perName a.tname (tensorsOf a.rhs) with
  | some e' =>
    rw [hp] at h
    simp only [Option.some.injEq] at h
    subst h
    rcases perName_eq_some _ _ _ hp with h | h
    · exact Or.inl h
    · exact Or.inr (Or.inl h)
  | none =>
    rw [hp] at h
    simp only at h
    split at h
    · rename_i hc
      refine Or.inr (Or.inr ⟨(Option.some.inj h).symm, ?_⟩)
      simp only [List.any_eq_true, List.contains_iff_mem, List.mem_cons, mem_namesInOrder] at hc
      exact hc
    · cases h

theorem validate_mutating_of_lem (a : PAssign) (h : validate a = some .mutating) :
    a.tname ∈ (tensorsOf a.rhs).map (·.1) := by
  rcases validate_eq_some a _ h with ⟨_, h⟩ | ⟨he, _⟩ | ⟨he, _⟩
  · exact h
  · cases he
  · cases he

theorem validate_inconsistent_of_lem (a : PAssign) (h : validate a = some .inconsistentDimensions) :
    ∃ t₁ ∈ tensorsOf a.rhs, ∃ t₂ ∈ tensorsOf a.rhs, t₁.1 = t₂.1 ∧ t₁.2.length ≠ t₂.2.length := by
  rcases validate_eq_some a _ h with ⟨he, _⟩ | ⟨_, h⟩ | ⟨he, _⟩
  · cases he
  · exact h
  · cases he

theorem validate_nameConflict_of_lem (a : PAssign) (h : validate a = some .nameConflict) :
    ∃ i ∈ a.tidx ++ (tensorsOf a.rhs).flatMap (·.2),
      i = a.tname ∨ i ∈ (tensorsOf a.rhs).map (·.1) := by
  rcases validate_eq_some a _ h with ⟨he, _⟩ | ⟨he, _⟩ | ⟨_, h⟩
  · cases he
  · cases he
  · exact h

theorem validate_ne_syntax_lem (a : PAssign) : validate a ≠ some .syntax := by
  intro h
  rcases validate_eq_some a _ h with ⟨he, _⟩ | ⟨he, _⟩ | ⟨he, _⟩ <;> cases he

/-! ### examples -/

/-- `a(i) = b(i,j) * c(j)` is accepted -/
example : validate ⟨"a", ["i"], .mul (.tensor "b" ["i","j"]) (.tensor "c" ["j"])⟩ = none := by
  decide

/-- `a(i) = a(i) + b(i)` -/
example : validate ⟨"a", ["i"], .add (.tensor "a" ["i"]) (.tensor "b" ["i"])⟩ = some .mutating := by
  decide

/-- `a(i) = b(i) + b(i,j)` -/
example : validate ⟨"a", ["i"], .add (.tensor "b" ["i"]) (.tensor "b" ["i", "j"])⟩ =
    some .inconsistentDimensions := by
  decide

/-- `a(i) = b(a)` and `a(b) = b(i)` -/
example : validate ⟨"a", ["i"], .tensor "b" ["a"]⟩ = some .nameConflict := by decide
example : validate ⟨"a", ["b"], .tensor "b" ["i"]⟩ = some .nameConflict := by decide

/-- order of the checks: the names are visited in order of first occurrence, and the first name that
fails either per-name test decides. `a(i) = b(i) * b(i,j) * a(i)`: `b` comes first -/
example : validate ⟨"a", ["i"],
    .mul (.mul (.tensor "b" ["i"]) (.tensor "b" ["i", "j"])) (.tensor "a" ["i"])⟩ =
    some .inconsistentDimensions := by
  decide

/-- `a(i) = a(i) * b(i) * b(i,j)`: `a` comes first -/
example : validate ⟨"a", ["i"],
    .mul (.mul (.tensor "a" ["i"]) (.tensor "b" ["i"])) (.tensor "b" ["i", "j"])⟩ =
    some .mutating := by
  decide


end TV.Parse
