import TensoraVerif.Lemmas.PeepTypedInv
import TensoraVerif.Lemmas.ScopedBasic
import TensoraVerif.Lemmas.PeepholeExact

/-!
C07 (typed fragment): the computable checks are sound — `State.agrees Γ σ = true → WT Γ σ`
(`agrees_WT`) — the typing `Func.tyEnv` of a function with consistent declarations gives every
declaration its type (`tyEnv_of_hoistConsistent`), and the typed fragment contains the untyped one
at expression level (`noRetypeE_of_noFloatIdentityE`).
-/
namespace TV.IR
set_option linter.unusedSectionVars false
variable {F : Type} [FloatOps F]

theorem blkTyB_sound {h : List (Block F)} {b : Nat} {et : ElemTy} (hb : blkTyB h b et = true) :
    BlkTy h b et := by
  unfold blkTyB at hb
  split at hb
  · rename_i blk e; exact ⟨blk, e, by simpa using hb⟩
  · cases hb

theorem ptrBlkB_sound {h : List (Block F)} {et : ElemTy} {v : Val F} (hb : ptrBlkB h et v = true) :
    PtrBlk h et v := by
  intro b off e; subst e
  exact blkTyB_sound hb

/-- the decidable check implies the invariant -/
theorem agrees_WT {Γ : String → Option Ty} {σ : State F} (h : σ.agrees Γ = true) : WT Γ σ := by
  simp only [State.agrees, Bool.and_eq_true, List.all_eq_true] at h
  obtain ⟨hv, ht⟩ := h
  constructor
  · intro x t r hΓ hr
    have hmem : r ∈ σ.vars := List.mem_of_find?_eq_some hr
    have hname : r.name = x := Scoped.lookupVar_name hr
    have := hv r hmem
    unfold varOKB at this
    rw [hname, hΓ] at this
    simp only [Bool.and_eq_true, beq_iff_eq] at this
    refine ⟨this.1, ?_⟩
    intro v hval
    have h2 := this.2
    rw [hval] at h2
    simp only [Bool.and_eq_true, Bool.or_eq_true, bne_iff_ne, ne_eq] at h2
    constructor
    · intro e
      rcases h2.1 with h3 | h3
      · exact absurd e h3
      · exact ptrBlkB_sound h3
    · intro e
      rcases h2.2 with h3 | h3
      · exact absurd e h3
      · exact ptrBlkB_sound h3
  · intro k tr hk
    have hmem : tr ∈ σ.tensors := List.mem_of_getElem? hk
    have := ht tr hmem
    simp only [tensorOKB, Bool.and_eq_true, List.all_eq_true] at this
    obtain ⟨⟨h1, h2⟩, h3⟩ := this
    refine ⟨blkTyB_sound h1, ptrBlkB_sound h2, ?_⟩
    intro l p c hs
    have := h3 _ (List.mem_of_getElem? hs)
    simp only [slotOKB, Bool.and_eq_true] at this
    exact ⟨ptrBlkB_sound this.1, ptrBlkB_sound this.2⟩

/-! ### the typing of a function -/

theorem lookupTy_of_consistent {ds : List (String × Ty)}
    (hc : ds.all (fun d => ds.all fun d' => d.1 != d'.1 || d.2 == d'.2) = true)
    {x : String} {t : Ty} (hm : (x, t) ∈ ds) : lookupTy ds x = some t := by
  have key : ∀ (l : List (String × Ty)), (∀ d ∈ l, d ∈ ds) → (x, t) ∈ l → lookupTy l x = some t := by
    intro l
    induction l with
    | nil => intro _ h; cases h
    | cons d rest ih =>
      intro hsub hin
      unfold lookupTy
      by_cases hd : (d.1 == x) = true
      · rw [if_pos hd]
        have hdx : d.1 = x := by simpa using hd
        simp only [List.all_eq_true] at hc
        have := hc d (hsub d (List.mem_cons_self)) (x, t) hm
        simp only [Bool.or_eq_true, bne_iff_ne, ne_eq, beq_iff_eq] at this
        rcases this with h1 | h1
        · exact absurd hdx h1
        · rw [h1]
      · rw [if_neg hd]
        rcases List.mem_cons.1 hin with e | e
        · subst e; simp at hd
        · exact ih (fun d' hd' => hsub d' (List.mem_cons_of_mem _ hd')) e
  exact key ds (fun _ h => h) hm

/-- under the hoisting certificate every parameter and every declaration has its type in the
function's typing, so `declOK` never fails -/
theorem tyEnv_of_hoistConsistent {f : Func F} (hc : hoistConsistent f.params f.body = true)
    {x : String} {t : Ty} (hm : (x, t) ∈ f.params ++ f.body.decls) : f.tyEnv x = some t :=
  lookupTy_of_consistent hc hm

theorem declOK_of_tyEnv {f : Func F} {x : String} {t : Ty} (h : f.tyEnv x = some t) :
    declOK f.tyEnv x t = true := by
  unfold declOK; rw [h]; simp

/-! ### the typed fragment contains the untyped one (expressions) -/

theorem binOKT_of_binOK {fl fr il ir : Bool} {op : BinOp} {l r : Expr F}
    (h : binOK op l r = true) : binOKT fl fr il ir op l r = true := by
  cases op <;> simp only [binOK, binOKT] at h ⊢
  case add =>
    simp only [Bool.and_eq_true, Bool.or_eq_true, Bool.not_eq_true'] at h
    obtain ⟨h1, h2⟩ := h
    split; · rfl
    rename_i hl
    rw [if_neg (by rw [h1]; decide)]
    split; · rfl
    rename_i hr
    rcases h2 with h2 | h2
    · exact absurd h2 hl
    · rw [if_neg (by rw [h2]; decide)]
  case sub =>
    simp only [Bool.not_eq_true'] at h
    split; · rfl
    rw [if_neg (by rw [h]; decide)]
  case mul =>
    simp only [Bool.and_eq_true, Bool.or_eq_true, Bool.not_eq_true'] at h
    obtain ⟨h1, h2⟩ := h
    have h1' : ¬ (l.isInt 0 || r.isInt 0) = true := by rw [h1]; decide
    rw [if_neg h1']
    split; · rfl
    rename_i hfz
    have h3 : l.isFloatOne = false ∧ (l.isInt 1 = true ∨ r.isFloatOne = false) := by
      rcases h2 with (h' | h') | h'
      · simp [h'] at hfz
      · simp [h'] at hfz
      · exact h'
    split; · rfl
    rename_i hl1
    rw [if_neg (by rw [h3.1]; decide)]
    split; · rfl
    rcases h3.2 with h4 | h4
    · exact absurd h4 hl1
    · rw [if_neg (by rw [h4]; decide)]

theorem noRetypeE_of_noFloatIdentityE (Γ : String → Option Ty) {e : Expr F}
    (h : NoFloatIdentityE e = true) : NoRetypeE Γ e = true := by
  induction e with
  | var x => rfl
  | attr t a ih => simp only [NoFloatIdentityE] at h; simp only [NoRetypeE]; exact ih h
  | idx t i iht ihi =>
    simp only [NoFloatIdentityE, Bool.and_eq_true] at h
    simp only [NoRetypeE, Bool.and_eq_true]; exact ⟨iht h.1, ihi h.2⟩
  | intLit z => rfl
  | floatLit f => rfl
  | boolLit b => rfl
  | bin op l r ihl ihr =>
    simp only [NoFloatIdentityE, Bool.and_eq_true] at h
    simp only [NoRetypeE, Bool.and_eq_true]
    exact ⟨⟨ihl h.1.1, ihr h.1.2⟩, binOKT_of_binOK h.2⟩
  | b2i e ih => simp only [NoFloatIdentityE] at h; simp only [NoRetypeE]; exact ih h
  | alloc t n ih => simp only [NoFloatIdentityE] at h; simp only [NoRetypeE]; exact ih h
  | realloc o t n iho ihn =>
    simp only [NoFloatIdentityE, Bool.and_eq_true] at h
    simp only [NoRetypeE, Bool.and_eq_true]; exact ⟨iho h.1, ihn h.2⟩

end TV.IR
