import TensoraVerif.Lemmas.PeepTypedCheck
import TensoraVerif.Lemmas.PeepholeExamples

/-!
`VarsTyped` (the naive reading of "σ agrees with Γ", refuted in `Props/C07Typed.lean`), and
concrete programs and states over the exact carrier `F := Int` for the non-vacuity examples of
`Props/C07Typed.lean`.
-/
namespace TV.IR

/-- the naive reading of "σ agrees with Γ": every variable typed by `Γ` is declared at that type
and, if it holds a value, the value has the declared type (`VarRec.ty`, `hasTy`) -/
def VarsTyped (Γ : String → Option Ty) {F : Type} [FloatOps F] (σ : State F) : Prop :=
  ∀ x t r, Γ x = some t → lookupVar σ.vars x = some r →
    r.ty = t ∧ ∀ v, r.val = some v → hasTy t v = true

end TV.IR

namespace TV.IR.C07TypedEx

/-- the typing of the dense position arithmetic: three `int32_t` variables -/
def posEnv : String → Option Ty := lookupTy [("i_dim", .int), ("i", .int), ("p", .int)]

/-- `int32_t p = 0 * i_dim + i;` — what every dense level emits -/
def posStmt : Stmt Int :=
  .declAssign "p" .int (.bin .add (.bin .mul (.intLit 0) (.var "i_dim")) (.var "i"))

/-- the typing under which the F8 witness `(1.0 * i) * j` is rejected: `i`, `j` are `int32_t` -/
def f8Env : String → Option Ty := lookupTy [("i", .int), ("j", .int)]

/-- a small kernel with the shapes the compiler emits: unpacking of tensor fields, an allocation,
dense position arithmetic `0 * n + i`, and the float-literal identities `1.0 * a_vals[p] + 0.0`
around an array load:

```
int32_t n = a->dimensions[0];
double* a_vals = a->vals;
double* b_vals = malloc(sizeof(double) * n);
int32_t i = 0;
while (i < n) {
  int32_t p = 0 * n + i;
  b_vals[p] = 1.0 * a_vals[p] + 0.0;
  i = i + 1;
}
b->vals = b_vals;
return 0;
```
-/
def kernel : Func Int where
  name := "evaluate"
  params := [("a", .ptr .tensor), ("b", .ptr .tensor)]
  retTy := .int
  body := .block [
    .declAssign "n" .int (.idx (.attr (.var "a") "dimensions") (.intLit 0)),
    .declAssign "a_vals" (.ptr .float) (.attr (.var "a") "vals"),
    .declAssign "b_vals" (.ptr .float) (.alloc .float (.var "n")),
    .declAssign "i" .int (.intLit 0),
    .loop (.bin .lt (.var "i") (.var "n")) (.block [
      .declAssign "p" .int (.bin .add (.bin .mul (.intLit 0) (.var "n")) (.var "i")),
      .assign (.idx (.var "b_vals") (.var "p"))
        (.bin .add (.bin .mul (.floatLit 1) (.idx (.var "a_vals") (.var "p"))) (.floatLit 0)),
      .assign (.var "i") (.bin .add (.var "i") (.intLit 1))] none),
    .assign (.attr (.var "b") "vals") (.var "b_vals"),
    .ret (.intLit 0)] none

/-- what the optimiser makes of the body -/
def kernelOpt : Stmt Int :=
  .block [
    .declAssign "n" .int (.idx (.attr (.var "a") "dimensions") (.intLit 0)),
    .declAssign "a_vals" (.ptr .float) (.attr (.var "a") "vals"),
    .declAssign "b_vals" (.ptr .float) (.alloc .float (.var "n")),
    .declAssign "i" .int (.intLit 0),
    .loop (.bin .lt (.var "i") (.var "n")) (.block [
      .declAssign "p" .int (.var "i"),
      .assign (.idx (.var "b_vals") (.var "p")) (.idx (.var "a_vals") (.var "p")),
      .assign (.var "i") (.bin .add (.var "i") (.intLit 1))] none),
    .assign (.attr (.var "b") "vals") (.var "b_vals"),
    .ret (.intLit 0)] none

/-- entry state: `a` is an input vector `[10, 20]` (dimensions block 0, values block 1), `b` an
output vector whose values are not allocated yet (dimensions block 2) -/
def kernelState : State Int :=
  ⟨[⟨"a", .ptr .tensor, some (.tensor 0)⟩, ⟨"b", .ptr .tensor, some (.tensor 1)⟩],
   [⟨.int, [some (.int 2)], .input, true⟩,
    ⟨.float, [some (.flt 10), some (.flt 20)], .input, true⟩,
    ⟨.int, [some (.int 2)], .output, true⟩],
   [⟨1, 0, [none], .ptr 1 0, .input⟩, ⟨1, 2, [none], .null, .output⟩]⟩

/-- the original kernel runs to completion within fuel 5: two iterations, returns 0, and the output
block (block 3) holds `[10, 20]` -/
theorem kernel_runs : ∃ o, exec 5 kernel.body kernelState = .ok o ∧ o.ret = some (.int 0) ∧
    o.iters = 2 ∧ (o.st.heap[3]?).map (·.cells) = some [some (.flt 10), some (.flt 20)] := by
  simp [kernel, kernelState, exec, execL, evalRhs, evalE, evalLoc, store, declare, lookupVar, convTo,
    convElem, setVar, setVarOpt, chkInt, chkFlt, chkVal, inI32, hasTy, binVal, numOp, Val.toNum,
    Num.toF, readBlock, hasElemTy, Block.len, bind, Except.bind, Out.seq, doAlloc, elemOf, isPtrVal,
    FloatOps.finite, FloatOps.add, FloatOps.mul]

/-! ### why "σ agrees with Γ" must speak about the heap -/

/-- `a` is declared `double*` … -/
def badEnv : String → Option Ty := lookupTy [("a", .ptr .float)]

/-- … the variable record carries that type and holds a pointer (so every variable "holding a value
has the declared type" in the sense of `VarRec.ty` / `hasTy`), but the block it points to holds
32-bit integers -/
def badState : State Int :=
  ⟨[⟨"a", .ptr .float, some (.ptr 0 0)⟩], [⟨.int, [some (.int 100000)], .input, true⟩], []⟩

/-- `(1.0 * a[0]) * a[0]` -/
def badExpr : Expr Int :=
  .bin .mul (.bin .mul (.floatLit 1) (.idx (.var "a") (.intLit 0))) (.idx (.var "a") (.intLit 0))

end TV.IR.C07TypedEx
