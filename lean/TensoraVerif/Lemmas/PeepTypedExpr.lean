import TensoraVerif.Lemmas.PeepTypedSound

/-!
C07 (typed fragment), expression level: on a state that agrees with `Γ`, the optimised form of an
expression of the typed fragment `NoRetypeE Γ` evaluates to exactly the same value
(`peepE_exact_typed`).
-/
namespace TV.IR
set_option linter.unusedSectionVars false
variable {F : Type} [FloatOps F] [FloatLaws F]
open FloatOps FloatLaws

omit [FloatLaws F] in
theorem hasKindE_sound {Γ : String → Option Ty} {σ : State F} (wt : WT Γ σ) {e : Expr F} {v : Val F}
    {k : NumKind} (h : evalE σ e = .ok v) (h' : evalE σ (peepE e) = .ok v)
    (hk : hasKindE Γ k e = true) : HasKind σ.heap k v := by
  simp only [hasKindE, Bool.or_eq_true, beq_iff_eq] at hk
  rcases hk with hk | hk
  · exact tyOf_sound wt h hk
  · exact tyOf_sound wt h' hk

theorem mul_int_zero_left {j : Int} {v : Val F} (h : binVal .mul (.int 0) (.int j) = .ok v) :
    v = .int 0 := by
  simp only [binVal, Val.toNum, numOp] at h
  obtain ⟨rfl, _⟩ := chkInt_ok h; rw [Int.zero_mul]

theorem mul_int_zero_right {i : Int} {v : Val F} (h : binVal .mul (.int i) (.int 0) = .ok v) :
    v = .int 0 := by
  simp only [binVal, Val.toNum, numOp] at h
  obtain ⟨rfl, _⟩ := chkInt_ok h; rw [Int.mul_zero]

/-- the rule table for strict operators is exact when the rule that fires keeps the type -/
theorem peepBinT_exact {σ : State F} {op : BinOp} {l r : Expr F} {a b v : Val F} {fl fr il ir : Bool}
    (h1 : op ≠ .and) (h2 : op ≠ .or) (hok : binOKT fl fr il ir op l r = true)
    (hfl : fl = true → ∃ f, a = .flt f) (hfr : fr = true → ∃ f, b = .flt f)
    (hil : il = true → ∃ i, a = .int i) (hir : ir = true → ∃ i, b = .int i)
    (el : evalE σ l = .ok a) (er : evalE σ r = .ok b) (h : binVal op a b = .ok v) :
    evalE σ (peepBin op l r) = .ok v := by
  have wfa := evalE_wf el
  have wfb := evalE_wf er
  have base : evalE σ (.bin op l r) = .ok v := by
    rw [evalE_bin _ _ _ _ h1 h2, el, ok_bind, er, ok_bind]; exact h
  have cmp : l.beq r = true →
      (cmpTrue op = true → v = .bool true) ∧ (cmpFalse op = true → v = .bool false) := by
    intro hlr
    have := Expr.beq_eq hlr; subst this
    rw [el] at er; cases er
    exact binVal_self wfa h
  cases op <;> simp only [peepBin]
  case add =>
    simp only [binOKT] at hok
    split
    · rename_i hz; rw [Bool.or_eq_true] at hz
      by_cases hi : l.isInt 0 = true
      · rw [isInt_eq hi] at el
        cases evalE_intLit_inv el
        rw [add_izero_left wfb h]; exact er
      · have hz' : l.isFloatZero = true := hz.resolve_left hi
        rw [if_neg hi, if_pos hz'] at hok
        obtain ⟨g, rfl⟩ := hfr hok
        rw [isFloatZero_eq hz'] at el
        cases evalE_floatLit_inv el
        have := add_zero_left (Or.inr rfl) wfb h
        rw [coerce_from_flt] at this; rw [this]; exact er
    rename_i hl
    have hl1 : ¬ l.isInt 0 = true := fun e => hl (by simp [e])
    have hl2 : ¬ l.isFloatZero = true := fun e => hl (by simp [e])
    rw [if_neg hl1, if_neg hl2] at hok
    split
    · rename_i hz; rw [Bool.or_eq_true] at hz
      by_cases hi : r.isInt 0 = true
      · rw [isInt_eq hi] at er
        cases evalE_intLit_inv er
        rw [add_izero_right wfa h]; exact el
      · have hz' : r.isFloatZero = true := hz.resolve_left hi
        rw [if_neg hi, if_pos hz'] at hok
        obtain ⟨g, rfl⟩ := hfl hok
        rw [isFloatZero_eq hz'] at er
        cases evalE_floatLit_inv er
        have := add_zero_right (Or.inr rfl) wfa h
        rw [coerce_from_flt] at this; rw [this]; exact el
    exact base
  case sub =>
    simp only [binOKT] at hok
    split
    · rename_i hz; rw [Bool.or_eq_true] at hz
      by_cases hi : r.isInt 0 = true
      · rw [isInt_eq hi] at er
        cases evalE_intLit_inv er
        rw [sub_izero_right wfa h]; exact el
      · have hz' : r.isFloatZero = true := hz.resolve_left hi
        rw [if_neg hi, if_pos hz'] at hok
        obtain ⟨g, rfl⟩ := hfl hok
        rw [isFloatZero_eq hz'] at er
        cases evalE_floatLit_inv er
        have := sub_zero_right (Or.inr rfl) wfa h
        rw [coerce_from_flt] at this; rw [this]; exact el
    exact base
  case mul =>
    simp only [binOKT] at hok
    split
    · rename_i hz
      rw [if_pos hz, Bool.and_eq_true] at hok
      obtain ⟨i, rfl⟩ := hil hok.1
      obtain ⟨j, rfl⟩ := hir hok.2
      rw [Bool.or_eq_true] at hz
      rcases hz with hz | hz
      · rw [isInt_eq hz] at el
        cases evalE_intLit_inv el
        rw [mul_int_zero_left h]; exact evalE_int0 σ
      · rw [isInt_eq hz] at er
        cases evalE_intLit_inv er
        rw [mul_int_zero_right h]; exact evalE_int0 σ
    rename_i hz0
    rw [if_neg hz0] at hok
    split
    · rename_i hz; rw [Bool.or_eq_true] at hz
      rcases hz with hz | hz
      · rw [isFloatZero_eq hz] at el
        cases evalE_floatLit_inv el
        rw [mul_fzero_left wfb h]; exact evalE_fzero σ
      · rw [isFloatZero_eq hz] at er
        cases evalE_floatLit_inv er
        rw [mul_fzero_right wfa h]; exact evalE_fzero σ
    rename_i hfz
    rw [if_neg hfz] at hok
    split
    · rename_i hz; rw [Bool.or_eq_true] at hz
      by_cases hi : l.isInt 1 = true
      · rw [isInt_eq hi] at el
        cases evalE_intLit_inv el
        rw [mul_ione_left wfb h]; exact er
      · have hz' : l.isFloatOne = true := hz.resolve_left hi
        rw [if_neg hi, if_pos hz'] at hok
        obtain ⟨g, rfl⟩ := hfr hok
        rw [isFloatOne_eq hz'] at el
        cases evalE_floatLit_inv el
        have := mul_one_left (Or.inr rfl) wfb h
        rw [coerce_from_flt] at this; rw [this]; exact er
    rename_i hl
    have hl1 : ¬ l.isInt 1 = true := fun e => hl (by simp [e])
    have hl2 : ¬ l.isFloatOne = true := fun e => hl (by simp [e])
    rw [if_neg hl1, if_neg hl2] at hok
    split
    · rename_i hz; rw [Bool.or_eq_true] at hz
      by_cases hi : r.isInt 1 = true
      · rw [isInt_eq hi] at er
        cases evalE_intLit_inv er
        rw [mul_ione_right wfa h]; exact el
      · have hz' : r.isFloatOne = true := hz.resolve_left hi
        rw [if_neg hi, if_pos hz'] at hok
        obtain ⟨g, rfl⟩ := hfl hok
        rw [isFloatOne_eq hz'] at er
        cases evalE_floatLit_inv er
        have := mul_one_right (Or.inr rfl) wfa h
        rw [coerce_from_flt] at this; rw [this]; exact el
    exact base
  case eq =>
    split
    · rw [(cmp ‹_›).1 rfl]; simp only [evalE]
    exact base
  case ge =>
    split
    · rw [(cmp ‹_›).1 rfl]; simp only [evalE]
    exact base
  case le =>
    split
    · rw [(cmp ‹_›).1 rfl]; simp only [evalE]
    exact base
  case ne =>
    split
    · rw [(cmp ‹_›).2 rfl]; simp only [evalE]
    exact base
  case gt =>
    split
    · rw [(cmp ‹_›).2 rfl]; simp only [evalE]
    exact base
  case lt =>
    split
    · rw [(cmp ‹_›).2 rfl]; simp only [evalE]
    exact base
  case and => exact absurd rfl h1
  case or => exact absurd rfl h2
  case max => exact base
  case min => exact base

/-- Y2/Y3, expression level: on the typed fragment the optimised expression evaluates to exactly
the same value on every state that agrees with `Γ` -/
theorem peepE_exact_typed {Γ : String → Option Ty} {σ : State F} (wt : WT Γ σ) {e : Expr F}
    {v : Val F} (hs : NoRetypeE Γ e = true) (h : evalE σ e = .ok v) :
    evalE σ (peepE e) = .ok v := by
  induction e generalizing v with
  | var x => exact h
  | attr t a ih =>
    simp only [NoRetypeE] at hs
    rw [evalE_attr] at h
    obtain ⟨tv, e1, h⟩ := bind_ok h
    simp only [peepE]
    rw [evalE_attr, ih hs e1]; exact h
  | idx t i iht ihi =>
    simp only [NoRetypeE, Bool.and_eq_true] at hs
    rw [evalE_idx] at h
    obtain ⟨tv, e1, h⟩ := bind_ok h
    obtain ⟨iv, e2, h⟩ := bind_ok h
    simp only [peepE]
    rw [evalE_idx, iht hs.1 e1, ok_bind, ihi hs.2 e2]; exact h
  | intLit z => exact h
  | floatLit f => exact h
  | boolLit b => exact h
  | bin op l r ihl ihr =>
    simp only [NoRetypeE, Bool.and_eq_true] at hs
    obtain ⟨⟨hl, hr⟩, hok⟩ := hs
    simp only [peepE]
    by_cases h1 : op = .and
    · subst h1; exact peepAnd_exact (fun _ => ihl hl) (fun _ => ihr hr) h
    by_cases h2 : op = .or
    · subst h2; exact peepOr_exact (fun _ => ihl hl) (fun _ => ihr hr) h
    rw [evalE_bin _ _ _ _ h1 h2] at h
    obtain ⟨a, e1, h⟩ := bind_ok h
    obtain ⟨b, e2, h⟩ := bind_ok h
    exact peepBinT_exact h1 h2 hok
      (fun hk => hasKindE_sound wt e1 (ihl hl e1) hk)
      (fun hk => hasKindE_sound wt e2 (ihr hr e2) hk)
      (fun hk => hasKindE_sound wt e1 (ihl hl e1) hk)
      (fun hk => hasKindE_sound wt e2 (ihr hr e2) hk)
      (ihl hl e1) (ihr hr e2) h
  | b2i e ih =>
    simp only [NoRetypeE] at hs
    rw [evalE_b2i] at h
    obtain ⟨a, e1, h⟩ := bind_ok h
    have m := ih hs e1
    split at h
    · cases h
      simp only [peepE]
      split
      · rename_i hb; rw [isBool_eq hb] at m; cases evalE_boolLit_inv m
        exact evalE_int0 σ
      split
      · rename_i hb; rw [isBool_eq hb] at m; cases evalE_boolLit_inv m
        simp only [evalE]; exact chkInt_of (by decide)
      rw [evalE_b2i, m]; rfl
    · cases h
  | alloc t n _ => simp only [evalE] at h; cases h
  | realloc o t n _ _ => simp only [evalE] at h; cases h

end TV.IR
