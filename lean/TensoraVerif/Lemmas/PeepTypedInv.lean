import TensoraVerif.Model.PeepTyped
import TensoraVerif.Lemmas.PeepholeStore

/-!
C07 (typed fragment): the meaning of the kinds of `tyOf` (`HasKind`), the state invariant `WT Γ σ`
("σ agrees with Γ": declared types, and every typed pointer points into a block of its element
type), and soundness of the typing for the machine (`tyOf_sound`).
-/
namespace TV.IR
set_option linter.unusedSectionVars false
variable {F : Type} [FloatOps F]

/-- block `b` exists and has element type `et` -/
def BlkTy (h : List (Block F)) (b : Nat) (et : ElemTy) : Prop :=
  ∃ blk, h[b]? = some blk ∧ blk.ty = et

/-- if `v` is a proper pointer it points into a block of element type `et` -/
def PtrBlk (h : List (Block F)) (et : ElemTy) (v : Val F) : Prop :=
  ∀ b off, v = .ptr b off → BlkTy h b et

/-- the meaning of a kind (relative to the heap, for the pointer kinds) -/
def HasKind (h : List (Block F)) : NumKind → Val F → Prop
  | .int, v => ∃ i, v = .int i
  | .float, v => ∃ f, v = .flt f
  | .bool, v => ∃ b, v = .bool b
  | .ptrInt, v => isPtrVal v = true ∧ PtrBlk h .int v
  | .ptrFloat, v => isPtrVal v = true ∧ PtrBlk h .float v

/-- every variable typed by `Γ` is declared at that type in the state, and the typed pointers among
them point into blocks of their element type -/
def VarsOK (Γ : String → Option Ty) (h : List (Block F)) (vars : List (VarRec F)) : Prop :=
  ∀ x t r, Γ x = some t → lookupVar vars x = some r →
    r.ty = t ∧ ∀ v, r.val = some v →
      (t = .ptr .int → PtrBlk h .int v) ∧ (t = .ptr .float → PtrBlk h .float v)

/-- the arrays of every tensor have the element types of `taco_tensor_t`: `dimensions`, `pos`, `crd`
are `int32_t*`, `vals` is `double*` -/
def TensorsOK (h : List (Block F)) (ts : List (TensorRec F)) : Prop :=
  ∀ (k : Nat) (tr : TensorRec F), ts[k]? = some tr →
    BlkTy h tr.dimsBlk .int ∧ PtrBlk h .float tr.vals ∧
      ∀ (l : Nat) (p c : Val F), tr.slots[l]? = some (some (p, c)) → PtrBlk h .int p ∧ PtrBlk h .int c

/-- "σ agrees with Γ" -/
structure WT (Γ : String → Option Ty) (σ : State F) : Prop where
  vars : VarsOK Γ σ.heap σ.vars
  tensors : TensorsOK σ.heap σ.tensors

theorem PtrBlk.of_not_ptr {h : List (Block F)} {et : ElemTy} {v : Val F}
    (hv : ∀ b off, v ≠ .ptr b off) : PtrBlk h et v := fun b off e => absurd e (hv b off)

theorem PtrBlk.null (h : List (Block F)) (et : ElemTy) : PtrBlk h et (.null : Val F) :=
  PtrBlk.of_not_ptr (by intro b off e; cases e)

/-! ### inversion of the reads -/

theorem readBlock_kind {σ : State F} {b : Nat} {off : Int} {v : Val F} {et : ElemTy}
    (hb : BlkTy σ.heap b et) (h : readBlock σ b off = .ok v) : hasElemTy et v = true := by
  obtain ⟨blk, e, rfl⟩ := hb
  unfold readBlock at h
  rw [e] at h
  simp only at h
  split at h; · cases h
  split at h; · cases h
  split at h
  · split at h
    · rename_i hty
      obtain ⟨rfl, _⟩ := chkVal_ok h
      exact hty
    · cases h
  · cases h

theorem hasElemTy_int {v : Val F} (h : hasElemTy .int v = true) : ∃ i, v = .int i := by
  cases v <;> simp only [hasElemTy] at h <;> first | exact ⟨_, rfl⟩ | cases h

theorem hasElemTy_float {v : Val F} (h : hasElemTy .float v = true) : ∃ f, v = .flt f := by
  cases v <;> simp only [hasElemTy] at h <;> first | exact ⟨_, rfl⟩ | cases h

/-- a successful variable read returns the stored value, which has the declared type -/
theorem evalE_var_inv {σ : State F} {x : String} {v : Val F} (h : evalE σ (.var x) = .ok v) :
    ∃ r, lookupVar σ.vars x = some r ∧ r.val = some v ∧ hasTy r.ty v = true := by
  simp only [evalE] at h
  split at h; · cases h
  rename_i r hr
  split at h; · cases h
  rename_i v0 hv
  split at h
  · rename_i hty
    obtain ⟨rfl, _⟩ := chkVal_ok h
    exact ⟨r, hr, hv, hty⟩
  · cases h

/-- not a level / level-table handle -/
def Val.plain : Val F → Bool
  | .indices _ => false
  | .level _ _ => false
  | _ => true

theorem hasTy_plain {t : Ty} {v : Val F} (h : hasTy t v = true) : v.plain = true := by
  cases v
  case indices k => cases t <;> simp [hasTy] at h
  case level k l => cases t <;> simp [hasTy] at h
  all_goals rfl

theorem isPtrVal_plain {v : Val F} (h : isPtrVal v = true) : v.plain = true := by
  cases v <;> first | rfl | simp [isPtrVal] at h

theorem numOp_plain {op : BinOp} {x y : Num F} {v : Val F} (h : numOp op x y = .ok v) :
    v.plain = true := by
  cases x <;> cases y <;> cases op <;> simp only [numOp] at h <;>
    first
    | (obtain ⟨rfl, _⟩ := chkInt_ok h; rfl)
    | (obtain ⟨rfl, _⟩ := chkFlt_ok h; rfl)
    | (cases h <;> rfl)

theorem binVal_plain {op : BinOp} {a b v : Val F} (h : binVal op a b = .ok v) : v.plain = true := by
  unfold binVal at h
  split at h
  · cases h; rfl
  · cases h; rfl
  · cases h; rfl
  · split at h
    · exact numOp_plain h
    · cases h

theorem readBlock_elem {σ : State F} {b : Nat} {off : Int} {v : Val F}
    (h : readBlock σ b off = .ok v) : ∃ blk, σ.heap[b]? = some blk ∧ hasElemTy blk.ty v = true := by
  unfold readBlock at h
  split at h; · cases h
  rename_i blk hb
  split at h; · cases h
  split at h; · cases h
  split at h
  · split at h
    · rename_i hty
      obtain ⟨rfl, _⟩ := chkVal_ok h
      exact ⟨blk, hb, hty⟩
    · cases h
  · cases h

theorem hasElemTy_plain {et : ElemTy} {v : Val F} (h : hasElemTy et v = true) : v.plain = true := by
  cases v <;> first | rfl | (cases et <;> simp [hasElemTy] at h)

/-- the three ways an attribute read succeeds -/
theorem attrOf_cases {σ : State F} {tv v : Val F} {a : String} (h : attrOf σ tv a = .ok v) :
    ∃ k tr, tv = .tensor k ∧ σ.tensors[k]? = some tr ∧
      (((a == "dimensions") = true ∧ v = .ptr tr.dimsBlk 0) ∨
       ((a == "dimensions") = false ∧ (a == "indices") = true ∧ v = .indices k) ∨
       ((a == "dimensions") = false ∧ (a == "indices") = false ∧ (a == "vals") = true ∧
          v = tr.vals ∧ isPtrVal v = true)) := by
  unfold attrOf at h
  split at h
  · rename_i k
    split at h; · cases h
    rename_i tr htr
    refine ⟨k, tr, rfl, htr, ?_⟩
    split at h
    · rename_i h1; cases h; exact Or.inl ⟨h1, rfl⟩
    rename_i h1
    split at h
    · rename_i h2; cases h; exact Or.inr (Or.inl ⟨by simpa using h1, h2, rfl⟩)
    rename_i h2
    split at h
    · rename_i h3
      split at h
      · rename_i hp; cases h
        exact Or.inr (Or.inr ⟨by simpa using h1, by simpa using h2, h3, rfl, hp⟩)
      · cases h
    · cases h
  · cases h

/-- the three ways an indexed read succeeds -/
theorem idxOf_cases {σ : State F} {tv iv v : Val F} (h : idxOf σ tv iv = .ok v) :
    (∃ b off k, tv = .ptr b off ∧ iv = .int k ∧ readBlock σ b (off + k) = .ok v) ∨
    (∃ k l, tv = .indices k ∧ v = .level k l) ∨
    (∃ k l tr p c, tv = .level k l ∧ σ.tensors[k]? = some tr ∧ tr.slots[l]? = some (some (p, c)) ∧
        (v = p ∨ v = c) ∧ isPtrVal v = true) := by
  unfold idxOf at h
  split at h
  · exact Or.inl ⟨_, _, _, rfl, rfl, h⟩
  · cases h
  · split at h; · cases h
    split at h
    · cases h; exact Or.inr (Or.inl ⟨_, _, rfl, rfl⟩)
    · cases h
  · split at h; · cases h
    rename_i tr htr
    split at h
    · rename_i p c hs
      split at h
      · split at h
        · rename_i hp; have hv := Except.ok.inj h
          exact Or.inr (Or.inr ⟨_, _, tr, p, c, rfl, htr, hs, Or.inl hv.symm, hv ▸ hp⟩)
        · cases h
      · split at h
        · split at h
          · rename_i hp; have hv := Except.ok.inj h
            exact Or.inr (Or.inr ⟨_, _, tr, p, c, rfl, htr, hs, Or.inr hv.symm, hv ▸ hp⟩)
          · cases h
        · cases h
    · cases h
  · cases h

/-- values of operators and literals are plain -/
theorem evalE_plain_of_not_access {σ : State F} {e : Expr F} {v : Val F} (h : evalE σ e = .ok v)
    (h1 : ∀ t a, e ≠ .attr t a) (h2 : ∀ t i, e ≠ .idx t i) : v.plain = true := by
  cases e
  case var x =>
    obtain ⟨r, _, _, hty⟩ := evalE_var_inv h
    exact hasTy_plain hty
  case attr t a => exact absurd rfl (h1 t a)
  case idx t i => exact absurd rfl (h2 t i)
  case intLit z => simp only [evalE] at h; obtain ⟨rfl, _⟩ := chkInt_ok h; rfl
  case floatLit f => simp only [evalE] at h; obtain ⟨rfl, _⟩ := chkFlt_ok h; rfl
  case boolLit b => simp only [evalE] at h; cases h; rfl
  case bin op l r =>
    by_cases o1 : op = .and
    · subst o1
      rw [evalE_and] at h
      obtain ⟨lv, _, h⟩ := bind_ok h
      split at h
      · cases h; rfl
      · obtain ⟨rv, _, h⟩ := bind_ok h
        split at h
        · cases h; rfl
        · cases h
      · cases h
    by_cases o2 : op = .or
    · subst o2
      rw [evalE_or] at h
      obtain ⟨lv, _, h⟩ := bind_ok h
      split at h
      · cases h; rfl
      · obtain ⟨rv, _, h⟩ := bind_ok h
        split at h
        · cases h; rfl
        · cases h
      · cases h
    rw [evalE_bin _ _ _ _ o1 o2] at h
    obtain ⟨a, _, h⟩ := bind_ok h
    obtain ⟨b, _, h⟩ := bind_ok h
    exact binVal_plain h
  case b2i e =>
    rw [evalE_b2i] at h
    obtain ⟨a, _, h⟩ := bind_ok h
    split at h
    · cases h; rfl
    · cases h
  case alloc t n => simp only [evalE] at h; cases h
  case realloc o t n => simp only [evalE] at h; cases h

/-- only `t->indices` evaluates to a level table -/
theorem evalE_indices_inv {σ : State F} {e : Expr F} {k : Nat} (h : evalE σ e = .ok (.indices k)) :
    ∃ t a, e = .attr t a ∧ (a == "indices") = true := by
  cases e
  case attr t a =>
    rw [evalE_attr] at h
    obtain ⟨tv, _, h⟩ := bind_ok h
    obtain ⟨k', tr, _, _, h | h | h⟩ := attrOf_cases h
    · cases h.2
    · exact ⟨t, a, rfl, h.2.1⟩
    · have := h.2.2.2.2; simp [isPtrVal] at this
  case idx t i =>
    rw [evalE_idx] at h
    obtain ⟨tv, _, h⟩ := bind_ok h
    obtain ⟨iv, _, h⟩ := bind_ok h
    rcases idxOf_cases h with ⟨b, off, j, _, _, hr⟩ | ⟨_, _, _, h⟩ | ⟨_, _, _, _, _, _, _, _, _, hp⟩
    · obtain ⟨blk, _, hty⟩ := readBlock_elem hr
      have := hasElemTy_plain hty; cases this
    · cases h
    · simp [isPtrVal] at hp
  all_goals
    have := evalE_plain_of_not_access h (by intro t a e; cases e) (by intro t i e; cases e)
    cases this

/-- only `t->indices[l]` evaluates to a level -/
theorem evalE_level_inv {σ : State F} {e : Expr F} {k l : Nat} (h : evalE σ e = .ok (.level k l)) :
    e.isLevelE = true := by
  cases e
  case attr t a =>
    rw [evalE_attr] at h
    obtain ⟨tv, _, h⟩ := bind_ok h
    obtain ⟨k', tr, _, _, h | h | h⟩ := attrOf_cases h
    · cases h.2
    · cases h.2.2
    · have := h.2.2.2.2; simp [isPtrVal] at this
  case idx t i =>
    rw [evalE_idx] at h
    obtain ⟨tv, e1, h⟩ := bind_ok h
    obtain ⟨iv, _, h⟩ := bind_ok h
    rcases idxOf_cases h with ⟨b, off, j, _, _, hr⟩ | ⟨k', l', rfl, _⟩ | ⟨_, _, _, _, _, _, _, _, _, hp⟩
    · obtain ⟨blk, _, hty⟩ := readBlock_elem hr
      have := hasElemTy_plain hty; cases this
    · obtain ⟨t0, a, rfl, ha⟩ := evalE_indices_inv e1
      simpa [Expr.isLevelE] using ha
    · simp [isPtrVal] at hp
  all_goals
    have := evalE_plain_of_not_access h (by intro t a e; cases e) (by intro t i e; cases e)
    cases this

/-- conversely, `t->indices[l]` evaluates to nothing but a level -/
theorem evalE_isLevelE {σ : State F} {e : Expr F} {v : Val F} (he : e.isLevelE = true)
    (h : evalE σ e = .ok v) : ∃ k l, v = .level k l := by
  cases e <;> try (simp [Expr.isLevelE] at he; done)
  rename_i t i
  cases t <;> try (simp [Expr.isLevelE] at he; done)
  rename_i t0 a
  simp only [Expr.isLevelE] at he
  rw [evalE_idx] at h
  obtain ⟨tv, e1, h⟩ := bind_ok h
  obtain ⟨iv, _, h⟩ := bind_ok h
  rw [evalE_attr] at e1
  obtain ⟨tv0, _, e1⟩ := bind_ok e1
  obtain ⟨k', tr, _, _, h1 | h1 | h1⟩ := attrOf_cases e1
  · have ha : a = "indices" := by simpa using he
    subst ha; simp at h1
  · obtain ⟨_, _, rfl⟩ := h1
    rcases idxOf_cases h with ⟨_, _, _, e, _⟩ | ⟨k2, l2, _, rfl⟩ | ⟨_, _, _, _, _, e, _⟩
    · cases e
    · exact ⟨_, _, rfl⟩
    · cases e
  · rw [he] at h1; cases h1.2.1

end TV.IR
