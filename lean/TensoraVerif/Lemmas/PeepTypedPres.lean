import TensoraVerif.Lemmas.PeepTypedSound
import TensoraVerif.Lemmas.ScopedBasic

/-!
C07 (typed fragment): execution of a statement of the typed fragment preserves the state invariant
`WT Γ` (`exec_preserves_WT`): declarations add variables at their declared type, stores convert to
the declared type, block element types never change, and the pointer discipline of `NoRetypeS`
keeps typed pointers pointing into blocks of their element type.
-/
namespace TV.IR
set_option linter.unusedSectionVars false
variable {F : Type} [FloatOps F]

/-- every block of `h` is still there in `h'`, with the same element type -/
def HeapExt (h h' : List (Block F)) : Prop := ∀ b et, BlkTy h b et → BlkTy h' b et

theorem HeapExt.refl (h : List (Block F)) : HeapExt h h := fun _ _ x => x

theorem HeapExt.trans {h₁ h₂ h₃ : List (Block F)} (a : HeapExt h₁ h₂) (b : HeapExt h₂ h₃) :
    HeapExt h₁ h₃ := fun _ _ x => b _ _ (a _ _ x)

theorem PtrBlk.mono {h h' : List (Block F)} {et : ElemTy} {v : Val F} (hx : HeapExt h h')
    (hp : PtrBlk h et v) : PtrBlk h' et v := fun b off e => hx _ _ (hp b off e)

theorem HasKind.mono {h h' : List (Block F)} {k : NumKind} {v : Val F} (hx : HeapExt h h')
    (hp : HasKind h k v) : HasKind h' k v := by
  cases k
  · exact hp
  · exact hp
  · exact hp
  · exact ⟨hp.1, hp.2.mono hx⟩
  · exact ⟨hp.1, hp.2.mono hx⟩

theorem VarsOK.mono {Γ : String → Option Ty} {h h' : List (Block F)} {vars : List (VarRec F)}
    (hx : HeapExt h h') (hv : VarsOK Γ h vars) : VarsOK Γ h' vars := by
  intro x t r hΓ hr
  obtain ⟨a, b⟩ := hv x t r hΓ hr
  exact ⟨a, fun v hv => ⟨fun e => ((b v hv).1 e).mono hx, fun e => ((b v hv).2 e).mono hx⟩⟩

theorem TensorsOK.mono {h h' : List (Block F)} {ts : List (TensorRec F)}
    (hx : HeapExt h h') (ht : TensorsOK h ts) : TensorsOK h' ts := by
  intro k tr hk
  obtain ⟨a, b, c⟩ := ht k tr hk
  exact ⟨hx _ _ a, b.mono hx, fun l p q hs => ⟨(c l p q hs).1.mono hx, (c l p q hs).2.mono hx⟩⟩

theorem WT.of_ext {Γ : String → Option Ty} {σ σ1 : State F} (wt : WT Γ σ) (hv : σ1.vars = σ.vars)
    (ht : σ1.tensors = σ.tensors) (hx : HeapExt σ.heap σ1.heap) : WT Γ σ1 :=
  ⟨by rw [hv]; exact wt.vars.mono hx, by rw [ht]; exact wt.tensors.mono hx⟩

theorem heapExt_append (h l : List (Block F)) : HeapExt h (h ++ l) := by
  intro b et ⟨blk, e, ht⟩
  refine ⟨blk, ?_, ht⟩
  have hb : b < h.length := by
    rcases Nat.lt_or_ge b h.length with hlt | hge
    · exact hlt
    · rw [List.getElem?_eq_none hge] at e; cases e
  rw [List.getElem?_append_left hb]; exact e

theorem heapExt_set {h : List (Block F)} {b : Nat} {blk blk' : Block F} (e : h[b]? = some blk)
    (ht : blk'.ty = blk.ty) : HeapExt h (h.set b blk') := by
  intro b' et ⟨blk0, e0, ht0⟩
  by_cases hb : b = b'
  · subst hb
    rw [e] at e0; cases e0
    have hlt : b < h.length := by
      rcases Nat.lt_or_ge b h.length with hlt | hge
      · exact hlt
      · rw [List.getElem?_eq_none hge] at e; cases e
    exact ⟨blk', by simp [hlt], ht.trans ht0⟩
  · exact ⟨blk0, by rw [List.getElem?_set_ne hb]; exact e0, ht0⟩

theorem blkTy_append_new (h : List (Block F)) (blk : Block F) : BlkTy (h ++ [blk]) h.length blk.ty :=
  ⟨blk, by simp, rfl⟩

theorem elemOf_ptrOf {t : Ty} {et : ElemTy} (h : elemOf t = .ok et) :
    (et = .int ∧ NumKind.ptrOf t = some .ptrInt) ∨ (et = .float ∧ NumKind.ptrOf t = some .ptrFloat) := by
  cases t <;> simp only [elemOf] at h <;> cases h
  · exact Or.inl ⟨rfl, rfl⟩
  · exact Or.inr ⟨rfl, rfl⟩

/-- a fresh pointer to a new last block of element type `elemOf t` has the kind `ptrOf t` -/
theorem hasKind_fresh {h : List (Block F)} {t : Ty} {et : ElemTy} {blk : Block F} {k : NumKind}
    (he : elemOf t = .ok et) (hb : blk.ty = et) (hk : (NumKind.ptrOf t == some k) = true) :
    HasKind (h ++ [blk]) k (.ptr h.length 0) := by
  have hk' : NumKind.ptrOf t = some k := by simpa using hk
  have key : ∀ et', et = et' → PtrBlk (h ++ [blk]) et' (.ptr h.length 0 : Val F) := by
    intro et' e b off ev; cases ev
    have := blkTy_append_new h blk
    rw [hb, e] at this; exact this
  rcases elemOf_ptrOf he with ⟨e1, e2⟩ | ⟨e1, e2⟩
  · rw [e2] at hk'; cases hk'
    exact ⟨rfl, key _ e1⟩
  · rw [e2] at hk'; cases hk'
    exact ⟨rfl, key _ e1⟩

/-- right-hand sides: variables and tensors are untouched, the heap only grows, and a right-hand
side that is syntactically of kind `k` yields a value of kind `k` -/
theorem evalRhs_typed {Γ : String → Option Ty} {σ σ1 : State F} {e : Expr F} {val : Val F}
    (wt : WT Γ σ) (h : evalRhs σ e = .ok (σ1, val)) :
    σ1.vars = σ.vars ∧ σ1.tensors = σ.tensors ∧ HeapExt σ.heap σ1.heap ∧
      ∀ k, rhsKindOK Γ k e = true → HasKind σ1.heap k val := by
  rcases evalRhs_ok_cases h with ⟨rfl, ev⟩ | ⟨t, n, rfl⟩ | ⟨o, t, n, rfl⟩
  · refine ⟨rfl, rfl, HeapExt.refl _, ?_⟩
    intro k hk
    cases e
    case alloc t n => simp only [evalE] at ev; cases ev
    case realloc o t n => simp only [evalE] at ev; cases ev
    all_goals
      simp only [rhsKindOK, beq_iff_eq] at hk
      exact tyOf_sound wt ev hk
  · simp only [evalRhs] at h
    obtain ⟨nv, _, h⟩ := bind_ok h
    unfold doAlloc at h
    obtain ⟨et, he, h⟩ := bind_ok h
    split at h
    · split at h
      · cases h
      · cases h
        refine ⟨rfl, rfl, heapExt_append _ _, ?_⟩
        intro k hk
        simp only [rhsKindOK] at hk
        exact hasKind_fresh he rfl hk
    · cases h
  · simp only [evalRhs] at h
    obtain ⟨ov, _, h⟩ := bind_ok h
    obtain ⟨nv, _, h⟩ := bind_ok h
    unfold doRealloc at h
    obtain ⟨et, he, h⟩ := bind_ok h
    split at h
    · split at h; · cases h
      split at h; · cases h
      split at h; · cases h
      rename_i blk hb
      split at h; · cases h
      split at h; · cases h
      split at h; · cases h
      cases h
      refine ⟨rfl, rfl, HeapExt.trans (heapExt_set (blk' := { blk with live := false }) hb rfl) (heapExt_append _ _), ?_⟩
      intro k hk
      simp only [rhsKindOK] at hk
      have key : ∀ (h' : List (Block F)) (nb : Block F), nb.ty = et → h'.length = σ.heap.length →
          HasKind (h' ++ [nb]) k (.ptr σ.heap.length 0) := by
        intro h' nb e1 e2
        have := hasKind_fresh (h := h') he e1 hk
        rwa [e2] at this
      exact key _ _ rfl (by simp)
    · split at h
      · cases h
      · cases h
        refine ⟨rfl, rfl, heapExt_append _ _, ?_⟩
        intro k hk
        simp only [rhsKindOK] at hk
        exact hasKind_fresh he rfl hk
    · cases h

/-- what may be stored into variable `x` -/
def VarValOK (Γ : String → Option Ty) (h : List (Block F)) (x : String) (v : Val F) : Prop :=
  (Γ x = some (.ptr .int) → PtrBlk h .int v) ∧ (Γ x = some (.ptr .float) → PtrBlk h .float v)

/-- what may be stored at a location -/
def LocOK (Γ : String → Option Ty) (h : List (Block F)) (loc : Loc) (v : Val F) : Prop :=
  match loc with
  | .var x => VarValOK Γ h x v
  | .cell _ _ => True
  | .slot _ _ _ => PtrBlk h .int v
  | .vals _ => PtrBlk h .float v

theorem varRhsOK_sound {Γ : String → Option Ty} {h : List (Block F)} {x : String} {e : Expr F}
    {val : Val F} (hk : ∀ k, rhsKindOK Γ k e = true → HasKind h k val)
    (ho : varRhsOK Γ x e = true) : VarValOK Γ h x val := by
  unfold varRhsOK at ho
  constructor
  · intro hΓ; rw [hΓ] at ho; exact (hk _ ho).2
  · intro hΓ; rw [hΓ] at ho; exact (hk _ ho).2

theorem convTo_ptr_inv {t : Ty} {v : Val F} {b : Nat} {off : Int} (h : convTo t v = .ok (.ptr b off)) :
    v = .ptr b off := by
  unfold convTo at h
  split at h <;> cases h
  rfl

theorem convTo_ptrBlk {h : List (Block F)} {t : Ty} {et : ElemTy} {v v' : Val F}
    (hc : convTo t v = .ok v') (hp : PtrBlk h et v) : PtrBlk h et v' := by
  intro b off e; subst e
  exact hp b off (convTo_ptr_inv hc)

theorem VarValOK.conv {Γ : String → Option Ty} {h : List (Block F)} {x : String} {t : Ty}
    {v v' : Val F} (hc : convTo t v = .ok v') (hp : VarValOK Γ h x v) : VarValOK Γ h x v' :=
  ⟨fun e => convTo_ptrBlk hc (hp.1 e), fun e => convTo_ptrBlk hc (hp.2 e)⟩

/-- updating the value of `x` by an admissible value -/
theorem VarsOK.setVarOpt {Γ : String → Option Ty} {h : List (Block F)} {vars : List (VarRec F)}
    {x : String} {v : Option (Val F)} (hv : VarsOK Γ h vars)
    (hx : ∀ w, v = some w → VarValOK Γ h x w) : VarsOK Γ h (setVarOpt vars x v) := by
  intro y t r hΓ hr
  rw [Scoped.lookupVar_setVarOpt] at hr
  by_cases hy : y = x
  · subst hy
    rw [if_pos rfl] at hr
    cases hl : lookupVar vars y with
    | none => rw [hl] at hr; cases hr
    | some r0 =>
      rw [hl] at hr; cases hr
      obtain ⟨a, _⟩ := hv y t r0 hΓ hl
      refine ⟨a, ?_⟩
      intro w hw
      have hw' : v = some w := hw
      have := hx w hw'
      exact ⟨fun e => this.1 (e ▸ hΓ), fun e => this.2 (e ▸ hΓ)⟩
  · rw [if_neg hy] at hr
    exact hv y t r hΓ hr

theorem store_typed {Γ : String → Option Ty} {σ σ2 : State F} {loc : Loc} {val : Val F}
    (wt : WT Γ σ) (hl : LocOK Γ σ.heap loc val) (h : store σ loc val = .ok σ2) : WT Γ σ2 := by
  cases loc
  case var x =>
    simp only [store] at h
    split at h; · cases h
    rename_i r hr
    obtain ⟨v', hc, h⟩ := bind_ok h
    cases h
    refine ⟨?_, wt.tensors⟩
    exact wt.vars.setVarOpt (fun w hw => by cases hw; exact VarValOK.conv hc hl)
  case cell b off =>
    simp only [store] at h
    split at h; · cases h
    rename_i blk hb
    split at h; · cases h
    split at h; · cases h
    split at h; · cases h
    obtain ⟨v', _, h⟩ := bind_ok h
    cases h
    exact wt.of_ext rfl rfl (heapExt_set hb rfl)
  case slot t l k =>
    simp only [store] at h
    split at h; · cases h
    rename_i tr htr
    split at h; · cases h
    split at h; · cases h
    split at h
    · rename_i p c hs
      cases h
      refine ⟨wt.vars, ?_⟩
      intro k' tr' hk'
      simp only at hk'
      by_cases hkt : t = k'
      · subst hkt
        have hlt : t < σ.tensors.length := by
          rcases Nat.lt_or_ge t σ.tensors.length with hlt | hge
          · exact hlt
          · rw [List.getElem?_eq_none hge] at htr; cases htr
        simp [hlt] at hk'
        subst hk'
        obtain ⟨a, b, c'⟩ := wt.tensors t tr htr
        refine ⟨a, b, ?_⟩
        intro l' p' q' hs'
        simp only at hs'
        by_cases hll : l = l'
        · subst hll
          have hlt' : l < tr.slots.length := by
            rcases Nat.lt_or_ge l tr.slots.length with hlt | hge
            · exact hlt
            · rw [List.getElem?_eq_none hge] at hs; cases hs
          simp [hlt'] at hs'
          have old := c' l p c hs
          split at hs'
          · obtain ⟨rfl, rfl⟩ := hs'; exact ⟨hl, old.2⟩
          · obtain ⟨rfl, rfl⟩ := hs'; exact ⟨old.1, hl⟩
        · rw [List.getElem?_set_ne hll] at hs'
          exact c' l' p' q' hs'
      · rw [List.getElem?_set_ne hkt] at hk'
        exact wt.tensors k' tr' hk'
    · cases h
  case vals t =>
    simp only [store] at h
    split at h; · cases h
    rename_i tr htr
    split at h; · cases h
    split at h; · cases h
    cases h
    refine ⟨wt.vars, ?_⟩
    intro k' tr' hk'
    simp only at hk'
    by_cases hkt : t = k'
    · subst hkt
      have hlt : t < σ.tensors.length := by
        rcases Nat.lt_or_ge t σ.tensors.length with hlt | hge
        · exact hlt
        · rw [List.getElem?_eq_none hge] at htr; cases htr
      simp [hlt] at hk'
      subst hk'
      obtain ⟨a, b, c'⟩ := wt.tensors t tr htr
      exact ⟨a, hl, c'⟩
    · rw [List.getElem?_set_ne hkt] at hk'
      exact wt.tensors k' tr' hk'

theorem declOK_eq {Γ : String → Option Ty} {x : String} {t t' : Ty} (hd : declOK Γ x t = true)
    (hΓ : Γ x = some t') : t' = t := by
  unfold declOK at hd
  rw [hΓ] at hd
  simpa using hd

theorem declare_typed {Γ : String → Option Ty} {σ σ' : State F} {x : String} {t : Ty}
    {v : Option (Val F)} (wt : WT Γ σ) (hd : declOK Γ x t = true)
    (hx : ∀ w, v = some w → VarValOK Γ σ.heap x w) (h : declare σ x t v = .ok σ') : WT Γ σ' := by
  unfold declare at h
  split at h
  · split at h
    · cases h
      exact ⟨wt.vars.setVarOpt hx, wt.tensors⟩
    · cases h
  · rename_i hnone
    cases h
    refine ⟨?_, wt.tensors⟩
    intro y t' r hΓ hr
    simp only at hr
    rw [Scoped.lookupVar_append] at hr
    cases hl : lookupVar σ.vars y with
    | some r0 =>
      rw [hl] at hr; cases hr
      exact wt.vars y t' r hΓ hl
    | none =>
      rw [hl] at hr
      simp only at hr
      rw [Scoped.lookupVar_cons, Scoped.lookupVar_nil] at hr
      split at hr
      · rename_i hxy
        cases hr
        simp only at hxy; subst hxy
        refine ⟨(declOK_eq hd hΓ).symm, ?_⟩
        intro w hw
        have := hx w hw
        exact ⟨fun e => this.1 (e ▸ hΓ), fun e => this.2 (e ▸ hΓ)⟩
      · cases hr

/-- the location an assignment target denotes is one its right-hand side may be stored at -/
theorem evalLoc_locOK {Γ : String → Option Ty} {σ : State F} {t v : Expr F} {loc : Loc} {val : Val F}
    (h : evalLoc σ t = .ok loc) (ha : assignOK Γ t v = true)
    (hk : ∀ k, rhsKindOK Γ k v = true → HasKind σ.heap k val) : LocOK Γ σ.heap loc val := by
  cases t
  case var x =>
    simp only [evalLoc] at h; cases h
    exact varRhsOK_sound hk ha
  case attr t0 a =>
    rw [evalLoc_attr] at h
    obtain ⟨tv, _, h⟩ := bind_ok h
    split at h
    · split at h
      · cases h
        exact (hk _ ha).2
      · cases h
    · cases h
  case idx t0 i =>
    rw [evalLoc_idx] at h
    obtain ⟨tv, e1, h⟩ := bind_ok h
    obtain ⟨iv, _, h⟩ := bind_ok h
    unfold locOf at h
    split at h
    · cases h; trivial
    · cases h
    · split at h
      · cases h
        have hl := evalE_level_inv e1
        simp only [assignOK, hl, Bool.not_true, Bool.false_or] at ha
        exact (hk _ ha).2
      · cases h
    · cases h
  all_goals (simp only [evalLoc] at h; cases h)


/-- the statement preserves `WT Γ` whenever it succeeds -/
def PresS (Γ : String → Option Ty) (fuel : Nat) (s : Stmt F) (σ : State F) : Prop :=
  NoRetypeS Γ s = true → WT Γ σ → ∀ o, exec fuel s σ = .ok o → WT Γ o.st

def PresL (Γ : String → Option Ty) (fuel : Nat) (ss : List (Stmt F)) (σ : State F) : Prop :=
  NoRetypeL Γ ss = true → WT Γ σ → ∀ o, execL fuel ss σ = .ok o → WT Γ o.st

/-- Y3 (invariant): execution of a statement of the typed fragment preserves "σ agrees with Γ" -/
theorem exec_preserves_WT (Γ : String → Option Ty) (fuel : Nat) (s : Stmt F) (σ : State F) :
    PresS Γ fuel s σ := by
  induction fuel, s, σ using exec.induct (F := F)
    (motive2 := fun fuel ss σ => PresL Γ fuel ss σ) with
  | case1 fuel e σ =>
    intro _ wt o h
    rw [exec.eq_1] at h
    obtain ⟨_, _, h⟩ := bind_ok h; cases h; exact wt
  | case2 fuel n t σ =>
    intro g wt o h
    rw [exec.eq_2] at h
    obtain ⟨σ', e1, h⟩ := bind_ok h; cases h
    simp only [NoRetypeS] at g
    exact declare_typed wt g (fun w hw => by cases hw) e1
  | case3 fuel t v σ =>
    intro g wt o h
    simp only [NoRetypeS, Bool.and_eq_true] at g
    rw [exec.eq_3] at h
    obtain ⟨⟨σ1, val⟩, e1, h⟩ := bind_ok h
    simp only at h
    obtain ⟨loc, e2, h⟩ := bind_ok h
    obtain ⟨σ2, e3, h⟩ := bind_ok h
    cases h
    obtain ⟨hv, ht, hx, hk⟩ := evalRhs_typed wt e1
    have wt1 := wt.of_ext hv ht hx
    exact store_typed wt1 (evalLoc_locOK e2 g.2 hk) e3
  | case4 fuel n t v σ =>
    intro g wt o h
    simp only [NoRetypeS, Bool.and_eq_true] at g
    rw [exec.eq_4] at h
    obtain ⟨⟨σ1, val⟩, e1, h⟩ := bind_ok h
    simp only at h
    obtain ⟨cv, e2, h⟩ := bind_ok h
    obtain ⟨σ2, e3, h⟩ := bind_ok h
    cases h
    obtain ⟨hv, ht, hx, hk⟩ := evalRhs_typed wt e1
    have wt1 := wt.of_ext hv ht hx
    exact declare_typed wt1 g.1.2
      (fun w hw => by cases hw; exact VarValOK.conv e2 (varRhsOK_sound hk g.2)) e3
  | case5 fuel ss c σ ih =>
    intro g wt o h
    rw [exec.eq_5] at h
    simp only [NoRetypeS] at g
    exact ih g wt o h
  | case6 fuel c t f σ iht ihf =>
    intro g wt o h
    simp only [NoRetypeS, Bool.and_eq_true] at g
    rw [exec.eq_6] at h
    obtain ⟨cv, _, h⟩ := bind_ok h
    split at h
    · obtain ⟨ot, et, h⟩ := bind_ok h; cases h
      exact iht g.1.2 wt ot et
    · obtain ⟨ot, et, h⟩ := bind_ok h; cases h
      exact ihf g.2 wt ot et
    · cases h
  | case7 c b σ =>
    intro _ _ o h
    rw [exec.eq_7] at h; cases h
  | case8 c b σ fuel' ihb ihl =>
    intro g wt o h
    have g' := g
    simp only [NoRetypeS, Bool.and_eq_true] at g'
    rw [exec.eq_8] at h
    obtain ⟨cv, _, h⟩ := bind_ok h
    split at h
    · cases h; exact wt
    · obtain ⟨o1, e1, h⟩ := bind_ok h
      have wt1 := ihb g'.2 wt _ e1
      split at h
      · cases h; exact wt1
      · obtain ⟨o2, e2, h⟩ := bind_ok h; cases h
        exact ihl o1 g wt1 o2 e2
    · cases h
  | case9 fuel e σ =>
    intro _ wt o h
    rw [exec.eq_9] at h
    obtain ⟨_, _, h⟩ := bind_ok h; cases h; exact wt
  | case10 fuel σ =>
    intro _ wt o h
    rw [execL.eq_1] at h; cases h; exact wt
  | case11 fuel s ss σ ihs ihss =>
    intro g wt o h
    simp only [NoRetypeL, Bool.and_eq_true] at g
    rw [execL.eq_2] at h
    obtain ⟨o1, e1, h⟩ := bind_ok h
    have wt1 := ihs g.1 wt _ e1
    split at h
    · cases h; exact wt1
    · obtain ⟨o2, e2, h⟩ := bind_ok h; cases h
      exact ihss o1 g.2 wt1 o2 e2

end TV.IR
