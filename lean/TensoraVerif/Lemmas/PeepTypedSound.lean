import TensoraVerif.Lemmas.PeepTypedInv

/-!
C07 (typed fragment): soundness of the syntactic typing `tyOf` for the machine (`tyOf_sound`): on a
state that agrees with `Γ`, a successfully evaluated expression of kind `k` has a value of kind `k`.
-/
namespace TV.IR
set_option linter.unusedSectionVars false
variable {F : Type} [FloatOps F]

def BinOp.isArith : BinOp → Bool
  | .add | .sub | .mul | .max | .min => true
  | _ => false

def BinOp.isCmp : BinOp → Bool
  | .eq | .ne | .gt | .lt | .ge | .le => true
  | _ => false

theorem numOp_cmp_bool {op : BinOp} {x y : Num F} {v : Val F} (ho : op.isCmp = true)
    (h : numOp op x y = .ok v) : ∃ b, v = .bool b := by
  cases x <;> cases y <;> cases op <;> simp only [numOp] at h <;>
    first | (cases ho; done) | (cases h; exact ⟨_, rfl⟩)

theorem binVal_cmp_bool {op : BinOp} {a b v : Val F} (ho : op.isCmp = true)
    (h : binVal op a b = .ok v) : ∃ b, v = .bool b := by
  unfold binVal at h
  split at h
  · cases ho
  · cases h; exact ⟨_, rfl⟩
  · cases h; exact ⟨_, rfl⟩
  · split at h
    · exact numOp_cmp_bool ho h
    · cases h

theorem binVal_arith_int {op : BinOp} {i j : Int} {v : Val F} (ho : op.isArith = true)
    (h : binVal op (.int i) (.int j) = .ok v) : ∃ k, v = .int k := by
  cases op <;> simp only [binVal, Val.toNum, numOp] at h <;>
    first
    | (cases ho; done)
    | (obtain ⟨rfl, _⟩ := chkInt_ok h; exact ⟨_, rfl⟩)
    | (cases h; exact ⟨_, rfl⟩)

theorem binVal_arith_flt {op : BinOp} {a b v : Val F} (ho : op.isArith = true)
    (ha : (∃ i, a = .int i) ∨ ∃ f, a = .flt f) (hb : (∃ i, b = .int i) ∨ ∃ f, b = .flt f)
    (hab : (∃ f, a = .flt f) ∨ ∃ f, b = .flt f)
    (h : binVal op a b = .ok v) : ∃ f, v = .flt f := by
  rcases ha with ⟨i, rfl⟩ | ⟨f, rfl⟩ <;> rcases hb with ⟨j, rfl⟩ | ⟨g, rfl⟩
  · rcases hab with ⟨_, e⟩ | ⟨_, e⟩ <;> cases e
  all_goals
    cases op <;> simp only [binVal, Val.toNum, numOp] at h <;>
      first
      | (cases ho; done)
      | (obtain ⟨rfl, _⟩ := chkFlt_ok h; exact ⟨_, rfl⟩)
      | (cases h; exact ⟨_, rfl⟩)

theorem hasKind_num {h : List (Block F)} {k : NumKind} {v : Val F} (hv : HasKind h k v)
    (hk : k = .int ∨ k = .float) : (∃ i, v = .int i) ∨ ∃ f, v = .flt f := by
  rcases hk with rfl | rfl
  · exact Or.inl hv
  · exact Or.inr hv

/-- arithmetic on typed operands -/
theorem arith_sound {h : List (Block F)} {op : BinOp} {ka kb k : NumKind} {a b v : Val F}
    (ho : op.isArith = true) (ha : HasKind h ka a) (hb : HasKind h kb b)
    (hk : arithKind (some ka) (some kb) = some k) (hv : binVal op a b = .ok v) : HasKind h k v := by
  cases ka <;> cases kb <;> simp only [arithKind] at hk <;> cases hk
  · obtain ⟨i, rfl⟩ := ha; obtain ⟨j, rfl⟩ := hb
    exact binVal_arith_int ho hv
  · exact binVal_arith_flt ho (Or.inl ha) (Or.inr hb) (Or.inr hb) hv
  · exact binVal_arith_flt ho (Or.inr ha) (Or.inl hb) (Or.inl ha) hv
  · exact binVal_arith_flt ho (Or.inr ha) (Or.inr hb) (Or.inl ha) hv

theorem add_ptr_sound {h : List (Block F)} {et : ElemTy} {a v : Val F} {j : Int}
    (hp : isPtrVal a = true) (ha : PtrBlk h et a) (hv : binVal .add a (.int j) = .ok v) :
    isPtrVal v = true ∧ PtrBlk h et v := by
  cases a <;> simp only [isPtrVal] at hp <;> try (cases hp; done)
  · simp only [binVal] at hv; cases hv
    refine ⟨rfl, ?_⟩
    intro b off e; cases e
    exact ha _ _ rfl
  · simp only [binVal, Val.toNum] at hv; cases hv

theorem add_sound {h : List (Block F)} {ka kb k : NumKind} {a b v : Val F}
    (ha : HasKind h ka a) (hb : HasKind h kb b)
    (hk : addKind (some ka) (some kb) = some k) (hv : binVal .add a b = .ok v) : HasKind h k v := by
  cases ka <;> cases kb <;> simp only [addKind] at hk <;>
    first
    | exact arith_sound rfl ha hb hk hv
    | skip
  · cases hk; obtain ⟨j, rfl⟩ := hb; exact add_ptr_sound ha.1 ha.2 hv
  · cases hk; obtain ⟨j, rfl⟩ := hb; exact add_ptr_sound ha.1 ha.2 hv

theorem evalE_logic_bool {σ : State F} {op : BinOp} {l r : Expr F} {v : Val F}
    (ho : op = .and ∨ op = .or) (h : evalE σ (.bin op l r) = .ok v) : ∃ b, v = .bool b := by
  rcases ho with rfl | rfl
  · rw [evalE_and] at h
    obtain ⟨lv, _, h⟩ := bind_ok h
    split at h
    · cases h; exact ⟨_, rfl⟩
    · obtain ⟨rv, _, h⟩ := bind_ok h
      split at h
      · cases h; exact ⟨_, rfl⟩
      · cases h
    · cases h
  · rw [evalE_or] at h
    obtain ⟨lv, _, h⟩ := bind_ok h
    split at h
    · cases h; exact ⟨_, rfl⟩
    · obtain ⟨rv, _, h⟩ := bind_ok h
      split at h
      · cases h; exact ⟨_, rfl⟩
      · cases h
    · cases h

theorem arithKind_some {a b : Option NumKind} {k : NumKind} (h : arithKind a b = some k) :
    ∃ ka kb, a = some ka ∧ b = some kb := by
  cases a <;> cases b <;> first | exact ⟨_, _, rfl, rfl⟩ | (simp [arithKind] at h)

theorem addKind_some {a b : Option NumKind} {k : NumKind} (h : addKind a b = some k) :
    ∃ ka kb, a = some ka ∧ b = some kb := by
  cases a <;> cases b <;> first | exact ⟨_, _, rfl, rfl⟩ | (simp [addKind, arithKind] at h)

theorem ofTy_hasKind {h : List (Block F)} {t : Ty} {k : NumKind} {v : Val F}
    (hk : NumKind.ofTy t = some k) (hty : hasTy t v = true)
    (hp : (t = .ptr .int → PtrBlk h .int v) ∧ (t = .ptr .float → PtrBlk h .float v)) :
    HasKind h k v := by
  cases t with
  | int => cases hk; cases v <;> simp only [hasTy] at hty <;> first | exact ⟨_, rfl⟩ | cases hty
  | float => cases hk; cases v <;> simp only [hasTy] at hty <;> first | exact ⟨_, rfl⟩ | cases hty
  | bool => cases hk; cases v <;> simp only [hasTy] at hty <;> first | exact ⟨_, rfl⟩ | cases hty
  | ptr t' =>
    cases t' with
    | int =>
      cases hk
      refine ⟨?_, hp.1 rfl⟩
      cases v <;> simp only [hasTy] at hty <;> first | rfl | cases hty
    | float =>
      cases hk
      refine ⟨?_, hp.2 rfl⟩
      cases v <;> simp only [hasTy] at hty <;> first | rfl | cases hty
    | _ => simp [NumKind.ofTy] at hk
  | _ => simp [NumKind.ofTy] at hk

/-- Y1: the typing is sound for the machine -/
theorem tyOf_sound {Γ : String → Option Ty} {σ : State F} (wt : WT Γ σ) {e : Expr F} {v : Val F}
    {k : NumKind} (h : evalE σ e = .ok v) (hk : tyOf Γ e = some k) : HasKind σ.heap k v := by
  induction e generalizing v k with
  | var x =>
    simp only [tyOf] at hk
    obtain ⟨r, hr, hv, hty⟩ := evalE_var_inv h
    cases hΓ : Γ x with
    | none => rw [hΓ] at hk; cases hk
    | some t =>
      rw [hΓ] at hk
      simp only [Option.bind] at hk
      obtain ⟨rt, hp⟩ := wt.vars x t r hΓ hr
      rw [rt] at hty
      exact ofTy_hasKind hk hty (hp v hv)
  | attr t a _ =>
    rw [evalE_attr] at h
    obtain ⟨tv, _, h⟩ := bind_ok h
    obtain ⟨k', tr, _, htr, h1 | h1 | h1⟩ := attrOf_cases h
    · obtain ⟨ha, rfl⟩ := h1
      simp only [tyOf, ha, if_true] at hk; cases hk
      refine ⟨rfl, ?_⟩
      intro b off e; cases e
      exact (wt.tensors k' tr htr).1
    · obtain ⟨ha, hb, rfl⟩ := h1
      have hb' : a = "indices" := by simpa using hb
      subst hb'
      simp [tyOf] at hk
    · obtain ⟨ha, hb, hc, rfl, hp⟩ := h1
      simp only [tyOf, ha, hc, if_true] at hk
      simp only [Bool.false_eq_true, if_false] at hk
      cases hk
      exact ⟨hp, (wt.tensors k' tr htr).2.1⟩
  | idx t i iht _ =>
    rw [evalE_idx] at h
    obtain ⟨tv, e1, h⟩ := bind_ok h
    obtain ⟨iv, _, h⟩ := bind_ok h
    simp only [tyOf] at hk
    by_cases hl : t.isLevelE = true
    · rw [if_pos hl] at hk; cases hk
      obtain ⟨k1, l1, rfl⟩ := evalE_isLevelE hl e1
      rcases idxOf_cases h with ⟨_, _, _, e, _⟩ | ⟨_, _, e, _⟩ | ⟨k2, l2, tr, p, c, e, htr, hs, hv, hp⟩
      · cases e
      · cases e
      · have := (wt.tensors k2 tr htr).2.2 l2 p c hs
        refine ⟨hp, ?_⟩
        rcases hv with rfl | rfl
        · exact this.1
        · exact this.2
    · rw [if_neg hl] at hk
      rcases idxOf_cases h with ⟨b, off, j, rfl, _, hr⟩ | ⟨k1, l1, rfl, _⟩ | ⟨k2, l2, _, _, _, rfl, _⟩
      · obtain ⟨blk, hb, hty⟩ := readBlock_elem hr
        cases hkt : tyOf Γ t with
        | none => rw [hkt] at hk; cases hk
        | some kt =>
          rw [hkt] at hk
          have := iht e1 hkt
          cases kt <;> simp only at hk <;> try (cases hk; done)
          · cases hk
            obtain ⟨blk', hb', hty'⟩ := this.2 b off rfl
            rw [hb] at hb'; cases hb'
            rw [hty'] at hty
            exact hasElemTy_int hty
          · cases hk
            obtain ⟨blk', hb', hty'⟩ := this.2 b off rfl
            rw [hb] at hb'; cases hb'
            rw [hty'] at hty
            exact hasElemTy_float hty
      · -- an `indices` table is never typed
        obtain ⟨t0, a, rfl, ha⟩ := evalE_indices_inv e1
        have ha' : a = "indices" := by simpa using ha
        subst ha'
        simp [tyOf] at hk
      · exact absurd (evalE_level_inv e1) hl
  | intLit z => simp only [evalE] at h; obtain ⟨rfl, _⟩ := chkInt_ok h; cases hk; exact ⟨_, rfl⟩
  | floatLit f => simp only [evalE] at h; obtain ⟨rfl, _⟩ := chkFlt_ok h; cases hk; exact ⟨_, rfl⟩
  | boolLit b => simp only [evalE] at h; cases h; cases hk; exact ⟨_, rfl⟩
  | bin op l r ihl ihr =>
    by_cases hlog : op = .and ∨ op = .or
    · have hb := evalE_logic_bool hlog h
      rcases hlog with rfl | rfl <;> (simp only [tyOf] at hk; cases hk; exact hb)
    have o1 : op ≠ .and := fun e => hlog (Or.inl e)
    have o2 : op ≠ .or := fun e => hlog (Or.inr e)
    rw [evalE_bin _ _ _ _ o1 o2] at h
    obtain ⟨a, e1, h⟩ := bind_ok h
    obtain ⟨b, e2, h⟩ := bind_ok h
    by_cases hc : op.isCmp = true
    · have hb := binVal_cmp_bool hc h
      cases op <;> first | (cases hc; done) | (simp only [tyOf] at hk; cases hk; exact hb)
    cases op <;> first | (exact absurd rfl hc) | (exact absurd rfl o1) | (exact absurd rfl o2) | skip
    · simp only [tyOf] at hk
      obtain ⟨ka, kb, ea, eb⟩ := addKind_some hk
      rw [ea, eb] at hk
      exact add_sound (ihl e1 ea) (ihr e2 eb) hk h
    all_goals
      simp only [tyOf] at hk
      obtain ⟨ka, kb, ea, eb⟩ := arithKind_some hk
      rw [ea, eb] at hk
      exact arith_sound rfl (ihl e1 ea) (ihr e2 eb) hk h
  | b2i e _ =>
    rw [evalE_b2i] at h
    obtain ⟨a, _, h⟩ := bind_ok h
    simp only [tyOf] at hk; cases hk
    split at h
    · cases h; exact ⟨_, rfl⟩
    · cases h
  | alloc t n _ => simp only [evalE] at h; cases h
  | realloc o t n _ _ => simp only [evalE] at h; cases h

end TV.IR
