import TensoraVerif.Lemmas.PeepTypedExpr
import TensoraVerif.Lemmas.PeepTypedPres
import TensoraVerif.Lemmas.PeepholeStmt

/-!
C07 (typed fragment), statement level: one induction along `exec` (`peepS_sound_typed`), with the
state invariant `WT Γ` threaded through by `exec_preserves_WT`. The statement-level rules (`a = a`,
constant conditions, empty blocks and loops) are the unconditional ones of `Lemmas/PeepholeStmt.lean`
and `Lemmas/PeepholeSelf.lean`; only the expression-level facts are replaced by their typed versions.
-/
namespace TV.IR
set_option linter.unusedSectionVars false
variable {F : Type} [FloatOps F] [FloatLaws F]
open FloatOps FloatLaws

/-- same final state, same return value, no more iterations/steps -/
def OutE (o o' : Out F) : Prop :=
  o'.st = o.st ∧ o'.ret = o.ret ∧ o'.iters ≤ o.iters ∧ o'.steps ≤ o.steps

omit [FloatLaws F] in
theorem OutE.refl (o : Out F) : OutE o o := ⟨rfl, rfl, Nat.le_refl _, Nat.le_refl _⟩

def TSoundS (Γ : String → Option Ty) (fuel : Nat) (s : Stmt F) (σ : State F) : Prop :=
  NoRetypeS Γ s = true → WT Γ σ → ∀ o, exec fuel s σ = .ok o →
    ∃ o', exec fuel (peepS s) σ = .ok o' ∧ OutE o o'

def TSoundL (Γ : String → Option Ty) (fuel : Nat) (ss : List (Stmt F)) (σ : State F) : Prop :=
  NoRetypeL Γ ss = true → WT Γ σ → ∀ o, execL fuel ss σ = .ok o →
    ∃ o', execL fuel (peepL ss) σ = .ok o' ∧ OutE o o'

theorem evalRhs_exact_typed {Γ : String → Option Ty} {σ σ1 : State F} (wt : WT Γ σ) {e : Expr F}
    {val : Val F} (g : NoRetypeE Γ e = true) (h : evalRhs σ e = .ok (σ1, val)) :
    evalRhs σ (peepE e) = .ok (σ1, val) := by
  rcases evalRhs_ok_cases h with ⟨rfl, e1⟩ | ⟨t, n, rfl⟩ | ⟨o, t, n, rfl⟩
  · exact evalRhs_of_ok (peepE_exact_typed wt g e1)
  · simp only [NoRetypeE] at g
    simp only [evalRhs, peepE] at h ⊢
    obtain ⟨nv, e1, h⟩ := bind_ok h
    rw [peepE_exact_typed wt g e1]; exact h
  · simp only [NoRetypeE, Bool.and_eq_true] at g
    simp only [evalRhs, peepE] at h ⊢
    obtain ⟨ov, e1, h⟩ := bind_ok h
    obtain ⟨nv, e2, h⟩ := bind_ok h
    rw [peepE_exact_typed wt g.1 e1, ok_bind, peepE_exact_typed wt g.2 e2]; exact h

theorem evalLoc_exact_typed {Γ : String → Option Ty} {σ : State F} (wt : WT Γ σ) {t : Expr F}
    {loc : Loc} (g : NoRetypeE Γ t = true) (h : evalLoc σ t = .ok loc) :
    evalLoc σ (peepE t) = .ok loc := by
  cases t
  case var n => exact h
  case attr t a =>
    simp only [NoRetypeE] at g
    simp only [peepE]
    rw [evalLoc_attr] at h ⊢
    obtain ⟨tv, e1, h⟩ := bind_ok h
    rw [peepE_exact_typed wt g e1]; exact h
  case idx t i =>
    simp only [NoRetypeE, Bool.and_eq_true] at g
    simp only [peepE]
    rw [evalLoc_idx] at h ⊢
    obtain ⟨tv, e1, h⟩ := bind_ok h
    obtain ⟨iv, e2, h⟩ := bind_ok h
    rw [peepE_exact_typed wt g.1 e1, ok_bind, peepE_exact_typed wt g.2 e2]; exact h
  all_goals (simp only [evalLoc] at h; cases h)

/-- a statement whose optimised form is an empty block does nothing -/
theorem tsound_empty {Γ : String → Option Ty} {fuel : Nat} {s : Stmt F} {σ : State F} {o : Out F}
    (hs : TSoundS Γ fuel s σ) (g : NoRetypeS Γ s = true) (wt : WT Γ σ)
    (he : (peepS s).isEmptyBlock = true) (hx : exec fuel s σ = .ok o) : o.st = σ ∧ o.ret = none := by
  obtain ⟨c, hc⟩ := isEmptyBlock_eq he
  obtain ⟨o', e', hst, hret, _, _⟩ := hs g wt o hx
  rw [hc, exec_empty] at e'
  cases e'
  exact ⟨hst.symm, hret.symm⟩

theorem tsound_expr (Γ : String → Option Ty) (fuel : Nat) (e : Expr F) (σ : State F) :
    TSoundS Γ fuel (.expr e) σ := by
  intro g wt o h
  simp only [NoRetypeS] at g
  rw [exec.eq_1] at h
  rw [peepS.eq_1, exec.eq_1]
  obtain ⟨v, e1, h⟩ := bind_ok h; cases h
  rw [peepE_exact_typed wt g e1]
  exact ⟨_, rfl, OutE.refl _⟩

theorem tsound_ret (Γ : String → Option Ty) (fuel : Nat) (e : Expr F) (σ : State F) :
    TSoundS Γ fuel (.ret e) σ := by
  intro g wt o h
  simp only [NoRetypeS] at g
  rw [exec.eq_9] at h
  rw [peepS.eq_8, exec.eq_9]
  obtain ⟨v, e1, h⟩ := bind_ok h; cases h
  rw [peepE_exact_typed wt g e1]
  exact ⟨_, rfl, OutE.refl _⟩

omit [FloatLaws F] in
theorem tsound_decl (Γ : String → Option Ty) (fuel : Nat) (n : String) (t : Ty) (σ : State F) :
    TSoundS Γ fuel (.decl n t) σ := by
  intro _ _ o h
  rw [peepS.eq_2]
  exact ⟨o, h, OutE.refl _⟩

theorem tsound_assign (Γ : String → Option Ty) (fuel : Nat) (t v : Expr F) (σ : State F) :
    TSoundS Γ fuel (.assign t v) σ := by
  intro g wt o h
  simp only [NoRetypeS, Bool.and_eq_true] at g
  obtain ⟨⟨gt, gv⟩, _⟩ := g
  rw [exec.eq_3] at h
  obtain ⟨⟨σ1, val⟩, e1, h⟩ := bind_ok h
  simp only at h
  obtain ⟨loc, e2, h⟩ := bind_ok h
  obtain ⟨σ2, e3, h⟩ := bind_ok h
  cases h
  rw [peepS.eq_3]
  split
  · rename_i hb
    have hpe := Expr.beq_eq hb
    rw [exec_empty]
    rcases evalRhs_ok_cases e1 with ⟨rfl, ev⟩ | ⟨ty, n, rfl⟩ | ⟨o, ty, n, rfl⟩
    · have := assign_self hpe ev e2 e3; subst this
      exact ⟨_, rfl, rfl, rfl, Nat.le_refl _, Nat.zero_le _⟩
    · exfalso
      cases t <;> simp only [evalLoc] at e2 <;> try (cases e2; done)
      all_goals (simp only [peepE] at hpe; cases hpe)
    · exfalso
      cases t <;> simp only [evalLoc] at e2 <;> try (cases e2; done)
      all_goals (simp only [peepE] at hpe; cases hpe)
  · rw [exec.eq_3]
    obtain ⟨hv, ht, hx, _⟩ := evalRhs_typed wt e1
    have wt1 := wt.of_ext hv ht hx
    rw [evalRhs_exact_typed wt gv e1, ok_bind]; simp only
    rw [evalLoc_exact_typed wt1 gt e2, ok_bind, e3, ok_bind]
    exact ⟨_, rfl, OutE.refl _⟩

theorem tsound_declAssign (Γ : String → Option Ty) (fuel : Nat) (n : String) (t : Ty) (v : Expr F)
    (σ : State F) : TSoundS Γ fuel (.declAssign n t v) σ := by
  intro g wt o h
  simp only [NoRetypeS, Bool.and_eq_true] at g
  rw [exec.eq_4] at h
  obtain ⟨⟨σ1, val⟩, e1, h⟩ := bind_ok h
  simp only at h
  rw [peepS.eq_4, exec.eq_4]
  rw [evalRhs_exact_typed wt g.1.1 e1, ok_bind]
  exact ⟨o, h, OutE.refl _⟩

omit [FloatLaws F] in
theorem tsound_block {Γ : String → Option Ty} {fuel : Nat} {ss : List (Stmt F)} {c : Option String}
    {σ : State F} (h : TSoundL Γ fuel ss σ) : TSoundS Γ fuel (.block ss c) σ := by
  intro g wt o hx
  simp only [NoRetypeS] at g
  rw [exec.eq_5] at hx
  rw [peepS.eq_5, exec.eq_5]
  exact h g wt o hx

omit [FloatLaws F] in
theorem tsound_nil (Γ : String → Option Ty) (fuel : Nat) (σ : State F) :
    TSoundL Γ fuel ([] : List (Stmt F)) σ := by
  intro _ _ o hx
  rw [peepL.eq_1]
  exact ⟨o, hx, OutE.refl _⟩

theorem tsound_cons {Γ : String → Option Ty} {fuel : Nat} {s : Stmt F} {ss : List (Stmt F)}
    {σ : State F} (hs : TSoundS Γ fuel s σ) (hss : ∀ o1 : Out F, TSoundL Γ fuel ss o1.st) :
    TSoundL Γ fuel (s :: ss) σ := by
  intro g wt o h
  simp only [NoRetypeL, Bool.and_eq_true] at g
  obtain ⟨gs, gss⟩ := g
  rw [execL.eq_2] at h
  obtain ⟨o1, e1, h⟩ := bind_ok h
  have wt1 : WT Γ o1.st := exec_preserves_WT Γ fuel s σ gs wt o1 e1
  rw [peepL.eq_2]
  split
  · rename_i he
    obtain ⟨hst, hret⟩ := tsound_empty hs gs wt he e1
    rw [hret] at h; simp only at h
    obtain ⟨o2, e2, h⟩ := bind_ok h; cases h
    have := hss o1 gss wt1 _ e2
    rw [hst] at this
    obtain ⟨o', e', r1, r2, r3, r4⟩ := this
    exact ⟨o', e', r1, r2, Nat.le_trans r3 (Nat.le_add_left _ _),
      Nat.le_trans r4 (Nat.le_add_left _ _)⟩
  · rw [execL.eq_2]
    obtain ⟨o1', e1', r1⟩ := hs gs wt _ e1
    rw [e1', ok_bind]
    obtain ⟨st1, ret1, it1, sp1⟩ := o1
    obtain ⟨st1', ret1', it1', sp1'⟩ := o1'
    obtain ⟨r1, r2, r3, r4⟩ := r1
    simp only at r1 r2 r3 r4 h wt1 ⊢
    subst r1 r2
    cases ret1' <;> simp only at h ⊢
    · obtain ⟨o2, e2, h⟩ := bind_ok h; cases h
      obtain ⟨o2', e2', q1, q2, q3, q4⟩ := hss ⟨st1', none, it1, sp1⟩ gss wt1 _ e2
      rw [e2', ok_bind]
      exact ⟨_, rfl, q1, q2, Nat.add_le_add r3 q3, Nat.add_le_add r4 q4⟩
    · cases h
      exact ⟨_, rfl, rfl, rfl, r3, r4⟩

theorem tsound_branch {Γ : String → Option Ty} {fuel : Nat} {c : Expr F} {t f : Stmt F} {σ : State F}
    (ht : TSoundS Γ fuel t σ) (hf : TSoundS Γ fuel f σ) : TSoundS Γ fuel (.branch c t f) σ := by
  intro g wt o h
  simp only [NoRetypeS, Bool.and_eq_true] at g
  obtain ⟨⟨gc, gt⟩, gf⟩ := g
  rw [exec.eq_6] at h
  obtain ⟨cv, ec, h⟩ := bind_ok h
  rw [peepS.eq_6]
  split at h
  · obtain ⟨ot, et, h⟩ := bind_ok h; cases h
    split
    · obtain ⟨o', e', r1, r2, r3, r4⟩ := ht gt wt _ et
      exact ⟨o', e', r1, r2, r3, Nat.le_succ_of_le r4⟩
    split
    · rename_i hb; cases cond_lit ec hb
    split
    · rename_i he; rw [Bool.and_eq_true] at he
      obtain ⟨hst, hret⟩ := tsound_empty ht gt wt he.1 et
      rw [exec_empty]
      exact ⟨_, rfl, hst.symm, hret.symm, Nat.zero_le _, Nat.zero_le _⟩
    · rw [exec.eq_6, peepE_exact_typed wt gc ec, ok_bind]; simp only
      obtain ⟨o', e', r1, r2, r3, r4⟩ := ht gt wt _ et
      rw [e', ok_bind]
      exact ⟨_, rfl, r1, r2, r3, Nat.succ_le_succ r4⟩
  · obtain ⟨ot, et, h⟩ := bind_ok h; cases h
    split
    · rename_i hb; cases cond_lit ec hb
    split
    · obtain ⟨o', e', r1, r2, r3, r4⟩ := hf gf wt _ et
      exact ⟨o', e', r1, r2, r3, Nat.le_succ_of_le r4⟩
    split
    · rename_i he; rw [Bool.and_eq_true] at he
      obtain ⟨hst, hret⟩ := tsound_empty hf gf wt he.2 et
      rw [exec_empty]
      exact ⟨_, rfl, hst.symm, hret.symm, Nat.zero_le _, Nat.zero_le _⟩
    · rw [exec.eq_6, peepE_exact_typed wt gc ec, ok_bind]; simp only
      obtain ⟨o', e', r1, r2, r3, r4⟩ := hf gf wt _ et
      rw [e', ok_bind]
      exact ⟨_, rfl, r1, r2, r3, Nat.succ_le_succ r4⟩
  · cases h

omit [FloatLaws F] in
theorem tsound_loop_zero (Γ : String → Option Ty) (c : Expr F) (b : Stmt F) (σ : State F) :
    TSoundS Γ 0 (.loop c b) σ := by
  intro _ _ o h
  rw [exec.eq_7] at h; cases h

theorem tsound_loop_succ {Γ : String → Option Ty} {fuel' : Nat} {c : Expr F} {b : Stmt F}
    {σ : State F} (hb : TSoundS Γ fuel' b σ)
    (hl : ∀ o1 : Out F, TSoundS Γ fuel' (.loop c b) o1.st) :
    TSoundS Γ fuel'.succ (.loop c b) σ := by
  intro g wt o h
  have g' := g
  simp only [NoRetypeS, Bool.and_eq_true] at g'
  obtain ⟨gc, gb⟩ := g'
  rw [peepS.eq_7]
  split
  · rename_i hc
    rw [exec.eq_8] at h
    obtain ⟨cv, ec, h⟩ := bind_ok h
    rw [exec_empty]
    split at h
    · cases h
      exact ⟨_, rfl, rfl, rfl, Nat.le_refl _, Nat.zero_le _⟩
    · cases cond_lit ec hc
    · cases h
  split
  · rename_i hc he
    obtain ⟨cm, rfl⟩ := isEmptyBlock_eq he
    obtain ⟨hst, hret⟩ := loop_empty h
    rw [exec_empty]
    exact ⟨_, rfl, hst.symm, hret.symm, Nat.zero_le _, Nat.zero_le _⟩
  · rename_i hc he
    rw [exec.eq_8] at h ⊢
    obtain ⟨cv, ec, h⟩ := bind_ok h
    split at h
    · cases h
      rw [peepE_exact_typed wt gc ec]
      exact ⟨_, rfl, OutE.refl _⟩
    · obtain ⟨o1, e1, h⟩ := bind_ok h
      have wt1 : WT Γ o1.st := exec_preserves_WT Γ fuel' b σ gb wt o1 e1
      rw [peepE_exact_typed wt gc ec, ok_bind]; simp only
      obtain ⟨o1', e1', r1⟩ := hb gb wt _ e1
      rw [e1', ok_bind]
      obtain ⟨st1, ret1, it1, sp1⟩ := o1
      obtain ⟨st1', ret1', it1', sp1'⟩ := o1'
      obtain ⟨r1, r2, r3, r4⟩ := r1
      simp only at r1 r2 r3 r4 h wt1 ⊢
      subst r1 r2
      cases ret1' <;> simp only at h ⊢
      · obtain ⟨o2, e3, h⟩ := bind_ok h; cases h
        have := hl ⟨st1', none, it1, sp1⟩ g wt1 _ e3
        rw [peepS.eq_7, if_neg hc, if_neg he] at this
        obtain ⟨o2', e3', q1, q2, q3, q4⟩ := this
        rw [e3', ok_bind]
        exact ⟨_, rfl, q1, q2, Nat.succ_le_succ (Nat.add_le_add r3 q3),
          Nat.succ_le_succ (Nat.add_le_add r4 q4)⟩
      · cases h
        exact ⟨_, rfl, rfl, rfl, Nat.succ_le_succ r3, Nat.succ_le_succ r4⟩
    · cases h

/-- statement-level exact soundness on the typed fragment -/
theorem peepS_sound_typed (Γ : String → Option Ty) (fuel : Nat) (s : Stmt F) (σ : State F) :
    TSoundS Γ fuel s σ := by
  induction fuel, s, σ using exec.induct (F := F)
    (motive2 := fun fuel ss σ => TSoundL Γ fuel ss σ) with
  | case1 fuel e σ => exact tsound_expr Γ fuel e σ
  | case2 fuel n t σ => exact tsound_decl Γ fuel n t σ
  | case3 fuel t v σ => exact tsound_assign Γ fuel t v σ
  | case4 fuel n t v σ => exact tsound_declAssign Γ fuel n t v σ
  | case5 fuel ss c σ ih => exact tsound_block ih
  | case6 fuel c t f σ iht ihf => exact tsound_branch iht ihf
  | case7 c b σ => exact tsound_loop_zero Γ c b σ
  | case8 c b σ fuel' ihb ihl => exact tsound_loop_succ ihb ihl
  | case9 fuel e σ => exact tsound_ret Γ fuel e σ
  | case10 fuel σ => exact tsound_nil Γ fuel σ
  | case11 fuel s ss σ ihs ihss => exact tsound_cons ihs ihss

end TV.IR
