import TensoraVerif.Model.PeepTyped
import TensoraVerif.Model.GenerateIR

/-!
C07 (typed fragment), a first step towards "the compiler only emits kernels of the typed
fragment": the right-hand side `to_ir(e)` of every terminal assignment — the only place where the
float literals of the user's expression enter a kernel — is float-typed and lies in `NoRetypeE Γ`,
whatever literals (`0`, `1`, `0.0`, `1.0`, …) the expression contains, as soon as `Γ` types the
`<tensor>_vals` variables `double*`.
-/
namespace TV.IR
open TV.Graph TV.Gen
set_option linter.unusedSectionVars false
variable {F : Type} [FloatOps F]

/-- `Γ` types the values array of every tensor of `e` as `double*` -/
def valsTyped (Γ : String → Option Ty) : IdExpr → Bool
  | .int _ => true
  | .flt _ => true
  | .tensor t => Γ (valsName t.name) == some (.ptr .float)
  | .add l r => valsTyped Γ l && valsTyped Γ r
  | .mul l r => valsTyped Γ l && valsTyped Γ r

theorem isInt_false_of_float {Γ : String → Option Ty} {e : Expr F} (k : Int)
    (h : tyOf Γ e = some .float) : e.isInt k = false := by
  cases e <;> first | rfl | (simp [tyOf] at h)

/-- the optimiser keeps float-typed operands float-typed -/
theorem peepBin_float {Γ : String → Option Ty} {op : BinOp} {l r : Expr F}
    (ho : op = .add ∨ op = .mul) (hl : tyOf Γ l = some .float) (hr : tyOf Γ r = some .float) :
    tyOf Γ (peepBin op l r) = some .float := by
  have hb : ∀ o, o = BinOp.add ∨ o = BinOp.mul → tyOf Γ (.bin o l r) = some .float := by
    intro o ho'
    rcases ho' with rfl | rfl <;> simp [tyOf, hl, hr, addKind, arithKind]
  rcases ho with rfl | rfl
  · simp only [peepBin]
    split; · exact hr
    split; · exact hl
    exact hb _ (Or.inl rfl)
  · simp only [peepBin]
    split
    · rename_i hz
      rw [isInt_false_of_float 0 hl, isInt_false_of_float 0 hr] at hz
      cases hz
    split; · rfl
    split; · exact hr
    split; · exact hl
    exact hb _ (Or.inr rfl)

theorem binOKT_float {op : BinOp} {Γ : String → Option Ty} {l r : Expr F} (il ir : Bool)
    (hl : tyOf Γ l = some .float) (hr : tyOf Γ r = some .float) :
    binOKT true true il ir op l r = true := by
  cases op <;> simp only [binOKT]
  case add => repeat (first | rfl | split)
  case sub => repeat (first | rfl | split)
  case mul =>
    rw [isInt_false_of_float 0 hl, isInt_false_of_float 0 hr]
    simp only [Bool.or_self, Bool.false_eq_true, if_false]
    repeat (first | rfl | split)

/-- the emitted terminal expression is float-typed — before and after optimisation — and in the
typed fragment -/
theorem toIrWith_typed (Γ : String → Option Ty) (ofRat : Rat → F) (e : IdExpr)
    (h : valsTyped Γ e = true) :
    tyOf Γ (toIrWith ofRat e) = some .float ∧ tyOf Γ (peepE (toIrWith ofRat e)) = some .float ∧
      NoRetypeE Γ (toIrWith ofRat e) = true := by
  induction e with
  | int v => exact ⟨rfl, rfl, rfl⟩
  | flt q => exact ⟨rfl, rfl, rfl⟩
  | tensor t =>
    simp only [valsTyped, beq_iff_eq] at h
    have key : ∀ p : Expr F, tyOf Γ (.idx (.var (valsName t.name)) p : Expr F) = some .float := by
      intro p; simp [tyOf, Expr.isLevelE, h, NumKind.ofTy]
    refine ⟨key _, ?_, ?_⟩
    · simp only [toIrWith, peepE]; exact key _
    · simp only [toIrWith, NoRetypeE, Bool.true_and]
      unfold prevLayerPointer
      split <;> rfl
  | add l r ihl ihr =>
    simp only [valsTyped, Bool.and_eq_true] at h
    obtain ⟨l1, l2, l3⟩ := ihl h.1
    obtain ⟨r1, r2, r3⟩ := ihr h.2
    refine ⟨by simp [toIrWith, tyOf, l1, r1, addKind, arithKind], ?_, ?_⟩
    · simp only [toIrWith, peepE]; exact peepBin_float (Or.inl rfl) l2 r2
    · simp only [toIrWith, NoRetypeE, Bool.and_eq_true]
      refine ⟨⟨l3, r3⟩, ?_⟩
      have fl : hasKindE Γ .float (toIrWith ofRat l) = true := by simp [hasKindE, l1]
      have fr : hasKindE Γ .float (toIrWith ofRat r) = true := by simp [hasKindE, r1]
      rw [fl, fr]; exact binOKT_float _ _ l2 r2
  | mul l r ihl ihr =>
    simp only [valsTyped, Bool.and_eq_true] at h
    obtain ⟨l1, l2, l3⟩ := ihl h.1
    obtain ⟨r1, r2, r3⟩ := ihr h.2
    refine ⟨by simp [toIrWith, tyOf, l1, r1, arithKind], ?_, ?_⟩
    · simp only [toIrWith, peepE]; exact peepBin_float (Or.inr rfl) l2 r2
    · simp only [toIrWith, NoRetypeE, Bool.and_eq_true]
      refine ⟨⟨l3, r3⟩, ?_⟩
      have fl : hasKindE Γ .float (toIrWith ofRat l) = true := by simp [hasKindE, l1]
      have fr : hasKindE Γ .float (toIrWith ofRat r) = true := by simp [hasKindE, r1]
      rw [fl, fr]; exact binOKT_float _ _ l2 r2

end TV.IR
