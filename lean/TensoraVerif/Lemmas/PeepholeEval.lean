import TensoraVerif.Lemmas.PeepholeVal

/-!
C07, `evalE`: unfolding lemmas (one per constructor, with the attribute / index reads factored out
as `attrOf` / `idxOf`) and `evalE_wf`: every value `evalE` returns is well formed (`WfVal`).
-/
namespace TV.IR
set_option linter.unusedSectionVars false
section NoLaws
variable {F : Type} [FloatOps F]

theorem bind_ok {α β : Type} {x : Except Err α} {f : α → Except Err β} {b : β}
    (h : x >>= f = .ok b) : ∃ a, x = .ok a ∧ f a = .ok b := by
  cases x with
  | ok a => exact ⟨a, rfl, h⟩
  | error e => cases h

/-- the attribute read of `evalE`, factored out -/
def attrOf (σ : State F) (tv : Val F) (a : String) : Except Err (Val F) :=
  match tv with
  | .tensor k =>
    match σ.tensors[k]? with
    | none => .error .null
    | some tr =>
      if a == "dimensions" then .ok (.ptr tr.dimsBlk 0)
      else if a == "indices" then .ok (.indices k)
      else if a == "vals" then (if isPtrVal tr.vals then .ok tr.vals else .error .typeError)
      else .error .typeError
  | _ => .error .typeError

/-- the indexed read of `evalE`, factored out -/
def idxOf (σ : State F) (tv iv : Val F) : Except Err (Val F) :=
  match tv, iv with
  | .ptr b off, .int k => readBlock σ b (off + k)
  | .null, .int _ => .error .null
  | .indices k, .int l =>
    match σ.tensors[k]? with
    | none => .error .null
    | some tr => if 0 ≤ l ∧ l < tr.order then .ok (.level k l.toNat) else .error .oob
  | .level k l, .int j =>
    match σ.tensors[k]? with
    | none => .error .null
    | some tr =>
      match tr.slots[l]? with
      | some (some (p, c)) =>
        if j = 0 then (if isPtrVal p then .ok p else .error .typeError)
        else if j = 1 then (if isPtrVal c then .ok c else .error .typeError)
        else .error .oob
      | _ => .error .oob
  | _, _ => .error .typeError

theorem evalE_attr (σ : State F) (t : Expr F) (a : String) :
    evalE σ (.attr t a) = evalE σ t >>= fun tv => attrOf σ tv a := by
  rfl

theorem evalE_idx (σ : State F) (t i : Expr F) :
    evalE σ (.idx t i) = evalE σ t >>= fun tv => evalE σ i >>= fun iv => idxOf σ tv iv := by
  rfl

theorem evalE_bin (σ : State F) (op : BinOp) (l r : Expr F) (h1 : op ≠ .and) (h2 : op ≠ .or) :
    evalE σ (.bin op l r) = evalE σ l >>= fun a => evalE σ r >>= fun b => binVal op a b := by
  cases op <;> first | rfl | contradiction

def andOf (σ : State F) (r : Expr F) (lv : Val F) : Except Err (Val F) :=
  match lv with
  | .bool false => .ok (.bool false)
  | .bool true => evalE σ r >>= fun rv => match rv with
    | .bool b => .ok (.bool b)
    | _ => .error .typeError
  | _ => .error .typeError

theorem evalE_and (σ : State F) (l r : Expr F) :
    evalE σ (.bin .and l r) = evalE σ l >>= fun lv =>
      match lv with
      | .bool false => .ok (.bool false)
      | .bool true => evalE σ r >>= fun rv => match rv with
        | .bool b => .ok (.bool b)
        | _ => .error .typeError
      | _ => .error .typeError := by
  rfl

theorem evalE_or (σ : State F) (l r : Expr F) :
    evalE σ (.bin .or l r) = evalE σ l >>= fun lv =>
      match lv with
      | .bool true => .ok (.bool true)
      | .bool false => evalE σ r >>= fun rv => match rv with
        | .bool b => .ok (.bool b)
        | _ => .error .typeError
      | _ => .error .typeError := by
  rfl

theorem evalE_b2i (σ : State F) (e : Expr F) :
    evalE σ (.b2i e) = evalE σ e >>= fun v =>
      match v with
      | .bool b => .ok (.int (if b then 1 else 0))
      | _ => .error .typeError := by
  rfl

theorem isPtrVal_wf {v : Val F} (h : isPtrVal v = true) : WfVal v := by
  cases v <;> simp_all [isPtrVal, WfVal]

theorem isPtrVal_toNum {v : Val F} (h : isPtrVal v = true) : v.toNum = none := by
  cases v <;> simp_all [isPtrVal, Val.toNum]

theorem readBlock_wf {σ : State F} {b : Nat} {off : Int} {v : Val F}
    (h : readBlock σ b off = .ok v) : WfVal v := by
  unfold readBlock at h
  split at h; · cases h
  split at h; · cases h
  split at h; · cases h
  split at h
  · split at h
    · exact (chkVal_ok h).2
    · cases h
  · cases h

theorem attrOf_ok {σ : State F} {tv v : Val F} {a : String} (h : attrOf σ tv a = .ok v) :
    (∃ k, tv = .tensor k) ∧ WfVal v := by
  unfold attrOf at h
  split at h
  · refine ⟨⟨_, rfl⟩, ?_⟩
    split at h; · cases h
    split at h; · cases h; trivial
    split at h; · cases h; trivial
    split at h
    · split at h
      · cases h; exact isPtrVal_wf ‹_›
      · cases h
    · cases h
  · cases h

theorem idxOf_ok {σ : State F} {tv iv v : Val F} (h : idxOf σ tv iv = .ok v) :
    tv.toNum = none ∧ (∃ k, iv = .int k) ∧ WfVal v := by
  unfold idxOf at h
  split at h
  · exact ⟨rfl, ⟨_, rfl⟩, readBlock_wf h⟩
  · cases h
  · refine ⟨rfl, ⟨_, rfl⟩, ?_⟩
    split at h; · cases h
    split at h
    · cases h; trivial
    · cases h
  · refine ⟨rfl, ⟨_, rfl⟩, ?_⟩
    split at h; · cases h
    split at h
    · split at h
      · split at h
        · cases h; exact isPtrVal_wf ‹_›
        · cases h
      · split at h
        · split at h
          · cases h; exact isPtrVal_wf ‹_›
          · cases h
        · cases h
    · cases h
  · cases h

/-- every value `evalE` returns is a 32-bit integer or a finite float (or not a number) -/
theorem evalE_wf [FloatLaws F] {σ : State F} {e : Expr F} {v : Val F} (h : evalE σ e = .ok v) : WfVal v := by
  induction e generalizing v with
  | var x =>
    simp only [evalE] at h
    split at h; · cases h
    split at h; · cases h
    split at h
    · exact (chkVal_ok h).2
    · cases h
  | attr t a _ =>
    rw [evalE_attr] at h
    obtain ⟨tv, _, h⟩ := bind_ok h
    exact (attrOf_ok h).2
  | idx t i _ _ =>
    rw [evalE_idx] at h
    obtain ⟨tv, _, h⟩ := bind_ok h
    obtain ⟨iv, _, h⟩ := bind_ok h
    exact (idxOf_ok h).2.2
  | intLit z => simp only [evalE] at h; exact (chkInt_ok h).1 ▸ (chkInt_ok h).2
  | floatLit f => simp only [evalE] at h; exact (chkFlt_ok h).1 ▸ (chkFlt_ok h).2
  | boolLit b => simp only [evalE] at h; cases h; trivial
  | bin op l r ihl ihr =>
    by_cases h1 : op = .and
    · subst h1
      rw [evalE_and] at h
      obtain ⟨lv, _, h⟩ := bind_ok h
      split at h
      · cases h; trivial
      · obtain ⟨rv, _, h⟩ := bind_ok h
        split at h
        · cases h; trivial
        · cases h
      · cases h
    by_cases h2 : op = .or
    · subst h2
      rw [evalE_or] at h
      obtain ⟨lv, _, h⟩ := bind_ok h
      split at h
      · cases h; trivial
      · obtain ⟨rv, _, h⟩ := bind_ok h
        split at h
        · cases h; trivial
        · cases h
      · cases h
    rw [evalE_bin _ _ _ _ h1 h2] at h
    obtain ⟨a, ha, h⟩ := bind_ok h
    obtain ⟨b, hb, h⟩ := bind_ok h
    exact binVal_wf (ihl ha) (ihr hb) h
  | b2i e _ =>
    rw [evalE_b2i] at h
    obtain ⟨a, ha, h⟩ := bind_ok h
    split at h
    · cases h; simp only [WfVal]; split <;> decide
    · cases h
  | alloc t n _ => simp only [evalE] at h; cases h
  | realloc o t n _ _ => simp only [evalE] at h; cases h

end NoLaws
end TV.IR
