import TensoraVerif.Lemmas.PeepholeExpr

/-!
C07, the retyping-free fragment `NoFloatIdentityE/S` and exactness of `peepE` on it (`peepE_exact`).
-/
namespace TV.IR
set_option linter.unusedSectionVars false
variable {F : Type} [FloatOps F] [FloatLaws F]
open FloatOps FloatLaws

/-! ### the retyping-free fragment

Only four rewrite rules can change the *type* of a result (float → int) or make the optimised
program overflow where the original did not:
`0.0 + e → e`, `e + 0.0 → e`, `e - 0.0 → e`, `1.0 * e → e`, `e * 1.0 → e` (the float-literal
identities, which drop the promotion of an integer `e`), and `0 * e → 0`, `e * 0 → 0` (which replace
a possibly float product by the integer literal). `binOK` says that none of them is the rule that
fires at a node; the exact rules (`0 + e`, `e - 0`, `1 * e`, `0.0 * e → 0.0`, `e == e`, the Boolean
rules, …) are all allowed. -/

/-- the rule that fires at `op l r` (operands already optimised) is not a retyping rule -/
def binOK (op : BinOp) (l r : Expr F) : Bool :=
  match op with
  | .add => !l.isFloatZero && (l.isInt 0 || !r.isFloatZero)
  | .sub => !r.isFloatZero
  | .mul => !(l.isInt 0 || r.isInt 0) &&
      (l.isFloatZero || r.isFloatZero || (!l.isFloatOne && (l.isInt 1 || !r.isFloatOne)))
  | _ => true

/-- no retyping rule fires anywhere in the optimisation of `e` (decidable, syntactic) -/
def NoFloatIdentityE : Expr F → Bool
  | .var _ => true
  | .attr t _ => NoFloatIdentityE t
  | .idx t i => NoFloatIdentityE t && NoFloatIdentityE i
  | .intLit _ => true
  | .floatLit _ => true
  | .boolLit _ => true
  | .bin op l r => NoFloatIdentityE l && NoFloatIdentityE r && binOK op (peepE l) (peepE r)
  | .b2i e => NoFloatIdentityE e
  | .alloc _ n => NoFloatIdentityE n
  | .realloc o _ n => NoFloatIdentityE o && NoFloatIdentityE n

mutual
/-- no retyping rule fires anywhere in the optimisation of `s` -/
def NoFloatIdentityS : Stmt F → Bool
  | .expr e => NoFloatIdentityE e
  | .decl _ _ => true
  | .assign t v => NoFloatIdentityE t && NoFloatIdentityE v
  | .declAssign _ _ v => NoFloatIdentityE v
  | .block ss _ => NoFloatIdentityL ss
  | .branch c t f => NoFloatIdentityE c && NoFloatIdentityS t && NoFloatIdentityS f
  | .loop c b => NoFloatIdentityE c && NoFloatIdentityS b
  | .ret e => NoFloatIdentityE e
def NoFloatIdentityL : List (Stmt F) → Bool
  | [] => true
  | s :: ss => NoFloatIdentityS s && NoFloatIdentityL ss
end

theorem add_izero_left {b v : Val F} (hb : WfVal b) (h : binVal .add (.int 0) b = .ok v) : v = b := by
  cases b <;> simp only [binVal, Val.toNum, numOp, Num.toF] at h <;> try (cases h; done)
  · obtain ⟨rfl, _⟩ := chkInt_ok h; rw [Int.zero_add]
  · rw [ofInt_zero, zero_add _ hb] at h; exact (chkFlt_ok h).1

theorem add_izero_right {a v : Val F} (ha : WfVal a) (h : binVal .add a (.int 0) = .ok v) : v = a := by
  cases a <;> simp only [binVal, Val.toNum, numOp, Num.toF] at h <;> try (cases h; done)
  · obtain ⟨rfl, _⟩ := chkInt_ok h; rw [Int.add_zero]
  · rw [ofInt_zero, add_zero _ ha] at h; exact (chkFlt_ok h).1
  · cases h; rw [Int.add_zero]

theorem sub_izero_right {a v : Val F} (ha : WfVal a) (h : binVal .sub a (.int 0) = .ok v) : v = a := by
  cases a <;> simp only [binVal, Val.toNum, numOp, Num.toF] at h <;> try (cases h; done)
  · obtain ⟨rfl, _⟩ := chkInt_ok h; rw [Int.sub_zero]
  · rw [ofInt_zero, sub_zero _ ha] at h; exact (chkFlt_ok h).1

theorem mul_ione_left {b v : Val F} (hb : WfVal b) (h : binVal .mul (.int 1) b = .ok v) : v = b := by
  cases b <;> simp only [binVal, Val.toNum, numOp, Num.toF] at h <;> try (cases h; done)
  · obtain ⟨rfl, _⟩ := chkInt_ok h; rw [Int.one_mul]
  · rw [ofInt_one, one_mul _ hb] at h; exact (chkFlt_ok h).1

theorem mul_ione_right {a v : Val F} (ha : WfVal a) (h : binVal .mul a (.int 1) = .ok v) : v = a := by
  cases a <;> simp only [binVal, Val.toNum, numOp, Num.toF] at h <;> try (cases h; done)
  · obtain ⟨rfl, _⟩ := chkInt_ok h; rw [Int.mul_one]
  · rw [ofInt_one, mul_one _ ha] at h; exact (chkFlt_ok h).1

omit [FloatLaws F] in
theorem evalE_intLit_inv {σ : State F} {z : Int} {v : Val F} (h : evalE σ (.intLit z) = .ok v) :
    v = .int z := by
  simp only [evalE] at h; exact (chkInt_ok h).1

omit [FloatLaws F] in
theorem evalE_floatLit_inv {σ : State F} {f : F} {v : Val F} (h : evalE σ (.floatLit f) = .ok v) :
    v = .flt f := by
  simp only [evalE] at h; exact (chkFlt_ok h).1

omit [FloatLaws F] in
theorem evalE_boolLit_inv {σ : State F} {b : Bool} {v : Val F} (h : evalE σ (.boolLit b) = .ok v) :
    v = .bool b := by
  simp only [evalE] at h; cases h; rfl

theorem evalE_int0 (σ : State F) : evalE σ (.intLit 0) = .ok (.int 0) := by
  simp only [evalE]; exact chkInt_of (by decide)

theorem evalE_fzero (σ : State F) : evalE σ (.floatLit (zero : F)) = .ok (.flt zero) := by
  simp only [evalE]; exact chkFlt_of finite_zero

/-- the rule table for strict operators is exact when no retyping rule fires -/
theorem peepBin_exact {σ : State F} {op : BinOp} {l r : Expr F} {a b v : Val F}
    (h1 : op ≠ .and) (h2 : op ≠ .or) (hok : binOK op l r = true)
    (el : evalE σ l = .ok a) (er : evalE σ r = .ok b) (h : binVal op a b = .ok v) :
    evalE σ (peepBin op l r) = .ok v := by
  have wfa := evalE_wf el
  have wfb := evalE_wf er
  have base : evalE σ (.bin op l r) = .ok v := by
    rw [evalE_bin _ _ _ _ h1 h2, el, ok_bind, er, ok_bind]; exact h
  have cmp : l.beq r = true →
      (cmpTrue op = true → v = .bool true) ∧ (cmpFalse op = true → v = .bool false) := by
    intro hlr
    have := Expr.beq_eq hlr; subst this
    rw [el] at er; cases er
    exact binVal_self wfa h
  cases op <;> simp only [peepBin]
  case add =>
    simp only [binOK, Bool.and_eq_true, Bool.or_eq_true, Bool.not_eq_true'] at hok
    split
    · rename_i hz; rw [Bool.or_eq_true] at hz
      rcases hz with hz | hz
      · rw [isInt_eq hz] at el
        cases evalE_intLit_inv el
        rw [add_izero_left wfb h]; exact er
      · rw [hok.1] at hz; cases hz
    split
    · rename_i hl hz; rw [Bool.or_eq_true] at hz
      rcases hz with hz | hz
      · rw [isInt_eq hz] at er
        cases evalE_intLit_inv er
        rw [add_izero_right wfa h]; exact el
      · rcases hok.2 with h' | h'
        · simp [h'] at hl
        · rw [h'] at hz; cases hz
    exact base
  case sub =>
    simp only [binOK, Bool.not_eq_true'] at hok
    split
    · rename_i hz; rw [Bool.or_eq_true] at hz
      rcases hz with hz | hz
      · rw [isInt_eq hz] at er
        cases evalE_intLit_inv er
        rw [sub_izero_right wfa h]; exact el
      · rw [hok] at hz; cases hz
    exact base
  case mul =>
    simp only [binOK, Bool.and_eq_true, Bool.or_eq_true, Bool.not_eq_true'] at hok
    obtain ⟨hok1, hok2⟩ := hok
    split
    · rename_i hz; rw [hok1] at hz; cases hz
    split
    · rename_i hz; rw [Bool.or_eq_true] at hz
      rcases hz with hz | hz
      · rw [isFloatZero_eq hz] at el
        cases evalE_floatLit_inv el
        rw [mul_fzero_left wfb h]; exact evalE_fzero σ
      · rw [isFloatZero_eq hz] at er
        cases evalE_floatLit_inv er
        rw [mul_fzero_right wfa h]; exact evalE_fzero σ
    rename_i hfz
    have hok3 : l.isFloatOne = false ∧ (l.isInt 1 = true ∨ r.isFloatOne = false) := by
      rcases hok2 with (h' | h') | h'
      · simp [h'] at hfz
      · simp [h'] at hfz
      · exact h'
    split
    · rename_i hz; rw [Bool.or_eq_true] at hz
      rcases hz with hz | hz
      · rw [isInt_eq hz] at el
        cases evalE_intLit_inv el
        rw [mul_ione_left wfb h]; exact er
      · rw [hok3.1] at hz; cases hz
    split
    · rename_i hl hz; rw [Bool.or_eq_true] at hz
      rcases hz with hz | hz
      · rw [isInt_eq hz] at er
        cases evalE_intLit_inv er
        rw [mul_ione_right wfa h]; exact el
      · rcases hok3.2 with h' | h'
        · simp [h'] at hl
        · rw [h'] at hz; cases hz
    exact base
  case eq =>
    split
    · rw [(cmp ‹_›).1 rfl]; simp only [evalE]
    exact base
  case ge =>
    split
    · rw [(cmp ‹_›).1 rfl]; simp only [evalE]
    exact base
  case le =>
    split
    · rw [(cmp ‹_›).1 rfl]; simp only [evalE]
    exact base
  case ne =>
    split
    · rw [(cmp ‹_›).2 rfl]; simp only [evalE]
    exact base
  case gt =>
    split
    · rw [(cmp ‹_›).2 rfl]; simp only [evalE]
    exact base
  case lt =>
    split
    · rw [(cmp ‹_›).2 rfl]; simp only [evalE]
    exact base
  case and => exact absurd rfl h1
  case or => exact absurd rfl h2
  case max => exact base
  case min => exact base

omit [FloatLaws F] in
theorem peepAnd_exact {σ : State F} {l₀ r₀ l r : Expr F} {v : Val F}
    (ihl : ∀ v, evalE σ l₀ = .ok v → evalE σ l = .ok v)
    (ihr : ∀ v, evalE σ r₀ = .ok v → evalE σ r = .ok v)
    (h : evalE σ (.bin .and l₀ r₀) = .ok v) :
    evalE σ (peepBin .and l r) = .ok v := by
  rw [evalE_and] at h
  obtain ⟨lv, e1, h⟩ := bind_ok h
  have ml := ihl _ e1
  split at h
  · cases h
    simp only [peepBin]
    split
    · simp only [evalE]
    split
    · rename_i hl; rw [isBool_eq hl] at ml; cases evalE_boolLit_inv ml
    split
    · exact ml
    rw [evalE_and, ml]; rfl
  · obtain ⟨rv, e2, h⟩ := bind_ok h
    have mr := ihr _ e2
    split at h
    · cases h
      simp only [peepBin]
      split
      · rename_i hz; rw [Bool.or_eq_true] at hz
        rcases hz with hz | hz
        · rw [isBool_eq hz] at ml; cases evalE_boolLit_inv ml
        · rw [isBool_eq hz] at mr; cases evalE_boolLit_inv mr
          simp only [evalE]
      split
      · exact mr
      split
      · rename_i hr; rw [isBool_eq hr] at mr; cases evalE_boolLit_inv mr
        exact ml
      rw [evalE_and, ml, ok_bind]; simp only
      rw [mr]; rfl
    · cases h
  · cases h

omit [FloatLaws F] in
theorem peepOr_exact {σ : State F} {l₀ r₀ l r : Expr F} {v : Val F}
    (ihl : ∀ v, evalE σ l₀ = .ok v → evalE σ l = .ok v)
    (ihr : ∀ v, evalE σ r₀ = .ok v → evalE σ r = .ok v)
    (h : evalE σ (.bin .or l₀ r₀) = .ok v) :
    evalE σ (peepBin .or l r) = .ok v := by
  rw [evalE_or] at h
  obtain ⟨lv, e1, h⟩ := bind_ok h
  have ml := ihl _ e1
  split at h
  · cases h
    simp only [peepBin]
    split
    · simp only [evalE]
    split
    · rename_i hl; rw [isBool_eq hl] at ml; cases evalE_boolLit_inv ml
    split
    · exact ml
    rw [evalE_or, ml]; rfl
  · obtain ⟨rv, e2, h⟩ := bind_ok h
    have mr := ihr _ e2
    split at h
    · cases h
      simp only [peepBin]
      split
      · rename_i hz; rw [Bool.or_eq_true] at hz
        rcases hz with hz | hz
        · rw [isBool_eq hz] at ml; cases evalE_boolLit_inv ml
        · rw [isBool_eq hz] at mr; cases evalE_boolLit_inv mr
          simp only [evalE]
      split
      · exact mr
      split
      · rename_i hr; rw [isBool_eq hr] at mr; cases evalE_boolLit_inv mr
        exact ml
      rw [evalE_or, ml, ok_bind]; simp only
      rw [mr]; rfl
    · cases h
  · cases h

/-- on the retyping-free fragment the optimised expression evaluates to exactly the same value -/
theorem peepE_exact {σ : State F} {e : Expr F} {v : Val F} (hs : NoFloatIdentityE e = true)
    (h : evalE σ e = .ok v) : evalE σ (peepE e) = .ok v := by
  induction e generalizing v with
  | var x => exact h
  | attr t a ih =>
    simp only [NoFloatIdentityE] at hs
    rw [evalE_attr] at h
    obtain ⟨tv, e1, h⟩ := bind_ok h
    simp only [peepE]
    rw [evalE_attr, ih hs e1]; exact h
  | idx t i iht ihi =>
    simp only [NoFloatIdentityE, Bool.and_eq_true] at hs
    rw [evalE_idx] at h
    obtain ⟨tv, e1, h⟩ := bind_ok h
    obtain ⟨iv, e2, h⟩ := bind_ok h
    simp only [peepE]
    rw [evalE_idx, iht hs.1 e1, ok_bind, ihi hs.2 e2]; exact h
  | intLit z => exact h
  | floatLit f => exact h
  | boolLit b => exact h
  | bin op l r ihl ihr =>
    simp only [NoFloatIdentityE, Bool.and_eq_true] at hs
    obtain ⟨⟨hl, hr⟩, hok⟩ := hs
    simp only [peepE]
    by_cases h1 : op = .and
    · subst h1; exact peepAnd_exact (fun _ => ihl hl) (fun _ => ihr hr) h
    by_cases h2 : op = .or
    · subst h2; exact peepOr_exact (fun _ => ihl hl) (fun _ => ihr hr) h
    rw [evalE_bin _ _ _ _ h1 h2] at h
    obtain ⟨a, e1, h⟩ := bind_ok h
    obtain ⟨b, e2, h⟩ := bind_ok h
    exact peepBin_exact h1 h2 hok (ihl hl e1) (ihr hr e2) h
  | b2i e ih =>
    simp only [NoFloatIdentityE] at hs
    rw [evalE_b2i] at h
    obtain ⟨a, e1, h⟩ := bind_ok h
    have m := ih hs e1
    split at h
    · cases h
      simp only [peepE]
      split
      · rename_i hb; rw [isBool_eq hb] at m; cases evalE_boolLit_inv m
        exact evalE_int0 σ
      split
      · rename_i hb; rw [isBool_eq hb] at m; cases evalE_boolLit_inv m
        simp only [evalE]; exact chkInt_of (by decide)
      rw [evalE_b2i, m]; rfl
    · cases h
  | alloc t n _ => simp only [evalE] at h; cases h
  | realloc o t n _ _ => simp only [evalE] at h; cases h
