import TensoraVerif.Model.FloatLaws

/-!
Concrete programs over the exact carrier `F := Int` (`FloatOps.instInt`, `FloatLaws.instInt`) used
by the non-vacuity `example`s of `Props/C07.lean`.
-/
namespace TV.IR.C07Ex

/-- `s = 0; i = 0; while (i < 3) { s = s + 1 * a[i]; i = (0 + i) + 1; } return s;` -/
def sumProg : Stmt Int :=
  .block [
    .declAssign "s" .int (.intLit 0),
    .declAssign "i" .int (.intLit 0),
    .loop (.bin .lt (.var "i") (.intLit 3)) (.block [
      .assign (.var "s") (.bin .add (.var "s") (.bin .mul (.intLit 1) (.idx (.var "a") (.var "i")))),
      .assign (.var "i") (.bin .add (.bin .add (.intLit 0) (.var "i")) (.intLit 1))] none),
    .ret (.var "s")] none

/-- what the optimiser makes of it: `1 * a[i]` and `0 + i` are gone -/
def sumProgOpt : Stmt Int :=
  .block [
    .declAssign "s" .int (.intLit 0),
    .declAssign "i" .int (.intLit 0),
    .loop (.bin .lt (.var "i") (.intLit 3)) (.block [
      .assign (.var "s") (.bin .add (.var "s") (.idx (.var "a") (.var "i"))),
      .assign (.var "i") (.bin .add (.var "i") (.intLit 1))] none),
    .ret (.var "s")] none

/-- `a` points to the input array `[1, 2, 3]` -/
def sumState : State Int :=
  ⟨[⟨"a", .ptr .int, some (.ptr 0 0)⟩],
   [⟨.int, [some (.int 1), some (.int 2), some (.int 3)], .input, true⟩], []⟩

/-- the original program runs to completion within fuel 10: three iterations, result 6 -/
theorem sum_runs : ∃ o, exec 10 sumProg sumState = .ok o ∧ o.ret = some (.int 6) ∧ o.iters = 3 := by
  simp [sumProg, sumState, exec, execL, evalRhs, evalE, evalLoc, store, declare, lookupVar, convTo,
    setVar, setVarOpt, chkInt, chkVal, inI32, hasTy, binVal, numOp, Val.toNum, readBlock,
    hasElemTy, Block.len, bind, Except.bind, Out.seq]

/-- finding F8: `(1.0 * i) * j` -/
def f8Expr : Expr Int := .bin .mul (.bin .mul (.floatLit 1) (.var "i")) (.var "j")

/-- `i = j = 100000` (both `int`) -/
def f8State : State Int :=
  ⟨[⟨"i", .int, some (.int 100000)⟩, ⟨"j", .int, some (.int 100000)⟩], [], []⟩

end TV.IR.C07Ex
