import TensoraVerif.Lemmas.PeepholeMEval

/-!
C07, expression level: the rule table `peepBin` against the coercing evaluation, (A)
`peepE_meval`: the optimised tree has a coercing evaluation to a preimage of the original value,
and `peepE_sound` = (A) + (C).
-/
namespace TV.IR
set_option linter.unusedSectionVars false
variable {F : Type} [FloatOps F] [FloatLaws F]
open FloatOps FloatLaws

theorem MEval.boolLit_inv {σ : State F} {b : Bool} {v : Val F} (h : MEval σ (.boolLit b) v) :
    v = .bool b := by cases h; rfl
theorem MEval.intLit_inv {σ : State F} {z : Int} {v : Val F} (h : MEval σ (.intLit z) v) :
    v = .int z := by cases h; rfl
theorem MEval.floatLit_inv {σ : State F} {f : F} {v : Val F} (h : MEval σ (.floatLit f) v) :
    v = .flt f := by cases h; rfl

theorem zero_of_lit {σ : State F} {l : Expr F} {wa a : Val F}
    (hl : (l.isInt 0 || l.isFloatZero) = true) (ml : MEval σ l wa) (ca : Coerce wa a) : IsZeroV a := by
  rw [Bool.or_eq_true] at hl
  rcases hl with hl | hl
  · have := isInt_eq hl; subst this
    have := ml.intLit_inv; subst this
    exact isZeroV_coerce ca
  · have := isFloatZero_eq hl; subst this
    have := ml.floatLit_inv; subst this
    rw [coerce_from_flt] at ca; exact Or.inr ca

theorem one_of_lit {σ : State F} {l : Expr F} {wa a : Val F}
    (hl : (l.isInt 1 || l.isFloatOne) = true) (ml : MEval σ l wa) (ca : Coerce wa a) : IsOneV a := by
  rw [Bool.or_eq_true] at hl
  rcases hl with hl | hl
  · have := isInt_eq hl; subst this
    have := ml.intLit_inv; subst this
    exact isOneV_coerce ca
  · have := isFloatOne_eq hl; subst this
    have := ml.floatLit_inv; subst this
    rw [coerce_from_flt] at ca; exact Or.inr ca

theorem izero_of_lit {σ : State F} {l : Expr F} {wa a : Val F}
    (hl : l.isInt 0 = true) (ml : MEval σ l wa) (ca : Coerce wa a) : IsZeroV a :=
  zero_of_lit (by simp [hl]) ml ca

theorem fzero_of_lit {σ : State F} {l : Expr F} {wa a : Val F}
    (hl : l.isFloatZero = true) (ml : MEval σ l wa) (ca : Coerce wa a) : a = .flt zero := by
  have := isFloatZero_eq hl; subst this
  have := ml.floatLit_inv; subst this
  rw [coerce_from_flt] at ca; exact ca

theorem MEval.int0 (σ : State F) : MEval σ (.intLit 0) (.int 0) := MEval.intLit (by decide)
theorem MEval.fzero (σ : State F) : MEval σ (.floatLit zero) (.flt zero) := MEval.floatLit finite_zero

/-- comparison of an optimised tree with itself -/
theorem peepCmp_sound {σ : State F} {op : BinOp} {l r : Expr F} {wa wb a b v : Val F}
    (hlr : l.beq r = true)
    (ml : MEval σ l wa) (ca : Coerce wa a) (mr : MEval σ r wb) (cb : Coerce wb b)
    (wfa : WfVal a) (wfb : WfVal b) (h : binVal op a b = .ok v) :
    (cmpTrue op = true → v = .bool true) ∧ (cmpFalse op = true → v = .bool false) := by
  have := Expr.beq_eq hlr; subst this
  exact binVal_cmp_numEq wfa wfb ((ca.numEq.symm.trans (ml.confl mr)).trans cb.numEq) h

/-- the rule table for strict operators, against the coercing evaluation -/
theorem peepBin_sound {σ : State F} {op : BinOp} {l r : Expr F} {wa wb a b v : Val F}
    (h1 : op ≠ .and) (h2 : op ≠ .or)
    (ml : MEval σ l wa) (ca : Coerce wa a) (mr : MEval σ r wb) (cb : Coerce wb b)
    (wfa : WfVal a) (wfb : WfVal b) (h : binVal op a b = .ok v) :
    ∃ w, MEval σ (peepBin op l r) w ∧ Coerce w v := by
  have base : ∃ w, MEval σ (.bin op l r) w ∧ Coerce w v :=
    ⟨v, MEval.bin h1 h2 ml mr ca cb h, Coerce.refl _⟩
  have cmp := fun hlr => peepCmp_sound (op := op) hlr ml ca mr cb wfa wfb h
  cases op <;> simp only [peepBin]
  case add =>
    split
    · exact ⟨wb, mr, cb.trans (add_zero_left (zero_of_lit ‹_› ml ca) wfb h)⟩
    split
    · exact ⟨wa, ml, ca.trans (add_zero_right (zero_of_lit ‹_› mr cb) wfa h)⟩
    exact base
  case sub =>
    split
    · exact ⟨wa, ml, ca.trans (sub_zero_right (zero_of_lit ‹_› mr cb) wfa h)⟩
    exact base
  case mul =>
    split
    · rename_i hz; rw [Bool.or_eq_true] at hz
      refine ⟨_, MEval.int0 σ, coerce_of_isZeroV ?_⟩
      rcases hz with hz | hz
      · exact mul_zero_left (izero_of_lit hz ml ca) wfb h
      · exact mul_zero_right (izero_of_lit hz mr cb) wfa h
    split
    · rename_i hz; rw [Bool.or_eq_true] at hz
      refine ⟨_, MEval.fzero σ, ?_⟩
      rcases hz with hz | hz
      · have := fzero_of_lit hz ml ca; subst this
        rw [mul_fzero_left wfb h]; exact Coerce.refl _
      · have := fzero_of_lit hz mr cb; subst this
        rw [mul_fzero_right wfa h]; exact Coerce.refl _
    split
    · exact ⟨wb, mr, cb.trans (mul_one_left (one_of_lit ‹_› ml ca) wfb h)⟩
    split
    · exact ⟨wa, ml, ca.trans (mul_one_right (one_of_lit ‹_› mr cb) wfa h)⟩
    exact base
  case eq =>
    split
    · rw [(cmp ‹_›).1 rfl]; exact ⟨_, MEval.boolLit, Coerce.refl _⟩
    exact base
  case ge =>
    split
    · rw [(cmp ‹_›).1 rfl]; exact ⟨_, MEval.boolLit, Coerce.refl _⟩
    exact base
  case le =>
    split
    · rw [(cmp ‹_›).1 rfl]; exact ⟨_, MEval.boolLit, Coerce.refl _⟩
    exact base
  case ne =>
    split
    · rw [(cmp ‹_›).2 rfl]; exact ⟨_, MEval.boolLit, Coerce.refl _⟩
    exact base
  case gt =>
    split
    · rw [(cmp ‹_›).2 rfl]; exact ⟨_, MEval.boolLit, Coerce.refl _⟩
    exact base
  case lt =>
    split
    · rw [(cmp ‹_›).2 rfl]; exact ⟨_, MEval.boolLit, Coerce.refl _⟩
    exact base
  case and => exact absurd rfl h1
  case or => exact absurd rfl h2
  case max => exact base
  case min => exact base

theorem peepAnd_sound {σ : State F} {l₀ r₀ l r : Expr F} {v : Val F}
    (ihl : ∀ v, evalE σ l₀ = .ok v → ∃ w, MEval σ l w ∧ Coerce w v)
    (ihr : ∀ v, evalE σ r₀ = .ok v → ∃ w, MEval σ r w ∧ Coerce w v)
    (h : evalE σ (.bin .and l₀ r₀) = .ok v) :
    ∃ w, MEval σ (peepBin .and l r) w ∧ Coerce w v := by
  rw [evalE_and] at h
  obtain ⟨lv, e1, h⟩ := bind_ok h
  obtain ⟨wl, ml, cl⟩ := ihl _ e1
  split at h
  · cases h
    rw [coerce_to_bool] at cl; subst cl
    simp only [peepBin]
    split
    · exact ⟨_, MEval.boolLit, Coerce.refl _⟩
    split
    · rename_i hl; have := isBool_eq hl; subst this; cases ml.boolLit_inv
    split
    · exact ⟨_, ml, Coerce.refl _⟩
    exact ⟨_, MEval.andF ml, Coerce.refl _⟩
  · obtain ⟨rv, e2, h⟩ := bind_ok h
    obtain ⟨wr, mr, cr⟩ := ihr _ e2
    rw [coerce_to_bool] at cl; subst cl
    split at h
    · cases h
      rw [coerce_to_bool] at cr; subst cr
      simp only [peepBin]
      split
      · rename_i hz; rw [Bool.or_eq_true] at hz
        rcases hz with hz | hz
        · have := isBool_eq hz; subst this; cases ml.boolLit_inv
        · have := isBool_eq hz; subst this; cases mr.boolLit_inv
          exact ⟨_, MEval.boolLit, Coerce.refl _⟩
      split
      · exact ⟨_, mr, Coerce.refl _⟩
      split
      · rename_i hr; have := isBool_eq hr; subst this; cases mr.boolLit_inv
        exact ⟨_, ml, Coerce.refl _⟩
      exact ⟨_, MEval.andT ml mr, Coerce.refl _⟩
    · cases h
  · cases h

theorem peepOr_sound {σ : State F} {l₀ r₀ l r : Expr F} {v : Val F}
    (ihl : ∀ v, evalE σ l₀ = .ok v → ∃ w, MEval σ l w ∧ Coerce w v)
    (ihr : ∀ v, evalE σ r₀ = .ok v → ∃ w, MEval σ r w ∧ Coerce w v)
    (h : evalE σ (.bin .or l₀ r₀) = .ok v) :
    ∃ w, MEval σ (peepBin .or l r) w ∧ Coerce w v := by
  rw [evalE_or] at h
  obtain ⟨lv, e1, h⟩ := bind_ok h
  obtain ⟨wl, ml, cl⟩ := ihl _ e1
  split at h
  · cases h
    rw [coerce_to_bool] at cl; subst cl
    simp only [peepBin]
    split
    · exact ⟨_, MEval.boolLit, Coerce.refl _⟩
    split
    · rename_i hl; have := isBool_eq hl; subst this; cases ml.boolLit_inv
    split
    · exact ⟨_, ml, Coerce.refl _⟩
    exact ⟨_, MEval.orT ml, Coerce.refl _⟩
  · obtain ⟨rv, e2, h⟩ := bind_ok h
    obtain ⟨wr, mr, cr⟩ := ihr _ e2
    rw [coerce_to_bool] at cl; subst cl
    split at h
    · cases h
      rw [coerce_to_bool] at cr; subst cr
      simp only [peepBin]
      split
      · rename_i hz; rw [Bool.or_eq_true] at hz
        rcases hz with hz | hz
        · have := isBool_eq hz; subst this; cases ml.boolLit_inv
        · have := isBool_eq hz; subst this; cases mr.boolLit_inv
          exact ⟨_, MEval.boolLit, Coerce.refl _⟩
      split
      · exact ⟨_, mr, Coerce.refl _⟩
      split
      · rename_i hr; have := isBool_eq hr; subst this; cases mr.boolLit_inv
        exact ⟨_, ml, Coerce.refl _⟩
      exact ⟨_, MEval.orF ml mr, Coerce.refl _⟩
    · cases h
  · cases h

/-- (A) the optimised tree has a coercing evaluation to (a preimage of) the original value -/
theorem peepE_meval {σ : State F} {e : Expr F} {v : Val F} (h : evalE σ e = .ok v) :
    ∃ w, MEval σ (peepE e) w ∧ Coerce w v := by
  induction e generalizing v with
  | var x => exact ⟨v, MEval.var h, Coerce.refl _⟩
  | attr t a ih =>
    rw [evalE_attr] at h
    obtain ⟨tv, e1, h⟩ := bind_ok h
    obtain ⟨k, rfl⟩ := (attrOf_ok h).1
    obtain ⟨w, m, c⟩ := ih e1
    rw [coerce_to_tensor] at c; subst c
    exact ⟨v, MEval.attr m h, Coerce.refl _⟩
  | idx t i iht ihi =>
    rw [evalE_idx] at h
    obtain ⟨tv, e1, h⟩ := bind_ok h
    obtain ⟨iv, e2, h⟩ := bind_ok h
    obtain ⟨wt, mt, ct⟩ := iht e1
    obtain ⟨wi, mi, ci⟩ := ihi e2
    obtain ⟨k, rfl⟩ := (idxOf_ok h).2.1
    rw [coerce_to_int] at ci; subst ci
    have : wt = tv := by
      rcases ct with rfl | ⟨j, rfl, rfl⟩
      · rfl
      · have := (idxOf_ok h).1; simp [Val.toNum] at this
    subst this
    exact ⟨v, MEval.idx mt mi h, Coerce.refl _⟩
  | intLit z =>
    simp only [evalE] at h
    obtain ⟨rfl, hz⟩ := chkInt_ok h
    exact ⟨_, MEval.intLit hz, Coerce.refl _⟩
  | floatLit f =>
    simp only [evalE] at h
    obtain ⟨rfl, hz⟩ := chkFlt_ok h
    exact ⟨_, MEval.floatLit hz, Coerce.refl _⟩
  | boolLit b =>
    simp only [evalE] at h; cases h
    exact ⟨_, MEval.boolLit, Coerce.refl _⟩
  | bin op l r ihl ihr =>
    simp only [peepE]
    by_cases h1 : op = .and
    · subst h1; exact peepAnd_sound (fun _ => ihl) (fun _ => ihr) h
    by_cases h2 : op = .or
    · subst h2; exact peepOr_sound (fun _ => ihl) (fun _ => ihr) h
    rw [evalE_bin _ _ _ _ h1 h2] at h
    obtain ⟨a, e1, h⟩ := bind_ok h
    obtain ⟨b, e2, h⟩ := bind_ok h
    obtain ⟨wa, ml, ca⟩ := ihl e1
    obtain ⟨wb, mr, cb⟩ := ihr e2
    exact peepBin_sound h1 h2 ml ca mr cb (evalE_wf e1) (evalE_wf e2) h
  | b2i e ih =>
    rw [evalE_b2i] at h
    obtain ⟨a, e1, h⟩ := bind_ok h
    obtain ⟨w, m, c⟩ := ih e1
    split at h
    · cases h
      rw [coerce_to_bool] at c; subst c
      simp only [peepE]
      split
      · rename_i hb; have := isBool_eq hb; rw [this] at m; cases m.boolLit_inv
        exact ⟨_, MEval.int0 σ, Coerce.refl _⟩
      split
      · rename_i hb; have := isBool_eq hb; rw [this] at m; cases m.boolLit_inv
        exact ⟨_, MEval.intLit (by decide), Coerce.refl _⟩
      exact ⟨_, MEval.b2i m, Coerce.refl _⟩
    · cases h
  | alloc t n _ => simp only [evalE] at h; cases h
  | realloc o t n _ _ => simp only [evalE] at h; cases h

/-- expression-level soundness in `Coerce` form -/
theorem peepE_sound {σ : State F} {e : Expr F} {v : Val F} (h : evalE σ e = .ok v) :
    (∃ v', evalE σ (peepE e) = .ok v' ∧ Coerce v' v) ∨ evalE σ (peepE e) = .error .intOverflow := by
  obtain ⟨w, m, c⟩ := peepE_meval h
  rcases m.toEval with ⟨v', e1, c'⟩ | e1
  · exact Or.inl ⟨v', e1, c'.trans c⟩
  · exact Or.inr e1
