import TensoraVerif.Lemmas.PeepholeEval

/-!
C07, the coercing evaluation `MEval` of optimised trees: syntactic facts about the optimiser's
literal tests and `Expr.beq`, the relation `MEval` (as `evalE`, but operands of strict operators may
be promoted int→float), its well-formedness, (B) confluence up to numeric equality `MEval.confl`,
and (C) `MEval.toEval`: the machine reproduces a coercing evaluation up to coercion or overflows.
-/
namespace TV.IR
set_option linter.unusedSectionVars false
variable {F : Type} [FloatOps F] [FloatLaws F]
open FloatOps FloatLaws

/-- dataclass equality of trees implies syntactic equality (float fields by `FloatLaws.eq_true`) -/
theorem Expr.beq_eq {l r : Expr F} (h : l.beq r = true) : l = r := by
  induction l generalizing r with
  | var a => cases r <;> simp_all [Expr.beq]
  | attr t a ih => cases r <;> simp_all [Expr.beq]; exact ih h.1
  | idx t i iht ihi => cases r <;> simp_all [Expr.beq]; exact ⟨iht h.1, ihi h.2⟩
  | intLit a => cases r <;> simp_all [Expr.beq]
  | floatLit a => cases r <;> simp_all [Expr.beq]; exact eq_true _ _ h
  | boolLit a => cases r <;> simp_all [Expr.beq]
  | bin o l r ihl ihr => cases r <;> simp_all [Expr.beq]; exact ⟨ihl h.1.2, ihr h.2⟩
  | b2i e ih => cases r <;> simp_all [Expr.beq]; exact ih h
  | alloc t n ih => cases r <;> simp_all [Expr.beq]; exact ih h.2
  | realloc o t n iho ihn => cases r <;> simp_all [Expr.beq]; exact ⟨iho h.1.1, ihn h.2⟩

omit [FloatLaws F] in
theorem isInt_eq {e : Expr F} {k : Int} (h : e.isInt k = true) : e = .intLit k := by
  cases e <;> simp_all [Expr.isInt]

omit [FloatLaws F] in
theorem isBool_eq {e : Expr F} {k : Bool} (h : e.isBool k = true) : e = .boolLit k := by
  cases e <;> simp_all [Expr.isBool]

theorem isFloatZero_eq {e : Expr F} (h : e.isFloatZero = true) : e = .floatLit zero := by
  cases e <;> simp_all [Expr.isFloatZero]; exact eq_true _ _ h

theorem isFloatOne_eq {e : Expr F} (h : e.isFloatOne = true) : e = .floatLit one := by
  cases e <;> simp_all [Expr.isFloatOne]; exact eq_true _ _ h

/-! ### Coercing evaluation of optimised trees -/

/-- nondeterministic evaluation: as `evalE`, but the operands of a strict binary operator may be
promoted int→float before the operator is applied -/
inductive MEval (σ : State F) : Expr F → Val F → Prop
  | var {x v} : evalE σ (.var x) = .ok v → MEval σ (.var x) v
  | attr {t a k v} : MEval σ t (.tensor k) → attrOf σ (.tensor k) a = .ok v → MEval σ (.attr t a) v
  | idx {t i tv iv v} : MEval σ t tv → MEval σ i iv → idxOf σ tv iv = .ok v → MEval σ (.idx t i) v
  | intLit {z} : inI32 z = true → MEval σ (.intLit z) (.int z)
  | floatLit {f} : finite f = true → MEval σ (.floatLit f) (.flt f)
  | boolLit {b} : MEval σ (.boolLit b) (.bool b)
  | andF {l r} : MEval σ l (.bool false) → MEval σ (.bin .and l r) (.bool false)
  | andT {l r b} : MEval σ l (.bool true) → MEval σ r (.bool b) → MEval σ (.bin .and l r) (.bool b)
  | orT {l r} : MEval σ l (.bool true) → MEval σ (.bin .or l r) (.bool true)
  | orF {l r b} : MEval σ l (.bool false) → MEval σ r (.bool b) → MEval σ (.bin .or l r) (.bool b)
  | bin {op l r a b a' b' v} : op ≠ .and → op ≠ .or → MEval σ l a → MEval σ r b →
      Coerce a a' → Coerce b b' → binVal op a' b' = .ok v → MEval σ (.bin op l r) v
  | b2i {e b} : MEval σ e (.bool b) → MEval σ (.b2i e) (.int (if b then 1 else 0))

theorem wf_coerce {w v : Val F} (hw : WfVal w) (h : Coerce w v) : WfVal v := by
  rcases h with rfl | ⟨i, rfl, rfl⟩
  · exact hw
  · exact finite_ofInt _ hw

theorem MEval.wf {σ : State F} {e : Expr F} {v : Val F} (h : MEval σ e v) : WfVal v := by
  induction h with
  | var h => exact evalE_wf h
  | attr _ h _ => exact (attrOf_ok h).2
  | idx _ _ h _ _ => exact (idxOf_ok h).2.2
  | intLit h => exact h
  | floatLit h => exact h
  | boolLit => trivial
  | andF _ _ => trivial
  | andT _ _ _ _ => trivial
  | orT _ _ => trivial
  | orF _ _ _ _ => trivial
  | bin _ _ _ _ ca cb h iha ihb => exact binVal_wf (wf_coerce iha ca) (wf_coerce ihb cb) h
  | b2i _ _ => simp only [WfVal]; split <;> decide

omit [FloatLaws F] in
theorem numEq_bool {x y : Bool} (h : NumEq (.bool x : Val F) (.bool y)) : x = y := by
  simpa [NumEq] using h

omit [FloatLaws F] in
theorem numEq_tensor {x y : Nat} (h : NumEq (.tensor x : Val F) (.tensor y)) : x = y := by
  simpa [NumEq] using h

/-- (B) confluence: two coercing evaluations of the same tree agree numerically -/
theorem MEval.confl {σ : State F} {e : Expr F} {v₁ v₂ : Val F} (h₁ : MEval σ e v₁) (h₂ : MEval σ e v₂) :
    NumEq v₁ v₂ := by
  induction h₁ generalizing v₂ with
  | var h => cases h₂ with | var h' => rw [h] at h'; cases h'; rfl
  | attr m h ih =>
    cases h₂ with
    | attr m' h' =>
      have := numEq_tensor (ih m'); subst this
      rw [h] at h'; cases h'; rfl
  | idx mt mi h iht ihi =>
    cases h₂ with
    | idx mt' mi' h' =>
      have e1 := numEq_eq_of_not_num (iht mt') (idxOf_ok h).1
      obtain ⟨k, rfl⟩ := (idxOf_ok h).2.1
      obtain ⟨k', rfl⟩ := (idxOf_ok h').2.1
      have e2 := numEq_int_int mi.wf mi'.wf (ihi mi')
      subst e1 e2
      rw [h] at h'; cases h'; rfl
  | intLit h => cases h₂; rfl
  | floatLit h => cases h₂; rfl
  | boolLit => cases h₂; rfl
  | andF m ih =>
    cases h₂ with
    | andF m' => rfl
    | andT m' _ => exact absurd (numEq_bool (ih m')) (by decide)
    | bin h1 => exact absurd rfl h1
  | andT ml mr ihl ihr =>
    cases h₂ with
    | andF m' => exact absurd (numEq_bool (ihl m')) (by decide)
    | andT _ mr' => exact ihr mr'
    | bin h1 => exact absurd rfl h1
  | orT m ih =>
    cases h₂ with
    | orT m' => rfl
    | orF m' _ => exact absurd (numEq_bool (ih m')) (by decide)
    | bin _ h2 => exact absurd rfl h2
  | orF ml mr ihl ihr =>
    cases h₂ with
    | orT m' => exact absurd (numEq_bool (ihl m')) (by decide)
    | orF _ mr' => exact ihr mr'
    | bin _ h2 => exact absurd rfl h2
  | bin h1 h2 ml mr ca cb h ihl ihr =>
    cases h₂ with
    | andF => exact absurd rfl h1
    | andT => exact absurd rfl h1
    | orT => exact absurd rfl h2
    | orF => exact absurd rfl h2
    | bin _ _ ml' mr' ca' cb' h' =>
      exact binVal_numEq (wf_coerce ml.wf ca) (wf_coerce ml'.wf ca') (wf_coerce mr.wf cb)
        (wf_coerce mr'.wf cb') ((ca.numEq.symm.trans (ihl ml')).trans ca'.numEq)
        ((cb.numEq.symm.trans (ihr mr')).trans cb'.numEq) h h'
  | b2i m ih =>
    cases h₂ with
    | b2i m' => have := numEq_bool (ih m'); subst this; rfl

omit [FloatOps F] [FloatLaws F] in
theorem ok_bind {α β : Type} (a : α) (f : α → Except Err β) : (Except.ok a >>= f) = f a := rfl
omit [FloatOps F] [FloatLaws F] in
theorem error_bind {α β : Type} (e : Err) (f : α → Except Err β) :
    ((Except.error e : Except Err α) >>= f) = .error e := rfl

/-- (C) a coercing evaluation is reproduced by the machine up to coercion, unless the machine's
integer arithmetic overflows -/
theorem MEval.toEval {σ : State F} {e : Expr F} {v : Val F} (h : MEval σ e v) :
    (∃ v', evalE σ e = .ok v' ∧ Coerce v' v) ∨ evalE σ e = .error .intOverflow := by
  induction h with
  | var h => exact Or.inl ⟨_, h, Coerce.refl _⟩
  | @attr t a k v _ h ih =>
    rw [evalE_attr]
    rcases ih with ⟨v', e1, c⟩ | e1
    · rw [coerce_to_tensor] at c; subst c
      rw [e1]; exact Or.inl ⟨_, h, Coerce.refl _⟩
    · rw [e1]; exact Or.inr rfl
  | @idx t i tv iv v mt mi h iht ihi =>
    rw [evalE_idx]
    rcases iht with ⟨tv', e1, c1⟩ | e1
    · have : tv' = tv := by
        rcases c1 with rfl | ⟨j, rfl, rfl⟩
        · rfl
        · have := (idxOf_ok h).1; simp [Val.toNum] at this
      subst this
      rw [e1]
      rcases ihi with ⟨iv', e2, c2⟩ | e2
      · obtain ⟨k, rfl⟩ := (idxOf_ok h).2.1
        rw [coerce_to_int] at c2; subst c2
        rw [e2]; exact Or.inl ⟨_, h, Coerce.refl _⟩
      · rw [e2]; exact Or.inr rfl
    · rw [e1]; exact Or.inr rfl
  | intLit h => exact Or.inl ⟨_, by simp only [evalE]; exact chkInt_of h, Coerce.refl _⟩
  | floatLit h => exact Or.inl ⟨_, by simp only [evalE]; exact chkFlt_of h, Coerce.refl _⟩
  | boolLit => exact Or.inl ⟨_, by simp only [evalE], Coerce.refl _⟩
  | andF _ ih =>
    rw [evalE_and]
    rcases ih with ⟨v', e1, c⟩ | e1
    · rw [coerce_to_bool] at c; subst c
      rw [e1]; exact Or.inl ⟨_, rfl, Coerce.refl _⟩
    · rw [e1]; exact Or.inr rfl
  | andT _ _ ihl ihr =>
    rw [evalE_and]
    rcases ihl with ⟨v', e1, c⟩ | e1
    · rw [coerce_to_bool] at c; subst c
      rw [e1]
      rcases ihr with ⟨v', e2, c⟩ | e2
      · rw [coerce_to_bool] at c; subst c
        refine Or.inl ⟨_, ?_, Coerce.refl _⟩
        show (evalE σ _ >>= _) = _
        rw [e2]; rfl
      · refine Or.inr ?_
        show (evalE σ _ >>= _) = _
        rw [e2]; rfl
    · rw [e1]; exact Or.inr rfl
  | orT _ ih =>
    rw [evalE_or]
    rcases ih with ⟨v', e1, c⟩ | e1
    · rw [coerce_to_bool] at c; subst c
      rw [e1]; exact Or.inl ⟨_, rfl, Coerce.refl _⟩
    · rw [e1]; exact Or.inr rfl
  | orF _ _ ihl ihr =>
    rw [evalE_or]
    rcases ihl with ⟨v', e1, c⟩ | e1
    · rw [coerce_to_bool] at c; subst c
      rw [e1]
      rcases ihr with ⟨v', e2, c⟩ | e2
      · rw [coerce_to_bool] at c; subst c
        refine Or.inl ⟨_, ?_, Coerce.refl _⟩
        show (evalE σ _ >>= _) = _
        rw [e2]; rfl
      · refine Or.inr ?_
        show (evalE σ _ >>= _) = _
        rw [e2]; rfl
    · rw [e1]; exact Or.inr rfl
  | bin h1 h2 ml mr ca cb h ihl ihr =>
    rw [evalE_bin _ _ _ _ h1 h2]
    rcases ihl with ⟨a0, e1, c1⟩ | e1
    · rw [e1]
      rcases ihr with ⟨b0, e2, c2⟩ | e2
      · have wa : WfVal a0 := evalE_wf e1
        have wb : WfVal b0 := evalE_wf e2
        rw [ok_bind, e2, ok_bind]
        exact binVal_coerce_back wa wb (c1.trans ca) (c2.trans cb) h
      · refine Or.inr ?_
        show (evalE σ _ >>= _) = _
        rw [e2]; rfl
    · rw [e1]; exact Or.inr rfl
  | b2i _ ih =>
    rw [evalE_b2i]
    rcases ih with ⟨v', e1, c⟩ | e1
    · rw [coerce_to_bool] at c; subst c
      rw [e1]; exact Or.inl ⟨_, rfl, Coerce.refl _⟩
    · rw [e1]; exact Or.inr rfl
