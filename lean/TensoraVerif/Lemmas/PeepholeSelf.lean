import TensoraVerif.Lemmas.PeepholeStore

/-!
C07, the redundant-assignment rule `a = a → {}`: storing back the value just read from the same
location is the identity on states (`assign_self`), for each of the four kinds of location.
-/
namespace TV.IR
set_option linter.unusedSectionVars false
variable {F : Type} [FloatOps F] [FloatLaws F]
open FloatOps FloatLaws

/-! ### the redundant-assignment rule: storing back the value just read is the identity -/

omit [FloatLaws F] in
theorem setVarOpt_self {vars : List (VarRec F)} {x : String} {r : VarRec F} {u : Val F}
    (h : lookupVar vars x = some r) (hu : r.val = some u) : setVarOpt vars x (some u) = vars := by
  induction vars with
  | nil => simp [lookupVar] at h
  | cons r0 rest ih =>
    simp only [setVarOpt]
    simp only [lookupVar, List.find?] at h
    by_cases hx : (r0.name == x) = true
    · simp only [hx] at h ⊢
      cases h
      simp only [if_true]
      cases r; simp_all
    · simp only [hx] at h ⊢
      simp only [Bool.false_eq_true, if_false]
      rw [ih h]

omit [FloatLaws F] in
theorem convTo_hasTy {ty : Ty} {u val c : Val F} (h : hasTy ty u = true) (hc : Coerce u val)
    (e : convTo ty val = .ok c) : c = u := by
  rcases hc with rfl | ⟨i, rfl, rfl⟩
  · cases ty <;> cases val <;> simp only [hasTy] at h <;> simp only [convTo] at e <;>
      first | (cases e; rfl) | (cases h; done) | skip
    all_goals (rename_i t _; cases t <;> first | (cases e; rfl) | (cases h; done))
  · cases ty <;> simp only [hasTy] at h <;> first | (cases h; done) | (simp only [convTo] at e; cases e)

omit [FloatLaws F] in
theorem convElem_hasElemTy {ty : ElemTy} {u val c : Val F} (h : hasElemTy ty u = true) (hc : Coerce u val)
    (e : convElem ty val = .ok c) : c = u := by
  rcases hc with rfl | ⟨i, rfl, rfl⟩
  · cases ty <;> cases val <;> simp only [hasElemTy] at h <;> simp only [convElem] at e <;>
      first | (cases e; rfl) | (cases h; done)
  · cases ty <;> simp only [hasElemTy] at h <;> first | (cases h; done) | (simp only [convElem] at e; cases e)

omit [FloatLaws F] in
theorem list_set_self {α : Type} {l : List α} {i : Nat} {a : α} (h : l[i]? = some a) : l.set i a = l := by
  obtain ⟨hi, rfl⟩ := List.getElem?_eq_some_iff.1 h
  exact List.set_getElem_self hi

omit [FloatLaws F] in
theorem store_var_self {σ σ2 : State F} {x : String} {w val : Val F}
    (hm : evalE σ (.var x) = .ok w) (c : Coerce w val) (e3 : store σ (.var x) val = .ok σ2) : σ2 = σ := by
  simp only [evalE] at hm
  simp only [store] at e3
  split at hm; · cases hm
  rename_i r hr
  rw [hr] at e3
  simp only at e3
  split at hm; · cases hm
  rename_i u hu
  split at hm
  · rename_i hty
    obtain ⟨rfl, _⟩ := chkVal_ok hm
    obtain ⟨c', e4, e3⟩ := bind_ok e3
    have := convTo_hasTy hty c e4; subst this
    cases e3
    simp only [setVar, setVarOpt_self hr hu]
  · cases hm

omit [FloatLaws F] in
theorem coerce_eq_of_isPtrVal {w val : Val F} (c : Coerce w val) (h : isPtrVal w = true) : val = w := by
  rcases c with rfl | ⟨i, rfl, rfl⟩
  · rfl
  · simp [isPtrVal] at h

omit [FloatLaws F] in
theorem store_vals_self {σ σ2 : State F} {k : Nat} {w val : Val F}
    (hm : attrOf σ (.tensor k) "vals" = .ok w) (c : Coerce w val)
    (e3 : store σ (.vals k) val = .ok σ2) : σ2 = σ := by
  simp only [attrOf] at hm
  simp only [store] at e3
  split at hm; · cases hm
  rename_i tr htr
  rw [htr] at e3
  simp only at e3
  simp only [show (("vals" : String) == "dimensions") = false by decide,
    show (("vals" : String) == "indices") = false by decide, Bool.false_eq_true, if_false,
    show (("vals" : String) == "vals") = true by decide, if_true] at hm
  split at hm
  · rename_i hp
    cases hm
    have := coerce_eq_of_isPtrVal c hp; subst this
    split at e3; · cases e3
    split at e3; · cases e3
    cases e3
    cases σ; cases tr
    simp only at htr ⊢
    rw [list_set_self htr]
  · cases hm

omit [FloatLaws F] in
theorem store_cell_self {σ σ2 : State F} {b : Nat} {off : Int} {w val : Val F}
    (hm : readBlock σ b off = .ok w) (c : Coerce w val)
    (e3 : store σ (.cell b off) val = .ok σ2) : σ2 = σ := by
  simp only [readBlock] at hm
  simp only [store] at e3
  split at hm; · cases hm
  rename_i blk hblk
  rw [hblk] at e3
  simp only at e3
  split at hm; · cases hm
  split at hm; · cases hm
  split at hm
  · rename_i u hu
    split at hm
    · rename_i hty
      obtain ⟨rfl, _⟩ := chkVal_ok hm
      split at e3; · cases e3
      split at e3; · cases e3
      obtain ⟨c', e4, e3⟩ := bind_ok e3
      have := convElem_hasElemTy hty c e4; subst this
      cases e3
      cases σ; cases blk
      simp only at hblk hu ⊢
      rw [list_set_self hu, list_set_self hblk]
    · cases hm
  · cases hm

omit [FloatLaws F] in
theorem store_slot_self {σ σ2 : State F} {k l : Nat} {j : Int} {w val : Val F}
    (hm : idxOf σ (.level k l) (.int j) = .ok w) (c : Coerce w val)
    (e3 : store σ (.slot k l j.toNat) val = .ok σ2) : σ2 = σ := by
  simp only [idxOf] at hm
  simp only [store] at e3
  split at hm; · cases hm
  rename_i tr htr
  rw [htr] at e3
  simp only at e3
  split at e3; · cases e3
  split at e3; · cases e3
  split at hm
  · rename_i p q hs
    rw [hs] at e3
    simp only at e3
    cases e3
    have fin : ∀ s', s' = (p, q) →
        ({ σ with tensors := σ.tensors.set k { tr with slots := tr.slots.set l (some s') } } : State F) = σ := by
      rintro s' rfl
      cases σ; cases tr
      simp only at hs htr ⊢
      rw [list_set_self hs, list_set_self htr]
    apply fin
    split at hm
    · rename_i hj; subst hj
      split at hm
      · rename_i hp; cases hm
        have := coerce_eq_of_isPtrVal c hp; subst this
        simp
      · cases hm
    · split at hm
      · rename_i hj; subst hj
        split at hm
        · rename_i hp; cases hm
          have := coerce_eq_of_isPtrVal c hp; subst this
          simp
        · cases hm
      · cases hm
  · cases hm

/-- `a = a` (after optimisation of both sides) does not change the state -/
theorem assign_self {σ σ2 : State F} {t v : Expr F} {loc : Loc} {val : Val F}
    (hpe : peepE t = peepE v) (e1 : evalE σ v = .ok val) (e2 : evalLoc σ t = .ok loc)
    (e3 : store σ loc val = .ok σ2) : σ2 = σ := by
  obtain ⟨w, m, c⟩ := peepE_meval e1
  rw [← hpe] at m
  cases t
  case var x =>
    simp only [evalLoc] at e2; cases e2
    simp only [peepE] at m
    cases m with | var hm => exact store_var_self hm c e3
  case attr t a =>
    rw [evalLoc_attr] at e2
    obtain ⟨tv, et, e2⟩ := bind_ok e2
    split at e2
    · split at e2
      · cases e2
        rename_i ha
        have ha : a = "vals" := by simpa using ha
        subst ha
        simp only [peepE] at m
        cases m with
        | attr mt hm =>
          obtain ⟨wt, mt', ct⟩ := peepE_meval et
          rw [coerce_to_tensor] at ct; subst ct
          have := numEq_tensor (mt.confl mt'); subst this
          exact store_vals_self hm c e3
      · cases e2
    · cases e2
  case idx t i =>
    rw [evalLoc_idx] at e2
    obtain ⟨tv, et, e2⟩ := bind_ok e2
    obtain ⟨iv, ei, e2⟩ := bind_ok e2
    simp only [peepE] at m
    cases m with
    | @idx _ _ tv₁ _ _ mt mi hm =>
      obtain ⟨wt, mt', ct⟩ := peepE_meval et
      obtain ⟨wi, mi', ci⟩ := peepE_meval ei
      obtain ⟨ht, k, rfl⟩ := locOf_ok e2
      have := coerce_eq_of_toNum_none ct ht; subst this
      rw [coerce_to_int] at ci; subst ci
      have e1 := numEq_eq_of_not_num (mt'.confl mt) ht
      obtain ⟨k', rfl⟩ := (idxOf_ok hm).2.1
      have e2' := numEq_int_int mi.wf mi'.wf (mi.confl mi')
      subst e1 e2'
      cases tv₁ <;> simp only [locOf] at e2 <;> try (cases e2; done)
      · cases e2; exact store_cell_self hm c e3
      · split at e2
        · cases e2; exact store_slot_self hm c e3
        · cases e2
  all_goals (simp only [evalLoc] at e2; cases e2)
