import TensoraVerif.Lemmas.PeepholeSelf

/-!
C07, statement level. One induction (`exec.induct`) proves both statement theorems: the mode flag
`x` selects the general statement (`x = false`: `Coerce`-related return values, overflow
alternative) or the strict one (`x = true`: retyping-free fragment, identical results).
-/
namespace TV.IR
set_option linter.unusedSectionVars false
variable {F : Type} [FloatOps F] [FloatLaws F]
open FloatOps FloatLaws

/-- return values: both absent, or the optimised one coerces to (strict mode: is) the original -/
def RetC (x : Bool) : Option (Val F) → Option (Val F) → Prop
  | none, none => True
  | some v, some v' => RelX x v' v
  | _, _ => False

/-- same final state, related return value, no more iterations/steps -/
def OutC (x : Bool) (o o' : Out F) : Prop :=
  o'.st = o.st ∧ RetC x o.ret o'.ret ∧ o'.iters ≤ o.iters ∧ o'.steps ≤ o.steps

omit [FloatLaws F] in
theorem RetC.refl (x : Bool) (r : Option (Val F)) : RetC x r r := by
  cases r
  · trivial
  · exact RelX.refl _ _

omit [FloatLaws F] in
theorem OutC.refl (x : Bool) (o : Out F) : OutC x o o :=
  ⟨rfl, RetC.refl _ _, Nat.le_refl _, Nat.le_refl _⟩

omit [FloatLaws F] in
/-- in strict mode related return values are equal -/
theorem RetC.eq {r r' : Option (Val F)} (h : RetC true r r') : r' = r := by
  cases r <;> cases r' <;> simp only [RetC] at h
  · rfl
  · rw [h.2 rfl]

def GSX (x : Bool) (s : Stmt F) : Prop := x = true → NoFloatIdentityS s = true
def GLX (x : Bool) (ss : List (Stmt F)) : Prop := x = true → NoFloatIdentityL ss = true

def SoundS (x : Bool) (fuel : Nat) (s : Stmt F) (σ : State F) : Prop :=
  GSX x s → ∀ o, exec fuel s σ = .ok o →
    (∃ o', exec fuel (peepS s) σ = .ok o' ∧ OutC x o o') ∨
      (x = false ∧ exec fuel (peepS s) σ = .error .intOverflow)

def SoundL (x : Bool) (fuel : Nat) (ss : List (Stmt F)) (σ : State F) : Prop :=
  GLX x ss → ∀ o, execL fuel ss σ = .ok o →
    (∃ o', execL fuel (peepL ss) σ = .ok o' ∧ OutC x o o') ∨
      (x = false ∧ execL fuel (peepL ss) σ = .error .intOverflow)

omit [FloatLaws F] in
theorem isEmptyBlock_eq {s : Stmt F} (h : s.isEmptyBlock = true) : ∃ c, s = .block [] c := by
  cases s <;> simp only [Stmt.isEmptyBlock] at h <;> try (cases h; done)
  rename_i ss c
  cases ss
  · exact ⟨c, rfl⟩
  · cases h

omit [FloatLaws F] in
theorem exec_empty (fuel : Nat) (c : Option String) (σ : State F) :
    exec fuel (.block [] c) σ = .ok ⟨σ, none, 0, 0⟩ := by
  rw [exec.eq_5, execL.eq_1]

/-- a statement whose optimised form is an empty block does nothing -/
theorem sound_empty {x : Bool} {fuel : Nat} {s : Stmt F} {σ : State F} {o : Out F}
    (hs : SoundS x fuel s σ) (g : GSX x s)
    (he : (peepS s).isEmptyBlock = true) (hx : exec fuel s σ = .ok o) : o.st = σ ∧ o.ret = none := by
  obtain ⟨c, hc⟩ := isEmptyBlock_eq he
  have := hs g o hx
  rw [hc, exec_empty] at this
  rcases this with ⟨o', e', hst, hret, _, _⟩ | ⟨_, e'⟩
  · cases e'
    refine ⟨hst.symm, ?_⟩
    cases hr : o.ret
    · rfl
    · rw [hr] at hret; exact hret.elim
  · cases e'

omit [FloatLaws F] in
/-- a loop with an empty body that terminates within the fuel never changed the state -/
theorem loop_empty {fuel : Nat} {c : Expr F} {cm : Option String} {σ : State F} {o : Out F}
    (h : exec fuel (.loop c (.block [] cm)) σ = .ok o) : o.st = σ ∧ o.ret = none := by
  induction fuel generalizing o with
  | zero => rw [exec.eq_7] at h; cases h
  | succ n ih =>
    rw [exec.eq_8] at h
    obtain ⟨cv, ec, h⟩ := bind_ok h
    split at h
    · cases h; exact ⟨rfl, rfl⟩
    · rw [exec_empty, ok_bind] at h; simp only at h
      obtain ⟨o2, e2, h⟩ := bind_ok h; cases h
      exact ih (o := o2) e2
    · cases h

theorem cond_sound {x : Bool} {σ : State F} {c : Expr F} {b : Bool} (g : GX x c)
    (ec : evalE σ c = .ok (.bool b)) :
    evalE σ (peepE c) = .ok (.bool b) ∨ (x = false ∧ evalE σ (peepE c) = .error .intOverflow) := by
  rcases peepE_soundX g ec with ⟨v', e2, c, _⟩ | e2
  · rw [coerce_to_bool] at c; subst c; exact Or.inl e2
  · exact Or.inr e2

theorem cond_lit {σ : State F} {c : Expr F} {b k : Bool} (ec : evalE σ c = .ok (.bool b))
    (hb : (peepE c).isBool k = true) : b = k := by
  have := cond_sound (x := false) (fun h => by cases h) ec
  rw [isBool_eq hb] at this
  simp only [evalE] at this
  rcases this with h | ⟨_, h⟩
  · cases h; rfl
  · cases h

theorem sound_expr (x : Bool) (fuel : Nat) (e : Expr F) (σ : State F) : SoundS x fuel (.expr e) σ := by
  intro g o h
  rw [exec.eq_1] at h
  rw [peepS.eq_1, exec.eq_1]
  obtain ⟨v, e1, h⟩ := bind_ok h; cases h
  rcases peepE_soundX (x := x) (fun hx => by simpa [NoFloatIdentityS] using g hx) e1
    with ⟨v', e2, _⟩ | ⟨hx, e2⟩
  · rw [e2]; exact Or.inl ⟨_, rfl, OutC.refl _ _⟩
  · rw [e2]; exact Or.inr ⟨hx, rfl⟩

theorem sound_ret (x : Bool) (fuel : Nat) (e : Expr F) (σ : State F) : SoundS x fuel (.ret e) σ := by
  intro g o h
  rw [exec.eq_9] at h
  rw [peepS.eq_8, exec.eq_9]
  obtain ⟨v, e1, h⟩ := bind_ok h; cases h
  rcases peepE_soundX (x := x) (fun hx => by simpa [NoFloatIdentityS] using g hx) e1
    with ⟨v', e2, c⟩ | ⟨hx, e2⟩
  · rw [e2]; exact Or.inl ⟨_, rfl, rfl, c, Nat.le_refl _, Nat.le_refl _⟩
  · rw [e2]; exact Or.inr ⟨hx, rfl⟩

omit [FloatLaws F] in
theorem sound_decl (x : Bool) (fuel : Nat) (n : String) (t : Ty) (σ : State F) :
    SoundS x fuel (.decl n t) σ := by
  intro _ o h
  rw [peepS.eq_2]
  exact Or.inl ⟨o, h, OutC.refl _ _⟩

theorem sound_assign (x : Bool) (fuel : Nat) (t v : Expr F) (σ : State F) :
    SoundS x fuel (.assign t v) σ := by
  intro g o h
  have gt : GX x t := fun hx => by
    have := g hx; simp only [NoFloatIdentityS, Bool.and_eq_true] at this; exact this.1
  have gv : GX x v := fun hx => by
    have := g hx; simp only [NoFloatIdentityS, Bool.and_eq_true] at this; exact this.2
  rw [exec.eq_3] at h
  obtain ⟨⟨σ1, val⟩, e1, h⟩ := bind_ok h
  simp only at h
  obtain ⟨loc, e2, h⟩ := bind_ok h
  obtain ⟨σ2, e3, h⟩ := bind_ok h
  cases h
  rw [peepS.eq_3]
  split
  · rename_i hb
    have hpe := Expr.beq_eq hb
    rw [exec_empty]
    rcases evalRhs_ok_cases e1 with ⟨rfl, ev⟩ | ⟨ty, n, rfl⟩ | ⟨o, ty, n, rfl⟩
    · have := assign_self hpe ev e2 e3; subst this
      exact Or.inl ⟨_, rfl, rfl, trivial, Nat.le_refl _, Nat.zero_le _⟩
    · exfalso
      cases t <;> simp only [evalLoc] at e2 <;> try (cases e2; done)
      all_goals (simp only [peepE] at hpe; cases hpe)
    · exfalso
      cases t <;> simp only [evalLoc] at e2 <;> try (cases e2; done)
      all_goals (simp only [peepE] at hpe; cases hpe)
  · rw [exec.eq_3]
    rcases evalRhs_sound gv e1 with ⟨val', e1', c, _⟩ | ⟨hx, e1'⟩
    · rw [e1', ok_bind]; simp only
      rcases evalLoc_sound gt e2 with e2' | ⟨hx, e2'⟩
      · rw [e2', ok_bind, store_coerce e3 c, ok_bind]; exact Or.inl ⟨_, rfl, OutC.refl _ _⟩
      · rw [e2']; exact Or.inr ⟨hx, rfl⟩
    · rw [e1']; exact Or.inr ⟨hx, rfl⟩

theorem sound_declAssign (x : Bool) (fuel : Nat) (n : String) (t : Ty) (v : Expr F) (σ : State F) :
    SoundS x fuel (.declAssign n t v) σ := by
  intro g o h
  have gv : GX x v := fun hx => by simpa [NoFloatIdentityS] using g hx
  rw [exec.eq_4] at h
  obtain ⟨⟨σ1, val⟩, e1, h⟩ := bind_ok h
  simp only at h
  obtain ⟨cv, e2, h⟩ := bind_ok h
  rw [peepS.eq_4, exec.eq_4]
  rcases evalRhs_sound gv e1 with ⟨val', e1', c, _⟩ | ⟨hx, e1'⟩
  · rw [e1', ok_bind]; simp only
    rw [convTo_coerce e2 c, ok_bind]
    exact Or.inl ⟨o, h, OutC.refl _ _⟩
  · rw [e1']; exact Or.inr ⟨hx, rfl⟩

omit [FloatLaws F] in
theorem sound_block {x : Bool} {fuel : Nat} {ss : List (Stmt F)} {c : Option String} {σ : State F}
    (h : SoundL x fuel ss σ) : SoundS x fuel (.block ss c) σ := by
  intro g o hx
  rw [exec.eq_5] at hx
  rw [peepS.eq_5, exec.eq_5]
  exact h (fun hx => by simpa [NoFloatIdentityS] using g hx) o hx

omit [FloatLaws F] in
theorem sound_nil (x : Bool) (fuel : Nat) (σ : State F) : SoundL x fuel ([] : List (Stmt F)) σ := by
  intro _ o hx
  rw [peepL.eq_1]
  exact Or.inl ⟨o, hx, OutC.refl _ _⟩

theorem sound_cons {x : Bool} {fuel : Nat} {s : Stmt F} {ss : List (Stmt F)} {σ : State F}
    (hs : SoundS x fuel s σ) (hss : ∀ o1 : Out F, SoundL x fuel ss o1.st) :
    SoundL x fuel (s :: ss) σ := by
  intro g o h
  have gs : GSX x s := fun hx => by
    have := g hx; simp only [NoFloatIdentityL, Bool.and_eq_true] at this; exact this.1
  have gss : GLX x ss := fun hx => by
    have := g hx; simp only [NoFloatIdentityL, Bool.and_eq_true] at this; exact this.2
  rw [execL.eq_2] at h
  obtain ⟨o1, e1, h⟩ := bind_ok h
  rw [peepL.eq_2]
  split
  · rename_i he
    obtain ⟨hst, hret⟩ := sound_empty hs gs he e1
    rw [hret] at h; simp only at h
    obtain ⟨o2, e2, h⟩ := bind_ok h; cases h
    have := hss o1 gss _ e2
    rw [hst] at this
    rcases this with ⟨o', e', r1, r2, r3, r4⟩ | e'
    · exact Or.inl ⟨o', e', r1, r2, Nat.le_trans r3 (Nat.le_add_left _ _),
        Nat.le_trans r4 (Nat.le_add_left _ _)⟩
    · exact Or.inr e'
  · rw [execL.eq_2]
    rcases hs gs _ e1 with ⟨o1', e1', r1⟩ | ⟨hx, e1'⟩
    · rw [e1', ok_bind]
      obtain ⟨st1, ret1, it1, sp1⟩ := o1
      obtain ⟨st1', ret1', it1', sp1'⟩ := o1'
      obtain ⟨r1, r2, r3, r4⟩ := r1
      simp only at r1 r2 r3 r4 h ⊢
      subst r1
      cases ret1 <;> cases ret1' <;> simp only [RetC] at r2 <;> simp only at h ⊢
      · obtain ⟨o2, e2, h⟩ := bind_ok h; cases h
        rcases hss ⟨st1', none, it1, sp1⟩ gss _ e2 with ⟨o2', e2', q1, q2, q3, q4⟩ | ⟨hx, e2'⟩
        · rw [e2', ok_bind]
          exact Or.inl ⟨_, rfl, q1, q2, Nat.add_le_add r3 q3, Nat.add_le_add r4 q4⟩
        · rw [e2']; exact Or.inr ⟨hx, rfl⟩
      · cases h
        exact Or.inl ⟨_, rfl, rfl, r2, r3, r4⟩
    · rw [e1']; exact Or.inr ⟨hx, rfl⟩

theorem sound_branch {x : Bool} {fuel : Nat} {c : Expr F} {t f : Stmt F} {σ : State F}
    (ht : SoundS x fuel t σ) (hf : SoundS x fuel f σ) : SoundS x fuel (.branch c t f) σ := by
  intro g o h
  have gc : GX x c := fun hx => by
    have := g hx; simp only [NoFloatIdentityS, Bool.and_eq_true] at this; exact this.1.1
  have gt : GSX x t := fun hx => by
    have := g hx; simp only [NoFloatIdentityS, Bool.and_eq_true] at this; exact this.1.2
  have gf : GSX x f := fun hx => by
    have := g hx; simp only [NoFloatIdentityS, Bool.and_eq_true] at this; exact this.2
  rw [exec.eq_6] at h
  obtain ⟨cv, ec, h⟩ := bind_ok h
  rw [peepS.eq_6]
  split at h
  · obtain ⟨ot, et, h⟩ := bind_ok h; cases h
    split
    · rcases ht gt _ et with ⟨o', e', r1, r2, r3, r4⟩ | e'
      · exact Or.inl ⟨o', e', r1, r2, r3, Nat.le_succ_of_le r4⟩
      · exact Or.inr e'
    split
    · rename_i hb; cases cond_lit ec hb
    split
    · rename_i he; rw [Bool.and_eq_true] at he
      obtain ⟨hst, hret⟩ := sound_empty ht gt he.1 et
      rw [exec_empty]
      exact Or.inl ⟨_, rfl, hst.symm, by rw [hret]; trivial, Nat.zero_le _, Nat.zero_le _⟩
    · rw [exec.eq_6]
      rcases cond_sound gc ec with e2 | ⟨hx, e2⟩
      · rw [e2, ok_bind]; simp only
        rcases ht gt _ et with ⟨o', e', r1, r2, r3, r4⟩ | ⟨hx, e'⟩
        · rw [e', ok_bind]
          exact Or.inl ⟨_, rfl, r1, r2, r3, Nat.succ_le_succ r4⟩
        · rw [e']; exact Or.inr ⟨hx, rfl⟩
      · rw [e2]; exact Or.inr ⟨hx, rfl⟩
  · obtain ⟨ot, et, h⟩ := bind_ok h; cases h
    split
    · rename_i hb; cases cond_lit ec hb
    split
    · rcases hf gf _ et with ⟨o', e', r1, r2, r3, r4⟩ | e'
      · exact Or.inl ⟨o', e', r1, r2, r3, Nat.le_succ_of_le r4⟩
      · exact Or.inr e'
    split
    · rename_i he; rw [Bool.and_eq_true] at he
      obtain ⟨hst, hret⟩ := sound_empty hf gf he.2 et
      rw [exec_empty]
      exact Or.inl ⟨_, rfl, hst.symm, by rw [hret]; trivial, Nat.zero_le _, Nat.zero_le _⟩
    · rw [exec.eq_6]
      rcases cond_sound gc ec with e2 | ⟨hx, e2⟩
      · rw [e2, ok_bind]; simp only
        rcases hf gf _ et with ⟨o', e', r1, r2, r3, r4⟩ | ⟨hx, e'⟩
        · rw [e', ok_bind]
          exact Or.inl ⟨_, rfl, r1, r2, r3, Nat.succ_le_succ r4⟩
        · rw [e']; exact Or.inr ⟨hx, rfl⟩
      · rw [e2]; exact Or.inr ⟨hx, rfl⟩
  · cases h

omit [FloatLaws F] in
theorem sound_loop_zero (x : Bool) (c : Expr F) (b : Stmt F) (σ : State F) :
    SoundS x 0 (.loop c b) σ := by
  intro _ o h
  rw [exec.eq_7] at h; cases h

theorem sound_loop_succ {x : Bool} {fuel' : Nat} {c : Expr F} {b : Stmt F} {σ : State F}
    (hb : SoundS x fuel' b σ) (hl : ∀ o1 : Out F, SoundS x fuel' (.loop c b) o1.st) :
    SoundS x fuel'.succ (.loop c b) σ := by
  intro g o h
  have gc : GX x c := fun hx => by
    have := g hx; simp only [NoFloatIdentityS, Bool.and_eq_true] at this; exact this.1
  have gb : GSX x b := fun hx => by
    have := g hx; simp only [NoFloatIdentityS, Bool.and_eq_true] at this; exact this.2
  rw [peepS.eq_7]
  split
  · rename_i hc
    rw [exec.eq_8] at h
    obtain ⟨cv, ec, h⟩ := bind_ok h
    rw [exec_empty]
    split at h
    · cases h
      exact Or.inl ⟨_, rfl, rfl, trivial, Nat.le_refl _, Nat.zero_le _⟩
    · cases cond_lit ec hc
    · cases h
  split
  · rename_i hc he
    obtain ⟨cm, rfl⟩ := isEmptyBlock_eq he
    obtain ⟨hst, hret⟩ := loop_empty h
    rw [exec_empty]
    exact Or.inl ⟨_, rfl, hst.symm, by rw [hret]; trivial, Nat.zero_le _, Nat.zero_le _⟩
  · rename_i hc he
    rw [exec.eq_8] at h ⊢
    obtain ⟨cv, ec, h⟩ := bind_ok h
    split at h
    · cases h
      rcases cond_sound gc ec with e2 | ⟨hx, e2⟩
      · rw [e2]; exact Or.inl ⟨_, rfl, OutC.refl _ _⟩
      · rw [e2]; exact Or.inr ⟨hx, rfl⟩
    · obtain ⟨o1, e1, h⟩ := bind_ok h
      rcases cond_sound gc ec with e2 | ⟨hx, e2⟩
      · rw [e2, ok_bind]; simp only
        rcases hb gb _ e1 with ⟨o1', e1', r1⟩ | ⟨hx, e1'⟩
        · rw [e1', ok_bind]
          obtain ⟨st1, ret1, it1, sp1⟩ := o1
          obtain ⟨st1', ret1', it1', sp1'⟩ := o1'
          obtain ⟨r1, r2, r3, r4⟩ := r1
          simp only at r1 r2 r3 r4 h ⊢
          subst r1
          cases ret1 <;> cases ret1' <;> simp only [RetC] at r2 <;> simp only at h ⊢
          · obtain ⟨o2, e3, h⟩ := bind_ok h; cases h
            have := hl ⟨st1', none, it1, sp1⟩ g _ e3
            rw [peepS.eq_7, if_neg hc, if_neg he] at this
            rcases this with ⟨o2', e3', q1, q2, q3, q4⟩ | ⟨hx, e3'⟩
            · rw [e3', ok_bind]
              exact Or.inl ⟨_, rfl, q1, q2, Nat.succ_le_succ (Nat.add_le_add r3 q3),
                Nat.succ_le_succ (Nat.add_le_add r4 q4)⟩
            · rw [e3']; exact Or.inr ⟨hx, rfl⟩
          · cases h
            exact Or.inl ⟨_, rfl, rfl, r2, Nat.succ_le_succ r3, Nat.succ_le_succ r4⟩
        · rw [e1']; exact Or.inr ⟨hx, rfl⟩
      · rw [e2]; exact Or.inr ⟨hx, rfl⟩
    · cases h

/-- statement-level soundness, both modes -/
theorem peepS_sound (x : Bool) (fuel : Nat) (s : Stmt F) (σ : State F) : SoundS x fuel s σ := by
  induction fuel, s, σ using exec.induct (F := F)
    (motive2 := fun fuel ss σ => SoundL x fuel ss σ) with
  | case1 fuel e σ => exact sound_expr x fuel e σ
  | case2 fuel n t σ => exact sound_decl x fuel n t σ
  | case3 fuel t v σ => exact sound_assign x fuel t v σ
  | case4 fuel n t v σ => exact sound_declAssign x fuel n t v σ
  | case5 fuel ss c σ ih => exact sound_block ih
  | case6 fuel c t f σ iht ihf => exact sound_branch iht ihf
  | case7 c b σ => exact sound_loop_zero x c b σ
  | case8 c b σ fuel' ihb ihl => exact sound_loop_succ ihb ihl
  | case9 fuel e σ => exact sound_ret x fuel e σ
  | case10 fuel σ => exact sound_nil x fuel σ
  | case11 fuel s ss σ ihs ihss => exact sound_cons ihs ihss

end TV.IR
