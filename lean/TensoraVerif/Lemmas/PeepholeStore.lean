import TensoraVerif.Lemmas.PeepholeExact

/-!
C07, the building blocks of `exec` under optimisation: right-hand sides (`evalRhs`), locations
(`evalLoc`), conversions and stores; in two modes (general / strict, see `RelX`).
-/
namespace TV.IR
set_option linter.unusedSectionVars false
variable {F : Type} [FloatOps F] [FloatLaws F]
open FloatOps FloatLaws

/-! ### right-hand sides, locations, stores -/

omit [FloatLaws F] in
theorem doAlloc_ok {σ : State F} {t : Ty} {n : Val F} {r : State F × Val F}
    (h : doAlloc σ t n = .ok r) : ∃ k, n = .int k := by
  unfold doAlloc at h
  obtain ⟨et, _, h⟩ := bind_ok h
  cases n <;> first | exact ⟨_, rfl⟩ | cases h

omit [FloatLaws F] in
theorem doRealloc_ok {σ : State F} {old : Val F} {t : Ty} {n : Val F} {r : State F × Val F}
    (h : doRealloc σ old t n = .ok r) : old.toNum = none ∧ ∃ k, n = .int k := by
  unfold doRealloc at h
  obtain ⟨et, _, h⟩ := bind_ok h
  cases old <;> cases n <;> first | exact ⟨rfl, _, rfl⟩ | cases h

omit [FloatLaws F] in
theorem evalRhs_of_ok {σ : State F} {e : Expr F} {v : Val F} (h : evalE σ e = .ok v) :
    evalRhs σ e = .ok (σ, v) := by
  cases e <;> first
    | (simp only [evalE] at h; cases h; done)
    | (rw [evalRhs.eq_3 _ _ (by intros; contradiction) (by intros; contradiction), h]; rfl)

omit [FloatLaws F] in
theorem evalRhs_of_error {σ : State F} {e : Expr F} {err : Err} (h : evalE σ e = .error err)
    (he : err ≠ .typeError) : evalRhs σ e = .error err := by
  cases e <;> first
    | (simp only [evalE] at h; cases h; exact absurd rfl he)
    | (rw [evalRhs.eq_3 _ _ (by intros; contradiction) (by intros; contradiction), h]; rfl)

omit [FloatLaws F] in
theorem evalRhs_ok_cases {σ σ1 : State F} {e : Expr F} {val : Val F} (h : evalRhs σ e = .ok (σ1, val)) :
    (σ1 = σ ∧ evalE σ e = .ok val) ∨ (∃ t n, e = .alloc t n) ∨ (∃ o t n, e = .realloc o t n) := by
  cases e
  case alloc t n => exact Or.inr (Or.inl ⟨_, _, rfl⟩)
  case realloc o t n => exact Or.inr (Or.inr ⟨_, _, _, rfl⟩)
  all_goals
    left
    rw [evalRhs.eq_3 _ _ (by intros; contradiction) (by intros; contradiction)] at h
    obtain ⟨v, e1, h⟩ := bind_ok h
    cases h
    exact ⟨rfl, e1⟩

/-! ### the two modes of the statement-level argument

`x = false`: general mode — values are related by `Coerce`, the optimised program may overflow.
`x = true`: strict mode — retyping-free fragment, identical values, no overflow alternative. -/

def RelX (x : Bool) (v' v : Val F) : Prop := Coerce v' v ∧ (x = true → v' = v)
def GX (x : Bool) (e : Expr F) : Prop := x = true → NoFloatIdentityE e = true

omit [FloatLaws F] in
theorem RelX.refl (x : Bool) (v : Val F) : RelX x v v := ⟨Coerce.refl _, fun _ => rfl⟩

omit [FloatLaws F] in
theorem GX.attr {x : Bool} {t : Expr F} {a : String} (g : GX x (.attr t a)) : GX x t :=
  fun hx => by simpa [NoFloatIdentityE] using g hx
omit [FloatLaws F] in
theorem GX.idx {x : Bool} {t i : Expr F} (g : GX x (.idx t i)) : GX x t ∧ GX x i :=
  ⟨fun hx => by have := g hx; simp only [NoFloatIdentityE, Bool.and_eq_true] at this; exact this.1,
   fun hx => by have := g hx; simp only [NoFloatIdentityE, Bool.and_eq_true] at this; exact this.2⟩
omit [FloatLaws F] in
theorem GX.alloc {x : Bool} {t : Ty} {n : Expr F} (g : GX x (.alloc t n)) : GX x n :=
  fun hx => by simpa [NoFloatIdentityE] using g hx
omit [FloatLaws F] in
theorem GX.realloc {x : Bool} {o : Expr F} {t : Ty} {n : Expr F} (g : GX x (.realloc o t n)) :
    GX x o ∧ GX x n :=
  ⟨fun hx => by have := g hx; simp only [NoFloatIdentityE, Bool.and_eq_true] at this; exact this.1,
   fun hx => by have := g hx; simp only [NoFloatIdentityE, Bool.and_eq_true] at this; exact this.2⟩

/-- both expression-level theorems in one statement -/
theorem peepE_soundX {x : Bool} {σ : State F} {e : Expr F} {v : Val F} (g : GX x e)
    (h : evalE σ e = .ok v) :
    (∃ v', evalE σ (peepE e) = .ok v' ∧ RelX x v' v) ∨
      (x = false ∧ evalE σ (peepE e) = .error .intOverflow) := by
  cases x
  · rcases peepE_sound h with ⟨v', e', c⟩ | e'
    · exact Or.inl ⟨v', e', c, fun hx => by cases hx⟩
    · exact Or.inr ⟨rfl, e'⟩
  · exact Or.inl ⟨v, peepE_exact (g rfl) h, RelX.refl _ _⟩

theorem evalRhs_sound {x : Bool} {σ σ1 : State F} {e : Expr F} {val : Val F} (g : GX x e)
    (h : evalRhs σ e = .ok (σ1, val)) :
    (∃ val', evalRhs σ (peepE e) = .ok (σ1, val') ∧ RelX x val' val) ∨
      (x = false ∧ evalRhs σ (peepE e) = .error .intOverflow) := by
  rcases evalRhs_ok_cases h with ⟨rfl, e1⟩ | ⟨t, n, rfl⟩ | ⟨o, t, n, rfl⟩
  · rcases peepE_soundX g e1 with ⟨v', e2, c⟩ | ⟨hx, e2⟩
    · exact Or.inl ⟨v', evalRhs_of_ok e2, c⟩
    · exact Or.inr ⟨hx, evalRhs_of_error e2 (by decide)⟩
  · simp only [evalRhs, peepE] at h ⊢
    obtain ⟨nv, e1, h⟩ := bind_ok h
    obtain ⟨k, rfl⟩ := doAlloc_ok h
    rcases peepE_soundX g.alloc e1 with ⟨v', e2, c, _⟩ | ⟨hx, e2⟩
    · rw [coerce_to_int] at c; subst c
      rw [e2]; exact Or.inl ⟨_, h, RelX.refl _ _⟩
    · rw [e2]; exact Or.inr ⟨hx, rfl⟩
  · simp only [evalRhs, peepE] at h ⊢
    obtain ⟨ov, e1, h⟩ := bind_ok h
    obtain ⟨nv, e2, h⟩ := bind_ok h
    obtain ⟨ho, k, rfl⟩ := doRealloc_ok h
    rcases peepE_soundX g.realloc.1 e1 with ⟨ov', e1', c1, _⟩ | ⟨hx, e1'⟩
    · have : ov' = ov := by
        rcases c1 with rfl | ⟨j, rfl, rfl⟩
        · rfl
        · simp [Val.toNum] at ho
      subst this
      rw [e1', ok_bind]
      rcases peepE_soundX g.realloc.2 e2 with ⟨nv', e2', c2, _⟩ | ⟨hx, e2'⟩
      · rw [coerce_to_int] at c2; subst c2
        rw [e2']; exact Or.inl ⟨_, h, RelX.refl _ _⟩
      · rw [e2']; exact Or.inr ⟨hx, rfl⟩
    · rw [e1']; exact Or.inr ⟨hx, rfl⟩

omit [FloatLaws F] in
theorem evalLoc_attr (σ : State F) (t : Expr F) (a : String) :
    evalLoc σ (.attr t a) = evalE σ t >>= fun tv => match tv with
      | .tensor k => if a == "vals" then .ok (.vals k) else .error .typeError
      | _ => .error .typeError := rfl

/-- the location computation of `evalLoc` for an indexed target, factored out -/
def locOf (tv iv : Val F) : Except Err Loc :=
  match tv, iv with
  | .ptr b off, .int k => .ok (.cell b (off + k))
  | .null, .int _ => .error .null
  | .level k l, .int j => if j = 0 ∨ j = 1 then .ok (.slot k l j.toNat) else .error .oob
  | _, _ => .error .typeError

omit [FloatLaws F] in
theorem evalLoc_idx (σ : State F) (t i : Expr F) :
    evalLoc σ (.idx t i) = evalE σ t >>= fun tv => evalE σ i >>= fun iv => locOf tv iv := rfl

omit [FloatLaws F] in
theorem locOf_ok {tv iv : Val F} {loc : Loc} (h : locOf tv iv = .ok loc) :
    tv.toNum = none ∧ ∃ k, iv = .int k := by
  unfold locOf at h
  split at h <;> first | exact ⟨rfl, _, rfl⟩ | cases h

omit [FloatLaws F] in
theorem coerce_eq_of_toNum_none {w v : Val F} (c : Coerce w v) (h : v.toNum = none) : w = v := by
  rcases c with rfl | ⟨j, rfl, rfl⟩
  · rfl
  · simp [Val.toNum] at h

theorem evalLoc_sound {x : Bool} {σ : State F} {t : Expr F} {loc : Loc} (g : GX x t)
    (h : evalLoc σ t = .ok loc) :
    evalLoc σ (peepE t) = .ok loc ∨ (x = false ∧ evalLoc σ (peepE t) = .error .intOverflow) := by
  cases t
  case var n => exact Or.inl h
  case attr t a =>
    simp only [peepE]
    rw [evalLoc_attr] at h ⊢
    obtain ⟨tv, e1, h⟩ := bind_ok h
    rcases peepE_soundX g.attr e1 with ⟨tv', e1', c, _⟩ | ⟨hx, e1'⟩
    · split at h
      · rw [coerce_to_tensor] at c; subst c
        rw [e1']; exact Or.inl h
      · cases h
    · rw [e1']; exact Or.inr ⟨hx, rfl⟩
  case idx t i =>
    simp only [peepE]
    rw [evalLoc_idx] at h ⊢
    obtain ⟨tv, e1, h⟩ := bind_ok h
    obtain ⟨iv, e2, h⟩ := bind_ok h
    obtain ⟨ht, k, rfl⟩ := locOf_ok h
    rcases peepE_soundX g.idx.1 e1 with ⟨tv', e1', c1, _⟩ | ⟨hx, e1'⟩
    · have := coerce_eq_of_toNum_none c1 ht; subst this
      rw [e1', ok_bind]
      rcases peepE_soundX g.idx.2 e2 with ⟨iv', e2', c2, _⟩ | ⟨hx, e2'⟩
      · rw [coerce_to_int] at c2; subst c2
        rw [e2']; exact Or.inl h
      · rw [e2']; exact Or.inr ⟨hx, rfl⟩
    · rw [e1']; exact Or.inr ⟨hx, rfl⟩
  all_goals (simp only [evalLoc] at h; cases h)

omit [FloatLaws F] in
theorem convTo_coerce {ty : Ty} {val val' c : Val F} (h : convTo ty val = .ok c) (hc : Coerce val' val) :
    convTo ty val' = .ok c := by
  rcases hc with rfl | ⟨i, rfl, rfl⟩
  · exact h
  · cases ty <;> simp only [convTo] at h ⊢ <;> first | exact h | cases h

omit [FloatLaws F] in
theorem convElem_coerce {ty : ElemTy} {val val' c : Val F} (h : convElem ty val = .ok c)
    (hc : Coerce val' val) : convElem ty val' = .ok c := by
  rcases hc with rfl | ⟨i, rfl, rfl⟩
  · exact h
  · cases ty <;> simp only [convElem] at h ⊢ <;> first | exact h | cases h

omit [FloatLaws F] in
theorem store_coerce {σ σ2 : State F} {loc : Loc} {val val' : Val F} (h : store σ loc val = .ok σ2)
    (hc : Coerce val' val) : store σ loc val' = .ok σ2 := by
  cases loc
  case var x =>
    simp only [store] at h ⊢
    split at h
    · cases h
    · obtain ⟨c, e1, h⟩ := bind_ok h
      rw [convTo_coerce e1 hc]; exact h
  case cell b off =>
    simp only [store] at h ⊢
    split at h; · cases h
    split at h; · cases h
    split at h; · cases h
    split at h; · cases h
    obtain ⟨c, e1, h⟩ := bind_ok h
    simp only [*, if_false, Bool.false_eq_true]
    rw [convElem_coerce e1 hc]; exact h
  case slot t l k =>
    have : val' = val := by
      rcases hc with rfl | ⟨i, rfl, rfl⟩
      · rfl
      · simp only [store] at h
        split at h; · cases h
        split at h; · cases h
        simp [isPtrVal] at h
    subst this; exact h
  case vals t =>
    have : val' = val := by
      rcases hc with rfl | ⟨i, rfl, rfl⟩
      · rfl
      · simp only [store] at h
        split at h; · cases h
        split at h; · cases h
        simp [isPtrVal] at h
    subst this; exact h
