import TensoraVerif.Model.FloatLaws

/-!
C07, value level: well-formed values, int→float coercion, numeric equality, and the behaviour of
`binVal` under coercion of its operands. Nothing here mentions states or expressions.
-/
namespace TV.IR
set_option linter.unusedSectionVars false

section NoLaws
variable {F : Type} [FloatOps F]

/-- a value `evalE` may return on a well-formed state: 32-bit integer / finite float -/
def WfVal : Val F → Prop
  | .int i => inI32 i = true
  | .flt f => FloatOps.finite f = true
  | _ => True

/-- promote integers to floats, leave everything else alone -/
def toFl : Val F → Val F
  | .int i => .flt (FloatOps.ofInt i)
  | v => v

/-- `v` is `w`, or `w` is an integer and `v` its float image -/
def Coerce (w v : Val F) : Prop := v = w ∨ ∃ i : Int, w = .int i ∧ v = .flt (FloatOps.ofInt i)

/-- numerically equal (for well-formed values): equal after promotion -/
def NumEq (a b : Val F) : Prop := toFl a = toFl b

@[simp] theorem toFl_int (i : Int) : toFl (.int i : Val F) = .flt (FloatOps.ofInt i) := rfl
@[simp] theorem toFl_flt (f : F) : toFl (.flt f : Val F) = .flt f := rfl
@[simp] theorem toFl_bool (b : Bool) : toFl (.bool b : Val F) = .bool b := rfl
@[simp] theorem toFl_ptr (b : Nat) (o : Int) : toFl (.ptr b o : Val F) = .ptr b o := rfl
@[simp] theorem toFl_null : toFl (.null : Val F) = .null := rfl
@[simp] theorem toFl_tensor (k : Nat) : toFl (.tensor k : Val F) = .tensor k := rfl
@[simp] theorem toFl_indices (k : Nat) : toFl (.indices k : Val F) = .indices k := rfl
@[simp] theorem toFl_level (k l : Nat) : toFl (.level k l : Val F) = .level k l := rfl

theorem Coerce.refl (v : Val F) : Coerce v v := Or.inl rfl

theorem Coerce.trans {a b c : Val F} (h1 : Coerce a b) (h2 : Coerce b c) : Coerce a c := by
  rcases h1 with rfl | ⟨i, rfl, rfl⟩
  · exact h2
  · rcases h2 with rfl | ⟨j, hj, _⟩
    · exact Or.inr ⟨i, rfl, rfl⟩
    · cases hj

theorem Coerce.numEq {w v : Val F} (h : Coerce w v) : NumEq w v := by
  rcases h with rfl | ⟨i, rfl, rfl⟩ <;> rfl

theorem Coerce.toFl_eq {w v : Val F} (h : Coerce w v) : toFl v = toFl w := h.numEq.symm

theorem NumEq.refl (a : Val F) : NumEq a a := rfl
theorem NumEq.symm {a b : Val F} (h : NumEq a b) : NumEq b a := Eq.symm h
theorem NumEq.trans {a b c : Val F} (h1 : NumEq a b) (h2 : NumEq b c) : NumEq a c := Eq.trans h1 h2

/-- a coerced value is the original one or its promotion -/
theorem Coerce.cases {w v : Val F} (h : Coerce w v) : v = w ∨ v = toFl w := by
  rcases h with rfl | ⟨i, rfl, rfl⟩
  · exact Or.inl rfl
  · exact Or.inr rfl

@[simp] theorem coerce_to_int (w : Val F) (i : Int) : Coerce w (.int i) ↔ w = .int i := by
  constructor
  · rintro (h | ⟨j, _, h⟩)
    · exact h.symm
    · cases h
  · rintro rfl; exact Coerce.refl _
@[simp] theorem coerce_to_bool (w : Val F) (b : Bool) : Coerce w (.bool b) ↔ w = .bool b := by
  constructor
  · rintro (h | ⟨j, _, h⟩)
    · exact h.symm
    · cases h
  · rintro rfl; exact Coerce.refl _
@[simp] theorem coerce_to_ptr (w : Val F) (b : Nat) (o : Int) : Coerce w (.ptr b o) ↔ w = .ptr b o := by
  constructor
  · rintro (h | ⟨j, _, h⟩)
    · exact h.symm
    · cases h
  · rintro rfl; exact Coerce.refl _
@[simp] theorem coerce_to_null (w : Val F) : Coerce w .null ↔ w = .null := by
  constructor
  · rintro (h | ⟨j, _, h⟩)
    · exact h.symm
    · cases h
  · rintro rfl; exact Coerce.refl _
@[simp] theorem coerce_to_tensor (w : Val F) (k : Nat) : Coerce w (.tensor k) ↔ w = .tensor k := by
  constructor
  · rintro (h | ⟨j, _, h⟩)
    · exact h.symm
    · cases h
  · rintro rfl; exact Coerce.refl _
@[simp] theorem coerce_to_indices (w : Val F) (k : Nat) : Coerce w (.indices k) ↔ w = .indices k := by
  constructor
  · rintro (h | ⟨j, _, h⟩)
    · exact h.symm
    · cases h
  · rintro rfl; exact Coerce.refl _
@[simp] theorem coerce_to_level (w : Val F) (k l : Nat) : Coerce w (.level k l) ↔ w = .level k l := by
  constructor
  · rintro (h | ⟨j, _, h⟩)
    · exact h.symm
    · cases h
  · rintro rfl; exact Coerce.refl _

/-- only integers are changed by a coercion -/
theorem Coerce.eq_of_not_int {w v : Val F} (h : Coerce w v) (hw : ∀ i, w ≠ .int i) : v = w := by
  rcases h with rfl | ⟨i, rfl, _⟩
  · rfl
  · exact absurd rfl (hw i)

theorem coerce_from_int (i : Int) (v : Val F) :
    Coerce (.int i) v ↔ v = .int i ∨ v = .flt (FloatOps.ofInt i) := by
  constructor
  · rintro (h | ⟨j, hj, h⟩)
    · exact Or.inl h
    · cases hj; exact Or.inr h
  · rintro (rfl | rfl)
    · exact Coerce.refl _
    · exact Or.inr ⟨i, rfl, rfl⟩

@[simp] theorem coerce_from_flt (f : F) (v : Val F) : Coerce (.flt f) v ↔ v = .flt f := by
  constructor
  · intro h; exact h.eq_of_not_int (by intro i h; cases h)
  · rintro rfl; exact Coerce.refl _
@[simp] theorem coerce_from_bool (b : Bool) (v : Val F) : Coerce (.bool b) v ↔ v = .bool b := by
  constructor
  · intro h; exact h.eq_of_not_int (by intro i h; cases h)
  · rintro rfl; exact Coerce.refl _

theorem binVal_flt_left (op : BinOp) (f : F) (b : Val F) :
    binVal op (.flt f) b = binVal op (.flt f) (toFl b) := by
  cases b <;> cases op <;> rfl

theorem binVal_flt_right (op : BinOp) (a : Val F) (g : F) :
    binVal op a (.flt g) = binVal op (toFl a) (.flt g) := by
  cases a <;> cases op <;> rfl

theorem chkInt_ok {z : Int} {v : Val F} (h : chkInt z = .ok v) : v = .int z ∧ inI32 z = true := by
  unfold chkInt at h; split at h
  · cases h; exact ⟨rfl, ‹_›⟩
  · cases h

theorem chkFlt_ok {f : F} {v : Val F} (h : chkFlt f = .ok v) : v = .flt f ∧ FloatOps.finite f = true := by
  unfold chkFlt at h; split at h
  · cases h; exact ⟨rfl, ‹_›⟩
  · cases h

theorem chkInt_of {z : Int} (h : inI32 z = true) : (chkInt z : Except Err (Val F)) = .ok (.int z) := by
  simp [chkInt, h]

theorem chkFlt_of {f : F} (h : FloatOps.finite f = true) : chkFlt f = .ok (.flt f) := by
  simp [chkFlt, h]

theorem chkInt_cases (z : Int) :
    (chkInt z : Except Err (Val F)) = .ok (.int z) ∧ inI32 z = true ∨
    (chkInt z : Except Err (Val F)) = .error .intOverflow := by
  unfold chkInt; split
  · exact Or.inl ⟨rfl, ‹_›⟩
  · exact Or.inr rfl

theorem chkVal_ok {u v : Val F} (h : chkVal u = .ok v) : v = u ∧ WfVal v := by
  cases u <;> simp only [chkVal] at h
  case int i => obtain ⟨rfl, h'⟩ := chkInt_ok h; exact ⟨rfl, h'⟩
  case flt f => obtain ⟨rfl, h'⟩ := chkFlt_ok h; exact ⟨rfl, h'⟩
  all_goals (cases h; exact ⟨rfl, trivial⟩)

theorem chkVal_of_wf {v : Val F} (h : WfVal v) : chkVal v = .ok v := by
  cases v <;> simp only [chkVal]
  case int i => exact chkInt_of h
  case flt f => exact chkFlt_of h

end NoLaws

section Laws
variable {F : Type} [FloatOps F] [FloatLaws F]
open FloatOps FloatLaws

theorem ofInt_inj {i j : Int} (hi : inI32 i = true) (hj : inI32 j = true)
    (h : (ofInt i : F) = ofInt j) : i = j := by
  have h1 := eq_ofInt (F := F) i j hi hj
  have h2 := eq_refl (ofInt i : F) (finite_ofInt i hi)
  rw [← h, h2] at h1
  exact of_decide_eq_true h1.symm

theorem wf_toFl {v : Val F} (h : WfVal v) : WfVal (toFl v) := by
  cases v <;> try exact h
  exact finite_ofInt _ h

/-- a successful int×int operation is reproduced exactly on the float images -/
theorem binVal_int_int {op : BinOp} {i j : Int} {v : Val F} (hi : inI32 i = true) (hj : inI32 j = true)
    (h : binVal op (.int i) (.int j) = .ok v) :
    binVal op (.flt (ofInt i)) (.flt (ofInt j)) = .ok (toFl v) := by
  cases op <;> simp only [binVal, Val.toNum, numOp, Num.toF] at h ⊢
  case add =>
    obtain ⟨rfl, hr⟩ := chkInt_ok h
    rw [add_ofInt i j hi hj hr]; exact chkFlt_of (finite_ofInt _ hr)
  case sub =>
    obtain ⟨rfl, hr⟩ := chkInt_ok h
    rw [sub_ofInt i j hi hj hr]; exact chkFlt_of (finite_ofInt _ hr)
  case mul =>
    obtain ⟨rfl, hr⟩ := chkInt_ok h
    rw [mul_ofInt i j hi hj hr]; exact chkFlt_of (finite_ofInt _ hr)
  case eq => cases h; simp only [eq_ofInt i j hi hj, toFl_bool]; congr 2
  case ne => cases h; simp only [eq_ofInt i j hi hj, toFl_bool]; congr 2
  case gt => cases h; simp [lt_ofInt j i hj hi]
  case lt => cases h; simp [lt_ofInt i j hi hj]
  case ge =>
    cases h; simp only [fle, lt_ofInt j i hj hi, eq_ofInt j i hj hi, toFl_bool]
    congr 2; rw [Bool.eq_iff_iff]; simp; omega
  case le =>
    cases h; simp only [fle, lt_ofInt i j hi hj, eq_ofInt i j hi hj, toFl_bool]
    congr 2; rw [Bool.eq_iff_iff]; simp; omega
  case max =>
    cases h; simp only [lt_ofInt j i hj hi, toFl_int]
    congr 2; by_cases hc : j < i <;> simp [hc]
  case min =>
    cases h; simp only [lt_ofInt i j hi hj, toFl_int]
    congr 2; by_cases hc : i < j <;> simp [hc]
  all_goals cases h

omit [FloatLaws F] in
theorem binVal_int_int_err {op : BinOp} {i j : Int} {e : Err}
    (h : (binVal op (.int i) (.int j) : Except Err (Val F)) = .error e) :
    e = .intOverflow ∨ op = .and ∨ op = .or := by
  cases op <;> simp only [binVal, Val.toNum, numOp] at h
  case add => rcases chkInt_cases (F := F) (i + j) with ⟨h', _⟩ | h' <;> rw [h'] at h <;> cases h; exact Or.inl rfl
  case sub => rcases chkInt_cases (F := F) (i - j) with ⟨h', _⟩ | h' <;> rw [h'] at h <;> cases h; exact Or.inl rfl
  case mul => rcases chkInt_cases (F := F) (i * j) with ⟨h', _⟩ | h' <;> rw [h'] at h <;> cases h; exact Or.inl rfl
  case and => exact Or.inr (Or.inl rfl)
  case or => exact Or.inr (Or.inr rfl)
  all_goals cases h

theorem binVal_flt_back {op : BinOp} {i j : Int} {v : Val F} (hi : inI32 i = true) (hj : inI32 j = true)
    (h : binVal op (.flt (ofInt i)) (.flt (ofInt j)) = .ok v) :
    (∃ v', binVal op (.int i) (.int j) = .ok v' ∧ v = toFl v') ∨
      (binVal op (.int i) (.int j) : Except Err (Val F)) = .error .intOverflow := by
  cases h' : (binVal op (.int i) (.int j) : Except Err (Val F)) with
  | ok v' =>
    have := binVal_int_int hi hj h'
    rw [h] at this; cases this
    exact Or.inl ⟨v', rfl, rfl⟩
  | error e =>
    rcases binVal_int_int_err h' with rfl | rfl | rfl
    · exact Or.inr rfl
    · cases h
    · cases h

omit [FloatLaws F] in
/-- an integer result can only come from two integer operands -/
theorem binVal_int_result {op : BinOp} {a b : Val F} {k : Int} (h : binVal op a b = .ok (.int k)) :
    ∃ i j, a = .int i ∧ b = .int j := by
  cases a <;> cases b <;> first
    | exact ⟨_, _, rfl, rfl⟩
    | (exfalso; cases op <;> simp [binVal, Val.toNum, numOp, chkFlt] at h <;> (split at h <;> cases h))

omit [FloatLaws F] in
theorem toFl_of_not_int {v : Val F} (h : ∀ k, v ≠ .int k) : toFl v = v := by
  cases v <;> first | rfl | exact absurd rfl (h _)

omit [FloatLaws F] in
theorem coerce_toFl (v : Val F) : Coerce v (toFl v) := by
  cases v <;> first | exact Coerce.refl _ | exact Or.inr ⟨_, rfl, rfl⟩

omit [FloatLaws F] in
/-- a result computed with at least one non-integer operand is not an integer -/
theorem binVal_toFl_result {op : BinOp} {a b v : Val F} (h : binVal op a b = .ok v)
    (hab : (∀ i, a ≠ .int i) ∨ (∀ j, b ≠ .int j)) : toFl v = v := by
  apply toFl_of_not_int
  rintro k rfl
  obtain ⟨i, j, rfl, rfl⟩ := binVal_int_result h
  rcases hab with h' | h'
  · exact h' _ rfl
  · exact h' _ rfl

/-- promotion of both operands commutes with `binVal`, except for pointer arithmetic -/
theorem binVal_promote {op : BinOp} {a b v : Val F} (ha : WfVal a) (hb : WfVal b)
    (h : binVal op a b = .ok v) :
    binVal op (toFl a) (toFl b) = .ok (toFl v) ∨ (∃ blk off k, a = .ptr blk off ∧ b = .int k) := by
  by_cases hai : ∃ i, a = .int i
  · obtain ⟨i, rfl⟩ := hai
    by_cases hbj : ∃ j, b = .int j
    · obtain ⟨j, rfl⟩ := hbj
      exact Or.inl (binVal_int_int ha hb h)
    · have hbj' : ∀ j, b ≠ .int j := fun j hj => hbj ⟨j, hj⟩
      left
      rw [binVal_toFl_result h (Or.inr hbj'), toFl_int, ← binVal_flt_left]
      cases b <;> first | exact absurd rfl (hbj' _) | skip
      case flt g => rw [← h]; exact (binVal_flt_right op (.int i) g).symm
      all_goals (exfalso; cases op <;> simp [binVal, Val.toNum] at h)
  · have hai' : ∀ i, a ≠ .int i := fun i hi => hai ⟨i, hi⟩
    rw [binVal_toFl_result h (Or.inl hai'), toFl_of_not_int hai']
    cases a <;> first | exact absurd rfl (hai' _) | skip
    case flt f => left; rw [← binVal_flt_left]; exact h
    case ptr blk off =>
      cases b
      case int k => exact Or.inr ⟨_, _, _, rfl, rfl⟩
      all_goals (left; exact h)
    all_goals
      left
      cases b <;> first | exact h | (exfalso; cases op <;> simp [binVal, Val.toNum] at h)

omit [FloatLaws F] in
theorem finite_ite {c : Prop} [Decidable c] {x y : F} (hx : finite x = true) (hy : finite y = true) :
    finite (if c then x else y) = true := by
  by_cases hc : c <;> simp [hc, hx, hy]

theorem inI32_ite {c : Prop} [Decidable c] {x y : Int} (hx : inI32 x = true) (hy : inI32 y = true) :
    inI32 (if c then x else y) = true := by
  by_cases hc : c <;> simp [hc, hx, hy]

theorem binVal_wf {op : BinOp} {a b v : Val F} (ha : WfVal a) (hb : WfVal b)
    (h : binVal op a b = .ok v) : WfVal v := by
  cases a <;> cases b <;> cases op <;> simp only [binVal, Val.toNum, numOp, Num.toF] at h <;>
    first
    | (cases h; done)
    | (cases h; exact trivial)
    | (obtain ⟨rfl, h'⟩ := chkInt_ok h; exact h')
    | (obtain ⟨rfl, h'⟩ := chkFlt_ok h; exact h')
    | (cases h; first
        | exact inI32_ite ha hb
        | exact finite_ite ha hb
        | exact finite_ite (finite_ofInt _ ha) hb
        | exact finite_ite ha (finite_ofInt _ hb))

/-- numerically equal well-formed values of the same integer shape are equal -/
theorem numEq_int_int {i j : Int} (hi : inI32 i = true) (hj : inI32 j = true)
    (h : NumEq (.int i : Val F) (.int j)) : i = j := by
  simp only [NumEq, toFl_int, Val.flt.injEq] at h
  exact ofInt_inj hi hj h

omit [FloatLaws F] in
theorem numEq_ptr_left {blk : Nat} {off : Int} {v : Val F} (h : NumEq (.ptr blk off) v) :
    v = .ptr blk off := by
  cases v <;> simp_all [NumEq]

omit [FloatLaws F] in
/-- a value numerically equal to one that is neither an integer nor a float is that value -/
theorem numEq_eq_of_not_num {a v : Val F} (h : NumEq a v) (ha : a.toNum = none) : v = a := by
  cases a <;> simp [Val.toNum] at ha <;> cases v <;> simp_all [NumEq]

/-- K: `binVal` respects numeric equality of well-formed operands -/
theorem binVal_numEq {op : BinOp} {a₁ a₂ b₁ b₂ v₁ v₂ : Val F}
    (ha₁ : WfVal a₁) (ha₂ : WfVal a₂) (hb₁ : WfVal b₁) (hb₂ : WfVal b₂)
    (ha : NumEq a₁ a₂) (hb : NumEq b₁ b₂)
    (h₁ : binVal op a₁ b₁ = .ok v₁) (h₂ : binVal op a₂ b₂ = .ok v₂) : NumEq v₁ v₂ := by
  rcases binVal_promote ha₁ hb₁ h₁ with p₁ | ⟨blk, off, k, rfl, rfl⟩
  · rcases binVal_promote ha₂ hb₂ h₂ with p₂ | ⟨blk, off, k, rfl, rfl⟩
    · unfold NumEq at ha hb ⊢
      rw [ha, hb, p₂] at p₁
      exact (Except.ok.inj p₁).symm
    · have := numEq_ptr_left ha.symm; subst this
      cases b₁
      case int k' =>
        have := numEq_int_int hb₁ hb₂ hb; subst this
        rw [h₁] at h₂; cases h₂; rfl
      case flt f => cases op <;> simp [binVal, Val.toNum] at h₁
      all_goals simp [NumEq] at hb
  · have := numEq_ptr_left ha; subst this
    cases b₂
    case int k' =>
      have := numEq_int_int hb₁ hb₂ hb; subst this
      rw [h₁] at h₂; cases h₂; rfl
    case flt f => cases op <;> simp [binVal, Val.toNum] at h₂
    all_goals simp [NumEq] at hb

/-- K': a result obtained from coerced operands is reproduced (up to coercion) from the original
operands, unless the integer computation overflows -/
theorem binVal_coerce_back {op : BinOp} {a a' b b' v : Val F} (ha : WfVal a') (hb : WfVal b')
    (ca : Coerce a' a) (cb : Coerce b' b) (h : binVal op a b = .ok v) :
    (∃ v', binVal op a' b' = .ok v' ∧ Coerce v' v) ∨ binVal op a' b' = .error .intOverflow := by
  rcases ca with rfl | ⟨i, rfl, rfl⟩
  · rcases cb with rfl | ⟨j, rfl, rfl⟩
    · exact Or.inl ⟨v, h, Coerce.refl _⟩
    · cases a
      case int i =>
        rw [binVal_flt_right] at h
        rcases binVal_flt_back ha hb h with ⟨v', h', rfl⟩ | h'
        · exact Or.inl ⟨v', h', coerce_toFl _⟩
        · exact Or.inr h'
      case flt f =>
        rw [binVal_flt_left]; exact Or.inl ⟨v, h, Coerce.refl _⟩
      all_goals (exfalso; cases op <;> simp [binVal, Val.toNum] at h)
  · rcases cb with rfl | ⟨j, rfl, rfl⟩
    · cases b
      case int j =>
        rw [binVal_flt_left] at h
        rcases binVal_flt_back ha hb h with ⟨v', h', rfl⟩ | h'
        · exact Or.inl ⟨v', h', coerce_toFl _⟩
        · exact Or.inr h'
      case flt g =>
        rw [binVal_flt_right]; exact Or.inl ⟨v, h, Coerce.refl _⟩
      all_goals (exfalso; cases op <;> simp [binVal, Val.toNum] at h)
    · rcases binVal_flt_back ha hb h with ⟨v', h', rfl⟩ | h'
      · exact Or.inl ⟨v', h', coerce_toFl _⟩
      · exact Or.inr h'

/-! ### the value-level content of the individual rewrite rules -/

def IsZeroV (a : Val F) : Prop := a = .int 0 ∨ a = .flt zero
def IsOneV (a : Val F) : Prop := a = .int 1 ∨ a = .flt one

def cmpTrue : BinOp → Bool
  | .eq | .ge | .le => true
  | _ => false
def cmpFalse : BinOp → Bool
  | .ne | .gt | .lt => true
  | _ => false

theorem isZeroV_coerce {a : Val F} (h : Coerce (.int 0) a) : IsZeroV a := by
  rcases (coerce_from_int _ _).1 h with rfl | rfl
  · exact Or.inl rfl
  · rw [ofInt_zero]; exact Or.inr rfl

theorem isOneV_coerce {a : Val F} (h : Coerce (.int 1) a) : IsOneV a := by
  rcases (coerce_from_int _ _).1 h with rfl | rfl
  · exact Or.inl rfl
  · rw [ofInt_one]; exact Or.inr rfl

theorem coerce_of_isZeroV {a : Val F} (h : IsZeroV a) : Coerce (.int 0) a := by
  rcases h with rfl | rfl
  · exact Coerce.refl _
  · exact Or.inr ⟨0, rfl, by rw [ofInt_zero]⟩

theorem add_zero_left {a b v : Val F} (ha : IsZeroV a) (hb : WfVal b)
    (h : binVal .add a b = .ok v) : Coerce b v := by
  rcases ha with rfl | rfl <;> cases b <;> simp only [binVal, Val.toNum, numOp, Num.toF] at h <;>
    try (cases h; done)
  · obtain ⟨rfl, _⟩ := chkInt_ok h; rw [Int.zero_add]; exact Coerce.refl _
  · rw [ofInt_zero, zero_add _ hb] at h; obtain ⟨rfl, _⟩ := chkFlt_ok h; exact Coerce.refl _
  · rw [zero_add _ (finite_ofInt _ hb)] at h; obtain ⟨rfl, _⟩ := chkFlt_ok h
    exact Or.inr ⟨_, rfl, rfl⟩
  · rw [zero_add _ hb] at h; obtain ⟨rfl, _⟩ := chkFlt_ok h; exact Coerce.refl _

theorem add_zero_right {a b v : Val F} (hb : IsZeroV b) (ha : WfVal a)
    (h : binVal .add a b = .ok v) : Coerce a v := by
  rcases hb with rfl | rfl <;> cases a <;> simp only [binVal, Val.toNum, numOp, Num.toF] at h <;>
    try (cases h; done)
  · obtain ⟨rfl, _⟩ := chkInt_ok h; rw [Int.add_zero]; exact Coerce.refl _
  · rw [ofInt_zero, add_zero _ ha] at h; obtain ⟨rfl, _⟩ := chkFlt_ok h; exact Coerce.refl _
  · cases h; rw [Int.add_zero]; exact Coerce.refl _
  · rw [add_zero _ (finite_ofInt _ ha)] at h; obtain ⟨rfl, _⟩ := chkFlt_ok h
    exact Or.inr ⟨_, rfl, rfl⟩
  · rw [add_zero _ ha] at h; obtain ⟨rfl, _⟩ := chkFlt_ok h; exact Coerce.refl _

theorem sub_zero_right {a b v : Val F} (hb : IsZeroV b) (ha : WfVal a)
    (h : binVal .sub a b = .ok v) : Coerce a v := by
  rcases hb with rfl | rfl <;> cases a <;> simp only [binVal, Val.toNum, numOp, Num.toF] at h <;>
    try (cases h; done)
  · obtain ⟨rfl, _⟩ := chkInt_ok h; rw [Int.sub_zero]; exact Coerce.refl _
  · rw [ofInt_zero, sub_zero _ ha] at h; obtain ⟨rfl, _⟩ := chkFlt_ok h; exact Coerce.refl _
  · rw [sub_zero _ (finite_ofInt _ ha)] at h; obtain ⟨rfl, _⟩ := chkFlt_ok h
    exact Or.inr ⟨_, rfl, rfl⟩
  · rw [sub_zero _ ha] at h; obtain ⟨rfl, _⟩ := chkFlt_ok h; exact Coerce.refl _

theorem mul_zero_left {a b v : Val F} (ha : IsZeroV a) (hb : WfVal b)
    (h : binVal .mul a b = .ok v) : IsZeroV v := by
  rcases ha with rfl | rfl <;> cases b <;> simp only [binVal, Val.toNum, numOp, Num.toF] at h <;>
    try (cases h; done)
  · obtain ⟨rfl, _⟩ := chkInt_ok h; rw [Int.zero_mul]; exact Or.inl rfl
  · rw [ofInt_zero, zero_mul _ hb] at h; obtain ⟨rfl, _⟩ := chkFlt_ok h; exact Or.inr rfl
  · rw [zero_mul _ (finite_ofInt _ hb)] at h; obtain ⟨rfl, _⟩ := chkFlt_ok h; exact Or.inr rfl
  · rw [zero_mul _ hb] at h; obtain ⟨rfl, _⟩ := chkFlt_ok h; exact Or.inr rfl

theorem mul_zero_right {a b v : Val F} (hb : IsZeroV b) (ha : WfVal a)
    (h : binVal .mul a b = .ok v) : IsZeroV v := by
  rcases hb with rfl | rfl <;> cases a <;> simp only [binVal, Val.toNum, numOp, Num.toF] at h <;>
    try (cases h; done)
  · obtain ⟨rfl, _⟩ := chkInt_ok h; rw [Int.mul_zero]; exact Or.inl rfl
  · rw [ofInt_zero, mul_zero _ ha] at h; obtain ⟨rfl, _⟩ := chkFlt_ok h; exact Or.inr rfl
  · rw [mul_zero _ (finite_ofInt _ ha)] at h; obtain ⟨rfl, _⟩ := chkFlt_ok h; exact Or.inr rfl
  · rw [mul_zero _ ha] at h; obtain ⟨rfl, _⟩ := chkFlt_ok h; exact Or.inr rfl

theorem mul_fzero_left {b v : Val F} (hb : WfVal b)
    (h : binVal .mul (.flt zero) b = .ok v) : v = .flt zero := by
  cases b <;> simp only [binVal, Val.toNum, numOp, Num.toF] at h <;> try (cases h; done)
  · rw [zero_mul _ (finite_ofInt _ hb)] at h; exact (chkFlt_ok h).1
  · rw [zero_mul _ hb] at h; exact (chkFlt_ok h).1

theorem mul_fzero_right {a v : Val F} (ha : WfVal a)
    (h : binVal .mul a (.flt zero) = .ok v) : v = .flt zero := by
  cases a <;> simp only [binVal, Val.toNum, numOp, Num.toF] at h <;> try (cases h; done)
  · rw [mul_zero _ (finite_ofInt _ ha)] at h; exact (chkFlt_ok h).1
  · rw [mul_zero _ ha] at h; exact (chkFlt_ok h).1

theorem mul_one_left {a b v : Val F} (ha : IsOneV a) (hb : WfVal b)
    (h : binVal .mul a b = .ok v) : Coerce b v := by
  rcases ha with rfl | rfl <;> cases b <;> simp only [binVal, Val.toNum, numOp, Num.toF] at h <;>
    try (cases h; done)
  · obtain ⟨rfl, _⟩ := chkInt_ok h; rw [Int.one_mul]; exact Coerce.refl _
  · rw [ofInt_one, one_mul _ hb] at h; obtain ⟨rfl, _⟩ := chkFlt_ok h; exact Coerce.refl _
  · rw [one_mul _ (finite_ofInt _ hb)] at h; obtain ⟨rfl, _⟩ := chkFlt_ok h
    exact Or.inr ⟨_, rfl, rfl⟩
  · rw [one_mul _ hb] at h; obtain ⟨rfl, _⟩ := chkFlt_ok h; exact Coerce.refl _

theorem mul_one_right {a b v : Val F} (hb : IsOneV b) (ha : WfVal a)
    (h : binVal .mul a b = .ok v) : Coerce a v := by
  rcases hb with rfl | rfl <;> cases a <;> simp only [binVal, Val.toNum, numOp, Num.toF] at h <;>
    try (cases h; done)
  · obtain ⟨rfl, _⟩ := chkInt_ok h; rw [Int.mul_one]; exact Coerce.refl _
  · rw [ofInt_one, mul_one _ ha] at h; obtain ⟨rfl, _⟩ := chkFlt_ok h; exact Coerce.refl _
  · rw [mul_one _ (finite_ofInt _ ha)] at h; obtain ⟨rfl, _⟩ := chkFlt_ok h
    exact Or.inr ⟨_, rfl, rfl⟩
  · rw [mul_one _ ha] at h; obtain ⟨rfl, _⟩ := chkFlt_ok h; exact Coerce.refl _

/-- comparing a well-formed value with itself -/
theorem binVal_self {op : BinOp} {c v : Val F} (hc : WfVal c) (h : binVal op c c = .ok v) :
    (cmpTrue op = true → v = .bool true) ∧ (cmpFalse op = true → v = .bool false) := by
  cases c <;> cases op <;> simp only [binVal, Val.toNum, numOp, Num.toF] at h <;>
    first
    | (cases h; done)
    | (constructor <;> intro hop <;> first | (cases hop; done) | skip)
  all_goals first
    | (cases h; simp; done)
    | (cases h; simp [fle, eq_refl _ hc, lt_irrefl]; done)
    | skip

omit [FloatLaws F] in
theorem toFl_eq_bool {v : Val F} {x : Bool} (h : toFl v = .bool x) : v = .bool x := by
  cases v <;> simp_all [toFl]

/-- comparing numerically equal well-formed values -/
theorem binVal_cmp_numEq {op : BinOp} {a b v : Val F} (ha : WfVal a) (hb : WfVal b)
    (hab : NumEq a b) (h : binVal op a b = .ok v) :
    (cmpTrue op = true → v = .bool true) ∧ (cmpFalse op = true → v = .bool false) := by
  rcases binVal_promote ha hb h with p | ⟨blk, off, k, rfl, rfl⟩
  · unfold NumEq at hab
    rw [← hab] at p
    have := binVal_self (wf_toFl ha) p
    exact ⟨fun ho => toFl_eq_bool (this.1 ho), fun ho => toFl_eq_bool (this.2 ho)⟩
  · simp [NumEq] at hab

end Laws
end TV.IR
