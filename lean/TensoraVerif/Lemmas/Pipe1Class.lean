import TensoraVerif.Model.IterGraph
import TensoraVerif.Lemmas.DesugarTerms

/-!
C01, full pipeline for dense element-wise vector assignments, part 1: the class of SOURCE
assignments (`srcOk`, `fmtsD`), the shape `desugar` gives them (`plainE`: no contraction is ever
placed, `desugar_eq`), and the identifier assignment the graph builder uses (`toId`).
-/
namespace TV.Pipe1
open TV.Alg TV.Graph

/-- the format table gives tensor `name` the format `d`: the entry that `tensorId` uses (the first
one with that name) has one dense level and the identity ordering -/
def isD (formats : Formats) (name : String) : Bool :=
  match formats.find? (·.1 == name) with
  | some (_, modes, ordering) => modes == [Mode.dense] && ordering == [0]
  | none => false

/-- the right-hand sides of the class: literals, `add`/`sub`/`mul`, and references `t(i)` to a
tensor other than the target that has the format `d` in the format table -/
def srcOk (i tname : String) (formats : Formats) : SExpr → Bool
  | .int _ => true
  | .flt _ => true
  | .tensor n idx => idx == [i] && n != tname && isD formats n
  | .add l r => srcOk i tname formats l && srcOk i tname formats r
  | .sub l r => srcOk i tname formats l && srcOk i tname formats r
  | .mul l r => srcOk i tname formats l && srcOk i tname formats r

/-- every entry of the format table (used or not) is the format `d`: one dense level, identity
ordering -/
def fmtsD (formats : Formats) : Bool := formats.all fun f => f.2.1 == [Mode.dense] && f.2.2 == [0]

/-- desugaring without contraction indexes: tensors are numbered left to right from `n`,
`l - r` becomes `l + (-1) * r` -/
def plainE : SExpr → Nat → DExpr × Nat
  | .int v, n => (.int v, n)
  | .flt v, n => (.flt v, n)
  | .tensor name idx, n => (.tensor n name idx, n + 1)
  | .add l r, n =>
    let (l', n1) := plainE l n
    let (r', n2) := plainE r n1
    (.add l' r', n2)
  | .sub l r, n =>
    let (l', n1) := plainE l n
    let (r', n2) := plainE r n1
    (.add l' (.mul (.int (-1)) r'), n2)
  | .mul l r, n =>
    let (l', n1) := plainE l n
    let (r', n2) := plainE r n1
    (.mul l' r', n2)

/-- the desugared trees of the class -/
def dOk (i tname : String) (formats : Formats) : DExpr → Bool
  | .int _ => true
  | .flt _ => true
  | .tensor _ n idx => idx == [i] && n != tname && isD formats n
  | .add l r => dOk i tname formats l && dOk i tname formats r
  | .mul l r => dOk i tname formats l && dOk i tname formats r
  | .contract _ _ => false

/-- the identifier assignment of `graphsOf` on the class: occurrence number `k` of tensor `name`
becomes the tensor `<k>_<name>`, order 1, dense, indexed by `i` -/
def toId (i : String) : DExpr → IdExpr
  | .int v => .int v
  | .flt v => .flt v
  | .tensor id name _ => .tensor ⟨toString id ++ "_" ++ name, name, [i], [.dense]⟩
  | .add l r => .add (toId i l) (toId i r)
  | .mul l r => .mul (toId i l) (toId i r)
  | .contract _ e => toId i e

/-- does the tree contain a tensor occurrence? (otherwise its graph is a bare terminal) -/
def hasT : DExpr → Bool
  | .int _ => false
  | .flt _ => false
  | .tensor _ _ _ => true
  | .add l r => hasT l || hasT r
  | .mul l r => hasT l || hasT r
  | .contract _ e => hasT e

/-! ### `desugar` on the class -/

theorem filter_nil_contains (xs : List String) : xs.filter ([] : List String).contains = [] :=
  List.filter_eq_nil_iff.2 (by simp)

/-- with no contraction index left to place, `desugarE` is the plain translation (every source
expression, not only the class) -/
theorem desugarE_nil (e : SExpr) : ∀ n, desugarE e [] n = plainE e n := by
  induction e with
  | int v => intro n; rfl
  | flt v => intro n; rfl
  | tensor name idx => intro n; rfl
  | add l r ihl ihr =>
    intro n
    simp only [desugarE, plainE, filter_nil_contains, List.filter_nil, wrap, List.foldl_nil, ihl, ihr]
  | sub l r ihl ihr =>
    intro n
    simp only [desugarE, plainE, filter_nil_contains, List.filter_nil, wrap, List.foldl_nil, ihl, ihr]
  | mul l r ihl ihr =>
    intro n
    simp only [desugarE, plainE, filter_nil_contains, List.filter_nil, wrap, List.foldl_nil, ihl, ihr]

theorem indexesOf_srcOk (i tname : String) (formats : Formats) (e : SExpr)
    (h : srcOk i tname formats e = true) : ∀ x ∈ indexesOf e, x = i := by
  induction e with
  | int v => intro x hx; simp [indexesOf] at hx
  | flt v => intro x hx; simp [indexesOf] at hx
  | tensor name idx =>
    intro x hx
    simp only [srcOk, Bool.and_eq_true, beq_iff_eq] at h
    simp only [indexesOf, mem_dedup, h.1.1, List.mem_singleton] at hx
    exact hx
  | add l r ihl ihr =>
    intro x hx
    simp only [srcOk, Bool.and_eq_true] at h
    simp only [indexesOf, mem_dedup, List.mem_append] at hx
    exact hx.elim (ihl h.1 x) (ihr h.2 x)
  | sub l r ihl ihr =>
    intro x hx
    simp only [srcOk, Bool.and_eq_true] at h
    simp only [indexesOf, mem_dedup, List.mem_append] at hx
    exact hx.elim (ihl h.1 x) (ihr h.2 x)
  | mul l r ihl ihr =>
    intro x hx
    simp only [srcOk, Bool.and_eq_true] at h
    simp only [indexesOf, mem_dedup, List.mem_append] at hx
    exact hx.elim (ihl h.1 x) (ihr h.2 x)

/-- **`desugar` on the class**: no contraction index, the right-hand side is translated plainly -/
theorem desugar_eq (a : Assign) (i : String) (formats : Formats) (hidx : a.tidx = [i])
    (h : srcOk i a.tname formats a.rhs = true) :
    desugar a = ⟨a.tname, [i], (plainE a.rhs 1).1⟩ := by
  have hc : (dedup (a.tidx ++ indexesOf a.rhs)).filter (fun x => !a.tidx.contains x) = [] := by
    apply List.filter_eq_nil_iff.2
    intro x hx
    simp only [mem_dedup, List.mem_append, hidx, List.mem_singleton] at hx
    have : x = i := hx.elim id (indexesOf_srcOk i a.tname formats a.rhs h x)
    simp [hidx, this]
  rw [hidx] at hc
  simp only [desugar, hidx, hc, desugarE_nil]

theorem plainE_dOk (i tname : String) (formats : Formats) (e : SExpr)
    (h : srcOk i tname formats e = true) : ∀ n, dOk i tname formats (plainE e n).1 = true := by
  induction e with
  | int v => intro n; rfl
  | flt v => intro n; rfl
  | tensor name idx => intro n; exact h
  | add l r ihl ihr =>
    intro n
    simp only [srcOk, Bool.and_eq_true] at h
    simp only [plainE, dOk, ihl h.1, ihr h.2, Bool.and_self]
  | sub l r ihl ihr =>
    intro n
    simp only [srcOk, Bool.and_eq_true] at h
    simp only [plainE, dOk, ihl h.1, ihr h.2, Bool.and_self]
  | mul l r ihl ihr =>
    intro n
    simp only [srcOk, Bool.and_eq_true] at h
    simp only [plainE, dOk, ihl h.1, ihr h.2, Bool.and_self]

/-- the class never triggers the known defect of the desugaring pass -/
theorem productHoistUnsafe_srcOk (i tname : String) (formats : Formats) (e : SExpr)
    (h : srcOk i tname formats e = true) : productHoistUnsafe [i] e = false := by
  induction e with
  | int v => rfl
  | flt v => rfl
  | tensor name idx => rfl
  | add l r ihl ihr =>
    simp only [srcOk, Bool.and_eq_true] at h
    simp only [productHoistUnsafe, ihl h.1, ihr h.2, Bool.or_self]
  | sub l r ihl ihr =>
    simp only [srcOk, Bool.and_eq_true] at h
    simp only [productHoistUnsafe, ihl h.1, ihr h.2, Bool.or_self]
  | mul l r ihl ihr =>
    simp only [srcOk, Bool.and_eq_true] at h
    have hs : ((indexesOf l).filter (indexesOf r).contains).filter (fun x => !([i] : List String).contains x) = [] := by
      apply List.filter_eq_nil_iff.2
      intro x hx
      have : x = i := indexesOf_srcOk i tname formats l h.1 x (List.mem_filter.1 hx).1
      simp [this]
    simp only [productHoistUnsafe, hs, List.any_nil, ihl h.1, ihr h.2, Bool.or_self]

end TV.Pipe1
