import TensoraVerif.Lemmas.Pipe1Class

/-!
C01, full pipeline for dense element-wise vector assignments, part 2: the candidate graphs of the
class. `graphsOf` returns exactly one candidate for every tree of the class (`graphsOf_eq`): the bare
terminal if there is no tensor, otherwise one contraction-free loop over `i` around the terminal;
`mergeAdd`/`mergeMultiply` of two such graphs give one such graph (`mergeWith_cand`),
`mergeAssignment` with the target puts the output on the loop (`mergeAssignment_cand`), hence
`toIterationGraphs` returns exactly `[.iter i (some ⟨out, 0⟩) (.terminal e)]`.
-/
namespace TV.Pipe1
open TV.Alg TV.Graph

/-- the single candidate graph of a tree of the class -/
def cand (i : String) (b : Bool) (e : IdExpr) : IGraph :=
  if b then .iter i none (.terminal e) else .terminal e

/-- merging the single-loop graphs of two operands: one single-loop graph -/
theorem mergeWith_cand (op : IdExpr → IdExpr → IdExpr) (i : String) (bl br : Bool) (x y : IdExpr) :
    mergeWith op ((cand i bl x).size + (cand i br y).size + 1) (cand i bl x) (cand i br y) =
      [cand i (bl || br) (op x y)] := by
  cases bl <;> cases br <;> simp [cand, IGraph.size, mergeWith]

theorem mergeAdd_cand (i : String) (bl br : Bool) (x y : IdExpr) :
    mergeAdd (cand i bl x) (cand i br y) = [cand i (bl || br) (.add x y)] :=
  mergeWith_cand .add i bl br x y

theorem mergeMultiply_cand (i : String) (bl br : Bool) (x y : IdExpr) :
    mergeMultiply (cand i bl x) (cand i br y) = [cand i (bl || br) (.mul x y)] :=
  mergeWith_cand .mul i bl br x y

/-- weaving the target loop into the single-loop graph of the right-hand side -/
theorem mergeAssignment_cand (i : String) (out : TensorId) (o : Option Leaf) (t : IdExpr) (b : Bool)
    (x : IdExpr) :
    mergeAssignment [(i, ⟨out, 0⟩)] ((IGraph.iter i o (.terminal t)).size + (cand i b x).size + 1)
      (.iter i o (.terminal t)) (cand i b x) = [.iter i (some ⟨out, 0⟩) (.terminal x)] := by
  cases b <;> simp [cand, IGraph.size, mergeAssignment, layerOf]

theorem legalIterationOrders_dense1 : legalIterationOrders [Mode.dense] = [[0]] := by decide

/-- the format entry of a tensor of the class -/
theorem tensorId_eq (formats : Formats) (id : Nat) (name : String)
    (hm : isD formats name = true) (i : String) :
    tensorId id name formats [i] = some ⟨toString id ++ "_" ++ name, name, [i], [.dense]⟩ := by
  unfold isD at hm
  unfold tensorId
  cases hfind : formats.find? (·.1 == name) with
  | none => simp [hfind] at hm
  | some f =>
    obtain ⟨n, modes, ord⟩ := f
    simp only [hfind, Bool.and_eq_true, beq_iff_eq] at hm
    obtain ⟨rfl, rfl⟩ := hm
    simp

/-- a tensor with format `d` is named in the table -/
theorem isD_mem (formats : Formats) (name : String) (hm : isD formats name = true) :
    name ∈ formats.map (·.1) := by
  unfold isD at hm
  cases hfind : formats.find? (·.1 == name) with
  | none => simp [hfind] at hm
  | some f =>
    have h1 := List.mem_of_find?_eq_some hfind
    have h2 := List.find?_some hfind
    simp only [beq_iff_eq] at h2
    exact List.mem_map.2 ⟨f, h1, h2⟩

theorem containsContraction_dOk (i tname : String) (formats : Formats) (d : DExpr)
    (h : dOk i tname formats d = true) : containsContraction d = false := by
  induction d with
  | int v => rfl
  | flt v => rfl
  | tensor id name idx => rfl
  | add l r ihl ihr =>
    simp only [dOk, Bool.and_eq_true] at h
    simp only [containsContraction, ihl h.1, ihr h.2, Bool.or_self]
  | mul l r ihl ihr =>
    simp only [dOk, Bool.and_eq_true] at h
    simp only [containsContraction, ihl h.1, ihr h.2, Bool.or_self]
  | contract j e ih => simp [dOk] at h

/-- **the candidates of a right-hand side of the class**: exactly one -/
theorem graphsOf_eq (i tname : String) (formats : Formats) (d : DExpr)
    (h : dOk i tname formats d = true) :
    graphsOf formats d = .ok [cand i (hasT d) (toId i d)] := by
  induction d with
  | int v => rfl
  | flt v => rfl
  | tensor id name idx =>
    simp only [dOk, Bool.and_eq_true, beq_iff_eq] at h
    obtain ⟨⟨rfl, _⟩, hm⟩ := h
    simp only [graphsOf, tensorId_eq formats id name hm i, hasDup, List.contains_nil, Bool.or_self,
      legalIterationOrders_dense1]
    rfl
  | add l r ihl ihr =>
    have hc := containsContraction_dOk i tname formats _ h
    simp only [dOk, Bool.and_eq_true] at h
    simp only [containsContraction, Bool.or_eq_false_iff] at hc
    simp only [graphsOf, ihl h.1, ihr h.2, hc.1, hc.2, bind, Except.bind, pure, Except.pure,
      List.isEmpty_cons, Bool.false_eq_true, if_false, Bool.or_self, Bool.not_false, if_true,
      List.flatMap_cons, List.flatMap_nil, List.append_nil, mergeAdd_cand, hasT, toId]
  | mul l r ihl ihr =>
    simp only [dOk, Bool.and_eq_true] at h
    simp only [graphsOf, ihl h.1, ihr h.2, bind, Except.bind, pure, Except.pure,
      List.isEmpty_cons, Bool.false_eq_true, if_false,
      List.flatMap_cons, List.flatMap_nil, List.append_nil, mergeMultiply_cand, hasT, toId]
  | contract j e ih => simp [dOk] at h

/-- the output tensor as the graph builder names it -/
def outId (tname i : String) : TensorId := ⟨"0_" ++ tname, tname, [i], [.dense]⟩

theorem tensorId_out (formats : Formats) (tname : String)
    (hm : isD formats tname = true) (i : String) :
    tensorId 0 tname formats [i] = some (outId tname i) :=
  tensorId_eq formats 0 tname hm i

/-- **the candidates of an assignment of the class**: exactly one, the graph of `Dense1` -/
theorem toIterationGraphs_eq (i tname : String) (formats : Formats)
    (hm : isD formats tname = true) (d : DExpr) (h : dOk i tname formats d = true) :
    toIterationGraphs ⟨tname, [i], d⟩ formats =
      .ok [.iter i (some ⟨outId tname i, 0⟩) (.terminal (toId i d))] := by
  have ht : graphsOf formats (.tensor 0 tname [i]) =
      .ok [.iter i none (.terminal (.tensor (outId tname i)))] := by
    simp only [graphsOf, tensorId_out formats tname hm i, outId, hasDup, List.contains_nil,
      Bool.or_self, legalIterationOrders_dense1]
    rfl
  have hl : (List.range (outId tname i).indexes.length).map
      (fun l => ((outId tname i).indexes.getD l "", (⟨outId tname i, l⟩ : Leaf))) =
      [(i, ⟨outId tname i, 0⟩)] := by
    simp [outId, List.range, List.range.loop]
  unfold toIterationGraphs
  simp only [tensorId_out formats tname hm i, hl, ht, graphsOf_eq i tname formats d h, bind,
    Except.bind, pure, Except.pure, List.isEmpty_cons, Bool.false_eq_true, if_false,
    List.flatMap_cons, List.flatMap_nil, List.append_nil, mergeAssignment_cand]

end TV.Pipe1
