import TensoraVerif.Lemmas.Pipe1Value

/-!
C01, full pipeline for dense element-wise vector assignments, part 4: the class `Dense1Source` of
source assignments, the naming side conditions `Dense1Names`, and the hypotheses of the kernel
theorem of `Dense1` derived from them.
-/
namespace TV.Pipe1
open TV.IR TV.Alg TV.Graph TV.Dense1

/-- **The class of source assignments** `out(i) = rhs`: the target has the single index `i`; the
right-hand side is built from `add`/`sub`/`mul`, integer and float literals and references `t(i)`
(exactly the index `i`) to tensors other than the target (`srcOk`); the target and every tensor of the
right-hand side have the format `d` (modes `[dense]`, ordering `[0]`) in the format table (`isD`). -/
structure Dense1Source (a : Assign) (formats : Formats) (i : String) : Prop where
  tidx : a.tidx = [i]
  rhs : srcOk i a.tname formats a.rhs = true
  out : isD formats a.tname = true

/-- **Side conditions of the machine theorem on the format table** (the kernel has one parameter per
entry and unpacks every one): every entry, used or not, is the format `d`; no tensor name and not the
index name contains `'_'` (every name the parser admits is alphanumeric); the index is not a tensor
name. -/
structure Dense1Names (formats : Formats) (i : String) : Prop where
  fmts : fmtsD formats = true
  names : ∀ f ∈ formats, '_' ∉ f.1.toList
  idx : '_' ∉ i.toList
  idxTensor : i ∉ formats.map (·.1)

/-- the terminal expression of the kernel: the image of the right-hand side under the identifier
assignment of the pipeline (tensors numbered left to right from 1, `l - r` as `l + (-1) * r`) -/
def rhsId (a : Assign) (i : String) : IdExpr := toId i (plainE a.rhs 1).1

theorem Dense1Source.dOk {a : Assign} {formats : Formats} {i : String} (hc : Dense1Source a formats i) :
    dOk i a.tname formats (plainE a.rhs 1).1 = true :=
  plainE_dOk i a.tname formats a.rhs hc.rhs 1

theorem Dense1Source.desugar {a : Assign} {formats : Formats} {i : String} (hc : Dense1Source a formats i) :
    desugar a = ⟨a.tname, [i], (plainE a.rhs 1).1⟩ :=
  desugar_eq a i formats hc.tidx hc.rhs

theorem Dense1Source.kernelOK {a : Assign} {formats : Formats} {i : String}
    (hc : Dense1Source a formats i) (hn : Dense1Names formats i) :
    KernelOK formats i (outId a.tname i) (rhsId a i) :=
  ⟨hn.idx, hn.names, hn.idxTensor, isD_mem formats a.tname hc.out, fun t ht =>
    (leaves_toId i a.tname formats _ hc.dOk t ht).2.2⟩

theorem Dense1Source.nameOf_leaf {a : Assign} {formats : Formats} {i : String}
    (hc : Dense1Source a formats i) : ∀ t ∈ leaves (rhsId a i), nameOf t.id = t.name := by
  intro t ht
  obtain ⟨⟨k, hk⟩, _⟩ := leaves_toId i a.tname formats _ hc.dOk t ht
  rw [hk, nameOf_id]

end TV.Pipe1
