import TensoraVerif.Lemmas.Pipe1Graphs
import TensoraVerif.Lemmas.Dense1Exact

/-!
C01, full pipeline for dense element-wise vector assignments, part 3: the meaning of the terminal
expression. `nameOf` recovers the tensor name from an identifier `<k>_<name>`; `Graph.value` and
`Dense1.valueF` of the terminal `toId i d` are the meaning `denoteD` of the desugared tree
(`value_toId`) resp. the float meaning of the source expression (`valueF_toId`); and the side
conditions of the kernel theorem of `Dense1` hold on the class.
-/
namespace TV.Pipe1
open TV.IR TV.Alg TV.Graph TV.Dense1

/-- the tensor name in an identifier `<k>_<name>`: everything after the first `'_'` -/
def nameOf (id : String) : String := String.ofList ((id.toList.dropWhile (· != '_')).drop 1)

theorem underscore_not_mem_toString (n : Nat) : '_' ∉ (toString n).toList := by
  show '_' ∉ (Nat.repr n).toList
  rw [Nat.toList_repr]
  intro h
  have := Nat.isDigit_of_mem_toDigits (by decide) (by decide) h
  revert this; decide

theorem dropWhile_ne_append (xs ys : List Char) (h : '_' ∉ xs) :
    (xs ++ '_' :: ys).dropWhile (· != '_') = '_' :: ys := by
  induction xs with
  | nil => simp
  | cons x xs ih =>
    have hx : x ≠ '_' := fun e => h (by simp [e])
    simp only [List.cons_append, List.dropWhile_cons, bne_iff_ne, ne_eq, hx, not_false_eq_true,
      if_true]
    exact ih (fun hm => h (by simp [hm]))

/-- `nameOf` inverts the naming scheme of `tensorId`, whatever the name -/
theorem nameOf_id (k : Nat) (name : String) : nameOf (toString k ++ "_" ++ name) = name := by
  unfold nameOf
  have e : ("_" : String).toList = ['_'] := rfl
  simp only [String.toList_append, e, List.append_assoc, List.cons_append, List.nil_append]
  rw [dropWhile_ne_append _ _ (underscore_not_mem_toString k)]
  simp [String.ofList_toList]

/-- the float meaning of a source expression (association of the tree, `l - r` read as
`l + (-1) * r`, tensor `t` at the current coordinate is `ρ t`) -/
def denoteF {F : Type} [FloatOps F] (ofRat : Rat → F) (ρ : String → F) : SExpr → F
  | .int v => ofRat v
  | .flt q => ofRat q
  | .tensor n _ => ρ n
  | .add l r => FloatOps.add (denoteF ofRat ρ l) (denoteF ofRat ρ r)
  | .sub l r => FloatOps.add (denoteF ofRat ρ l)
      (FloatOps.mul (ofRat ((-1 : Int) : Rat)) (denoteF ofRat ρ r))
  | .mul l r => FloatOps.mul (denoteF ofRat ρ l) (denoteF ofRat ρ r)

/-- the float meaning of the terminal expression is the float meaning of the source -/
theorem valueF_toId {F : Type} [FloatOps F] (ofRat : Rat → F) (ρ : String → F) (i : String) (e : SExpr) :
    ∀ n, valueF ofRat (fun t => ρ t.name) (toId i (plainE e n).1) = denoteF ofRat ρ e := by
  induction e with
  | int v => intro n; rfl
  | flt v => intro n; rfl
  | tensor name idx => intro n; rfl
  | add l r ihl ihr => intro n; simp only [plainE, toId, valueF, denoteF, ihl, ihr]
  | sub l r ihl ihr => intro n; simp only [plainE, toId, valueF, denoteF, ihl, ihr]
  | mul l r ihl ihr => intro n; simp only [plainE, toId, valueF, denoteF, ihl, ihr]

/-- **the terminal expression means what the desugared tree means** at coordinate `j` -/
theorem value_toId (inp : Inputs) (sz : Sizes) (i tname : String) (formats : Formats) (j : Nat)
    (d : DExpr) (h : dOk i tname formats d = true) :
    value (fun id => inp (nameOf id) [j]) (toId i d) = denoteD inp sz d [(i, j)] := by
  induction d with
  | int v => rfl
  | flt v => rfl
  | tensor id name idx =>
    simp only [dOk, Bool.and_eq_true, beq_iff_eq] at h
    obtain ⟨⟨rfl, _⟩, _⟩ := h
    simp only [toId, value, nameOf_id, denoteD]
    simp [Env.get]
  | add l r ihl ihr =>
    simp only [dOk, Bool.and_eq_true] at h
    simp only [toId, value, denoteD, ihl h.1, ihr h.2]
  | mul l r ihl ihr =>
    simp only [dOk, Bool.and_eq_true] at h
    simp only [toId, value, denoteD, ihl h.1, ihr h.2]
  | contract k e ih => simp [dOk] at h

/-! ### the side conditions of the kernel theorem -/

/-- every tensor occurrence of the terminal expression is `<k>_<name>`, order 1, dense, indexed by
`i`, named in the format table and different from the target -/
theorem leaves_toId (i tname : String) (formats : Formats) (d : DExpr) (h : dOk i tname formats d = true) :
    ∀ t ∈ leaves (toId i d), (∃ k : Nat, t.id = toString k ++ "_" ++ t.name) ∧ isLeaf i t = true ∧
      t.name ∈ formats.map (·.1) ∧ t.name ≠ tname := by
  induction d with
  | int v => intro t ht; simp [toId, leaves] at ht
  | flt v => intro t ht; simp [toId, leaves] at ht
  | tensor id name idx =>
    intro t ht
    simp only [toId, leaves, List.mem_singleton] at ht
    subst ht
    simp only [dOk, Bool.and_eq_true, beq_iff_eq, bne_iff_ne, ne_eq] at h
    exact ⟨⟨id, rfl⟩, by simp [isLeaf], isD_mem formats name h.2, h.1.2⟩
  | add l r ihl ihr =>
    intro t ht
    simp only [dOk, Bool.and_eq_true] at h
    simp only [toId, leaves, List.mem_append] at ht
    exact ht.elim (ihl h.1 t) (ihr h.2 t)
  | mul l r ihl ihr =>
    intro t ht
    simp only [dOk, Bool.and_eq_true] at h
    simp only [toId, leaves, List.mem_append] at ht
    exact ht.elim (ihl h.1 t) (ihr h.2 t)
  | contract k e ih => simp [dOk] at h

theorem isExpr_toId (i tname : String) (formats : Formats) (d : DExpr) (h : dOk i tname formats d = true) :
    isExpr i (toId i d) = true :=
  List.all_eq_true.2 fun t ht => (leaves_toId i tname formats d h t ht).2.1

theorem rhsIdx_dOk (i tname : String) (formats : Formats) (d : DExpr) (h : dOk i tname formats d = true) :
    rhsIdx i d = true := by
  induction d with
  | int v => rfl
  | flt v => rfl
  | tensor id name idx =>
    simp only [dOk, Bool.and_eq_true, beq_iff_eq] at h
    simp [rhsIdx, h.1.1]
  | add l r ihl ihr =>
    simp only [dOk, Bool.and_eq_true] at h
    simp only [rhsIdx, ihl h.1, ihr h.2, Bool.and_self]
  | mul l r ihl ihr =>
    simp only [dOk, Bool.and_eq_true] at h
    simp only [rhsIdx, ihl h.1, ihr h.2, Bool.and_self]
  | contract k e ih => simp [dOk] at h

theorem denseFormats_of_fmtsD (formats : Formats) (h : fmtsD formats = true) :
    denseFormats formats = true := by
  apply List.all_eq_true.2
  intro f hf
  have := List.all_eq_true.1 h f hf
  simp only [Bool.and_eq_true] at this
  exact this.1

end TV.Pipe1
