import TensoraVerif.Lemmas.Pipe1Class
import TensoraVerif.Lemmas.DesugarCorrect

/-!
C01, full pipeline for the dense matrix–vector class (front half of `Props/C01Dense2.lean`), part 1:
the loop-order shape `Sh` of an expression, the source-level class condition `shapeS`, and what
`desugar` does on the class: exactly ONE contraction `j` is placed, on a path of products from the
root (`oneC`), and erasing it (`strip`) gives the plain translation `plainE` (same occurrence numbers).
-/
namespace TV.Pipe2
open TV.Alg TV.Graph TV.Pipe1

/-! ### shapes -/

/-- the loop nest of the FIRST candidate graph of an expression: no loop (`T`, literals only), a loop
over `i` (`I`), a loop over `j` (`J`), or `i` outside `j` (`IJ`) -/
inductive Sh where
  | T | I | J | IJ
  deriving DecidableEq, Repr, Inhabited

/-- the loop nest of the first candidate of `l op r`, from those of `l` and `r`. `J` followed by `I`
(e.g. `c(j) * d(i)`) would give `j` outside `i` — not the graph of `Dense2`: excluded. -/
def Sh.merge : Sh → Sh → Option Sh
  | .T, s => some s
  | s, .T => some s
  | .I, .I => some .I
  | .J, .J => some .J
  | .I, .J => some .IJ
  | .J, .I => none
  | .IJ, _ => some .IJ
  | _, .IJ => some .IJ

/-- the format table gives tensor `name` the format `dd`: two dense levels, identity ordering -/
def isDD (formats : Formats) (name : String) : Bool :=
  match formats.find? (·.1 == name) with
  | some (_, modes, ordering) => modes == [Mode.dense, Mode.dense] && ordering == [0, 1]
  | none => false

/-- the kind of a tensor reference: `B(i,j)` with `B ↦ dd`, `c(j)` or `d(i)` with `c, d ↦ d`; the
target must not occur -/
def leafSh (i j tname : String) (formats : Formats) (name : String) (idx : List String) : Option Sh :=
  if name == tname then none
  else if idx == [i, j] && isDD formats name then some .IJ
  else if idx == [j] && isD formats name then some .J
  else if idx == [i] && isD formats name then some .I
  else none

/-- **the shape of a source expression**; `none` outside the class: a tensor reference that is not of
one of the three kinds or is the target, a literal `0` (the kernel theorem of `Dense2` excludes
sparse terminals), or a `J`-shaped operand followed by an `I`-shaped one -/
def shapeS (i j tname : String) (formats : Formats) : SExpr → Option Sh
  | .int v => if v == 0 then none else some .T
  | .flt v => if v == 0 then none else some .T
  | .tensor n idx => leafSh i j tname formats n idx
  | .add l r => (shapeS i j tname formats l).bind fun a => (shapeS i j tname formats r).bind fun b => a.merge b
  | .sub l r => (shapeS i j tname formats l).bind fun a => (shapeS i j tname formats r).bind fun b => a.merge b
  | .mul l r => (shapeS i j tname formats l).bind fun a => (shapeS i j tname formats r).bind fun b => a.merge b

/-- the shape of a desugared tree (contractions are transparent) -/
def shapeD (i j tname : String) (formats : Formats) : DExpr → Option Sh
  | .int v => if v == 0 then none else some .T
  | .flt v => if v == 0 then none else some .T
  | .tensor _ n idx => leafSh i j tname formats n idx
  | .add l r => (shapeD i j tname formats l).bind fun a => (shapeD i j tname formats r).bind fun b => a.merge b
  | .mul l r => (shapeD i j tname formats l).bind fun a => (shapeD i j tname formats r).bind fun b => a.merge b
  | .contract _ e => shapeD i j tname formats e

@[simp] theorem Sh.merge_T_left (s : Sh) : Sh.merge .T s = some s := by cases s <;> rfl
@[simp] theorem Sh.merge_T_right (s : Sh) : Sh.merge s .T = some s := by cases s <;> rfl

theorem shapeD_plainE (i j tname : String) (formats : Formats) (e : SExpr) :
    ∀ n, shapeD i j tname formats (plainE e n).1 = shapeS i j tname formats e := by
  induction e with
  | int v => intro n; rfl
  | flt v => intro n; rfl
  | tensor name idx => intro n; rfl
  | add l r ihl ihr => intro n; simp only [plainE, shapeD, shapeS, ihl, ihr]
  | sub l r ihl ihr =>
    intro n
    simp only [plainE, shapeD, shapeS, ihl, ihr]
    cases shapeS i j tname formats l <;> cases shapeS i j tname formats r <;> simp
  | mul l r ihl ihr => intro n; simp only [plainE, shapeD, shapeS, ihl, ihr]

/-! ### erasing contractions -/

/-- the tree without its contraction nodes -/
def strip : DExpr → DExpr
  | .int v => .int v
  | .flt v => .flt v
  | .tensor id n idx => .tensor id n idx
  | .add l r => .add (strip l) (strip r)
  | .mul l r => .mul (strip l) (strip r)
  | .contract _ e => strip e

theorem strip_wrap : ∀ (h : List String) (e : DExpr), strip (wrap h e) = strip e := by
  intro h
  induction h with
  | nil => intro e; rfl
  | cons i h ih => intro e; exact (ih (.contract i e)).trans rfl

theorem containsContraction_plainE (e : SExpr) : ∀ n, containsContraction (plainE e n).1 = false := by
  induction e with
  | int v => intro n; rfl
  | flt v => intro n; rfl
  | tensor name idx => intro n; rfl
  | add l r ihl ihr => intro n; simp only [plainE, containsContraction, ihl, ihr, Bool.or_self]
  | sub l r ihl ihr => intro n; simp only [plainE, containsContraction, ihl, ihr, Bool.or_self]
  | mul l r ihl ihr => intro n; simp only [plainE, containsContraction, ihl, ihr, Bool.or_self]

theorem strip_of_plain (d : DExpr) (h : containsContraction d = false) : strip d = d := by
  induction d with
  | int v => rfl
  | flt v => rfl
  | tensor id name idx => rfl
  | add l r ihl ihr =>
    simp only [containsContraction, Bool.or_eq_false_iff] at h
    simp only [strip, ihl h.1, ihr h.2]
  | mul l r ihl ihr =>
    simp only [containsContraction, Bool.or_eq_false_iff] at h
    simp only [strip, ihl h.1, ihr h.2]
  | contract k e ih => simp [containsContraction] at h

theorem desugarE_add_snd (l r : SExpr) (c : List String) (n : Nat) :
    (desugarE (.add l r) c n).2 = (desugarE r (restOf r c (hoistAdd l r c))
      (desugarE l (restOf l c (hoistAdd l r c)) n).2).2 := rfl
theorem desugarE_sub_snd (l r : SExpr) (c : List String) (n : Nat) :
    (desugarE (.sub l r) c n).2 = (desugarE r (restOf r c (hoistAdd l r c))
      (desugarE l (restOf l c (hoistAdd l r c)) n).2).2 := rfl
theorem desugarE_mul_snd (l r : SExpr) (c : List String) (n : Nat) :
    (desugarE (.mul l r) c n).2 = (desugarE r (restOf r c (hoistMul l r c))
      (desugarE l (restOf l c (hoistMul l r c)) n).2).2 := rfl

/-- **wherever the contractions are placed, erasing them gives the plain translation**, with the same
occurrence numbers (every source expression, every list of pending contraction indexes) -/
theorem desugarE_strip (e : SExpr) : ∀ (c : List String) (n : Nat),
    strip (desugarE e c n).1 = (plainE e n).1 ∧ (desugarE e c n).2 = (plainE e n).2 := by
  induction e with
  | int v => intro c n; exact ⟨rfl, rfl⟩
  | flt v => intro c n; exact ⟨rfl, rfl⟩
  | tensor name idx => intro c n; exact ⟨strip_wrap c _, rfl⟩
  | add l r ihl ihr =>
    intro c n
    rw [desugarE_add, desugarE_add_snd, strip_wrap]
    simp only [strip, (ihl _ n).1, (ihl _ n).2, (ihr _ _).1, (ihr _ _).2, plainE, and_self]
  | sub l r ihl ihr =>
    intro c n
    rw [desugarE_sub, desugarE_sub_snd, strip_wrap]
    simp only [strip, (ihl _ n).1, (ihl _ n).2, (ihr _ _).1, (ihr _ _).2, plainE, and_self]
  | mul l r ihl ihr =>
    intro c n
    rw [desugarE_mul, desugarE_mul_snd, strip_wrap]
    simp only [strip, (ihl _ n).1, (ihl _ n).2, (ihr _ _).1, (ihr _ _).2, plainE, and_self]

/-! ### where `desugar` places the contraction -/

/-- some tensor reference of the tree uses the index `j` -/
def mentions (j : String) : DExpr → Bool
  | .int _ => false
  | .flt _ => false
  | .tensor _ _ idx => idx.contains j
  | .add l r => mentions j l || mentions j r
  | .mul l r => mentions j l || mentions j r
  | .contract _ e => mentions j e

/-- the tree has exactly ONE contraction node, `Σ_j`, over a contraction-free subtree, and the path
from the root to it goes through products whose other operand is contraction-free and does not
mention `j` -/
def oneC (j : String) : DExpr → Bool
  | .contract k e => k == j && !containsContraction e
  | .mul l r => (oneC j l && !containsContraction r && !mentions j r) ||
      (!containsContraction l && !mentions j l && oneC j r)
  | _ => false

theorem mentions_plainE (j : String) (e : SExpr) :
    ∀ n, mentions j (plainE e n).1 = (indexesOf e).contains j := by
  induction e with
  | int v => intro n; rfl
  | flt v => intro n; rfl
  | tensor name idx =>
    intro n
    simp only [plainE, mentions, indexesOf]
    rw [Bool.eq_iff_iff]; simp
  | add l r ihl ihr =>
    intro n
    simp only [plainE, mentions, indexesOf, ihl, ihr]
    rw [Bool.eq_iff_iff]; simp
  | sub l r ihl ihr =>
    intro n
    simp only [plainE, mentions, indexesOf, ihl, ihr]
    rw [Bool.eq_iff_iff]; simp
  | mul l r ihl ihr =>
    intro n
    simp only [plainE, mentions, indexesOf, ihl, ihr]
    rw [Bool.eq_iff_iff]; simp

theorem inEveryTerm_sub_indexesOf (e : SExpr) : ∀ x ∈ inEveryTerm e, x ∈ indexesOf e := by
  induction e with
  | int v => intro x hx; simp [inEveryTerm] at hx
  | flt v => intro x hx; simp [inEveryTerm] at hx
  | tensor name idx => intro x hx; exact hx
  | add l r ihl ihr =>
    intro x hx
    simp only [inEveryTerm, List.mem_filter] at hx
    simp only [indexesOf, mem_dedup, List.mem_append]
    exact Or.inl (ihl x hx.1)
  | sub l r ihl ihr =>
    intro x hx
    simp only [inEveryTerm, List.mem_filter] at hx
    simp only [indexesOf, mem_dedup, List.mem_append]
    exact Or.inl (ihl x hx.1)
  | mul l r ihl ihr =>
    intro x hx
    simp only [inEveryTerm, mem_dedup, List.mem_append] at hx
    simp only [indexesOf, mem_dedup, List.mem_append]
    exact hx.elim (fun h => Or.inl (ihl x h)) (fun h => Or.inr (ihr x h))

theorem filter_single_not_mem {j : String} : ∀ {xs : List String}, j ∉ xs →
    xs.filter [j].contains = []
  | [], _ => rfl
  | x :: xs, h => by
    have hx : x ≠ j := fun e => h (by simp [e])
    have hxs : j ∉ xs := fun hm => h (by simp [hm])
    simp [hx, filter_single_not_mem hxs]

theorem filter_single_mem {j : String} : ∀ {xs : List String}, xs.Nodup → j ∈ xs →
    xs.filter [j].contains = [j]
  | [], _, h => by simp at h
  | x :: xs, hn, h => by
    rw [List.nodup_cons] at hn
    by_cases hx : x = j
    · subst hx
      simp [filter_single_not_mem hn.1]
    · have hxs : j ∈ xs := by
        rcases List.mem_cons.1 h with h | h
        · exact (hx h.symm).elim
        · exact h
      simp [hx, filter_single_mem hn.2 hxs]

theorem ownOf_single_mem {j : String} {e : SExpr} (h : j ∈ indexesOf e) : ownOf e [j] = [j] :=
  filter_single_mem (nodup_indexesOf e) h
theorem ownOf_single_not_mem {j : String} {e : SExpr} (h : j ∉ indexesOf e) : ownOf e [j] = [] :=
  filter_single_not_mem h

/-- **the placement of the contraction.** If every additive term of `e` contains `j`, desugaring
`e` with the single pending contraction index `j` places exactly one `Σ_j`, on a path of products -/
theorem desugarE_oneC (j : String) (e : SExpr) :
    (inEveryTerm e).contains j = true → ∀ n, oneC j (desugarE e [j] n).1 = true := by
  induction e with
  | int v => intro h; simp [inEveryTerm] at h
  | flt v => intro h; simp [inEveryTerm] at h
  | tensor name idx => intro _ n; simp [desugarE, wrap, oneC, containsContraction]
  | add l r ihl ihr =>
    intro h n
    simp only [inEveryTerm, List.contains_iff_mem, List.mem_filter] at h
    have hl := ownOf_single_mem (inEveryTerm_sub_indexesOf l j h.1)
    have hr := ownOf_single_mem (inEveryTerm_sub_indexesOf r j h.2)
    have hh : hoistAdd l r [j] = [j] := by
      simp only [hoistAdd, hl, hr]
      simp [h.1, h.2]
    rw [desugarE_add]
    simp only [restOf, hh, hl, hr]
    simp [wrap, oneC, containsContraction, desugarE_nil, containsContraction_plainE]
  | sub l r ihl ihr =>
    intro h n
    simp only [inEveryTerm, List.contains_iff_mem, List.mem_filter] at h
    have hl := ownOf_single_mem (inEveryTerm_sub_indexesOf l j h.1)
    have hr := ownOf_single_mem (inEveryTerm_sub_indexesOf r j h.2)
    have hh : hoistAdd l r [j] = [j] := by
      simp only [hoistAdd, hl, hr]
      simp [h.1, h.2]
    rw [desugarE_sub]
    simp only [restOf, hh, hl, hr]
    simp [wrap, oneC, containsContraction, desugarE_nil, containsContraction_plainE]
  | mul l r ihl ihr =>
    intro h n
    simp only [inEveryTerm, List.contains_iff_mem, mem_dedup, List.mem_append] at h
    rw [desugarE_mul]
    by_cases hjl : j ∈ indexesOf l
    · by_cases hjr : j ∈ indexesOf r
      · have hl := ownOf_single_mem hjl
        have hr := ownOf_single_mem hjr
        have hh : hoistMul l r [j] = [j] := by simp [hoistMul, hl, hr]
        simp only [restOf, hh, hl, hr]
        simp [wrap, oneC, containsContraction, desugarE_nil, containsContraction_plainE]
      · have hl := ownOf_single_mem hjl
        have hr := ownOf_single_not_mem hjr
        have hh : hoistMul l r [j] = [] := by simp [hoistMul, hl, hr]
        have hel : (inEveryTerm l).contains j = true :=
          List.contains_iff_mem.2 (h.elim id (fun h' => (hjr (inEveryTerm_sub_indexesOf r j h')).elim))
        simp only [restOf, hh, hl, hr]
        have hm : mentions j (plainE r (desugarE l [j] n).2).1 = false := by
          rw [mentions_plainE]; exact Bool.eq_false_iff.2 (fun hc => hjr (List.contains_iff_mem.1 hc))
        simp [wrap, oneC, desugarE_nil, containsContraction_plainE, ihl hel n, hm]
    · have hjr : j ∈ indexesOf r :=
        h.elim (fun h' => (hjl (inEveryTerm_sub_indexesOf l j h')).elim) (inEveryTerm_sub_indexesOf r j)
      have hl := ownOf_single_not_mem hjl
      have hr := ownOf_single_mem hjr
      have hh : hoistMul l r [j] = [] := by simp [hoistMul, hl, hr]
      have her : (inEveryTerm r).contains j = true :=
        List.contains_iff_mem.2 (h.elim (fun h' => (hjl (inEveryTerm_sub_indexesOf l j h')).elim) id)
      simp only [restOf, hh, hl, hr]
      have hm : mentions j (plainE l n).1 = false := by
        rw [mentions_plainE]; exact Bool.eq_false_iff.2 (fun hc => hjl (List.contains_iff_mem.1 hc))
      simp [wrap, oneC, desugarE_nil, containsContraction_plainE, ihr her _, hm]

/-! ### `desugar` on the class -/

theorem indexesOf_shapeS (i j tname : String) (formats : Formats) (e : SExpr) :
    ∀ s, shapeS i j tname formats e = some s → ∀ x ∈ indexesOf e, x = i ∨ x = j := by
  induction e with
  | int v => intro s _ x hx; simp [indexesOf] at hx
  | flt v => intro s _ x hx; simp [indexesOf] at hx
  | tensor name idx =>
    intro s hs x hx
    simp only [indexesOf, mem_dedup] at hx
    simp only [shapeS, leafSh] at hs
    split at hs
    · cases hs
    · split at hs
      · rename_i h; simp only [Bool.and_eq_true, beq_iff_eq] at h; rw [h.1] at hx; simpa using hx
      · split at hs
        · rename_i h; simp only [Bool.and_eq_true, beq_iff_eq] at h; rw [h.1] at hx
          exact Or.inr (by simpa using hx)
        · split at hs
          · rename_i h; simp only [Bool.and_eq_true, beq_iff_eq] at h; rw [h.1] at hx
            exact Or.inl (by simpa using hx)
          · cases hs
  | add l r ihl ihr =>
    intro s hs x hx
    simp only [shapeS, Option.bind_eq_some_iff] at hs
    obtain ⟨a, ha, b, hb, _⟩ := hs
    simp only [indexesOf, mem_dedup, List.mem_append] at hx
    exact hx.elim (ihl a ha x) (ihr b hb x)
  | sub l r ihl ihr =>
    intro s hs x hx
    simp only [shapeS, Option.bind_eq_some_iff] at hs
    obtain ⟨a, ha, b, hb, _⟩ := hs
    simp only [indexesOf, mem_dedup, List.mem_append] at hx
    exact hx.elim (ihl a ha x) (ihr b hb x)
  | mul l r ihl ihr =>
    intro s hs x hx
    simp only [shapeS, Option.bind_eq_some_iff] at hs
    obtain ⟨a, ha, b, hb, _⟩ := hs
    simp only [indexesOf, mem_dedup, List.mem_append] at hx
    exact hx.elim (ihl a ha x) (ihr b hb x)

theorem filter_not_i_nil {i : String} {xs : List String} (h : ∀ x ∈ xs, x = i) :
    xs.filter (fun x => !([i] : List String).contains x) = [] := by
  apply List.filter_eq_nil_iff.2
  intro x hx
  simp [h x hx]

theorem filter_not_i_single {i j : String} (hij : i ≠ j) : ∀ {xs : List String}, xs.Nodup →
    (∀ x ∈ xs, x = i ∨ x = j) → j ∈ xs → xs.filter (fun x => !([i] : List String).contains x) = [j]
  | [], _, _, h => by simp at h
  | x :: xs, hn, hall, h => by
    rw [List.nodup_cons] at hn
    by_cases hx : x = j
    · subst hx
      have hrest : ∀ y ∈ xs, y = i := by
        intro y hy
        rcases hall y (List.mem_cons_of_mem _ hy) with e | e
        · exact e
        · exact (hn.1 (e ▸ hy)).elim
      rw [List.filter_cons, if_pos (by simp [Ne.symm hij]), filter_not_i_nil hrest]
    · have hxi : x = i := (hall x List.mem_cons_self).elim id (fun e => (hx e).elim)
      have hxs : j ∈ xs := by
        rcases List.mem_cons.1 h with h | h
        · exact (hx h.symm).elim
        · exact h
      rw [List.filter_cons, if_neg (by simp [hxi]),
        filter_not_i_single hij hn.2 (fun y hy => hall y (List.mem_cons_of_mem _ hy)) hxs]

/-- **`desugar` on the class**: the single contraction index is `j` -/
theorem desugar_eq2 (a : Assign) (i j : String) (formats : Formats) (hij : i ≠ j) (hidx : a.tidx = [i])
    (s : Sh) (hs : shapeS i j a.tname formats a.rhs = some s)
    (hj : (inEveryTerm a.rhs).contains j = true) :
    desugar a = ⟨a.tname, [i], (desugarE a.rhs [j] 1).1⟩ := by
  have hjm : j ∈ indexesOf a.rhs := inEveryTerm_sub_indexesOf _ j (List.contains_iff_mem.1 hj)
  have hc : (dedup ([i] ++ indexesOf a.rhs)).filter (fun x => !([i] : List String).contains x) = [j] := by
    apply filter_not_i_single hij (nodup_dedup _)
    · intro x hx
      simp only [mem_dedup, List.mem_append, List.mem_singleton] at hx
      exact hx.elim Or.inl (indexesOf_shapeS i j a.tname formats a.rhs s hs x)
    · simp [mem_dedup, hjm]
  simp only [desugar, hidx, hc]

end TV.Pipe2
