import TensoraVerif.Lemmas.Pipe2DenseClass
import TensoraVerif.Lemmas.Pipe1Graphs

/-!
C01, full pipeline for the dense matrix–vector class, part 2: the FIRST candidate graph.
`graphsOf` returns several candidates on this class (a `dd` tensor has two legal iteration orders, and
two operands with different loops can be woven in two ways), and `bestAlgorithm` takes the head of the
list. `graphsOf_head`: the head of the candidates of a contraction-free tree of shape `s` is the loop
nest `shGraph i j s` around the terminal `toId2 d`; `graphsOf_strip`: the contraction that `desugar`
places is transparent; `toIterationGraphs_head`: the head of the candidates of an assignment whose
right-hand side has shape `IJ` or `J` is the graph of `Dense2`.
-/
namespace TV.Pipe2
open TV.Alg TV.Graph TV.Pipe1

/-- the identifier assignment of `graphsOf` on the class: occurrence number `k` of tensor `name`
becomes the tensor `<k>_<name>`, all levels dense, indexed as in the source (identity ordering) -/
def toId2 : DExpr → IdExpr
  | .int v => .int v
  | .flt v => .flt v
  | .tensor id name idx => .tensor ⟨toString id ++ "_" ++ name, name, idx, idx.map fun _ => Mode.dense⟩
  | .add l r => .add (toId2 l) (toId2 r)
  | .mul l r => .mul (toId2 l) (toId2 r)
  | .contract _ e => toId2 e

/-- the loop nest of a shape around a terminal expression -/
def shGraph (i j : String) : Sh → IdExpr → IGraph
  | .T, e => .terminal e
  | .I, e => .iter i none (.terminal e)
  | .J, e => .iter j none (.terminal e)
  | .IJ, e => .iter i none (.iter j none (.terminal e))

theorem head?_flatMap_cons {α β : Type} (f : α → List β) (a : α) (as : List α) (g : β)
    (h : (f a).head? = some g) : ((a :: as).flatMap f).head? = some g := by
  cases hfa : f a with
  | nil => simp [hfa] at h
  | cons b bs =>
    simp only [hfa, List.head?_cons, Option.some.injEq] at h
    simp [List.flatMap_cons, hfa, h]

/-- **the first way of weaving two first candidates is the first candidate of the result** -/
theorem mergeWith_sh (op : IdExpr → IdExpr → IdExpr) (i j : String) (hij : i ≠ j) (sl sr s : Sh)
    (h : sl.merge sr = some s) (x y : IdExpr) :
    (mergeWith op ((shGraph i j sl x).size + (shGraph i j sr y).size + 1) (shGraph i j sl x)
      (shGraph i j sr y)).head? = some (shGraph i j s (op x y)) := by
  have e1 : (i == j) = false := beq_eq_false_iff_ne.2 hij
  have e2 : (j == i) = false := beq_eq_false_iff_ne.2 (Ne.symm hij)
  cases sl <;> cases sr <;> simp only [Sh.merge, Option.some.injEq, reduceCtorEq] at h <;> subst h <;>
    simp [shGraph, IGraph.size, mergeWith, IGraph.laterIndexes, e1, e2]

theorem legalIterationOrders_dd : legalIterationOrders [Mode.dense, Mode.dense] = [[0, 1], [1, 0]] := by
  decide

/-- the format entry of a `dd` tensor -/
theorem tensorId_dd (formats : Formats) (id : Nat) (name : String) (hm : isDD formats name = true)
    (i j : String) :
    tensorId id name formats [i, j] =
      some ⟨toString id ++ "_" ++ name, name, [i, j], [.dense, .dense]⟩ := by
  unfold isDD at hm
  unfold tensorId
  cases hfind : formats.find? (·.1 == name) with
  | none => simp [hfind] at hm
  | some f =>
    obtain ⟨n, modes, ord⟩ := f
    simp only [hfind, Bool.and_eq_true, beq_iff_eq] at hm
    obtain ⟨rfl, rfl⟩ := hm
    simp

theorem isDD_mem (formats : Formats) (name : String) (hm : isDD formats name = true) :
    name ∈ formats.map (·.1) := by
  unfold isDD at hm
  cases hfind : formats.find? (·.1 == name) with
  | none => simp [hfind] at hm
  | some f =>
    have h1 := List.mem_of_find?_eq_some hfind
    have h2 := List.find?_some hfind
    simp only [beq_iff_eq] at h2
    exact List.mem_map.2 ⟨f, h1, h2⟩

/-- a tensor has one format: `d` and `dd` exclude each other -/
theorem isDD_not_isD (formats : Formats) (name : String) (hm : isDD formats name = true) :
    isD formats name = false := by
  unfold isDD at hm
  unfold isD
  cases hfind : formats.find? (·.1 == name) with
  | none => simp [hfind] at hm
  | some f =>
    obtain ⟨n, modes, ord⟩ := f
    simp only [hfind, Bool.and_eq_true, beq_iff_eq] at hm
    obtain ⟨rfl, rfl⟩ := hm
    simp

/-- the three kinds of leaves, from `leafSh` -/
theorem leafSh_cases {i j tname : String} {formats : Formats} {name : String} {idx : List String}
    {s : Sh} (h : leafSh i j tname formats name idx = some s) :
    name ≠ tname ∧ ((s = .IJ ∧ idx = [i, j] ∧ isDD formats name = true) ∨
      (s = .J ∧ idx = [j] ∧ isD formats name = true) ∨ (s = .I ∧ idx = [i] ∧ isD formats name = true)) := by
  unfold leafSh at h
  split at h
  · cases h
  · rename_i hne
    refine ⟨fun e => hne (by simp [e]), ?_⟩
    split at h
    · rename_i hc; simp only [Bool.and_eq_true, beq_iff_eq] at hc; cases h; exact Or.inl ⟨rfl, hc⟩
    · split at h
      · rename_i hc; simp only [Bool.and_eq_true, beq_iff_eq] at hc; cases h
        exact Or.inr (Or.inl ⟨rfl, hc⟩)
      · split at h
        · rename_i hc; simp only [Bool.and_eq_true, beq_iff_eq] at hc; cases h
          exact Or.inr (Or.inr ⟨rfl, hc⟩)
        · cases h

theorem lit_shape {α : Type} [BEq α] {v z : α} {s : Sh}
    (h : (if (v == z) = true then none else some Sh.T) = some s) : s = .T ∧ (v == z) = false := by
  split at h
  · cases h
  · rename_i hv; cases h; exact ⟨rfl, by simpa using hv⟩

/-- **the first candidate of a contraction-free tree of the class** is the loop nest of its shape
around the terminal `toId2 d` -/
theorem graphsOf_head (i j tname : String) (formats : Formats) (hij : i ≠ j) (d : DExpr) :
    containsContraction d = false → ∀ s, shapeD i j tname formats d = some s →
    ∃ gs, graphsOf formats d = .ok gs ∧ gs.head? = some (shGraph i j s (toId2 d)) := by
  have e1 : (i == j) = false := beq_eq_false_iff_ne.2 hij
  have e2 : (j == i) = false := beq_eq_false_iff_ne.2 (Ne.symm hij)
  induction d with
  | int v =>
    intro _ s hs
    obtain ⟨rfl, _⟩ := lit_shape hs
    exact ⟨_, rfl, rfl⟩
  | flt v =>
    intro _ s hs
    obtain ⟨rfl, _⟩ := lit_shape hs
    exact ⟨_, rfl, rfl⟩
  | tensor id name idx =>
    intro _ s hs
    obtain ⟨_, ⟨rfl, rfl, hm⟩ | ⟨rfl, rfl, hm⟩ | ⟨rfl, rfl, hm⟩⟩ := leafSh_cases hs
    · simp only [graphsOf, tensorId_dd formats id name hm i j, hasDup, List.contains_cons,
        List.contains_nil, e1, Bool.or_self, Bool.false_eq_true, if_false, legalIterationOrders_dd]
      refine ⟨_, rfl, ?_⟩
      simp [shGraph, toId2]
    · simp only [graphsOf, tensorId_eq formats id name hm j, hasDup, List.contains_nil,
        Bool.or_self, Bool.false_eq_true, if_false, legalIterationOrders_dense1]
      refine ⟨_, rfl, ?_⟩
      simp [shGraph, toId2]
    · simp only [graphsOf, tensorId_eq formats id name hm i, hasDup, List.contains_nil,
        Bool.or_self, Bool.false_eq_true, if_false, legalIterationOrders_dense1]
      refine ⟨_, rfl, ?_⟩
      simp [shGraph, toId2]
  | add l r ihl ihr =>
    intro hp s hs
    simp only [containsContraction, Bool.or_eq_false_iff] at hp
    simp only [shapeD, Option.bind_eq_some_iff] at hs
    obtain ⟨a, ha, b, hb, hab⟩ := hs
    obtain ⟨ls, hl, hlh⟩ := ihl hp.1 a ha
    obtain ⟨rs, hr, hrh⟩ := ihr hp.2 b hb
    cases ls with
    | nil => simp at hlh
    | cons gl ls =>
      cases rs with
      | nil => simp at hrh
      | cons gr rs =>
        simp only [List.head?_cons, Option.some.injEq] at hlh hrh
        subst hlh hrh
        simp only [graphsOf, hl, hr, hp.1, hp.2, bind, Except.bind, pure, Except.pure,
          List.isEmpty_cons, Bool.false_eq_true, if_false, Bool.or_self, Bool.not_false, if_true]
        refine ⟨_, rfl, ?_⟩
        · apply head?_flatMap_cons
          apply head?_flatMap_cons
          exact mergeWith_sh .add i j hij a b s hab _ _
  | mul l r ihl ihr =>
    intro hp s hs
    simp only [containsContraction, Bool.or_eq_false_iff] at hp
    simp only [shapeD, Option.bind_eq_some_iff] at hs
    obtain ⟨a, ha, b, hb, hab⟩ := hs
    obtain ⟨ls, hl, hlh⟩ := ihl hp.1 a ha
    obtain ⟨rs, hr, hrh⟩ := ihr hp.2 b hb
    cases ls with
    | nil => simp at hlh
    | cons gl ls =>
      cases rs with
      | nil => simp at hrh
      | cons gr rs =>
        simp only [List.head?_cons, Option.some.injEq] at hlh hrh
        subst hlh hrh
        simp only [graphsOf, hl, hr, bind, Except.bind, pure, Except.pure,
          List.isEmpty_cons, Bool.false_eq_true, if_false]
        refine ⟨_, rfl, ?_⟩
        · apply head?_flatMap_cons
          apply head?_flatMap_cons
          exact mergeWith_sh .mul i j hij a b s hab _ _
  | contract k e ih => intro hp; simp [containsContraction] at hp

/-- **the contraction that `desugar` places is transparent for the graph builder** (no `add` node
lies above it, so the `simplify_add` path of `graphsOf` is never taken) -/
theorem graphsOf_strip (j : String) (formats : Formats) (d : DExpr) :
    oneC j d = true → graphsOf formats d = graphsOf formats (strip d) := by
  induction d with
  | int v => intro h; simp [oneC] at h
  | flt v => intro h; simp [oneC] at h
  | tensor id name idx => intro h; simp [oneC] at h
  | add l r _ _ => intro h; simp [oneC] at h
  | mul l r ihl ihr =>
    intro h
    simp only [oneC, Bool.or_eq_true, Bool.and_eq_true, Bool.not_eq_true'] at h
    rcases h with ⟨⟨h1, h2⟩, _⟩ | ⟨⟨h1, _⟩, h3⟩
    · simp only [graphsOf, strip, ihl h1, strip_of_plain r h2]
    · simp only [graphsOf, strip, ihr h3, strip_of_plain l h1]
  | contract k e _ =>
    intro h
    simp only [oneC, Bool.and_eq_true, Bool.not_eq_true'] at h
    simp only [graphsOf, strip, strip_of_plain e h.2]

/-- `toId2` does not see contractions -/
theorem toId2_strip (d : DExpr) : toId2 (strip d) = toId2 d := by
  induction d with
  | int v => rfl
  | flt v => rfl
  | tensor id name idx => rfl
  | add l r ihl ihr => simp only [strip, toId2, ihl, ihr]
  | mul l r ihl ihr => simp only [strip, toId2, ihl, ihr]
  | contract k e ih => simpa only [strip, toId2] using ih

/-- **the first candidate of an assignment of the class** is the graph of `Dense2`:
`i` (carrying the output) outside `j`, around the terminal -/
theorem toIterationGraphs_head (i j tname : String) (formats : Formats) (hij : i ≠ j)
    (hm : isD formats tname = true) (d : DExpr) (gs : List IGraph) (e : IdExpr) (s : Sh)
    (hs : s = .IJ ∨ s = .J) (hg : graphsOf formats d = .ok gs)
    (hh : gs.head? = some (shGraph i j s e)) :
    ∃ gs', toIterationGraphs ⟨tname, [i], d⟩ formats = .ok gs' ∧
      gs'.head? = some (.iter i (some ⟨outId tname i, 0⟩) (.iter j none (.terminal e))) := by
  have e1 : (i == j) = false := beq_eq_false_iff_ne.2 hij
  have ht : graphsOf formats (.tensor 0 tname [i]) =
      .ok [.iter i none (.terminal (.tensor (outId tname i)))] := by
    simp only [graphsOf, tensorId_out formats tname hm i, outId, hasDup, List.contains_nil,
      Bool.or_self, legalIterationOrders_dense1]
    rfl
  have hl : (List.range (outId tname i).indexes.length).map
      (fun l => ((outId tname i).indexes.getD l "", (⟨outId tname i, l⟩ : Leaf))) =
      [(i, ⟨outId tname i, 0⟩)] := by
    simp [outId, List.range, List.range.loop]
  cases gs with
  | nil => simp at hh
  | cons g gs =>
    simp only [List.head?_cons, Option.some.injEq] at hh
    subst hh
    unfold toIterationGraphs
    simp only [tensorId_out formats tname hm i, hl, ht, hg, bind, Except.bind, pure, Except.pure,
      List.isEmpty_cons, Bool.false_eq_true, if_false]
    refine ⟨_, rfl, ?_⟩
    · apply head?_flatMap_cons
      apply head?_flatMap_cons
      rcases hs with rfl | rfl
      · simp [shGraph, IGraph.size, mergeAssignment, layerOf]
      · simp [shGraph, IGraph.size, mergeAssignment, layerOf, IGraph.laterIndexes, e1]

end TV.Pipe2
